(* C02: the clock is monotone and equal to the running event's timestamp;
   scheduling at/after now succeeds, before now panics.  Stated over every
   state a runtime can be in -- before the run, between events, inside a
   handler, while paused -- by means of a transition system that
   over-approximates the runtime: any add_event at any moment, any budget
   decrement, any limit swap, and the dispatch of the next event. *)
From Coq Require Import List Arith NArith PArith Lia Bool Sorting.Sorted Permutation ZifyBool.
From DesVerif Require Import Common.Fuel Common.Codec CQueue.Model CQueue.Spec CQueue.ListX CQueue.SpecProps
  Runtime.Limit Runtime.Model Runtime.Queue Runtime.Inv Runtime.Prefix.
Import ListNotations.
Open Scope N_scope.

Inductive tr : rt -> rt -> Prop :=
| T_add s inh t l : tr s (add_event inh s t l)           (* add_event / add_event_in, from anywhere *)
| T_budget s : tr s (dec_budget s)                       (* bookkeeping of the scripted handlers *)
| T_limit s L : tr s (set_limit s L)                     (* step functions swap the limit *)
| T_fetch s l t : nextev (fes s) = Some (l, t) -> tr s (fetched s l t).   (* fetch_next; itr += 1; set_now(time) *)

Inductive reachable (S B : N) : rt -> Prop :=
| R_new L : reachable S B (rt_new repaired S B L)        (* Builder::start_time(S)...build() *)
| R_tr s s' : reachable S B s -> tr s s' -> reachable S B s'.

Lemma reachable_Inv S B s : reachable S B s -> Inv S s.
Proof.
  induction 1 as [L|s s' _ IH T]; [apply Inv_new|].
  destruct T as [s inh t l|s|s L|s l t E].
  - apply Inv_add; exact IH.
  - apply Inv_dec_budget; exact IH.
  - apply Inv_set_limit; exact IH.
  - apply Inv_fetched; assumption.
Qed.

(* ---- everything the model does stays inside the transition system ---- *)
Lemma reach_actions S B acts : forall s, reachable S B s -> reachable S B (do_actions acts s).
Proof.
  induction acts as [|[[k x] l] acts IH]; intros s H; cbn [do_actions]; [exact H|].
  destruct (budget s =? 0); [exact H|].
  destruct (k =? 0); apply IH; [unfold add_event_in|]; (eapply R_tr; [eapply R_tr; [exact H|apply T_budget]|apply T_add]).
Qed.

Lemma reach_ustep S B P s l t : reachable S B s -> nextev (fes s) = Some (l, t) -> reachable S B (ustep P s l t).
Proof.
  intros H E. rewrite ustep_fetched. unfold handle. apply reach_actions. eapply R_tr; [exact H|apply T_fetch; exact E].
Qed.

Lemma reach_iter S B P k : forall s s', reachable S B s -> iter_nat k (D P) s = inr s' -> reachable S B s'.
Proof.
  induction k as [|k IH]; intros s s' HR H; cbn [iter_nat] in H; [discriminate|].
  destruct (D_cases P s) as [[_ E]|[[l [t [_ [_ E]]]]|[l [t [En [_ E]]]]]]; rewrite E in H.
  - injection H as <-. exact HR.
  - injection H as <-. exact HR.
  - eapply IH; [|exact H]. apply reach_ustep; assumption.
Qed.

Lemma reach_dispatch_all S B P s s' : reachable S B s -> dispatch_all repaired P s = Some s' -> reachable S B s'.
Proof. intros HR H. apply dispatch_all_inv in H. eapply reach_iter; eassumption. Qed.

Lemma reach_with_limit S B P L s s' : reachable S B s -> with_limit repaired P L s = Some s' -> reachable S B s'.
Proof.
  unfold with_limit. intros HR H. destruct (dispatch_all repaired P (set_limit s L)) as [s1|] eqn:E; [|discriminate].
  injection H as <-. eapply R_tr; [|apply T_limit]. eapply reach_dispatch_all; [|exact E]. eapply R_tr; [exact HR|apply T_limit].
Qed.

Lemma reach_step S B P s o s' x : reachable S B s -> step repaired P s o = (Some s', x) -> reachable S B s'.
Proof.
  intros HR. destruct o as [k|T|t l]; cbn [step]; unfold dispatch_n_events, dispatch_events_until.
  - destruct (with_limit repaired P (LCount (itr s + k)) s) as [s1|] eqn:E; intros H; [|discriminate].
    injection H as <- _. eapply reach_with_limit; eassumption.
  - destruct (with_limit repaired P (LTime T) s) as [s1|] eqn:E; intros H; [|discriminate].
    injection H as <- _. eapply reach_with_limit; eassumption.
  - intros H. injection H as <- _. eapply R_tr; [exact HR|apply T_add].
Qed.

Lemma reach_sched S B P ops : forall s s' xs, reachable S B s -> exec_sched repaired P s ops = (Some s', xs) -> reachable S B s'.
Proof.
  induction ops as [|o ops IH]; intros s s' xs HR H; cbn [exec_sched] in H.
  - injection H as <- _. exact HR.
  - destruct (step repaired P s o) as [[s1|] x] eqn:E; [|discriminate].
    destruct (exec_sched repaired P s1 ops) as [s2 ys] eqn:E2. injection H as -> _.
    eapply IH; [|exact E2]. eapply reach_step; eassumption.
Qed.

Lemma reach_pre_adds S B pre : forall s, reachable S B s -> reachable S B (fst (pre_adds s pre)).
Proof.
  induction pre as [|[t l] pre IH]; intros s HR; cbn [pre_adds]; [exact HR|].
  specialize (IH (add_event false s t l) (R_tr S B _ _ HR (T_add s false t l))).
  destruct (pre_adds (add_event false s t l) pre) as [s2 xs]. exact IH.
Qed.

(* a whole stepped run of a script: boot, schedule, dispatch_all *)
Theorem run_reachable S B L pre P ops s1 xs sf :
  exec_sched repaired P (boot S B L pre) ops = (Some s1, xs) ->
  dispatch_all repaired P s1 = Some sf ->
  reachable S B (boot S B L pre) /\ reachable S B s1 /\ reachable S B sf.
Proof.
  intros H1 H2. assert (R0 : reachable S B (boot S B L pre)) by (apply reach_pre_adds; apply R_new).
  assert (R1 : reachable S B s1) by (eapply reach_sched; eassumption).
  split; [exact R0|]. split; [exact R1|]. eapply reach_dispatch_all; eassumption.
Qed.

(* ---- the clock ---- *)
Theorem clock_monotone S B s :
  reachable S B s ->
  S <= clock s /\ (forall s', tr s s' -> clock s <= clock s') /\
  StronglySorted N.le (S :: times (log s)) /\ clock s = last (times (log s)) S.
Proof.
  intros HR. pose proof (reachable_Inv S B s HR) as HI. split; [apply (I_start _ _ HI)|]. split; [|split].
  - intros s' T. destruct T as [s inh t l|s|s L|s l t E]; cbn [clock add_event dec_budget set_limit fetched]; try lia.
    destruct (nextev_fetch _ _ _ E) as [q' [F _]].
    destruct (fetch_tcur _ _ _ _ (I_si _ _ HI) E F) as [_ Hle]. rewrite <- (I_clk _ _ HI). exact Hle.
  - constructor; [apply (I_sorted _ _ HI)|]. eapply Forall_impl; [|apply (I_bound _ _ HI)]. cbn. intros y Hy. lia.
  - apply (I_last _ _ HI).
Qed.

(* the only transition that changes the clock is the dispatch of an event; it
   sets it to the timestamp the event was scheduled with, and the handler logs
   exactly that pair *)
Theorem now_is_event_time S B s s' :
  reachable S B s -> tr s s' ->
  clock s' = clock s \/
  exists l t, nextev (fes s) = Some (l, t) /\ In (t, l) (pend (fes s)) /\ s' = fetched s l t /\
              clock s' = t /\ log s' = log s ++ [(l, t)] /\ pend (fes s) = (t, l) :: pend (fes s').
Proof.
  intros HR T. destruct T as [s inh t l|s|s L|s l t E]; try (left; reflexivity).
  right. exists l, t. destruct (nextev_fetch _ _ _ E) as [q' [F [Ep _]]].
  split; [exact E|]. split; [rewrite Ep; left; reflexivity|]. split; [reflexivity|]. split; [reflexivity|].
  split; [reflexivity|]. unfold fetched. cbn [fes]. rewrite F. exact Ep.
Qed.

(* handled in non-decreasing timestamp order, each scheduled event exactly once:
   the accepted add_event calls are, as a multiset of (time, label), the
   handled ones (logged with now() = that time) plus the still pending ones *)
Theorem dispatch_sorted_once S B s :
  reachable S B s ->
  StronglySorted N.le (times (log s)) /\
  Permutation (accepted (adds s)) (handled (log s) ++ pend (fes s)) /\
  itr s = N.of_nat (length (log s)).
Proof.
  intros HR. pose proof (reachable_Inv S B s HR) as HI.
  split; [apply (I_sorted _ _ HI)|]. split; [apply (I_acct _ _ HI)|apply (I_itr _ _ HI)].
Qed.

Definition last_rec (s : rt) : option add_rec := match rev (adds s) with r :: _ => Some r | [] => None end.

Lemma last_rec_add inh s t l :
  last_rec (add_event inh s t l) =
  Some {| a_time := t; a_label := l; a_now := clock s; a_ctx := if inh then itr s else 0;
          a_ok := added_ok (snd (sp_add (fes s) t l)) |}.
Proof. unfold last_rec, add_event. cbn [adds]. rewrite rev_app_distr. reflexivity. Qed.

Theorem add_at_or_after_now_ok S B s inh t l :
  reachable S B s -> clock s <= t ->
  option_map a_ok (last_rec (add_event inh s t l)) = Some true /\
  Permutation (pend (fes (add_event inh s t l))) ((t, l) :: pend (fes s)) /\
  clock (add_event inh s t l) = clock s.
Proof.
  intros HR Hle. pose proof (reachable_Inv S B s HR) as HI. rewrite <- (I_clk _ _ HI) in Hle.
  destruct (sp_add_ok (fes s) t l Hle) as [Eo [_ [Ep _]]]. cbn zeta in *.
  rewrite last_rec_add. cbn [option_map a_ok]. rewrite Eo. split; [reflexivity|]. split; [exact Ep|reflexivity].
Qed.

Theorem add_before_now_panics S B s inh t l :
  reachable S B s -> t < clock s ->
  option_map a_ok (last_rec (add_event inh s t l)) = Some false /\
  fes (add_event inh s t l) = fes s /\ clock (add_event inh s t l) = clock s /\ log (add_event inh s t l) = log s.
Proof.
  intros HR Hlt. pose proof (reachable_Inv S B s HR) as HI. rewrite <- (I_clk _ _ HI) in Hlt.
  rewrite last_rec_add. unfold add_event. cbn [option_map a_ok fes clock log]. rewrite (sp_add_past _ _ _ Hlt).
  repeat split.
Qed.

(* add_event_in never panics: now + delay is never before now *)
Corollary add_event_in_ok S B s d l :
  reachable S B s -> option_map a_ok (last_rec (add_event_in s d l)) = Some true.
Proof. intros HR. unfold add_event_in. apply (add_at_or_after_now_ok S B s true (clock s + d) l HR). lia. Qed.

(* every recorded attempt, wherever it was made, was accepted iff its time was not before now() *)
Theorem all_adds_ok_iff S B s : reachable S B s -> Forall (fun r => a_ok r = (a_now r <=? a_time r)) (adds s).
Proof. intros HR. apply (I_adds _ _ (reachable_Inv S B s HR)). Qed.
