(* Names for the runtime over an event set [E : evset] (Runtime/Generic.v with
   the operations of E plugged in), used by the statements in Properties/. *)
From Coq Require Import List NArith.
From DesVerif Require Import Runtime.Limit Runtime.Model Runtime.Generic Runtime.EvSet Runtime.GenericProps Runtime.GenericPrefix Runtime.GenericStep.
Import ListNotations.
Open Scope N_scope.

Section EvRuntime.
Variable E : evset.
Variable orc : N -> eHint E.                     (* dispatch number -> hint for fetch_next *)
Definition ev_rt : Type := grt (eQ E).
Definition ev_boot (S B : N) (L : lim) (pre : list (N * N)) : ev_rt := gboot (eQ E) (e_new E) (e_add E) S B L pre.
Definition ev_add (inh : bool) (s : ev_rt) (t l : N) : ev_rt := gadd_event (eQ E) (e_add E) inh s t l.
Definition ev_dispatch_all (P : prog) (s : ev_rt) : option ev_rt :=
  gdispatch_all (eQ E) (eHint E) (e_add E) (e_peek E) (e_fetch E) (e_len E) orc P s.
Definition ev_with_limit (P : prog) (L : lim) (s : ev_rt) : option ev_rt :=
  gwith_limit (eQ E) (eHint E) (e_add E) (e_peek E) (e_fetch E) (e_len E) orc P L s.
Definition ev_dispatch_n_events (P : prog) (s : ev_rt) (k : N) : option ev_rt :=
  gdispatch_n_events (eQ E) (eHint E) (e_add E) (e_peek E) (e_fetch E) (e_len E) orc P s k.
Definition ev_dispatch_events_until (P : prog) (s : ev_rt) (T : N) : option ev_rt :=
  gdispatch_events_until (eQ E) (eHint E) (e_add E) (e_peek E) (e_fetch E) (e_len E) orc P s T.
Definition ev_step (P : prog) (s : ev_rt) (o : sop) : option ev_rt * sout :=
  gstep (eQ E) (eHint E) (e_add E) (e_peek E) (e_fetch E) (e_len E) orc P s o.
Definition ev_exec_sched (P : prog) (s : ev_rt) (ops : list sop) : option ev_rt * list sout :=
  gexec_sched (eQ E) (eHint E) (e_add E) (e_peek E) (e_fetch E) (e_len E) orc P s ops.
Definition ev_remaining (s : ev_rt) : list (N * N) := gremaining (eQ E) (eHint E) (e_fetch E) (e_len E) orc s.
Definition ev_finish (s : ev_rt) : sout := gfinish (eQ E) (eHint E) (e_fetch E) (e_len E) orc s.
Definition ev_status (s : ev_rt) : sout := gstatus (eQ E) (e_len E) s.
Definition ev_run_block (sc : script) (L : lim) (sched : list sop) : list sout :=
  fst (grun_block (eQ E) (eHint E) (e_new E) (e_add E) (e_peek E) (e_fetch E) (e_len E) orc sc L sched).
(* what the runtime would still dispatch from s if it ran to the end without a limit *)
Definition ev_rest (P : prog) (s : ev_rt) : list (N * N) := grest E orc P s.
Definition ev_set_limit (s : ev_rt) (L : lim) : ev_rt := gset_limit (eQ E) s L.
Definition ev_log (s : ev_rt) : list (N * N) := glog (eQ E) s.
Definition ev_adds (s : ev_rt) : list add_rec := gadds (eQ E) s.
Definition ev_clock (s : ev_rt) : N := gclock (eQ E) s.
Definition ev_itr (s : ev_rt) : N := gitr (eQ E) s.
Definition ev_fes (s : ev_rt) : eQ E := gfes (eQ E) s.
End EvRuntime.
