(* Properties of the BinaryHeap event set (Runtime/HeapSet.v), for EVERY oracle
   that resolves the choice among equal timestamps:
   A. its invariant and the six facts of Runtime/GenericProps.v, hence the
      runtime-level statements of C02 for the runtime over this backend;
   B. for cancel-free operation histories: time order, exactly-once accounting,
      the len formula, peek_time = time of the next fetch, and the refinement of
      the two-list specification CQueue.Spec up to the order among equal
      timestamps of entries that are not in the zero queue. *)
From Coq Require Import List Arith NArith PArith Lia Bool Sorting.Sorted Permutation ZifyBool.
From DesVerif Require Import Common.Fuel Common.Codec CQueue.Model CQueue.Spec CQueue.ListX CQueue.SpecProps
  Runtime.Limit Runtime.Model Runtime.Queue Runtime.Inv Runtime.HeapSet Runtime.Generic Runtime.EvSet Runtime.GenericProps Runtime.HeapRt.
Import ListNotations.
Open Scope N_scope.

(* ---- min_time / cands / remove1 ---- *)
Lemma min_time_none l : min_time l = None -> l = [].
Proof. destruct l as [|e r]; [reflexivity|]. cbn [min_time]. destruct (min_time r); discriminate. Qed.

Lemma min_time_le l : forall m, min_time l = Some m -> Forall (fun e => m <= fst e) l.
Proof.
  induction l as [|e r IH]; intros m H; cbn [min_time] in H; [discriminate|].
  destruct (min_time r) as [m'|] eqn:E.
  - injection H as <-. constructor; [lia|]. eapply Forall_impl; [|apply (IH m' eq_refl)]. cbn. intros x Hx. lia.
  - injection H as <-. rewrite (min_time_none r E). constructor; [lia|constructor].
Qed.

Lemma min_time_in l : forall m, min_time l = Some m -> exists e, In e l /\ fst e = m.
Proof.
  induction l as [|e r IH]; intros m H; cbn [min_time] in H; [discriminate|].
  destruct (min_time r) as [m'|] eqn:E.
  - injection H as <-. destruct (N.le_gt_cases (fst e) m') as [Hle|Hgt].
    + exists e. split; [left; reflexivity|lia].
    + destruct (IH m' eq_refl) as [x [Hx Ex]]. exists x. split; [right; exact Hx|lia].
  - injection H as <-. exists e. split; [left; reflexivity|reflexivity].
Qed.

Lemma cands_spec l m : min_time l = Some m ->
  cands l <> [] /\ forall e, In e (cands l) -> In e l /\ fst e = m.
Proof.
  intros H. unfold cands. rewrite H. split.
  - destruct (min_time_in l m H) as [e [He Ee]]. intros Hn.
    assert (Hin : In e (filter (fun x => fst x =? m) l)) by (apply filter_In; split; [exact He|lia]).
    rewrite Hn in Hin. destruct Hin.
  - intros e He. apply filter_In in He. destruct He as [He Ee]. split; [exact He|lia].
Qed.

Lemma pair_eqb_eq a b : pair_eqb a b = true <-> a = b.
Proof. unfold pair_eqb. destruct a as [a1 a2], b as [b1 b2]. cbn [fst snd]. split; [intros H; f_equal; lia|intros H; injection H as -> ->; lia]. Qed.

Lemma remove1_perm e l : In e l -> Permutation l (e :: remove1 e l).
Proof.
  induction l as [|x l IH]; intros H; [destruct H|]. cbn [remove1]. destruct (pair_eqb x e) eqn:E.
  - apply pair_eqb_eq in E. subst x. reflexivity.
  - destruct H as [->|H]; [rewrite (proj2 (pair_eqb_eq e e) eq_refl) in E; discriminate|].
    rewrite (IH H) at 1. apply perm_swap.
Qed.

(* ---- A. invariant and interface facts ---- *)
Definition HI (h : hs) : Prop :=
  Forall (fun e => fst e = hlast h) (hzero h) /\ Forall (fun e => hlast h <= fst e) (hbag h).

Definition hpend (h : hs) : list (N * N) := hzero h ++ hbag h.

Lemma heap_new S : HI (hp_new S) /\ hlast (hp_new S) = S /\ hpend (hp_new S) = [].
Proof. repeat split; constructor. Qed.

Lemma heap_add_lt h t l : HI h -> t < hlast h -> hp_add h t l = (h, false).
Proof. intros _ H. unfold hp_add. apply N.ltb_lt in H. rewrite H. reflexivity. Qed.

Lemma heap_add_ge h t l : HI h -> hlast h <= t ->
  exists h', hp_add h t l = (h', true) /\ HI h' /\ hlast h' = hlast h /\ Permutation (hpend h') ((t, l) :: hpend h).
Proof.
  intros [Hz Hb] Hle. unfold hp_add. apply N.ltb_ge in Hle. rewrite Hle. apply N.ltb_ge in Hle.
  destruct (hlast h =? t) eqn:E; eexists; (split; [reflexivity|]); unfold HI, hpend; cbn [hzero hbag hlast].
  - split; [split; [|exact Hb]|split; [reflexivity|]].
    + apply Forall_app. split; [exact Hz|]. constructor; [cbn; lia|constructor].
    + rewrite <- app_assoc. cbn [app]. symmetry. apply Permutation_middle.
  - split; [split; [exact Hz|]|split; [reflexivity|]].
    + apply Forall_app. split; [exact Hb|]. constructor; [cbn; lia|constructor].
    + rewrite app_assoc. symmetry. apply Permutation_cons_append.
Qed.

Lemma heap_len h : HI h -> hp_len h = N.of_nat (length (hpend h)).
Proof. intros _. unfold hp_len, hpend. rewrite app_length. reflexivity. Qed.

Lemma heap_peek_none h : HI h -> hp_peek h = None -> hpend h = [].
Proof.
  intros _. unfold hp_peek, hpend. destruct (hzero h); [|discriminate]. intros H. rewrite (min_time_none _ H). reflexivity.
Qed.

Lemma heap_fetch h t pick : HI h -> hp_peek h = Some t ->
  exists h' l, hp_fetch pick h = (h', Some (t, l)) /\ HI h' /\ hlast h' = t /\ hlast h <= t /\
               Permutation (hpend h) ((t, l) :: hpend h') /\ Forall (fun e => t <= fst e) (hpend h).
Proof.
  intros [Hz Hb]. unfold hp_peek, hp_fetch, hpend, HI. destruct (hzero h) as [|[tx lx] z] eqn:Ez.
  - intros Hm. destruct (cands_spec _ _ Hm) as [Hne Hc]. destruct (cands (hbag h)) as [|c cs] eqn:Ec; [congruence|].
    set (e := nth (pick (c :: cs)) (c :: cs) c).
    assert (Hin : In e (c :: cs)).
    { subst e. destruct (Nat.lt_ge_cases (pick (c :: cs)) (length (c :: cs))) as [Hlt|Hge].
      - apply nth_In. exact Hlt.
      - rewrite nth_overflow by exact Hge. left; reflexivity. }
    destruct (Hc e Hin) as [Hb' Et]. pose proof (min_time_le _ _ Hm) as Hmin.
    exists {| hzero := []; hbag := remove1 e (hbag h); hlast := fst e |}, (snd e).
    split; [rewrite <- Et; destruct e; reflexivity|]. cbn [hzero hbag hlast app].
    pose proof (remove1_perm e (hbag h) Hb') as P.
    split; [split; [constructor|]|].
    + rewrite Et. assert (F : Forall (fun x => t <= fst x) (e :: remove1 e (hbag h))).
      { rewrite Forall_forall in *. intros x Hx. apply Hmin. apply (Permutation_in _ (Permutation_sym P)). exact Hx. }
      inversion F; assumption.
    + split; [exact Et|]. split.
      { rewrite Forall_forall in Hb. rewrite <- Et. apply (Hb e Hb'). }
      split; [|exact Hmin]. replace (t, snd e) with e by (rewrite <- Et; apply surjective_pairing). exact P.
  - intros E. injection E as <-. inversion Hz as [|? ? Hx Hz']; subst. cbn [fst] in Hx.
    exists {| hzero := z; hbag := hbag h; hlast := tx |}, lx. split; [reflexivity|]. cbn [hzero hbag hlast fst].
    split; [split|].
    + eapply Forall_impl; [|exact Hz']. cbn. intros x Ex. lia.
    + eapply Forall_impl; [|exact Hb]. cbn. intros x Ex. lia.
    + split; [reflexivity|]. split; [lia|]. split; [reflexivity|].
      cbn [app]. constructor; [cbn; lia|]. apply Forall_app. split.
      * eapply Forall_impl; [|exact Hz']. cbn. intros x Ex. lia.
      * eapply Forall_impl; [|exact Hb]. cbn. intros x Ex. lia.
Qed.

Lemma heap_fetch' h t pick : HI h -> hp_peek h = Some t ->
  exists h' l, hp_fetch pick h = (h', Some (t, l)) /\ HI h' /\ hlast h' = t /\ hlast h <= t /\
               Permutation (hpend h) ((t, l) :: hpend h').
Proof. intros H1 H2. destruct (heap_fetch h t pick H1 H2) as [h' [l [A [B [C [D [E _]]]]]]]. exists h', l. split; [exact A|]. split; [exact B|]. split; [exact C|]. split; [exact D|exact E]. Qed.

(* the BinaryHeap backend as an event set in the sense of Runtime/EvSet.v *)
Definition heap_evset : evset :=
  {| eQ := hs; eHint := hint; e_new := hp_new; e_add := hp_add; e_peek := hp_peek; e_fetch := hp_fetch; e_len := hp_len;
     eI := HI; e_clock := hlast; e_pend := hpend;
     e_new_ok := heap_new; e_add_lt := heap_add_lt; e_add_ge := heap_add_ge; e_len_ok := heap_len;
     e_peek_none := heap_peek_none; e_fetch_ok := heap_fetch' |}.

(* the runtime over the heap backend, any oracle: every loop terminates; the
   booted, every paused and the final state satisfy the clauses of C02 *)
Definition hgood (orc : N -> hint) : N -> hrt -> Prop := ggood heap_evset orc.

Theorem heap_runtime_good (orc : N -> hint) S B L pre P ops :
  exists s1 xs sf,
    hexec_sched orc P (hboot S B L pre) ops = (Some s1, xs) /\ ~ In OFuel xs /\ hdispatch_all orc P s1 = Some sf /\
    hgood orc S (hboot S B L pre) /\ hgood orc S s1 /\ hgood orc S sf.
Proof. apply (grun_good heap_evset orc). Qed.

Theorem heap_dispatch_now (orc : N -> hint) S B L pre P ops s1 xs s' :
  hexec_sched orc P (hboot S B L pre) ops = (Some s1, xs) ->
  gdispatch_event hs hint hp_add hp_peek hp_fetch orc P s1 = inl s' ->
  exists t l, In (t, l) (hpend (gfes hs s1)) /\ gclock hs s1 <= t /\ gclock hs s' = t /\ glog hs s' = glog hs s1 ++ [(l, t)].
Proof. apply (gdispatch_now heap_evset orc). Qed.

(* ---- B. operation histories ---- *)
Definition adds_of (o : op) (x : out) : list (N * N) :=
  match o, x with Add t p, OAdded => [(p, t)] | _, _ => [] end.
Definition fetch_of (x : out) : list (N * N) := match x with OFetched p t => [(p, t)] | _ => [] end.

Fixpoint accepted_adds (ops : list op) (outs : list out) : list (N * N) :=
  match ops, outs with
  | o :: r, x :: xs => adds_of o x ++ accepted_adds r xs
  | _, _ => []
  end.

Definition hpend_pt (h : hs) : list (N * N) := map (fun e => (snd e, fst e)) (hpend h).

Lemma fetched_outs_cons x xs : fetched_outs (x :: xs) = fetch_of x ++ fetched_outs xs.
Proof. destruct x; reflexivity. Qed.

Lemma hp_step_acct pick h o :
  HI h -> HI (fst (hp_step pick h o)) /\
          Permutation (adds_of o (snd (hp_step pick h o)) ++ hpend_pt h)
                      (fetch_of (snd (hp_step pick h o)) ++ hpend_pt (fst (hp_step pick h o))).
Proof.
  intros HIh. destruct o as [t p|k| | | | |]; cbn [hp_step]; try (split; [exact HIh|reflexivity]).
  - destruct (N.lt_ge_cases t (hlast h)) as [Hlt|Hge].
    + rewrite (heap_add_lt h t p HIh Hlt). cbn [fst snd adds_of fetch_of app]. split; [exact HIh|reflexivity].
    + destruct (heap_add_ge h t p HIh Hge) as [h' [E [HI' [_ P']]]]. rewrite E. cbn [fst snd adds_of fetch_of app].
      split; [exact HI'|]. unfold hpend_pt. rewrite P'. reflexivity.
  - destruct (hp_peek h) as [t|] eqn:Ep.
    + destruct (heap_fetch h t pick HIh Ep) as [h' [l [E [HI' [_ [_ [P' _]]]]]]]. rewrite E.
      cbn [fst snd adds_of fetch_of app]. split; [exact HI'|]. unfold hpend_pt. rewrite P'. reflexivity.
    + pose proof (heap_peek_none h HIh Ep) as En. unfold hpend in En. apply app_eq_nil in En. destruct En as [Ez Eb].
      unfold hp_fetch. rewrite Ez, Eb. cbn. split; [exact HIh|reflexivity].
Qed.

Lemma hp_run_acct orc ops : forall i h,
  HI h ->
  HI (fst (hp_run_from orc i h ops)) /\
  Permutation (accepted_adds ops (snd (hp_run_from orc i h ops)) ++ hpend_pt h)
              (fetched_outs (snd (hp_run_from orc i h ops)) ++ hpend_pt (fst (hp_run_from orc i h ops))).
Proof.
  induction ops as [|o ops IH]; intros i h HIh; cbn [hp_run_from]; [split; [exact HIh|reflexivity]|].
  destruct (hp_step_acct (orc i) h o HIh) as [HI1 P1]. destruct (hp_step (orc i) h o) as [h1 x]. cbn [fst snd] in *.
  destruct (IH (S i) h1 HI1) as [HI2 P2]. destruct (hp_run_from orc (S i) h1 ops) as [h2 xs]. cbn [fst snd] in *.
  split; [exact HI2|]. cbn [accepted_adds]. rewrite fetched_outs_cons.
  rewrite <- !app_assoc.
  transitivity (accepted_adds ops xs ++ adds_of o x ++ hpend_pt h).
  { rewrite !app_assoc. apply Permutation_app_tail. apply Permutation_app_comm. }
  rewrite P1. transitivity (fetch_of x ++ accepted_adds ops xs ++ hpend_pt h1).
  { rewrite !app_assoc. apply Permutation_app_tail. apply Permutation_app_comm. }
  apply Permutation_app_head. exact P2.
Qed.

(* every accepted add is fetched exactly once with its timestamp, or still pending *)
Theorem heap_exactly_once (orc : oracle) ts ops :
  let r := hp_run_from orc 0 (hp_new ts) ops in
  Permutation (accepted_adds ops (snd r)) (fetched_outs (snd r) ++ hpend_pt (fst r)).
Proof.
  cbn zeta. destruct (hp_run_acct orc ops 0%nat (hp_new ts) (proj1 (heap_new ts))) as [_ P].
  unfold hpend_pt at 1 in P. cbn in P. rewrite app_nil_r in P. exact P.
Qed.

(* len = accepted - fetched *)
Theorem heap_len_formula (orc : oracle) ts ops :
  let r := hp_run_from orc 0 (hp_new ts) ops in
  (N.to_nat (hp_len (fst r)) + length (fetched_outs (snd r)) = length (accepted_adds ops (snd r)))%nat.
Proof.
  cbn zeta. pose proof (heap_exactly_once orc ts ops) as P. cbn zeta in P. apply Permutation_length in P.
  rewrite app_length in P. unfold hpend_pt in P. rewrite map_length in P.
  unfold hp_len. rewrite Nat2N.id. unfold hpend in P. rewrite app_length in P. lia.
Qed.

Lemma heap_reachable_HI (orc : oracle) ts ops : HI (fst (hp_run_from orc 0 (hp_new ts) ops)).
Proof. apply hp_run_acct. apply heap_new. Qed.

(* peek_time is the time of what fetch_next returns next (whatever the oracle),
   the earliest pending time; it is None exactly on the empty set; it changes nothing *)
Theorem heap_peek_is_next_fetch (orc : oracle) ts ops :
  let h := fst (hp_run_from orc 0 (hp_new ts) ops) in
  (hp_peek h = None <-> hp_len h = 0) /\
  (forall t, hp_peek h = Some t ->
     Forall (fun e => t <= fst e) (hpend h) /\
     forall pick, exists p h', hp_step pick h Fetch = (h', OFetched p t) /\ hlast h' = t) /\
  (forall pick, fst (hp_step pick h Peek) = h).
Proof.
  cbn zeta. pose proof (heap_reachable_HI orc ts ops) as HIh. set (h := fst (hp_run_from orc 0 (hp_new ts) ops)) in *.
  split; [|split].
  - split.
    + intros H. rewrite (heap_len h HIh), (heap_peek_none h HIh H). reflexivity.
    + intros H. unfold hp_len in H. unfold hp_peek. destruct (hzero h); [|cbn in H; lia]. destruct (hbag h); [reflexivity|cbn in H; lia].
  - intros t Ht. split.
    + destruct (heap_fetch h t (fun _ => O) HIh Ht) as [_ [_ [_ [_ [_ [_ [_ F]]]]]]]. exact F.
    + intros pick. destruct (heap_fetch h t pick HIh Ht) as [h' [l [E [_ [C _]]]]]. exists l, h'. cbn [hp_step]. rewrite E. split; [reflexivity|exact C].
  - reflexivity.
Qed.

(* ---- refinement of the two-list specification up to ties ---- *)
Record HR (h : hs) (s : sp) : Prop := {
  HR_hi : HI h;
  HR_si : SI s;
  HR_zero : hzero h = map evp (s_zero s);                              (* the zero queues are identical *)
  HR_bag : Permutation (map fst (hbag h)) (map etime (s_rest s));       (* the rest: the same timestamps *)
  HR_last : hlast h = s_tcur s }.

Definition zflag_sp (a : sst) (o : op) : bool :=
  match o with Fetch => match s_zero (ss a) with [] => false | _ => true end | _ => false end.
Definition zflag_hp (h : hs) (o : op) : bool :=
  match o with Fetch => match hzero h with [] => false | _ => true end | _ => false end.

(* outputs paired with "this fetch was served by the zero queue" *)
Fixpoint sp_trace (a : sst) (ops : list op) : list (out * bool) :=
  match ops with
  | [] => []
  | o :: r => (snd (sp_step a o), zflag_sp a o) :: sp_trace (fst (sp_step a o)) r
  end.
Fixpoint hp_trace (orc : oracle) (i : nat) (h : hs) (ops : list op) : list (out * bool) :=
  match ops with
  | [] => []
  | o :: r => (snd (hp_step (orc i) h o), zflag_hp h o) :: hp_trace orc (S i) (fst (hp_step (orc i) h o)) r
  end.

Lemma sp_trace_outs ops : forall a, map fst (sp_trace a ops) = snd (sp_run_from a ops).
Proof.
  induction ops as [|o ops IH]; intros a; cbn [sp_trace sp_run_from map]; [reflexivity|].
  rewrite IH. destruct (sp_step a o) as [a' x]. cbn [fst snd]. destruct (sp_run_from a' ops) as [a'' xs]. reflexivity.
Qed.
Lemma hp_trace_outs orc ops : forall i h, map fst (hp_trace orc i h ops) = snd (hp_run_from orc i h ops).
Proof.
  induction ops as [|o ops IH]; intros i h; cbn [hp_trace hp_run_from map]; [reflexivity|].
  rewrite IH. destruct (hp_step (orc i) h o) as [h' x]. cbn [fst snd]. destruct (hp_run_from orc (S i) h' ops) as [h'' xs]. reflexivity.
Qed.

(* same answer, except that a fetch may return another payload with the same time *)
Definition same_time (x y : out) : Prop :=
  match x, y with
  | OFetched _ t, OFetched _ t' => t = t'
  | _, _ => x = y
  end.
(* both or neither served by the zero queue; if so the very same answer *)
Definition agree (x y : out * bool) : Prop :=
  snd x = snd y /\ if snd x then fst x = fst y else same_time (fst x) (fst y).

Lemma min_of_perm l m a rs :
  min_time l = Some m -> Permutation (map fst l) (a :: rs) -> Forall (fun x => a <= x) rs -> m = a.
Proof.
  intros Hm P Hle. pose proof (min_time_le _ _ Hm) as Hmin. destruct (min_time_in _ _ Hm) as [e [He Ee]].
  assert (H1 : In a (map fst l)) by (apply (Permutation_in _ (Permutation_sym P)); left; reflexivity).
  apply in_map_iff in H1. destruct H1 as [x [Ex Hx]]. rewrite Forall_forall in Hmin. specialize (Hmin x Hx).
  assert (H2 : In m (a :: rs)) by (apply (Permutation_in _ P); rewrite <- Ee; apply in_map; exact He).
  destruct H2 as [H2|H2]; [lia|]. rewrite Forall_forall in Hle. specialize (Hle m H2). lia.
Qed.

Lemma rest_head_min s y r : SI s -> s_rest s = y :: r -> Forall (fun x => etime y <= x) (map etime r).
Proof.
  intros [Hs _ _ _ _] E. rewrite E in Hs. inversion Hs as [|? ? _ Hall]; subst.
  rewrite Forall_forall in *. intros x Hx. apply in_map_iff in Hx. destruct Hx as [z [<- Hz]].
  specialize (Hall z Hz). unfold key_lt in Hall. lia.
Qed.

Lemma bag_empty_iff h s : HR h s -> (hbag h = [] <-> s_rest s = []).
Proof.
  intros R. pose proof (Permutation_length (HR_bag _ _ R)) as L. rewrite !map_length in L.
  split; intros E; rewrite E in L; cbn in L; [destruct (s_rest s)|destruct (hbag h)]; try reflexivity; discriminate.
Qed.

Lemma heap_step_sim pick h a o :
  heap_op o = true -> HR h (ss a) ->
  agree (snd (hp_step pick h o), zflag_hp h o) (snd (sp_step a o), zflag_sp a o) /\
  HR (fst (hp_step pick h o)) (ss (fst (sp_step a o))).
Proof.
  intros Ho R. pose proof R as [HIh HS Ez Eb El]. pose proof HIh as [Hz Hb].
  destruct o as [t p|k| | | | |]; try discriminate; cbn [hp_step sp_step zflag_hp zflag_sp].
  - (* add *)
    unfold hp_add, sp_add. rewrite El. rewrite El in Hz, Hb. destruct (t <? s_tcur (ss a)) eqn:E1.
    + cbn. split; [split; reflexivity|exact R].
    + rewrite (N.eqb_sym (s_tcur (ss a)) t). apply N.ltb_ge in E1. destruct (t =? s_tcur (ss a)) eqn:E2; cbn [fst snd ss].
      * split; [split; reflexivity|]. apply N.eqb_eq in E2.
        pose proof (SI_add (ss a) t p HS) as HS'. unfold sp_add in HS'.
        replace (t <? s_tcur (ss a)) with false in HS' by lia. replace (t =? s_tcur (ss a)) with true in HS' by lia. cbn [fst] in HS'.
        constructor; cbn [hzero hbag hlast s_zero s_rest s_tcur]; try assumption; try reflexivity.
        -- split; cbn [hzero hbag hlast]; [|exact Hb]. apply Forall_app. split; [exact Hz|]. constructor; [cbn; lia|constructor].
        -- rewrite Ez, map_app. reflexivity.
      * split; [split; reflexivity|]. apply N.eqb_neq in E2.
        pose proof (SI_add (ss a) t p HS) as HS'. unfold sp_add in HS'.
        replace (t <? s_tcur (ss a)) with false in HS' by lia. replace (t =? s_tcur (ss a)) with false in HS' by lia. cbn [fst] in HS'.
        constructor; cbn [hzero hbag hlast s_zero s_rest s_tcur]; try assumption; try reflexivity.
        -- split; cbn [hzero hbag hlast]; [exact Hz|]. apply Forall_app. split; [exact Hb|]. constructor; [cbn; lia|constructor].
        -- rewrite map_app. cbn [map fst]. rewrite (Permutation_map etime (sins_perm _ _)). cbn [map etime].
           rewrite <- Permutation_cons_append. constructor. exact Eb.
  - (* fetch *)
    unfold hp_fetch, sp_fetch. destruct (s_zero (ss a)) as [|y z] eqn:Esz; cbn [map] in Ez; rewrite Ez.
    + destruct (s_rest (ss a)) as [|y r] eqn:Er.
      * rewrite (proj2 (bag_empty_iff _ _ R) Er). cbn. split; [split; reflexivity|exact R].
      * assert (Hne : hbag h <> []) by (intros E; apply (bag_empty_iff _ _ R) in E; congruence).
        destruct (min_time (hbag h)) as [m|] eqn:Em; [|apply min_time_none in Em; contradiction].
        try rewrite Er in Eb. cbn [map] in Eb.
        assert (m = etime y) as -> by (eapply min_of_perm; [exact Em|exact Eb|eapply rest_head_min; eassumption]).
        destruct (cands_spec _ _ Em) as [Hcn Hc]. destruct (cands (hbag h)) as [|c cs] eqn:Ec; [congruence|].
        set (e := nth (pick (c :: cs)) (c :: cs) c).
        assert (Hin : In e (c :: cs)).
        { subst e. destruct (Nat.lt_ge_cases (pick (c :: cs)) (length (c :: cs))) as [Hlt|Hge];
            [apply nth_In; exact Hlt|rewrite nth_overflow by exact Hge; left; reflexivity]. }
        destruct (Hc e Hin) as [Hb' Et]. cbn [fst snd ss]. split; [split; [reflexivity|cbn; exact Et]|].
        pose proof (SI_fetch (ss a) HS) as HS'. unfold sp_fetch in HS'. rewrite Esz, Er in HS'. cbn [fst] in HS'.
        pose proof (remove1_perm e (hbag h) Hb') as P.
        constructor; cbn [hzero hbag hlast s_zero s_rest s_tcur]; try assumption; try reflexivity.
        -- split; cbn [hzero hbag hlast]; [constructor|]. rewrite Et.
           pose proof (min_time_le _ _ Em) as Hmin. rewrite Forall_forall in *. intros x Hx. apply Hmin.
           apply (Permutation_in _ (Permutation_sym P)). right; exact Hx.
        -- apply (Permutation_map fst) in P. cbn [map] in P. rewrite P, Et in Eb. apply Permutation_cons_inv in Eb. exact Eb.
    + destruct (evp y) as [ty py] eqn:Ey. unfold evp in Ey. injection Ey as <- <-. cbn [fst snd ss].
      split; [split; reflexivity|].
      pose proof (SI_fetch (ss a) HS) as HS'. unfold sp_fetch in HS'. rewrite Esz in HS'. cbn [fst] in HS'.
      assert (Ety : etime y = s_tcur (ss a)) by (apply (SI_ztime _ HS); rewrite Esz; left; reflexivity).
      constructor; cbn [hzero hbag hlast s_zero s_rest s_tcur]; try assumption; try reflexivity.
      split; cbn [hzero hbag hlast].
      * rewrite Ez in Hz. inversion Hz; subst. eapply Forall_impl; [|eassumption]. cbn. intros x Hx. rewrite Hx, El. symmetry; exact Ety.
      * eapply Forall_impl; [|exact Hb]. cbn. intros x Hx. lia.
  - (* len *)
    split; [|exact R]. split; [reflexivity|]. cbn [fst snd same_time]. f_equal. unfold hp_len, sp_len.
    rewrite Ez, map_length. pose proof (Permutation_length Eb) as L. rewrite !map_length in L. rewrite L. reflexivity.
  - (* time *)
    split; [|exact R]. split; [reflexivity|]. cbn. rewrite El. reflexivity.
  - (* peek *)
    split; [|exact R]. split; [reflexivity|]. cbn [fst snd same_time]. f_equal. unfold hp_peek, sp_peek.
    destruct (s_zero (ss a)) as [|y z] eqn:Esz; cbn [map] in Ez; rewrite Ez; [|reflexivity].
    destruct (s_rest (ss a)) as [|y r] eqn:Er.
    + rewrite (proj2 (bag_empty_iff _ _ R) Er). reflexivity.
    + assert (Hne : hbag h <> []) by (intros E; apply (bag_empty_iff _ _ R) in E; congruence).
      destruct (min_time (hbag h)) as [m|] eqn:Em; [|apply min_time_none in Em; contradiction].
      try rewrite Er in Eb. cbn [map] in Eb. repeat f_equal. eapply min_of_perm; [exact Em|exact Eb|eapply rest_head_min; eassumption].
Qed.

Lemma heap_trace_sim orc ops : forall i h a,
  forallb heap_op ops = true -> HR h (ss a) ->
  Forall2 agree (hp_trace orc i h ops) (sp_trace a ops).
Proof.
  induction ops as [|o ops IH]; intros i h a Ho R; cbn [hp_trace sp_trace]; [constructor|].
  cbn [forallb] in Ho. apply andb_true_iff in Ho. destruct Ho as [H1 H2].
  destruct (heap_step_sim (orc i) h a o H1 R) as [A R']. constructor; [exact A|]. apply IH; assumption.
Qed.

Lemma HR_new ts : HR (hp_new ts) (ss (sp_init_at ts)).
Proof. constructor; cbn; try reflexivity; [apply heap_new|apply SI_new_at]. Qed.

Lemma agree_times l1 l2 : Forall2 agree l1 l2 -> fetched_times (map fst l1) = fetched_times (map fst l2).
Proof.
  induction 1 as [|[x zx] [y zy] l1 l2 [Hz Ha] _ IH]; [reflexivity|]. cbn [map fst snd] in *.
  assert (S : same_time x y) by (destruct zx; [subst; destruct y; reflexivity|exact Ha]).
  destruct x, y; cbn [same_time] in S; try discriminate; cbn [fetched_times]; try exact IH. subst. rewrite IH. reflexivity.
Qed.

(* For every oracle and every cancel-free history, answer by answer: the heap
   backend and the specification agree on every add verdict, len, time and
   peek_time, on the TIME of every fetch, on which fetches are served by the zero
   queue and on the complete answer of those. *)
Theorem heap_refines_spec_up_to_ties (orc : oracle) ts ops :
  forallb heap_op ops = true ->
  Forall2 agree (hp_trace orc 0 (hp_new ts) ops) (sp_trace (sp_init_at ts) ops) /\
  map fst (hp_trace orc 0 (hp_new ts) ops) = hp_run_ops orc ts ops /\
  map fst (sp_trace (sp_init_at ts) ops) = sp_run_ops_at ts ops.
Proof.
  intros Ho. split; [apply heap_trace_sim; [exact Ho|apply HR_new]|]. split; [apply hp_trace_outs|apply sp_trace_outs].
Qed.

(* fetch order is non-decreasing in time *)
Theorem heap_fetch_nondecreasing (orc : oracle) ts ops :
  forallb heap_op ops = true -> StronglySorted N.le (fetched_times (hp_run_ops orc ts ops)).
Proof.
  intros Ho. destruct (heap_refines_spec_up_to_ties orc ts ops Ho) as [F [E1 E2]].
  rewrite <- E1, (agree_times _ _ F), E2. apply fetch_nondecreasing_at.
Qed.
