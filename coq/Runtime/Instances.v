(* Event sets in the sense of Runtime/EvSet.v: (a) the two-list specification
   CQueue.Spec, (b) the calendar queue CQueue.Model.cq for every bucket count
   n >= 1 and width t >= 1 (its facts come from the refinement relation of C01).
   (c) the BinaryHeap backend is Runtime/HeapSetProps.heap_evset.  Every theorem
   of GenericProps / GenericPrefix / GenericStep holds for each of them. *)
From Coq Require Import List Arith NArith PArith Lia Bool Sorting.Sorted Permutation ZifyBool.
From DesVerif Require Import Common.Fuel Common.Codec CQueue.Model CQueue.Spec CQueue.ListX CQueue.Refine CQueue.SpecProps
  Runtime.Limit Runtime.Model Runtime.ModelCq Runtime.Queue Runtime.Inv Runtime.Compose Runtime.EvSet.
Import ListNotations.
Open Scope N_scope.

(* ---- (a) the specification ---- *)
Definition spq_add (q : sp) (t l : N) : sp * bool := let r := sp_add q t l in (fst (fst r), added_ok (snd r)).
Definition spq_fetch (_ : unit) (q : sp) : sp * option (N * N) :=
  match sp_fetch q with
  | (q', OFetched l t) => (q', Some (t, l))
  | (q', _) => (q', None)
  end.

Lemma spq_new_ok S : SI (sp_new_at S) /\ s_tcur (sp_new_at S) = S /\ pend (sp_new_at S) = [].
Proof. split; [apply SI_new_at|split; reflexivity]. Qed.

Lemma spq_add_lt q t l : SI q -> t < s_tcur q -> spq_add q t l = (q, false).
Proof. intros _ H. unfold spq_add. rewrite (sp_add_past q t l H). reflexivity. Qed.

Lemma spq_add_ge q t l : SI q -> s_tcur q <= t ->
  exists q', spq_add q t l = (q', true) /\ SI q' /\ s_tcur q' = s_tcur q /\ Permutation (pend q') ((t, l) :: pend q).
Proof.
  intros HS H. destruct (sp_add_ok q t l H) as [Eo [Et [Ep _]]]. cbn zeta in *.
  exists (fst (fst (sp_add q t l))). unfold spq_add. rewrite Eo. split; [reflexivity|].
  split; [apply SI_add; exact HS|]. split; assumption.
Qed.

Lemma spq_len q : SI q -> sp_len q = N.of_nat (length (pend q)).
Proof. intros _. unfold sp_len, pend. rewrite map_length, app_length. reflexivity. Qed.

Lemma peek_some_nextev q t : peek q = Some t -> exists l, nextev q = Some (l, t).
Proof. rewrite peek_nextev. destruct (nextev q) as [[l t']|]; cbn; [|discriminate]. intros E. injection E as <-. exists l. reflexivity. Qed.

Lemma spq_peek_none q : SI q -> peek q = None -> pend q = [].
Proof.
  intros _. rewrite peek_nextev. destruct (nextev q) as [[l t]|] eqn:E; cbn; [discriminate|]. intros _. apply (nextev_none q E).
Qed.

Lemma spq_fetch_ok q t h : SI q -> peek q = Some t ->
  exists q' l, spq_fetch h q = (q', Some (t, l)) /\ SI q' /\ s_tcur q' = t /\ s_tcur q <= t /\ Permutation (pend q) ((t, l) :: pend q').
Proof.
  intros HS Hp. destruct (peek_some_nextev q t Hp) as [l En]. destruct (nextev_fetch q l t En) as [q' [F [Ep _]]].
  destruct (fetch_tcur q l t q' HS En F) as [Et Hle]. exists q', l. unfold spq_fetch. rewrite F.
  split; [reflexivity|]. split; [|split; [exact Et|split; [exact Hle|rewrite Ep; reflexivity]]].
  pose proof (SI_fetch q HS) as H. rewrite F in H. exact H.
Qed.

Definition spec_evset : evset :=
  {| eQ := sp; eHint := unit; e_new := sp_new_at; e_add := spq_add; e_peek := peek; e_fetch := spq_fetch; e_len := sp_len;
     eI := SI; e_clock := s_tcur; e_pend := pend;
     e_new_ok := spq_new_ok; e_add_lt := spq_add_lt; e_add_ge := spq_add_ge; e_len_ok := spq_len;
     e_peek_none := spq_peek_none; e_fetch_ok := spq_fetch_ok |}.

(* ---- (b) the calendar queue, any n, t >= 1 ---- *)
Definition cqq_add (q : cq) (t l : N) : cq * bool := let r := add q t l in (fst (fst r), added_ok (snd r)).
Definition cqq_fetch (_ : unit) (q : cq) : cq * option (N * N) :=
  match fetch_next q with
  | (q', OFetched l t) => (q', Some (t, l))
  | (q', _) => (q', None)
  end.
(* some specification state refines to it *)
Definition cqI (q : cq) : Prop := exists s hs, R q s hs /\ SI s.
Definition cqpend (q : cq) : list (N * N) := map evp (Refine.pend q).

Lemma cqpend_rel q s hs : R q s hs -> Permutation (cqpend q) (pend s).
Proof.
  intros HR. unfold cqpend, pend, Refine.pend. rewrite (R_zero _ _ _ HR). apply Permutation_map.
  apply Permutation_app_head. apply (R_perm _ _ _ HR).
Qed.

Section CQ.
Variables n t : N.
Hypothesis Hn : n <> 0.
Hypothesis Ht : t <> 0.

Lemma cqq_new_ok S : cqI (cq_new_at n t S) /\ tcur (cq_new_at n t S) = S /\ cqpend (cq_new_at n t S) = [].
Proof.
  split; [exists (sp_new_at S), []; split; [apply R_new_at; assumption|apply SI_new_at]|]. split; [reflexivity|].
  unfold cqpend, Refine.pend. cbn [cq_new_at zero buckets app]. rewrite concat_repeat_nil. reflexivity.
Qed.

Lemma cqq_add_lt q tm l : cqI q -> tm < tcur q -> cqq_add q tm l = (q, false).
Proof. intros _ H. unfold cqq_add, add. apply N.ltb_lt in H. rewrite H. reflexivity. Qed.

Lemma cqq_add_ge q tm l : cqI q -> tcur q <= tm ->
  exists q', cqq_add q tm l = (q', true) /\ cqI q' /\ tcur q' = tcur q /\ Permutation (cqpend q') ((tm, l) :: cqpend q).
Proof.
  intros [s [hs [HR HS]]] Hge. pose proof (R_add q s hs tm l HR Hge) as A.
  assert (Hge' : s_tcur s <= tm) by (rewrite <- (R_tcur _ _ _ HR); exact Hge).
  destruct (sp_add_ok s tm l Hge') as [Eo [Et [Ep _]]]. cbn zeta in *. pose proof (SI_add s tm l HS) as HS'.
  unfold cqq_add. destruct (add q tm l) as [[q' h] o]. destruct (sp_add s tm l) as [[s' h'] o'].
  destruct A as [-> [-> [hd [-> HR']]]]. cbn [fst snd] in *. subst o'. exists q'. split; [reflexivity|].
  split; [exists s', (hs ++ [hd]); split; assumption|]. split; [rewrite (R_tcur _ _ _ HR'), (R_tcur _ _ _ HR); exact Et|].
  rewrite (cqpend_rel _ _ _ HR'), Ep. constructor. symmetry. apply (cqpend_rel _ _ _ HR).
Qed.

Lemma cqq_len q : cqI q -> qlen q = N.of_nat (length (cqpend q)).
Proof. intros [s [hs [HR _]]]. unfold cqpend. rewrite map_length. apply (R_len _ _ _ HR). Qed.

Lemma cqq_peek_none q : cqI q -> cpeek q = None -> cqpend q = [].
Proof.
  intros [s [hs [HR HS]]] H. rewrite (peek_sim _ _ _ HR) in H. pose proof (cqpend_rel _ _ _ HR) as P.
  rewrite (spq_peek_none s HS H) in P. apply Permutation_sym, Permutation_nil in P. exact P.
Qed.

Lemma cqq_fetch_ok q tm h : cqI q -> cpeek q = Some tm ->
  exists q' l, cqq_fetch h q = (q', Some (tm, l)) /\ cqI q' /\ tcur q' = tm /\ tcur q <= tm /\
               Permutation (cqpend q) ((tm, l) :: cqpend q').
Proof.
  intros [s [hs [HR HS]]] H. rewrite (peek_sim _ _ _ HR) in H.
  destruct (spq_fetch_ok s tm tt HS H) as [s' [l [F [HS' [Et [Hle Pp]]]]]]. unfold spq_fetch in F.
  pose proof (R_fetch q s hs HR) as X. unfold cqq_fetch. destruct (fetch_next q) as [q' o]. destruct (sp_fetch s) as [s1 o'].
  destruct X as [-> HR']. destruct o'; try discriminate. injection F as -> -> ->.
  exists q', l. split; [reflexivity|]. split; [exists s', hs; split; assumption|].
  split; [rewrite (R_tcur _ _ _ HR'); exact Et|]. split; [rewrite (R_tcur _ _ _ HR); exact Hle|].
  rewrite (cqpend_rel _ _ _ HR), Pp. constructor. symmetry. apply (cqpend_rel _ _ _ HR').
Qed.

Definition cq_evset : evset :=
  {| eQ := cq; eHint := unit; e_new := cq_new_at n t; e_add := cqq_add; e_peek := cpeek; e_fetch := cqq_fetch; e_len := qlen;
     eI := cqI; e_clock := tcur; e_pend := cqpend;
     e_new_ok := cqq_new_ok; e_add_lt := cqq_add_lt; e_add_ge := cqq_add_ge; e_len_ok := cqq_len;
     e_peek_none := cqq_peek_none; e_fetch_ok := cqq_fetch_ok |}.
End CQ.
