(* C11 for the runtime over ANY event set [EV : evset]: a limited run dispatches
   the longest admissible prefix of the unlimited dispatch sequence; nothing is
   lost; end time and event count; EventCount / SimTime / And / Or.
   The oracle [orc] is keyed by the dispatch number, so a run with a limit and
   the run without one ask it the same question at the same event. *)
From Coq Require Import List Arith NArith PArith ZArith.Znat Lia Bool Sorting.Sorted Permutation ZifyBool.
From DesVerif Require Import Common.Fuel Common.Codec Runtime.Limit Runtime.Model Runtime.Queue Runtime.Inv Runtime.Prefix
  Runtime.Generic Runtime.EvSet Runtime.GenericProps.
Import ListNotations.
Open Scope N_scope.

Section GenericPrefix.
Variable EV : evset.
Local Notation Q := (eQ EV).
Local Notation Hint := (eHint EV).
Local Notation q_new := (e_new EV).
Local Notation q_add := (e_add EV).
Local Notation q_peek := (e_peek EV).
Local Notation q_fetch := (e_fetch EV).
Local Notation q_len := (e_len EV).
Local Notation q_pend := (e_pend EV).
Variable orc : N -> Hint.

Local Notation rt := (grt Q).
Local Notation gacts := (gdo_actions Q q_add).
Local Notation gD := (gdispatch_event Q Hint q_add q_peek q_fetch orc).
Local Notation gall := (gdispatch_all Q Hint q_add q_peek q_fetch q_len orc).
Local Notation gbt := (gboot Q q_new q_add).
Local Notation gpre := (gpre_adds Q q_add).
Local Notation grem := (gremaining Q Hint q_fetch q_len orc).
Local Notation Inv := (GInv EV).
Local Notation mu := (gmu EV).

(* the state after dispatching the next event, whatever the limit says, and that event *)
Definition gnext (P : prog) (s : rt) : option rt :=
  match q_fetch (orc (gitr Q s)) (gfes Q s) with
  | (q, Some (tm, l)) => Some (ghandle Q q_add P l (gfetched Q s q l tm))
  | _ => None
  end.
Definition gnext_ev (s : rt) : option (N * N) :=
  match q_fetch (orc (gitr Q s)) (gfes Q s) with
  | (_, Some (tm, l)) => Some (l, tm)
  | _ => None
  end.

Lemma gD_unfold P s :
  gD P s = match q_peek (gfes Q s) with
           | None => inr s
           | Some t => if applies (glimit Q s) (gitr Q s + 1) t then inr s
                       else match gnext P s with Some s' => inl s' | None => inr s end
           end.
Proof.
  unfold gdispatch_event, gnext. destruct (q_peek (gfes Q s)); [|reflexivity].
  destruct (applies (glimit Q s) (gitr Q s + 1) n); [reflexivity|].
  destruct (q_fetch (orc (gitr Q s)) (gfes Q s)) as [q [[tm l]|]]; reflexivity.
Qed.

(* when something is pending the next event exists, has exactly the peeked time, ... *)
Lemma gnext_ok S P s t :
  Inv S s -> q_peek (gfes Q s) = Some t ->
  exists l s', gnext_ev s = Some (l, t) /\ gnext P s = Some s' /\ Inv S s' /\ (mu s' < mu s)%nat /\
               glog Q s' = glog Q s ++ [(l, t)] /\ gitr Q s' = gitr Q s + 1 /\ glimit Q s' = glimit Q s /\ gclock Q s' = t.
Proof.
  intros HI Ep. destruct (e_fetch_ok EV _ _ (orc (gitr Q s)) (G_qi _ _ _ HI) Ep) as [q' [l [F [I' [C' [Hle P']]]]]].
  destruct (GInv_fetched EV S s q' l t HI I' C' Hle P') as [HI' Hm].
  destruct (gacts_spec EV S (nth (N.to_nat l) P []) _ HI') as [A1 [A2 [A3 [A4 [A5 A6]]]]].
  exists l, (ghandle Q q_add P l (gfetched Q s q' l t)). unfold gnext_ev, gnext. rewrite F.
  split; [reflexivity|]. split; [reflexivity|]. unfold ghandle. split; [exact A1|]. split; [lia|].
  rewrite A6, A4, A5, A3. repeat split.
Qed.

(* ---- the limit is looked at by the test in dispatch_event only ---- *)
Lemma gacts_set_limit acts L : forall s, gacts acts (gset_limit Q s L) = gset_limit Q (gacts acts s) L.
Proof.
  induction acts as [|[[k x] l] acts IH]; intros s; cbn [gdo_actions]; [reflexivity|].
  change (gbudget Q (gset_limit Q s L)) with (gbudget Q s). destruct (gbudget Q s =? 0); [reflexivity|].
  destruct (k =? 0).
  - change (gadd_event_in Q q_add (gdec_budget Q (gset_limit Q s L)) x l)
      with (gset_limit Q (gadd_event_in Q q_add (gdec_budget Q s) x l) L). apply IH.
  - change (gadd_event Q q_add true (gdec_budget Q (gset_limit Q s L)) x l)
      with (gset_limit Q (gadd_event Q q_add true (gdec_budget Q s) x l) L). apply IH.
Qed.

Lemma gnext_set_limit P s L : gnext P (gset_limit Q s L) = option_map (fun x => gset_limit Q x L) (gnext P s).
Proof.
  unfold gnext. cbn [gitr gfes gset_limit]. destruct (q_fetch (orc (gitr Q s)) (gfes Q s)) as [q [[tm l]|]]; [|reflexivity].
  cbn [option_map]. f_equal. unfold ghandle. rewrite <- gacts_set_limit. reflexivity.
Qed.

Lemma gnext_ev_set_limit s L : gnext_ev (gset_limit Q s L) = gnext_ev s.
Proof. reflexivity. Qed.

(* the first k elements of the dispatch sequence of the run that ignores limits *)
Fixpoint guseq (P : prog) (k : nat) (s : rt) : list (N * N) :=
  match k with
  | O => []
  | S k' => match q_peek (gfes Q s) with
            | None => []
            | Some _ => match gnext_ev s, gnext P s with
                        | Some e, Some s' => e :: guseq P k' s'
                        | _, _ => []
                        end
            end
  end.

Lemma guseq_set_limit P L k : forall s, guseq P k (gset_limit Q s L) = guseq P k s.
Proof.
  induction k as [|k IH]; intros s; cbn [guseq]; [reflexivity|].
  change (gfes Q (gset_limit Q s L)) with (gfes Q s). destruct (q_peek (gfes Q s)); [|reflexivity].
  rewrite gnext_ev_set_limit, gnext_set_limit. destruct (gnext_ev s); [|reflexivity].
  destruct (gnext P s) as [s'|]; [|reflexivity]. cbn [option_map]. rewrite IH. reflexivity.
Qed.

Lemma grun_log S P k : forall s a,
  Inv S s -> iter_nat k (gD P) s = inr a -> glog Q a = glog Q s ++ lprefix (glimit Q s) (gitr Q s) (guseq P k s).
Proof.
  induction k as [|k IH]; intros s a HI H; cbn [iter_nat] in H; [discriminate|]. cbn [guseq].
  rewrite gD_unfold in H. destruct (q_peek (gfes Q s)) as [t|] eqn:Ep.
  - destruct (gnext_ok S P s t HI Ep) as [l [s' [Ee [En [HI' [_ [Lg [It [Li _]]]]]]]]]. rewrite Ee, En in *.
    cbn [lprefix snd]. destruct (applies (glimit Q s) (gitr Q s + 1) t).
    + injection H as <-. rewrite app_nil_r. reflexivity.
    + rewrite (IH _ _ HI' H), Lg, It, Li, <- app_assoc. reflexivity.
  - injection H as <-. cbn [lprefix]. rewrite app_nil_r. reflexivity.
Qed.

(* ---- the computed fuel; boot ---- *)
Lemma gall_iter S P s s' : Inv S s -> (gall P s = Some s' <-> iter_nat (Datatypes.S (mu s)) (gD P) s = inr s').
Proof.
  intros HI. unfold gdispatch_all. rewrite iter_until_nat, (gloop_fuel_nat EV S s HI).
  destruct (iter_nat (Datatypes.S (mu s)) (gD P) s); split; congruence.
Qed.

Lemma gpre_set_limit pre L : forall s, fst (gpre (gset_limit Q s L) pre) = gset_limit Q (fst (gpre s pre)) L.
Proof.
  induction pre as [|[t l] pre IH]; intros s; cbn [gpre_adds]; [reflexivity|].
  specialize (IH (gadd_event Q q_add false s t l)).
  change (gadd_event Q q_add false (gset_limit Q s L) t l) with (gset_limit Q (gadd_event Q q_add false s t l) L).
  destruct (gpre_adds Q q_add (gset_limit Q (gadd_event Q q_add false s t l) L) pre) as [a xa].
  destruct (gpre_adds Q q_add (gadd_event Q q_add false s t l) pre) as [b xb]. exact IH.
Qed.

Lemma gpre_fields pre : forall s,
  glog Q (fst (gpre s pre)) = glog Q s /\ gitr Q (fst (gpre s pre)) = gitr Q s /\ glimit Q (fst (gpre s pre)) = glimit Q s.
Proof.
  induction pre as [|[t l] pre IH]; intros s; cbn [gpre_adds]; [repeat split|].
  specialize (IH (gadd_event Q q_add false s t l)). destruct (gpre_adds Q q_add (gadd_event Q q_add false s t l) pre) as [a xa]. exact IH.
Qed.

Lemma gboot_limit S B L pre : gbt S B L pre = gset_limit Q (gbt S B LNone pre) L.
Proof. unfold gboot. rewrite <- gpre_set_limit. reflexivity. Qed.

Lemma gboot_fields S B L pre : glog Q (gbt S B L pre) = [] /\ gitr Q (gbt S B L pre) = 0 /\ glimit Q (gbt S B L pre) = L.
Proof. unfold gboot. destruct (gpre_fields pre (grt_new Q q_new S B L)) as [H1 [H2 H3]]. rewrite H1, H2, H3. repeat split. Qed.

Lemma gmu_set_limit s L : mu (gset_limit Q s L) = mu s.
Proof. reflexivity. Qed.

(* ---- the theorems ---- *)
Theorem g_limited_log P S B pre L :
  exists u a, gall P (gbt S B LNone pre) = Some u /\ gall P (gbt S B L pre) = Some a /\ glog Q a = lprefix L 0 (glog Q u).
Proof.
  pose proof (gboot_inv EV S B LNone pre) as H0. pose proof (gboot_inv EV S B L pre) as HL.
  destruct (gall_total EV orc S P _ H0) as [u [Eu _]]. destruct (gall_total EV orc S P _ HL) as [a [Ea _]].
  exists u, a. split; [exact Eu|]. split; [exact Ea|].
  apply (gall_iter S P _ _ H0) in Eu. apply (gall_iter S P _ _ HL) in Ea.
  apply (grun_log S P _ _ _ H0) in Eu. apply (grun_log S P _ _ _ HL) in Ea.
  destruct (gboot_fields S B LNone pre) as [Hl0 [Hi0 HL0]]. destruct (gboot_fields S B L pre) as [Hl [Hi HLL]].
  rewrite Hl0, Hi0, HL0, lprefix_none in Eu. rewrite Hl, Hi, HLL in Ea. cbn [app] in *.
  rewrite Eu, Ea, (gboot_limit S B L pre), gmu_set_limit, guseq_set_limit. reflexivity.
Qed.

Theorem g_nothing_lost P S B pre L a :
  gall P (gbt S B L pre) = Some a ->
  Permutation (accepted (gadds Q a)) (handled (glog Q a) ++ isort (grem a)) /\
  ple_sorted (isort (grem a)) /\
  gfinish Q Hint q_fetch q_len orc a =
    OFinal (N.of_nat (length (glog Q a))) (last (map snd (glog Q a)) S) (glog Q a) (gadds Q a) (isort (grem a)) /\
  StronglySorted N.le (map snd (glog Q a)).
Proof.
  intros H. destruct (gall_total EV orc S P _ (gboot_inv EV S B L pre)) as [a' [Ea HI]]. rewrite H in Ea. injection Ea as <-.
  destruct (ggood_of_inv EV orc S a HI) as [_ [_ [G3 [_ [G5 [_ [_ [G8 _]]]]]]]].
  split; [|split; [apply isort_sorted|split]].
  - rewrite G8. apply Permutation_app_head. symmetry. apply isort_perm.
  - unfold gfinish. rewrite G3, G5. reflexivity.
  - apply (G_sorted _ _ _ HI).
Qed.

Theorem g_count_limit P S B pre n :
  exists u a, gall P (gbt S B LNone pre) = Some u /\ gall P (gbt S B (LCount n) pre) = Some a /\
              glog Q a = firstn (N.to_nat n) (glog Q u).
Proof.
  destruct (g_limited_log P S B pre (LCount n)) as [u [a [Hu [Ha E]]]]. exists u, a. repeat split; try assumption.
  rewrite E. rewrite <- (N.add_0_l n) at 1. apply lprefix_count.
Qed.

Lemma g_unlimited_sorted P S B pre u : gall P (gbt S B LNone pre) = Some u -> StronglySorted N.le (times (glog Q u)).
Proof. intros H. apply (g_nothing_lost P S B pre LNone u H). Qed.

Theorem g_time_limit P S B pre T :
  exists u a, gall P (gbt S B LNone pre) = Some u /\ gall P (gbt S B (LTime T) pre) = Some a /\
              glog Q a = filter (fun e => snd e <=? T) (glog Q u).
Proof.
  destruct (g_limited_log P S B pre (LTime T)) as [u [a [Hu [Ha E]]]]. exists u, a. repeat split; try assumption.
  rewrite E. apply lprefix_time. eapply g_unlimited_sorted; exact Hu.
Qed.

Theorem g_and_or P S B pre la lb :
  exists a b o n,
    gall P (gbt S B la pre) = Some a /\ gall P (gbt S B lb pre) = Some b /\
    gall P (gbt S B (LOr la lb) pre) = Some o /\ gall P (gbt S B (LAnd la lb) pre) = Some n /\
    length (glog Q o) = Nat.min (length (glog Q a)) (length (glog Q b)) /\
    length (glog Q n) = Nat.max (length (glog Q a)) (length (glog Q b)).
Proof.
  destruct (g_limited_log P S B pre la) as [u [a [Hu [Ha Ea]]]].
  destruct (g_limited_log P S B pre lb) as [u1 [b [Hu1 [Hb Eb]]]].
  destruct (g_limited_log P S B pre (LOr la lb)) as [u2 [o [Hu2 [Ho Eo]]]].
  destruct (g_limited_log P S B pre (LAnd la lb)) as [u3 [n [Hu3 [Hn En]]]].
  assert (u1 = u) by congruence. assert (u2 = u) by congruence. assert (u3 = u) by congruence. subst u1 u2 u3.
  exists a, b, o, n. repeat split; try assumption.
  - rewrite Eo, Ea, Eb. apply lprefix_or.
  - rewrite En, Ea, Eb. apply lprefix_and. eapply g_unlimited_sorted; exact Hu.
Qed.

(* no record of any block is the out-of-fuel record *)
Lemma gpre_no_fuel pre : forall s, ~ In OFuel (snd (gpre s pre)).
Proof.
  induction pre as [|[t l] pre IH]; intros s; cbn [gpre_adds]; [intros []|].
  specialize (IH (gadd_event Q q_add false s t l)). destruct (gpre_adds Q q_add (gadd_event Q q_add false s t l) pre) as [a xs].
  cbn [snd] in *. intros [E|H]; [discriminate|exact (IH H)].
Qed.

Theorem g_run_total sc L sched :
  ~ In OFuel (fst (grun_block Q Hint q_new q_add q_peek q_fetch q_len orc sc L sched)).
Proof.
  unfold grun_block. pose proof (gpre_no_fuel (sc_pre sc) (grt_new Q q_new (sc_start sc) (sc_budget sc) L)) as H0.
  pose proof (gboot_inv EV (sc_start sc) (sc_budget sc) L (sc_pre sc)) as HI0. unfold gboot in HI0.
  destruct (gpre_adds Q q_add (grt_new Q q_new (sc_start sc) (sc_budget sc) L) (sc_pre sc)) as [s0 o0]. cbn [fst snd] in *.
  destruct (gsched_total EV orc (sc_start sc) (sc_prog sc) sched s0 HI0) as [s1 [o1 [E1 [HI1 H1]]]]. rewrite E1.
  destruct (gall_total EV orc (sc_start sc) (sc_prog sc) s1 HI1) as [s2 [E2 _]]. rewrite E2. cbn [fst].
  intros H. apply in_app_or in H. destruct H as [H|H]; [exact (H0 H)|].
  apply in_app_or in H. destruct H as [H|[H|[]]]; [exact (H1 H)|discriminate].
Qed.

End GenericPrefix.
