(* des/src/runtime/limit.rs: the limit tree, [applies], [add]; and the way
   des/src/runtime/builder.rs composes max_itr / max_time / limit calls.
   Definitions first (executable), then the algebra of [applies]. *)
From Coq Require Import List NArith Bool Lia ZifyBool.
Import ListNotations.
Open Scope N_scope.

(* enum RuntimeLimit *)
Inductive lim :=
| LNone
| LCount (n : N)               (* EventCount(n) *)
| LTime (T : N)                (* SimTime(T), nanoseconds *)
| LAnd (a b : lim)             (* CombinedAnd *)
| LOr (a b : lim).             (* CombinedOr *)

(* RuntimeLimit::applies(itr_count, time) *)
Fixpoint applies (l : lim) (itr time : N) : bool :=
  match l with
  | LNone => false
  | LCount n => n <? itr
  | LTime T => T <? time
  | LAnd a b => applies a itr time && applies b itr time
  | LOr a b => applies a itr time || applies b itr time
  end.

(* RuntimeLimit::add(&mut self, limit) *)
Definition ladd (self l : lim) : lim :=
  match self with
  | LNone => l
  | _ => LOr self l
  end.

(* Builder::max_itr / max_time / limit *)
Inductive bcall := MaxItr (n : N) | MaxTime (T : N) | Limit (l : lim).

Definition lim_of (c : bcall) : lim :=
  match c with MaxItr n => LCount n | MaxTime T => LTime T | Limit l => l end.

Definition build_limit (cs : list bcall) : lim :=
  fold_left (fun acc c => ladd acc (lim_of c)) cs LNone.

(* ---------------------------------------------------------------- algebra *)
(* two limits are equivalent when they stop every run at the same place *)
Definition leqv (a b : lim) : Prop := forall i t, applies a i t = applies b i t.

Lemma applies_count n i t : applies (LCount n) i t = true <-> n < i.
Proof. cbn [applies]. lia. Qed.

Lemma applies_time T i t : applies (LTime T) i t = true <-> T < t.
Proof. cbn [applies]. lia. Qed.

Lemma applies_and a b i t : applies (LAnd a b) i t = true <-> applies a i t = true /\ applies b i t = true.
Proof. cbn [applies]. apply andb_true_iff. Qed.

Lemma applies_or a b i t : applies (LOr a b) i t = true <-> applies a i t = true \/ applies b i t = true.
Proof. cbn [applies]. apply orb_true_iff. Qed.

Lemma applies_none i t : applies LNone i t = false.
Proof. reflexivity. Qed.

Lemma land_comm a b : leqv (LAnd a b) (LAnd b a).
Proof. intros i t. cbn [applies]. apply andb_comm. Qed.
Lemma lor_comm a b : leqv (LOr a b) (LOr b a).
Proof. intros i t. cbn [applies]. apply orb_comm. Qed.
Lemma land_assoc a b c : leqv (LAnd a (LAnd b c)) (LAnd (LAnd a b) c).
Proof. intros i t. cbn [applies]. apply andb_assoc. Qed.
Lemma lor_assoc a b c : leqv (LOr a (LOr b c)) (LOr (LOr a b) c).
Proof. intros i t. cbn [applies]. apply orb_assoc. Qed.
Lemma land_idem a : leqv (LAnd a a) a.
Proof. intros i t. cbn [applies]. apply andb_diag. Qed.
Lemma lor_idem a : leqv (LOr a a) a.
Proof. intros i t. cbn [applies]. apply orb_diag. Qed.
Lemma land_lor_distr a b c : leqv (LAnd a (LOr b c)) (LOr (LAnd a b) (LAnd a c)).
Proof. intros i t. cbn [applies]. apply andb_orb_distrib_r. Qed.
Lemma lor_land_distr a b c : leqv (LOr a (LAnd b c)) (LAnd (LOr a b) (LOr a c)).
Proof. intros i t. cbn [applies]. apply orb_andb_distrib_r. Qed.
Lemma land_absorb a b : leqv (LAnd a (LOr a b)) a.
Proof. intros i t. cbn [applies]. destruct (applies a i t), (applies b i t); reflexivity. Qed.
Lemma lor_absorb a b : leqv (LOr a (LAnd a b)) a.
Proof. intros i t. cbn [applies]. destruct (applies a i t), (applies b i t); reflexivity. Qed.
(* None never stops a run: unit of Or, zero of And *)
Lemma lor_none_l a : leqv (LOr LNone a) a.
Proof. intros i t. reflexivity. Qed.
Lemma lor_none_r a : leqv (LOr a LNone) a.
Proof. intros i t. cbn [applies]. apply orb_false_r. Qed.
Lemma land_none_l a : leqv (LAnd LNone a) LNone.
Proof. intros i t. reflexivity. Qed.
Lemma land_none_r a : leqv (LAnd a LNone) LNone.
Proof. intros i t. cbn [applies]. apply andb_false_r. Qed.
(* congruence *)
Lemma land_cong a a' b b' : leqv a a' -> leqv b b' -> leqv (LAnd a b) (LAnd a' b').
Proof. intros Ha Hb i t. cbn [applies]. rewrite Ha, Hb. reflexivity. Qed.
Lemma lor_cong a a' b b' : leqv a a' -> leqv b b' -> leqv (LOr a b) (LOr a' b').
Proof. intros Ha Hb i t. cbn [applies]. rewrite Ha, Hb. reflexivity. Qed.

(* no negation in the tree: once a limit applies it applies for every later
   (count, time) pair, so a stopped run would stop again at any later event *)
Lemma applies_mono l i t i' t' : i <= i' -> t <= t' -> applies l i t = true -> applies l i' t' = true.
Proof.
  intros Hi Ht. induction l as [|n|T|a IHa b IHb|a IHa b IHb]; cbn [applies]; intros H.
  - discriminate.
  - lia.
  - lia.
  - apply andb_true_iff in H. destruct H as [H1 H2]. rewrite IHa, IHb by assumption. reflexivity.
  - apply orb_true_iff in H. apply orb_true_iff. destruct H as [H|H]; [left; apply IHa|right; apply IHb]; exact H.
Qed.

(* ---------------------------------------------------------------- builder *)
Lemma ladd_applies self l i t : applies (ladd self l) i t = applies self i t || applies l i t.
Proof. destruct self; reflexivity. Qed.

Lemma build_from_applies cs : forall acc i t,
  applies (fold_left (fun acc c => ladd acc (lim_of c)) cs acc) i t =
  applies acc i t || existsb (fun c => applies (lim_of c) i t) cs.
Proof.
  induction cs as [|c cs IH]; intros acc i t; cbn [fold_left existsb].
  - symmetry. apply orb_false_r.
  - rewrite IH, ladd_applies, orb_assoc. reflexivity.
Qed.

(* several limits given to the Builder (in any mix of max_itr, max_time,
   limit) stop the run as soon as one of them applies *)
Theorem build_limit_or cs i t :
  applies (build_limit cs) i t = existsb (fun c => applies (lim_of c) i t) cs.
Proof. unfold build_limit. rewrite build_from_applies. reflexivity. Qed.

Lemma build_limit_nil : build_limit [] = LNone.
Proof. reflexivity. Qed.
Lemma build_limit_one c : build_limit [c] = lim_of c.
Proof. reflexivity. Qed.
Lemma build_limit_two c d : lim_of c <> LNone -> build_limit [c; d] = LOr (lim_of c) (lim_of d).
Proof. unfold build_limit. cbn [fold_left ladd]. destruct (lim_of c); intros H; [congruence|reflexivity..]. Qed.
