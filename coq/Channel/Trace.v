(* What the statements of C07 say about a run: projections of the log (newest
   item first) and the per-item conditions that define "busy exactly for the
   transmission time, in event order", FIFO start and the queue limit.
   Definitions only. *)
From Coq Require Import List NArith Bool.
From DesVerif Require Import Common.Codec CQueue.Model CQueue.Spec Channel.Model.
Import ListNotations.
Open Scope N_scope.

(* ids by fate, newest first *)
Definition delivered (l : list item) : list N :=
  flat_map (fun i => match i with IDeliver m _ => [m] | _ => [] end) l.
Definition dropped_busy (l : list item) : list N :=
  flat_map (fun i => match i with IDropBusy m _ _ => [m] | _ => [] end) l.
Definition dropped_full (l : list item) : list N :=
  flat_map (fun i => match i with IDropFull m _ _ => [m] | _ => [] end) l.
Definition started (l : list item) : list N :=
  flat_map (fun i => match i with IStart m _ _ _ _ => [m] | _ => [] end) l.
(* offered and not refused: transmitted at once or queued *)
Definition accepted (l : list item) : list N :=
  flat_map (fun i => match i with IStart m _ _ _ false => [m] | IEnq m _ _ => [m] | _ => [] end) l.
Definition offered (l : list item) : list N :=
  flat_map (fun i => match i with
                     | IStart m _ _ _ false => [m] | IEnq m _ _ => [m]
                     | IDropBusy m _ _ => [m] | IDropFull m _ _ => [m] | _ => [] end) l.

(* sum of the lengths of queued packets *)
Definition qsum (b : list (N * N)) : N := fold_right (fun p a => snd p + a) 0 b.

(* all message ids of the script, and those of burst k *)
Definition all_ids (bursts : list (N * list (N * N))) : list N :=
  flat_map (fun b => map fst (snd b)) bursts.
Definition burst_ids (bursts : list (N * list (N * N))) (k : N) : list N :=
  match nth_error bursts (N.to_nat k) with Some (_, offs) => map fst offs | None => [] end.

Section Trace.
Variable tx : N -> N.
Variable mt : metrics.

(* the delivery time the specification prescribes for a transmission *)
Definition due (len t j : N) : N := t + (m_lat mt + tx len + j).

(* Some f: the channel is busy with a transmission whose Unbusy event is
   stamped f; None: idle.  Read off the log: a transmission with a non-zero
   transmission time starts a busy period, the Unbusy event ends it. *)
Fixpoint cur_of (l : list item) : option N :=
  match l with
  | [] => None
  | IStart _ len t _ _ :: r => if tx len =? 0 then cur_of r else Some (t + tx len)
  | IUnbusy _ :: _ => None
  | _ :: r => cur_of r
  end.

(* the messages queued and not yet transmitted, oldest first *)
Fixpoint queue_of (l : list item) : list (N * N) :=
  match l with
  | [] => []
  | IEnq m len _ :: r => queue_of r ++ [(m, len)]
  | IStart _ _ _ _ true :: r => tl (queue_of r)
  | _ :: r => queue_of r
  end.

(* Some t: the log ends inside the handling of the Unbusy event stamped t,
   after which only zero-time transmissions from the queue were started *)
Fixpoint deq_ctx (l : list item) : option N :=
  match l with
  | IUnbusy t :: _ => Some t
  | IStart _ len _ _ true :: r => if tx len =? 0 then deq_ctx r else None
  | _ => None
  end.

(* condition on item i given the earlier log r *)
Definition item_ok (i : item) (r : list item) : Prop :=
  match i with
  | IStart m len t j false =>
      (* an offer is transmitted at once iff the channel is idle; nothing is queued then *)
      cur_of r = None /\ queue_of r = []
  | IStart m len t j true =>
      (* the head of the queue starts at the very instant the channel became idle *)
      cur_of r = None /\ hd_error (queue_of r) = Some (m, len) /\ deq_ctx r = Some t
  | IDropBusy m len t => cur_of r <> None /\ m_pol mt = PDrop
  | IDropFull m len t =>
      cur_of r <> None /\ exists lim, m_pol mt = PQueue lim /\ over lim (qsum (queue_of r) + len) = true
  | IEnq m len t =>
      cur_of r <> None /\ exists lim, m_pol mt = PQueue lim /\ over lim (qsum (queue_of r) + len) = false
  | IUnbusy t =>
      (* the Unbusy event of a transmission is stamped start + tx len *)
      cur_of r = Some t
  | IDeliver _ _ => True
  | ISample t b f pk bts =>
      match cur_of r with
      | Some x => b = true /\ f = x /\ pk = N.of_nat (length (queue_of r)) /\ bts = qsum (queue_of r)
      | None => b = false /\ f = 0 /\ pk = 0 /\ bts = 0
      end
  end.

Fixpoint wf_log (l : list item) : Prop :=
  match l with
  | [] => True
  | i :: r => item_ok i r /\ wf_log r
  end.

(* the jitter of a transmission lies in [0, jitter) (0 when the channel has no jitter) *)
Definition jok (j : N) : Prop := if m_jit mt =? 0 then j = 0 else j < m_jit mt.

End Trace.
