(* Zero jitter: messages are handed to the receiver in the order their
   transmissions started, hence (FIFO start) in the order they were offered.
   The proof follows the Exit events through the event set: a new Exit event is
   always placed behind every pending one.  This needs the order in which
   send_message schedules its two events (exit first, fix f99a7c7): with zero
   latency the Exit of the transmission that is ending is then fetched before
   the Unbusy event that starts the next one in the same instant. *)
From Coq Require Import List Arith NArith Lia Bool Sorting.Sorted Permutation ZifyBool.
From DesVerif Require Import Common.Codec CQueue.Model CQueue.Spec CQueue.ListX CQueue.SpecProps
  Channel.Model Channel.Queue Channel.Trace Channel.Core Channel.Account Channel.Timing Channel.Props.
Import ListNotations.
Open Scope N_scope.

(* ---- where an add puts the event, where a fetch takes it from ---- *)
Lemma sins_split_sorted e l :
  key_sorted l ->
  exists l1 l2, l = l1 ++ l2 /\ sins e l = l1 ++ e :: l2 /\ (forall y, In y l2 -> key_lt e y = true).
Proof.
  induction l as [|y l IH]; intros Hs; cbn [sins].
  - exists [], []. repeat split. intros y [].
  - inversion Hs as [|? ? Hs' Hall]; subst. destruct (key_lt e y) eqn:Hk.
    + exists [], (y :: l). repeat split. intros z [<-|Hz]; [exact Hk|].
      rewrite Forall_forall in Hall. eapply key_lt_trans; [exact Hk|apply Hall, Hz].
    + destruct (IH Hs') as [l1 [l2 [E1 [E2 H]]]]. exists (y :: l1), l2. cbn [app]. rewrite E2, <- E1. repeat split. exact H.
Qed.

Lemma qadd_shape q0 t e :
  s_tcur q0 <= t ->
  (t = s_tcur q0 /\ s_zero (qadd q0 t e) = s_zero q0 ++ [new_ev q0 t e] /\ s_rest (qadd q0 t e) = s_rest q0) \/
  (t <> s_tcur q0 /\ s_zero (qadd q0 t e) = s_zero q0 /\ s_rest (qadd q0 t e) = sins (new_ev q0 t e) (s_rest q0)).
Proof.
  intros H. rewrite qadd_eq by exact H. destruct (t =? s_tcur q0) eqn:E; cbn [s_zero s_rest]; [left|right]; (split; [lia|split; reflexivity]).
Qed.

Lemma fetch_shape q0 x r :
  pend q0 = x :: r ->
  (s_zero q0 = x :: s_zero (fst (sp_fetch q0)) /\ s_rest (fst (sp_fetch q0)) = s_rest q0) \/
  (s_zero q0 = [] /\ s_rest q0 = x :: s_rest (fst (sp_fetch q0)) /\ s_zero (fst (sp_fetch q0)) = []).
Proof.
  unfold pend, sp_fetch. destruct (s_zero q0) as [|z zs]; cbn [app].
  - intros ->. right. cbn [fst s_zero s_rest]. repeat split.
  - intros E. injection E as -> <-. left. cbn [fst s_zero s_rest]. split; reflexivity.
Qed.

Lemma started_cons i l : started (i :: l) = match i with IStart m _ _ _ _ => [m] | _ => [] end ++ started l.
Proof. reflexivity. Qed.

Definition is_exit (x : ev) : Prop := exists m, dec_ev (epay x) = EExit m.
Definition is_unb (x : ev) : Prop := dec_ev (epay x) = EUnbusy.

Lemma exits_none l : (forall y, In y l -> ~ is_exit y) -> exits l = [].
Proof.
  induction l as [|y l IH]; intros H; [reflexivity|]. unfold exits in *. rewrite sel_cons.
  rewrite IH by (intros z Hz; apply H; right; exact Hz).
  destruct (dec_ev (epay y)) as [|m|k] eqn:E; try reflexivity. exfalso. apply (H y (or_introl eq_refl)). exists m. exact E.
Qed.

Lemma unbusies_none l u : unbusies l = [] -> In u l -> ~ is_unb u.
Proof.
  intros H Hu Hd. assert (Hi : In (etime u) (unbusies l)).
  { apply sel_In. exists u. split; [exact Hu|]. unfold is_unb in Hd. rewrite Hd. reflexivity. }
  rewrite H in Hi. destruct Hi.
Qed.

Section Order.
Variable tx : N -> N.
Variable mt : metrics.
Variable bursts : list (N * list (N * N)).
Hypothesis Hjit : m_jit mt = 0.

Notation send := (send_message current enc_ev tx mt).
Notation drain := (Model.drain current enc_ev tx mt).
Notation unbusy := (Model.unbusy current enc_ev tx mt).
Notation offer := (Model.offer current enc_ev tx mt).
Notation handle_wake := (Model.handle_wake current enc_ev tx mt bursts).
Notation dispatch := (Model.dispatch current enc_ev tx mt bursts).
Notation step := (Model.step current enc_ev tx mt bursts).
Notation steps := (Model.steps current enc_ev tx mt bursts).

Definition bound (s : st) : N := (if busy (ch s) then finish (ch s) else now s) + m_lat mt.

Record Ord (s : st) : Prop := {
  O_seq : started (log s) = rev (exits (pend (q s))) ++ delivered (log s);
  O_bound : forall x, In x (pend (q s)) -> is_exit x -> etime x <= bound s;
  O_rest : m_lat mt = 0 -> forall x, In x (s_rest (q s)) -> is_exit x ->
             busy (ch s) = true /\ etime x = finish (ch s);
  O_ids : forall u x, In u (pend (q s)) -> In x (pend (q s)) -> is_unb u -> is_exit x -> eid x < eid u;
  O_zero : forall u, In u (s_zero (q s)) -> ~ is_unb u
}.

Lemma Ord_same s s' :
  q s' = q s -> busy (ch s') = busy (ch s) -> finish (ch s') = finish (ch s) ->
  started (log s') = started (log s) -> delivered (log s') = delivered (log s) -> Ord s -> Ord s'.
Proof.
  intros Eq Eb Ef Es Ed [H1 H2 H3 H4 H5]. constructor; unfold bound, now in *; rewrite ?Eq, ?Eb, ?Ef, ?Es, ?Ed; assumption.
Qed.

Lemma Ord_sample s : Ord s -> Ord (sample s).
Proof. apply Ord_same; reflexivity. Qed.

Lemma Ord_send_busy s m len fq : busy (ch s) = true -> Ord s -> Ord (send s m len fq).
Proof.
  intros Hb. rewrite send_busy by exact Hb. destruct (m_pol mt) as [|lim]; [apply Ord_same; reflexivity|].
  destruct (over lim (acc (ch s) + len)); apply Ord_same; reflexivity.
Qed.

Lemma jit0 s : jit_of mt s = 0.
Proof. unfold jit_of, take_jitter. rewrite Hjit. reflexivity. Qed.

Lemma rest_qadd q0 t e x :
  s_tcur q0 <= t -> In x (s_rest (qadd q0 t e)) -> (x = new_ev q0 t e /\ t <> s_tcur q0) \/ In x (s_rest q0).
Proof.
  intros H Hx. destruct (qadd_shape q0 t e H) as [[_ [_ E]]|[Hn [_ E]]]; rewrite E in Hx; [right; exact Hx|].
  apply In_sins in Hx. destruct Hx as [->|Hx]; [left; split; [reflexivity|exact Hn]|right; exact Hx].
Qed.

Lemma zero_qadd q0 t e x :
  s_tcur q0 <= t -> In x (s_zero (qadd q0 t e)) -> (x = new_ev q0 t e /\ t = s_tcur q0) \/ In x (s_zero q0).
Proof.
  intros H Hx. destruct (qadd_shape q0 t e H) as [[Hn [E _]]|[_ [E _]]]; rewrite E in Hx; [|right; exact Hx].
  apply in_app_or in Hx. destruct Hx as [Hx|[<-|[]]]; [right; exact Hx|left; split; [reflexivity|exact Hn]].
Qed.

Lemma new_exit q0 t m : is_exit (new_ev q0 t (EExit m)).
Proof. exists m. cbn [new_ev epay]. apply dec_enc. Qed.
Lemma new_exit_not_unb q0 t m : ~ is_unb (new_ev q0 t (EExit m)).
Proof. unfold is_unb. cbn [new_ev epay]. rewrite dec_enc. discriminate. Qed.
Lemma new_unb_not_exit q0 t : ~ is_exit (new_ev q0 t EUnbusy).
Proof. intros [m H]. cbn [new_ev epay] in H. rewrite dec_enc in H. discriminate. Qed.

(* the new Exit event lands behind every pending Exit event *)
Lemma exits_qadd_last s m te :
  SI (q s) -> busy (ch s) = false -> Ord s -> now s + m_lat mt <= te ->
  exits (pend (qadd (q s) te (EExit m))) = exits (pend (q s)) ++ [m].
Proof.
  intros HS Hb HO Hte. assert (Ht : s_tcur (q s) <= te) by (unfold now in Hte; lia).
  destruct (qadd_shape (q s) te (EExit m) Ht) as [[E0 [Ez Er]]|[Hn [Ez Er]]]; unfold pend; rewrite Ez, Er.
  - assert (Hl : m_lat mt = 0) by (unfold now in Hte; lia).
    assert (Hr : exits (s_rest (q s)) = []).
    { apply exits_none. intros y Hy He. destruct (O_rest s HO Hl y Hy He) as [Hc _]. congruence. }
    unfold exits in *. rewrite !sel_app, sel_cons, Hr. cbn [sel flat_map new_ev epay etime]. rewrite dec_enc, !app_nil_r. reflexivity.
  - destruct (sins_split_sorted (new_ev (q s) te (EExit m)) (s_rest (q s)) (SI_sorted _ HS)) as [l1 [l2 [E1 [E2 Hk]]]].
    assert (Hr : exits l2 = []).
    { apply exits_none. intros y Hy He. specialize (Hk y Hy).
      assert (Hin : In y (pend (q s))) by (unfold pend; rewrite E1; apply in_or_app; right; apply in_or_app; right; exact Hy).
      pose proof (O_bound s HO y Hin He) as Hbd. unfold bound in Hbd. rewrite Hb in Hbd.
      pose proof (SI_ids _ HS y Hin) as Hid. unfold key_lt in Hk. cbn [new_ev etime eid] in Hk. lia. }
    rewrite E2, E1. unfold exits in *. rewrite !sel_app, sel_cons, Hr. cbn [new_ev epay etime]. rewrite dec_enc, !app_nil_r, !app_assoc. reflexivity.
Qed.

Lemma exits_qadd_unb q0 t : s_tcur q0 <= t -> exits (pend (qadd q0 t EUnbusy)) = exits (pend q0).
Proof.
  intros H. destruct (qadd_pend q0 t EUnbusy H) as [l1 [l2 [E1 E2]]]. rewrite E2, E1. unfold exits. rewrite sel_new, sel_app. reflexivity.
Qed.

(* a transmission starts on an idle channel *)
Lemma Ord_start s m len fq :
  SI (q s) -> busy (ch s) = false -> unbusies (pend (q s)) = [] -> Ord s -> Ord (send s m len fq).
Proof.
  intros HS Hb Hu HO. rewrite send_idle by exact Hb. cbv zeta. rewrite jit0.
  set (te := now s + (m_lat mt + tx len + 0)).
  assert (Hte : s_tcur (q s) <= te) by (unfold te, now; lia).
  set (q1 := qadd (q s) te (EExit m)).
  assert (Htu : s_tcur q1 <= now s + tx len) by (unfold q1; rewrite qadd_tcur; unfold now; lia).
  assert (Hex : exits (pend q1) = exits (pend (q s)) ++ [m]) by (apply exits_qadd_last; try assumption; unfold te; lia).
  assert (Hnext : s_next q1 = s_next (q s) + 1) by (apply qadd_next; exact Hte).
  pose proof HO as [H1 H2 H3 H4 H5].
  assert (Hold_unb : forall u, In u (pend (q s)) -> ~ is_unb u) by (intros u; apply unbusies_none; exact Hu).
  assert (Hold_rest : m_lat mt = 0 -> forall y, In y (s_rest (q s)) -> ~ is_exit y).
  { intros Hl y Hy He. destruct (H3 Hl y Hy He) as [Hc _]. congruence. }
  destruct (tx len =? 0) eqn:Et.
  - (* no busy period *)
    constructor; cbn [ch q log]; fold q1; unfold bound, now; cbn [ch q]; rewrite ?Hb.
    + rewrite started_cons, delivered_cons. cbn [app].
      rewrite Hex, rev_app_distr, H1. reflexivity.
    + intros x Hx He. unfold q1 in *. rewrite qadd_tcur. apply qadd_In in Hx; [|exact Hte]. destruct Hx as [->|Hx].
      * cbn [new_ev etime]. unfold te, now. lia.
      * pose proof (H2 x Hx He) as Hbd. unfold bound, now in Hbd. rewrite Hb in Hbd. exact Hbd.
    + intros Hl x Hx He. exfalso. apply rest_qadd in Hx; [|exact Hte]. destruct Hx as [[-> Hn]|Hx].
      * apply Hn. unfold te, now. lia.
      * exact (Hold_rest Hl x Hx He).
    + intros u x Hu' Hx Hun Hex'. exfalso. apply qadd_In in Hu'; [|exact Hte]. destruct Hu' as [->|Hu'].
      * exact (new_exit_not_unb _ _ _ Hun).
      * exact (Hold_unb u Hu' Hun).
    + intros u Hu' Hun. apply zero_qadd in Hu'; [|exact Hte]. destruct Hu' as [[-> _]|Hu'].
      * exact (new_exit_not_unb _ _ _ Hun).
      * exact (H5 u Hu' Hun).
  - (* the channel becomes busy until now + tx len *)
    assert (Et' : tx len <> 0) by lia.
    set (q2 := qadd q1 (now s + tx len) EUnbusy).
    assert (Hin2 : forall x, In x (pend q2) -> x = new_ev q1 (now s + tx len) EUnbusy \/ x = new_ev (q s) te (EExit m) \/ In x (pend (q s))).
    { intros x Hx. apply qadd_In in Hx; [|exact Htu]. destruct Hx as [->|Hx]; [left; reflexivity|].
      apply qadd_In in Hx; [|exact Hte]. right. exact Hx. }
    constructor; cbn [ch q log set_busy_until busy finish]; fold q1; fold q2; unfold bound, now; cbn [ch q set_busy_until busy finish].
    + rewrite started_cons, delivered_cons. cbn [app].
      unfold q2. rewrite exits_qadd_unb by exact Htu. rewrite Hex, rev_app_distr, H1. reflexivity.
    + intros x Hx He. apply Hin2 in Hx. destruct Hx as [->|[->|Hx]].
      * destruct (new_unb_not_exit _ _ He).
      * cbn [new_ev etime]. unfold te, now. lia.
      * pose proof (H2 x Hx He) as Hbd. unfold bound, now in Hbd. rewrite Hb in Hbd. unfold now. lia.
    + intros Hl x Hx He. split; [reflexivity|]. apply rest_qadd in Hx; [|exact Htu]. destruct Hx as [[-> _]|Hx].
      * destruct (new_unb_not_exit _ _ He).
      * apply rest_qadd in Hx; [|exact Hte]. destruct Hx as [[-> _]|Hx].
        -- cbn [new_ev etime]. unfold te, now. lia.
        -- destruct (Hold_rest Hl x Hx He).
    + intros u x Hu' Hx Hun Hex'. apply Hin2 in Hu'. destruct Hu' as [->|[->|Hu']].
      * cbn [new_ev eid]. apply Hin2 in Hx. destruct Hx as [->|[->|Hx]].
        -- destruct (new_unb_not_exit _ _ Hex').
        -- cbn [new_ev eid]. lia.
        -- pose proof (SI_ids _ HS x Hx). lia.
      * destruct (new_exit_not_unb _ _ _ Hun).
      * destruct (Hold_unb u Hu' Hun).
    + intros u Hu' Hun. apply zero_qadd in Hu'; [|exact Htu]. destruct Hu' as [[_ Hc]|Hu'].
      * unfold q1 in Hc. rewrite qadd_tcur in Hc. unfold now in Hc. lia.
      * apply zero_qadd in Hu'; [|exact Hte]. destruct Hu' as [[-> _]|Hu'].
        -- exact (new_exit_not_unb _ _ _ Hun).
        -- exact (H5 u Hu' Hun).
Qed.

Lemma Ord_drain k : forall s, Draining tx mt s -> Ord s -> Ord (drain k s).
Proof.
  induction k as [|k IH]; intros s HD HO; cbn [Model.drain]; [exact HO|].
  destruct (busy (ch s)) eqn:Hb; [exact HO|]. destruct (buffer (ch s)) as [|[m len] r] eqn:Eb; [exact HO|].
  apply IH; [exact (Draining_step tx mt s m len r HD Hb Eb)|].
  destruct HD as [HC _]. pose proof (C_unb _ _ _ HC) as Hu. rewrite Hb in Hu.
  apply Ord_start; cbn [set_ch ch q]; try assumption; [apply (C_SI _ _ _ HC)|reflexivity|].
  revert HO. apply Ord_same; cbn [set_ch ch q log busy finish]; try reflexivity. symmetry; exact Hb.
Qed.

(* the state right after an event was fetched, for events other than Exit *)
Lemma Ord_fetch_other s x r :
  SI (q s) -> pend (q s) = x :: r -> ~ is_exit x -> Ord s -> Ord (set_q s (fst (sp_fetch (q s)))).
Proof.
  intros HS E Hn [H1 H2 H3 H4 H5]. destruct (fetch_cons _ _ _ HS E) as [_ [Hp [Ht [_ [Hle _]]]]].
  assert (Hsub : forall y, In y r -> In y (pend (q s))) by (intros y Hy; rewrite E; right; exact Hy).
  constructor; cbn [set_q ch q log]; rewrite ?Hp.
  - rewrite H1, E. unfold exits. rewrite sel_cons. destruct (dec_ev (epay x)) as [|m|k] eqn:Ed; try reflexivity.
    exfalso. apply Hn. exists m. exact Ed.
  - intros y Hy He. pose proof (H2 y (Hsub y Hy) He) as Hb. unfold bound, now in *. cbn [set_q ch q].
    destruct (busy (ch s)); lia.
  - intros Hl y Hy He. apply (H3 Hl); [|exact He].
    destruct (fetch_shape _ _ _ E) as [[_ Er]|[_ [Er _]]]; [rewrite <- Er; exact Hy|rewrite Er; right; exact Hy].
  - intros u y Hu Hy. apply H4; apply Hsub; assumption.
  - intros u Hu. apply H5. destruct (fetch_shape _ _ _ E) as [[Ez _]|[_ [_ Ez]]]; [rewrite Ez; right; exact Hu|rewrite Ez in Hu; destruct Hu].
Qed.

Lemma Ord_unbusy s x r :
  Good tx mt s -> pend (q s) = x :: r -> is_unb x -> Ord s -> Ord (unbusy (set_q s (fst (sp_fetch (q s))))).
Proof.
  intros [HC Hi] E Hx HO. pose proof HC as [HS Hw Hc Hq Ha Hf Hu].
  destruct (fetch_cons _ _ _ HS E) as [_ [Hp [Ht [_ [Hle HS']]]]].
  set (s1 := set_q s (fst (sp_fetch (q s)))).
  (* the channel is busy until the time of the fetched event *)
  rewrite E in Hu. unfold unbusies in Hu. rewrite sel_cons in Hu. unfold is_unb in Hx. rewrite Hx in Hu. cbn [app] in Hu.
  destruct (busy (ch s)) eqn:Hb; [|discriminate]. injection Hu as Hfin Hur. fold unbusies in Hur.
  assert (Hne : ~ is_exit x) by (intros [m Hm]; rewrite Hx in Hm; discriminate).
  pose proof (Ord_fetch_other s x r HS E Hne HO) as HO1. fold s1 in HO1.
  (* it was fetched from the sorted part, and no Exit event is left there for this instant *)
  pose proof HO as [_ _ H3 H4 H5].
  destruct (fetch_shape _ _ _ E) as [[Ez _]|[Ez [Er Ez']]]; [exfalso; apply (H5 x); [rewrite Ez; left; reflexivity|exact Hx]|].
  assert (Hrest : m_lat mt = 0 -> forall y, In y (s_rest (q s1)) -> ~ is_exit y).
  { intros Hl y Hy He. cbn [s1 set_q q] in Hy.
    assert (Hy' : In y (s_rest (q s))) by (rewrite Er; right; exact Hy).
    destruct (H3 Hl y Hy' He) as [_ Hty].
    pose proof (SI_sorted _ HS) as Hs. rewrite Er in Hs. inversion Hs as [|? ? _ Hall]; subst. rewrite Forall_forall in Hall.
    specialize (Hall y Hy). assert (Hid : eid y < eid x).
    { apply H4; [rewrite E; left; reflexivity|unfold pend; apply in_or_app; right; exact Hy'|exact Hx|exact He]. }
    unfold key_lt in Hall. lia. }
  unfold Model.unbusy. cbn [drain_all current].
  set (s2 := emit _ _).
  assert (HG2 : Draining tx mt s2).
  { split.
    - constructor; cbn [s2 s1 emit set_ch set_q ch q log busy finish buffer acc cur_of queue_of]; try assumption; try reflexivity.
      + cbn [wf_log item_ok]. split; [|exact Hw]. rewrite Hc. unfold now, s1. cbn [set_q q]. rewrite Ht, Hfin. reflexivity.
      + rewrite Hp. exact Hur.
    - intros _. reflexivity. }
  apply Ord_drain; [exact HG2|]. destruct HO1 as [G1 G2 G3 G4 G5].
  constructor; cbn [s2 emit set_ch ch q log busy finish]; try assumption.
  - intros y Hy He. pose proof (G2 y Hy He) as Hbd. unfold bound, now in *. unfold s2, s1. cbn [s1 set_q set_ch emit ch q busy finish] in *.
    rewrite Hb in Hbd. rewrite Ht. lia.
  - intros Hl y Hy He. destruct (Hrest Hl y Hy He).
Qed.

Lemma Ord_offer s o : Good tx mt s -> Ord s -> Ord (offer s o).
Proof.
  intros HG0 HO0. unfold Model.offer. apply Ord_sample. apply Good_sample in HG0. apply Ord_sample in HO0.
  revert HG0 HO0. generalize (sample s). clear s. intros s [HC _] HO. destruct (busy (ch s)) eqn:Hb.
  - apply Ord_send_busy; assumption.
  - pose proof (C_unb _ _ _ HC) as Hu. rewrite Hb in Hu. apply Ord_start; try assumption. apply (C_SI _ _ _ HC).
Qed.

Lemma Ord_fold offs : forall s, Good tx mt s -> Ord s -> Ord (fold_left offer offs s).
Proof.
  induction offs as [|o offs IH]; intros s HG HO; cbn [fold_left]; [exact HO|].
  apply IH; [apply Good_offer; exact HG|apply Ord_offer; assumption].
Qed.

Lemma Good_fetch_other s x r :
  Good tx mt s -> pend (q s) = x :: r -> ~ is_unb x -> Good tx mt (set_q s (fst (sp_fetch (q s)))).
Proof.
  intros [[HS Hw Hc Hq Ha Hf Hu] Hi] E Hn. destruct (fetch_cons _ _ _ HS E) as [_ [Hp [_ [_ [_ HS']]]]].
  split; [|exact Hi]. constructor; cbn [set_q ch q log]; try assumption. rewrite Hp.
  rewrite E in Hu. unfold unbusies in *. rewrite sel_cons in Hu.
  destruct (dec_ev (epay x)) eqn:Ed; [destruct (Hn Ed)|exact Hu..].
Qed.

Lemma Ord_step s s' : Good tx mt s -> Ord s -> step s = Some s' -> Ord s'.
Proof.
  intros HG HO Hs. pose proof (C_SI _ _ _ (proj1 HG)) as HS.
  destruct (pend (q s)) as [|x r] eqn:E; [rewrite step_nil in Hs by exact E; discriminate|].
  rewrite (step_cons _ _ _ _ _ _ HS E) in Hs. injection Hs as <-.
  destruct (dec_ev (epay x)) as [|m|k] eqn:Ed; cbn [Model.dispatch].
  - apply (Ord_unbusy s x r HG E Ed HO).
  - (* Exit m: the first pending Exit event *)
    unfold handle_exit. apply Ord_sample.
    destruct (fetch_cons _ _ _ HS E) as [_ [Hp [Ht [_ [Hle _]]]]]. destruct HO as [H1 H2 H3 H4 H5].
    assert (Hsub : forall y, In y r -> In y (pend (q s))) by (intros y Hy; rewrite E; right; exact Hy).
    constructor; cbn [emit set_q ch q log]; rewrite ?Hp.
    + rewrite started_cons, delivered_cons. cbn [app].
      rewrite H1, E. unfold exits. rewrite sel_cons, Ed. cbn [app rev]. rewrite <- app_assoc. reflexivity.
    + intros y Hy He. pose proof (H2 y (Hsub y Hy) He) as Hb. unfold bound, now in *. cbn [emit set_q ch q].
      destruct (busy (ch s)); lia.
    + intros Hl y Hy He. apply (H3 Hl); [|exact He].
      destruct (fetch_shape _ _ _ E) as [[_ Er]|[_ [Er _]]]; [rewrite <- Er; exact Hy|rewrite Er; right; exact Hy].
    + intros u y Hu Hy. apply H4; apply Hsub; assumption.
    + intros u Hu. apply H5. destruct (fetch_shape _ _ _ E) as [[Ez _]|[_ [_ Ez]]]; [rewrite Ez; right; exact Hu|rewrite Ez in Hu; destruct Hu].
  - assert (Hne : ~ is_exit x) by (intros [m Hm]; rewrite Ed in Hm; discriminate).
    assert (Hnu : ~ is_unb x) by (unfold is_unb; rewrite Ed; discriminate).
    pose proof (Ord_fetch_other s x r HS E Hne HO) as HO1. pose proof (Good_fetch_other s x r HG E Hnu) as HG1.
    unfold Model.handle_wake. destruct (nth_error bursts (N.to_nat k)) as [[t offs]|]; [|exact HO1].
    apply Ord_fold; [exact HG1|exact HO1].
Qed.

Lemma sched_wakes_kinds bs : forall q0 k x,
  s_tcur q0 = 0 -> In x (pend (sched_wakes enc_ev q0 k bs)) -> In x (pend q0) \/ exists k', dec_ev (epay x) = EWake k'.
Proof.
  induction bs as [|[t offs] bs IH]; intros q0 k x H0 Hx; cbn [sched_wakes] in Hx; [left; exact Hx|].
  apply IH in Hx; [|rewrite qadd_tcur; exact H0]. destruct Hx as [Hx|Hx]; [|right; exact Hx].
  apply qadd_In in Hx; [|lia]. destruct Hx as [->|Hx]; [right|left; exact Hx].
  exists k. cbn [new_ev epay]. apply dec_enc.
Qed.

Lemma Ord_init oracle : Ord (init enc_ev bursts oracle).
Proof.
  assert (Hk : forall x, In x (pend (sched_wakes enc_ev sp_new 0 bursts)) -> exists k', dec_ev (epay x) = EWake k').
  { intros x Hx. apply sched_wakes_kinds in Hx; [|reflexivity]. destruct Hx as [[]|Hx]. exact Hx. }
  destruct (sched_wakes_inv bursts sp_new 0 SI_new eq_refl) as [_ [_ [_ He]]].
  constructor; cbn [init ch q log idle_chan busy finish].
  - rewrite He. reflexivity.
  - intros x Hx [m Hm]. destruct (Hk x Hx) as [k' Hk']. rewrite Hk' in Hm. discriminate.
  - intros _ x Hx [m Hm]. destruct (Hk x) as [k' Hk']; [unfold pend; apply in_or_app; right; exact Hx|]. rewrite Hk' in Hm. discriminate.
  - intros u x Hu _ Hun. destruct (Hk u Hu) as [k' Hk']. unfold is_unb in Hun. rewrite Hk' in Hun. discriminate.
  - intros u Hu Hun. destruct (Hk u) as [k' Hk']; [unfold pend; apply in_or_app; left; exact Hu|]. unfold is_unb in Hun. rewrite Hk' in Hun. discriminate.
Qed.

Lemma Ord_steps n : forall s, Good tx mt s -> Ord s -> Ord (steps n s).
Proof.
  induction n as [|n IH]; intros s HG HO; cbn [Model.steps]; [exact HO|].
  destruct (step s) as [s'|] eqn:E; [|exact HO]. apply IH; [eapply Good_step; eassumption|eapply Ord_step; eassumption].
Qed.

(* deliveries, in order, are an initial piece of the accepted offers, in order:
   then come the messages in flight, then the queued ones *)
Theorem zero_jitter_preserves_order oracle n :
  let s := steps n (init enc_ev bursts oracle) in
  rev (accepted (log s)) = rev (delivered (log s)) ++ exits (pend (q s)) ++ map fst (buffer (ch s)).
Proof.
  cbv zeta. pose proof (Good_reachable tx mt bursts oracle n) as HG.
  pose proof (Ord_steps n _ (Good_init tx mt bursts oracle) (Ord_init oracle)) as HO.
  destruct HG as [HC _].
  rewrite (accepted_started tx mt _ (C_wf _ _ _ HC)), (C_queue _ _ _ HC), rev_app_distr, rev_involutive.
  rewrite (O_seq _ HO), rev_app_distr, rev_involutive, <- app_assoc. reflexivity.
Qed.

End Order.
