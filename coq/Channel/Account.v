(* Accounting: at every event boundary every message of the script is in
   exactly one of: delivered, dropped (busy), dropped (queue full), queued,
   in flight (Exit pending), not yet offered (wake-up pending).  Kept as an
   equation between occurrence counts, which is a multiset equation. *)
From Coq Require Import List Arith NArith Lia Bool Sorting.Sorted Permutation ZifyBool.
From DesVerif Require Import Common.Codec CQueue.Model CQueue.Spec CQueue.ListX CQueue.SpecProps
  Channel.Model Channel.Queue Channel.Trace Channel.Core.
Import ListNotations.
Open Scope N_scope.

Definition cnt (x : N) (l : list N) : nat := count_occ N.eq_dec l x.

Lemma cnt_app x a b : cnt x (a ++ b) = (cnt x a + cnt x b)%nat.
Proof. apply count_occ_app. Qed.
Lemma cnt_nil x : cnt x [] = 0%nat.
Proof. reflexivity. Qed.
Lemma cnt_cons x y l : cnt x (y :: l) = (cnt x [y] + cnt x l)%nat.
Proof. change (y :: l) with ([y] ++ l). apply cnt_app. Qed.

Lemma flat_map_sing {A} (l : list A) : flat_map (fun a => [a]) l = l.
Proof. induction l as [|a l IH]; cbn [flat_map app]; [reflexivity|]. rewrite IH. reflexivity. Qed.

(* what an add does to a selection of the pending events, counted *)
Lemma sel_qadd_cnt {A} (f : N -> cev -> option A) (g : A -> list N) q0 t e x :
  s_tcur q0 <= t ->
  cnt x (flat_map g (sel f (pend (qadd q0 t e)))) =
  (cnt x (flat_map g (sel f (pend q0))) + cnt x (match f t e with Some a => g a | None => [] end))%nat.
Proof.
  intros H. destruct (qadd_pend q0 t e H) as [l1 [l2 [E1 E2]]].
  rewrite E2, E1, sel_new, sel_app, !flat_map_app, !cnt_app.
  destruct (f t e); cbn [flat_map app]; rewrite ?app_nil_r, ?cnt_nil; lia.
Qed.

Lemma delivered_cons i l : delivered (i :: l) = match i with IDeliver m _ => [m] | _ => [] end ++ delivered l.
Proof. reflexivity. Qed.
Lemma dropped_busy_cons i l : dropped_busy (i :: l) = match i with IDropBusy m _ _ => [m] | _ => [] end ++ dropped_busy l.
Proof. reflexivity. Qed.
Lemma dropped_full_cons i l : dropped_full (i :: l) = match i with IDropFull m _ _ => [m] | _ => [] end ++ dropped_full l.
Proof. reflexivity. Qed.

Ltac proj_cons := rewrite ?delivered_cons, ?dropped_busy_cons, ?dropped_full_cons; cbn [app].

Section Account.
Variable tx : N -> N.
Variable mt : metrics.
Variable bursts : list (N * list (N * N)).

Notation send := (send_message current enc_ev tx mt).
Notation drain := (Model.drain current enc_ev tx mt).
Notation unbusy := (Model.unbusy current enc_ev tx mt).
Notation offer := (Model.offer current enc_ev tx mt).
Notation handle_wake := (Model.handle_wake current enc_ev tx mt bursts).
Notation dispatch := (Model.dispatch current enc_ev tx mt bursts).
Notation step := (Model.step current enc_ev tx mt bursts).
Notation steps := (Model.steps current enc_ev tx mt bursts).

Definition pending_ids (p : list ev) : list N := flat_map (burst_ids bursts) (wakes p).

(* [extra]: messages the running handler holds in its hands *)
Definition Acct (extra : list N) (s : st) : Prop :=
  forall x,
    cnt x (all_ids bursts) =
    (cnt x extra + cnt x (delivered (log s)) + cnt x (dropped_busy (log s)) + cnt x (dropped_full (log s))
     + cnt x (map fst (buffer (ch s))) + cnt x (exits (pend (q s))) + cnt x (pending_ids (pend (q s))))%nat.

Lemma exits_qadd q0 t e x :
  s_tcur q0 <= t ->
  cnt x (exits (pend (qadd q0 t e))) =
  (cnt x (exits (pend q0)) + cnt x (match e with EExit m => [m] | _ => [] end))%nat.
Proof.
  intros H. pose proof (sel_qadd_cnt (fun _ e => match e with EExit m => Some m | _ => None end) (fun a => [a]) q0 t e x H) as E.
  rewrite !flat_map_sing in E. unfold exits. rewrite E. destruct e; reflexivity.
Qed.

Lemma pending_qadd q0 t e x :
  s_tcur q0 <= t ->
  cnt x (pending_ids (pend (qadd q0 t e))) =
  (cnt x (pending_ids (pend q0)) + cnt x (match e with EWake k => burst_ids bursts k | _ => [] end))%nat.
Proof.
  intros H. unfold pending_ids, wakes. rewrite sel_qadd_cnt by exact H. destruct e; reflexivity.
Qed.

Lemma Acct_sample extra s : Acct extra s -> Acct extra (sample s).
Proof. intros H x. exact (H x). Qed.

Lemma Acct_send extra s m len fq : Acct (m :: extra) s -> Acct extra (send s m len fq).
Proof.
  intros H x. specialize (H x). rewrite (cnt_cons x m extra) in H.
  destruct (busy (ch s)) eqn:Hb.
  - rewrite send_busy by exact Hb. destruct (m_pol mt) as [|lim].
    + cbn [emit log ch q]. proj_cons. rewrite (cnt_cons x m). lia.
    + destruct (over lim (acc (ch s) + len)).
      * cbn [emit log ch q]. proj_cons. rewrite (cnt_cons x m). lia.
      * cbn [emit set_ch enqueue log ch q buffer]. proj_cons.
        rewrite map_app, cnt_app. cbn [map fst]. lia.
  - rewrite send_idle by exact Hb. cbv zeta.
    set (te := now s + (m_lat mt + tx len + jit_of mt s)).
    assert (Hte : s_tcur (q s) <= te) by (unfold te, now; lia).
    destruct (tx len =? 0); cbn [log ch q set_busy_until buffer]; proj_cons.
    + rewrite exits_qadd, pending_qadd by exact Hte. rewrite cnt_nil. lia.
    + assert (Htu : s_tcur (qadd (q s) te (EExit m)) <= now s + tx len) by (rewrite qadd_tcur; unfold now; lia).
      rewrite !exits_qadd, !pending_qadd by assumption. rewrite !cnt_nil. lia.
Qed.

Lemma Acct_drain extra k : forall s, Acct extra s -> Acct extra (drain k s).
Proof.
  induction k as [|k IH]; intros s H; cbn [Model.drain]; [exact H|].
  destruct (busy (ch s)); [exact H|]. destruct (buffer (ch s)) as [|[m len] r] eqn:Eb; [exact H|].
  apply IH, Acct_send. intros x. specialize (H x). rewrite Eb in H. cbn [map fst] in H.
  rewrite (cnt_cons x m (map fst r)) in H. rewrite (cnt_cons x m extra).
  cbn [set_ch ch q log buffer]. lia.
Qed.

Lemma Acct_unbusy extra s : Acct extra s -> Acct extra (unbusy s).
Proof. intros H. unfold Model.unbusy. apply Acct_drain. intros x. exact (H x). Qed.

Lemma Acct_fold offs : forall extra s, Acct (map fst offs ++ extra) s -> Acct extra (fold_left offer offs s).
Proof.
  induction offs as [|o offs IH]; intros extra s H; cbn [fold_left]; [exact H|].
  apply IH. unfold Model.offer. apply Acct_sample, Acct_send, Acct_sample. exact H.
Qed.

Lemma Acct_step s s' : SI (q s) -> Acct [] s -> step s = Some s' -> Acct [] s'.
Proof.
  intros HS H Hs.
  destruct (pend (q s)) as [|e r] eqn:E; [rewrite step_nil in Hs by exact E; discriminate|].
  rewrite (step_cons _ _ _ _ _ _ HS E) in Hs. injection Hs as <-.
  destruct (fetch_cons _ _ _ HS E) as [_ [Hp _]].
  set (s1 := set_q s (fst (sp_fetch (q s)))).
  assert (H1 : forall x, cnt x (all_ids bursts) =
    (cnt x (match dec_ev (epay e) with EExit m => [m] | EWake k => burst_ids bursts k | EUnbusy => [] end)
     + cnt x (delivered (log s1)) + cnt x (dropped_busy (log s1)) + cnt x (dropped_full (log s1))
     + cnt x (map fst (buffer (ch s1))) + cnt x (exits (pend (q s1))) + cnt x (pending_ids (pend (q s1))))%nat).
  { intros x. specialize (H x). rewrite E in H. unfold pending_ids, exits, wakes in *. rewrite !sel_cons in H.
    cbn [s1 set_q ch q log]. rewrite Hp.
    destruct (dec_ev (epay e)); rewrite ?flat_map_app, ?cnt_app in H; cbn [flat_map app] in H;
      rewrite ?app_nil_r, ?cnt_nil in H; rewrite ?cnt_nil; lia. }
  destruct (dec_ev (epay e)) as [|m|k]; cbn [Model.dispatch].
  - apply Acct_unbusy. exact H1.
  - unfold handle_exit. apply Acct_sample. intros x. specialize (H1 x).
    cbn [emit log ch q]. proj_cons. rewrite (cnt_cons x m). rewrite cnt_nil. lia.
  - unfold Model.handle_wake. unfold burst_ids in H1.
    destruct (nth_error bursts (N.to_nat k)) as [[t offs]|]; [|exact H1].
    apply Acct_fold. rewrite app_nil_r. exact H1.
Qed.

Lemma pending_sched bs : forall pre q0 k x,
  bursts = pre ++ bs -> N.of_nat (length pre) = k -> s_tcur q0 = 0 ->
  cnt x (pending_ids (pend (sched_wakes enc_ev q0 k bs))) = (cnt x (pending_ids (pend q0)) + cnt x (all_ids bs))%nat.
Proof.
  induction bs as [|[t offs] bs IH]; intros pre q0 k x Eb Ek H0; cbn [sched_wakes].
  - unfold all_ids. cbn [flat_map]. rewrite cnt_nil. lia.
  - rewrite (IH (pre ++ [(t, offs)]) (qadd q0 t (EWake k)) (k + 1) x).
    + rewrite pending_qadd by lia. unfold all_ids. cbn [flat_map snd]. rewrite cnt_app.
      assert (Eids : burst_ids bursts k = map fst offs).
      { unfold burst_ids. rewrite Eb, <- Ek, Nat2N.id, nth_error_app2 by lia. rewrite Nat.sub_diag. reflexivity. }
      rewrite Eids. lia.
    + rewrite <- app_assoc. exact Eb.
    + rewrite app_length. cbn [length]. lia.
    + rewrite qadd_tcur. exact H0.
Qed.

Lemma Acct_init oracle : Acct [] (init enc_ev bursts oracle).
Proof.
  intros x. cbn [init ch q log idle_chan buffer delivered dropped_busy dropped_full flat_map map].
  destruct (sched_wakes_inv bursts sp_new 0 SI_new eq_refl) as [_ [_ [_ He]]]. rewrite He.
  rewrite (pending_sched bursts [] sp_new 0 x eq_refl eq_refl eq_refl). reflexivity.
Qed.

Lemma Acct_steps n : forall s, Good tx mt s -> Acct [] s -> Acct [] (steps n s).
Proof.
  induction n as [|n IH]; intros s HG H; cbn [Model.steps]; [exact H|].
  destruct (step s) as [s'|] eqn:E; [|exact H]. apply IH.
  - eapply Good_step; eassumption.
  - eapply Acct_step; [apply HG|exact H|exact E].
Qed.

(* the multiset equation *)
Theorem account oracle n :
  let s := steps n (init enc_ev bursts oracle) in
  Permutation (all_ids bursts)
    (delivered (log s) ++ dropped_busy (log s) ++ dropped_full (log s) ++ map fst (buffer (ch s))
     ++ exits (pend (q s)) ++ pending_ids (pend (q s))).
Proof.
  cbv zeta. apply (Permutation_count_occ N.eq_dec). intros x.
  pose proof (Acct_steps n _ (Good_init tx mt bursts oracle) (Acct_init oracle) x) as H.
  unfold cnt in *. rewrite !count_occ_app. cbn [count_occ] in H. lia.
Qed.

(* none twice: if the script's ids are pairwise distinct, so are the buckets *)
Corollary account_nodup oracle n :
  NoDup (all_ids bursts) ->
  let s := steps n (init enc_ev bursts oracle) in
  NoDup (delivered (log s) ++ dropped_busy (log s) ++ dropped_full (log s) ++ map fst (buffer (ch s))
         ++ exits (pend (q s)) ++ pending_ids (pend (q s))).
Proof. intros Hn. cbv zeta. eapply Permutation_NoDup; [apply account|exact Hn]. Qed.

(* when the event set has run empty everything was delivered or dropped *)
Corollary account_final oracle n :
  let s := steps n (init enc_ev bursts oracle) in
  pend (q s) = [] ->
  Permutation (all_ids bursts) (delivered (log s) ++ dropped_busy (log s) ++ dropped_full (log s)) /\
  busy (ch s) = false /\ buffer (ch s) = [].
Proof.
  cbv zeta. intros Hp. pose proof (account oracle n) as H. cbv zeta in H. rewrite Hp in H.
  destruct (Good_reachable tx mt bursts oracle n) as [HC Hi]. pose proof (C_unb _ _ _ HC) as Hu. rewrite Hp in Hu.
  destruct (busy (ch (steps n (init enc_ev bursts oracle)))) eqn:Hb; [discriminate Hu|].
  rewrite (Hi eq_refl) in *. cbn [map exits wakes sel flat_map pending_ids app] in H. rewrite !app_nil_r in H.
  refine (conj H (conj eq_refl eq_refl)).
Qed.

End Account.
