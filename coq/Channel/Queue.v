(* The future event set (CQueue.Spec) as the channel loop uses it: pending
   events in fetch order, what an add and a fetch do to them, the event
   encoding, and selections of pending events by kind. *)
From Coq Require Import List Arith NArith Lia Bool Sorting.Sorted Permutation ZifyBool.
From DesVerif Require Import Common.Codec CQueue.Model CQueue.Spec CQueue.ListX CQueue.SpecProps Channel.Model.
Import ListNotations.
Open Scope N_scope.

(* ---- event encoding ---- *)
Lemma dec_enc e : dec_ev (enc_ev e) = e.
Proof.
  destruct e as [|m|k]; unfold dec_ev, enc_ev.
  - reflexivity.
  - replace (2 * m + 1 =? 0) with false by lia.
    replace (2 * m + 1) with (1 + 2 * m) by lia. rewrite N.odd_add_mul_2.
    change (N.odd 1) with true. cbv iota.
    f_equal. symmetry. apply N.div_unique with (r := 1); lia.
  - replace (2 * k + 2 =? 0) with false by lia.
    replace (2 * k + 2) with (0 + 2 * (k + 1)) by lia. rewrite N.odd_add_mul_2.
    change (N.odd 0) with false. cbv iota.
    f_equal. rewrite <- (N.div_unique (0 + 2 * (k + 1)) 2 (k + 1) 0); lia.
Qed.

(* ---- pending events, in the order fetch returns them ---- *)
Definition pend (q0 : sp) : list ev := s_zero q0 ++ s_rest q0.

Definition new_ev (q0 : sp) (t : N) (e : cev) : ev := {| etime := t; eid := s_next q0; epay := enc_ev e |}.

Lemma qadd_eq q0 t e :
  s_tcur q0 <= t ->
  qadd q0 t e =
    if t =? s_tcur q0
    then {| s_tcur := s_tcur q0; s_zero := s_zero q0 ++ [new_ev q0 t e]; s_rest := s_rest q0; s_next := s_next q0 + 1 |}
    else {| s_tcur := s_tcur q0; s_zero := s_zero q0; s_rest := sins (new_ev q0 t e) (s_rest q0); s_next := s_next q0 + 1 |}.
Proof.
  intros H. unfold qadd, sp_add. replace (t <? s_tcur q0) with false by lia.
  destruct (t =? s_tcur q0); reflexivity.
Qed.

Lemma sins_split e l : exists l1 l2, l = l1 ++ l2 /\ sins e l = l1 ++ e :: l2.
Proof.
  induction l as [|y l IH]; cbn [sins].
  - exists [], []. split; reflexivity.
  - destruct (key_lt e y).
    + exists [], (y :: l). split; reflexivity.
    + destruct IH as [l1 [l2 [E1 E2]]]. exists (y :: l1), l2. cbn [app]. rewrite E2, <- E1. split; reflexivity.
Qed.

Lemma qadd_tcur q0 t e : s_tcur (qadd q0 t e) = s_tcur q0.
Proof.
  unfold qadd, sp_add. destruct (t <? s_tcur q0); [reflexivity|]. destruct (t =? s_tcur q0); reflexivity.
Qed.

Lemma qadd_next q0 t e : s_tcur q0 <= t -> s_next (qadd q0 t e) = s_next q0 + 1.
Proof. intros H. rewrite qadd_eq by exact H. destruct (t =? s_tcur q0); reflexivity. Qed.

Lemma qadd_SI q0 t e : SI q0 -> SI (qadd q0 t e).
Proof. apply SI_add. Qed.

(* an add puts the new event somewhere into the pending list and moves nothing else *)
Lemma qadd_pend q0 t e :
  s_tcur q0 <= t ->
  exists l1 l2, pend q0 = l1 ++ l2 /\ pend (qadd q0 t e) = l1 ++ new_ev q0 t e :: l2.
Proof.
  intros H. rewrite qadd_eq by exact H. unfold pend. destruct (t =? s_tcur q0); cbn [s_zero s_rest].
  - exists (s_zero q0), (s_rest q0). split; [reflexivity|]. rewrite <- app_assoc. reflexivity.
  - destruct (sins_split (new_ev q0 t e) (s_rest q0)) as [l1 [l2 [E1 E2]]].
    exists (s_zero q0 ++ l1), l2. rewrite E2, <- !app_assoc, E1 at 1. split; reflexivity.
Qed.

(* ---- fetch ---- *)
Lemma fetch_nil q0 : pend q0 = [] -> sp_fetch q0 = (q0, OPanic 2).
Proof.
  unfold pend, sp_fetch. intros H. apply app_eq_nil in H. destruct H as [-> ->]. reflexivity.
Qed.

Lemma fetch_cons q0 x r :
  SI q0 -> pend q0 = x :: r ->
  snd (sp_fetch q0) = OFetched (epay x) (etime x) /\
  pend (fst (sp_fetch q0)) = r /\
  s_tcur (fst (sp_fetch q0)) = etime x /\
  s_next (fst (sp_fetch q0)) = s_next q0 /\
  s_tcur q0 <= etime x /\
  SI (fst (sp_fetch q0)).
Proof.
  intros HS E. pose proof (SI_fetch q0 HS) as HS'. revert HS'. unfold pend, sp_fetch in *.
  destruct (s_zero q0) as [|z zs] eqn:Ez.
  - cbn [app] in E. rewrite E. cbn [fst snd s_zero s_rest s_tcur s_next app]. intros HS'.
    refine (conj eq_refl (conj eq_refl (conj eq_refl (conj eq_refl (conj _ HS'))))).
    apply (SI_rtime q0 HS). rewrite E. left; reflexivity.
  - cbn [app] in E. injection E as -> <-. cbn [fst snd s_zero s_rest s_tcur s_next]. intros HS'.
    assert (Et : etime x = s_tcur q0) by (apply (SI_ztime q0 HS); rewrite Ez; left; reflexivity).
    refine (conj eq_refl (conj eq_refl (conj (eq_sym Et) (conj eq_refl (conj _ HS'))))). lia.
Qed.

(* ---- selections of pending events by kind ---- *)
Definition sel {A} (f : N -> cev -> option A) (l : list ev) : list A :=
  flat_map (fun x => match f (etime x) (dec_ev (epay x)) with Some a => [a] | None => [] end) l.

Lemma sel_app {A} (f : N -> cev -> option A) l1 l2 : sel f (l1 ++ l2) = sel f l1 ++ sel f l2.
Proof. apply flat_map_app. Qed.

Lemma sel_cons {A} (f : N -> cev -> option A) x l :
  sel f (x :: l) = match f (etime x) (dec_ev (epay x)) with Some a => [a] | None => [] end ++ sel f l.
Proof. reflexivity. Qed.

Lemma sel_new {A} (f : N -> cev -> option A) q0 t e l1 l2 :
  sel f (l1 ++ new_ev q0 t e :: l2) = sel f l1 ++ match f t e with Some a => [a] | None => [] end ++ sel f l2.
Proof. rewrite sel_app, sel_cons. cbn [new_ev etime epay]. rewrite dec_enc. reflexivity. Qed.

Lemma sel_In {A} (f : N -> cev -> option A) l a :
  In a (sel f l) <-> exists x, In x l /\ f (etime x) (dec_ev (epay x)) = Some a.
Proof.
  unfold sel. rewrite in_flat_map. split; intros [x [Hx H]]; exists x; (split; [exact Hx|]).
  - destruct (f (etime x) (dec_ev (epay x))) as [b|]; [destruct H as [->|[]]; reflexivity|destruct H].
  - rewrite H. left; reflexivity.
Qed.

Definition unbusies : list ev -> list N :=
  sel (fun t e => match e with EUnbusy => Some t | _ => None end).
Definition exits : list ev -> list N :=
  sel (fun _ e => match e with EExit m => Some m | _ => None end).
Definition wakes : list ev -> list N :=
  sel (fun _ e => match e with EWake k => Some k | _ => None end).
