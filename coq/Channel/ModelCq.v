(* The channel model of Channel/Model.v and Channel/Multi.v once more, this
   time threading the CONCRETE calendar queue (CQueue.Model.cq, the model of
   des-cqueue/src/stable/mod.rs that C01 is about) with the parameters n, t of
   Builder::cqueue_options, and calling it exactly where the model calls the
   two-list specification:
     sp_new    -> cq_new n t        sp_add   -> add
     sp_fetch  -> fetch_next        s_tcur   -> tcur
     "no event pending" (s_zero ++ s_rest = [])  ->  qlen = 0
   Every definition is the one of Model.v / Multi.v with these calls replaced
   (prefix c); channel records, metrics, log items, event encodings, script
   decoding and output encoding are shared.  Channel/OverCq.v proves that for
   all n, t >= 1 this model computes exactly what Model.v / Multi.v compute.
   No proofs in this file. *)
From Coq Require Import List NArith Bool.
From DesVerif Require Import Common.Fuel Common.Codec CQueue.Model CQueue.Spec Channel.Model Channel.Multi.
Import ListNotations.
Open Scope N_scope.

Record cst := { cch : chan; cqs : cq; corc : list N; clog : list item }.

Definition cnow (s : cst) : N := tcur (cqs s).
Definition cqaddf (encf : cev -> N) (q0 : cq) (t : N) (e : cev) : cq := fst (fst (add q0 t (encf e))).

Definition cset_ch (s : cst) (c : chan) : cst := {| cch := c; cqs := cqs s; corc := corc s; clog := clog s |}.
Definition cset_q (s : cst) (q' : cq) : cst := {| cch := cch s; cqs := q'; corc := corc s; clog := clog s |}.
Definition cset_orc (s : cst) (o : list N) : cst := {| cch := cch s; cqs := cqs s; corc := o; clog := clog s |}.
Definition cemit (s : cst) (i : item) : cst := {| cch := cch s; cqs := cqs s; corc := corc s; clog := i :: clog s |}.

Definition csample (s : cst) : cst :=
  let c := cch s in
  cemit s (ISample (cnow s) (busy c) (finish c)
                   (if busy c then N.of_nat (length (buffer c)) else 0)
                   (if busy c then acc c else 0)).

Section CLoop.
Variable vr : variant.
Variable encf : cev -> N.
Variable tx : N -> N.
Variable mt : metrics.
Variable bursts : list (N * list (N * N)).

Definition ctake_jitter (s : cst) : N * list N :=
  if m_jit mt =? 0 then (0, corc s)
  else match corc s with [] => (0, []) | j :: r => (j, r) end.

Definition csend_message (s : cst) (m len : N) (fromq : bool) : cst :=
  let c := cch s in
  if busy c then
    match m_pol mt with
    | PDrop => cemit s (IDropBusy m len (cnow s))
    | PQueue lim =>
        if over lim (acc c + len) then cemit s (IDropFull m len (cnow s))
        else cemit (cset_ch s (enqueue c m len)) (IEnq m len (cnow s))
    end
  else
    let '(j, o') := ctake_jitter s in
    let b := tx len in
    let t := cnow s in
    let s1 := cset_orc s o' in
    let add_unbusy (s' : cst) :=
      if b =? 0 then s'
      else cset_q (cset_ch s' (set_busy_until (cch s') (t + b))) (cqaddf encf (cqs s') (t + b) EUnbusy) in
    let add_exit (s' : cst) := cset_q s' (cqaddf encf (cqs s') (t + (m_lat mt + b + j)) (EExit m)) in
    let s2 := if exit_first vr then add_unbusy (add_exit s1) else add_exit (add_unbusy s1) in
    cemit s2 (IStart m len t j fromq).

Fixpoint cdrain (k : nat) (s : cst) : cst :=
  match k with
  | O => s
  | S k' =>
      if busy (cch s) then s
      else match buffer (cch s) with
           | [] => s
           | (m, len) :: r =>
               let c := {| busy := false; finish := finish (cch s); buffer := r; acc := acc (cch s) - len |} in
               cdrain k' (csend_message (cset_ch s c) m len true)
           end
  end.

Definition cunbusy (s : cst) : cst :=
  let c := {| busy := false; finish := 0; buffer := buffer (cch s); acc := acc (cch s) |} in
  let s1 := cemit (cset_ch s c) (IUnbusy (cnow s)) in
  cdrain (if drain_all vr then length (buffer c) else 1%nat) s1.

Definition coffer (s : cst) (o : N * N) : cst := csample (csend_message (csample s) (fst o) (snd o) false).

Definition chandle_wake (s : cst) (k : N) : cst :=
  match nth_error bursts (N.to_nat k) with
  | None => s
  | Some (_, offs) => fold_left coffer offs s
  end.

Definition chandle_exit (s : cst) (m : N) : cst := csample (cemit s (IDeliver m (cnow s))).

Definition cdispatch (s : cst) (e : cev) : cst :=
  match e with
  | EUnbusy => cunbusy s
  | EExit m => chandle_exit s m
  | EWake k => chandle_wake s k
  end.

Definition cstep (s : cst) : option cst :=
  match fetch_next (cqs s) with
  | (q', OFetched pay _) => Some (cdispatch (cset_q s q') (dec_ev pay))
  | _ => None
  end.

Fixpoint csteps (n : nat) (s : cst) : cst :=
  match n with
  | O => s
  | S n' => match cstep s with Some s' => csteps n' s' | None => s end
  end.

Fixpoint csched_wakes (q0 : cq) (k : N) (bs : list (N * list (N * N))) : cq :=
  match bs with
  | [] => q0
  | (t, _) :: r => csched_wakes (cqaddf encf q0 t (EWake k)) (k + 1) r
  end.

(* the calendar queue is created with n buckets of width t (Builder::cqueue_options) *)
Definition cinit (n t : N) (oracle : list N) : cst :=
  {| cch := idle_chan; cqs := csched_wakes (cq_new n t) 0 bursts; corc := oracle; clog := [] |}.

End CLoop.

(* ---- several channels on one calendar queue (Channel/Multi.v) ---- *)
Record cmst := { cchs : N -> option chan; cmq : cq; corcs : N -> list N; cmlog : list (N * item) }.

Definition cinst_of (s : cmst) (c : N) : chan :=
  match cchs s c with
  | Some x => x
  | None => dup (match cchs s 0 with Some t => t | None => idle_chan end)
  end.

Definition cview (c : N) (s : cmst) : cst := {| cch := cinst_of s c; cqs := cmq s; corc := corcs s c; clog := [] |}.

Definition cback (c : N) (s : cmst) (s' : cst) : cmst :=
  {| cchs := upd (cchs s) c (Some (cch s')); cmq := cqs s'; corcs := upd (corcs s) c (corc s');
     cmlog := map (pair c) (clog s') ++ cmlog s |}.

Definition con (c : N) (f : cst -> cst) (s : cmst) : cmst := cback c s (f (cview c s)).

Section CMLoop.
Variable inst : N -> N.
Variable txs : N -> N -> N.
Variable mts : N -> metrics.
Variable mbursts : list (N * list (N * N * N)).

Definition cmunbusy (s : cmst) (c : N) : cmst := con c (cunbusy current (enc_at c) (txs c) (mts c)) s.

Definition cmexit (s : cmst) (c m : N) : cmst := con c (fun v => chandle_exit v m) s.

Definition cmoffer (s : cmst) (o : N * N * N) : cmst :=
  let '(c0, m, len) := o in
  let c := inst (c0 mod NCH) mod NCH in
  con c (fun v => coffer current (enc_at c) (txs c) (mts c) v (m, len)) s.

Definition cmwake (s : cmst) (k : N) : cmst :=
  match nth_error mbursts (N.to_nat k) with
  | None => s
  | Some (_, offs) => fold_left cmoffer offs s
  end.

Definition cmdispatch (s : cmst) (e : mev) : cmst :=
  match e with
  | MUnbusy c => cmunbusy s c
  | MExit c m => cmexit s c m
  | MWake k => cmwake s k
  end.

Definition cmstep (s : cmst) : option cmst :=
  match fetch_next (cmq s) with
  | (q', OFetched pay _) =>
      Some (cmdispatch {| cchs := cchs s; cmq := q'; corcs := corcs s; cmlog := cmlog s |} (dec_mev pay))
  | _ => None
  end.

Fixpoint cmsteps (n : nat) (s : cmst) : cmst :=
  match n with
  | O => s
  | S n' => match cmstep s with Some s' => cmsteps n' s' | None => s end
  end.

Definition cminit (n t : N) (oracles : N -> list N) : cmst :=
  {| cchs := fun _ => None;
     cmq := csched_wakes (enc_at 0) (cq_new n t) 0 (map (fun b => (fst b, @nil (N * N))) mbursts);
     corcs := oracles; cmlog := [] |}.

End CMLoop.

(* Multi.run over a calendar queue with n buckets of width t *)
Definition run_cq (n t : N) (input : list N) : list N :=
  match input with
  | _ :: nl :: r =>
      if nl =? 0 then run_probe r else
      let nl' := N.max 1 (N.min nl 3) in
      let ls := links_of (N.to_nat nl') r in
      let r0 := skipn (7 * N.to_nat nl') r in
      let '(tb, r1) := take_lp r0 in
      let '(ob, r2) := take_lp r1 in
      let tbl := triples tb in
      let k := 2 * nl' in
      let offs := map (fun o => (fst (fst o), snd (fst o) mod k, N.max hdr_len (snd o))) (triples r2) in
      let bs := sched_order (mgroup offs 0) in
      let s0 := cmsteps own_instance (fun c => tx_tbl3 tbl (c / 2)) (fun c => eff_metrics ls (N.to_nat (c / 2))) bs
                  (mfuel offs) (cminit bs n t (orc_of (pairs ob))) in
      let s := fold_left (fun s c => con c csample s) (map N.of_nat (seq 0 (N.to_nat k))) s0 in
      [7; N.of_nat (length tbl)] ++ flat_map (fun p => [fst (fst p); snd (fst p); snd p]) tbl
        ++ flat_map enc_mitem (rev (cmlog s))
        ++ (if qlen (cmq s) =? 0 then [] else [9])
  | _ => [8]
  end.
