(* Several channel instances on one event set: both directions of a link,
   several links built from one template handle, links connected at run time.

   Gate::connect gives every direction of every link its own Channel instance,
   created by Channel::dup from the template handle (fix F18: also the reverse
   direction).  [dup] copies the metrics only, so an instance starts idle with
   an empty queue whatever state the template is in, also when the template is
   the live channel of another link that is transmitting at that moment.
   Channel c has its own record [chs c], its own share [orcs c] of the jitter
   samples (the samples its transmissions draw) and its own part of the log;
   the event set [mq] is shared, events carry the channel they belong to.
   The handlers are those of Channel.Model, run on the channel's view of the
   state with a channel-tagged event encoding.  All links have the same metrics.

   A burst is one handler invocation of one of the two modules; it may send
   into several channels.  No proofs in this file (see Project.v). *)
From Coq Require Import List NArith Bool.
From DesVerif Require Import Common.Codec CQueue.Model CQueue.Spec Channel.Model.
Import ListNotations.
Open Scope N_scope.

(* ChannelInner::dup: metrics are global here, the transient state is not copied *)
Definition dup (template : chan) : chan := {| busy := false; finish := 0; buffer := []; acc := 0 |}.

(* at most 16 channel instances *)
Definition NCH : N := 16.

Inductive mev := MUnbusy (c : N) | MExit (c m : N) | MWake (k : N).

Definition enc_mev (e : mev) : N :=
  match e with
  | MUnbusy c => 3 * (c mod NCH)
  | MExit c m => 3 * (NCH * m + c mod NCH) + 1
  | MWake k => 3 * k + 2
  end.

Definition dec_mev (p : N) : mev :=
  let y := p / 3 in
  let r := p mod 3 in
  if r =? 0 then MUnbusy (y mod NCH) else if r =? 1 then MExit (y mod NCH) (y / NCH) else MWake y.

Definition lift (c : N) (e : cev) : mev :=
  match e with EUnbusy => MUnbusy c | EExit m => MExit c m | EWake k => MWake k end.

(* the encoding channel c's handlers add their events with *)
Definition enc_at (c : N) (e : cev) : N := enc_mev (lift c e).

Record mst := { chs : N -> chan; mq : sp; orcs : N -> list N; mlog : list (N * item) }.

Definition upd {A} (f : N -> A) (c : N) (v : A) : N -> A := fun x => if x =? c then v else f x.

(* channel c's view of the state, and writing a handler's result back *)
Definition view (c : N) (s : mst) : st := {| ch := chs s c; q := mq s; orc := orcs s c; log := [] |}.

Definition back (c : N) (s : mst) (s' : st) : mst :=
  {| chs := upd (chs s) c (ch s'); mq := q s'; orcs := upd (orcs s) c (orc s');
     mlog := map (pair c) (log s') ++ mlog s |}.

Definition on (c : N) (f : st -> st) (s : mst) : mst := back c s (f (view c s)).

(* Which instance serves a channel.  The code as it is now gives every direction of every link
   its own instance ([own_instance]).  Before fix 6d86248 (F18) Gate::connect used the caller's
   handle itself for the reverse direction, so the reverse directions of all links built from one
   handle were served by one instance; Refuted/C07.v describes that with another map. *)
Definition own_instance (c : N) : N := c.

Section MLoop.
Variable inst : N -> N.
Variable tx : N -> N.
Variable mt : metrics.
Variable mbursts : list (N * list (N * N * N)).   (* (time, [(channel, msg id, length)]) *)

Definition munbusy (s : mst) (c : N) : mst := on c (unbusy current (enc_at c) tx mt) s.

Definition mexit (s : mst) (c m : N) : mst := on c (fun v => handle_exit v m) s.

Definition moffer (s : mst) (o : N * N * N) : mst :=
  let '(c0, m, len) := o in
  let c := inst (c0 mod NCH) mod NCH in
  on c (fun v => offer current (enc_at c) tx mt v (m, len)) s.

Definition mwake (s : mst) (k : N) : mst :=
  match nth_error mbursts (N.to_nat k) with
  | None => s
  | Some (_, offs) => fold_left moffer offs s
  end.

Definition mdispatch (s : mst) (e : mev) : mst :=
  match e with
  | MUnbusy c => munbusy s c
  | MExit c m => mexit s c m
  | MWake k => mwake s k
  end.

Definition mstep (s : mst) : option mst :=
  match sp_fetch (mq s) with
  | (q', OFetched pay _) =>
      Some (mdispatch {| chs := chs s; mq := q'; orcs := orcs s; mlog := mlog s |} (dec_mev pay))
  | _ => None
  end.

Fixpoint msteps (n : nat) (s : mst) : mst :=
  match n with
  | O => s
  | S n' => match mstep s with Some s' => msteps n' s' | None => s end
  end.

(* at_sim_start: one wake-up per burst, in the order of the list; every
   instance is a dup of the template, whatever state [template c] is in *)
Definition minit (template : N -> chan) (oracles : N -> list N) : mst :=
  {| chs := fun c => dup (template c);
     mq := sched_wakes (enc_at 0) sp_new 0 (map (fun b => (fst b, @nil (N * N))) mbursts);
     orcs := oracles; mlog := [] |}.

End MLoop.

(* ---- script level ------------------------------------------------------- *)

(* offers (time, channel, length): consecutive offers with the same time and the same sending
   module (parity of the channel: even = forward direction, sent by module A; odd = reverse,
   sent by module B) form one burst; message ids are script positions *)
Fixpoint mgroup (offs : list (N * N * N)) (m : N) : list (N * bool * list (N * N * N)) :=
  match offs with
  | [] => []
  | (t, c, len) :: r =>
      let side := N.odd c in
      match mgroup r (m + 1) with
      | (t', side', b) :: g =>
          if (t =? t') && Bool.eqb side side' then (t, side, (c, m, len) :: b) :: g
          else (t, side, [(c, m, len)]) :: (t', side', b) :: g
      | [] => [(t, side, [(c, m, len)])]
      end
  end.

(* module A schedules its wake-ups first, then module B *)
Definition sched_order (g : list (N * bool * list (N * N * N))) : list (N * list (N * N * N)) :=
  map (fun b => (fst (fst b), snd b)) (filter (fun b => negb (snd (fst b))) g ++ filter (fun b => snd (fst b)) g).

Definition mfuel (offs : list (N * N * N)) : nat := 3 * length offs + 1.

Fixpoint triples (l : list N) : list (N * N * N) :=
  match l with
  | a :: b :: c :: r => (a, b, c) :: triples r
  | _ => []
  end.

(* the samples channel c's transmissions draw: the c-tagged entries of the oracle, in order *)
Fixpoint orc_of (l : list (N * N)) (c : N) : list N :=
  match l with
  | [] => []
  | (c', j) :: r => if c' =? c then j :: orc_of r c else orc_of r c
  end.

Definition enc_mitem (ci : N * item) : list N :=
  let '(c, i) := ci in
  match i with
  | IStart m _ t _ fromq => [1; c; m; t] ++ (if fromq then [] else [4; c; m; 0])
  | IDropBusy m _ _ => [4; c; m; 1]
  | IDropFull m _ _ => [4; c; m; 2]
  | IEnq m _ _ => [4; c; m; 3]
  | IUnbusy _ => []
  | IDeliver m t => [2; c; m; t]
  | ISample t b f pk bts => [3; c; t; b2n b; f; pk; bts]
  end.

(* script: seed brk br lat jit pol lim  nl mode{nl}  ntx (len tx)*  norc (c j)*  (t c len)*
   nl links = 2 nl channels (2i: forward, 2i+1: reverse direction of link i); seed, bitrate and the
   link modes (how and when each link is connected) only concern the implementation.
   A trailing 9 reports events left pending (fuel exhausted). *)
Definition run (input : list N) : list N :=
  match input with
  | _ :: _ :: _ :: lat :: jit :: pol :: lim :: nl :: r =>
      let nl' := N.max 1 (N.min nl 3) in
      let '(_, r0) := take_n (N.to_nat nl') r in
      let '(tb, r1) := take_lp r0 in
      let '(ob, r2) := take_lp r1 in
      let tbl := pairs tb in
      let k := 2 * nl' in
      let offs := map (fun o => (fst (fst o), snd (fst o) mod k, N.max hdr_len (snd o))) (triples r2) in
      let mt := {| m_lat := lat; m_jit := jit; m_pol := dec_policy pol lim |} in
      let bs := sched_order (mgroup offs 0) in
      let s0 := msteps own_instance (tx_tbl tbl) mt bs (mfuel offs) (minit bs (fun _ => idle_chan) (orc_of (pairs ob))) in
      (* at_sim_end: every channel is sampled once more *)
      let s := fold_left (fun s c => on c sample s) (map N.of_nat (seq 0 (N.to_nat k))) s0 in
      [7; N.of_nat (length tbl)] ++ flat_map (fun p => [fst p; snd p]) tbl
        ++ flat_map enc_mitem (rev (mlog s))
        ++ (match s_zero (mq s) ++ s_rest (mq s) with [] => [] | _ => [9] end)
  | _ => [8]
  end.
