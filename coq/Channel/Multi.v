(* Several channel instances on one event set: both directions of a link,
   several links built from one template handle, links connected at run time.

   Gate::connect gives every direction of every link its own Channel instance,
   created by Channel::dup from the template handle (fix F18: also the reverse
   direction).  [dup] copies the metrics only, so an instance starts idle with
   an empty queue whatever state the template is in, also when the template is
   the live channel of another link that is transmitting at that moment, or a
   handle with any history (taken from a simulation that was stopped while it
   was transmitting or had messages queued, and then dropped).
   An instance does not exist ([chs c = None]) until a handler first uses it;
   it is then created by [dup] from the current state of channel 0, the live
   template of run-time connects (links connected before the run are created
   the same way: nothing can be offered to a channel before it exists).
   Channel c has its own metrics [mts c] and transmission-time function
   [txs c], its own record, its own share [orcs c] of the jitter samples (the
   samples its transmissions draw) and its own part of the log; the event set
   [mq] is shared, events carry the channel they belong to.  The handlers are
   those of Channel.Model, run on the channel's view of the state with a
   channel-tagged event encoding.

   A burst is one handler invocation of one of the two modules; it may send
   into several channels.  No proofs in this file (see Project.v). *)
From Coq Require Import List NArith Bool.
From DesVerif Require Import Common.Codec CQueue.Model CQueue.Spec Channel.Model Channel.DrawModel.
Import ListNotations.
Open Scope N_scope.

(* ChannelInner::dup: metrics are global here, the transient state is not copied *)
Definition dup (template : chan) : chan := {| busy := false; finish := 0; buffer := []; acc := 0 |}.

(* at most 16 channel instances *)
Definition NCH : N := 16.

Inductive mev := MUnbusy (c : N) | MExit (c m : N) | MWake (k : N).

Definition enc_mev (e : mev) : N :=
  match e with
  | MUnbusy c => 3 * (c mod NCH)
  | MExit c m => 3 * (NCH * m + c mod NCH) + 1
  | MWake k => 3 * k + 2
  end.

Definition dec_mev (p : N) : mev :=
  let y := p / 3 in
  let r := p mod 3 in
  if r =? 0 then MUnbusy (y mod NCH) else if r =? 1 then MExit (y mod NCH) (y / NCH) else MWake y.

Definition lift (c : N) (e : cev) : mev :=
  match e with EUnbusy => MUnbusy c | EExit m => MExit c m | EWake k => MWake k end.

(* the encoding channel c's handlers add their events with *)
Definition enc_at (c : N) (e : cev) : N := enc_mev (lift c e).

Record mst := { chs : N -> option chan; mq : sp; orcs : N -> list N; mlog : list (N * item) }.

Definition upd {A} (f : N -> A) (c : N) (v : A) : N -> A := fun x => if x =? c then v else f x.

(* the instance of channel c: created on first use from the live template, channel 0 *)
Definition inst_of (s : mst) (c : N) : chan :=
  match chs s c with
  | Some x => x
  | None => dup (match chs s 0 with Some t => t | None => idle_chan end)
  end.

(* channel c's view of the state, and writing a handler's result back *)
Definition view (c : N) (s : mst) : st := {| ch := inst_of s c; q := mq s; orc := orcs s c; log := [] |}.

Definition back (c : N) (s : mst) (s' : st) : mst :=
  {| chs := upd (chs s) c (Some (ch s')); mq := q s'; orcs := upd (orcs s) c (orc s');
     mlog := map (pair c) (log s') ++ mlog s |}.

Definition on (c : N) (f : st -> st) (s : mst) : mst := back c s (f (view c s)).

(* Which instance serves a channel.  The code as it is now gives every direction of every link
   its own instance ([own_instance]).  Before fix 6d86248 (F18) Gate::connect used the caller's
   handle itself for the reverse direction, so the reverse directions of all links built from one
   handle were served by one instance; Refuted/C07.v describes that with another map. *)
Definition own_instance (c : N) : N := c.

Section MLoop.
Variable inst : N -> N.
Variable txs : N -> N -> N.          (* per channel: length -> transmission time *)
Variable mts : N -> metrics.         (* per channel: latency, jitter, drop policy *)
Variable mbursts : list (N * list (N * N * N)).   (* (time, [(channel, msg id, length)]) *)

Definition munbusy (s : mst) (c : N) : mst := on c (unbusy current (enc_at c) (txs c) (mts c)) s.

Definition mexit (s : mst) (c m : N) : mst := on c (fun v => handle_exit v m) s.

Definition moffer (s : mst) (o : N * N * N) : mst :=
  let '(c0, m, len) := o in
  let c := inst (c0 mod NCH) mod NCH in
  on c (fun v => offer current (enc_at c) (txs c) (mts c) v (m, len)) s.

Definition mwake (s : mst) (k : N) : mst :=
  match nth_error mbursts (N.to_nat k) with
  | None => s
  | Some (_, offs) => fold_left moffer offs s
  end.

Definition mdispatch (s : mst) (e : mev) : mst :=
  match e with
  | MUnbusy c => munbusy s c
  | MExit c m => mexit s c m
  | MWake k => mwake s k
  end.

Definition mstep (s : mst) : option mst :=
  match sp_fetch (mq s) with
  | (q', OFetched pay _) =>
      Some (mdispatch {| chs := chs s; mq := q'; orcs := orcs s; mlog := mlog s |} (dec_mev pay))
  | _ => None
  end.

Fixpoint msteps (n : nat) (s : mst) : mst :=
  match n with
  | O => s
  | S n' => match mstep s with Some s' => msteps n' s' | None => s end
  end.

(* at_sim_start: one wake-up per burst, in the order of the list; no instance exists yet *)
Definition minit (oracles : N -> list N) : mst :=
  {| chs := fun _ => None;
     mq := sched_wakes (enc_at 0) sp_new 0 (map (fun b => (fst b, @nil (N * N))) mbursts);
     orcs := oracles; mlog := [] |}.

End MLoop.

(* ---- script level ------------------------------------------------------- *)

(* offers (time, channel, length): consecutive offers with the same time and the same sending
   module (parity of the channel: even = forward direction, sent by module A; odd = reverse,
   sent by module B) form one burst; message ids are script positions *)
Fixpoint mgroup (offs : list (N * N * N)) (m : N) : list (N * bool * list (N * N * N)) :=
  match offs with
  | [] => []
  | (t, c, len) :: r =>
      let side := N.odd c in
      match mgroup r (m + 1) with
      | (t', side', b) :: g =>
          if (t =? t') && Bool.eqb side side' then (t, side, (c, m, len) :: b) :: g
          else (t, side, [(c, m, len)]) :: (t', side', b) :: g
      | [] => [(t, side, [(c, m, len)])]
      end
  end.

(* module A schedules its wake-ups first, then module B *)
Definition sched_order (g : list (N * bool * list (N * N * N))) : list (N * list (N * N * N)) :=
  map (fun b => (fst (fst b), snd b)) (filter (fun b => negb (snd (fst b))) g ++ filter (fun b => snd (fst b)) g).

Definition mfuel (offs : list (N * N * N)) : nat := 3 * length offs + 1.

Fixpoint triples (l : list N) : list (N * N * N) :=
  match l with
  | a :: b :: c :: r => (a, b, c) :: triples r
  | _ => []
  end.

(* the samples channel c's transmissions draw: the c-tagged entries of the oracle, in order *)
Fixpoint orc_of (l : list (N * N)) (c : N) : list N :=
  match l with
  | [] => []
  | (c', j) :: r => if c' =? c then j :: orc_of r c else orc_of r c
  end.

Definition enc_mitem (ci : N * item) : list N :=
  let '(c, i) := ci in
  match i with
  | IStart m _ t _ fromq => [1; c; m; t] ++ (if fromq then [] else [4; c; m; 0])
  | IDropBusy m _ _ => [4; c; m; 1]
  | IDropFull m _ _ => [4; c; m; 2]
  | IEnq m _ _ => [4; c; m; 3]
  | IUnbusy _ => []
  | IDeliver m t => [2; c; m; t]
  | ISample t b f pk bts => [3; c; t; b2n b; f; pk; bts]
  end.

(* one link of the script: its metrics and how it is connected (0: before the run with its own
   Channel::new, 1: before the run with a clone of one shared template handle, 2: at run time with
   the live forward channel of link 0 as template) *)
Record linkrec := { l_mt : metrics; l_mode : N }.

Definition no_link : linkrec := {| l_mt := {| m_lat := 0; m_jit := 0; m_pol := PDrop |}; l_mode := 0 |}.

(* link i is described by 7 numbers: brk br lat jit pol lim mode (brk, br: the bitrate, for the implementation) *)
Fixpoint links_of (k : nat) (l : list N) : list linkrec :=
  match k with
  | O => []
  | S k' =>
      {| l_mt := {| m_lat := nth 2 l 0; m_jit := nth 3 l 0; m_pol := dec_policy (nth 4 l 0) (nth 5 l 0) |};
         l_mode := nth 6 l 0 |} :: links_of k' (skipn 7 l)
  end.

(* the metrics a link's two instances get: those of its template (Channel::dup copies them) *)
Definition eff_metrics (ls : list linkrec) (i : nat) : metrics :=
  let me := nth i ls no_link in
  if l_mode me =? 1 then
    match find (fun l => l_mode l =? 1) ls with Some l => l_mt l | None => l_mt me end
  else if (l_mode me =? 2) && negb (Nat.eqb i 0) then l_mt (nth 0 ls no_link)
  else l_mt me.

Fixpoint tx_tbl3 (tbl : list (N * N * N)) (i len : N) : N :=
  match tbl with
  | [] => 0
  | (i', l, t) :: r => if (i' =? i) && (l =? len) then t else tx_tbl3 r i len
  end.

(* script: seed nl (brk br lat jit pol lim mode){nl}  ntx (link len tx)*  norc (c j)*  (t c len)*
   nl links = 2 nl channels (2i: forward, 2i+1: reverse direction of link i); the seed, the bitrates
   and when a link is connected only concern the implementation; the tx table gives the transmission
   time per link and message length.  A trailing 9 would report events left pending (fuel exhausted;
   excluded by MTerm.multi_run_completes). *)
(* probe script (nl = 0): seed 0 brk br lat jit  ntx (len tx)*  nw (hi lo)*
   the public ChannelMetrics::calculate_duration is called, for every listed message length, with a
   generator that returns the 64-bit word hi * 2^32 + lo for every draw; the answer is
   duration - latency - tx len, i.e. the jitter that word yields (DrawModel.jit_of_word):
   record 5 len hi lo j *)
Definition run_probe (r : list N) : list N :=
  let jit := nth 3 r 0 in
  let '(tb, r1) := take_lp (skipn 4 r) in
  let '(wb, _) := take_lp r1 in
  let tbl := pairs tb in
  [7; N.of_nat (length tbl)] ++ flat_map (fun p => [fst p; snd p]) tbl
    ++ flat_map (fun p => flat_map (fun w => [5; fst p; fst w; snd w; jit_of_word jit (fst w * 2 ^ 32 + snd w)]) (pairs wb)) tbl.

Definition run (input : list N) : list N :=
  match input with
  | _ :: nl :: r =>
      if nl =? 0 then run_probe r else
      let nl' := N.max 1 (N.min nl 3) in
      let ls := links_of (N.to_nat nl') r in
      let r0 := skipn (7 * N.to_nat nl') r in
      let '(tb, r1) := take_lp r0 in
      let '(ob, r2) := take_lp r1 in
      let tbl := triples tb in
      let k := 2 * nl' in
      let offs := map (fun o => (fst (fst o), snd (fst o) mod k, N.max hdr_len (snd o))) (triples r2) in
      let bs := sched_order (mgroup offs 0) in
      let s0 := msteps own_instance (fun c => tx_tbl3 tbl (c / 2)) (fun c => eff_metrics ls (N.to_nat (c / 2))) bs
                  (mfuel offs) (minit bs (orc_of (pairs ob))) in
      (* at_sim_end: every channel is sampled once more *)
      let s := fold_left (fun s c => on c sample s) (map N.of_nat (seq 0 (N.to_nat k))) s0 in
      [7; N.of_nat (length tbl)] ++ flat_map (fun p => [fst (fst p); snd (fst p); snd p]) tbl
        ++ flat_map enc_mitem (rev (mlog s))
        ++ (match s_zero (mq s) ++ s_rest (mq s) with [] => [] | _ => [9] end)
  | _ => [8]
  end.
