(* The core invariant of the channel loop: the log is well formed (Trace.wf_log:
   busy span in event order, FIFO start, queue limit, samples), the channel
   record is what the log says, a busy channel has exactly one Unbusy event
   pending, stamped with its finish time, and -- at event boundaries -- an
   idle channel has an empty queue. *)
From Coq Require Import List Arith NArith Lia Bool Sorting.Sorted Permutation ZifyBool.
From DesVerif Require Import Common.Codec CQueue.Model CQueue.Spec CQueue.ListX CQueue.SpecProps
  Channel.Model Channel.Queue Channel.Trace.
Import ListNotations.
Open Scope N_scope.

Lemma qsum_app a b : qsum (a ++ b) = qsum a + qsum b.
Proof. induction a as [|x a IH]; cbn [qsum app fold_right] in *; [reflexivity|]. fold (qsum (a ++ b)) (qsum a). lia. Qed.

Lemma qsum_cons x a : qsum (x :: a) = snd x + qsum a.
Proof. reflexivity. Qed.

Section Core.
Variable tx : N -> N.
Variable mt : metrics.
Variable bursts : list (N * list (N * N)).

Notation send := (send_message current enc_ev tx mt).
Notation drain := (Model.drain current enc_ev tx mt).
Notation unbusy := (Model.unbusy current enc_ev tx mt).
Notation offer := (Model.offer current enc_ev tx mt).
Notation handle_wake := (Model.handle_wake current enc_ev tx mt bursts).
Notation dispatch := (Model.dispatch current enc_ev tx mt bursts).
Notation step := (Model.step current enc_ev tx mt bursts).
Notation steps := (Model.steps current enc_ev tx mt bursts).

(* ---- the functions of the model, as equations ---- *)
Lemma send_busy s m len fq :
  busy (ch s) = true ->
  send s m len fq =
    match m_pol mt with
    | PDrop => emit s (IDropBusy m len (now s))
    | PQueue lim =>
        if over lim (acc (ch s) + len) then emit s (IDropFull m len (now s))
        else emit (set_ch s (enqueue (ch s) m len)) (IEnq m len (now s))
    end.
Proof. unfold send_message. intros ->. reflexivity. Qed.

Definition jit_of (s : st) : N := fst (take_jitter mt s).

Lemma send_idle s m len fq :
  busy (ch s) = false ->
  send s m len fq =
    let j := jit_of s in
    let te := now s + (m_lat mt + tx len + j) in
    if tx len =? 0
    then {| ch := ch s; q := qadd (q s) te (EExit m); orc := snd (take_jitter mt s);
            log := IStart m len (now s) j fq :: log s |}
    else {| ch := set_busy_until (ch s) (now s + tx len);
            q := qadd (qadd (q s) te (EExit m)) (now s + tx len) EUnbusy; orc := snd (take_jitter mt s);
            log := IStart m len (now s) j fq :: log s |}.
Proof.
  unfold send_message, jit_of. intros ->. destruct (take_jitter mt s) as [j o'].
  cbn [exit_first current fst snd]. destruct (tx len =? 0); reflexivity.
Qed.

Lemma step_nil s : pend (q s) = [] -> step s = None.
Proof. intros H. unfold Model.step. rewrite (fetch_nil _ H). reflexivity. Qed.

Lemma step_cons s x r :
  SI (q s) -> pend (q s) = x :: r ->
  step s = Some (dispatch (set_q s (fst (sp_fetch (q s)))) (dec_ev (epay x))).
Proof.
  intros HS E. unfold Model.step. destruct (fetch_cons _ _ _ HS E) as [Ho _].
  destruct (sp_fetch (q s)) as [q' o]. cbn [fst snd] in *. rewrite Ho. reflexivity.
Qed.

(* ---- the invariant ---- *)
Record Core (s : st) : Prop := {
  C_SI : SI (q s);
  C_wf : wf_log tx mt (log s);
  C_cur : cur_of tx (log s) = if busy (ch s) then Some (finish (ch s)) else None;
  C_queue : queue_of (log s) = buffer (ch s);
  C_acc : acc (ch s) = qsum (buffer (ch s));
  C_fin : busy (ch s) = false -> finish (ch s) = 0;
  C_unb : unbusies (pend (q s)) = if busy (ch s) then [finish (ch s)] else []
}.

(* at event boundaries: no message is stuck *)
Definition Good (s : st) : Prop := Core s /\ (busy (ch s) = false -> buffer (ch s) = []).

Lemma Core_sample s : Core s -> Core (sample s).
Proof.
  intros [HS Hw Hc Hq Ha Hf Hu]. unfold sample. constructor; cbn [emit ch q log cur_of queue_of]; try assumption.
  cbn [wf_log]. split; [|exact Hw]. cbn [item_ok]. rewrite Hc, Hq.
  destruct (busy (ch s)); [repeat split; exact Ha|].
  repeat split. apply Hf; reflexivity.
Qed.

Lemma Good_sample s : Good s -> Good (sample s).
Proof. intros [H1 H2]. split; [apply Core_sample; exact H1|exact H2]. Qed.

Lemma Core_send_busy s m len fq : Core s -> busy (ch s) = true -> Core (send s m len fq) /\ busy (ch (send s m len fq)) = true.
Proof.
  intros [HS Hw Hc Hq Ha Hf Hu] Hb. rewrite send_busy by exact Hb. rewrite Hb in *.
  assert (Hne : cur_of tx (log s) <> None) by (rewrite Hc; discriminate).
  destruct (m_pol mt) as [|lim] eqn:Ep.
  - split; [|exact Hb]. constructor; cbn [emit ch q log cur_of queue_of]; try assumption; [|rewrite Hb; assumption..].
    cbn [wf_log item_ok]. repeat split; assumption.
  - destruct (over lim (acc (ch s) + len)) eqn:Eo.
    + split; [|exact Hb]. constructor; cbn [emit ch q log cur_of queue_of]; try assumption; [|rewrite Hb; assumption..].
      cbn [wf_log item_ok]. split; [|exact Hw]. split; [exact Hne|]. exists lim. rewrite Hq, <- Ha. split; [exact Ep|exact Eo].
    + split; [|exact Hb]. constructor; cbn [emit set_ch enqueue ch q log cur_of queue_of busy finish buffer acc]; try assumption.
      * cbn [wf_log item_ok]. split; [|exact Hw]. split; [exact Hne|]. exists lim. rewrite Hq, <- Ha. split; [exact Ep|exact Eo].
      * rewrite Hb. exact Hc.
      * rewrite Hq. reflexivity.
      * rewrite qsum_app, Ha. cbn [qsum fold_right snd]. lia.
      * rewrite Hb. discriminate.
      * rewrite Hb. exact Hu.
Qed.

(* a transmission starts on an idle channel: directly (nothing queued) or from the head of the queue *)
Lemma Core_start s m len (fq : bool) :
  SI (q s) -> wf_log tx mt (log s) -> busy (ch s) = false -> finish (ch s) = 0 ->
  cur_of tx (log s) = None -> unbusies (pend (q s)) = [] -> acc (ch s) = qsum (buffer (ch s)) ->
  (if fq return Prop then hd_error (queue_of (log s)) = Some (m, len) /\ deq_ctx tx (log s) = Some (now s) /\
               tl (queue_of (log s)) = buffer (ch s)
   else queue_of (log s) = [] /\ buffer (ch s) = []) ->
  Core (send s m len fq).
Proof.
  intros HS Hw Hb Hf Hc Hu Ha Hfq. rewrite send_idle by exact Hb. cbv zeta.
  set (j := jit_of s). set (te := now s + (m_lat mt + tx len + j)).
  assert (Hte : s_tcur (q s) <= te) by (unfold te, now; lia).
  assert (Hok : item_ok tx mt (IStart m len (now s) j fq) (log s)).
  { cbn [item_ok]. destruct fq; [destruct Hfq as [H1 [H2 H3]]; repeat split; assumption|].
    destruct Hfq as [H1 H2]. split; assumption. }
  assert (Hq' : queue_of (IStart m len (now s) j fq :: log s) = buffer (ch s)).
  { cbn [queue_of]. destruct fq; [apply Hfq|]. destruct Hfq as [-> ->]. reflexivity. }
  destruct (qadd_pend (q s) te (EExit m) Hte) as [l1 [l2 [E1 E2]]].
  assert (Hu1 : unbusies (pend (qadd (q s) te (EExit m))) = []).
  { rewrite E2. unfold unbusies in *. rewrite sel_new. cbn [app]. rewrite <- sel_app, <- E1. exact Hu. }
  destruct (tx len =? 0) eqn:Et.
  - constructor; cbn [ch q log]; try assumption.
    + apply qadd_SI; exact HS.
    + cbn [wf_log]. split; assumption.
    + cbn [cur_of]. rewrite Et, Hb. exact Hc.
    + intros _. exact Hf.
    + rewrite Hb. exact Hu1.
  - assert (Htu : s_tcur (qadd (q s) te (EExit m)) <= now s + tx len) by (rewrite qadd_tcur; unfold now; lia).
    destruct (qadd_pend _ (now s + tx len) EUnbusy Htu) as [k1 [k2 [F1 F2]]].
    constructor; cbn [ch q log set_busy_until busy finish buffer acc]; try assumption.
    + apply qadd_SI, qadd_SI; exact HS.
    + cbn [wf_log]. split; assumption.
    + cbn [cur_of]. rewrite Et. reflexivity.
    + discriminate.
    + rewrite F2. unfold unbusies in *. rewrite sel_new. cbn [app].
      rewrite F1, sel_app in Hu1. apply app_eq_nil in Hu1. destruct Hu1 as [-> ->]. reflexivity.
Qed.

Lemma start_busy_iff s m len fq :
  busy (ch s) = false -> busy (ch (send s m len fq)) = negb (tx len =? 0).
Proof. intros Hb. rewrite send_idle by exact Hb. cbv zeta. destruct (tx len =? 0); [exact Hb|reflexivity]. Qed.

Lemma start_buffer s m len fq :
  busy (ch s) = false -> buffer (ch (send s m len fq)) = buffer (ch s).
Proof. intros Hb. rewrite send_idle by exact Hb. cbv zeta. destruct (tx len =? 0); reflexivity. Qed.

Lemma start_now s m len fq : busy (ch s) = false -> now (send s m len fq) = now s.
Proof.
  intros Hb. rewrite send_idle by exact Hb. cbv zeta. unfold now.
  destruct (tx len =? 0); cbn [q]; rewrite ?qadd_tcur; reflexivity.
Qed.

Lemma start_log s m len fq :
  busy (ch s) = false -> log (send s m len fq) = IStart m len (now s) (jit_of s) fq :: log s.
Proof. intros Hb. rewrite send_idle by exact Hb. cbv zeta. destruct (tx len =? 0); reflexivity. Qed.

(* the dequeue loop of unbusy *)
Definition Draining (s : st) : Prop :=
  Core s /\ (busy (ch s) = false -> deq_ctx tx (log s) = Some (now s)).

(* Buffer::dequeue of the model *)
Definition dequeued (s : st) (r : list (N * N)) (len : N) : st :=
  set_ch s {| busy := false; finish := finish (ch s); buffer := r; acc := acc (ch s) - len |}.

Lemma Draining_step s m len r :
  Draining s -> busy (ch s) = false -> buffer (ch s) = (m, len) :: r ->
  Draining (send (dequeued s r len) m len true).
Proof.
  intros [HC Hd] Hb Eb. pose proof HC as [HS Hw Hc Hq Ha Hf Hu]. rewrite Hb in *.
  set (s1 := dequeued s r len).
  assert (Hb1 : busy (ch s1) = false) by reflexivity.
  assert (HC1 : Core (send s1 m len true)).
  { apply Core_start; cbn [s1 dequeued set_ch ch q log busy finish buffer acc]; try assumption.
    - apply Hf; reflexivity.
    - rewrite Ha, Eb, qsum_cons. cbn [snd]. lia.
    - rewrite Hq, Eb. cbn [hd_error tl]. repeat split. apply Hd; reflexivity. }
  split; [exact HC1|]. intros Hb2. rewrite start_busy_iff in Hb2 by exact Hb1.
  rewrite start_log, start_now by exact Hb1. cbn [deq_ctx].
  destruct (tx len =? 0); [|discriminate]. apply Hd; reflexivity.
Qed.

Lemma drain_inv k : forall s,
  Draining s ->
  Draining (drain k s) /\
  ((length (buffer (ch s)) <= k)%nat -> busy (ch (drain k s)) = false -> buffer (ch (drain k s)) = []).
Proof.
  induction k as [|k IH]; intros s HDr; cbn [Model.drain].
  - split; [exact HDr|]. intros Hl _. destruct (buffer (ch s)); [reflexivity|cbn in Hl; lia].
  - destruct (busy (ch s)) eqn:Hb.
    + split; [exact HDr|]. intros _ Hb'. congruence.
    + destruct (buffer (ch s)) as [|[m len] r] eqn:Eb.
      * split; [exact HDr|]. intros _ _. congruence.
      * destruct (IH _ (Draining_step s m len r HDr Hb Eb)) as [H1 H2]. split; [exact H1|].
        intros Hl. apply H2. rewrite start_buffer by reflexivity. cbn [dequeued set_ch ch buffer]. cbn [length] in Hl. lia.
Qed.

(* the Unbusy event stamped [finish] has just been fetched *)
Lemma Good_unbusy s :
  SI (q s) -> wf_log tx mt (log s) -> busy (ch s) = true -> finish (ch s) = now s ->
  cur_of tx (log s) = Some (finish (ch s)) -> queue_of (log s) = buffer (ch s) ->
  acc (ch s) = qsum (buffer (ch s)) -> unbusies (pend (q s)) = [] ->
  Good (unbusy s).
Proof.
  intros HS Hw Hb Hf Hc Hq Ha Hu. unfold Model.unbusy. cbn [drain_all current buffer].
  set (s1 := emit _ _).
  assert (HD : Draining s1).
  { split.
    - constructor; cbn [s1 emit set_ch ch q log busy finish buffer acc cur_of queue_of]; try assumption; try reflexivity.
      cbn [wf_log item_ok]. split; [|exact Hw]. rewrite Hc, Hf. reflexivity.
    - intros _. reflexivity. }
  destruct (drain_inv (length (buffer (ch s))) s1 HD) as [[H1 _] H2].
  split; [exact H1|]. apply H2. cbn [s1 emit set_ch ch buffer]. lia.
Qed.

Lemma Good_offer s o : Good s -> Good (offer s o).
Proof.
  intros HG0. unfold Model.offer. apply Good_sample. apply Good_sample in HG0. revert HG0. generalize (sample s). clear s. intros s [HC Hi].
  destruct (busy (ch s)) eqn:Hb.
  - destruct (Core_send_busy s (fst o) (snd o) false HC Hb) as [H1 H2]. split; [exact H1|].
    rewrite H2. discriminate.
  - pose proof HC as [HS Hw Hc Hq Ha Hf Hu]. rewrite Hb in *. specialize (Hi eq_refl).
    split.
    + apply Core_start; try assumption; [apply Hf; reflexivity|]. rewrite Hq. split; assumption.
    + intros _. rewrite start_buffer by exact Hb. exact Hi.
Qed.

Lemma Good_fold offs : forall s, Good s -> Good (fold_left offer offs s).
Proof. induction offs as [|o offs IH]; intros s H; cbn [fold_left]; [exact H|]. apply IH, Good_offer, H. Qed.

Lemma Good_handle_wake s k : Good s -> Good (handle_wake s k).
Proof.
  intros H. unfold Model.handle_wake. destruct (nth_error bursts (N.to_nat k)) as [[t offs]|]; [|exact H].
  apply Good_fold, H.
Qed.

Lemma Good_handle_exit s m : Good s -> Good (handle_exit s m).
Proof.
  intros [[HS Hw Hc Hq Ha Hf Hu] Hi]. unfold handle_exit. apply Good_sample. split; [|exact Hi].
  constructor; cbn [emit ch q log cur_of queue_of]; try assumption. cbn [wf_log item_ok]. split; [exact I|exact Hw].
Qed.

Lemma Good_step s s' : Good s -> step s = Some s' -> Good s'.
Proof.
  intros [HC Hi] Hs. pose proof HC as [HS Hw Hc Hq Ha Hf Hu].
  destruct (pend (q s)) as [|x r] eqn:E; [rewrite step_nil in Hs by exact E; discriminate|].
  rewrite (step_cons _ _ _ HS E) in Hs. injection Hs as <-.
  destruct (fetch_cons _ _ _ HS E) as [_ [Hp [Ht [_ [_ HS']]]]].
  set (s1 := set_q s (fst (sp_fetch (q s)))).
  unfold unbusies in Hu. rewrite sel_cons in Hu. fold unbusies in Hu.
  destruct (dec_ev (epay x)) as [|m|k] eqn:Ed; cbn [Model.dispatch].
  - (* Unbusy *)
    cbn [app] in Hu. destruct (busy (ch s)) eqn:Hb; [|discriminate]. injection Hu as Hu1 Hu2.
    apply Good_unbusy; cbn [s1 set_q ch q log]; try assumption.
    + unfold now, s1. cbn [set_q q]. rewrite Ht, Hu1. reflexivity.
    + rewrite Hp. exact Hu2.
  - apply Good_handle_exit. split; [|exact Hi].
    constructor; cbn [s1 set_q ch q log]; try assumption. rewrite Hp. exact Hu.
  - apply Good_handle_wake. split; [|exact Hi].
    constructor; cbn [s1 set_q ch q log]; try assumption. rewrite Hp. exact Hu.
Qed.

(* ---- the initial state ---- *)
Lemma sched_wakes_inv bs : forall q0 k,
  SI q0 -> s_tcur q0 = 0 ->
  SI (sched_wakes enc_ev q0 k bs) /\ s_tcur (sched_wakes enc_ev q0 k bs) = 0 /\
  unbusies (pend (sched_wakes enc_ev q0 k bs)) = unbusies (pend q0) /\
  exits (pend (sched_wakes enc_ev q0 k bs)) = exits (pend q0).
Proof.
  induction bs as [|[t offs] bs IH]; intros q0 k HS H0; cbn [sched_wakes].
  - refine (conj HS (conj H0 (conj eq_refl eq_refl))).
  - assert (Ht : s_tcur q0 <= t) by lia.
    destruct (IH (qadd q0 t (EWake k)) (k + 1) (qadd_SI _ _ _ HS)) as [H1 [H2 [H3 H4]]]; [rewrite qadd_tcur; exact H0|].
    destruct (qadd_pend q0 t (EWake k) Ht) as [l1 [l2 [E1 E2]]].
    refine (conj H1 (conj H2 (conj _ _))).
    + rewrite H3, E2, E1. unfold unbusies. rewrite sel_new, sel_app. reflexivity.
    + rewrite H4, E2, E1. unfold exits. rewrite sel_new, sel_app. reflexivity.
Qed.

Lemma Good_init oracle : Good (init enc_ev bursts oracle).
Proof.
  destruct (sched_wakes_inv bursts sp_new 0 SI_new eq_refl) as [H1 [_ [H3 _]]].
  split; [|reflexivity]. constructor; cbn [init ch q log idle_chan busy finish buffer acc]; try reflexivity; try assumption.
Qed.

Lemma Good_steps n : forall s, Good s -> Good (steps n s).
Proof.
  induction n as [|n IH]; intros s H; cbn [Model.steps]; [exact H|].
  destruct (step s) as [s'|] eqn:E; [|exact H]. apply IH. eapply Good_step; eassumption.
Qed.

Theorem Good_reachable oracle n : Good (steps n (init enc_ev bursts oracle)).
Proof. apply Good_steps, Good_init. Qed.

End Core.
