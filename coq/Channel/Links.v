(* Consequences of Project.multi_projects in the form Properties/C07.v states
   them: independence of channel instances, transfer of every single-channel
   invariant to every channel of a multi-channel run, and the fact that a new
   instance starts idle whatever state its template is in. *)
From Coq Require Import List Arith NArith Lia Bool.
From DesVerif Require Import Common.Codec CQueue.Model CQueue.Spec CQueue.SpecProps
  Channel.Model Channel.Queue Channel.Trace Channel.Core Channel.Props Channel.Order Channel.Multi Channel.ProjQueue Channel.Project.
Import ListNotations.
Open Scope N_scope.

(* Channel::dup copies the metrics only *)
Lemma dup_fresh template : dup template = idle_chan.
Proof. reflexivity. Qed.

(* an instance is created on first use, by dup from the live template: idle, whatever that state is *)
Lemma created_idle s c : chs s c = None -> inst_of s c = idle_chan.
Proof. unfold inst_of. intros ->. reflexivity. Qed.

Section Links.
Variable txs : N -> N -> N.
Variable mts : N -> metrics.
Variable mbursts : list (N * list (N * N * N)).
Variable oracles : N -> list N.

Definition mreach (n : nat) : mst := msteps own_instance txs mts mbursts n (minit mbursts oracles).

(* the single-channel run of channel c: only c's metrics, c's part of the script and c's samples occur in it *)
Definition own_run (c : N) (k : nat) : st :=
  steps current enc_ev (txs c) (mts c) (pbursts mbursts c) k (init enc_ev (pbursts mbursts c) (oracles c)).

Theorem links_independent c n :
  c < NCH ->
  exists k, inst_of (mreach n) c = ch (own_run c k) /\ orcs (mreach n) c = orc (own_run c k) /\
            plog c (mlog (mreach n)) = log (own_run c k).
Proof.
  intros Hc. destruct (multi_projects txs mts mbursts c Hc oracles n) as [k [H1 H2 H3 _]].
  exists k. refine (conj H1 (conj H2 H3)).
Qed.

(* whatever holds of the channel record and the log in every state of every single-channel run
   holds of every channel of every multi-channel run *)
Theorem multi_transfer (P : chan -> list item -> Prop) c n :
  c < NCH ->
  (forall k, P (ch (own_run c k)) (log (own_run c k))) ->
  P (inst_of (mreach n) c) (plog c (mlog (mreach n))).
Proof.
  intros Hc HP. destruct (links_independent c n Hc) as [k [H1 [_ H3]]]. rewrite H1, H3. apply HP.
Qed.

Corollary multi_channel_wf c n :
  c < NCH ->
  let l := plog c (mlog (mreach n)) in
  let r := inst_of (mreach n) c in
  wf_log (txs c) (mts c) l /\ cur_of (txs c) l = (if busy r then Some (finish r) else None) /\ queue_of l = buffer r /\
  acc r = qsum (buffer r) /\ (busy r = false -> buffer r = []).
Proof.
  intros Hc. cbv zeta.
  apply (multi_transfer (fun r l => wf_log (txs c) (mts c) l /\ cur_of (txs c) l = (if busy r then Some (finish r) else None) /\
                                    queue_of l = buffer r /\ acc r = qsum (buffer r) /\ (busy r = false -> buffer r = [])) c n Hc).
  intros k. destruct (Good_reachable (txs c) (mts c) (pbursts mbursts c) (oracles c) k) as [HC Hi].
  refine (conj (C_wf _ _ _ HC) (conj (C_cur _ _ _ HC) (conj (C_queue _ _ _ HC) (conj (C_acc _ _ _ HC) Hi)))).
Qed.

Corollary multi_zero_jitter_order c n :
  c < NCH -> m_jit (mts c) = 0 ->
  let l := plog c (mlog (mreach n)) in
  exists later, rev (accepted l) = rev (delivered l) ++ later.
Proof.
  intros Hc Hj. cbv zeta.
  apply (multi_transfer (fun _ l => exists later, rev (accepted l) = rev (delivered l) ++ later) c n Hc).
  intros k. eexists. apply (zero_jitter_preserves_order (txs c) (mts c) (pbursts mbursts c) Hj (oracles c) k).
Qed.

End Links.
