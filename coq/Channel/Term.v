(* The event loop runs dry: every step consumes one unit of
   |pending events| + 2 |messages not yet offered| + 2 |queued messages|,
   so the fuel of Model.run_model is enough and the final state has no
   pending event, an idle channel and an empty queue. *)
From Coq Require Import List Arith NArith Lia Bool Sorting.Sorted Permutation ZifyBool.
From DesVerif Require Import Common.Codec CQueue.Model CQueue.Spec CQueue.ListX CQueue.SpecProps
  Channel.Model Channel.Queue Channel.Trace Channel.Core Channel.Account.
Import ListNotations.
Open Scope N_scope.

Lemma len_qadd q0 t e : s_tcur q0 <= t -> length (pend (qadd q0 t e)) = S (length (pend q0)).
Proof.
  intros H. destruct (qadd_pend q0 t e H) as [l1 [l2 [E1 E2]]]. rewrite E2, E1, !app_length. cbn [length]. lia.
Qed.

Section Term.
Variable tx : N -> N.
Variable mt : metrics.
Variable bursts : list (N * list (N * N)).

Notation send := (send_message current enc_ev tx mt).
Notation drain := (Model.drain current enc_ev tx mt).
Notation offer := (Model.offer current enc_ev tx mt).
Notation step := (Model.step current enc_ev tx mt bursts).
Notation steps := (Model.steps current enc_ev tx mt bursts).
Notation pids := (pending_ids bursts).

Definition mu (s : st) : nat :=
  (length (pend (q s)) + 2 * length (pids (pend (q s))) + 2 * length (buffer (ch s)))%nat.

Lemma pids_qadd q0 t e :
  s_tcur q0 <= t -> (forall k, e <> EWake k) -> length (pids (pend (qadd q0 t e))) = length (pids (pend q0)).
Proof.
  intros H Hn. destruct (qadd_pend q0 t e H) as [l1 [l2 [E1 E2]]]. rewrite E2, E1.
  unfold pending_ids, wakes. rewrite sel_new, sel_app. destruct e as [|m|k]; [reflexivity..|destruct (Hn k eq_refl)].
Qed.

Lemma mu_send s m len fq : (mu (send s m len fq) <= mu s + 2)%nat.
Proof.
  unfold mu. destruct (busy (ch s)) eqn:Hb.
  - rewrite send_busy by exact Hb. destruct (m_pol mt) as [|lim]; [cbn [emit ch q]; lia|].
    destruct (over lim (acc (ch s) + len)); cbn [emit set_ch enqueue ch q buffer]; [lia|]. rewrite app_length. cbn [length]. lia.
  - rewrite send_idle by exact Hb. cbv zeta. set (te := now s + (m_lat mt + tx len + jit_of mt s)).
    assert (Hte : s_tcur (q s) <= te) by (unfold te, now; lia).
    assert (Htu : s_tcur (qadd (q s) te (EExit m)) <= now s + tx len) by (rewrite qadd_tcur; unfold now; lia).
    destruct (tx len =? 0); cbn [ch q set_busy_until buffer].
    + rewrite len_qadd, pids_qadd by (exact Hte || discriminate). lia.
    + rewrite !len_qadd, !pids_qadd by (assumption || discriminate). lia.
Qed.

Lemma mu_drain k : forall s, (mu (drain k s) <= mu s)%nat.
Proof.
  induction k as [|k IH]; intros s; cbn [Model.drain]; [lia|].
  destruct (busy (ch s)); [lia|]. destruct (buffer (ch s)) as [|[m len] r] eqn:Eb; [lia|].
  etransitivity; [apply IH|]. etransitivity; [apply mu_send|]. unfold mu. cbn [set_ch ch q buffer]. rewrite Eb. cbn [length]. lia.
Qed.

Lemma mu_fold offs : forall s, (mu (fold_left offer offs s) <= mu s + 2 * length offs)%nat.
Proof.
  induction offs as [|o offs IH]; intros s; cbn [fold_left length]; [lia|].
  etransitivity; [apply IH|]. unfold Model.offer.
  assert (H : (mu (sample (send (sample s) (fst o) (snd o) false)) <= mu (sample s) + 2)%nat) by apply mu_send.
  change (mu (sample s)) with (mu s) in H. lia.
Qed.

Lemma mu_step s s' : SI (q s) -> step s = Some s' -> (mu s' < mu s)%nat.
Proof.
  intros HS Hs.
  destruct (pend (q s)) as [|e r] eqn:E; [rewrite step_nil in Hs by exact E; discriminate|].
  rewrite (step_cons _ _ _ _ _ _ HS E) in Hs. injection Hs as <-.
  destruct (fetch_cons _ _ _ HS E) as [_ [Hp _]].
  set (s1 := set_q s (fst (sp_fetch (q s)))).
  assert (H1 : (mu s1 + 1 + 2 * length (match dec_ev (epay e) with EWake k => burst_ids bursts k | _ => [] end) = mu s)%nat).
  { unfold mu, s1. cbn [set_q ch q]. rewrite Hp, E. unfold pending_ids, wakes. rewrite sel_cons.
    destruct (dec_ev (epay e)); cbn [app flat_map length]; rewrite ?app_length; lia. }
  destruct (dec_ev (epay e)) as [|m|k]; cbn [Model.dispatch length] in *.
  - unfold Model.unbusy. cbn [drain_all current].
    match goal with |- (mu (Model.drain _ _ _ _ ?k ?s0) < _)%nat => assert (H2 : (mu (drain k s0) <= mu s0)%nat) by apply mu_drain;
      assert (H3 : mu s0 = mu s1) by reflexivity end. lia.
  - unfold handle_exit. change (mu (sample (emit s1 (IDeliver m (now s1))))) with (mu s1). lia.
  - unfold Model.handle_wake, burst_ids in *. destruct (nth_error bursts (N.to_nat k)) as [[t offs]|]; [|lia].
    rewrite map_length in H1. pose proof (mu_fold offs s1) as H2. lia.
Qed.

Lemma steps_stuck n s : step s = None -> steps n s = s.
Proof. intros H. destruct n; cbn [Model.steps]; [reflexivity|]. rewrite H. reflexivity. Qed.

Lemma steps_done n : forall s, Good tx mt s -> (mu s < n)%nat -> step (steps n s) = None.
Proof.
  induction n as [|n IH]; intros s HG Hm; [lia|]. cbn [Model.steps].
  destruct (step s) as [s'|] eqn:E; [|exact E].
  apply IH; [eapply Good_step; eassumption|]. pose proof (mu_step s s' (C_SI _ _ _ (proj1 HG)) E). lia.
Qed.

Lemma step_none_pend s : SI (q s) -> step s = None -> pend (q s) = [].
Proof.
  intros HS H. destruct (pend (q s)) as [|x r] eqn:E; [reflexivity|].
  rewrite (step_cons _ _ _ _ _ _ HS E) in H. discriminate.
Qed.

Lemma len_sched bs : forall q0 k, s_tcur q0 = 0 ->
  length (pend (sched_wakes enc_ev q0 k bs)) = (length (pend q0) + length bs)%nat.
Proof.
  induction bs as [|[t offs] bs IH]; intros q0 k H0; cbn [sched_wakes length]; [lia|].
  rewrite IH by (rewrite qadd_tcur; exact H0). rewrite len_qadd by lia. lia.
Qed.

Lemma mu_init oracle : mu (init enc_ev bursts oracle) = (length bursts + 2 * length (all_ids bursts))%nat.
Proof.
  unfold mu. cbn [init ch q idle_chan buffer length]. rewrite len_sched by reflexivity.
  pose proof (account tx mt bursts oracle 0) as H. cbv zeta in H. cbn [Model.steps init log ch q idle_chan buffer] in H.
  destruct (sched_wakes_inv bursts sp_new 0 SI_new eq_refl) as [_ [_ [_ He]]]. rewrite He in H.
  cbn [delivered dropped_busy dropped_full flat_map map app sp_new sp_new_at pend s_zero s_rest exits sel] in H.
  rewrite (Permutation_length H). cbn [sp_new sp_new_at pend s_zero s_rest app length]. lia.
Qed.

End Term.

(* ---- the bursts built from a script ---- *)
Fixpoint ids_from (m : N) (k : nat) : list N :=
  match k with O => [] | S k' => m :: ids_from (m + 1) k' end.

Lemma ids_from_ge m k x : In x (ids_from m k) -> m <= x.
Proof.
  revert m; induction k as [|k IH]; intros m; cbn [ids_from]; [intros []|].
  intros [<-|H]; [lia|]. apply IH in H. lia.
Qed.

Lemma ids_from_nodup m k : NoDup (ids_from m k).
Proof.
  revert m; induction k as [|k IH]; intros m; cbn [ids_from]; constructor; [|apply IH].
  intros H. apply ids_from_ge in H. lia.
Qed.

Lemma ids_from_length k : forall m, length (ids_from m k) = k.
Proof. induction k as [|k IH]; intros m; cbn [ids_from length]; [reflexivity|]. rewrite IH. reflexivity. Qed.

Lemma group_spec offs : forall m,
  all_ids (group offs m) = ids_from m (length offs) /\ (length (group offs m) <= length offs)%nat.
Proof.
  induction offs as [|[t len] r IH]; intros m; cbn [group length ids_from]; [split; [reflexivity|lia]|].
  destruct (IH (m + 1)) as [E L]. destruct (group r (m + 1)) as [|[t' b] g].
  - split; [|cbn [length]; lia]. unfold all_ids in *. cbn [flat_map snd map fst app] in *. rewrite <- E. reflexivity.
  - destruct (t =? t'); unfold all_ids in *; cbn [flat_map snd map fst app length] in *; rewrite <- E; split; (reflexivity || lia).
Qed.

Theorem run_completes vr_tx mt oracle offs :
  let bs := group offs 0 in
  let s := steps current enc_ev vr_tx mt bs (fuel_for offs) (init enc_ev bs oracle) in
  step current enc_ev vr_tx mt bs s = None /\ pend (q s) = [] /\ busy (ch s) = false /\ buffer (ch s) = [] /\
  Permutation (ids_from 0 (length offs)) (delivered (log s) ++ dropped_busy (log s) ++ dropped_full (log s)) /\
  NoDup (delivered (log s) ++ dropped_busy (log s) ++ dropped_full (log s)).
Proof.
  cbv zeta. set (bs := group offs 0). destruct (group_spec offs 0) as [Eids Hlen]. fold bs in Eids, Hlen.
  assert (Hs : step current enc_ev vr_tx mt bs (steps current enc_ev vr_tx mt bs (fuel_for offs) (init enc_ev bs oracle)) = None).
  { apply steps_done; [apply Good_init|]. rewrite (mu_init vr_tx mt), Eids. unfold fuel_for.
    rewrite ids_from_length. lia. }
  pose proof (Good_reachable vr_tx mt bs oracle (fuel_for offs)) as HG.
  pose proof (step_none_pend _ _ _ _ (C_SI _ _ _ (proj1 HG)) Hs) as Hp.
  destruct (account_final vr_tx mt bs oracle (fuel_for offs) Hp) as [HP [Hb He]]. rewrite Eids in HP.
  refine (conj Hs (conj Hp (conj Hb (conj He (conj HP _))))).
  eapply Permutation_NoDup; [exact HP|apply ids_from_nodup].
Qed.
