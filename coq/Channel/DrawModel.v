(* ChannelMetrics::calculate_duration's jitter, as the code computes it since
   fix 4f31432 (F6):  nanos = rng.random::<f64>() * jitter.as_nanos() as f64;  nanos as u64.
   rand 0.9's StandardUniform for f64 takes ONE 64-bit word w from the generator
   and uses its top 53 bits:  u = (w >> 11) * 2^-53  (exact).  The product
   u * J is then rounded to the nearest f64 (ties to even) and truncated.  With
   k = w >> 11 the exact product is P / 2^53 for the integer P = k * J, so the
   f64 rounding is a rounding of P to 53 significant bits.  J = jitter in ns is
   assumed below 2^53 (104 days), so that `as f64` is exact.  No proofs here. *)
From Coq Require Import NArith Bool.
Open Scope N_scope.

Definition draw53 (w : N) : N := (w mod 2 ^ 64) / 2 ^ 11.

(* P * 2^-53 rounded to the nearest f64, then truncated to an integer *)
Definition round_trunc (P : N) : N :=
  if P <? 2 ^ 53 then 0
  else
    let s := N.log2 P - 52 in              (* P has 53 + s significant bits, s >= 1 *)
    let q := P / 2 ^ s in
    let r := P mod 2 ^ s in
    let half := 2 ^ (s - 1) in
    let q' := if (half <? r) || ((r =? half) && N.odd q) then q + 1 else q in
    (q' * 2 ^ s) / 2 ^ 53.

Definition jit_of_word (J w : N) : N := if J =? 0 then 0 else round_trunc (draw53 w * J).
