(* The F6 range statement on the exact model of the draw: whatever 64-bit word
   the generator returns, the jitter is below the bound (the half-open range
   [0, jitter) of the property). *)
From Coq Require Import NArith Lia Bool ZifyBool.
From DesVerif Require Import Channel.DrawModel.
Open Scope N_scope.

Lemma draw53_lt w : draw53 w < 2 ^ 53.
Proof.
  unfold draw53. apply N.div_lt_upper_bound; [discriminate|].
  change (2 ^ 11 * 2 ^ 53) with (2 ^ 64). apply N.mod_lt. discriminate.
Qed.

Lemma round_trunc_lt k J : k < 2 ^ 53 -> 0 < J -> round_trunc (k * J) < J.
Proof.
  intros Hk HJ. unfold round_trunc. set (P := k * J). set (B := 2 ^ 53) in *.
  assert (HB : 0 < B) by (unfold B; apply N.neq_0_lt_0; apply N.pow_nonzero; discriminate).
  assert (HP : P + J <= B * J) by (unfold P; nia).
  destruct (P <? B) eqn:E; [exact HJ|]. apply N.ltb_ge in E.
  assert (HP0 : 0 < P) by lia.
  destruct (N.log2_spec P HP0) as [Hlo Hhi]. set (l := N.log2 P) in *.
  assert (Hl : 53 <= l).
  { destruct (N.le_gt_cases 53 l) as [H|H]; [exact H|]. exfalso.
    assert (2 ^ N.succ l <= B) by (unfold B; apply N.pow_le_mono_r; lia). lia. }
  set (s := l - 52). set (A := 2 ^ (s - 1)).
  assert (HA : 0 < A) by (unfold A; apply N.neq_0_lt_0; apply N.pow_nonzero; discriminate).
  assert (Es : 2 ^ s = 2 * A).
  { unfold A. replace s with (N.succ (s - 1)) at 1 by (unfold s; lia). rewrite N.pow_succ_r'. reflexivity. }
  assert (El : 2 ^ l = A * B).
  { unfold A, B. rewrite <- N.pow_add_r. f_equal. unfold s. lia. }
  assert (HAJ : A < J) by nia.
  rewrite Es. set (q := P / (2 * A)). set (r := P mod (2 * A)).
  assert (Hdiv : P = 2 * A * q + r) by (unfold q, r; apply N.div_mod; lia).
  assert (Hr : r < 2 * A) by (unfold r; apply N.mod_lt; lia).
  apply N.div_lt_upper_bound; [lia|].
  destruct ((A <? r) || ((r =? A) && N.odd q)) eqn:Eu.
  - assert (A <= r) by lia. nia.
  - nia.
Qed.

Theorem jit_of_word_lt J w : 0 < J -> jit_of_word J w < J.
Proof.
  intros HJ. unfold jit_of_word. replace (J =? 0) with false by lia. apply round_trunc_lt; [apply draw53_lt|exact HJ].
Qed.

Theorem jit_of_word_zero w : jit_of_word 0 w = 0.
Proof. reflexivity. Qed.
