(* Several channels on one event set (Channel.Multi): the events of channel c,
   seen through the shared event set, are in the same order as in an event set
   that holds channel c's events only.  [Rq] relates the two event sets; it is
   kept by fetches and by adds on either side. *)
From Coq Require Import List Arith NArith Lia Bool Sorting.Sorted Permutation ZifyBool.
From DesVerif Require Import Common.Codec CQueue.Model CQueue.Spec CQueue.ListX CQueue.SpecProps
  Channel.Model Channel.Queue Channel.Trace Channel.Multi.
Import ListNotations.
Open Scope N_scope.

(* ---- the channel-tagged event encoding ---- *)
Lemma divmod3 y r : r < 3 -> (3 * y + r) / 3 = y /\ (3 * y + r) mod 3 = r.
Proof.
  intros H. split.
  - symmetry. apply N.div_unique with (r := r); [exact H|reflexivity].
  - symmetry. apply N.mod_unique with (q := y); [exact H|reflexivity].
Qed.

Lemma divmod16 m c : c < 16 -> (16 * m + c) / 16 = m /\ (16 * m + c) mod 16 = c.
Proof.
  intros H. split.
  - symmetry. apply N.div_unique with (r := c); [exact H|reflexivity].
  - symmetry. apply N.mod_unique with (q := m); [exact H|reflexivity].
Qed.

Lemma dec_enc_mev c e : c < NCH -> dec_mev (enc_at c e) = lift c e.
Proof.
  unfold NCH. intros Hc. unfold enc_at, dec_mev. destruct e as [|m|k]; cbn [lift enc_mev]; unfold NCH;
    rewrite ?(N.mod_small c 16) by exact Hc.
  - destruct (divmod3 c 0) as [E1 E2]; [lia|]. rewrite N.add_0_r in E1, E2. rewrite E1, E2. cbn [N.eqb].
    rewrite N.mod_small by exact Hc. reflexivity.
  - destruct (divmod3 (16 * m + c) 1) as [E1 E2]; [lia|]. rewrite E1, E2. cbn [N.eqb Pos.eqb].
    destruct (divmod16 m c Hc) as [F1 F2]. rewrite F1, F2. reflexivity.
  - destruct (divmod3 k 2) as [E1 E2]; [lia|]. rewrite E1, E2. reflexivity.
Qed.

Lemma dec_mev_chan p : match dec_mev p with MUnbusy c => c < NCH | MExit c _ => c < NCH | MWake _ => True end.
Proof.
  unfold dec_mev, NCH. destruct (p mod 3 =? 0); [apply N.mod_lt; discriminate|].
  destruct (p mod 3 =? 1); [apply N.mod_lt; discriminate|exact I].
Qed.

(* ---- adds with a raw payload ---- *)
Definition addp (q0 : sp) (t p : N) : sp := fst (fst (sp_add q0 t p)).
Definition newp (q0 : sp) (t p : N) : ev := {| etime := t; eid := s_next q0; epay := p |}.

Lemma qaddf_addp encf q0 t e : qaddf encf q0 t e = addp q0 t (encf e).
Proof. reflexivity. Qed.

Lemma addp_eq q0 t p :
  s_tcur q0 <= t ->
  addp q0 t p =
    if t =? s_tcur q0
    then {| s_tcur := s_tcur q0; s_zero := s_zero q0 ++ [newp q0 t p]; s_rest := s_rest q0; s_next := s_next q0 + 1 |}
    else {| s_tcur := s_tcur q0; s_zero := s_zero q0; s_rest := sins (newp q0 t p) (s_rest q0); s_next := s_next q0 + 1 |}.
Proof.
  intros H. unfold addp, sp_add. replace (t <? s_tcur q0) with false by lia.
  destruct (t =? s_tcur q0); reflexivity.
Qed.

Lemma addp_tcur q0 t p : s_tcur (addp q0 t p) = s_tcur q0.
Proof.
  unfold addp, sp_add. destruct (t <? s_tcur q0); [reflexivity|]. destruct (t =? s_tcur q0); reflexivity.
Qed.

Lemma addp_SI q0 t p : SI q0 -> SI (addp q0 t p).
Proof. apply SI_add. Qed.

(* the new event goes behind everything that is not later, in front of everything later *)
Lemma sins_time_split e l :
  key_sorted l -> (forall x, In x l -> eid x < eid e) ->
  exists l1 l2, l = l1 ++ l2 /\ sins e l = l1 ++ e :: l2 /\
    (forall y, In y l1 -> etime y <= etime e) /\ (forall y, In y l2 -> etime e < etime y).
Proof.
  induction l as [|y l IH]; intros Hs Hid; cbn [sins].
  - exists [], []. repeat split; intros y [].
  - inversion Hs as [|? ? Hs' Hall]; subst. rewrite Forall_forall in Hall. destruct (key_lt e y) eqn:Hk.
    + exists [], (y :: l). repeat split; [intros z []|]. intros z Hz.
      assert (Hkz : key_lt e z = true).
      { destruct Hz as [<-|Hz]; [exact Hk|]. eapply key_lt_trans; [exact Hk|apply Hall, Hz]. }
      pose proof (Hid z Hz). unfold key_lt in Hkz. lia.
    + destruct IH as [l1 [l2 [E1 [E2 [H1 H2]]]]]; [exact Hs'|intros x Hx; apply Hid; right; exact Hx|].
      exists (y :: l1), l2. cbn [app]. rewrite E2, <- E1. repeat split; [|exact H2].
      intros z [<-|Hz]; [|apply H1, Hz]. pose proof (Hid y (or_introl eq_refl)). unfold key_lt in Hk. lia.
Qed.

Lemma split_by_time {X} (t : N) (A B A' B' : list (N * X)) :
  Forall (fun a => fst a <= t) A -> Forall (fun a => t < fst a) B ->
  Forall (fun a => fst a <= t) A' -> Forall (fun a => t < fst a) B' ->
  A ++ B = A' ++ B' -> A = A' /\ B = B'.
Proof.
  revert A'. induction A as [|a A IH]; intros A' HA HB HA' HB' E.
  - destruct A' as [|a' A']; [split; [reflexivity|exact E]|]. cbn [app] in E. subst B.
    inversion HB; subst. inversion HA'; subst. lia.
  - destruct A' as [|a' A']; cbn [app] in E.
    + subst B'. inversion HB'; subst. inversion HA; subst. lia.
    + injection E as <- E. inversion HA; subst. inversion HA'; subst.
      destruct (IH A') as [-> ->]; try assumption. split; reflexivity.
Qed.

Section Proj.
(* which events of the shared set belong to the channel looked at, and as what *)
Variable proj_ev : mev -> option cev.

Definition pv1 (x : ev) : list (N * cev) :=
  match proj_ev (dec_mev (epay x)) with Some e => [(etime x, e)] | None => [] end.
Definition pv (l : list ev) : list (N * cev) := flat_map pv1 l.
Definition sv (l : list ev) : list (N * cev) := map (fun x => (etime x, dec_ev (epay x))) l.

Lemma pv_app l1 l2 : pv (l1 ++ l2) = pv l1 ++ pv l2.
Proof. apply flat_map_app. Qed.

Lemma pv_times l (P : N -> Prop) : (forall y, In y l -> P (etime y)) -> Forall (fun a => P (fst a)) (pv l).
Proof.
  intros H. apply Forall_forall. intros a Ha. unfold pv in Ha. apply in_flat_map in Ha. destruct Ha as [x [Hx Ha]].
  unfold pv1 in Ha. destruct (proj_ev (dec_mev (epay x))); [destruct Ha as [<-|[]]; apply H, Hx|destruct Ha].
Qed.

Lemma sv_times l (P : N -> Prop) : (forall y, In y l -> P (etime y)) -> Forall (fun a => P (fst a)) (sv l).
Proof.
  intros H. apply Forall_forall. intros a Ha. unfold sv in Ha. apply in_map_iff in Ha. destruct Ha as [x [<- Hx]]. apply H, Hx.
Qed.

Record Rq (Q P : sp) : Prop := {
  rq_zero : pv (s_zero Q) = sv (s_zero P);
  rq_rest : pv (s_rest Q) = sv (s_rest P);
  rq_SIQ : SI Q;
  rq_SIP : SI P;
  rq_le : s_tcur P <= s_tcur Q
}.

(* an event of another channel is added to the shared set *)
Lemma Rq_add_other Q P t p :
  Rq Q P -> s_tcur Q <= t -> proj_ev (dec_mev p) = None -> Rq (addp Q t p) P.
Proof.
  intros [Hz Hr HQ HP Hle] Ht Hn. rewrite addp_eq by exact Ht.
  assert (Hnew : pv1 (newp Q t p) = []) by (unfold pv1; cbn [newp epay]; rewrite Hn; reflexivity).
  pose proof (addp_SI Q t p HQ) as HQ'. rewrite addp_eq in HQ' by exact Ht.
  destruct (t =? s_tcur Q); constructor; cbn [s_zero s_rest s_tcur]; try assumption.
  - rewrite pv_app. cbn [pv flat_map]. rewrite Hnew, app_nil_r. exact Hz.
  - destruct (sins_split (newp Q t p) (s_rest Q)) as [l1 [l2 [E1 E2]]]. rewrite E2, pv_app. cbn [pv flat_map].
    rewrite Hnew. cbn [app]. fold (pv l2). rewrite <- pv_app, <- E1. exact Hr.
Qed.

(* the same event of this channel is added to both sets, whose clocks agree *)
Lemma Rq_add_same Q P t p p' e :
  Rq Q P -> s_tcur P = s_tcur Q -> s_tcur Q <= t ->
  proj_ev (dec_mev p) = Some e -> dec_ev p' = e -> Rq (addp Q t p) (addp P t p').
Proof.
  intros [Hz Hr HQ HP Hle] Hs Ht Hp Hd.
  pose proof (addp_SI Q t p HQ) as HQ'. pose proof (addp_SI P t p' HP) as HP'.
  rewrite (addp_eq Q t p) in * by lia. rewrite (addp_eq P t p') in * by lia. rewrite Hs in *.
  assert (Hnew : pv1 (newp Q t p) = [(t, e)]) by (unfold pv1; cbn [newp epay etime]; rewrite Hp; reflexivity).
  destruct (t =? s_tcur Q) eqn:Et; constructor; cbn [s_zero s_rest s_tcur]; try assumption; try lia.
  - rewrite pv_app. unfold sv. rewrite map_app. fold (sv (s_zero P)). rewrite Hz. cbn [pv flat_map map newp etime epay].
    rewrite Hnew, Hd. reflexivity.
  - destruct (sins_time_split (newp Q t p) (s_rest Q) (SI_sorted _ HQ)) as [l1 [l2 [E1 [E2 [H1 H2]]]]].
    { intros x Hx. cbn [newp eid]. apply (SI_ids _ HQ). unfold spend. apply in_or_app. right; exact Hx. }
    destruct (sins_time_split (newp P t p') (s_rest P) (SI_sorted _ HP)) as [k1 [k2 [F1 [F2 [G1 G2]]]]].
    { intros x Hx. cbn [newp eid]. apply (SI_ids _ HP). unfold spend. apply in_or_app. right; exact Hx. }
    cbn [newp etime] in H1, H2, G1, G2.
    rewrite E1, F1, pv_app in Hr. unfold sv in Hr. rewrite map_app in Hr. fold (sv k1) (sv k2) in Hr.
    destruct (split_by_time t _ _ _ _ (pv_times l1 (fun x => x <= t) H1) (pv_times l2 (fun x => t < x) H2)
                (sv_times k1 (fun x => x <= t) G1) (sv_times k2 (fun x => t < x) G2) Hr) as [A B].
    rewrite E2, F2, pv_app. unfold sv. rewrite map_app. cbn [pv flat_map map newp etime epay]. fold (pv l2) (sv k1) (sv k2).
    rewrite Hnew, Hd, A, B. reflexivity.
Qed.

(* an event of another channel is fetched from the shared set *)
Lemma Rq_fetch_other Q P x r :
  Rq Q P -> pend Q = x :: r -> proj_ev (dec_mev (epay x)) = None -> Rq (fst (sp_fetch Q)) P.
Proof.
  intros [Hz Hr HQ HP Hle] E Hn. destruct (fetch_cons _ _ _ HQ E) as [_ [_ [Ht [_ [Hle' HQ']]]]].
  assert (Hx : pv1 x = []) by (unfold pv1; rewrite Hn; reflexivity).
  revert Ht HQ'. unfold pend, sp_fetch in *. destruct (s_zero Q) as [|z zs] eqn:Ez; cbn [app] in E.
  - rewrite E in *. cbn [fst s_tcur]. intros _ HQ'. constructor; cbn [s_zero s_rest s_tcur]; try assumption; [|lia].
    cbn [pv flat_map] in Hr. rewrite Hx in Hr. exact Hr.
  - injection E as -> <-. cbn [fst s_tcur]. intros _ HQ'. constructor; cbn [s_zero s_rest s_tcur]; try assumption.
    cbn [pv flat_map] in Hz. rewrite Hx in Hz. exact Hz.
Qed.

(* an event of this channel is fetched: it is the next event of the channel's own set too *)
Lemma Rq_fetch_same Q P x r e :
  Rq Q P -> pend Q = x :: r -> proj_ev (dec_mev (epay x)) = Some e ->
  exists y r', pend P = y :: r' /\ dec_ev (epay y) = e /\ etime y = etime x /\
    Rq (fst (sp_fetch Q)) (fst (sp_fetch P)) /\ s_tcur (fst (sp_fetch P)) = s_tcur (fst (sp_fetch Q)).
Proof.
  intros [Hz Hr HQ HP Hle] E Hp.
  assert (Hx : pv1 x = [(etime x, e)]) by (unfold pv1; rewrite Hp; reflexivity).
  destruct (fetch_cons _ _ _ HQ E) as [_ [_ [HtQ [_ [_ HQ']]]]].
  unfold pend in E. destruct (s_zero Q) as [|z zs] eqn:Ez; cbn [app] in E.
  - (* both current-instant lists are empty, the event heads both sorted parts *)
    cbn [pv flat_map] in Hz. destruct (s_zero P) as [|? ?] eqn:EzP; [|discriminate Hz].
    rewrite E in Hr. cbn [pv flat_map] in Hr. rewrite Hx in Hr. cbn [app] in Hr.
    destruct (s_rest P) as [|y r'] eqn:ErP; [discriminate Hr|]. cbn [sv map] in Hr. injection Hr as Hty Hdy Hr.
    assert (EP : pend P = y :: r') by (unfold pend; rewrite EzP, ErP; reflexivity).
    destruct (fetch_cons _ _ _ HP EP) as [_ [_ [HtP [_ [_ HP']]]]].
    exists y, r'. refine (conj EP (conj (eq_sym Hdy) (conj (eq_sym Hty) (conj _ _)))); [|rewrite HtP, HtQ; symmetry; exact Hty].
    revert HQ' HP' HtQ HtP. unfold sp_fetch. rewrite Ez, E, EzP, ErP. cbn [fst s_tcur]. intros HQ' HP' _ _.
    constructor; cbn [s_zero s_rest s_tcur]; try assumption; try reflexivity; lia.
  - injection E as -> <-. cbn [pv flat_map] in Hz. rewrite Hx in Hz. cbn [app] in Hz.
    destruct (s_zero P) as [|y zp] eqn:EzP; [discriminate Hz|]. cbn [sv map] in Hz. injection Hz as Hty Hdy Hz.
    assert (EP : pend P = y :: zp ++ s_rest P) by (unfold pend; rewrite EzP; reflexivity).
    destruct (fetch_cons _ _ _ HP EP) as [_ [_ [HtP [_ [_ HP']]]]].
    exists y, (zp ++ s_rest P). refine (conj EP (conj (eq_sym Hdy) (conj (eq_sym Hty) (conj _ _)))); [|rewrite HtP, HtQ; symmetry; exact Hty].
    revert HQ' HP' HtQ HtP. unfold sp_fetch. rewrite Ez, EzP. cbn [fst s_tcur]. intros HQ' HP' _ _.
    constructor; cbn [s_zero s_rest s_tcur]; assumption.
Qed.

End Proj.
