(* Executable model of des/src/net/channel.rs (Channel::send_message, unbusy,
   ChannelDropBehaviour::handle, Buffer::enqueue/dequeue, calculate_duration)
   together with the closed event loop that drives it: des/src/net/runtime/
   events.rs (ChannelUnbusyNotif, MessageExitingConnection) and the inlined
   `send` of des/src/net/runtime/ctx.rs (buf_send_at with send_time = now).

   Pending events live in the two-list specification of the future event set
   (CQueue.Spec), which C01 proves the real calendar queue refines: ordered by
   time, events added for the current instant first, FIFO otherwise.

   Inputs that the code obtains from outside are inputs here as well:
     tx  : len -> ns   the f64 result of ChannelMetrics::calculate_busy, a table per script;
     orc : list N      the jitter samples, one consumed per jittered transmission.
   A sender module is woken once per burst (consecutive offers with the same
   time) by a wake-up scheduled in at_sim_start, and `send`s the burst's
   messages in order inside that one handler.  The HandleMessageEvent that
   MessageExitingConnection adds for the current instant is folded into the
   Exit event (it joins the current-instant FIFO; only Exit/arrival events can
   run before it, and they do not touch the channel).  No proofs in this file. *)
From Coq Require Import List NArith Bool.
From DesVerif Require Import Common.Codec CQueue.Model CQueue.Spec.
Import ListNotations.
Open Scope N_scope.

Inductive policy := PDrop | PQueue (lim : option N).
Record metrics := { m_lat : N; m_jit : N; m_pol : policy }.

(* ChannelInner: busy, transmission_finish_time, Buffer { packets (id, length), acc_bytes } *)
Record chan := { busy : bool; finish : N; buffer : list (N * N); acc : N }.

(* what happened, newest first *)
Inductive item :=
| IStart (m len t j : N) (fromq : bool)   (* transmission of m starts at t with jitter sample j; fromq: dequeued by unbusy *)
| IDropBusy (m len t : N)                 (* offered at t to a busy channel with policy Drop *)
| IDropFull (m len t : N)                 (* offered at t to a busy channel whose queue cannot hold it *)
| IEnq (m len t : N)                      (* offered at t to a busy channel and queued *)
| IUnbusy (t : N)                         (* ChannelUnbusyNotif handled at t *)
| IDeliver (m t : N)                      (* m handed to the receiving module at t *)
| ISample (t : N) (b : bool) (f pk bts : N). (* is_busy, transmission_finish_time, queue packets/bytes (shown while busy) *)

Inductive cev := EUnbusy | EExit (m : N) | EWake (k : N).
Definition enc_ev (e : cev) : N :=
  match e with EUnbusy => 0 | EExit m => 2 * m + 1 | EWake k => 2 * k + 2 end.
Definition dec_ev (p : N) : cev :=
  if p =? 0 then EUnbusy else if N.odd p then EExit (p / 2) else EWake (p / 2 - 1).

Record st := { ch : chan; q : sp; orc : list N; log : list item }.

Definition now (s : st) : N := s_tcur (q s).
(* events are added with an encoding [encf] of their kind: [enc_ev] for one channel on its own,
   a channel-tagged encoding when several channels share the event set (Channel.Multi) *)
Definition qaddf (encf : cev -> N) (q0 : sp) (t : N) (e : cev) : sp := fst (fst (sp_add q0 t (encf e))).
Notation qadd := (qaddf enc_ev).

Definition set_ch (s : st) (c : chan) : st := {| ch := c; q := q s; orc := orc s; log := log s |}.
Definition set_q (s : st) (q' : sp) : st := {| ch := ch s; q := q'; orc := orc s; log := log s |}.
Definition set_orc (s : st) (o : list N) : st := {| ch := ch s; q := q s; orc := o; log := log s |}.
Definition emit (s : st) (i : item) : st := {| ch := ch s; q := q s; orc := orc s; log := i :: log s |}.

Definition sample (s : st) : st :=
  let c := ch s in
  emit s (ISample (now s) (busy c) (finish c)
                  (if busy c then N.of_nat (length (buffer c)) else 0)
                  (if busy c then acc c else 0)).

(* limit.unwrap_or(usize::MAX) < acc_bytes + len *)
Definition over (lim : option N) (x : N) : bool :=
  match lim with None => false | Some l => l <? x end.

(* Code variants: the current code and the pinned code it was repaired from.
     drain_all  = true : Channel::unbusy keeps dequeuing while the channel stays idle (fix 3b41f69);
                  false: it dequeued at most one message.
     exit_first = true : send_message schedules the MessageExitingConnection before the
                         ChannelUnbusyNotif; false: after it. *)
Record variant := { drain_all : bool; exit_first : bool }.

Section Loop.
Variable vr : variant.
Variable encf : cev -> N.
Variable tx : N -> N.
Variable mt : metrics.
Variable bursts : list (N * list (N * N)).   (* (time, [(msg id, length)]) *)

(* the sample drawn by calculate_duration: none when jitter = 0 *)
Definition take_jitter (s : st) : N * list N :=
  if m_jit mt =? 0 then (0, orc s)
  else match orc s with [] => (0, []) | j :: r => (j, r) end.

(* Buffer::enqueue *)
Definition enqueue (c : chan) (m len : N) : chan :=
  {| busy := busy c; finish := finish c; buffer := buffer c ++ [(m, len)]; acc := acc c + len |}.

(* Channel::set_busy_until *)
Definition set_busy_until (c : chan) (t : N) : chan :=
  {| busy := true; finish := t; buffer := buffer c; acc := acc c |}.

(* Channel::send_message *)
Definition send_message (s : st) (m len : N) (fromq : bool) : st :=
  let c := ch s in
  if busy c then
    (* ChannelDropBehaviour::handle *)
    match m_pol mt with
    | PDrop => emit s (IDropBusy m len (now s))
    | PQueue lim =>
        if over lim (acc c + len) then emit s (IDropFull m len (now s))
        else emit (set_ch s (enqueue c m len)) (IEnq m len (now s))
    end
  else
    let '(j, o') := take_jitter s in
    let b := tx len in
    let t := now s in
    let s1 := set_orc s o' in
    let add_unbusy (s' : st) :=
      if b =? 0 then s'
      else set_q (set_ch s' (set_busy_until (ch s') (t + b))) (qaddf encf (q s') (t + b) EUnbusy) in
    let add_exit (s' : st) := set_q s' (qaddf encf (q s') (t + (m_lat mt + b + j)) (EExit m)) in
    let s2 := if exit_first vr then add_unbusy (add_exit s1) else add_exit (add_unbusy s1) in
    emit s2 (IStart m len t j fromq).

(* the `while !self.is_busy() { dequeue; send_message }` of Channel::unbusy;
   every iteration pops one packet, so the queue length is enough fuel *)
Fixpoint drain (k : nat) (s : st) : st :=
  match k with
  | O => s
  | S k' =>
      if busy (ch s) then s
      else match buffer (ch s) with
           | [] => s
           | (m, len) :: r =>
               (* Buffer::dequeue *)
               let c := {| busy := false; finish := finish (ch s); buffer := r; acc := acc (ch s) - len |} in
               drain k' (send_message (set_ch s c) m len true)
           end
  end.

(* Channel::unbusy *)
Definition unbusy (s : st) : st :=
  let c := {| busy := false; finish := 0; buffer := buffer (ch s); acc := acc (ch s) |} in
  let s1 := emit (set_ch s c) (IUnbusy (now s)) in
  drain (if drain_all vr then length (buffer c) else 1%nat) s1.

(* sender module: handle_message(wake-up k) sends the k-th burst; the channel
   is sampled before and after every send *)
Definition offer (s : st) (o : N * N) : st := sample (send_message (sample s) (fst o) (snd o) false).

Definition handle_wake (s : st) (k : N) : st :=
  match nth_error bursts (N.to_nat k) with
  | None => s
  | Some (_, offs) => fold_left offer offs s
  end.

(* receiver module: handle_message(m) logs the arrival and samples the channel *)
Definition handle_exit (s : st) (m : N) : st := sample (emit s (IDeliver m (now s))).

Definition dispatch (s : st) (e : cev) : st :=
  match e with
  | EUnbusy => unbusy s
  | EExit m => handle_exit s m
  | EWake k => handle_wake s k
  end.

(* one iteration of the runtime's event loop *)
Definition step (s : st) : option st :=
  match sp_fetch (q s) with
  | (q', OFetched pay _) => Some (dispatch (set_q s q') (dec_ev pay))
  | _ => None
  end.

Fixpoint steps (n : nat) (s : st) : st :=
  match n with
  | O => s
  | S n' => match step s with Some s' => steps n' s' | None => s end
  end.

(* at_sim_start of the sender: one wake-up per burst, in script order *)
Fixpoint sched_wakes (q0 : sp) (k : N) (bs : list (N * list (N * N))) : sp :=
  match bs with
  | [] => q0
  | (t, _) :: r => sched_wakes (qaddf encf q0 t (EWake k)) (k + 1) r
  end.

Definition idle_chan : chan := {| busy := false; finish := 0; buffer := []; acc := 0 |}.

Definition init (oracle : list N) : st :=
  {| ch := idle_chan; q := sched_wakes sp_new 0 bursts; orc := oracle; log := [] |}.

End Loop.

(* ---- script level ------------------------------------------------------- *)

(* consecutive offers with the same time form one burst; message ids are script positions *)
Fixpoint group (offs : list (N * N)) (m : N) : list (N * list (N * N)) :=
  match offs with
  | [] => []
  | (t, len) :: r =>
      match group r (m + 1) with
      | (t', b) :: g => if t =? t' then (t, (m, len) :: b) :: g else (t, [(m, len)]) :: (t', b) :: g
      | [] => [(t, [(m, len)])]
      end
  end.

(* every offer creates at most an Unbusy and an Exit event, every burst one wake-up *)
Definition fuel_for (offs : list (N * N)) : nat := 3 * length offs + 1.

Definition run_model (vr : variant) (tx : N -> N) (mt : metrics) (oracle : list N) (offs : list (N * N)) : st :=
  let bs := group offs 0 in
  sample (steps vr enc_ev tx mt bs (fuel_for offs) (init enc_ev bs oracle)).

(* the code as it is in /repo now *)
Definition current : variant := {| drain_all := true; exit_first := true |}.

Fixpoint tx_tbl (tbl : list (N * N)) (len : N) : N :=
  match tbl with
  | [] => 0
  | (l, t) :: r => if l =? len then t else tx_tbl r len
  end.

Fixpoint pairs (l : list N) : list (N * N) :=
  match l with
  | a :: b :: r => (a, b) :: pairs r
  | _ => []
  end.

Definition dec_policy (p lim : N) : policy :=
  if p =? 0 then PDrop else if p =? 1 then PQueue None else PQueue (Some lim).

(* what the implementation's harness can observe *)
Definition enc_item (i : item) : list N :=
  match i with
  | IStart m _ t _ fromq => [1; m; t] ++ (if fromq then [] else [4; m; 0])
  | IDropBusy m _ _ => [4; m; 1]
  | IDropFull m _ _ => [4; m; 2]
  | IEnq m _ _ => [4; m; 3]
  | IUnbusy _ => []
  | IDeliver m t => [2; m; t]
  | ISample t b f pk bts => [3; t; b2n b; f; pk; bts]
  end.

Definition hdr_len : N := 64.

(* single-channel script: seed brk br lat jit pol lim  ntx (len tx)*  norc j*  (t len)*
   (seed, brk, br only concern the implementation: rng seed and bitrate).
   The runner that is extracted and compared with the implementation is Channel.Multi.run
   (several channels on one event set); Project.multi_projects relates the two. *)
Definition run_with (vr : variant) (input : list N) : list N :=
  match input with
  | _ :: _ :: _ :: lat :: jit :: pol :: lim :: r =>
      let '(tb, r1) := take_lp r in
      let '(oracle, r2) := take_lp r1 in
      let tbl := pairs tb in
      let offs := map (fun o => (fst o, N.max hdr_len (snd o))) (pairs r2) in
      let mt := {| m_lat := lat; m_jit := jit; m_pol := dec_policy pol lim |} in
      let s := run_model vr (tx_tbl tbl) mt oracle offs in
      [7; N.of_nat (length tbl)] ++ flat_map (fun p => [fst p; snd p]) tbl
        ++ flat_map enc_item (rev (log s))
  | _ => [8]
  end.

Definition run : list N -> list N := run_with current.
