(* Delivery times: a message is handed to the receiver exactly at
   start + tx len + latency + j, with j the jitter sample drawn at the start of
   its transmission; every transmission that started is either delivered at
   that time or has its Exit event pending for that time. *)
From Coq Require Import List Arith NArith Lia Bool Sorting.Sorted Permutation ZifyBool.
From DesVerif Require Import Common.Codec CQueue.Model CQueue.Spec CQueue.ListX CQueue.SpecProps
  Channel.Model Channel.Queue Channel.Trace Channel.Core.
Import ListNotations.
Open Scope N_scope.

Lemma qadd_In q0 t e x :
  s_tcur q0 <= t -> (In x (pend (qadd q0 t e)) <-> x = new_ev q0 t e \/ In x (pend q0)).
Proof.
  intros H. destruct (qadd_pend q0 t e H) as [l1 [l2 [E1 E2]]]. rewrite E2, E1, !in_app_iff. cbn [In].
  intuition congruence.
Qed.

Section Timing.
Variable tx : N -> N.
Variable mt : metrics.
Variable bursts : list (N * list (N * N)).
Variable oracle0 : list N.

Notation send := (send_message current enc_ev tx mt).
Notation drain := (Model.drain current enc_ev tx mt).
Notation unbusy := (Model.unbusy current enc_ev tx mt).
Notation offer := (Model.offer current enc_ev tx mt).
Notation handle_wake := (Model.handle_wake current enc_ev tx mt bursts).
Notation dispatch := (Model.dispatch current enc_ev tx mt bursts).
Notation step := (Model.step current enc_ev tx mt bursts).
Notation steps := (Model.steps current enc_ev tx mt bursts).
Notation due := (Trace.due tx mt).

Definition in_range (o : list N) : Prop := Forall (fun j => j < m_jit mt) o.

Definition exit_at (p : list ev) (m t : N) : Prop :=
  exists x, In x p /\ dec_ev (epay x) = EExit m /\ etime x = t.

Record Tim (s : st) : Prop := {
  T_fwd : forall m len t j fq, In (IStart m len t j fq) (log s) ->
            In (IDeliver m (due len t j)) (log s) \/ exit_at (pend (q s)) m (due len t j);
  T_pend : forall x m, In x (pend (q s)) -> dec_ev (epay x) = EExit m ->
            exists len t j fq, In (IStart m len t j fq) (log s) /\ etime x = due len t j;
  T_back : forall m t', In (IDeliver m t') (log s) ->
            exists len t j fq, In (IStart m len t j fq) (log s) /\ t' = due len t j;
  T_jit : forall m len t j fq, In (IStart m len t j fq) (log s) ->
            (m_jit mt = 0 -> j = 0) /\ (in_range oracle0 -> m_jit mt <> 0 -> j < m_jit mt);
  T_orc : in_range oracle0 -> in_range (orc s)
}.

Definition quiet (i : item) : Prop :=
  match i with IStart _ _ _ _ _ => False | IDeliver _ _ => False | _ => True end.

(* changes that touch neither the event set, nor the oracle, nor starts/deliveries *)
Lemma Tim_quiet s s' i :
  Tim s -> q s' = q s -> orc s' = orc s -> log s' = i :: log s -> quiet i -> Tim s'.
Proof.
  intros [H1 H2 H3 H4 H5] Eq Eo El Hq. constructor; rewrite ?Eq, ?Eo, ?El.
  - intros m len t j fq [Hi|Hi]; [subst i; destruct Hq|]. destruct (H1 _ _ _ _ _ Hi) as [H|H]; [left; right; exact H|right; exact H].
  - intros x m Hx Hd. destruct (H2 x m Hx Hd) as [len [t [j [fq [Hi He]]]]]. exists len, t, j, fq. split; [right; exact Hi|exact He].
  - intros m t' [Hi|Hi]; [subst i; destruct Hq|]. destruct (H3 m t' Hi) as [len [t [j [fq [Hi' He]]]]].
    exists len, t, j, fq. split; [right; exact Hi'|exact He].
  - intros m len t j fq [Hi|Hi]; [subst i; destruct Hq|]. exact (H4 _ _ _ _ _ Hi).
  - exact H5.
Qed.

Lemma Tim_same s s' : Tim s -> q s' = q s -> orc s' = orc s -> log s' = log s -> Tim s'.
Proof.
  intros [H1 H2 H3 H4 H5] Eq Eo El. constructor; rewrite ?Eq, ?Eo, ?El; assumption.
Qed.

Lemma Tim_sample s : Tim s -> Tim (sample s).
Proof. intros H. eapply Tim_quiet; [exact H|reflexivity..|exact I]. Qed.

Lemma take_jitter_spec s :
  (m_jit mt = 0 -> jit_of mt s = 0) /\
  (in_range (orc s) -> m_jit mt <> 0 -> jit_of mt s < m_jit mt) /\
  (in_range (orc s) -> in_range (snd (take_jitter mt s))).
Proof.
  unfold jit_of, take_jitter. destruct (m_jit mt =? 0) eqn:E; cbn [fst snd].
  - repeat split; [lia|auto].
  - destruct (orc s) as [|j r]; cbn [fst snd].
    + repeat split; [lia|constructor].
    + repeat split; [lia|intros H _; inversion H; assumption|intros H; inversion H; assumption].
Qed.

Lemma Tim_send s m len fq : Tim s -> Tim (send s m len fq).
Proof.
  intros HT. destruct (busy (ch s)) eqn:Hb.
  - rewrite send_busy by exact Hb. destruct (m_pol mt) as [|lim]; [eapply Tim_quiet; [exact HT|reflexivity..|exact I]|].
    destruct (over lim (acc (ch s) + len)); (eapply Tim_quiet; [exact HT|reflexivity..|exact I]).
  - destruct HT as [H1 H2 H3 H4 H5]. destruct (take_jitter_spec s) as [J1 [J2 J3]].
    rewrite send_idle by exact Hb. cbv zeta. set (j := jit_of mt s) in *.
    set (te := now s + (m_lat mt + tx len + j)).
    assert (Hte : s_tcur (q s) <= te) by (unfold te, now; lia).
    assert (Htu : s_tcur (qadd (q s) te (EExit m)) <= now s + tx len) by (rewrite qadd_tcur; unfold now; lia).
    set (q1 := qadd (q s) te (EExit m)).
    set (q2 := if tx len =? 0 then q1 else qadd q1 (now s + tx len) EUnbusy).
    assert (Hin : forall x, In x (pend q2) <->
                  x = new_ev (q s) te (EExit m) \/ (tx len <> 0 /\ x = new_ev q1 (now s + tx len) EUnbusy) \/ In x (pend (q s))).
    { intros x. unfold q2. destruct (tx len =? 0) eqn:Et.
      - unfold q1. rewrite qadd_In by exact Hte. intuition lia.
      - rewrite qadd_In by exact Htu. unfold q1 at 2. rewrite qadd_In by exact Hte. intuition lia. }
    assert (Es : (if tx len =? 0
       then {| ch := ch s; q := q1; orc := snd (take_jitter mt s); log := IStart m len (now s) j fq :: log s |}
       else {| ch := set_busy_until (ch s) (now s + tx len); q := qadd q1 (now s + tx len) EUnbusy;
               orc := snd (take_jitter mt s); log := IStart m len (now s) j fq :: log s |}) =
      {| ch := (if tx len =? 0 then ch s else set_busy_until (ch s) (now s + tx len)); q := q2;
         orc := snd (take_jitter mt s); log := IStart m len (now s) j fq :: log s |}).
    { unfold q2. destruct (tx len =? 0); reflexivity. }
    fold q1. rewrite Es. clear Es.
    constructor; cbn [q log orc].
    + intros m' len' t' j' fq' [Hi|Hi].
      * injection Hi as <- <- <- <- <-. right. exists (new_ev (q s) te (EExit m)).
        split; [apply Hin; left; reflexivity|]. cbn [new_ev epay etime]. rewrite dec_enc. split; reflexivity.
      * destruct (H1 _ _ _ _ _ Hi) as [H|[x [Hx [Hd He]]]]; [left; right; exact H|].
        right. exists x. split; [apply Hin; right; right; exact Hx|split; assumption].
    + intros x m' Hx Hd. apply Hin in Hx. destruct Hx as [->|[[_ ->]|Hx]].
      * cbn [new_ev epay] in Hd. rewrite dec_enc in Hd. injection Hd as <-.
        exists len, (now s), j, fq. split; [left; reflexivity|reflexivity].
      * cbn [new_ev epay] in Hd. rewrite dec_enc in Hd. discriminate.
      * destruct (H2 x m' Hx Hd) as [len' [t' [j' [fq' [Hi He]]]]]. exists len', t', j', fq'. split; [right; exact Hi|exact He].
    + intros m' t' [Hi|Hi]; [discriminate|]. destruct (H3 m' t' Hi) as [len' [t0 [j' [fq' [Hi' He]]]]].
      exists len', t0, j', fq'. split; [right; exact Hi'|exact He].
    + intros m' len' t' j' fq' [Hi|Hi]; [|exact (H4 _ _ _ _ _ Hi)].
      injection Hi as <- <- <- <- <-. split; [exact J1|]. intros Hr Hn. apply J2; [apply H5; exact Hr|exact Hn].
    + intros Hr. apply J3, H5, Hr.
Qed.

Lemma Tim_drain k : forall s, Tim s -> Tim (drain k s).
Proof.
  induction k as [|k IH]; intros s H; cbn [Model.drain]; [exact H|].
  destruct (busy (ch s)); [exact H|]. destruct (buffer (ch s)) as [|[m len] r]; [exact H|].
  apply IH, Tim_send. eapply Tim_same; [exact H|reflexivity..].
Qed.

Lemma Tim_unbusy s : Tim s -> Tim (unbusy s).
Proof. intros H. unfold Model.unbusy. apply Tim_drain. eapply Tim_quiet; [exact H|reflexivity..|exact I]. Qed.

Lemma Tim_fold offs : forall s, Tim s -> Tim (fold_left offer offs s).
Proof.
  induction offs as [|o offs IH]; intros s H; cbn [fold_left]; [exact H|].
  apply IH. unfold Model.offer. apply Tim_sample, Tim_send, Tim_sample, H.
Qed.

(* a fetched event that is not an Exit event can be forgotten *)
Lemma Tim_fetch_other s x r q' :
  Tim s -> pend (q s) = x :: r -> pend q' = r -> (forall m, dec_ev (epay x) <> EExit m) -> Tim (set_q s q').
Proof.
  intros [H1 H2 H3 H4 H5] E Ep Hn. constructor; cbn [set_q q log orc]; try assumption; rewrite ?Ep.
  - intros m len t j fq Hi. destruct (H1 _ _ _ _ _ Hi) as [H|[y [Hy [Hd He]]]]; [left; exact H|].
    rewrite E in Hy. destruct Hy as [<-|Hy]; [destruct (Hn m Hd)|]. right. exists y. split; [exact Hy|split; assumption].
  - intros y m Hy Hd. apply (H2 y m); [rewrite E; right; exact Hy|exact Hd].
Qed.

Lemma Tim_step s s' : SI (q s) -> Tim s -> step s = Some s' -> Tim s'.
Proof.
  intros HS HT Hs.
  destruct (pend (q s)) as [|x r] eqn:E; [rewrite step_nil in Hs by exact E; discriminate|].
  rewrite (step_cons _ _ _ _ _ _ HS E) in Hs. injection Hs as <-.
  destruct (fetch_cons _ _ _ HS E) as [_ [Hp [Ht _]]].
  destruct (dec_ev (epay x)) as [|m|k] eqn:Ed; cbn [Model.dispatch].
  - apply Tim_unbusy. eapply Tim_fetch_other; [exact HT|exact E|exact Hp|]. intros m. rewrite Ed. discriminate.
  - unfold handle_exit. apply Tim_sample. destruct HT as [H1 H2 H3 H4 H5].
    set (s1 := set_q s (fst (sp_fetch (q s)))).
    assert (Hn : now s1 = etime x) by (unfold now, s1; cbn [set_q q]; exact Ht).
    constructor; cbn [emit s1 set_q q log orc]; try assumption; rewrite ?Hp.
    + intros m' len t j fq [Hi|Hi]; [discriminate|].
      destruct (H1 _ _ _ _ _ Hi) as [H|[y [Hy [Hd He]]]]; [left; right; exact H|].
      rewrite E in Hy. destruct Hy as [<-|Hy].
      * left. left. rewrite Ed in Hd. injection Hd as <-. rewrite Hn, He. reflexivity.
      * right. exists y. split; [exact Hy|split; assumption].
    + intros y m' Hy Hd. destruct (H2 y m') as [len [t [j [fq [Hi He]]]]]; [rewrite E; right; exact Hy|exact Hd|].
      exists len, t, j, fq. split; [right; exact Hi|exact He].
    + intros m' t' [Hi|Hi].
      * injection Hi as <- <-. destruct (H2 x m) as [len [t [j [fq [Hi He]]]]]; [rewrite E; left; reflexivity|exact Ed|].
        exists len, t, j, fq. split; [right; exact Hi|]. rewrite Hn. exact He.
      * destruct (H3 m' t' Hi) as [len [t [j [fq [Hi' He]]]]]. exists len, t, j, fq. split; [right; exact Hi'|exact He].
    + intros m' len t j fq [Hi|Hi]; [discriminate|]. exact (H4 _ _ _ _ _ Hi).
  - unfold Model.handle_wake.
    assert (HT1 : Tim (set_q s (fst (sp_fetch (q s))))).
    { eapply Tim_fetch_other; [exact HT|exact E|exact Hp|]. intros m. rewrite Ed. discriminate. }
    destruct (nth_error bursts (N.to_nat k)) as [[t offs]|]; [|exact HT1]. apply Tim_fold, HT1.
Qed.

Lemma wakes_only bs : forall q0 k x m,
  s_tcur q0 = 0 -> In x (pend (sched_wakes enc_ev q0 k bs)) -> dec_ev (epay x) = EExit m -> In x (pend q0).
Proof.
  induction bs as [|[t offs] bs IH]; intros q0 k x m H0 Hx Hd; cbn [sched_wakes] in Hx; [exact Hx|].
  apply (IH _ _ _ m) in Hx; [|rewrite qadd_tcur; exact H0|exact Hd].
  apply qadd_In in Hx; [|lia]. destruct Hx as [->|Hx]; [|exact Hx].
  cbn [new_ev epay] in Hd. rewrite dec_enc in Hd. discriminate.
Qed.

Lemma Tim_init : Tim (init enc_ev bursts oracle0).
Proof.
  constructor; cbn [init q log orc].
  - intros m len t j fq [].
  - intros x m Hx Hd. apply (wakes_only _ _ _ _ m) in Hx; [destruct Hx|reflexivity|exact Hd].
  - intros m t' [].
  - intros m len t j fq [].
  - auto.
Qed.

Lemma Tim_steps n : forall s, Good tx mt s -> Tim s -> Tim (steps n s).
Proof.
  induction n as [|n IH]; intros s HG H; cbn [Model.steps]; [exact H|].
  destruct (step s) as [s'|] eqn:E; [|exact H]. apply IH.
  - eapply Good_step; eassumption.
  - eapply Tim_step; [apply HG|exact H|exact E].
Qed.

Theorem Tim_reachable n : Tim (steps n (init enc_ev bursts oracle0)).
Proof. apply Tim_steps; [apply Good_init|apply Tim_init]. Qed.

End Timing.
