(* The multi-channel loop runs dry within the fuel of Multi.run.  Every event of
   the shared set concerns some channel (a burst is never empty), so by
   Project.Rp_step_head every step of the multi-channel run is a step of at
   least one channel's own run, and never undoes progress of another; the sum
   over the channels of the single-channel termination measure (Term.mu)
   therefore decreases with every event. *)
From Coq Require Import List Arith NArith Lia Bool Sorting.Sorted Permutation ZifyBool.
From DesVerif Require Import Common.Codec CQueue.Model CQueue.Spec CQueue.ListX CQueue.SpecProps
  Channel.Model Channel.Queue Channel.Trace Channel.Core Channel.Account Channel.Term
  Channel.Multi Channel.ProjQueue Channel.Project.
Import ListNotations.
Open Scope N_scope.

(* ---- sums over the channel indices ---- *)
Definition chans16 : list N := map N.of_nat (seq 0 16).

Lemma chans16_in c : c < NCH -> In c chans16.
Proof.
  unfold NCH. intros H. assert (E : c = N.of_nat (N.to_nat c)) by lia. rewrite E. unfold chans16.
  apply in_map, in_seq. lia.
Qed.

Lemma chans16_lt c : In c chans16 -> c < NCH.
Proof. unfold chans16, NCH. intros H. apply in_map_iff in H. destruct H as [k [<- Hk]]. apply in_seq in Hk. lia. Qed.

Definition sumc (l : list N) (f : N -> nat) : nat := fold_right (fun c a => (f c + a)%nat) 0%nat l.

Lemma sumc_le l f g : (forall c, In c l -> (f c <= g c)%nat) -> (sumc l f <= sumc l g)%nat.
Proof.
  induction l as [|c l IH]; intros H; cbn [sumc fold_right]; [lia|].
  pose proof (H c (or_introl eq_refl)). assert (sumc l f <= sumc l g)%nat by (apply IH; intros x Hx; apply H; right; exact Hx).
  unfold sumc in *. lia.
Qed.

Lemma sumc_lt l f g c0 :
  (forall c, In c l -> (f c <= g c)%nat) -> In c0 l -> (f c0 < g c0)%nat -> (sumc l f < sumc l g)%nat.
Proof.
  induction l as [|c l IH]; intros H Hin Hlt; [destruct Hin|]. cbn [sumc fold_right].
  pose proof (H c (or_introl eq_refl)) as Hc.
  assert (Hl : (sumc l f <= sumc l g)%nat) by (apply sumc_le; intros x Hx; apply H; right; exact Hx).
  destruct Hin as [->|Hin].
  - unfold sumc in *. lia.
  - assert (sumc l f < sumc l g)%nat by (apply IH; [intros x Hx; apply H; right; exact Hx|exact Hin|exact Hlt]).
    unfold sumc in *. lia.
Qed.

Lemma sumc_add l f g : sumc l (fun c => (f c + g c)%nat) = (sumc l f + sumc l g)%nat.
Proof. induction l as [|c l IH]; cbn [sumc fold_right]; [reflexivity|]. unfold sumc in *. rewrite IH. lia. Qed.

Lemma sumc_zero l : sumc l (fun _ => 0%nat) = 0%nat.
Proof. induction l as [|c l IH]; cbn [sumc fold_right]; [reflexivity|]. unfold sumc in *. rewrite IH. reflexivity. Qed.

(* x occurs once among the channel indices *)
Lemma sumc_one x l : NoDup l -> In x l -> sumc l (fun c => if x =? c then 1%nat else 0%nat) = 1%nat.
Proof.
  induction l as [|c l IH]; intros Hn Hin; [destruct Hin|]. cbn [sumc fold_right]. inversion Hn as [|? ? Hnot Hn']; subst.
  destruct Hin as [->|Hin].
  - rewrite N.eqb_refl. replace (fold_right _ _ l) with 0%nat; [reflexivity|].
    symmetry. clear IH Hn Hn'. induction l as [|d l IHl]; cbn [fold_right]; [reflexivity|].
    replace (x =? d) with false by (assert (x <> d) by (intros ->; apply Hnot; left; reflexivity); lia).
    apply IHl. intros H. apply Hnot. right; exact H.
  - replace (x =? c) with false by (assert (x <> c) by (intros ->; exact (Hnot Hin)); lia).
    apply (IH Hn' Hin).
Qed.

Lemma chans16_nodup : NoDup chans16.
Proof. unfold chans16. apply FinFun.Injective_map_NoDup; [intros a b H; lia|apply seq_NoDup]. Qed.

(* ---- what an add leaves in the event set ---- *)
Lemma addp_In q0 t p y : s_tcur q0 <= t -> In y (pend (addp q0 t p)) -> y = newp q0 t p \/ In y (pend q0).
Proof.
  intros H. rewrite addp_eq by exact H. unfold pend. destruct (t =? s_tcur q0); cbn [s_zero s_rest]; rewrite !in_app_iff; cbn [In].
  - intuition.
  - rewrite In_sins. intuition.
Qed.

Section MTerm.
Variable txs : N -> N -> N.
Variable mts : N -> metrics.
Variable mbursts : list (N * list (N * N * N)).
Hypothesis Hne : Forall (fun b => snd b <> []) mbursts.

Notation mstep := (Multi.mstep own_instance txs mts mbursts).
Notation msteps := (Multi.msteps own_instance txs mts mbursts).
Notation moffer := (Multi.moffer own_instance txs mts).
Notation proj := (proj_ev mbursts).
Notation Rp := (Project.Rp mbursts).

(* the event concerns some channel *)
Definition nonjunk (x : ev) : Prop := exists c, c < NCH /\ proj c (dec_mev (epay x)) <> None.
Definition NJ (Q : sp) : Prop := forall x, In x (pend Q) -> nonjunk x.
Definition grows (Q Q' : sp) : Prop := forall y, In y (pend Q') -> In y (pend Q) \/ nonjunk y.

Lemma grows_refl Q : grows Q Q.
Proof. intros y H. left; exact H. Qed.

Lemma grows_trans Q1 Q2 Q3 : grows Q1 Q2 -> grows Q2 Q3 -> grows Q1 Q3.
Proof. intros H1 H2 y Hy. destruct (H2 y Hy) as [H|H]; [exact (H1 y H)|right; exact H]. Qed.

Lemma grows_addall c evs : forall Q,
  c < NCH -> Forall (fun te => s_tcur Q <= fst te /\ notwake (snd te)) evs -> grows Q (addall (enc_at c) evs Q).
Proof.
  induction evs as [|[t e] evs IH]; intros Q Hc HF; cbn [addall fold_left fst snd]; [apply grows_refl|].
  inversion HF as [|? ? [Ht Hw] HF']; subst. cbn [fst snd] in Ht, Hw.
  eapply grows_trans; [|apply IH; [exact Hc|rewrite qaddf_addp, addp_tcur; exact HF']].
  intros y Hy. rewrite qaddf_addp in Hy. apply addp_In in Hy; [|exact Ht]. destruct Hy as [->|Hy]; [right|left; exact Hy].
  exists c. split; [exact Hc|]. cbn [newp epay]. rewrite (proj_same mbursts c Hc e Hw). discriminate.
Qed.

Lemma grows_on c h M : c < NCH -> Par h -> grows (mq M) (mq (on c (h (enc_at c)) M)).
Proof.
  intros Hc HP. assert (HS : Sim [] (view c M) (view c M)) by (unfold Sim; rewrite app_nil_r; repeat split).
  destruct (HP (enc_at c) (enc_at c) [] _ _ HS) as [_ [evs [HF [B1 _]]]]. cbn [on back mq]. rewrite B1.
  apply grows_addall; assumption.
Qed.

Lemma grows_fold offs : forall M, grows (mq M) (mq (fold_left moffer offs M)).
Proof.
  induction offs as [|[[c0 m] len] offs IH]; intros M; cbn [fold_left]; [apply grows_refl|].
  eapply grows_trans; [|apply IH]. unfold Multi.moffer, own_instance. rewrite N.mod_mod by discriminate.
  apply (grows_on (c0 mod NCH) (fun e s => offer current e (txs (c0 mod NCH)) (mts (c0 mod NCH)) s (m, len)));
    [apply N.mod_lt; discriminate|apply Par_offer].
Qed.

Lemma grows_dispatch M p : grows (mq M) (mq (mdispatch own_instance txs mts mbursts M (dec_mev p))).
Proof.
  pose proof (dec_mev_chan p) as Hch. destruct (dec_mev p) as [c|c m|k]; cbn [mdispatch].
  - apply (grows_on c (fun e s => unbusy current e (txs c) (mts c) s) M Hch), Par_unbusy.
  - apply (grows_on c (fun _ s => handle_exit s m) M Hch), Par_exit.
  - unfold mwake. destruct (nth_error mbursts (N.to_nat k)) as [[t offs]|]; [apply grows_fold|apply grows_refl].
Qed.

(* ---- all channels' own runs, side by side ---- *)
Definition sstep_c (c : N) := Model.step current enc_ev (txs c) (mts c) (pbursts mbursts c).
Definition pot (F : N -> st) : nat := sumc chans16 (fun c => mu (pbursts mbursts c) (F c)).
Definition Joint (M : mst) (F : N -> st) : Prop := (forall c, c < NCH -> Rp c M (F c)) /\ NJ (mq M).

Lemma joint_step M M' F :
  Joint M F -> mstep M = Some M' -> exists F', Joint M' F' /\ (pot F' < pot F)%nat.
Proof.
  intros [HR HN] Hm.
  destruct (pend (mq M)) as [|x r] eqn:E; [unfold Multi.mstep in Hm; rewrite (fetch_nil _ E) in Hm; discriminate|].
  set (F' := fun c => match proj c (dec_mev (epay x)) with
                      | Some _ => match sstep_c c (F c) with Some S' => S' | None => F c end
                      | None => F c end).
  assert (HF' : forall c, c < NCH ->
            Rp c M' (F' c) /\ (mu (pbursts mbursts c) (F' c) <= mu (pbursts mbursts c) (F c))%nat /\
            (proj c (dec_mev (epay x)) <> None -> (mu (pbursts mbursts c) (F' c) < mu (pbursts mbursts c) (F c))%nat)).
  { intros c Hc. pose proof (Rp_step_head txs mts mbursts c Hc M M' (F c) x r (HR c Hc) E Hm) as H. unfold F'.
    destruct (proj c (dec_mev (epay x))) as [e|].
    - destruct H as [S' [ES HR']]. unfold sstep_c. rewrite ES.
      pose proof (mu_step (txs c) (mts c) (pbursts mbursts c) (F c) S' (rq_SIP _ _ _ (rp_q _ _ _ _ (HR c Hc))) ES) as Hlt.
      split; [exact HR'|]. split; [lia|intros _; exact Hlt].
    - split; [exact H|]. split; [lia|intros Hc'; destruct (Hc' eq_refl)]. }
  exists F'. split; [split|].
  - intros c Hc. apply (HF' c Hc).
  - (* the events left are those that were there, or new ones of some channel *)
    pose proof (rq_SIQ _ _ _ (rp_q _ _ _ _ (HR 0 ltac:(unfold NCH; lia)))) as HQ.
    destruct (fetch_cons _ _ _ HQ E) as [Ho [Hp _]]. unfold Multi.mstep in Hm.
    destruct (sp_fetch (mq M)) as [Q' o]. cbn [fst snd] in Ho, Hp. subst o. injection Hm as <-.
    intros y Hy. apply grows_dispatch in Hy. cbn [mq] in Hy. destruct Hy as [Hy|Hy]; [|exact Hy].
    apply HN. rewrite E, <- Hp. right. exact Hy.
  - destruct (HN x) as [c0 [Hc0 Hp0]]; [rewrite E; left; reflexivity|]. unfold pot.
    apply (sumc_lt chans16 _ _ c0).
    + intros c Hc. apply (HF' c (chans16_lt c Hc)).
    + apply chans16_in, Hc0.
    + apply (HF' c0 Hc0), Hp0.
Qed.

Lemma msteps_done n : forall M F, Joint M F -> (pot F < n)%nat -> mstep (msteps n M) = None.
Proof.
  induction n as [|n IH]; intros M F HJ Hp; [lia|]. cbn [Multi.msteps].
  destruct (mstep M) as [M'|] eqn:E; [|exact E].
  destruct (joint_step M M' F HJ E) as [F' [HJ' Hlt]]. apply (IH M' F' HJ'). lia.
Qed.

(* ---- the initial state ---- *)
Lemma sched_contents (suf : list (N * list (N * N * N))) : forall Q k0 x,
  s_tcur Q = 0 ->
  In x (pend (sched_wakes (enc_at 0) Q k0 (map (fun b => (fst b, @nil (N * N))) suf))) ->
  In x (pend Q) \/ exists j, (j < length suf)%nat /\ epay x = enc_at 0 (EWake (k0 + N.of_nat j)).
Proof.
  induction suf as [|[t offs] suf IH]; intros Q k0 x H0 Hx; cbn [map sched_wakes fst] in Hx; [left; exact Hx|].
  apply IH in Hx; [|rewrite qaddf_addp, addp_tcur; exact H0]. destruct Hx as [Hx|[j [Hj Ej]]].
  - rewrite qaddf_addp in Hx. apply addp_In in Hx; [|lia]. destruct Hx as [->|Hx]; [right|left; exact Hx].
    exists 0%nat. split; [cbn [length]; lia|]. cbn [newp epay]. rewrite N.add_0_r. reflexivity.
  - right. exists (S j). split; [cbn [length]; lia|]. rewrite Ej. f_equal. f_equal. lia.
Qed.

Lemma NJ_init oracles : NJ (mq (minit mbursts oracles)).
Proof.
  intros x Hx. cbn [minit mq] in Hx. apply sched_contents in Hx; [|reflexivity]. destruct Hx as [[]|[j [Hj Ej]]].
  rewrite N.add_0_l in Ej. destruct (nth_error mbursts j) as [[t offs]|] eqn:En; [|apply nth_error_None in En; lia].
  assert (Ho : offs <> []) by (rewrite Forall_forall in Hne; exact (Hne _ (nth_error_In _ _ En))).
  destruct offs as [|[[c0 m] len] offs]; [destruct (Ho eq_refl)|].
  exists (c0 mod NCH). split; [apply N.mod_lt; discriminate|].
  rewrite Ej, dec_enc_mev by (unfold NCH; lia). cbn [lift proj_ev]. rewrite Nat2N.id, En.
  unfold nonempty, projb. cbn [snd fst flat_map]. rewrite N.eqb_refl. cbn [app]. discriminate.
Qed.

Definition F0 (oracles : N -> list N) (c : N) : st := init enc_ev (pbursts mbursts c) (oracles c).

Lemma Joint_init oracles : Joint (minit mbursts oracles) (F0 oracles).
Proof. split; [intros c Hc; apply Rp_init; exact Hc|apply NJ_init]. Qed.

(* how many offers go to channel c *)
Definition share (c : N) (bs : list (N * list (N * N * N))) : nat :=
  length (flat_map (fun b => snd (projb c b)) bs).

Lemma pbursts_share c bs :
  length (all_ids (pbursts_of c bs)) = share c bs /\ (length (pbursts_of c bs) <= share c bs)%nat.
Proof.
  unfold share, pbursts_of, all_ids. induction bs as [|b bs [IH1 IH2]]; cbn [map filter flat_map length]; [split; lia|].
  rewrite app_length. destruct (nonempty (projb c b)) eqn:En; cbn [flat_map length]; rewrite ?app_length, ?map_length.
  - unfold nonempty in En. destruct (snd (projb c b)); [discriminate|]. cbn [length] in *. split; lia.
  - unfold nonempty in En. destruct (snd (projb c b)); [|discriminate]. cbn [length]. split; lia.
Qed.

Lemma sumc_ext l f g : (forall c, f c = g c) -> sumc l f = sumc l g.
Proof. intros H. induction l as [|c l IH]; cbn [sumc fold_right]; [reflexivity|]. unfold sumc in IH. rewrite IH, H. reflexivity. Qed.

Lemma share_burst offs : sumc chans16 (fun c => length (snd (projb c (0, offs)))) = length offs.
Proof.
  unfold projb. cbn [snd fst]. induction offs as [|[[c0 m] len] offs IH]; cbn [flat_map length]; [apply sumc_zero|].
  rewrite <- IH. erewrite sumc_ext; [|intros c; rewrite app_length; reflexivity]. rewrite sumc_add.
  erewrite (sumc_ext chans16 (fun c => length (if fst (fst (c0, m, len)) mod NCH =? c then _ else _)));
    [|intros c; cbn [fst snd]; instantiate (1 := fun c => if c0 mod NCH =? c then 1%nat else 0%nat); cbn beta;
      destruct (c0 mod NCH =? c); reflexivity].
  rewrite sumc_one; [reflexivity|apply chans16_nodup|apply chans16_in, N.mod_lt; discriminate].
Qed.

Lemma share_total bs : sumc chans16 (fun c => share c bs) = length (flat_map snd bs).
Proof.
  unfold share. induction bs as [|[t offs] bs IH]; cbn [flat_map snd]; [apply sumc_zero|].
  erewrite sumc_ext; [|intros c; rewrite app_length; reflexivity]. rewrite sumc_add, IH, app_length. f_equal.
  rewrite <- (share_burst offs). apply sumc_ext. intros c. reflexivity.
Qed.

Lemma pot_init oracles : (pot (F0 oracles) <= 3 * length (flat_map snd mbursts))%nat.
Proof.
  unfold pot, F0. rewrite <- share_total.
  assert (H : (sumc chans16 (fun c => mu (pbursts mbursts c) (init enc_ev (pbursts mbursts c) (oracles c))) <=
               sumc chans16 (fun c => (share c mbursts + (share c mbursts + share c mbursts))%nat))%nat).
  { apply sumc_le. intros c _. rewrite (mu_init (txs c) (mts c)). unfold pbursts.
    destruct (pbursts_share c mbursts) as [E L]. rewrite E. lia. }
  rewrite !sumc_add in H. lia.
Qed.

Theorem multi_completes oracles n :
  (3 * length (flat_map snd mbursts) < n)%nat ->
  let s := msteps n (minit mbursts oracles) in mstep s = None /\ pend (mq s) = [].
Proof.
  intros Hn. cbv zeta.
  assert (Hs : mstep (msteps n (minit mbursts oracles)) = None).
  { apply (msteps_done n _ (F0 oracles) (Joint_init oracles)). pose proof (pot_init oracles). lia. }
  split; [exact Hs|]. unfold Multi.mstep in Hs.
  destruct (pend (mq (msteps n (minit mbursts oracles)))) as [|x r] eqn:E; [reflexivity|exfalso].
  destruct (multi_projects txs mts mbursts 0 ltac:(unfold NCH; lia) oracles n) as [k [_ _ _ HQ]].
  destruct (fetch_cons _ _ _ (rq_SIQ _ _ _ HQ) E) as [Ho _].
  destruct (sp_fetch (mq (msteps n (minit mbursts oracles)))) as [Q' o]. cbn [snd] in Ho. subst o. discriminate.
Qed.

End MTerm.

(* ---- the bursts built from a script ---- *)
Lemma mgroup_spec offs : forall m,
  Forall (fun b => snd b <> []) (mgroup offs m) /\ length (flat_map snd (mgroup offs m)) = length offs.
Proof.
  induction offs as [|[[t c] len] r IH]; intros m; cbn [mgroup]; [split; [constructor|reflexivity]|].
  destruct (IH (m + 1)) as [F L]. destruct (mgroup r (m + 1)) as [|[[t' side'] b] g].
  - split; [repeat constructor; discriminate|cbn [flat_map snd app length] in *; lia].
  - inversion F; subst. destruct ((t =? t') && Bool.eqb (N.odd c) side'); cbn [flat_map snd app length] in *.
    + split; [constructor; [discriminate|assumption]|lia].
    + split; [constructor; [discriminate|constructor; assumption]|lia].
Qed.

Lemma flat_filter_split {A B} (f : A -> list B) (p : A -> bool) l :
  (length (flat_map f (filter (fun x => negb (p x)) l)) + length (flat_map f (filter p l)) = length (flat_map f l))%nat.
Proof.
  induction l as [|x l IH]; cbn [filter flat_map length]; [reflexivity|].
  destruct (p x); cbn [negb flat_map]; rewrite !app_length; lia.
Qed.

Lemma sched_order_spec g :
  Forall (fun b => snd b <> []) g ->
  Forall (fun b => snd b <> []) (sched_order g) /\ length (flat_map snd (sched_order g)) = length (flat_map snd g).
Proof.
  intros F. unfold sched_order. split.
  - apply Forall_forall. intros b Hb. apply in_map_iff in Hb. destruct Hb as [x [<- Hx]]. cbn [snd].
    rewrite Forall_forall in F. apply F. apply in_app_or in Hx. destruct Hx as [Hx|Hx]; apply filter_In in Hx; apply Hx.
  - rewrite flat_map_concat_map, map_map, <- flat_map_concat_map. cbn [snd].
    rewrite flat_map_app, app_length. apply (flat_filter_split snd (fun b => snd (fst b)) g).
Qed.

(* the run of a script ends within the fuel of Multi.run with no event pending:
   the trailing 9 of the model's output never appears *)
Theorem multi_run_completes txs mts oracles offs :
  let bs := sched_order (mgroup offs 0) in
  let s := msteps own_instance txs mts bs (mfuel offs) (minit bs oracles) in
  mstep own_instance txs mts bs s = None /\ pend (mq s) = [].
Proof.
  cbv zeta. destruct (mgroup_spec offs 0) as [F L]. destruct (sched_order_spec _ F) as [F' L'].
  apply multi_completes; [exact F'|]. rewrite L', L. unfold mfuel. lia.
Qed.

(* the samples taken in at_sim_end do not touch the event set *)
Lemma final_samples_keep_queue cs : forall s, mq (fold_left (fun s c => on c sample s) cs s) = mq s.
Proof. induction cs as [|c cs IH]; intros s; cbn [fold_left]; [reflexivity|]. rewrite IH. reflexivity. Qed.
