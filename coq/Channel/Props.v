(* Readable consequences of the invariants: what a well-formed log says about
   one item, FIFO start, the queue limit, and the reachable-state theorems in
   the form Properties/C07.v states them. *)
From Coq Require Import List Arith NArith Lia Bool Sorting.Sorted Permutation ZifyBool.
From DesVerif Require Import Common.Codec CQueue.Model CQueue.Spec CQueue.ListX CQueue.SpecProps
  Channel.Model Channel.Queue Channel.Trace Channel.Core Channel.Account Channel.Timing.
Import ListNotations.
Open Scope N_scope.

Lemma wf_log_split tx mt l2 i r : wf_log tx mt (l2 ++ i :: r) -> item_ok tx mt i r /\ wf_log tx mt r.
Proof. induction l2 as [|x l2 IH]; cbn [app wf_log]; [tauto|]. intros [_ H]. exact (IH H). Qed.

Lemma over_false lim x : over lim x = false <-> match lim with None => True | Some l => x <= l end.
Proof. destruct lim as [l|]; cbn [over]; [lia|tauto]. Qed.

Lemma over_true lim x : over lim x = true <-> match lim with None => False | Some l => l < x end.
Proof. destruct lim as [l|]; cbn [over]; [lia|split; [discriminate|tauto]]. Qed.

(* accepted offers, in offer order = transmissions, in start order, then the queue *)
Lemma accepted_started tx mt l :
  wf_log tx mt l -> accepted l = rev (map fst (queue_of l)) ++ started l.
Proof.
  induction l as [|i r IH]; cbn [wf_log]; [reflexivity|]. intros [Hi Hw]. specialize (IH Hw).
  destruct i as [m len t j [|]|m len t|m len t|m len t|t|m t|t b f pk bts];
    unfold accepted, started in *; cbn [flat_map queue_of app]; fold (accepted r) (started r) in *; try exact IH.
  - destruct Hi as [_ [Hh _]]. rewrite IH. destruct (queue_of r) as [|[m' len'] rest]; [discriminate|].
    injection Hh as -> ->. cbn [tl map fst rev]. rewrite <- app_assoc. reflexivity.
  - destruct Hi as [_ Hq]. rewrite IH, Hq. reflexivity.
  - rewrite IH, map_app, rev_app_distr. reflexivity.
Qed.

Section Reach.
Variable tx : N -> N.
Variable mt : metrics.
Variable bursts : list (N * list (N * N)).
Variable oracle : list N.

Definition reach (n : nat) : st := steps current enc_ev tx mt bursts n (init enc_ev bursts oracle).

Theorem idle_implies_queue_empty n :
  let s := reach n in
  (busy (ch s) = false -> buffer (ch s) = []) /\
  unbusies (pend (q s)) = (if busy (ch s) then [finish (ch s)] else []).
Proof.
  cbv zeta; unfold reach. destruct (Good_reachable tx mt bursts oracle n) as [HC Hi]. split; [exact Hi|apply (C_unb _ _ _ HC)].
Qed.

Theorem delivery_time n m t' :
  let s := reach n in
  In (IDeliver m t') (log s) ->
  exists len t j fq, In (IStart m len t j fq) (log s) /\ t' = t + (m_lat mt + tx len + j) /\
    (m_jit mt = 0 -> j = 0) /\ (Forall (fun j => j < m_jit mt) oracle -> m_jit mt <> 0 -> j < m_jit mt).
Proof.
  cbv zeta; unfold reach. intros H. pose proof (Tim_reachable tx mt bursts oracle n) as HT.
  destruct (T_back _ _ _ _ HT m t' H) as [len [t [j [fq [Hi He]]]]]. exists len, t, j, fq.
  split; [exact Hi|]. split; [exact He|]. apply (T_jit _ _ _ _ HT _ _ _ _ _ Hi).
Qed.

Theorem started_delivered_or_in_flight n m len t j fq :
  let s := reach n in
  In (IStart m len t j fq) (log s) ->
  In (IDeliver m (t + (m_lat mt + tx len + j))) (log s) \/
  exit_at (pend (q s)) m (t + (m_lat mt + tx len + j)).
Proof. cbv zeta. intros H. apply (T_fwd _ _ _ _ (Tim_reachable tx mt bursts oracle n) _ _ _ _ _ H). Qed.

Theorem busy_span n :
  let s := reach n in
  wf_log tx mt (log s) /\
  cur_of tx (log s) = (if busy (ch s) then Some (finish (ch s)) else None) /\
  unbusies (pend (q s)) = (if busy (ch s) then [finish (ch s)] else []).
Proof.
  cbv zeta; unfold reach. destruct (Good_reachable tx mt bursts oracle n) as [HC _].
  refine (conj (C_wf _ _ _ HC) (conj (C_cur _ _ _ HC) (C_unb _ _ _ HC))).
Qed.

(* the Unbusy event of a transmission is handled at start + tx len, and only then *)
Theorem unbusy_stamp n l2 t r :
  log (reach n) = l2 ++ IUnbusy t :: r -> cur_of tx r = Some t.
Proof.
  intros E. pose proof (busy_span n) as Hw. cbv zeta in Hw. destruct Hw as [Hw _]. rewrite E in Hw. apply wf_log_split in Hw. apply Hw.
Qed.

Theorem fifo_start n l2 m len t j r :
  log (reach n) = l2 ++ IStart m len t j true :: r ->
  hd_error (queue_of r) = Some (m, len) /\ deq_ctx tx r = Some t /\ cur_of tx r = None.
Proof.
  intros E. pose proof (busy_span n) as Hw. cbv zeta in Hw. destruct Hw as [Hw _]. rewrite E in Hw. apply wf_log_split in Hw.
  destruct Hw as [[H1 [H2 H3]] _]. auto.
Qed.

Theorem direct_start n l2 m len t j r :
  log (reach n) = l2 ++ IStart m len t j false :: r -> cur_of tx r = None /\ queue_of r = [].
Proof.
  intros E. pose proof (busy_span n) as Hw. cbv zeta in Hw. destruct Hw as [Hw _]. rewrite E in Hw. apply wf_log_split in Hw. apply Hw.
Qed.

Theorem fifo_order n :
  let s := reach n in
  rev (accepted (log s)) = rev (started (log s)) ++ map fst (buffer (ch s)).
Proof.
  cbv zeta; unfold reach. destruct (Good_reachable tx mt bursts oracle n) as [HC _].
  rewrite (accepted_started tx mt _ (C_wf _ _ _ HC)), (C_queue _ _ _ HC), rev_app_distr, rev_involutive. reflexivity.
Qed.

Theorem queue_limit n :
  let s := reach n in
  acc (ch s) = qsum (buffer (ch s)) /\ queue_of (log s) = buffer (ch s) /\
  (forall l2 m len t r, log s = l2 ++ IEnq m len t :: r ->
     cur_of tx r <> None /\ exists lim, m_pol mt = PQueue lim /\
     match lim with None => True | Some l => qsum (queue_of r) + len <= l end) /\
  (forall l2 m len t r, log s = l2 ++ IDropFull m len t :: r ->
     cur_of tx r <> None /\ exists l, m_pol mt = PQueue (Some l) /\ l < qsum (queue_of r) + len) /\
  (forall l2 m len t r, log s = l2 ++ IDropBusy m len t :: r -> cur_of tx r <> None /\ m_pol mt = PDrop).
Proof.
  cbv zeta; unfold reach. destruct (Good_reachable tx mt bursts oracle n) as [HC _].
  split; [apply (C_acc _ _ _ HC)|]. split; [apply (C_queue _ _ _ HC)|]. pose proof (C_wf _ _ _ HC) as Hw.
  split; [|split]; intros l2 m len t r E; rewrite E in Hw; apply wf_log_split in Hw; destruct Hw as [Hi _]; cbn [item_ok] in Hi.
  - destruct Hi as [H1 [lim [H2 H3]]]. split; [exact H1|]. exists lim. split; [exact H2|]. apply over_false. exact H3.
  - destruct Hi as [H1 [lim [H2 H3]]]. split; [exact H1|]. apply over_true in H3. destruct lim as [l|]; [|destruct H3].
    exists l. split; assumption.
  - exact Hi.
Qed.

End Reach.
