(* Channel instances are independent.  For every channel c the part of a
   multi-channel run (Channel.Multi: shared event set, shared log) that concerns
   c -- its channel record, its jitter samples, its part of the log, its events
   in the order the shared event set returns them -- is a run of the
   single-channel model (Channel.Model) on c's own part of the script.  That
   single-channel run does not mention any other channel, so neither offers to
   other channels nor their states (queues, busy periods) have any influence;
   and every theorem proved about the single-channel model holds of every
   channel of a multi-channel run. *)
From Coq Require Import List Arith NArith Lia Bool Sorting.Sorted Permutation ZifyBool.
From DesVerif Require Import Common.Codec CQueue.Model CQueue.Spec CQueue.ListX CQueue.SpecProps
  Channel.Model Channel.Queue Channel.Trace Channel.Core Channel.Multi Channel.ProjQueue.
Import ListNotations.
Open Scope N_scope.

(* ---- handlers only add events, and what they do does not depend on the event set ---- *)
Definition addall (encf : cev -> N) (evs : list (N * cev)) (q0 : sp) : sp :=
  fold_left (fun q1 te => qaddf encf q1 (fst te) (snd te)) evs q0.

Lemma addall_app encf a b q0 : addall encf (a ++ b) q0 = addall encf b (addall encf a q0).
Proof. apply fold_left_app. Qed.

Lemma addall_tcur encf evs : forall q0, s_tcur (addall encf evs q0) = s_tcur q0.
Proof.
  induction evs as [|[t e] evs IH]; intros q0; cbn [addall fold_left fst snd]; [reflexivity|].
  fold (addall encf evs (qaddf encf q0 t e)). rewrite IH. apply addp_tcur.
Qed.

Lemma qaddf_tcur encf q0 t e : s_tcur (qaddf encf q0 t e) = s_tcur q0.
Proof. apply addp_tcur. Qed.

Definition notwake (e : cev) : Prop := match e with EWake _ => False | _ => True end.

(* the two states agree on everything but the event set and the older log *)
Definition Sim (L : list item) (s1 s2 : st) : Prop :=
  ch s1 = ch s2 /\ orc s1 = orc s2 /\ s_tcur (q s1) = s_tcur (q s2) /\ log s2 = log s1 ++ L.

Definition Par (h : (cev -> N) -> st -> st) : Prop :=
  forall enc1 enc2 L s1 s2, Sim L s1 s2 ->
    Sim L (h enc1 s1) (h enc2 s2) /\
    exists evs, Forall (fun te => s_tcur (q s1) <= fst te /\ notwake (snd te)) evs /\
                q (h enc1 s1) = addall enc1 evs (q s1) /\ q (h enc2 s2) = addall enc2 evs (q s2).

Lemma Par_comp h1 h2 : Par h1 -> Par h2 -> Par (fun e s => h2 e (h1 e s)).
Proof.
  intros P1 P2 enc1 enc2 L s1 s2 HS. destruct (P1 enc1 enc2 L s1 s2 HS) as [HS1 [ev1 [F1 [A1 B1]]]].
  destruct (P2 enc1 enc2 L _ _ HS1) as [HS2 [ev2 [F2 [A2 B2]]]]. split; [exact HS2|].
  exists (ev1 ++ ev2). split; [|rewrite !addall_app, <- A1, <- B1; split; assumption].
  apply Forall_app. split; [exact F1|]. rewrite A1, addall_tcur in F2. exact F2.
Qed.

Lemma Par_quiet (f : st -> st) :
  (forall s, ch (f s) = ch s /\ orc (f s) = orc s /\ q (f s) = q s) ->
  (forall L s1 s2, Sim L s1 s2 -> log (f s2) = log (f s1) ++ L) ->
  Par (fun _ s => f s).
Proof.
  intros Hf Hl enc1 enc2 L s1 s2 HS. pose proof HS as [Hc [Ho [Ht _]]].
  destruct (Hf s1) as [A1 [A2 A3]]. destruct (Hf s2) as [B1 [B2 B3]]. split.
  - unfold Sim. rewrite A1, A2, A3, B1, B2, B3. refine (conj Hc (conj Ho (conj Ht (Hl L s1 s2 HS)))).
  - exists []. split; [constructor|]. split; assumption.
Qed.

Lemma Par_sample : Par (fun _ s => sample s).
Proof.
  apply Par_quiet; [intros s; repeat split|]. intros L s1 s2 [Hc [Ho [Ht Hl]]].
  unfold sample, now. cbn [emit log]. rewrite Hl, Hc, Ht. reflexivity.
Qed.

Section Handlers.
Variable tx : N -> N.
Variable mt : metrics.

Lemma Par_send m len fq : Par (fun e s => send_message current e tx mt s m len fq).
Proof.
  intros enc1 enc2 L [c1 q1 o1 l1] [c2 q2 o2 l2] [Hc [Ho [Ht Hl]]]. cbn [ch q orc log] in *. subst c2 o2 l2.
  unfold send_message, now, take_jitter. cbn [ch q orc log]. rewrite <- Ht. destruct (busy c1).
  - (* refused or queued: no event *)
    destruct (m_pol mt) as [|lim]; [|destruct (over lim (acc c1 + len))];
      (split; [repeat split; cbn [emit set_ch ch q orc log]; (reflexivity || exact Ht)|exists []; repeat split; constructor]).
  - set (jo := if m_jit mt =? 0 then (0, o1) else match o1 with [] => (0, []) | j :: r => (j, r) end).
    destruct jo as [j o'] eqn:Ej. cbn [exit_first current]. unfold set_orc, set_q, set_ch, emit. cbn [ch q orc log].
    destruct (tx len =? 0) eqn:Etx.
    + split; [repeat split; cbn [ch q orc log]; rewrite ?qaddf_tcur; (reflexivity || exact Ht)|].
      exists [(s_tcur q1 + (m_lat mt + tx len + j), EExit m)]. cbn [q addall fold_left fst snd].
      split; [constructor; [split; [cbn [fst]; lia|exact I]|constructor]|split; reflexivity].
    + split; [repeat split; cbn [ch q orc log]; rewrite ?qaddf_tcur; (reflexivity || exact Ht)|].
      exists [(s_tcur q1 + (m_lat mt + tx len + j), EExit m); (s_tcur q1 + tx len, EUnbusy)]. cbn [q addall fold_left fst snd].
      split; [|split; reflexivity].
      constructor; [split; [cbn [fst]; lia|exact I]|]. constructor; [split; [cbn [fst]; lia|exact I]|constructor].
Qed.

Lemma Par_offer o : Par (fun e s => offer current e tx mt s o).
Proof.
  unfold offer. apply (Par_comp (fun e s => send_message current e tx mt (sample s) (fst o) (snd o) false) (fun _ s => sample s)); [|apply Par_sample].
  apply (Par_comp (fun _ s => sample s) (fun e s => send_message current e tx mt s (fst o) (snd o) false)); [apply Par_sample|apply Par_send].
Qed.

Lemma Par_drain k : Par (fun e s => drain current e tx mt k s).
Proof.
  induction k as [|k IH]; intros enc1 enc2 L s1 s2 HS; cbn [drain].
  - split; [exact HS|]. exists []. repeat split; constructor.
  - pose proof HS as [Hc [Ho [Ht Hl]]]. rewrite <- Hc. destruct (busy (ch s1)).
    + split; [exact HS|]. exists []. repeat split; constructor.
    + destruct (buffer (ch s1)) as [|[m len] r] eqn:Eb.
      * split; [exact HS|]. exists []. repeat split; constructor.
      * set (d1 := set_ch s1 _). set (d2 := set_ch s2 _).
        assert (HSd : Sim L d1 d2) by (unfold d1, d2, Sim; cbn [set_ch ch q orc log]; repeat split; assumption).
        exact (Par_comp (fun e s => send_message current e tx mt s m len true) (fun e s => drain current e tx mt k s)
                 (Par_send m len true) IH enc1 enc2 L d1 d2 HSd).
Qed.

Lemma Par_unbusy : Par (fun e s => unbusy current e tx mt s).
Proof.
  intros enc1 enc2 L s1 s2 HS. pose proof HS as [Hc [Ho [Ht Hl]]]. unfold unbusy. cbn [drain_all current buffer].
  rewrite <- Hc. set (u1 := emit _ _). set (u2 := emit _ _).
  assert (HSu : Sim L u1 u2).
  { unfold u1, u2, Sim, now. cbn [emit set_ch ch q orc log]. rewrite Hl, Ht. repeat split; assumption. }
  exact (Par_drain _ enc1 enc2 L u1 u2 HSu).
Qed.

Lemma Par_exit m : Par (fun _ s => handle_exit s m).
Proof.
  apply Par_quiet; [intros s; repeat split|]. intros L s1 s2 [Hc [Ho [Ht Hl]]].
  unfold handle_exit, sample, now. cbn [emit log ch q]. rewrite Hl, Hc, Ht. reflexivity.
Qed.

End Handlers.

(* ---- the projection on channel c ---- *)
Section Project.
Variable txs : N -> N -> N.
Variable mts : N -> metrics.
Variable mbursts : list (N * list (N * N * N)).
Variable c : N.
Hypothesis Hc : c < NCH.

(* channel c's part of a burst, and the script of channel c: its non-empty bursts *)
Definition projb (b : N * list (N * N * N)) : N * list (N * N) :=
  (fst b, flat_map (fun o => if fst (fst o) mod NCH =? c then [(snd (fst o), snd o)] else []) (snd b)).
Definition nonempty (b : N * list (N * N)) : bool := match snd b with [] => false | _ => true end.
Definition pbursts_of (bs : list (N * list (N * N * N))) : list (N * list (N * N)) := filter nonempty (map projb bs).
Definition pbursts := pbursts_of mbursts.
Definition rank (k : N) : N := N.of_nat (length (pbursts_of (firstn (N.to_nat k) mbursts))).

Definition proj_ev (e : mev) : option cev :=
  match e with
  | MUnbusy c' => if c' =? c then Some EUnbusy else None
  | MExit c' m => if c' =? c then Some (EExit m) else None
  | MWake k => match nth_error mbursts (N.to_nat k) with
               | Some b => if nonempty (projb b) then Some (EWake (rank k)) else None
               | None => None
               end
  end.

Definition plog (l : list (N * item)) : list item := flat_map (fun ci => if fst ci =? c then [snd ci] else []) l.

Notation Rq := (ProjQueue.Rq proj_ev).

Record Rp (M : mst) (S : st) : Prop := {
  rp_ch : inst_of M c = ch S;
  rp_orc : orcs M c = orc S;
  rp_log : plog (mlog M) = log S;
  rp_q : Rq (mq M) (q S)
}.

Lemma plog_same l rest : plog (map (pair c) l ++ rest) = l ++ plog rest.
Proof.
  unfold plog. rewrite flat_map_app. f_equal. induction l as [|i l IH]; cbn [map flat_map fst snd app]; [reflexivity|].
  rewrite N.eqb_refl, IH. reflexivity.
Qed.

Lemma plog_other c' l rest : c' <> c -> plog (map (pair c') l ++ rest) = plog rest.
Proof.
  intros Hn. unfold plog. rewrite flat_map_app. replace (flat_map _ (map (pair c') l)) with (@nil item); [reflexivity|].
  induction l as [|i l IH]; cbn [map flat_map fst snd app]; [reflexivity|].
  replace (c' =? c) with false by lia. exact IH.
Qed.

Lemma proj_same e : notwake e -> proj_ev (dec_mev (enc_at c e)) = Some e.
Proof.
  intros Hn. rewrite dec_enc_mev by exact Hc. destruct e as [|m|k]; cbn [lift proj_ev]; rewrite ?N.eqb_refl; [reflexivity..|destruct Hn].
Qed.

Lemma proj_other c' e : c' < NCH -> c' <> c -> notwake e -> proj_ev (dec_mev (enc_at c' e)) = None.
Proof.
  intros Hc' Hn Hw. rewrite dec_enc_mev by exact Hc'. destruct e as [|m|k]; cbn [lift proj_ev];
    [replace (c' =? c) with false by lia; reflexivity..|destruct Hw].
Qed.

Lemma Rq_addall_same evs : forall Q P,
  Rq Q P -> s_tcur P = s_tcur Q ->
  Forall (fun te => s_tcur Q <= fst te /\ notwake (snd te)) evs ->
  Rq (addall (enc_at c) evs Q) (addall enc_ev evs P).
Proof.
  induction evs as [|[t e] evs IH]; intros Q P HR Hs HF; cbn [addall fold_left fst snd]; [exact HR|].
  inversion HF as [|? ? [Ht Hw] HF']; subst. cbn [fst snd] in Ht, Hw.
  apply IH.
  - rewrite !qaddf_addp. eapply Rq_add_same; [exact HR|exact Hs|exact Ht|apply proj_same; exact Hw|apply dec_enc].
  - rewrite !qaddf_addp, !addp_tcur. exact Hs.
  - rewrite qaddf_addp, addp_tcur. exact HF'.
Qed.

Lemma Rq_addall_other c' evs : forall Q P,
  c' < NCH -> c' <> c -> Rq Q P ->
  Forall (fun te => s_tcur Q <= fst te /\ notwake (snd te)) evs ->
  Rq (addall (enc_at c') evs Q) P.
Proof.
  induction evs as [|[t e] evs IH]; intros Q P Hc' Hn HR HF; cbn [addall fold_left fst snd]; [exact HR|].
  inversion HF as [|? ? [Ht Hw] HF']; subst. cbn [fst snd] in Ht, Hw.
  apply IH; try assumption.
  - rewrite qaddf_addp. apply Rq_add_other; [exact HR|exact Ht|apply proj_other; assumption].
  - rewrite qaddf_addp, addp_tcur. exact HF'.
Qed.

(* a handler runs for channel c on both sides *)
Lemma on_same h M S :
  Par h -> Rp M S -> s_tcur (q S) = s_tcur (mq M) ->
  Rp (on c (h (enc_at c)) M) (h enc_ev S) /\ s_tcur (q (h enc_ev S)) = s_tcur (mq (on c (h (enc_at c)) M)).
Proof.
  intros HP [H1 H2 H3 H4] Hs.
  assert (HS : Sim (log S) (view c M) S) by (unfold Sim, view; cbn [ch q orc log app]; repeat split; auto).
  destruct (HP (enc_at c) enc_ev (log S) _ _ HS) as [[A1 [A2 [A3 A4]]] [evs [HF [B1 B2]]]].
  split; [|cbn [on back mq]; symmetry; exact A3].
  constructor; cbn [on back chs orcs mlog mq].
  - unfold inst_of. cbn [on back chs]. unfold upd. rewrite N.eqb_refl. exact A1.
  - unfold upd. rewrite N.eqb_refl. exact A2.
  - rewrite plog_same, H3. symmetry. exact A4.
  - rewrite B1, B2. cbn [view q] in *. apply Rq_addall_same; [exact H4|exact Hs|exact HF].
Qed.

(* a handler runs for another channel *)
Lemma on_other c' h M S :
  c' < NCH -> c' <> c -> Par h -> Rp M S ->
  Rp (on c' (h (enc_at c')) M) S /\ s_tcur (mq (on c' (h (enc_at c')) M)) = s_tcur (mq M).
Proof.
  intros Hc' Hn HP [H1 H2 H3 H4].
  assert (HS : Sim [] (view c' M) (view c' M)) by (unfold Sim; rewrite app_nil_r; repeat split).
  destruct (HP (enc_at c') (enc_at c') [] _ _ HS) as [_ [evs [HF [B1 _]]]].
  split; [|cbn [on back mq]; rewrite B1, addall_tcur; reflexivity].
  constructor; cbn [on back chs orcs mlog mq].
  - rewrite <- H1. unfold inst_of. cbn [on back chs]. unfold upd. replace (c =? c') with false by lia.
    destruct (chs M c); reflexivity.
  - unfold upd. replace (c =? c') with false by lia. exact H2.
  - rewrite plog_other by exact Hn. exact H3.
  - rewrite B1. cbn [view q] in *. apply Rq_addall_other; assumption.
Qed.

Notation moffer := (Multi.moffer own_instance txs mts).
Notation sstep := (Model.step current enc_ev (txs c) (mts c) pbursts).
Notation ssteps := (Model.steps current enc_ev (txs c) (mts c) pbursts).
Notation mstep := (Multi.mstep own_instance txs mts mbursts).
Notation msteps := (Multi.msteps own_instance txs mts mbursts).

Definition offs_c (offs : list (N * N * N)) : list (N * N) := snd (projb (0, offs)).

(* one handler invocation: the sends into c happen on both sides, the others only in the multi run *)
Lemma fold_offers offs : forall M S,
  Rp M S -> (s_tcur (q S) = s_tcur (mq M) \/ offs_c offs = []) ->
  Rp (fold_left moffer offs M) (fold_left (offer current enc_ev (txs c) (mts c)) (offs_c offs) S).
Proof.
  induction offs as [|[[c0 m] len] offs IH]; intros M S HR Hs; [exact HR|].
  cbn [fold_left]. unfold offs_c, projb in *. cbn [snd fst flat_map] in *.
  unfold Multi.moffer at 2, own_instance. rewrite N.mod_mod by discriminate.
  assert (Hc0 : c0 mod NCH < NCH) by (apply N.mod_lt; discriminate).
  destruct (c0 mod NCH =? c) eqn:E.
  - apply N.eqb_eq in E. rewrite E in *. cbn [app fold_left]. destruct Hs as [Hs|Hs]; [|discriminate Hs].
    destruct (on_same (fun e s => offer current e (txs c) (mts c) s (m, len)) M S (Par_offer (txs c) (mts c) (m, len)) HR Hs) as [HR' Hs'].
    apply IH; [exact HR'|left; exact Hs'].
  - apply N.eqb_neq in E. cbn [app].
    destruct (on_other (c0 mod NCH) (fun e s => offer current e (txs (c0 mod NCH)) (mts (c0 mod NCH)) s (m, len)) M S Hc0 E
                (Par_offer (txs (c0 mod NCH)) (mts (c0 mod NCH)) (m, len)) HR) as [HR' Ht'].
    apply IH; [exact HR'|]. destruct Hs as [Hs|Hs]; [left; rewrite Ht'; exact Hs|right; exact Hs].
Qed.

Lemma rank_nth bs : forall k b,
  nth_error bs k = Some b -> nonempty (projb b) = true ->
  nth_error (pbursts_of bs) (length (pbursts_of (firstn k bs))) = Some (projb b).
Proof.
  induction bs as [|b0 bs IH]; intros k b Hn Hb; [destruct k; discriminate|].
  destruct k as [|k]; cbn [nth_error firstn] in *.
  - injection Hn as ->. unfold pbursts_of. cbn [map filter length]. rewrite Hb. reflexivity.
  - unfold pbursts_of in *. cbn [map filter]. destruct (nonempty (projb b0)); cbn [length nth_error]; apply IH; assumption.
Qed.

(* one event of the multi run: one event of channel c's own run if the event concerns c, else nothing *)
Lemma Rp_step_head M M' S x r :
  Rp M S -> pend (mq M) = x :: r -> mstep M = Some M' ->
  match proj_ev (dec_mev (epay x)) with
  | Some _ => exists S', sstep S = Some S' /\ Rp M' S'
  | None => Rp M' S
  end.
Proof.
  intros HR E Hm. pose proof HR as [H1 H2 H3 H4]. unfold Multi.mstep in Hm.
  pose proof (rq_SIQ _ _ _ H4) as HQ. destruct (fetch_cons _ _ _ HQ E) as [Ho _].
  destruct (sp_fetch (mq M)) as [Q' o] eqn:EF. cbn [fst snd] in Ho. subst o. injection Hm as <-.
  set (M1 := {| chs := chs M; mq := Q'; orcs := orcs M; mlog := mlog M |}).
  assert (EQ' : Q' = fst (sp_fetch (mq M))) by (rewrite EF; reflexivity).
  pose proof (dec_mev_chan (epay x)) as Hch.
  destruct (proj_ev (dec_mev (epay x))) as [e|] eqn:Ep.
  - (* an event of channel c *)
    destruct (Rq_fetch_same _ _ _ _ _ _ H4 E Ep) as [y [r' [EP [Hdy [_ [HR' Hs']]]]]]. rewrite <- EQ' in HR', Hs'.
    pose proof (rq_SIP _ _ _ H4) as HP. rewrite (step_cons _ _ _ _ _ _ HP EP), Hdy.
    set (S1 := set_q S (fst (sp_fetch (q S)))).
    assert (HR1 : Rp M1 S1) by (constructor; cbn [M1 S1 set_q chs orcs mlog mq ch orc log q]; assumption).
    assert (Hs1 : s_tcur (q S1) = s_tcur (mq M1)) by exact Hs'.
    eexists. split; [reflexivity|].
    destruct (dec_mev (epay x)) as [c'|c' m|k]; cbn [proj_ev] in Ep; cbn [Multi.mdispatch].
    + destruct (c' =? c) eqn:Ec; [|discriminate]. apply N.eqb_eq in Ec. subst c'. injection Ep as <-. cbn [dispatch].
      apply (on_same (fun e s => unbusy current e (txs c) (mts c) s) M1 S1 (Par_unbusy (txs c) (mts c)) HR1 Hs1).
    + destruct (c' =? c) eqn:Ec; [|discriminate]. apply N.eqb_eq in Ec. subst c'. injection Ep as <-. cbn [dispatch].
      apply (on_same (fun _ s => handle_exit s m) M1 S1 (Par_exit m) HR1 Hs1).
    + destruct (nth_error mbursts (N.to_nat k)) as [[t offs]|] eqn:En; [|discriminate].
      destruct (nonempty (projb (t, offs))) eqn:Eb; [|discriminate]. injection Ep as <-. cbn [dispatch].
      unfold Multi.mwake, Model.handle_wake, rank. rewrite En, Nat2N.id.
      unfold pbursts. rewrite (rank_nth mbursts _ _ En Eb). unfold projb at 1.
      apply (fold_offers offs M1 S1 HR1 (or_introl Hs1)).
  - (* an event of another channel *)
    pose proof (Rq_fetch_other _ _ _ _ _ H4 E Ep) as HR'. rewrite <- EQ' in HR'.
    assert (HR1 : Rp M1 S) by (constructor; cbn [M1 chs orcs mlog mq]; assumption).
    destruct (dec_mev (epay x)) as [c'|c' m|k]; cbn [proj_ev] in Ep; cbn [Multi.mdispatch].
    + destruct (c' =? c) eqn:Ec; [discriminate|]. apply N.eqb_neq in Ec.
      apply (on_other c' (fun e s => unbusy current e (txs c') (mts c') s) M1 S Hch Ec (Par_unbusy (txs c') (mts c')) HR1).
    + destruct (c' =? c) eqn:Ec; [discriminate|]. apply N.eqb_neq in Ec.
      apply (on_other c' (fun _ s => handle_exit s m) M1 S Hch Ec (Par_exit m) HR1).
    + unfold Multi.mwake. destruct (nth_error mbursts (N.to_nat k)) as [[t offs]|] eqn:En; [|exact HR1].
      destruct (nonempty (projb (t, offs))) eqn:Eb; [discriminate|].
      assert (Eo : offs_c offs = []) by (unfold offs_c, nonempty, projb in *; cbn [snd fst] in *; destruct (flat_map _ offs); [reflexivity|discriminate]).
      pose proof (fold_offers offs M1 S HR1 (or_intror Eo)) as HF. rewrite Eo in HF. exact HF.
Qed.

Lemma Rp_step M M' S :
  Rp M S -> mstep M = Some M' -> Rp M' S \/ exists S', sstep S = Some S' /\ Rp M' S'.
Proof.
  intros HR Hm. destruct (pend (mq M)) as [|x r] eqn:E.
  - unfold Multi.mstep in Hm. rewrite (fetch_nil _ E) in Hm. discriminate.
  - pose proof (Rp_step_head M M' S x r HR E Hm) as H. destruct (proj_ev (dec_mev (epay x))); [right|left]; exact H.
Qed.

(* ---- the initial states ---- *)
Lemma pbursts_app a b : pbursts_of (a ++ b) = pbursts_of a ++ pbursts_of b.
Proof. unfold pbursts_of. rewrite map_app, filter_app. reflexivity. Qed.

Lemma Rq_sched suf : forall pre Q P,
  mbursts = pre ++ suf -> Rq Q P -> s_tcur Q = 0 -> s_tcur P = 0 ->
  Rq (sched_wakes (enc_at 0) Q (N.of_nat (length pre)) (map (fun b => (fst b, @nil (N * N))) suf))
     (sched_wakes enc_ev P (N.of_nat (length (pbursts_of pre))) (pbursts_of suf)).
Proof.
  induction suf as [|[t offs] suf IH]; intros pre Q P Eb HR HQ0 HP0; cbn [map sched_wakes fst]; [exact HR|].
  assert (En : nth_error mbursts (length pre) = Some (t, offs)).
  { rewrite Eb, nth_error_app2 by lia. rewrite Nat.sub_diag. reflexivity. }
  assert (Ek : rank (N.of_nat (length pre)) = N.of_nat (length (pbursts_of pre))).
  { unfold rank. rewrite Nat2N.id, Eb, firstn_app, Nat.sub_diag, firstn_all. cbn [firstn]. rewrite app_nil_r. reflexivity. }
  assert (Epre : mbursts = (pre ++ [(t, offs)]) ++ suf) by (rewrite <- app_assoc; exact Eb).
  assert (El : N.of_nat (length pre) + 1 = N.of_nat (length (pre ++ [(t, offs)]))) by (rewrite app_length; cbn [length]; lia).
  rewrite El. change (pbursts_of ((t, offs) :: suf)) with (filter nonempty (projb (t, offs) :: map projb suf)). cbn [filter].
  destruct (nonempty (projb (t, offs))) eqn:Ene; cbn [sched_wakes].
  - unfold projb at 1. cbn [fst].
    replace (N.of_nat (length (pbursts_of pre)) + 1) with (N.of_nat (length (pbursts_of (pre ++ [(t, offs)])))).
    2:{ rewrite pbursts_app, app_length. unfold pbursts_of at 2. cbn [map filter]. rewrite Ene. cbn [length]. lia. }
    apply IH; [exact Epre| |rewrite qaddf_addp, addp_tcur; exact HQ0|rewrite qaddf_addp, addp_tcur; exact HP0].
    rewrite !qaddf_addp. eapply Rq_add_same; [exact HR|rewrite HQ0, HP0; reflexivity|lia| |apply dec_enc].
    rewrite dec_enc_mev by (unfold NCH; lia). cbn [lift proj_ev]. rewrite Nat2N.id, En, Ene, Ek. reflexivity.
  - replace (N.of_nat (length (pbursts_of pre))) with (N.of_nat (length (pbursts_of (pre ++ [(t, offs)])))).
    2:{ rewrite pbursts_app, app_length. unfold pbursts_of at 2. cbn [map filter]. rewrite Ene. cbn [length]. lia. }
    apply IH; [exact Epre| |rewrite qaddf_addp, addp_tcur; exact HQ0|exact HP0].
    rewrite qaddf_addp. apply Rq_add_other; [exact HR|lia|].
    rewrite dec_enc_mev by (unfold NCH; lia). cbn [lift proj_ev]. rewrite Nat2N.id, En, Ene. reflexivity.
Qed.

Lemma Rp_init oracles :
  Rp (minit mbursts oracles) (init enc_ev pbursts (oracles c)).
Proof.
  constructor; cbn [minit init chs orcs mlog mq ch orc log q]; try reflexivity.
  apply (Rq_sched mbursts [] sp_new sp_new eq_refl); [|reflexivity|reflexivity].
  constructor; cbn; try reflexivity; try apply SI_new.
Qed.

Lemma Rp_steps n : forall M S, Rp M S -> exists k, Rp (msteps n M) (ssteps k S).
Proof.
  induction n as [|n IH]; intros M S HR; [exists 0%nat; exact HR|]. cbn [Multi.msteps].
  destruct (mstep M) as [M'|] eqn:E; [|exists 0%nat; exact HR].
  destruct (Rp_step M M' S HR E) as [HR'|[S' [ES HR']]].
  - exact (IH M' S HR').
  - destruct (IH M' S' HR') as [k Hk]. exists (Datatypes.S k). cbn [Model.steps]. rewrite ES. exact Hk.
Qed.

(* channel c of a multi-channel run is a single-channel run on c's part of the script *)
Theorem multi_projects oracles n :
  exists k, Rp (msteps n (minit mbursts oracles)) (ssteps k (init enc_ev pbursts (oracles c))).
Proof. apply Rp_steps, Rp_init. Qed.

End Project.
