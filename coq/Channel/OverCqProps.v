(* The headline theorems of C07 for the run over the calendar queue: corollaries
   of OverCq (forward simulation with C01's relation R) and the theorems about
   the run over the specification event set.  The pending events of a calendar
   queue are its current-instant list followed by its buckets
   (CQueue.Refine.pend); they are a permutation of the specification's pending
   events, in general not in fetch order. *)
From Coq Require Import List Arith NArith Lia Bool Permutation.
From DesVerif Require Import Common.Codec CQueue.Model CQueue.Spec CQueue.Refine
  Channel.Model Channel.Queue Channel.Trace Channel.Core Channel.Account Channel.Timing Channel.Props
  Channel.Multi Channel.ModelCq Channel.ProjQueue Channel.Project Channel.Links Channel.MTerm Channel.OverCq.
Import ListNotations.
Open Scope N_scope.

Lemma Rq2_pend q0 s0 : Rq2 q0 s0 -> Permutation (Refine.pend q0) (Queue.pend s0).
Proof.
  intros [hs HR]. unfold Refine.pend, Queue.pend. rewrite (R_zero _ _ _ HR). apply Permutation_app_head, (R_perm _ _ _ HR).
Qed.

Lemma sel_perm {A} (f : N -> cev -> option A) l l' : Permutation l l' -> Permutation (sel f l) (sel f l').
Proof. intros H. unfold sel. apply Permutation_flat_map, H. Qed.

Section OneCq.
Variable n t : N.
Hypothesis Hn : n <> 0.
Hypothesis Ht : t <> 0.
Variable tx : N -> N.
Variable mt : metrics.
Variable bursts : list (N * list (N * N)).
Variable oracle : list N.

Definition reach_cq (k : nat) : cst := csteps current enc_ev tx mt bursts k (cinit enc_ev bursts n t oracle).

Lemma reach_cq_sim k : Rs (reach_cq k) (reach tx mt bursts oracle k).
Proof. apply Rs_steps, Rs_init; assumption. Qed.

Theorem account_cq k :
  let s := reach_cq k in
  Permutation (all_ids bursts)
    (delivered (clog s) ++ dropped_busy (clog s) ++ dropped_full (clog s) ++ map fst (buffer (cch s))
     ++ exits (Refine.pend (cqs s)) ++ pending_ids bursts (Refine.pend (cqs s))).
Proof.
  cbv zeta. destruct (reach_cq_sim k) as [Hc [_ [Hl Hq]]]. rewrite Hc, Hl. pose proof (Rq2_pend _ _ Hq) as HP.
  etransitivity; [apply (account tx mt bursts oracle k)|]. cbv zeta. fold (reach tx mt bursts oracle k).
  repeat apply Permutation_app_head. apply Permutation_app.
  - symmetry. apply sel_perm, HP.
  - unfold pending_ids. apply Permutation_flat_map. symmetry. apply sel_perm, HP.
Qed.

Theorem delivery_time_cq k m t' :
  let s := reach_cq k in
  In (IDeliver m t') (clog s) ->
  exists len t0 j fq, In (IStart m len t0 j fq) (clog s) /\ t' = t0 + (m_lat mt + tx len + j) /\
    (m_jit mt = 0 -> j = 0) /\ (Forall (fun j => j < m_jit mt) oracle -> m_jit mt <> 0 -> j < m_jit mt).
Proof.
  cbv zeta. destruct (reach_cq_sim k) as [_ [_ [Hl _]]]. rewrite Hl. apply (delivery_time tx mt bursts oracle k).
Qed.

Theorem busy_span_cq k :
  let s := reach_cq k in
  wf_log tx mt (clog s) /\
  cur_of tx (clog s) = (if busy (cch s) then Some (finish (cch s)) else None) /\
  unbusies (Refine.pend (cqs s)) = (if busy (cch s) then [finish (cch s)] else []) /\
  (busy (cch s) = false -> buffer (cch s) = []).
Proof.
  cbv zeta. destruct (reach_cq_sim k) as [Hc [_ [Hl Hq]]]. rewrite Hc, Hl.
  destruct (busy_span tx mt bursts oracle k) as [H1 [H2 H3]]. destruct (idle_implies_queue_empty tx mt bursts oracle k) as [H4 _].
  refine (conj H1 (conj H2 (conj _ H4))).
  pose proof (sel_perm (fun t0 e => match e with EUnbusy => Some t0 | _ => None end) _ _ (Rq2_pend _ _ Hq)) as HP.
  fold (unbusies (Refine.pend (cqs (reach_cq k)))) in HP. fold (unbusies (Queue.pend (q (reach tx mt bursts oracle k)))) in HP.
  rewrite H3 in HP. destruct (busy (ch (reach tx mt bursts oracle k))).
  - symmetry in HP. apply Permutation_length_1_inv in HP. exact HP.
  - symmetry in HP. apply Permutation_nil in HP. exact HP.
Qed.

Theorem fifo_order_cq k :
  let s := reach_cq k in
  rev (accepted (clog s)) = rev (started (clog s)) ++ map fst (buffer (cch s)).
Proof.
  cbv zeta. destruct (reach_cq_sim k) as [Hc [_ [Hl _]]]. rewrite Hc, Hl. apply (fifo_order tx mt bursts oracle k).
Qed.

End OneCq.

Section ManyCq.
Variable n t : N.
Hypothesis Hn : n <> 0.
Hypothesis Ht : t <> 0.
Variable txs : N -> N -> N.
Variable mts : N -> metrics.
Variable mbursts : list (N * list (N * N * N)).
Variable oracles : N -> list N.

Definition mreach_cq (k : nat) : cmst := cmsteps own_instance txs mts mbursts k (cminit mbursts n t oracles).

(* channel c's own run, over a calendar queue of its own with n' buckets of width t' *)
Definition own_run_cq (n' t' c : N) (k : nat) : cst :=
  csteps current enc_ev (txs c) (mts c) (pbursts mbursts c) k (cinit enc_ev (pbursts mbursts c) n' t' (oracles c)).

Theorem links_independent_cq n' t' c k :
  n' <> 0 -> t' <> 0 -> c < NCH ->
  exists k', cinst_of (mreach_cq k) c = cch (own_run_cq n' t' c k') /\ corcs (mreach_cq k) c = corc (own_run_cq n' t' c k') /\
             plog c (cmlog (mreach_cq k)) = clog (own_run_cq n' t' c k').
Proof.
  intros Hn' Ht' Hc.
  destruct (multi_over_cqueue_eq_over_spec n t txs mts mbursts oracles k Hn Ht) as [H1 [H2 [H3 _]]].
  destruct (links_independent txs mts mbursts oracles c k Hc) as [k' [A1 [A2 A3]]]. exists k'.
  destruct (Rs_steps current enc_ev (txs c) (mts c) (pbursts mbursts c) k' _ _
              (Rs_init enc_ev (pbursts mbursts c) n' t' (oracles c) Hn' Ht')) as [B1 [B2 [B3 _]]].
  unfold mreach_cq, own_run_cq. rewrite H1, H2, H3, B1, B2, B3. refine (conj A1 (conj A2 A3)).
Qed.

Theorem multi_run_completes_cq oracles' offs :
  let bs := sched_order (mgroup offs 0) in
  let s := cmsteps own_instance txs mts bs (mfuel offs) (cminit bs n t oracles') in
  qlen (cmq s) = 0.
Proof.
  cbv zeta. destruct (multi_over_cqueue_eq_over_spec n t txs mts (sched_order (mgroup offs 0)) oracles' (mfuel offs) Hn Ht) as [_ [_ [_ H]]].
  destruct (multi_run_completes txs mts oracles' offs) as [_ Hp]. unfold Queue.pend in Hp. rewrite Hp in H. apply N.eqb_eq, H.
Qed.

End ManyCq.
