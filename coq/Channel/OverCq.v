(* Composition with C01: the channel loop over the calendar queue
   (Channel/ModelCq.v) computes exactly what the loop over the two-list
   specification (Channel/Model.v, Channel/Multi.v) computes, for every bucket
   count n >= 1 and bucket width t >= 1.  Forward simulation with C01's
   relation R (CQueue/Refine.v: R_new, R_add, R_fetch): the two loops make the
   same calls with the same arguments, R relates the two event sets after every
   call and makes fetch return the same event on both sides. *)
From Coq Require Import List Arith NArith Lia Bool Permutation ZifyBool.
From DesVerif Require Import Common.Fuel Common.Codec CQueue.Model CQueue.Spec CQueue.ListX CQueue.Refine
  Channel.Model Channel.Multi Channel.ModelCq Channel.ProjQueue.
Import ListNotations.
Open Scope N_scope.

Definition Rq2 (q0 : cq) (s0 : sp) : Prop := exists hs, R q0 s0 hs.

Lemma Rq2_tcur q0 s0 : Rq2 q0 s0 -> tcur q0 = s_tcur s0.
Proof. intros [hs H]. apply (R_tcur _ _ _ H). Qed.

Lemma Rq2_add encf q0 s0 t e : Rq2 q0 s0 -> s_tcur s0 <= t -> Rq2 (cqaddf encf q0 t e) (qaddf encf s0 t e).
Proof.
  intros [hs HR] Ht. assert (Ht' : tcur q0 <= t) by (rewrite (R_tcur _ _ _ HR); exact Ht).
  pose proof (R_add q0 s0 hs t (encf e) HR Ht') as H. unfold cqaddf, qaddf.
  destruct (add q0 t (encf e)) as [[q' h] o]. destruct (sp_add s0 t (encf e)) as [[s' h'] o'].
  destruct H as [_ [_ [hd [_ HR']]]]. cbn [fst]. eexists. exact HR'.
Qed.

Lemma Rq2_fetch q0 s0 :
  Rq2 q0 s0 -> snd (fetch_next q0) = snd (sp_fetch s0) /\ Rq2 (fst (fetch_next q0)) (fst (sp_fetch s0)).
Proof.
  intros [hs HR]. pose proof (R_fetch q0 s0 hs HR) as H.
  destruct (fetch_next q0) as [q' o]. destruct (sp_fetch s0) as [s' o']. destruct H as [-> HR'].
  split; [reflexivity|eexists; exact HR'].
Qed.

Lemma Rq2_new n t : n <> 0 -> t <> 0 -> Rq2 (cq_new n t) sp_new.
Proof. intros Hn Ht. exists []. apply R_new; assumption. Qed.

(* no event pending: qlen = 0 on the calendar queue, both lists empty in the specification *)
Lemma Rq2_empty q0 s0 : Rq2 q0 s0 -> (qlen q0 =? 0) = match s_zero s0 ++ s_rest s0 with [] => true | _ => false end.
Proof.
  intros [hs HR]. rewrite (R_len _ _ _ HR). unfold Refine.pend. rewrite (R_zero _ _ _ HR), app_length.
  rewrite (Permutation_length (R_perm _ _ _ HR)), <- app_length. destruct (s_zero s0 ++ s_rest s0); cbn [length]; lia.
Qed.

(* ---- one channel ---- *)
Definition Rs (s : cst) (s' : st) : Prop :=
  cch s = ch s' /\ corc s = orc s' /\ clog s = log s' /\ Rq2 (cqs s) (q s').

Section One.
Variable vr : variant.
Variable encf : cev -> N.
Variable tx : N -> N.
Variable mt : metrics.
Variable bursts : list (N * list (N * N)).

Lemma Rs_sample s s' : Rs s s' -> Rs (csample s) (sample s').
Proof.
  intros [Hc [Ho [Hl Hq]]]. unfold csample, sample, cnow, now, Rs. cbn [cemit emit cch ch corc orc clog log cqs q].
  rewrite Hc, Hl, (Rq2_tcur _ _ Hq). repeat split; assumption.
Qed.

Lemma Rs_send s s' m len fq : Rs s s' -> Rs (csend_message vr encf tx mt s m len fq) (send_message vr encf tx mt s' m len fq).
Proof.
  destruct s as [c1 q1 o1 l1], s' as [c2 q2 o2 l2]. intros [Hc [Ho [Hl Hq]]]. cbn [cch ch corc orc clog log cqs q] in *. subst c2 o2 l2.
  unfold csend_message, send_message, cnow, now, ctake_jitter, take_jitter. cbn [cch ch corc orc clog log cqs q].
  rewrite (Rq2_tcur _ _ Hq). destruct (busy c1).
  - destruct (m_pol mt) as [|lim]; [|destruct (over lim (acc c1 + len))]; repeat split; cbn; assumption.
  - set (jo := if m_jit mt =? 0 then (0, o1) else match o1 with [] => (0, []) | j :: r => (j, r) end).
    destruct jo as [j o']. set (te := s_tcur q2 + (m_lat mt + tx len + j)).
    assert (H1 : Rq2 (cqaddf encf q1 te (EExit m)) (qaddf encf q2 te (EExit m))) by (apply Rq2_add; [exact Hq|unfold te; lia]).
    assert (H2 : Rq2 (cqaddf encf (cqaddf encf q1 te (EExit m)) (s_tcur q2 + tx len) EUnbusy)
                     (qaddf encf (qaddf encf q2 te (EExit m)) (s_tcur q2 + tx len) EUnbusy)).
    { apply Rq2_add; [exact H1|]. rewrite qaddf_addp, addp_tcur. lia. }
    assert (G1 : Rq2 (cqaddf encf q1 (s_tcur q2 + tx len) EUnbusy) (qaddf encf q2 (s_tcur q2 + tx len) EUnbusy)) by (apply Rq2_add; [exact Hq|lia]).
    assert (G2 : Rq2 (cqaddf encf (cqaddf encf q1 (s_tcur q2 + tx len) EUnbusy) te (EExit m))
                     (qaddf encf (qaddf encf q2 (s_tcur q2 + tx len) EUnbusy) te (EExit m))).
    { apply Rq2_add; [exact G1|]. rewrite qaddf_addp, addp_tcur. unfold te. lia. }
    unfold cset_orc, cset_q, cset_ch, cemit, set_orc, set_q, set_ch, emit. cbn [cch ch corc orc clog log cqs q].
    destruct (exit_first vr); destruct (tx len =? 0); repeat split; cbn [cch ch corc orc clog log cqs q]; assumption.
Qed.

Lemma Rs_drain k : forall s s', Rs s s' -> Rs (cdrain vr encf tx mt k s) (drain vr encf tx mt k s').
Proof.
  induction k as [|k IH]; intros s s' HR; cbn [cdrain drain]; [exact HR|].
  pose proof HR as [Hc [Ho [Hl Hq]]]. rewrite Hc. destruct (busy (ch s')); [exact HR|].
  destruct (buffer (ch s')) as [|[m len] r]; [exact HR|]. apply IH, Rs_send.
  unfold Rs. cbn [cset_ch set_ch cch ch corc orc clog log cqs q]. repeat split; assumption.
Qed.

Lemma Rs_unbusy s s' : Rs s s' -> Rs (cunbusy vr encf tx mt s) (unbusy vr encf tx mt s').
Proof.
  intros HR. pose proof HR as [Hc [Ho [Hl Hq]]]. unfold cunbusy, unbusy. cbn [buffer]. rewrite Hc. apply Rs_drain.
  unfold Rs, cnow, now. cbn [cemit emit cset_ch set_ch cch ch corc orc clog log cqs q]. rewrite Hl, (Rq2_tcur _ _ Hq).
  repeat split; assumption.
Qed.

Lemma Rs_offer s s' o : Rs s s' -> Rs (coffer vr encf tx mt s o) (offer vr encf tx mt s' o).
Proof. intros HR. unfold coffer, offer. apply Rs_sample, Rs_send, Rs_sample, HR. Qed.

Lemma Rs_fold offs : forall s s', Rs s s' ->
  Rs (fold_left (coffer vr encf tx mt) offs s) (fold_left (offer vr encf tx mt) offs s').
Proof. induction offs as [|o offs IH]; intros s s' HR; cbn [fold_left]; [exact HR|]. apply IH, Rs_offer, HR. Qed.

Lemma Rs_exit s s' m : Rs s s' -> Rs (chandle_exit s m) (handle_exit s' m).
Proof.
  intros HR. pose proof HR as [Hc [Ho [Hl Hq]]]. unfold chandle_exit, handle_exit. apply Rs_sample.
  unfold Rs, cnow, now. cbn [cemit emit cch ch corc orc clog log cqs q]. rewrite Hl, (Rq2_tcur _ _ Hq). repeat split; assumption.
Qed.

Lemma Rs_step s s' :
  Rs s s' ->
  match cstep vr encf tx mt bursts s, step vr encf tx mt bursts s' with
  | Some a, Some b => Rs a b
  | None, None => True
  | _, _ => False
  end.
Proof.
  intros HR. pose proof HR as [Hc [Ho [Hl Hq]]]. unfold cstep, step. destruct (Rq2_fetch _ _ Hq) as [Eo Hq'].
  destruct (fetch_next (cqs s)) as [q1 o1]. destruct (sp_fetch (q s')) as [q2 o2]. cbn [fst snd] in Eo, Hq'. subst o2.
  destruct o1 as [| pay time | | | | | | |]; try exact I.
  assert (HR1 : Rs (cset_q s q1) (set_q s' q2)) by (unfold Rs; cbn [cset_q set_q cch ch corc orc clog log cqs q]; repeat split; assumption).
  destruct (dec_ev pay) as [|m|k]; cbn [cdispatch dispatch].
  - apply Rs_unbusy, HR1.
  - apply Rs_exit, HR1.
  - unfold chandle_wake, handle_wake. destruct (nth_error bursts (N.to_nat k)) as [[t offs]|]; [apply Rs_fold|]; exact HR1.
Qed.

Lemma Rs_steps k : forall s s', Rs s s' -> Rs (csteps vr encf tx mt bursts k s) (steps vr encf tx mt bursts k s').
Proof.
  induction k as [|k IH]; intros s s' HR; cbn [csteps steps]; [exact HR|].
  pose proof (Rs_step s s' HR) as H.
  destruct (cstep vr encf tx mt bursts s) as [a|]; destruct (step vr encf tx mt bursts s') as [b|]; [apply IH; exact H|destruct H|destruct H|exact HR].
Qed.

Lemma Rq2_sched bs : forall q0 s0 k, Rq2 q0 s0 -> s_tcur s0 = 0 -> Rq2 (csched_wakes encf q0 k bs) (sched_wakes encf s0 k bs).
Proof.
  induction bs as [|[t offs] bs IH]; intros q0 s0 k HR H0; cbn [csched_wakes sched_wakes]; [exact HR|].
  apply IH; [apply Rq2_add; [exact HR|lia]|rewrite qaddf_addp, addp_tcur; exact H0].
Qed.

Lemma Rs_init n t oracle : n <> 0 -> t <> 0 -> Rs (cinit encf bursts n t oracle) (init encf bursts oracle).
Proof.
  intros Hn Ht. unfold Rs. cbn [cinit init cch ch corc orc clog log cqs q]. repeat split.
  apply Rq2_sched; [apply Rq2_new; assumption|reflexivity].
Qed.

End One.

(* the single-channel run over the calendar queue: same channel record, same samples left, same log *)
Theorem run_over_cqueue_eq_run_over_spec n t tx mt bursts oracle k :
  n <> 0 -> t <> 0 ->
  let a := csteps current enc_ev tx mt bursts k (cinit enc_ev bursts n t oracle) in
  let b := steps current enc_ev tx mt bursts k (init enc_ev bursts oracle) in
  cch a = ch b /\ corc a = orc b /\ clog a = log b /\ (qlen (cqs a) =? 0) = match s_zero (q b) ++ s_rest (q b) with [] => true | _ => false end.
Proof.
  intros Hn Ht. cbv zeta. destruct (Rs_steps current enc_ev tx mt bursts k _ _ (Rs_init enc_ev bursts n t oracle Hn Ht)) as [H1 [H2 [H3 H4]]].
  refine (conj H1 (conj H2 (conj H3 _))). apply Rq2_empty, H4.
Qed.

(* ---- several channels ---- *)
Definition Rm (s : cmst) (s' : mst) : Prop :=
  (forall c, cchs s c = chs s' c) /\ (forall c, corcs s c = orcs s' c) /\ cmlog s = mlog s' /\ Rq2 (cmq s) (mq s').

Lemma Rm_on c (f : cst -> cst) (g : st -> st) s s' :
  (forall a b, Rs a b -> Rs (f a) (g b)) -> Rm s s' -> Rm (con c f s) (on c g s').
Proof.
  intros Hfg [Hc [Ho [Hl Hq]]].
  assert (HV : Rs (cview c s) (view c s')).
  { unfold Rs, cview, view, cinst_of, inst_of. cbn [cch ch corc orc clog log cqs q]. rewrite !Hc, Ho. repeat split. exact Hq. }
  destruct (Hfg _ _ HV) as [A1 [A2 [A3 A4]]]. unfold con, on, Rm. cbn [cback back cchs chs corcs orcs cmlog mlog cmq mq].
  refine (conj _ (conj _ (conj _ A4))).
  - intros x. unfold upd. rewrite A1, Hc. reflexivity.
  - intros x. unfold upd. rewrite A2, Ho. reflexivity.
  - rewrite A3, Hl. reflexivity.
Qed.

Section Many.
Variable inst : N -> N.
Variable txs : N -> N -> N.
Variable mts : N -> metrics.
Variable mbursts : list (N * list (N * N * N)).

Lemma Rm_offer s s' o : Rm s s' -> Rm (cmoffer inst txs mts s o) (moffer inst txs mts s' o).
Proof.
  intros HR. destruct o as [[c0 m] len]. unfold cmoffer, moffer. apply Rm_on; [|exact HR]. intros a b Hab. apply Rs_offer, Hab.
Qed.

Lemma Rm_fold offs : forall s s', Rm s s' ->
  Rm (fold_left (cmoffer inst txs mts) offs s) (fold_left (moffer inst txs mts) offs s').
Proof. induction offs as [|o offs IH]; intros s s' HR; cbn [fold_left]; [exact HR|]. apply IH, Rm_offer, HR. Qed.

Lemma Rm_step s s' :
  Rm s s' ->
  match cmstep inst txs mts mbursts s, mstep inst txs mts mbursts s' with
  | Some a, Some b => Rm a b
  | None, None => True
  | _, _ => False
  end.
Proof.
  intros HR. pose proof HR as [Hc [Ho [Hl Hq]]]. unfold cmstep, mstep. destruct (Rq2_fetch _ _ Hq) as [Eo Hq'].
  destruct (fetch_next (cmq s)) as [q1 o1]. destruct (sp_fetch (mq s')) as [q2 o2]. cbn [fst snd] in Eo, Hq'. subst o2.
  destruct o1 as [| pay time | | | | | | |]; try exact I.
  set (s1 := {| cchs := cchs s; cmq := q1; corcs := corcs s; cmlog := cmlog s |}).
  set (s1' := {| chs := chs s'; mq := q2; orcs := orcs s'; mlog := mlog s' |}).
  assert (HR1 : Rm s1 s1') by (unfold Rm; cbn [s1 s1' cchs chs corcs orcs cmlog mlog cmq mq]; repeat split; assumption).
  destruct (dec_mev pay) as [c|c m|k]; cbn [cmdispatch mdispatch].
  - unfold cmunbusy, munbusy. apply Rm_on; [|exact HR1]. intros a b Hab. apply Rs_unbusy, Hab.
  - unfold cmexit, mexit. apply Rm_on; [|exact HR1]. intros a b Hab. apply Rs_exit, Hab.
  - unfold cmwake, mwake. destruct (nth_error mbursts (N.to_nat k)) as [[t offs]|]; [apply Rm_fold|]; exact HR1.
Qed.

Lemma Rm_steps k : forall s s', Rm s s' -> Rm (cmsteps inst txs mts mbursts k s) (msteps inst txs mts mbursts k s').
Proof.
  induction k as [|k IH]; intros s s' HR; cbn [cmsteps msteps]; [exact HR|].
  pose proof (Rm_step s s' HR) as H.
  destruct (cmstep inst txs mts mbursts s) as [a|]; destruct (mstep inst txs mts mbursts s') as [b|]; [apply IH; exact H|destruct H|destruct H|exact HR].
Qed.

Lemma Rm_init n t oracles : n <> 0 -> t <> 0 -> Rm (cminit mbursts n t oracles) (minit mbursts oracles).
Proof.
  intros Hn Ht. unfold Rm. cbn [cminit minit cchs chs corcs orcs cmlog mlog cmq mq]. repeat split.
  apply Rq2_sched; [apply Rq2_new; assumption|reflexivity].
Qed.

End Many.

Lemma Rm_samples cs : forall s s', Rm s s' ->
  Rm (fold_left (fun s c => con c csample s) cs s) (fold_left (fun s c => on c sample s) cs s').
Proof.
  induction cs as [|c cs IH]; intros s s' HR; cbn [fold_left]; [exact HR|]. apply IH, Rm_on; [|exact HR].
  intros a b Hab. apply Rs_sample, Hab.
Qed.

(* the multi-channel run over the calendar queue *)
Theorem multi_over_cqueue_eq_over_spec n t txs mts mbursts oracles k :
  n <> 0 -> t <> 0 ->
  let a := cmsteps own_instance txs mts mbursts k (cminit mbursts n t oracles) in
  let b := msteps own_instance txs mts mbursts k (minit mbursts oracles) in
  (forall c, cinst_of a c = inst_of b c) /\ (forall c, corcs a c = orcs b c) /\ cmlog a = mlog b /\
  (qlen (cmq a) =? 0) = match s_zero (mq b) ++ s_rest (mq b) with [] => true | _ => false end.
Proof.
  intros Hn Ht. cbv zeta.
  destruct (Rm_steps own_instance txs mts mbursts k _ _ (Rm_init mbursts n t oracles Hn Ht)) as [H1 [H2 [H3 H4]]].
  refine (conj _ (conj H2 (conj H3 _))); [|apply Rq2_empty, H4].
  intros c. unfold cinst_of, inst_of. rewrite !H1. reflexivity.
Qed.

(* the wire-level runners print the same line for every script *)
Theorem run_cq_eq_run n t input : n <> 0 -> t <> 0 -> run_cq n t input = Multi.run input.
Proof.
  intros Hn Ht. unfold run_cq, Multi.run. destruct input as [|seed [|nl r]]; try reflexivity.
  destruct (nl =? 0); [reflexivity|].
  destruct (take_lp (skipn (7 * N.to_nat (N.max 1 (N.min nl 3))) r)) as [tb r1]. destruct (take_lp r1) as [ob r2].
  cbv zeta.
  match goal with |- context [cmsteps ?i ?tx ?mt ?bs ?k (cminit ?bs n t ?o)] =>
    pose proof (Rm_steps i tx mt bs k _ _ (Rm_init bs n t o Hn Ht)) as HR end.
  match type of HR with Rm ?a ?b =>
    pose proof (Rm_samples (map N.of_nat (seq 0 (N.to_nat (2 * N.max 1 (N.min nl 3))))) a b HR) as [_ [_ [Hl Hq]]] end.
  rewrite Hl, (Rq2_empty _ _ Hq).
  match goal with |- context [match ?l with [] => [] | _ :: _ => [9] end] => destruct l end; reflexivity.
Qed.
