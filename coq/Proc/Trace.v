(* Every bracket of every run is well formed, and the flat call log of a run is a
   concatenation of single-module brackets (with Module::reset records between them). *)
From Coq Require Import List NArith PArith Bool Lia.
From DesVerif Require Import Common.Fuel Proc.Model Proc.Shape.
Import ListNotations.
Open Scope N_scope.

Definition item_ok (sc : script) (it : item) : Prop :=
  match it with IBrk b => brk_ok (cfg sc (b_mod b)) b | IReset _ => True end.

Definition items_ok (sc : script) (its : list item) : Prop := Forall (item_ok sc) its.

Lemma run_bracket_item sc now m woken k s :
  item_ok sc (IBrk (snd (run_bracket now m (cfg sc m) woken k s))).
Proof.
  cbn [item_ok]. pose proof (run_bracket_ok now m (cfg sc m) woken k s) as H.
  unfold run_bracket in *. cbn [snd b_mod] in *. exact H.
Qed.

Lemma finish_event_items sc w m x s its wake :
  items_ok sc its -> items_ok sc (snd (finish_event w m x s its wake)).
Proof.
  intros H. unfold finish_event. destruct (shut s); cbn [snd]; [|exact H].
  apply Forall_app; split; [exact H|constructor; [exact I|constructor]].
Qed.

Lemma module_restart_items sc now m : forall l s acc,
  Forall (fun b => item_ok sc (IBrk b)) acc ->
  Forall (fun b => item_ok sc (IBrk b))
    (snd (fold_left (fun acc stage => if dead (fst acc) then acc else
                       let '(s1, b) := at_sim_start now m (cfg sc m) false stage (fst acc) in (s1, snd acc ++ [b]))
                    l (s, acc))).
Proof.
  induction l as [|st l IH]; intros s acc Hacc; cbn [fold_left]; [exact Hacc|].
  cbn [fst snd]. destruct (dead s); [apply IH, Hacc|].
  change (at_sim_start now m (cfg sc m) false st s) with (run_bracket now m (cfg sc m) false (KStart st) s).
  pose proof (run_bracket_item sc now m false (KStart st) s) as Hb.
  destruct (run_bracket now m (cfg sc m) false (KStart st) s) as [s1 b]. cbn [snd] in Hb.
  apply IH. apply Forall_app; split; [exact Hacc|constructor; [exact Hb|constructor]].
Qed.

Lemma process_items sc w t ev : items_ok sc (snd (process sc w t ev)).
Proof.
  unfold process. destruct ev as [chk dst x|m x|m|m].
  - cbn [snd]. constructor.
  - destruct (activate t (mstate w m)) as [woken ms]. destruct (active ms); [|constructor].
    unfold handle_message. pose proof (run_bracket_item sc t m woken (KMsg x) (es0 (w_bud w))) as Hb.
    destruct (run_bracket t m (cfg sc m) woken (KMsg x) (es0 (w_bud w))) as [s b]. cbn [snd] in Hb.
    apply finish_event_items. constructor; [exact Hb|constructor].
  - destruct (activate t (mstate w m)) as [woken ms]. destruct (active ms); [|constructor].
    unfold async_wakeup. pose proof (run_bracket_item sc t m woken KWake (es0 (w_bud w))) as Hb.
    destruct (run_bracket t m (cfg sc m) woken KWake (es0 (w_bud w))) as [s b]. cbn [snd] in Hb.
    apply finish_event_items. constructor; [exact Hb|constructor].
  - destruct (activate t (mstate w m)) as [woken ms].
    pose proof (module_restart_items sc t m (stage_list (h_stages (m_handler (cfg sc m)))) (es0 (w_bud w)) [] (Forall_nil _)) as Hb.
    unfold module_restart.
    destruct (fold_left _ (stage_list (h_stages (m_handler (cfg sc m)))) (es0 (w_bud w), [])) as [s bs]. cbn [snd] in Hb.
    apply finish_event_items. unfold items_ok. rewrite Forall_map. exact Hb.
Qed.

Lemma start_one_items sc stage m acc : items_ok sc (snd acc) -> items_ok sc (snd (start_one sc stage m acc)).
Proof.
  intros H. unfold start_one. destruct acc as [w its]. cbn [snd] in H.
  destruct ((stage <? h_stages (m_handler (cfg sc m))) && active (mstate w m)); [|exact H].
  destruct (activate 0 (mstate w m)) as [woken ms]. unfold at_sim_start.
  pose proof (run_bracket_item sc 0 m woken (KStart stage) (es0 (w_bud w))) as Hb.
  destruct (run_bracket 0 m (cfg sc m) woken (KStart stage) (es0 (w_bud w))) as [s b]. cbn [snd] in Hb.
  match goal with |- context [finish_event ?a ?b ?c ?d ?e ?f] =>
    pose proof (finish_event_items sc a b c d e f) as Hf; destruct (finish_event a b c d e f) as [w' new] end.
  cbn [snd] in *. apply Forall_app; split; [exact H|]. apply Hf. constructor; [exact Hb|constructor].
Qed.

Lemma sim_start_items sc w : items_ok sc (snd (sim_start sc w)).
Proof.
  unfold sim_start.
  set (l := stage_list _). clearbody l.
  assert (G : forall acc, items_ok sc (snd acc) ->
     items_ok sc (snd (fold_left (fun acc stage => start_one sc stage 1 (start_one sc stage 0 acc)) l acc))).
  { induction l as [|st l IH]; intros acc Hacc; cbn [fold_left]; [exact Hacc|].
    apply IH. apply start_one_items, start_one_items, Hacc. }
  apply G. constructor.
Qed.

Lemma end_one_items sc now m acc : items_ok sc (snd acc) -> items_ok sc (snd (end_one sc now m acc)).
Proof.
  intros H. unfold end_one. destruct acc as [w its]. cbn [snd] in H.
  destruct (activate now (mstate w m)) as [woken ms]. unfold at_sim_end.
  pose proof (run_bracket_item sc now m woken KEnd (es0 (w_bud w))) as Hb.
  destruct (run_bracket now m (cfg sc m) woken KEnd (es0 (w_bud w))) as [s b]. cbn [snd] in *.
  apply Forall_app; split; [exact H|constructor; [exact Hb|constructor]].
Qed.

Lemma sim_end_items sc now w : items_ok sc (snd (sim_end sc now w)).
Proof. unfold sim_end. apply end_one_items, end_one_items. constructor. Qed.

(* ---- the main loop ---- *)
Definition st_items (st : lstate) : list item := snd st.

Lemma loop_step_items sc st :
  items_ok sc (st_items st) ->
  match loop_step sc st with inl st' => items_ok sc (st_items st') | inr st' => items_ok sc (st_items st') end.
Proof.
  intros H. unfold loop_step. destruct st as [[w now] its]. unfold st_items in *. cbn [snd] in H.
  destruct (fes_fetch (w_fes w)) as [[[t ev] f]|]; [|exact H].
  pose proof (process_items sc (set_fes w f) t ev) as Hp.
  destruct (process sc (set_fes w f) t ev) as [w' new]. cbn [snd] in *.
  apply Forall_app; split; assumption.
Qed.

Lemma iter_nat_inv {A} (P : A -> Prop) (f : A -> A + A) :
  (forall a, P a -> match f a with inl a' => P a' | inr a' => P a' end) ->
  forall k a, P a -> match iter_nat k f a with inl a' => P a' | inr a' => P a' end.
Proof.
  intros Hf. induction k as [|k IH]; intros a Ha; cbn [iter_nat]; [exact Ha|].
  specialize (Hf a Ha). destruct (f a) as [a'|a']; [apply IH; exact Hf|exact Hf].
Qed.

Theorem trace_ok sc : items_ok sc (trace sc).
Proof.
  unfold trace, run_script.
  pose proof (sim_start_items sc (init_world sc)) as H0.
  destruct (sim_start sc (init_world sc)) as [w0 its0]. cbn [snd] in H0.
  rewrite iter_until_nat.
  pose proof (iter_nat_inv (fun st => items_ok sc (st_items st)) (loop_step sc) (loop_step_items sc)
                (Pos.to_nat (fuel sc)) (w0, 0, its0) H0) as H.
  destruct (iter_nat (Pos.to_nat (fuel sc)) (loop_step sc) (w0, 0, its0)) as [[[w now] its]|[[w now] its]];
    unfold st_items in H; cbn [snd fst] in *; [exact H|].
  apply Forall_app; split; [exact H|apply sim_end_items].
Qed.

(* ---- the flat log is a sequence of brackets ---- *)
Inductive Brackets (sc : script) : list entry -> Prop :=
| Br_nil : Brackets sc []
| Br_brk b rest : brk_ok (cfg sc (b_mod b)) b -> Brackets sc rest -> Brackets sc (b_log b ++ rest)
| Br_reset m rest : Brackets sc rest -> Brackets sc (mk m Handler HReset :: rest).

Lemma items_brackets sc its : items_ok sc its -> Brackets sc (flat_map item_log its).
Proof.
  induction 1 as [|it its Hit _ IH]; cbn [flat_map]; [constructor|].
  destruct it as [b|m]; cbn [item_log].
  - apply Br_brk; assumption.
  - apply Br_reset. exact IH.
Qed.

Theorem flat_log_brackets sc : Brackets sc (flat_log sc).
Proof. apply items_brackets, trace_ok. Qed.

Theorem bracket_in_trace sc b : In (IBrk b) (trace sc) -> brk_ok (cfg sc (b_mod b)) b.
Proof. intros H. exact (proj1 (Forall_forall _ _) (trace_ok sc) _ H). Qed.
