(* Forward simulation between the event loop of Proc/Model.v (over the two-list event-set
   specification [fes]) and the generic event loop of Proc/ModelCq.v over ANY event-set
   implementation whose add and fetch simulate [fes_add] / [fes_fetch] (for adds that are not
   before the set's clock -- every add of the model is of that kind, which is proved here
   along the way).  Result: both loops produce the same trace. *)
From Coq Require Import List NArith PArith Bool Lia.
From DesVerif Require Import Common.Fuel Proc.Model Proc.Shape Proc.Emit Proc.Trace Proc.Order Proc.ModelCq.
Import ListNotations.
Open Scope N_scope.

(* ---- every add of an event is at or after the time of that event ---- *)
Lemma shut_of_ge now l : forall init,
  (forall rt, init = Some (Some rt) -> now <= rt) ->
  forall rt, shut_of now l init = Some (Some rt) -> now <= rt.
Proof.
  unfold shut_of. induction l as [|e l IH]; intros init Hi rt H; cbn [fold_left] in H; [apply Hi, H|].
  apply (IH _) in H; [exact H|]. destruct (en_hook e); try exact Hi.
  intros rt' E. destruct restart as [d|]; [|discriminate]. injection E as <-. lia.
Qed.

Lemma run_bracket_bounds now m c woken k b0 :
  let r := run_bracket now m c woken k (es0 b0) in
  Forall (fun p => now <= fst p) (buf (fst r)) /\ (forall rt, shut (fst r) = Some (Some rt) -> now <= rt).
Proof.
  cbn zeta. destruct (run_bracket_buf now m c woken k (es0 b0)) as (Hb & Hs & _). cbn [es0 buf shut dead app] in Hb, Hs.
  rewrite Hb, Hs. split; [apply pend_from_times|apply shut_of_ge; discriminate].
Qed.

Lemma module_restart_bounds now m c b0 :
  let r := module_restart now m c (es0 b0) in
  Forall (fun p => now <= fst p) (buf (fst r)) /\ (forall rt, shut (fst r) = Some (Some rt) -> now <= rt).
Proof.
  cbn zeta. unfold module_restart.
  destruct (module_restart_buf now m c (stage_list (h_stages (m_handler c))) (es0 b0) []) as (new & _ & Hb & Hs & _).
  cbn [es0 buf shut dead app] in Hb, Hs. rewrite Hb, Hs. split; [apply pend_from_times|apply shut_of_ge; discriminate].
Qed.

Lemma finish_event_tcur w m x s its wake : f_tcur (w_fes (fst (finish_event w m x s its wake))) = f_tcur (w_fes w).
Proof.
  unfold finish_event. destruct (shut s) as [[rt|]|]; cbn [fst]; rewrite w_fes_set_mst; cbn [w_fes];
    rewrite ?fes_add_tcur, flush_tcur; destruct wake; rewrite ?fes_add_tcur; reflexivity.
Qed.

Section Sim.
Variable Q : Type.
Variable q_add : N -> fev -> Q -> Q.
Variable q_fetch : Q -> option (N * fev * Q).
Variable RQ : fes -> Q -> Prop.
Hypothesis H_add : forall f q t e, RQ f q -> f_tcur f <= t -> RQ (fes_add t e f) (q_add t e q).
Hypothesis H_fetch : forall f q, RQ f q -> fes_wf f ->
  match fes_fetch f with
  | Some (t, e, f') => exists q', q_fetch q = Some (t, e, q') /\ RQ f' q'
  | None => q_fetch q = None
  end.

Notation gw := (gworld Q).

Definition Rel (w : world) (g : gw) : Prop :=
  RQ (w_fes w) (g_q g) /\ w_bud w = g_bud g /\ w_m0 w = g_m0 g /\ w_m1 w = g_m1 g.

Lemma Rel_mstate w g m : Rel w g -> mstate w m = gmstate Q g m.
Proof. intros (_ & _ & E0 & E1). unfold mstate, gmstate. destruct (m =? 0); assumption. Qed.

Lemma Rel_set_mst w g m x : Rel w g -> Rel (set_mst w m x) (gset_mst Q g m x).
Proof.
  intros (HQ & Eb & E0 & E1). unfold set_mst, gset_mst, Rel. destruct (m =? 0); cbn; auto.
Qed.

Lemma flush_sim ps : forall f q, RQ f q -> Forall (fun p => f_tcur f <= fst p) ps ->
  RQ (fes_flush ps f) (q_flush Q q_add ps q).
Proof.
  induction ps as [|p ps IH]; intros f q HQ Hall; cbn [fes_flush q_flush fold_left]; [exact HQ|].
  inversion Hall as [|? ? Hp Hps]; subst. apply IH; [apply H_add; assumption|].
  rewrite fes_add_tcur. exact Hps.
Qed.

Lemma finish_event_sim w g m x s its wake :
  Rel w g ->
  (forall d, wake = Some d -> f_tcur (w_fes w) <= d) ->
  Forall (fun p => f_tcur (w_fes w) <= fst p) (buf s) ->
  (forall rt, shut s = Some (Some rt) -> f_tcur (w_fes w) <= rt) ->
  Rel (fst (finish_event w m x s its wake)) (fst (gfinish_event Q q_add g m x s its wake)) /\
  snd (finish_event w m x s its wake) = snd (gfinish_event Q q_add g m x s its wake).
Proof.
  intros (HQ & Eb & E0 & E1) Hw Hbuf Hsh. unfold finish_event, gfinish_event.
  set (f0 := match wake with Some d => fes_add d (EvWake m) (w_fes w) | None => w_fes w end).
  set (q0 := match wake with Some d => q_add d (EvWake m) (g_q g) | None => g_q g end).
  assert (H0 : RQ f0 q0 /\ f_tcur f0 = f_tcur (w_fes w)).
  { unfold f0, q0. destruct wake as [d|]; [|split; [exact HQ|reflexivity]].
    split; [apply H_add; [exact HQ|apply Hw; reflexivity]|apply fes_add_tcur]. }
  destruct H0 as [HQ0 T0].
  assert (H1 : RQ (fes_flush (buf s) f0) (q_flush Q q_add (buf s) q0)) by (apply flush_sim; [exact HQ0|rewrite T0; exact Hbuf]).
  destruct (shut s) as [[rt|]|]; cbn [fst snd]; (split; [|reflexivity]); apply Rel_set_mst; unfold Rel; cbn [w_fes w_bud w_m0 w_m1 g_q g_bud g_m0 g_m1];
    repeat split; try assumption; try reflexivity.
  apply H_add; [exact H1|]. rewrite flush_tcur, T0. apply Hsh. reflexivity.
Qed.

Lemma bounds_weaken (lo now : N) (l : list (N * fev)) :
  lo <= now -> Forall (fun p => now <= fst p) l -> Forall (fun p => lo <= fst p) l.
Proof. intros Hl. apply Forall_impl. intros p Hp. lia. Qed.

Lemma process_sim sc w g t ev :
  Rel w g -> f_tcur (w_fes w) <= t ->
  Rel (fst (process sc w t ev)) (fst (gprocess Q q_add sc g t ev)) /\
  snd (process sc w t ev) = snd (gprocess Q q_add sc g t ev).
Proof.
  intros HRel Ht. pose proof HRel as (HQ & Eb & E0 & E1). unfold process, gprocess.
  destruct ev as [chk dst x|m x|m|m].
  - assert (Eok : match chk with Some src => active (mstate w src) | None => true end =
                  match chk with Some src => active (gmstate Q g src) | None => true end)
      by (destruct chk; [rewrite (Rel_mstate w g _ HRel)|]; reflexivity).
    rewrite <- Eok. destruct (match chk with Some src => active (mstate w src) | None => true end); cbn [fst snd];
      (split; [|reflexivity]); [|exact HRel].
    unfold Rel. cbn [set_fes gset_q w_fes w_bud w_m0 w_m1 g_q g_bud g_m0 g_m1]. repeat split; try assumption.
    apply H_add; assumption.
  - rewrite <- (Rel_mstate w g m HRel), <- Eb. destruct (activate t (mstate w m)) as [woken ms].
    destruct (active ms); [|cbn [fst snd]; split; [apply Rel_set_mst, HRel|reflexivity]].
    unfold handle_message. destruct (run_bracket_bounds t m (cfg sc m) woken (KMsg x) (w_bud w)) as [B1 B2].
    destruct (run_bracket t m (cfg sc m) woken (KMsg x) (es0 (w_bud w))) as [s b]. cbn [fst] in B1, B2.
    apply finish_event_sim; [exact HRel|discriminate|eapply bounds_weaken; eassumption|].
    intros rt Hr. specialize (B2 rt Hr). lia.
  - rewrite <- (Rel_mstate w g m HRel), <- Eb. destruct (activate t (mstate w m)) as [woken ms].
    destruct (active ms); [|cbn [fst snd]; split; [apply Rel_set_mst, HRel|reflexivity]].
    unfold async_wakeup. destruct (run_bracket_bounds t m (cfg sc m) woken KWake (w_bud w)) as [B1 B2].
    destruct (run_bracket t m (cfg sc m) woken KWake (es0 (w_bud w))) as [s b]. cbn [fst] in B1, B2.
    apply finish_event_sim; [exact HRel|discriminate|eapply bounds_weaken; eassumption|].
    intros rt Hr. specialize (B2 rt Hr). lia.
  - rewrite <- (Rel_mstate w g m HRel), <- Eb. destruct (activate t (mstate w m)) as [woken ms].
    destruct (module_restart_bounds t m (cfg sc m) (w_bud w)) as [B1 B2].
    destruct (module_restart t m (cfg sc m) (es0 (w_bud w))) as [s bs]. cbn [fst] in B1, B2.
    apply finish_event_sim; [exact HRel|discriminate|eapply bounds_weaken; eassumption|].
    intros rt Hr. specialize (B2 rt Hr). lia.
Qed.

(* ---- start-up: everything happens at time 0 and the set's clock is 0 ---- *)
Definition Rel0 (a : world * list item) (b : gw * list item) : Prop :=
  Rel (fst a) (fst b) /\ snd a = snd b /\ f_tcur (w_fes (fst a)) = 0.

Lemma start_one_sim sc stage m a b : Rel0 a b -> Rel0 (start_one sc stage m a) (gstart_one Q q_add sc stage m b).
Proof.
  intros (HRel & Ei & T0). destruct a as [w its], b as [g its']. cbn [fst snd] in *. subst its'.
  pose proof HRel as (HQ & Eb & E0 & E1). unfold start_one, gstart_one.
  rewrite <- (Rel_mstate w g m HRel), <- Eb.
  destruct ((stage <? h_stages (m_handler (cfg sc m))) && active (mstate w m)); [|split; [exact HRel|split; [reflexivity|exact T0]]].
  destruct (activate 0 (mstate w m)) as [woken ms]. unfold at_sim_start.
  destruct (run_bracket_bounds 0 m (cfg sc m) woken (KStart stage) (w_bud w)) as [B1 B2].
  destruct (run_bracket 0 m (cfg sc m) woken (KStart stage) (es0 (w_bud w))) as [s b]. cbn [fst] in B1, B2.
  set (reg := timer_reg 0 (cfg sc m) stage).
  set (ms' := match reg with Some d => {| active := active ms; timer := Some d |} | None => ms end).
  assert (S : Rel (fst (finish_event w m ms' s [IBrk b] reg)) (fst (gfinish_event Q q_add g m ms' s [IBrk b] reg)) /\
              snd (finish_event w m ms' s [IBrk b] reg) = snd (gfinish_event Q q_add g m ms' s [IBrk b] reg)).
  { apply finish_event_sim; [exact HRel|intros; lia|rewrite T0; exact B1|intros; lia]. }
  pose proof (finish_event_tcur w m ms' s [IBrk b] reg) as Tc.
  destruct (finish_event w m ms' s [IBrk b] reg) as [w' new], (gfinish_event Q q_add g m ms' s [IBrk b] reg) as [g' new'].
  cbn [fst snd] in *. destruct S as [S1 S2]. subst new'. unfold Rel0. cbn [fst snd]. split; [exact S1|split; [reflexivity|rewrite Tc; exact T0]].
Qed.

Lemma sim_start_sim sc w g : Rel w g -> f_tcur (w_fes w) = 0 -> Rel0 (sim_start sc w) (gsim_start Q q_add sc g).
Proof.
  intros HRel T0. unfold sim_start, gsim_start.
  assert (G : forall l a b, Rel0 a b ->
    Rel0 (fold_left (fun acc stage => start_one sc stage 1 (start_one sc stage 0 acc)) l a)
         (fold_left (fun acc stage => gstart_one Q q_add sc stage 1 (gstart_one Q q_add sc stage 0 acc)) l b)).
  { induction l as [|st l IH]; intros a b H; cbn [fold_left]; [exact H|]. apply IH, start_one_sim, start_one_sim, H. }
  apply G. split; [exact HRel|split; [reflexivity|exact T0]].
Qed.

(* ---- tear-down does not touch the event set ---- *)
Lemma end_one_sim sc now m a b :
  Rel (fst a) (fst b) -> snd a = snd b ->
  Rel (fst (end_one sc now m a)) (fst (gend_one Q sc now m b)) /\ snd (end_one sc now m a) = snd (gend_one Q sc now m b).
Proof.
  destruct a as [w its], b as [g its']. cbn [fst snd]. intros HRel <-. pose proof HRel as (HQ & Eb & E0 & E1).
  unfold end_one, gend_one. rewrite <- (Rel_mstate w g m HRel), <- Eb.
  destruct (activate now (mstate w m)) as [woken ms].
  destruct (at_sim_end now m (cfg sc m) woken (es0 (w_bud w))) as [s b]. cbn [fst snd]. split; [|reflexivity].
  apply Rel_set_mst. unfold Rel. cbn. auto.
Qed.

Lemma sim_end_sim sc now w g : Rel w g -> snd (sim_end sc now w) = snd (gsim_end Q sc now g).
Proof.
  intros HRel. unfold sim_end, gsim_end.
  destruct (end_one_sim sc now 0 (w, []) (g, []) HRel eq_refl) as [H1 H2].
  apply (end_one_sim sc now 1 _ _ H1 H2).
Qed.

(* ---- the main loop ---- *)
Definition RelL (a : lstate) (b : glstate Q) : Prop :=
  Rel (fst (fst a)) (fst (fst b)) /\ snd (fst a) = snd (fst b) /\ snd a = snd b /\ fes_wf (w_fes (fst (fst a))).

Definition RelS (a : lstate + lstate) (b : glstate Q + glstate Q) : Prop :=
  match a, b with inl x, inl y => RelL x y | inr x, inr y => RelL x y | _, _ => False end.

Lemma loop_step_sim sc a b : RelL a b -> RelS (loop_step sc a) (gloop_step Q q_add q_fetch sc b).
Proof.
  destruct a as [[w now] its], b as [[g now'] its']. unfold RelL. cbn [fst snd]. intros (HRel & <- & <- & Hwf).
  pose proof HRel as (HQ & Eb & E0 & E1). unfold loop_step, gloop_step.
  pose proof (H_fetch _ _ HQ Hwf) as HF.
  destruct (fes_fetch (w_fes w)) as [[[t ev] f]|] eqn:Ef.
  - destruct HF as (q' & -> & HQ'). destruct (fes_fetch_wf _ _ _ _ Hwf Ef) as [Hwf' Tc].
    assert (HRel' : Rel (set_fes w f) (gset_q Q g q')) by (unfold Rel; cbn; auto).
    destruct (process_sim sc (set_fes w f) (gset_q Q g q') t ev HRel') as [P1 P2]; [cbn [set_fes w_fes]; lia|].
    pose proof (process_wf sc (set_fes w f) t ev Hwf') as Hw2.
    destruct (process sc (set_fes w f) t ev) as [w' new], (gprocess Q q_add sc (gset_q Q g q') t ev) as [g' new'].
    cbn [fst snd RelS] in *. subst new'. unfold RelL. cbn [fst snd]. auto.
  - rewrite HF. cbn [RelS]. unfold RelL. cbn [fst snd]. auto.
Qed.

Lemma iter_sim sc k : forall a b, RelL a b ->
  RelS (iter_nat k (loop_step sc) a) (iter_nat k (gloop_step Q q_add q_fetch sc) b).
Proof.
  induction k as [|k IH]; intros a b H; cbn [iter_nat]; [exact H|].
  pose proof (loop_step_sim sc a b H) as S.
  destruct (loop_step sc a) as [a'|a'], (gloop_step Q q_add q_fetch sc b) as [b'|b']; cbn [RelS] in S; try contradiction.
  - apply IH, S.
  - exact S.
Qed.

Theorem run_script_sim q0 sc :
  RQ {| f_tcur := 0; f_zero := []; f_rest := [] |} q0 ->
  grun_script Q q_add q_fetch q0 sc = run_script sc.
Proof.
  intros H0. unfold grun_script, run_script.
  assert (HRel : Rel (init_world sc) (ginit_world Q q_add q0 sc)).
  { unfold Rel, init_world, ginit_world. cbn [w_fes w_bud w_m0 w_m1 g_q g_bud g_m0 g_m1]. repeat split.
    apply flush_sim; [exact H0|]. cbn [f_tcur]. apply Forall_forall. intros; lia. }
  assert (T0 : f_tcur (w_fes (init_world sc)) = 0) by (unfold init_world; cbn [w_fes]; apply flush_tcur).
  destruct (sim_start_sim sc _ _ HRel T0) as (S1 & S2 & _).
  pose proof (sim_start_wf sc (init_world sc) (init_world_wf sc)) as Hwf.
  destruct (sim_start sc (init_world sc)) as [w0 its0], (gsim_start Q q_add sc (ginit_world Q q_add q0 sc)) as [g0 its0'].
  cbn [fst snd] in *. subst its0'. rewrite !iter_until_nat.
  pose proof (iter_sim sc (Pos.to_nat (fuel sc)) (w0, 0, its0) (g0, 0, its0)) as HI.
  assert (HL : RelL (w0, 0, its0) (g0, 0, its0)) by (unfold RelL; cbn [fst snd]; auto).
  specialize (HI HL).
  destruct (iter_nat (Pos.to_nat (fuel sc)) (loop_step sc) (w0, 0, its0)) as [[[w now] its]|[[w now] its]],
           (iter_nat (Pos.to_nat (fuel sc)) (gloop_step Q q_add q_fetch sc) (g0, 0, its0)) as [[[g now'] its']|[[g now'] its']];
    cbn [RelS] in HI; try contradiction; unfold RelL in HI; cbn [fst snd] in HI; destruct HI as (R1 & <- & <- & _).
  - reflexivity.
  - rewrite (sim_end_sim sc now w g R1). reflexivity.
Qed.
End Sim.
