(* Messages sent during an event enter the event set in program order: the events that
   [process] adds to the event set are exactly the images of the send records of the
   event's call log, added in log order (followed by the restart event when the handler
   asked for a shutdown with restart). *)
From Coq Require Import List NArith Bool Lia.
From DesVerif Require Import Proc.Model Proc.Shape.
Import ListNotations.
Open Scope N_scope.

(* the event a send record stands for, when the send happens at time [now] *)
Definition pend1 (now : N) (e : entry) : list (N * fev) :=
  match en_hook e with
  | HSched d i => [(now + d, EvDeliver (en_mod e) i)]
  | HSend d i => [if d =? 0 then (now, EvDeliver (peer (en_mod e)) i)
                  else (now + d, EvExit (Some (en_mod e)) (peer (en_mod e)) i)]
  | _ => []
  end.
(* After a caught panic the module is inactive: what it still sends to the peer without delay
   is dropped at its own gate (MessageExitingConnection::handle_with_sink), everything else
   is buffered as before. *)
Definition is_panic_e (e : entry) : bool := match en_hook e with HPanic => true | _ => false end.
Definition inline_send (e : entry) : bool := match en_hook e with HSend d _ => d =? 0 | _ => false end.
Definition has_panic (l : list entry) : bool := existsb is_panic_e l.

Fixpoint pend_from (now : N) (dd : bool) (l : list entry) : list (N * fev) :=
  match l with
  | [] => []
  | e :: r => (if dd && inline_send e then [] else pend1 now e) ++ pend_from now (dd || is_panic_e e) r
  end.
Definition pend_of (now : N) (l : list entry) : list (N * fev) := pend_from now false l.

(* the shutdown request standing at the end of a log (the last one wins) *)
Definition shut_of (now : N) (l : list entry) (init : option (option N)) : option (option N) :=
  fold_left (fun acc e => match en_hook e with
                          | HShut r => Some (match r with Some d => Some (now + d) | None => None end)
                          | _ => acc end) l init.

Lemma pend_from_app now : forall a b dd,
  pend_from now dd (a ++ b) = pend_from now dd a ++ pend_from now (dd || has_panic a) b.
Proof.
  induction a as [|e a IH]; intros b dd; cbn [app pend_from has_panic existsb].
  - rewrite orb_false_r. reflexivity.
  - rewrite IH, <- app_assoc, orb_assoc. reflexivity.
Qed.

Lemma has_panic_app a b : has_panic (a ++ b) = has_panic a || has_panic b.
Proof. apply existsb_app. Qed.

Lemma shut_of_app now a b i : shut_of now (a ++ b) i = shut_of now b (shut_of now a i).
Proof. apply fold_left_app. Qed.

Definition ExtB (now : N) (s s' : es) : Prop :=
  exists suf, lg s' = lg s ++ suf /\ buf s' = buf s ++ pend_from now (dead s) suf /\
              shut s' = shut_of now suf (shut s) /\ dead s' = dead s || has_panic suf.

Lemma ExtB_refl now s : ExtB now s s.
Proof. exists []. cbn. rewrite !app_nil_r, orb_false_r. auto. Qed.

Lemma ExtB_trans now s1 s2 s3 : ExtB now s1 s2 -> ExtB now s2 s3 -> ExtB now s1 s3.
Proof.
  intros (a & La & Ba & Sa & Da) (b & Lb & Bb & Sb & Db). exists (a ++ b).
  rewrite Lb, La, Bb, Ba, Sb, Sa, Db, Da, pend_from_app, shut_of_app, has_panic_app, !app_assoc, orb_assoc. auto.
Qed.

Lemma ExtB_say now m w h s : is_call (mk m w h) = true -> ExtB now s (say m w h s).
Proof.
  intros Hc. exists [mk m w h]. cbn [say lg buf shut dead]. split; [reflexivity|].
  unfold is_call in Hc. cbn [en_hook mk] in Hc.
  cbn [pend_from]. unfold has_panic, is_panic_e, inline_send, pend1, shut_of. cbn [existsb fold_left en_hook mk].
  destruct h; try discriminate; rewrite ?andb_false_r, ?app_nil_r, ?orb_false_r; auto.
Qed.

Lemma ExtB_emit1 now m w e s : ExtB now s (emit1 now m w e s).
Proof.
  unfold emit1. destruct (bud s =? 0); [apply ExtB_refl|].
  eexists. cbn [lg buf shut dead]. split; [reflexivity|].
  cbn [pend_from]. unfold has_panic, is_panic_e, inline_send, pend1, shut_of, pending. cbn [existsb fold_left en_hook en_mod].
  destruct (e_peer e), (dead s), (e_delay e =? 0); cbn [andb orb app]; rewrite ?app_nil_r; auto.
Qed.

Lemma ExtB_emits now m w l : forall s, ExtB now s (emits now m w l s).
Proof.
  unfold emits. induction l as [|e l IH]; intros s; cbn [fold_left]; [apply ExtB_refl|].
  eapply ExtB_trans; [apply ExtB_emit1|apply IH].
Qed.

Lemma ExtB_say_emits now m w h l s : is_call (mk m w h) = true -> ExtB now s (emits now m w l (say m w h s)).
Proof. intros Hc. eapply ExtB_trans; [apply ExtB_say, Hc|apply ExtB_emits]. Qed.

Lemma ExtB_panic_if now b m s : ExtB now s (panic_if b m s).
Proof.
  unfold panic_if. destruct b; [|apply ExtB_refl].
  exists [mk m Handler HPanic]. cbn [lg buf shut dead say]. split; [reflexivity|].
  cbn. rewrite andb_false_r, app_nil_r, orb_true_r. auto.
Qed.

Lemma ExtB_upstream now m : forall els i msg s, ExtB now s (snd (incoming_upstream now m i els msg s)).
Proof.
  induction els as [|e r IH]; intros i msg s; cbn [incoming_upstream snd]; [apply ExtB_refl|].
  destruct msg as [x|].
  - eapply ExtB_trans; [|apply IH]. eapply ExtB_trans; apply ExtB_say_emits; reflexivity.
  - eapply ExtB_trans; [|apply IH]. apply ExtB_say_emits; reflexivity.
Qed.

Lemma ExtB_downstream now m : forall els i s, ExtB now s (incoming_downstream now m i els s).
Proof.
  induction els as [|e r IH]; intros i s; cbn [incoming_downstream]; [apply ExtB_refl|].
  eapply ExtB_trans; [apply IH|apply ExtB_say_emits; reflexivity].
Qed.

Lemma ExtB_handler_part now m h k msg s : ExtB now s (handler_part now m h k msg s).
Proof.
  destruct k as [x| |st|]; cbn [handler_part]; try apply ExtB_refl.
  2: { eapply ExtB_trans; [apply (ExtB_say_emits now m Handler (HSimStart st now)); reflexivity|apply ExtB_panic_if]. }
  2: { eapply ExtB_trans; [apply (ExtB_say_emits now m Handler (HSimEnd now)); reflexivity|apply ExtB_panic_if]. }
  destruct msg as [y|]; [|apply ExtB_refl].
  set (s1 := emits now m Handler (h_msg h) (say m Handler (HHandle y now) s)).
  assert (E1 : ExtB now s s1) by (apply ExtB_say_emits; reflexivity).
  destruct (h_extra h) as [|d|trig r pan|site trig since]; try (eapply ExtB_trans; [exact E1|apply ExtB_panic_if]).
  destruct (y =? trig); [|exact E1].
  eapply ExtB_trans; [exact E1|].
  exists [mk m Handler (HShut r)]. cbn [lg buf shut dead say]. split; [reflexivity|].
  cbn. rewrite andb_false_r, app_nil_r, orb_false_r. auto.
Qed.

Lemma ExtB_poll_tasks now m h woken s : ExtB now s (poll_tasks now m h woken s).
Proof. unfold poll_tasks. destruct woken; [apply ExtB_say_emits; reflexivity|apply ExtB_refl]. Qed.

Lemma ExtB_bracket now m c woken k s : ExtB now s (bracket now m c woken k s).
Proof.
  unfold bracket.
  pose proof (ExtB_upstream now m (m_stack c) 0%nat (match k with KMsg x => Some x | _ => None end) s) as E1.
  destruct (incoming_upstream now m 0 (m_stack c) (match k with KMsg x => Some x | _ => None end) s) as [msg s1].
  cbn [snd] in E1. eapply ExtB_trans; [exact E1|]. eapply ExtB_trans; [apply ExtB_handler_part|].
  eapply ExtB_trans; [apply ExtB_poll_tasks|apply ExtB_downstream].
Qed.

(* one bracket: what it buffered is what its log says *)
Lemma run_bracket_buf now m c woken k s :
  let r := run_bracket now m c woken k s in
  buf (fst r) = buf s ++ pend_from now (dead s) (b_log (snd r)) /\
  shut (fst r) = shut_of now (b_log (snd r)) (shut s) /\
  dead (fst r) = dead s || has_panic (b_log (snd r)).
Proof.
  unfold run_bracket. cbn [fst snd b_log].
  destruct (ExtB_bracket now m c woken k {| lg := []; buf := buf s; bud := bud s; shut := shut s; dead := dead s |})
    as (suf & Hl & Hb & Hs & Hd).
  cbn [lg buf shut dead app] in *. rewrite Hl. auto.
Qed.

Definition brks_log (bs : list brk) : list entry := flat_map b_log bs.

Lemma module_restart_buf now m c : forall l s acc,
  let r := fold_left (fun acc stage => if dead (fst acc) then acc else
                        let '(s1, b) := at_sim_start now m c false stage (fst acc) in (s1, snd acc ++ [b])) l (s, acc) in
  exists new, snd r = acc ++ new /\
    buf (fst r) = buf s ++ pend_from now (dead s) (brks_log new) /\
    shut (fst r) = shut_of now (brks_log new) (shut s) /\
    dead (fst r) = dead s || has_panic (brks_log new).
Proof.
  induction l as [|st l IH]; intros s acc; cbn [fold_left].
  - exists []. cbn. rewrite !app_nil_r, orb_false_r. auto.
  - cbn [fst snd]. destruct (dead s) eqn:Hd.
    + destruct (IH s acc) as (new & Hn & Hb & Hs & Hd'). rewrite Hd in Hb, Hd'. exists new. auto.
    + change (at_sim_start now m c false st s) with (run_bracket now m c false (KStart st) s).
      pose proof (run_bracket_buf now m c false (KStart st) s) as (Hb & Hs & Hdd).
      destruct (run_bracket now m c false (KStart st) s) as [s1 b]. cbn [fst snd] in Hb, Hs, Hdd.
      destruct (IH s1 (acc ++ [b])) as (new & Hn & Hb' & Hs' & Hd').
      exists (b :: new). split; [rewrite Hn, <- app_assoc; reflexivity|].
      unfold brks_log in *. cbn [flat_map].
      rewrite pend_from_app, shut_of_app, has_panic_app, Hb', Hs', Hd', Hb, Hs, Hdd, Hd, !app_assoc, !orb_assoc. auto.
Qed.

(* ---- the event set after one event ---- *)
Definition ev_module (ev : fev) : option N :=
  match ev with EvDeliver m _ | EvWake m | EvRestart m => Some m | EvExit _ _ _ => None end.

Definition fes_after (now m : N) (l : list entry) (f : fes) : fes :=
  match shut_of now l None with
  | Some (Some rt) => fes_add rt (EvRestart m) (fes_flush (pend_of now l) f)
  | _ => fes_flush (pend_of now l) f
  end.

Lemma w_fes_set_mst w m x : w_fes (set_mst w m x) = w_fes w.
Proof. unfold set_mst. destruct (m =? 0); reflexivity. Qed.

Lemma finish_event_fes w m x s its :
  w_fes (fst (finish_event w m x s its None)) =
  match shut s with
  | Some (Some rt) => fes_add rt (EvRestart m) (fes_flush (buf s) (w_fes w))
  | _ => fes_flush (buf s) (w_fes w)
  end.
Proof.
  unfold finish_event. destruct (shut s) as [[rt|]|]; cbn [fst]; rewrite w_fes_set_mst; reflexivity.
Qed.

Lemma finish_event_log w m x s its :
  flat_map item_log (snd (finish_event w m x s its None)) =
  flat_map item_log its ++ match shut s with Some _ => [mk m Handler HReset] | None => [] end.
Proof.
  unfold finish_event. destruct (shut s); cbn [snd]; [|rewrite app_nil_r; reflexivity].
  rewrite flat_map_app. reflexivity.
Qed.

Lemma pend_shut_reset now m l o :
  pend_of now (l ++ match o : option (option N) with Some _ => [mk m Handler HReset] | None => [] end) = pend_of now l /\
  forall i, shut_of now (l ++ match o with Some _ => [mk m Handler HReset] | None => [] end) i = shut_of now l i.
Proof.
  destruct o; rewrite ?app_nil_r; [|auto]. split.
  - unfold pend_of. rewrite pend_from_app. cbn. rewrite andb_false_r. cbn. apply app_nil_r.
  - intros i. rewrite shut_of_app. reflexivity.
Qed.

Lemma flat_map_map_IBrk bs : flat_map item_log (map IBrk bs) = brks_log bs.
Proof. unfold brks_log. induction bs as [|b bs IH]; cbn; [reflexivity|rewrite IH; reflexivity]. Qed.

Theorem process_fes sc w t ev m :
  ev_module ev = Some m ->
  w_fes (fst (process sc w t ev)) = fes_after t m (flat_map item_log (snd (process sc w t ev))) (w_fes w).
Proof.
  intros Hm. unfold process, fes_after. destruct ev as [chk dst x|m' x|m'|m']; [discriminate|..]; injection Hm as ->.
  - destruct (activate t (mstate w m)) as [woken ms].
    destruct (active ms); [|cbn [fst snd flat_map]; rewrite w_fes_set_mst; reflexivity].
    unfold handle_message. pose proof (run_bracket_buf t m (cfg sc m) woken (KMsg x) (es0 (w_bud w))) as (Hb & Hs & _).
    destruct (run_bracket t m (cfg sc m) woken (KMsg x) (es0 (w_bud w))) as [s b]. cbn [fst snd es0 buf shut dead app] in Hb, Hs. fold (pend_of t (b_log b)) in Hb.
    rewrite finish_event_fes, finish_event_log. cbn [flat_map item_log]. rewrite app_nil_r.
    destruct (pend_shut_reset t m (b_log b) (shut s)) as [-> ->]. rewrite <- Hb, <- Hs. reflexivity.
  - destruct (activate t (mstate w m)) as [woken ms].
    destruct (active ms); [|cbn [fst snd flat_map]; rewrite w_fes_set_mst; reflexivity].
    unfold async_wakeup. pose proof (run_bracket_buf t m (cfg sc m) woken KWake (es0 (w_bud w))) as (Hb & Hs & _).
    destruct (run_bracket t m (cfg sc m) woken KWake (es0 (w_bud w))) as [s b]. cbn [fst snd es0 buf shut dead app] in Hb, Hs. fold (pend_of t (b_log b)) in Hb.
    rewrite finish_event_fes, finish_event_log. cbn [flat_map item_log]. rewrite app_nil_r.
    destruct (pend_shut_reset t m (b_log b) (shut s)) as [-> ->]. rewrite <- Hb, <- Hs. reflexivity.
  - destruct (activate t (mstate w m)) as [woken ms]. unfold module_restart.
    destruct (module_restart_buf t m (cfg sc m) (stage_list (h_stages (m_handler (cfg sc m)))) (es0 (w_bud w)) [])
      as (new & Hn & Hb & Hs & _).
    destruct (fold_left _ (stage_list (h_stages (m_handler (cfg sc m)))) (es0 (w_bud w), [])) as [s bs].
    cbn [fst snd es0 buf shut dead app] in Hn, Hb, Hs. fold (pend_of t (brks_log new)) in Hb. subst bs.
    rewrite finish_event_fes, finish_event_log, flat_map_map_IBrk.
    destruct (pend_shut_reset t m (brks_log new) (shut s)) as [-> ->]. rewrite <- Hb, <- Hs. reflexivity.
Qed.
