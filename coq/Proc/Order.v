(* Two sends of one event whose arrival times satisfy t1 <= t2 stand in that order in the
   dispatch order of the event set; the event set of every reachable world is well formed. *)
From Coq Require Import List NArith Bool Lia Sorting.Sorted.
From DesVerif Require Import Common.Fuel Proc.Model Proc.Shape Proc.Emit Proc.Trace.
Import ListNotations.
Open Scope N_scope.

(* ---- subsequences ---- *)
Inductive Subseq {A} : list A -> list A -> Prop :=
| SS_nil l : Subseq [] l
| SS_keep x s l : Subseq s l -> Subseq (x :: s) (x :: l)
| SS_skip x s l : Subseq s l -> Subseq s (x :: l).

Lemma subseq_insert {A} (z : A) l2 : forall l1 s, Subseq s (l1 ++ l2) -> Subseq s (l1 ++ z :: l2).
Proof.
  induction l1 as [|a l1 IH]; intros s H; cbn [app] in *; [apply SS_skip, H|].
  inversion H; subst; [apply SS_nil|apply SS_keep, IH; assumption|apply SS_skip, IH; assumption].
Qed.

Lemma subseq_app_l {A} (l0 : list A) : forall s l, Subseq s l -> Subseq s (l0 ++ l).
Proof. induction l0 as [|a l0 IH]; intros s l H; cbn [app]; [exact H|apply SS_skip, IH, H]. Qed.

Lemma subseq_in2 {A} (p q : A) l2 : forall l1, In p l1 -> Subseq [p; q] (l1 ++ q :: l2).
Proof.
  induction l1 as [|a l1 IH]; intros H; [destruct H|]. cbn [app]. destruct H as [->|H].
  - apply SS_keep. apply subseq_app_l. apply SS_keep, SS_nil.
  - apply SS_skip, IH, H.
Qed.

(* ---- the sorted part of the event set ---- *)
Definition time_le (a b : N * fev) : Prop := fst a <= fst b.
Definition Sorted_t (l : list (N * fev)) : Prop := StronglySorted time_le l.

Lemma fes_ins_in t e : forall l y, In y (fes_ins t e l) -> y = (t, e) \/ In y l.
Proof.
  induction l as [|x r IH]; intros y H; cbn [fes_ins] in H.
  - destruct H as [<-|[]]. left; reflexivity.
  - destruct (t <? fst x).
    + destruct H as [<-|H]; [left; reflexivity|right; exact H].
    + destruct H as [<-|H]; [right; left; reflexivity|]. destruct (IH y H) as [->|Hy]; [left; reflexivity|right; right; exact Hy].
Qed.

Lemma fes_ins_keeps t e : forall l y, In y l -> In y (fes_ins t e l).
Proof.
  induction l as [|x r IH]; intros y H; [destruct H|]. cbn [fes_ins]. destruct (t <? fst x).
  - right. exact H.
  - destruct H as [<-|H]; [left; reflexivity|right; apply IH, H].
Qed.

Lemma fes_ins_sorted t e l : Sorted_t l -> Sorted_t (fes_ins t e l).
Proof.
  induction 1 as [|x r Hs IH Hf]; cbn [fes_ins]; [repeat constructor|].
  destruct (t <? fst x) eqn:E.
  - apply N.ltb_lt in E. constructor; [constructor; assumption|].
    constructor; [unfold time_le; cbn [fst]; lia|].
    rewrite Forall_forall in *. intros y Hy. specialize (Hf y Hy). unfold time_le in *. cbn [fst]. lia.
  - apply N.ltb_ge in E. constructor; [exact IH|].
    rewrite Forall_forall in *. intros y Hy. destruct (fes_ins_in t e r y Hy) as [->|Hy'].
    + unfold time_le. cbn [fst]. exact E.
    + apply Hf, Hy'.
Qed.

Lemma fes_ins_split t e l : Sorted_t l ->
  exists l1 l2, l = l1 ++ l2 /\ fes_ins t e l = l1 ++ (t, e) :: l2 /\
                Forall (fun x => fst x <= t) l1 /\ Forall (fun x => t < fst x) l2.
Proof.
  induction 1 as [|x r Hs IH Hf]; cbn [fes_ins].
  - exists [], []. repeat split; constructor.
  - destruct (t <? fst x) eqn:E.
    + apply N.ltb_lt in E. exists [], (x :: r). repeat split; [constructor|].
      constructor; [exact E|]. rewrite Forall_forall in *. intros y Hy. specialize (Hf y Hy). unfold time_le in Hf. lia.
    + apply N.ltb_ge in E. destruct IH as (l1 & l2 & -> & Hi & F1 & F2).
      exists (x :: l1), l2. rewrite Hi. repeat split; [constructor; assumption|exact F2].
Qed.

(* ---- dispatch order ---- *)
Definition fes_order (f : fes) : list (N * fev) := f_zero f ++ f_rest f.

(* where an event with time >= tcur sits *)
Definition Loc (p : N * fev) (f : fes) : Prop :=
  if fst p =? f_tcur f then In p (f_zero f) else In p (f_rest f).

Lemma fes_add_tcur t e f : f_tcur (fes_add t e f) = f_tcur f.
Proof. unfold fes_add. destruct (t =? f_tcur f); reflexivity. Qed.

Lemma fes_add_sorted t e f : Sorted_t (f_rest f) -> Sorted_t (f_rest (fes_add t e f)).
Proof. intros H. unfold fes_add. destruct (t =? f_tcur f); cbn [f_rest]; [exact H|apply fes_ins_sorted, H]. Qed.

Lemma fes_add_loc_self t e f : Loc (t, e) (fes_add t e f).
Proof.
  unfold Loc. rewrite fes_add_tcur. cbn [fst]. unfold fes_add. destruct (t =? f_tcur f); cbn [f_zero f_rest].
  - apply in_or_app. right. left. reflexivity.
  - generalize (f_rest f). induction l as [|x r IH]; cbn [fes_ins]; [left; reflexivity|].
    destruct (t <? fst x); [left; reflexivity|right; exact IH].
Qed.

Lemma fes_add_loc_keeps p t e f : Loc p f -> Loc p (fes_add t e f).
Proof.
  unfold Loc. rewrite fes_add_tcur. unfold fes_add.
  destruct (fst p =? f_tcur f); destruct (t =? f_tcur f); cbn [f_zero f_rest]; intros H; try exact H.
  - apply in_or_app. left. exact H.
  - apply fes_ins_keeps, H.
Qed.

Lemma fes_add_subseq s t e f : Sorted_t (f_rest f) -> Subseq s (fes_order f) -> Subseq s (fes_order (fes_add t e f)).
Proof.
  intros Hs H. unfold fes_order, fes_add in *. destruct (t =? f_tcur f); cbn [f_zero f_rest].
  - rewrite <- app_assoc. cbn [app]. apply subseq_insert, H.
  - destruct (fes_ins_split t e (f_rest f) Hs) as (l1 & l2 & Hr & Hi & _ & _).
    rewrite Hi, app_assoc. apply subseq_insert. rewrite <- app_assoc, <- Hr. exact H.
Qed.

(* the second of two sends lands behind the first when t1 <= t2 *)
Lemma fes_add_behind p1 t2 e2 f :
  Sorted_t (f_rest f) -> Loc p1 f -> f_tcur f <= fst p1 -> fst p1 <= t2 ->
  Subseq [p1; (t2, e2)] (fes_order (fes_add t2 e2 f)).
Proof.
  intros Hs Hl H0 H12. unfold fes_order, fes_add, Loc in *.
  destruct (t2 =? f_tcur f) eqn:E2; cbn [f_zero f_rest].
  - apply N.eqb_eq in E2. assert (E1 : fst p1 =? f_tcur f = true) by (apply N.eqb_eq; lia).
    rewrite E1 in Hl. rewrite <- app_assoc. cbn [app]. apply subseq_in2, Hl.
  - destruct (fes_ins_split t2 e2 (f_rest f) Hs) as (l1 & l2 & Hr & Hi & F1 & F2).
    rewrite Hi, app_assoc. apply subseq_in2. apply in_or_app.
    destruct (fst p1 =? f_tcur f); [left; exact Hl|right].
    rewrite Hr in Hl. apply in_app_or in Hl. destruct Hl as [Hl|Hl]; [exact Hl|].
    rewrite Forall_forall in F2. specialize (F2 p1 Hl). lia.
Qed.

(* ---- flushing a buffer ---- *)
Lemma flush_app a b f : fes_flush (a ++ b) f = fes_flush b (fes_flush a f).
Proof. apply fold_left_app. Qed.

Lemma flush_inv (P : fes -> Prop) :
  (forall t e f, P f -> P (fes_add t e f)) -> forall ps f, P f -> P (fes_flush ps f).
Proof.
  intros Hadd. induction ps as [|p ps IH]; intros f Hf; cbn; [exact Hf|]. apply IH, Hadd, Hf.
Qed.

Lemma flush_tcur ps f : f_tcur (fes_flush ps f) = f_tcur f.
Proof. apply (flush_inv (fun g => f_tcur g = f_tcur f)); [intros; rewrite fes_add_tcur; assumption|reflexivity]. Qed.

Lemma flush_sorted ps f : Sorted_t (f_rest f) -> Sorted_t (f_rest (fes_flush ps f)).
Proof. apply (flush_inv (fun g => Sorted_t (f_rest g))). intros. apply fes_add_sorted; assumption. Qed.

Lemma flush_loc p ps f : Loc p f -> Loc p (fes_flush ps f).
Proof. apply (flush_inv (Loc p)). intros. apply fes_add_loc_keeps; assumption. Qed.

Lemma flush_subseq s ps f : Sorted_t (f_rest f) -> Subseq s (fes_order f) -> Subseq s (fes_order (fes_flush ps f)).
Proof.
  intros Hs H.
  assert (G : Sorted_t (f_rest (fes_flush ps f)) /\ Subseq s (fes_order (fes_flush ps f))); [|apply G].
  apply (flush_inv (fun g => Sorted_t (f_rest g) /\ Subseq s (fes_order g))); [|split; assumption].
  intros t e g [Hg Hq]. split; [apply fes_add_sorted, Hg|apply fes_add_subseq; assumption].
Qed.

Theorem flush_order a p1 b p2 c f :
  Sorted_t (f_rest f) -> f_tcur f <= fst p1 -> fst p1 <= fst p2 ->
  Subseq [p1; p2] (fes_order (fes_flush (a ++ p1 :: b ++ p2 :: c) f)).
Proof.
  intros Hs H0 H12.
  rewrite flush_app. cbn [fes_flush fold_left]. fold (fes_flush (b ++ p2 :: c)).
  set (f1 := fes_flush a f). set (f2 := fes_add (fst p1) (snd p1) f1).
  rewrite flush_app. cbn [fes_flush fold_left]. fold (fes_flush c).
  set (f3 := fes_flush b f2).
  assert (S1 : Sorted_t (f_rest f1)) by (apply flush_sorted, Hs).
  assert (S2 : Sorted_t (f_rest f2)) by (apply fes_add_sorted, S1).
  assert (S3 : Sorted_t (f_rest f3)) by (apply flush_sorted, S2).
  assert (T3 : f_tcur f3 = f_tcur f).
  { unfold f3, f2, f1. rewrite flush_tcur, fes_add_tcur, flush_tcur. reflexivity. }
  assert (L3 : Loc p1 f3).
  { apply flush_loc. unfold f2. rewrite (surjective_pairing p1) at 1. apply fes_add_loc_self. }
  apply flush_subseq; [apply fes_add_sorted, S3|].
  rewrite (surjective_pairing p2) at 1. apply fes_add_behind; try assumption. rewrite T3. exact H0.
Qed.

(* ---- well-formed event sets, reachable worlds ---- *)
Definition fes_wf (f : fes) : Prop :=
  Sorted_t (f_rest f) /\ Forall (fun p => fst p = f_tcur f) (f_zero f).

Lemma fes_add_wf t e f : fes_wf f -> fes_wf (fes_add t e f).
Proof.
  intros [Hs Hz]. split; [apply fes_add_sorted, Hs|]. rewrite fes_add_tcur. unfold fes_add.
  destruct (t =? f_tcur f) eqn:E; cbn [f_zero]; [|exact Hz].
  apply Forall_app; split; [exact Hz|]. constructor; [|constructor]. cbn [fst]. apply N.eqb_eq, E.
Qed.

Lemma flush_wf ps f : fes_wf f -> fes_wf (fes_flush ps f).
Proof. apply (flush_inv fes_wf). intros. apply fes_add_wf; assumption. Qed.

Lemma fes_fetch_wf f t ev f' : fes_wf f -> fes_fetch f = Some (t, ev, f') -> fes_wf f' /\ f_tcur f' = t.
Proof.
  intros [Hs Hz] H. unfold fes_fetch in H. destruct (f_zero f) as [|x z] eqn:Ez.
  - destruct (f_rest f) as [|[tx ex] r] eqn:Er; [discriminate|]. injection H as <- <- <-. cbn [f_tcur f_rest f_zero fst].
    split; [|reflexivity]. split; [inversion Hs; assumption|constructor].
  - destruct x as [tx ex]. injection H as <- <- <-. cbn [f_tcur f_rest f_zero]. inversion Hz as [|? ? Hx Hz']; subst.
    split; [split; assumption|]. symmetry. exact Hx.
Qed.

Lemma finish_event_wf w m x s its wake :
  fes_wf (w_fes w) -> fes_wf (w_fes (fst (finish_event w m x s its wake))).
Proof.
  intros H. unfold finish_event.
  assert (H0 : fes_wf (match wake with Some d => fes_add d (EvWake m) (w_fes w) | None => w_fes w end))
    by (destruct wake; [apply fes_add_wf, H|exact H]).
  destruct (shut s) as [[rt|]|]; cbn [fst]; rewrite w_fes_set_mst; cbn [w_fes];
    [apply fes_add_wf|..]; apply flush_wf, H0.
Qed.

Lemma process_wf sc w t ev : fes_wf (w_fes w) -> fes_wf (w_fes (fst (process sc w t ev))).
Proof.
  intros H. unfold process. destruct ev as [chk dst x|m x|m|m].
  - cbn [fst]. destruct (match chk with Some src => active (mstate w src) | None => true end); [|exact H].
    cbn [set_fes w_fes]. apply fes_add_wf, H.
  - destruct (activate t (mstate w m)) as [woken ms].
    destruct (active ms); [|cbn [fst]; rewrite w_fes_set_mst; exact H].
    destruct (handle_message t m (cfg sc m) woken x (es0 (w_bud w))) as [s b]. apply finish_event_wf, H.
  - destruct (activate t (mstate w m)) as [woken ms].
    destruct (active ms); [|cbn [fst]; rewrite w_fes_set_mst; exact H].
    destruct (async_wakeup t m (cfg sc m) woken (es0 (w_bud w))) as [s b]. apply finish_event_wf, H.
  - destruct (activate t (mstate w m)) as [woken ms].
    destruct (module_restart t m (cfg sc m) (es0 (w_bud w))) as [s bs]. apply finish_event_wf, H.
Qed.

Lemma start_one_wf sc stage m acc : fes_wf (w_fes (fst acc)) -> fes_wf (w_fes (fst (start_one sc stage m acc))).
Proof.
  intros H. unfold start_one. destruct acc as [w its]. cbn [fst] in H.
  destruct ((stage <? h_stages (m_handler (cfg sc m))) && active (mstate w m)); [|exact H].
  destruct (activate 0 (mstate w m)) as [woken ms].
  destruct (at_sim_start 0 m (cfg sc m) woken stage (es0 (w_bud w))) as [s b].
  match goal with |- context [finish_event ?a ?b ?c ?d ?e ?f] =>
    pose proof (finish_event_wf a b c d e f H) as Hf; destruct (finish_event a b c d e f) as [w' new] end.
  exact Hf.
Qed.

Lemma sim_start_wf sc w : fes_wf (w_fes w) -> fes_wf (w_fes (fst (sim_start sc w))).
Proof.
  intros H. unfold sim_start. set (l := stage_list _). clearbody l.
  assert (G : forall acc, fes_wf (w_fes (fst acc)) ->
     fes_wf (w_fes (fst (fold_left (fun acc stage => start_one sc stage 1 (start_one sc stage 0 acc)) l acc)))).
  { induction l as [|st l IH]; intros acc Hacc; cbn [fold_left]; [exact Hacc|]. apply IH, start_one_wf, start_one_wf, Hacc. }
  apply G. exact H.
Qed.

Lemma init_world_wf sc : fes_wf (w_fes (init_world sc)).
Proof. unfold init_world. cbn [w_fes]. apply flush_wf. split; constructor. Qed.

(* the worlds the main loop of [run_script] goes through *)
Inductive Reach (sc : script) : world -> Prop :=
| reach_start : Reach sc (fst (sim_start sc (init_world sc)))
| reach_step w t ev f : Reach sc w -> fes_fetch (w_fes w) = Some (t, ev, f) ->
                        Reach sc (fst (process sc (set_fes w f) t ev)).

Theorem reach_wf sc w : Reach sc w -> fes_wf (w_fes w).
Proof.
  induction 1 as [|w t ev f Hr IH Hf].
  - apply sim_start_wf, init_world_wf.
  - apply process_wf. cbn [set_fes w_fes]. apply (fes_fetch_wf _ _ _ _ IH Hf).
Qed.

Theorem loop_states_reach sc k :
  match iter_nat k (loop_step sc) (fst (sim_start sc (init_world sc)), 0, snd (sim_start sc (init_world sc))) with
  | inl st | inr st => Reach sc (fst (fst st)) end.
Proof.
  apply (iter_nat_inv (fun st => Reach sc (fst (fst st)))); [|cbn [fst]; apply reach_start].
  intros [[w now] its] Hr. cbn [fst] in Hr. unfold loop_step.
  destruct (fes_fetch (w_fes w)) as [[[t ev] f]|] eqn:Hf; [|exact Hr].
  pose proof (reach_step sc w t ev f Hr Hf) as Hn.
  destruct (process sc (set_fes w f) t ev) as [w' new]. exact Hn.
Qed.

(* ---- the order of two sends of one event ---- *)
Lemma pend1_times now e : Forall (fun p => now <= fst p) (pend1 now e).
Proof.
  unfold pend1. destruct (en_hook e) as [| | | | | | | |d i|d i| |]; try (constructor; fail).
  - constructor; [cbn [fst]; lia|constructor].
  - constructor; [destruct (d =? 0); cbn [fst]; lia|constructor].
Qed.

Lemma pend_from_times now : forall l dd, Forall (fun p => now <= fst p) (pend_from now dd l).
Proof.
  induction l as [|e l IH]; intros dd; cbn [pend_from]; [constructor|].
  apply Forall_app; split; [|apply IH]. destruct (dd && inline_send e); [constructor|apply pend1_times].
Qed.

Lemma pend_of_times now l : Forall (fun p => now <= fst p) (pend_of now l).
Proof. apply pend_from_times. Qed.

Theorem sends_keep_order sc w t ev f m a p1 b p2 c :
  Reach sc w -> fes_fetch (w_fes w) = Some (t, ev, f) -> ev_module ev = Some m ->
  pend_of t (flat_map item_log (snd (process sc (set_fes w f) t ev))) = a ++ p1 :: b ++ p2 :: c ->
  fst p1 <= fst p2 ->
  Subseq [p1; p2] (fes_order (w_fes (fst (process sc (set_fes w f) t ev)))).
Proof.
  intros Hr Hf Hm Hp H12.
  destruct (fes_fetch_wf _ _ _ _ (reach_wf sc w Hr) Hf) as [[Hs _] Ht].
  rewrite (process_fes sc (set_fes w f) t ev m Hm). cbn [set_fes w_fes]. unfold fes_after. rewrite Hp.
  assert (H0 : f_tcur f <= fst p1).
  { rewrite Ht. pose proof (pend_of_times t (flat_map item_log (snd (process sc (set_fes w f) t ev)))) as Hall.
    rewrite Hp in Hall. rewrite Forall_forall in Hall. apply Hall. apply in_or_app. right. left. reflexivity. }
  pose proof (flush_order a p1 b p2 c f Hs H0 H12) as Ho.
  destruct (shut_of t _ None) as [[rt|]|]; try exact Ho.
  apply fes_add_subseq; [apply flush_sorted, Hs|exact Ho].
Qed.
