(* The event-set instances of the generic event loop (Proc/ModelCq.v):
     - the two-list specification of des-cqueue (CQueue/Spec.v [sp]) with an event store,
     - the concrete calendar queue (CQueue/Model.v [cq]) with an event store,
   both simulate the event set [fes] of Proc/Model.v (for the calendar queue through the
   refinement relation R of C01: R_add, R_fetch, R_new_at).  Hence the run over the calendar
   queue prints what the run over the specification prints, for all n, t >= 1, and the
   ordering clauses of C14 / C03-net hold for the calendar queue itself. *)
From Coq Require Import List Arith NArith PArith Bool Lia Permutation.
From DesVerif Require Import Common.Fuel CQueue.Model CQueue.Spec CQueue.ListX CQueue.Refine
  Proc.Model Proc.Shape Proc.Emit Proc.Trace Proc.Order Proc.ModelCq Proc.CqSim.
Import ListNotations.
Open Scope N_scope.

(* ---- the specification [sp] with an event store, seen as a [fes] ---- *)
Definition view (st : list fev) (x : ev) : N * fev := (etime x, nth (N.to_nat (epay x)) st (EvWake 0)).

Record SpRel (s : sp) (st : list fev) (f : fes) : Prop := {
  SR_tcur : s_tcur s = f_tcur f;
  SR_zero : map (view st) (s_zero s) = f_zero f;
  SR_rest : map (view st) (s_rest s) = f_rest f;
  SR_ids : Forall (fun x => eid x < s_next s) (s_rest s);
  SR_pay : Forall (fun x => epay x < N.of_nat (length st)) (s_zero s ++ s_rest s) }.

Lemma view_ext st e x : epay x < N.of_nat (length st) -> view (st ++ [e]) x = view st x.
Proof. intros H. unfold view. rewrite app_nth1 by lia. reflexivity. Qed.

Lemma map_view_ext st e l : Forall (fun x => epay x < N.of_nat (length st)) l -> map (view (st ++ [e])) l = map (view st) l.
Proof. intros H. apply map_ext_in. intros x Hx. apply view_ext. exact (proj1 (Forall_forall _ _) H x Hx). Qed.

Lemma view_new st e t i : view (st ++ [e]) {| etime := t; eid := i; epay := N.of_nat (length st) |} = (t, e).
Proof. unfold view. cbn [etime epay]. rewrite Nat2N.id, nth_middle. reflexivity. Qed.

(* an entry with the largest id goes behind all entries that are not later: what [fes_ins] does *)
Lemma sins_view st e l : Forall (fun x => eid x < eid e) l ->
  map (view st) (sins e l) = fes_ins (etime e) (snd (view st e)) (map (view st) l).
Proof.
  induction 1 as [|x l Hx Hl IH]; cbn [sins map fes_ins]; [reflexivity|].
  unfold key_lt. assert (E : eid e <? eid x = false) by (apply N.ltb_ge; lia).
  rewrite E, andb_false_r, orb_false_r. cbn [fst view]. destruct (etime e <? etime x); cbn [map]; [reflexivity|].
  rewrite IH. reflexivity.
Qed.

Lemma sp_add_rel s st f t e :
  SpRel s st f -> f_tcur f <= t ->
  SpRel (fst (fst (sp_add s t (N.of_nat (length st))))) (st ++ [e]) (fes_add t e f).
Proof.
  intros [Ht Hz Hr Hi Hp] Hge. unfold sp_add, fes_add. rewrite Ht.
  assert (E : t <? f_tcur f = false) by (apply N.ltb_ge; exact Hge). rewrite E.
  apply Forall_app in Hp. destruct Hp as [Hpz Hpr].
  set (x := {| etime := t; eid := s_next s; epay := N.of_nat (length st) |}).
  assert (Hlen : N.of_nat (length (st ++ [e])) = N.of_nat (length st) + 1) by (rewrite app_length; cbn [length]; lia).
  assert (Hw : forall l, Forall (fun y => epay y < N.of_nat (length st)) l -> Forall (fun y => epay y < N.of_nat (length (st ++ [e]))) l)
    by (intros l; apply Forall_impl; intros y Hy; lia).
  assert (Hx : epay x < N.of_nat (length (st ++ [e]))) by (unfold x; cbn [epay]; lia).
  destruct (t =? f_tcur f); cbn [fst]; constructor; cbn [s_tcur s_zero s_rest s_next f_tcur f_zero f_rest].
  - reflexivity.
  - rewrite map_app, (map_view_ext st e _ Hpz), Hz. cbn [map]. unfold x. rewrite view_new. reflexivity.
  - rewrite (map_view_ext st e _ Hpr). exact Hr.
  - eapply Forall_impl; [|exact Hi]. intros y Hy. cbn beta in Hy |- *. lia.
  - rewrite <- app_assoc. apply Forall_app; split; [apply Hw, Hpz|]. cbn [app]. constructor; [exact Hx|apply Hw, Hpr].
  - reflexivity.
  - rewrite (map_view_ext st e _ Hpz). exact Hz.
  - rewrite sins_view by (exact Hi). rewrite (map_view_ext st e _ Hpr), Hr.
    unfold x. rewrite view_new. reflexivity.
  - apply (Permutation_Forall (Permutation_sym (sins_perm x (s_rest s)))). constructor; [unfold x; cbn [eid]; lia|].
    eapply Forall_impl; [|exact Hi]. intros y Hy. cbn beta in Hy |- *. lia.
  - apply Forall_app; split; [apply Hw, Hpz|].
    apply (Permutation_Forall (Permutation_sym (sins_perm x (s_rest s)))). constructor; [exact Hx|apply Hw, Hpr].
Qed.

Lemma sp_fetch_rel s st f :
  SpRel s st f ->
  match fes_fetch f with
  | Some (t, e, f') => exists x s', sp_fetch s = (s', OFetched (epay x) (etime x)) /\ (t, e) = view st x /\ SpRel s' st f'
  | None => s_zero s = [] /\ s_rest s = []
  end.
Proof.
  intros [Ht Hz Hr Hi Hp]. unfold fes_fetch, sp_fetch. apply Forall_app in Hp. destruct Hp as [Hpz Hpr].
  destruct (s_zero s) as [|x z] eqn:Ez; cbn [map] in Hz; rewrite <- Hz.
  - destruct (s_rest s) as [|x r] eqn:Er; cbn [map] in Hr; rewrite <- Hr; [split; reflexivity|].
    exists x. eexists. split; [reflexivity|]. split; [reflexivity|].
    inversion Hi; subst. inversion Hpr; subst.
    constructor; cbn [s_tcur s_zero s_rest s_next f_tcur f_zero f_rest fst view map app]; auto.
  - exists x. eexists. split; [reflexivity|]. split; [reflexivity|].
    inversion Hpz; subst. constructor; cbn [s_tcur s_zero s_rest s_next f_tcur f_zero f_rest]; auto.
    apply Forall_app; split; assumption.
Qed.

Lemma SpRel_new : SpRel (sp_new_at 0) [] {| f_tcur := 0; f_zero := []; f_rest := [] |}.
Proof. constructor; cbn; auto. Qed.

(* ---- instance 1: the specification of des-cqueue ---- *)
Definition sps := (sp * list fev)%type.
Definition spq_add (t : N) (e : fev) (qs : sps) : sps :=
  (fst (fst (sp_add (fst qs) t (N.of_nat (length (snd qs))))), snd qs ++ [e]).
Definition spq_fetch (qs : sps) : option (N * fev * sps) :=
  if sp_len (fst qs) =? 0 then None
  else match sp_fetch (fst qs) with
       | (s', OFetched p t) => Some (t, nth (N.to_nat p) (snd qs) (EvWake 0), (s', snd qs))
       | _ => None
       end.
Definition RQs (f : fes) (qs : sps) : Prop := SpRel (fst qs) (snd qs) f.

Lemma sp_len_zero s : (sp_len s =? 0) = true <-> s_zero s = [] /\ s_rest s = [].
Proof.
  unfold sp_len. rewrite N.eqb_eq. split.
  - intros H. destruct (s_zero s), (s_rest s); cbn [length] in H; try lia. split; reflexivity.
  - intros [-> ->]. reflexivity.
Qed.

Lemma spq_add_sim f qs t e : RQs f qs -> f_tcur f <= t -> RQs (fes_add t e f) (spq_add t e qs).
Proof. destruct qs as [s st]. unfold RQs, spq_add. cbn [fst snd]. apply sp_add_rel. Qed.

Lemma spq_fetch_sim f qs : RQs f qs -> fes_wf f ->
  match fes_fetch f with
  | Some (t, e, f') => exists q', spq_fetch qs = Some (t, e, q') /\ RQs f' q'
  | None => spq_fetch qs = None
  end.
Proof.
  destruct qs as [s st]. unfold RQs, spq_fetch. cbn [fst snd]. intros HR _.
  pose proof (sp_fetch_rel s st f HR) as H. destruct (fes_fetch f) as [[[t e] f']|].
  - destruct H as (x & s' & Hf & Hv & HR').
    assert (E : sp_len s =? 0 = false).
    { destruct (sp_len s =? 0) eqn:E; [|reflexivity]. apply sp_len_zero in E. destruct E as [Ez Er].
      unfold sp_fetch in Hf. rewrite Ez, Er in Hf. discriminate. }
    rewrite E, Hf. unfold view in Hv. injection Hv as -> ->. eexists. split; [reflexivity|exact HR'].
  - rewrite (proj2 (sp_len_zero s) H). reflexivity.
Qed.

Definition run_script_sp (sc : script) : list item * bool := grun_script sps spq_add spq_fetch (sp_new_at 0, []) sc.

Theorem run_over_sp_eq sc : run_script_sp sc = run_script sc.
Proof. apply (run_script_sim sps spq_add spq_fetch RQs spq_add_sim spq_fetch_sim). exact SpRel_new. Qed.

(* ---- instance 2: the calendar queue, through the refinement relation of C01 ---- *)
Definition RQc (f : fes) (qs : cqs) : Prop := exists s hs, R (fst qs) s hs /\ SpRel s (snd qs) f.

Lemma qlen_sp_len q s hs : R q s hs -> qlen q = sp_len s.
Proof.
  intros HR. rewrite (R_len _ _ _ HR). unfold sp_len, Refine.pend.
  rewrite (R_zero _ _ _ HR), !app_length, (Permutation_length (R_perm _ _ _ HR)). reflexivity.
Qed.

Lemma cq_add_sim f qs t e : RQc f qs -> f_tcur f <= t -> RQc (fes_add t e f) (cq_add t e qs).
Proof.
  destruct qs as [q st]. unfold RQc, cq_add. cbn [fst snd]. intros (s & hs & HR & HS) Hge.
  assert (Hq : tcur q <= t) by (rewrite (R_tcur _ _ _ HR), (SR_tcur _ _ _ HS); exact Hge).
  pose proof (R_add q s hs t (N.of_nat (length st)) HR Hq) as A.
  pose proof (sp_add_rel s st f t e HS Hge) as B.
  destruct (add q t (N.of_nat (length st))) as [[q' h] o]. destruct (sp_add s t (N.of_nat (length st))) as [[s' h'] o'].
  destruct A as (_ & _ & hd & _ & HR'). cbn [fst] in *. exists s', (hs ++ [hd]). split; assumption.
Qed.

Lemma cq_fetch_sim f qs : RQc f qs -> fes_wf f ->
  match fes_fetch f with
  | Some (t, e, f') => exists q', cq_fetch qs = Some (t, e, q') /\ RQc f' q'
  | None => cq_fetch qs = None
  end.
Proof.
  destruct qs as [q st]. unfold RQc, cq_fetch. cbn [fst snd]. intros (s & hs & HR & HS) _.
  pose proof (sp_fetch_rel s st f HS) as H. rewrite (qlen_sp_len _ _ _ HR).
  destruct (fes_fetch f) as [[[t e] f']|].
  - destruct H as (x & s' & Hf & Hv & HS').
    assert (E : sp_len s =? 0 = false).
    { destruct (sp_len s =? 0) eqn:E; [|reflexivity]. apply sp_len_zero in E. destruct E as [Ez Er].
      unfold sp_fetch in Hf. rewrite Ez, Er in Hf. discriminate. }
    rewrite E. pose proof (R_fetch q s hs HR) as F. destruct (fetch_next q) as [q' o]. rewrite Hf in F. destruct F as [-> HR'].
    unfold view in Hv. injection Hv as -> ->. eexists. split; [reflexivity|]. exists s', hs. split; assumption.
  - rewrite (proj2 (sp_len_zero s) H). reflexivity.
Qed.

Lemma RQc_init n t : n <> 0 -> t <> 0 -> RQc {| f_tcur := 0; f_zero := []; f_rest := [] |} (cq_init n t).
Proof. intros Hn Ht. exists (sp_new_at 0), []. split; [apply R_new_at; assumption|exact SpRel_new]. Qed.

(* every trace, and the termination flag, whatever calendar-queue parameters are chosen *)
Theorem run_script_over_cqueue n t sc : n <> 0 -> t <> 0 -> run_script_cq n t sc = run_script sc.
Proof.
  intros Hn Ht. apply (run_script_sim cqs cq_add cq_fetch RQc cq_add_sim cq_fetch_sim). apply RQc_init; assumption.
Qed.

Theorem run_over_cqueue n t input : n <> 0 -> t <> 0 -> run_cq n t input = Proc.Model.run input.
Proof. intros Hn Ht. unfold run_cq, Proc.Model.run. rewrite run_script_over_cqueue by assumption. reflexivity. Qed.

Theorem flat_log_over_cqueue n t sc : n <> 0 -> t <> 0 -> flat_log_cq n t sc = flat_log sc.
Proof. intros Hn Ht. unfold flat_log_cq, flat_log, trace_cq, trace. rewrite run_script_over_cqueue by assumption. reflexivity. Qed.

(* ---- what an event adds to the event set, for any implementation (no simulation needed) ---- *)
Section GenEmit.
Variable Q : Type.
Variable q_add : N -> fev -> Q -> Q.

Definition q_after (now m : N) (l : list entry) (q : Q) : Q :=
  match shut_of now l None with
  | Some (Some rt) => q_add rt (EvRestart m) (q_flush Q q_add (pend_of now l) q)
  | _ => q_flush Q q_add (pend_of now l) q
  end.

Lemma g_q_set_mst (w : gworld Q) m x : g_q (gset_mst Q w m x) = g_q w.
Proof. unfold gset_mst. destruct (m =? 0); reflexivity. Qed.

Lemma gfinish_event_q w m x s its :
  g_q (fst (gfinish_event Q q_add w m x s its None)) =
  match shut s with
  | Some (Some rt) => q_add rt (EvRestart m) (q_flush Q q_add (buf s) (g_q w))
  | _ => q_flush Q q_add (buf s) (g_q w)
  end.
Proof. unfold gfinish_event. destruct (shut s) as [[rt|]|]; cbn [fst]; rewrite g_q_set_mst; reflexivity. Qed.

Lemma gfinish_event_log w m x s its :
  flat_map item_log (snd (gfinish_event Q q_add w m x s its None)) =
  flat_map item_log its ++ match shut s with Some _ => [mk m Handler HReset] | None => [] end.
Proof.
  unfold gfinish_event. destruct (shut s); cbn [snd]; [|rewrite app_nil_r; reflexivity].
  rewrite flat_map_app. reflexivity.
Qed.

Theorem gprocess_q sc (w : gworld Q) t ev m :
  ev_module ev = Some m ->
  g_q (fst (gprocess Q q_add sc w t ev)) = q_after t m (flat_map item_log (snd (gprocess Q q_add sc w t ev))) (g_q w).
Proof.
  intros Hm. unfold gprocess, q_after. destruct ev as [chk dst x|m' x|m'|m']; [discriminate|..]; injection Hm as ->.
  - destruct (activate t (gmstate Q w m)) as [woken ms].
    destruct (active ms); [|cbn [fst snd flat_map]; rewrite g_q_set_mst; reflexivity].
    unfold handle_message. pose proof (run_bracket_buf t m (cfg sc m) woken (KMsg x) (es0 (g_bud w))) as (Hb & Hs & _).
    destruct (run_bracket t m (cfg sc m) woken (KMsg x) (es0 (g_bud w))) as [s b]. cbn [fst snd es0 buf shut dead app] in Hb, Hs.
    fold (pend_of t (b_log b)) in Hb.
    rewrite gfinish_event_q, gfinish_event_log. cbn [flat_map item_log]. rewrite app_nil_r.
    destruct (pend_shut_reset t m (b_log b) (shut s)) as [-> ->]. rewrite <- Hb, <- Hs. reflexivity.
  - destruct (activate t (gmstate Q w m)) as [woken ms].
    destruct (active ms); [|cbn [fst snd flat_map]; rewrite g_q_set_mst; reflexivity].
    unfold async_wakeup. pose proof (run_bracket_buf t m (cfg sc m) woken KWake (es0 (g_bud w))) as (Hb & Hs & _).
    destruct (run_bracket t m (cfg sc m) woken KWake (es0 (g_bud w))) as [s b]. cbn [fst snd es0 buf shut dead app] in Hb, Hs.
    fold (pend_of t (b_log b)) in Hb.
    rewrite gfinish_event_q, gfinish_event_log. cbn [flat_map item_log]. rewrite app_nil_r.
    destruct (pend_shut_reset t m (b_log b) (shut s)) as [-> ->]. rewrite <- Hb, <- Hs. reflexivity.
  - destruct (activate t (gmstate Q w m)) as [woken ms]. unfold module_restart.
    destruct (module_restart_buf t m (cfg sc m) (stage_list (h_stages (m_handler (cfg sc m)))) (es0 (g_bud w)) [])
      as (new & Hn & Hb & Hs & _).
    destruct (fold_left _ (stage_list (h_stages (m_handler (cfg sc m)))) (es0 (g_bud w), [])) as [s bs].
    cbn [fst snd es0 buf shut dead app] in Hn, Hb, Hs. fold (pend_of t (brks_log new)) in Hb. subst bs.
    rewrite gfinish_event_q, gfinish_event_log, flat_map_map_IBrk.
    destruct (pend_shut_reset t m (brks_log new) (shut s)) as [-> ->]. rewrite <- Hb, <- Hs. reflexivity.
Qed.
End GenEmit.

Definition cq_after := q_after cqs cq_add.

(* ---- the dispatch order of the calendar queue: what draining it with fetch_next yields ---- *)
Fixpoint drain_cq (k : nat) (qs : cqs) : list (N * fev) :=
  match k with
  | O => []
  | S k' => match cq_fetch qs with Some (t, e, qs') => (t, e) :: drain_cq k' qs' | None => [] end
  end.
Definition dispatch_order_cq (qs : cqs) : list (N * fev) := drain_cq (N.to_nat (qlen (fst qs))) qs.

Lemma fes_fetch_order f t e f' : fes_fetch f = Some (t, e, f') -> fes_order f = (t, e) :: fes_order f'.
Proof.
  unfold fes_fetch, fes_order. destruct (f_zero f) as [|x z].
  - destruct (f_rest f) as [|x r]; [discriminate|]. intros H. injection H as <- <-. destruct x; reflexivity.
  - intros H. injection H as <- <-. destruct x; reflexivity.
Qed.

Lemma drain_order k : forall f qs, RQc f qs -> fes_wf f -> length (fes_order f) = k -> drain_cq k qs = fes_order f.
Proof.
  induction k as [|k IH]; intros f qs HR Hwf Hl; cbn [drain_cq].
  - destruct (fes_order f); [reflexivity|discriminate].
  - pose proof (cq_fetch_sim f qs HR Hwf) as H. destruct (fes_fetch f) as [[[t e] f']|] eqn:Ef.
    + destruct H as (q' & -> & HR'). rewrite (fes_fetch_order _ _ _ _ Ef) in *. cbn [length] in Hl.
      rewrite (IH f' q' HR' (proj1 (fes_fetch_wf _ _ _ _ Hwf Ef))) by lia. reflexivity.
    + unfold fes_fetch, fes_order in *. destruct (f_zero f); [destruct (f_rest f)|]; discriminate.
Qed.

Lemma dispatch_order_spec f qs : RQc f qs -> fes_wf f -> dispatch_order_cq qs = fes_order f.
Proof.
  intros HR Hwf. unfold dispatch_order_cq. apply drain_order; try assumption.
  destruct HR as (s & hs & HR & HS). rewrite (qlen_sp_len _ _ _ HR). unfold sp_len, fes_order.
  rewrite Nat2N.id, app_length, <- (SR_zero _ _ _ HS), <- (SR_rest _ _ _ HS), !map_length. reflexivity.
Qed.

(* ---- worlds the main loop over the calendar queue goes through ---- *)
Inductive ReachCq (n t : N) (sc : script) : cworld -> Prop :=
| rc_start : ReachCq n t sc (fst (sim_start_cq sc (init_world_cq n t sc)))
| rc_step g now ev q' : ReachCq n t sc g -> cq_fetch (g_q g) = Some (now, ev, q') ->
                        ReachCq n t sc (fst (process_cq sc (gset_q cqs g q') now ev)).

Definition RelC := Rel cqs RQc.

Lemma reach_cq_rel n t sc g : n <> 0 -> t <> 0 -> ReachCq n t sc g -> exists w, Reach sc w /\ RelC w g.
Proof.
  intros Hn Ht. induction 1 as [|g now ev q' Hr IH Hf].
  - exists (fst (sim_start sc (init_world sc))). split; [apply reach_start|].
    assert (HRel : RelC (init_world sc) (init_world_cq n t sc)).
    { unfold RelC, Rel, init_world, init_world_cq, ginit_world. cbn [w_fes w_bud w_m0 w_m1 g_q g_bud g_m0 g_m1]. repeat split.
      apply (flush_sim cqs cq_add RQc cq_add_sim); [apply RQc_init; assumption|]. cbn [f_tcur]. apply Forall_forall. intros; lia. }
    assert (T0 : f_tcur (w_fes (init_world sc)) = 0) by (unfold init_world; cbn [w_fes]; apply flush_tcur).
    exact (proj1 (sim_start_sim cqs cq_add RQc cq_add_sim sc _ _ HRel T0)).
  - destruct IH as (w & Hw & HRel). pose proof (reach_wf sc w Hw) as Hwf. pose proof HRel as (HQ & Eb & E0 & E1).
    pose proof (cq_fetch_sim _ _ HQ Hwf) as F. destruct (fes_fetch (w_fes w)) as [[[t' e'] f']|] eqn:Ef.
    + destruct F as (q'' & Hf' & HQ'). rewrite Hf in Hf'. injection Hf' as <- <- <-.
      exists (fst (process sc (set_fes w f') now ev)). split; [apply (reach_step sc w now ev f' Hw Ef)|].
      destruct (fes_fetch_wf _ _ _ _ Hwf Ef) as [_ Tc].
      assert (HRel' : RelC (set_fes w f') (gset_q cqs g q')) by (unfold RelC, Rel; cbn; auto).
      apply (process_sim cqs cq_add RQc cq_add_sim sc _ _ now ev HRel'). cbn [set_fes w_fes]. lia.
    + rewrite Hf in F. discriminate.
Qed.

(* two sends of one event with arrival times t1 <= t2 leave the calendar queue in that order *)
Theorem sends_keep_order_cq n t sc g now ev q' m a p1 b p2 c :
  n <> 0 -> t <> 0 ->
  ReachCq n t sc g -> cq_fetch (g_q g) = Some (now, ev, q') -> ev_module ev = Some m ->
  pend_of now (flat_map item_log (snd (process_cq sc (gset_q cqs g q') now ev))) = a ++ p1 :: b ++ p2 :: c ->
  fst p1 <= fst p2 ->
  Subseq [p1; p2] (dispatch_order_cq (g_q (fst (process_cq sc (gset_q cqs g q') now ev)))).
Proof.
  intros Hn Ht Hr Hf Hm Hp H12.
  destruct (reach_cq_rel n t sc g Hn Ht Hr) as (w & Hw & HRel).
  pose proof (reach_wf sc w Hw) as Hwf. pose proof HRel as (HQ & Eb & E0 & E1).
  pose proof (cq_fetch_sim _ _ HQ Hwf) as F. destruct (fes_fetch (w_fes w)) as [[[t' e'] f']|] eqn:Ef; [|rewrite Hf in F; discriminate].
  destruct F as (q'' & Hf' & HQ'). rewrite Hf in Hf'. injection Hf' as <- <- <-.
  destruct (fes_fetch_wf _ _ _ _ Hwf Ef) as [Hwf' Tc].
  assert (HRel' : RelC (set_fes w f') (gset_q cqs g q')) by (unfold RelC, Rel; cbn; auto).
  destruct (process_sim cqs cq_add RQc cq_add_sim sc _ _ now ev HRel') as [P1 P2]; [cbn [set_fes w_fes]; lia|].
  unfold process_cq in *. rewrite <- P2 in Hp.
  rewrite (dispatch_order_spec _ _ (proj1 P1) (process_wf sc (set_fes w f') now ev Hwf')).
  exact (sends_keep_order sc w now ev f' m a p1 b p2 c Hw Ef Hm Hp H12).
Qed.

(* [ReachCq] is what the main loop of [run_script_cq] goes through *)
Theorem loop_states_reach_cq n t sc k :
  match iter_nat k (loop_step_cq sc) (fst (sim_start_cq sc (init_world_cq n t sc)), 0, snd (sim_start_cq sc (init_world_cq n t sc))) with
  | inl st | inr st => ReachCq n t sc (fst (fst st)) end.
Proof.
  apply (iter_nat_inv (fun st => ReachCq n t sc (fst (fst st)))); [|cbn [fst]; apply rc_start].
  intros [[g now] its] Hr. cbn [fst] in Hr. unfold loop_step_cq, gloop_step.
  destruct (cq_fetch (g_q g)) as [[[t' ev] q']|] eqn:Hf; [|exact Hr].
  pose proof (rc_step n t sc g t' ev q' Hr Hf) as Hn. unfold process_cq in Hn.
  destruct (gprocess cqs cq_add sc (gset_q cqs g q') t' ev) as [g' new]. exact Hn.
Qed.
