(* The bracket grammar of C14 in closed form, and the proof that every bracket produced by
   the entry points of the model (Proc/Model.v [bracket]) has exactly that shape, for every
   stack, every event kind and every script of sends. *)
From Coq Require Import List NArith Bool Lia.
From DesVerif Require Import Proc.Model.
Import ListNotations.
Open Scope N_scope.

Definition mk (m : N) (w : who) (h : hook) : entry := {| en_mod := m; en_who := w; en_hook := h |}.

(* the callbacks (everything except the records of sends, of the shutdown request and of
   the callback's panic) *)
Definition is_call (e : entry) : bool :=
  match en_hook e with HSched _ _ | HSend _ _ | HShut _ | HPanic => false | _ => true end.
Definition calls (l : list entry) : list entry := filter is_call l.

(* ---- the specification of one bracket ---- *)
Definition is_consume (e : elem) : bool := match el_act e with Consume => true | _ => false end.
Definition modk (e : elem) : N := match el_act e with Modify k => k | _ => 0 end.
(* some element of [pre] consumes *)
Definition consumed (pre : list elem) : bool := existsb is_consume pre.
(* the payload after it passed through [pre] *)
Definition pay (x : N) (pre : list elem) : N := fold_left (fun a e => a + modk e) pre x.

Definition kind_msg (k : kind) : option N := match k with KMsg x => Some x | _ => None end.

(* element i: event_start, then incoming iff the event carries a message and none of the
   elements 0..i-1 consumes *)
Definition up_at (m t : N) (els : list elem) (x0 : option N) (i : nat) : list entry :=
  mk m (Elem i) (HStart t) ::
  match x0 with
  | Some x => if consumed (firstn i els) then [] else [mk m (Elem i) (HIn (pay x (firstn i els)))]
  | None => []
  end.

Definition up_shape (m t : N) (els : list elem) (x0 : option N) : list entry :=
  flat_map (up_at m t els x0) (seq 0 (length els)).

Definition handler_shape (m t : N) (els : list elem) (k : kind) : list entry :=
  match k with
  | KMsg x => if consumed els then [] else [mk m Handler (HHandle (pay x els) t)]
  | KWake => []
  | KStart st => [mk m Handler (HSimStart st t)]
  | KEnd => [mk m Handler (HSimEnd t)]
  end.

Definition task_shape (m t : N) (woken : bool) : list entry := if woken then [mk m Task (HTask t)] else [].

Definition down_shape (m : N) (els : list elem) : list entry :=
  map (fun i => mk m (Elem i) HEnd) (rev (seq 0 (length els))).

Definition shape (m t : N) (els : list elem) (k : kind) (woken : bool) : list entry :=
  up_shape m t els (kind_msg k) ++ handler_shape m t els k ++ task_shape m t woken ++ down_shape m els.

(* the message still travelling after the elements [pre] *)
Definition cur_msg (x0 : option N) (pre : list elem) : option N :=
  match x0 with Some x => if consumed pre then None else Some (pay x pre) | None => None end.

(* the callback of this bracket ends in a (caught) panic *)
Definition brk_panics (c : modcfg) (b : brk) : bool :=
  panics (b_time b) (m_handler c) (b_kind b) (cur_msg (kind_msg (b_kind b)) (m_stack c)).

(* a bracket is well formed for a module with configuration [c]: its callbacks have the
   shape above, all its entries belong to one module, and when the callback panics (caught)
   the bracket is closed all the same: what follows the panic is the poll of a woken task
   and event_end of every element in reverse order *)
Definition brk_ok (c : modcfg) (b : brk) : Prop :=
  calls (b_log b) = shape (b_mod b) (b_time b) (m_stack c) (b_kind b) (b_woken b) /\
  Forall (fun e => en_mod e = b_mod b) (b_log b) /\
  (brk_panics c b = true ->
   exists pre post, b_log b = pre ++ mk (b_mod b) Handler HPanic :: post /\
     calls post = task_shape (b_mod b) (b_time b) (b_woken b) ++ down_shape (b_mod b) (m_stack c)).

(* ---- log extension ---- *)
Definition Ext (m : N) (s s' : es) (sk : list entry) : Prop :=
  exists suf, lg s' = lg s ++ suf /\ calls suf = sk /\ Forall (fun e => en_mod e = m) suf.

Lemma calls_app a b : calls (a ++ b) = calls a ++ calls b.
Proof. apply filter_app. Qed.

Lemma Ext_refl m s : Ext m s s [].
Proof. exists []. rewrite app_nil_r. repeat split; constructor. Qed.

Lemma Ext_trans m s1 s2 s3 k1 k2 : Ext m s1 s2 k1 -> Ext m s2 s3 k2 -> Ext m s1 s3 (k1 ++ k2).
Proof.
  intros (a & Ha & Ka & Fa) (b & Hb & Kb & Fb). exists (a ++ b).
  rewrite Hb, Ha, app_assoc, calls_app, Ka, Kb. repeat split. apply Forall_app; split; assumption.
Qed.

Lemma Ext_step m s1 s2 s3 k1 k2 k : Ext m s1 s2 k1 -> Ext m s2 s3 k2 -> k = k1 ++ k2 -> Ext m s1 s3 k.
Proof. intros H1 H2 ->. eapply Ext_trans; eassumption. Qed.

Lemma Ext_say_call m w h s : is_call (mk m w h) = true -> Ext m s (say m w h s) [mk m w h].
Proof.
  intros Hc. exists [mk m w h]. repeat split.
  - unfold calls. cbn [filter]. rewrite Hc. reflexivity.
  - repeat constructor.
Qed.

Lemma Ext_say_nocall m w h s : is_call (mk m w h) = false -> Ext m s (say m w h s) [].
Proof.
  intros Hc. exists [mk m w h]. repeat split.
  - unfold calls. cbn [filter]. rewrite Hc. reflexivity.
  - repeat constructor.
Qed.

Lemma Ext_emit1 now m w e s : Ext m s (emit1 now m w e s) [].
Proof.
  unfold emit1. destruct (bud s =? 0); [apply Ext_refl|].
  eexists. cbn [lg]. split; [reflexivity|]. split.
  - unfold calls. cbn [filter is_call en_hook]. destruct (e_peer e); reflexivity.
  - repeat constructor.
Qed.

Lemma Ext_emits now m w l : forall s, Ext m s (emits now m w l s) [].
Proof.
  unfold emits. induction l as [|e l IH]; intros s; cbn [fold_left]; [apply Ext_refl|].
  change (@nil entry) with (@nil entry ++ []). eapply Ext_trans; [apply Ext_emit1|apply IH].
Qed.

(* a callback followed by its sends *)
Lemma Ext_say_emits now m w h l s :
  is_call (mk m w h) = true -> Ext m s (emits now m w l (say m w h s)) [mk m w h].
Proof.
  intros Hc. change [mk m w h] with ([mk m w h] ++ []).
  eapply Ext_trans; [apply Ext_say_call, Hc|apply Ext_emits].
Qed.

(* ---- incoming_upstream ---- *)
Lemma firstn_length_app {A} (a b : list A) : firstn (length a) (a ++ b) = a.
Proof. induction a as [|x a IH]; cbn [length app firstn]; [destruct b; reflexivity|rewrite IH; reflexivity]. Qed.

Lemma consumed_snoc pre e : consumed (pre ++ [e]) = consumed pre || is_consume e.
Proof. unfold consumed. rewrite existsb_app. cbn [existsb]. rewrite orb_false_r. reflexivity. Qed.

Lemma pay_snoc x pre e : pay x (pre ++ [e]) = pay x pre + modk e.
Proof. unfold pay. rewrite fold_left_app. reflexivity. Qed.

Lemma cur_msg_snoc x0 pre e :
  cur_msg x0 (pre ++ [e]) = match cur_msg x0 pre with Some x => apply_act (el_act e) x | None => None end.
Proof.
  unfold cur_msg. destruct x0 as [x|]; [|reflexivity].
  rewrite consumed_snoc, pay_snoc. destruct (consumed pre); [reflexivity|].
  cbn [orb]. unfold is_consume, modk, apply_act. destruct (el_act e); try reflexivity.
  rewrite N.add_0_r. reflexivity.
Qed.

Lemma upstream_spec now m x0 : forall r pre s,
  Ext m s (snd (incoming_upstream now m (length pre) r (cur_msg x0 pre) s))
      (flat_map (up_at m now (pre ++ r) x0) (seq (length pre) (length r))) /\
  fst (incoming_upstream now m (length pre) r (cur_msg x0 pre) s) = cur_msg x0 (pre ++ r).
Proof.
  induction r as [|e r IH]; intros pre s.
  - cbn [incoming_upstream length seq flat_map fst snd]. rewrite app_nil_r. split; [apply Ext_refl|reflexivity].
  - cbn [incoming_upstream length seq flat_map].
    replace (pre ++ e :: r) with ((pre ++ [e]) ++ r) by (rewrite <- app_assoc; reflexivity).
    assert (Hlen : S (length pre) = length (pre ++ [e])) by (rewrite app_length; cbn [length]; lia).
    assert (Hfn : firstn (length pre) ((pre ++ [e]) ++ r) = pre)
      by (rewrite <- app_assoc; apply firstn_length_app).
    unfold up_at at 1. rewrite Hfn.
    set (s1 := emits now m (Elem (length pre)) (el_start e) (say m (Elem (length pre)) (HStart now) s)).
    assert (E1 : Ext m s s1 [mk m (Elem (length pre)) (HStart now)]) by (apply Ext_say_emits; reflexivity).
    pose proof (cur_msg_snoc x0 pre e) as Hsn.
    destruct (cur_msg x0 pre) as [x|] eqn:Hcur.
    + set (s2 := emits now m (Elem (length pre)) (el_in e) (say m (Elem (length pre)) (HIn x) s1)).
      assert (E2 : Ext m s1 s2 [mk m (Elem (length pre)) (HIn x)]) by (apply Ext_say_emits; reflexivity).
      rewrite <- Hsn, Hlen. destruct (IH (pre ++ [e]) s2) as [E3 M3]. split; [|exact M3].
      unfold cur_msg in Hcur. destruct x0 as [x0'|]; [|discriminate].
      destruct (consumed pre); [discriminate|]. injection Hcur as <-.
      eapply Ext_step; [exact E1| |reflexivity]. eapply Ext_step; [exact E2|exact E3|reflexivity].
    + rewrite <- Hsn, Hlen. destruct (IH (pre ++ [e]) s1) as [E3 M3]. split; [|exact M3].
      assert (Hnil : match x0 with Some x => if consumed pre then [] else [mk m (Elem (length pre)) (HIn (pay x pre))] | None => [] end = [])
        by (unfold cur_msg in Hcur; destruct x0; [destruct (consumed pre); [reflexivity|discriminate]|reflexivity]).
      rewrite Hnil.
      eapply Ext_step; [exact E1|exact E3|reflexivity].
Qed.

Lemma upstream_shape now m els x0 s :
  Ext m s (snd (incoming_upstream now m 0 els x0 s)) (up_shape m now els x0) /\
  fst (incoming_upstream now m 0 els x0 s) = cur_msg x0 els.
Proof.
  pose proof (upstream_spec now m x0 els [] s) as H. cbn [length app] in H.
  assert (Hc : cur_msg x0 [] = x0) by (destruct x0; reflexivity). rewrite Hc in H. exact H.
Qed.

(* ---- incoming_downstream ---- *)
Lemma downstream_spec now m : forall els i s,
  Ext m s (incoming_downstream now m i els s) (map (fun j => mk m (Elem j) HEnd) (rev (seq i (length els)))).
Proof.
  induction els as [|e r IH]; intros i s.
  - cbn. apply Ext_refl.
  - cbn [incoming_downstream length seq rev]. rewrite map_app. cbn [map].
    eapply Ext_trans; [apply IH|]. apply Ext_say_emits. reflexivity.
Qed.

(* ---- the callback and the task ---- *)
Lemma Ext_panic_if b m s : Ext m s (panic_if b m s) [].
Proof.
  unfold panic_if. destruct b; [|apply Ext_refl].
  exists [mk m Handler HPanic]. cbn [lg say]. repeat split. repeat constructor.
Qed.

Lemma handler_part_spec now m h els k s :
  Ext m s (handler_part now m h k (cur_msg (kind_msg k) els) s) (handler_shape m now els k).
Proof.
  destruct k as [x| |st|]; cbn [handler_part handler_shape kind_msg cur_msg].
  - destruct (consumed els); [apply Ext_refl|].
    set (s1 := emits now m Handler (h_msg h) (say m Handler (HHandle (pay x els) now) s)).
    assert (E1 : Ext m s s1 [mk m Handler (HHandle (pay x els) now)]) by (apply Ext_say_emits; reflexivity).
    assert (EP : forall b, Ext m s (panic_if b m s1) [mk m Handler (HHandle (pay x els) now)])
      by (intros b; eapply Ext_step; [exact E1|apply Ext_panic_if|reflexivity]).
    destruct (h_extra h) as [|d|trig r pan|site trig since]; try apply EP.
    destruct (pay x els =? trig); [|exact E1].
    destruct E1 as (suf & Hl & Hk & Hf).
    exists (suf ++ [mk m Handler (HShut r)]). cbn [lg say]. rewrite Hl, app_assoc. split; [reflexivity|].
    split; [rewrite calls_app, Hk; reflexivity|].
    apply Forall_app; split; [exact Hf|repeat constructor].
  - apply Ext_refl.
  - eapply Ext_step; [apply (Ext_say_emits now m Handler (HSimStart st now)); reflexivity|apply Ext_panic_if|reflexivity].
  - eapply Ext_step; [apply (Ext_say_emits now m Handler (HSimEnd now)); reflexivity|apply Ext_panic_if|reflexivity].
Qed.

Lemma poll_tasks_spec now m h woken s : Ext m s (poll_tasks now m h woken s) (task_shape m now woken).
Proof. unfold poll_tasks, task_shape. destruct woken; [apply Ext_say_emits; reflexivity|apply Ext_refl]. Qed.

(* ---- the whole bracket ---- *)
Lemma bracket_spec now m c woken k s :
  Ext m s (bracket now m c woken k s) (shape m now (m_stack c) k woken).
Proof.
  unfold bracket, shape.
  destruct (upstream_shape now m (m_stack c) (kind_msg k) s) as [E1 M1].
  change (match k with KMsg x => Some x | _ => None end) with (kind_msg k).
  destruct (incoming_upstream now m 0 (m_stack c) (kind_msg k) s) as [msg s1]. cbn [fst snd] in E1, M1. subst msg.
  eapply Ext_trans; [exact E1|]. eapply Ext_trans; [apply handler_part_spec|].
  eapply Ext_trans; [apply poll_tasks_spec|]. apply downstream_spec.
Qed.

(* a panicking callback: its part of the log ends with the panic record *)
Lemma handler_part_panic now m h k msg s :
  panics now h k msg = true -> exists suf, lg (handler_part now m h k msg s) = lg s ++ suf ++ [mk m Handler HPanic].
Proof.
  intros Hp.
  assert (G : forall s1 suf, lg s1 = lg s ++ suf -> lg (panic_if true m s1) = lg s ++ suf ++ [mk m Handler HPanic])
    by (intros s1 suf H1; cbn [panic_if lg say]; rewrite H1, app_assoc; reflexivity).
  destruct k as [x| |st|]; cbn [handler_part].
  - unfold panics in Hp. destruct (h_extra h) as [|d|trig r [[st0 since0]|]|site trig since] eqn:Hx; try discriminate.
    destruct msg as [y|]; [|rewrite !andb_false_r in Hp; discriminate].
    assert (Hp' : panics now h (KMsg x) (Some y) = true) by (unfold panics; rewrite Hx; exact Hp). rewrite Hp'.
    destruct (Ext_say_emits now m Handler (HHandle y now) (h_msg h) s eq_refl) as (suf & Hl & _ & _).
    exists suf. apply G, Hl.
  - unfold panics in Hp. destruct (h_extra h) as [|d|trig r [[st0 since0]|]|site trig since]; try discriminate.
    rewrite andb_false_r in Hp. discriminate.
  - rewrite Hp. destruct (Ext_say_emits now m Handler (HSimStart st now) (h_start h) s eq_refl) as (suf & Hl & _ & _).
    exists suf. apply G, Hl.
  - rewrite Hp. destruct (Ext_say_emits now m Handler (HSimEnd now) (h_end h) s eq_refl) as (suf & Hl & _ & _).
    exists suf. apply G, Hl.
Qed.

Lemma bracket_panic_spec now m c woken k s :
  panics now (m_handler c) k (cur_msg (kind_msg k) (m_stack c)) = true ->
  exists pre post, lg (bracket now m c woken k s) = lg s ++ pre ++ mk m Handler HPanic :: post /\
                   calls post = task_shape m now woken ++ down_shape m (m_stack c).
Proof.
  intros Hp. unfold bracket.
  destruct (upstream_shape now m (m_stack c) (kind_msg k) s) as [E1 M1].
  change (match k with KMsg x => Some x | _ => None end) with (kind_msg k).
  destruct (incoming_upstream now m 0 (m_stack c) (kind_msg k) s) as [msg s1]. cbn [fst snd] in E1, M1. subst msg.
  destruct E1 as (u & Hu & _ & _).
  destruct (handler_part_panic now m (m_handler c) k _ s1 Hp) as (hs & Hh).
  set (s2 := handler_part now m (m_handler c) k (cur_msg (kind_msg k) (m_stack c)) s1) in *.
  assert (E34 : Ext m s2 (incoming_downstream now m 0 (m_stack c) (poll_tasks now m (m_handler c) woken s2))
                    (task_shape m now woken ++ down_shape m (m_stack c)))
    by (eapply Ext_trans; [apply poll_tasks_spec|apply downstream_spec]).
  destruct E34 as (post & Hl & Hk & _).
  exists (u ++ hs), post. split; [|exact Hk].
  rewrite Hl, Hh, Hu, <- !app_assoc. reflexivity.
Qed.

Theorem run_bracket_ok now m c woken k s : brk_ok c (snd (run_bracket now m c woken k s)).
Proof.
  unfold run_bracket, brk_ok, brk_panics. cbn [snd b_log b_mod b_time b_kind b_woken].
  set (s0 := {| lg := []; buf := buf s; bud := bud s; shut := shut s; dead := dead s |}).
  destruct (bracket_spec now m c woken k s0) as (suf & Hl & Hk & Hf).
  cbn [lg app s0] in Hl. rewrite Hl. split; [exact Hk|split; [exact Hf|]].
  intros Hp. destruct (bracket_panic_spec now m c woken k s0 Hp) as (pre & post & Hl' & Hc).
  exists pre, post. rewrite <- Hl, Hl'. split; [reflexivity|exact Hc].
Qed.
