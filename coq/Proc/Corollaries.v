(* Readable consequences of the bracket shape (Proc/Shape.v [brk_ok]): exactly-once and
   order of event_start / incoming / handler / event_end within one bracket. *)
From Coq Require Import List NArith Bool Lia.
From DesVerif Require Import Proc.Model Proc.Shape.
Import ListNotations.
Open Scope N_scope.

Definition is_start (e : entry) : bool := match en_hook e with HStart _ => true | _ => false end.
Definition is_in (e : entry) : bool := match en_hook e with HIn _ => true | _ => false end.
Definition is_end (e : entry) : bool := match en_hook e with HEnd => true | _ => false end.
Definition is_handler_call (e : entry) : bool :=
  match en_hook e with HHandle _ _ | HSimStart _ _ | HSimEnd _ => true | _ => false end.

(* ---- list facts ---- *)
Lemma filter_flat_map {A B} (f : B -> bool) (g : A -> list B) l :
  filter f (flat_map g l) = flat_map (fun x => filter f (g x)) l.
Proof. induction l as [|x l IH]; cbn [flat_map]; [reflexivity|rewrite filter_app, IH; reflexivity]. Qed.

Lemma flat_map_single {A B} (h : A -> B) l : flat_map (fun x => [h x]) l = map h l.
Proof. induction l as [|x l IH]; cbn; [reflexivity|rewrite IH; reflexivity]. Qed.

Lemma flat_map_nil {A B} (l : list A) : flat_map (fun _ => @nil B) l = [].
Proof. induction l; cbn; auto. Qed.

Lemma flat_map_ext' {A B} (f g : A -> list B) l : (forall x, f x = g x) -> flat_map f l = flat_map g l.
Proof. intros H. induction l as [|x l IH]; cbn; [reflexivity|rewrite H, IH; reflexivity]. Qed.

Lemma filter_sub {A} (f g : A -> bool) l : (forall x, f x = true -> g x = true) -> filter f (filter g l) = filter f l.
Proof.
  intros H. induction l as [|x l IH]; cbn [filter]; [reflexivity|].
  destruct (g x) eqn:G; cbn [filter]; [rewrite IH; reflexivity|].
  destruct (f x) eqn:F; [rewrite (H x F) in G; discriminate|exact IH].
Qed.

Lemma filter_map_none {A B} (f : B -> bool) (h : A -> B) l : (forall x, f (h x) = false) -> filter f (map h l) = [].
Proof. intros H. induction l as [|x l IH]; cbn [map filter]; [reflexivity|rewrite H; exact IH]. Qed.

Lemma filter_map_all {A B} (f : B -> bool) (h : A -> B) l : (forall x, f (h x) = true) -> filter f (map h l) = map h l.
Proof. intros H. induction l as [|x l IH]; cbn [map filter]; [reflexivity|rewrite H, IH; reflexivity]. Qed.

(* ---- filters of the shape ---- *)
Section Shape.
Variables (m t : N) (els : list elem) (k : kind) (woken : bool).

Lemma handler_shape_cases :
  handler_shape m t els k = [] \/ exists h, handler_shape m t els k = [mk m Handler h] /\ is_handler_call (mk m Handler h) = true.
Proof.
  unfold handler_shape. destruct k; [destruct (consumed els)|..]; auto; right; eexists; split; reflexivity.
Qed.

Lemma starts_of_shape :
  filter is_start (shape m t els k woken) = map (fun i => mk m (Elem i) (HStart t)) (seq 0 (length els)).
Proof.
  unfold shape. rewrite !filter_app.
  assert (H1 : filter is_start (up_shape m t els (kind_msg k)) = map (fun i => mk m (Elem i) (HStart t)) (seq 0 (length els))).
  { unfold up_shape. rewrite filter_flat_map. rewrite <- flat_map_single. apply flat_map_ext'. intros i.
    unfold up_at. cbn [filter is_start en_hook mk]. destruct (kind_msg k); [destruct (consumed (firstn i els))|]; reflexivity. }
  assert (H2 : filter is_start (handler_shape m t els k) = []).
  { destruct handler_shape_cases as [->|(h & -> & Hh)]; [reflexivity|]. cbn [filter].
    unfold is_handler_call in Hh. unfold is_start. cbn [en_hook mk] in *. destruct h; try discriminate; reflexivity. }
  assert (H3 : filter is_start (task_shape m t woken) = []) by (unfold task_shape; destruct woken; reflexivity).
  assert (H4 : filter is_start (down_shape m els) = []) by (apply filter_map_none; reflexivity).
  rewrite H1, H2, H3, H4, !app_nil_r. reflexivity.
Qed.

Lemma ins_of_shape :
  filter is_in (shape m t els k woken) =
  flat_map (fun i => match kind_msg k with
                     | Some x => if consumed (firstn i els) then [] else [mk m (Elem i) (HIn (pay x (firstn i els)))]
                     | None => [] end) (seq 0 (length els)).
Proof.
  unfold shape. rewrite !filter_app.
  assert (H1 : filter is_in (up_shape m t els (kind_msg k)) =
    flat_map (fun i => match kind_msg k with
                     | Some x => if consumed (firstn i els) then [] else [mk m (Elem i) (HIn (pay x (firstn i els)))]
                     | None => [] end) (seq 0 (length els))).
  { unfold up_shape. rewrite filter_flat_map. apply flat_map_ext'. intros i.
    unfold up_at. cbn [filter is_in en_hook mk]. destruct (kind_msg k); [destruct (consumed (firstn i els))|]; reflexivity. }
  assert (H2 : filter is_in (handler_shape m t els k) = []).
  { destruct handler_shape_cases as [->|(h & -> & Hh)]; [reflexivity|]. cbn [filter].
    unfold is_handler_call in Hh. unfold is_in. cbn [en_hook mk] in *. destruct h; try discriminate; reflexivity. }
  assert (H3 : filter is_in (task_shape m t woken) = []) by (unfold task_shape; destruct woken; reflexivity).
  assert (H4 : filter is_in (down_shape m els) = []) by (apply filter_map_none; reflexivity).
  rewrite H1, H2, H3, H4, !app_nil_r. reflexivity.
Qed.

Lemma handlers_of_shape :
  filter is_handler_call (shape m t els k woken) = handler_shape m t els k.
Proof.
  unfold shape. rewrite !filter_app.
  assert (H1 : filter is_handler_call (up_shape m t els (kind_msg k)) = []).
  { unfold up_shape. rewrite filter_flat_map. rewrite <- (flat_map_nil (seq 0 (length els))). apply flat_map_ext'. intros i.
    unfold up_at. cbn [filter is_handler_call en_hook mk]. destruct (kind_msg k); [destruct (consumed (firstn i els))|]; reflexivity. }
  assert (H2 : filter is_handler_call (handler_shape m t els k) = handler_shape m t els k).
  { destruct handler_shape_cases as [->|(h & -> & Hh)]; [reflexivity|]. cbn [filter]. rewrite Hh. reflexivity. }
  assert (H3 : filter is_handler_call (task_shape m t woken) = []) by (unfold task_shape; destruct woken; reflexivity).
  assert (H4 : filter is_handler_call (down_shape m els) = []) by (apply filter_map_none; reflexivity).
  rewrite H1, H2, H3, H4, !app_nil_r. reflexivity.
Qed.

Lemma no_end_before_down :
  Forall (fun e => is_end e = false)
    (up_shape m t els (kind_msg k) ++ handler_shape m t els k ++ task_shape m t woken).
Proof.
  apply Forall_app; split; [|apply Forall_app; split].
  - unfold up_shape. apply Forall_forall. intros e He. apply in_flat_map in He. destruct He as (i & _ & Hi).
    unfold up_at in Hi. destruct Hi as [<-|Hi]; [reflexivity|].
    destruct (kind_msg k); [destruct (consumed (firstn i els))|]; cbn in Hi; try contradiction.
    destruct Hi as [<-|[]]. reflexivity.
  - destruct handler_shape_cases as [->|(h & -> & Hh)]; [constructor|]. constructor; [|constructor].
    unfold is_handler_call in Hh. unfold is_end. cbn [en_hook mk] in *. destruct h; try discriminate; reflexivity.
  - unfold task_shape. destruct woken; repeat constructor.
Qed.
End Shape.

(* ---- statements about a well-formed bracket ---- *)
Section Bracket.
Variables (c : modcfg) (b : brk).
Hypothesis Hok : brk_ok c b.
Let m := b_mod b.
Let t := b_time b.
Let els := m_stack c.

Lemma start_once_in_order :
  filter is_start (b_log b) = map (fun i => mk m (Elem i) (HStart t)) (seq 0 (length els)).
Proof.
  destruct Hok as [Hs _]. rewrite <- (filter_sub is_start is_call).
  - fold (calls (b_log b)). rewrite Hs. apply starts_of_shape.
  - intros x. unfold is_start, is_call. destruct (en_hook x); intros; try discriminate; reflexivity.
Qed.

Lemma incoming_until_consumed :
  filter is_in (b_log b) =
  flat_map (fun i => match kind_msg (b_kind b) with
                     | Some x => if consumed (firstn i els) then [] else [mk m (Elem i) (HIn (pay x (firstn i els)))]
                     | None => [] end) (seq 0 (length els)).
Proof.
  destruct Hok as [Hs _]. rewrite <- (filter_sub is_in is_call).
  - fold (calls (b_log b)). rewrite Hs. apply ins_of_shape.
  - intros x. unfold is_in, is_call. destruct (en_hook x); intros; try discriminate; reflexivity.
Qed.

Lemma handler_calls :
  filter is_handler_call (b_log b) = handler_shape m t els (b_kind b).
Proof.
  destruct Hok as [Hs _]. rewrite <- (filter_sub is_handler_call is_call).
  - fold (calls (b_log b)). rewrite Hs. apply handlers_of_shape.
  - intros x. unfold is_handler_call, is_call. destruct (en_hook x); intros; try discriminate; reflexivity.
Qed.

Lemma consumed_false_iff (l : list elem) : consumed l = false <-> forall e, In e l -> el_act e <> Consume.
Proof.
  unfold consumed. split.
  - intros H e He Hc. assert (existsb is_consume l = true) as Ht; [|rewrite Ht in H; discriminate].
    apply existsb_exists. exists e. split; [exact He|]. unfold is_consume. rewrite Hc. reflexivity.
  - intros H. destruct (existsb is_consume l) eqn:E; [|reflexivity].
    apply existsb_exists in E. destruct E as (e & He & Hc). exfalso. apply (H e He).
    unfold is_consume in Hc. destruct (el_act e); try discriminate. reflexivity.
Qed.

Lemma handler_iff_not_consumed x :
  b_kind b = KMsg x ->
  (forall y t', In (mk m Handler (HHandle y t')) (b_log b) ->
     (forall e, In e els -> el_act e <> Consume) /\ y = pay x els /\ t' = t) /\
  ((forall e, In e els -> el_act e <> Consume) ->
     filter is_handler_call (b_log b) = [mk m Handler (HHandle (pay x els) t)]).
Proof.
  intros Hk. pose proof handler_calls as Hh. rewrite Hk in Hh. cbn [handler_shape] in Hh. split.
  - intros y t' Hin.
    assert (Hf : In (mk m Handler (HHandle y t')) (filter is_handler_call (b_log b)))
      by (apply filter_In; split; [exact Hin|reflexivity]).
    rewrite Hh in Hf. destruct (consumed els) eqn:Hc; [destruct Hf|].
    destruct Hf as [Heq|[]]. injection Heq as <- <-. split; [apply consumed_false_iff; exact Hc|split; reflexivity].
  - intros Hn. apply consumed_false_iff in Hn. rewrite Hn in Hh. exact Hh.
Qed.

Lemma handler_skipped_when_consumed x :
  b_kind b = KMsg x -> (exists e, In e els /\ el_act e = Consume) -> filter is_handler_call (b_log b) = [].
Proof.
  intros Hk (e & He & Hc). pose proof handler_calls as Hh. rewrite Hk in Hh. cbn [handler_shape] in Hh.
  assert (Ht : consumed els = true).
  { apply existsb_exists. exists e. split; [exact He|]. unfold is_consume. rewrite Hc. reflexivity. }
  rewrite Ht in Hh. exact Hh.
Qed.

Lemma end_once_reverse_after_handler :
  exists pre, calls (b_log b) = pre ++ map (fun i => mk m (Elem i) HEnd) (rev (seq 0 (length els))) /\
              Forall (fun e => is_end e = false) pre.
Proof.
  destruct Hok as [Hs _]. rewrite Hs. unfold shape.
  exists (up_shape m t els (kind_msg (b_kind b)) ++ handler_shape m t els (b_kind b) ++ task_shape m t (b_woken b)).
  split; [rewrite <- !app_assoc; reflexivity|apply no_end_before_down].
Qed.
End Bracket.
