(* Termination of the model's event loop: every iteration lowers the potential
   3 * (remaining send budget) + (sum of the weights of the pending events), so the fuel of
   [run_script] is never exhausted. *)
From Coq Require Import List NArith PArith Bool Lia.
From DesVerif Require Import Common.Fuel Proc.Model.
Import ListNotations.
Open Scope N_scope.

Definition wt (e : fev) : N :=
  match e with EvExit _ _ _ => 3 | EvDeliver _ _ => 2 | EvWake _ => 1 | EvRestart _ => 1 end.
Fixpoint wl (l : list (N * fev)) : N := match l with [] => 0 | p :: r => wt (snd p) + wl r end.
Definition wsum (f : fes) : N := wl (f_zero f) + wl (f_rest f).
Definition mu (w : world) : N := 3 * w_bud w + wsum (w_fes w).

Lemma wt_le3 e : wt e <= 3.
Proof. destruct e; cbn; lia. Qed.

Lemma wt_ge1 e : 1 <= wt e.
Proof. destruct e; cbn; lia. Qed.

Lemma wl_app a b : wl (a ++ b) = wl a + wl b.
Proof. induction a as [|x a IH]; cbn [wl app]; [reflexivity|]. rewrite IH. lia. Qed.

Lemma wl_ins t e l : wl (fes_ins t e l) = wt e + wl l.
Proof.
  induction l as [|x r IH]; cbn [fes_ins]; [reflexivity|]. destruct (t <? fst x); [reflexivity|].
  cbn [wl]. rewrite IH. lia.
Qed.

Lemma wsum_add t e f : wsum (fes_add t e f) = wt e + wsum f.
Proof.
  unfold wsum, fes_add. destruct (t =? f_tcur f); cbn [f_zero f_rest].
  - rewrite wl_app. cbn [wl snd]. lia.
  - rewrite wl_ins. lia.
Qed.

Lemma wsum_flush ps : forall f, wsum (fes_flush ps f) = wl ps + wsum f.
Proof.
  induction ps as [|p ps IH]; intros f; cbn [fes_flush fold_left]; [reflexivity|].
  fold (fes_flush ps). rewrite IH, wsum_add. cbn [wl]. lia.
Qed.

Lemma wsum_fetch f t ev f' : fes_fetch f = Some (t, ev, f') -> wsum f = wt ev + wsum f'.
Proof.
  unfold fes_fetch, wsum. destruct (f_zero f) as [|[tx ex] z].
  - destruct (f_rest f) as [|[tx ex] r]; [discriminate|]. intros H. injection H as <- <- <-. cbn. reflexivity.
  - intros H. injection H as <- <- <-. cbn [f_zero f_rest wl snd]. lia.
Qed.

(* ---- what one bracket does to budget, buffer and shutdown request ---- *)
Definition phi (s : es) : N := 3 * bud s + wl (buf s).
Definition Pot (s s' : es) : Prop := phi s' <= phi s.
Definition SameShut (s s' : es) : Prop := shut s' = shut s.

Lemma pending_wt now m e : wt (snd (pending now m e)) <= 3.
Proof. apply wt_le3. Qed.

Lemma Pot_emit1 now m w e s : Pot s (emit1 now m w e s) /\ SameShut s (emit1 now m w e s).
Proof.
  unfold Pot, SameShut, phi, emit1. destruct (bud s =? 0) eqn:E; [split; [lia|reflexivity]|].
  apply N.eqb_neq in E. cbn [bud buf shut]. split; [|reflexivity].
  destruct (dead s && e_peer e && (e_delay e =? 0)); [lia|].
  rewrite wl_app. cbn [wl]. pose proof (pending_wt now m e). lia.
Qed.

Lemma Pot_emits now m w l : forall s, Pot s (emits now m w l s) /\ SameShut s (emits now m w l s).
Proof.
  unfold emits. induction l as [|e l IH]; intros s; cbn [fold_left]; [split; [unfold Pot; lia|reflexivity]|].
  destruct (Pot_emit1 now m w e s) as [P1 S1]. destruct (IH (emit1 now m w e s)) as [P2 S2].
  unfold Pot, SameShut in *. split; [lia|congruence].
Qed.

Lemma Pot_say_emits now m w h l s : Pot s (emits now m w l (say m w h s)) /\ SameShut s (emits now m w l (say m w h s)).
Proof. destruct (Pot_emits now m w l (say m w h s)) as [P S]. unfold Pot, SameShut, phi in *. cbn [say bud buf shut] in *. auto. Qed.

Lemma Pot_upstream now m : forall els i msg s,
  Pot s (snd (incoming_upstream now m i els msg s)) /\ SameShut s (snd (incoming_upstream now m i els msg s)).
Proof.
  induction els as [|e r IH]; intros i msg s; cbn [incoming_upstream snd]; [split; [unfold Pot; lia|reflexivity]|].
  destruct (Pot_say_emits now m (Elem i) (HStart now) (el_start e) s) as [P1 S1].
  destruct msg as [x|].
  - match goal with |- context [incoming_upstream now m (S i) r ?mm ?ss] => destruct (IH (S i) mm ss) as [P3 S3] end.
    match type of P3 with Pot ?ss _ => assert (P2 : Pot (emits now m (Elem i) (el_start e) (say m (Elem i) (HStart now) s)) ss /\
       SameShut (emits now m (Elem i) (el_start e) (say m (Elem i) (HStart now) s)) ss) by apply Pot_say_emits end.
    destruct P2 as [P2 S2]. unfold Pot, SameShut in *. split; [lia|congruence].
  - destruct (IH (S i) None (emits now m (Elem i) (el_start e) (say m (Elem i) (HStart now) s))) as [P3 S3].
    unfold Pot, SameShut in *. split; [lia|congruence].
Qed.

Lemma Pot_downstream now m : forall els i s,
  Pot s (incoming_downstream now m i els s) /\ SameShut s (incoming_downstream now m i els s).
Proof.
  induction els as [|e r IH]; intros i s; cbn [incoming_downstream]; [split; [unfold Pot; lia|reflexivity]|].
  destruct (IH (S i) s) as [P1 S1].
  destruct (Pot_say_emits now m (Elem i) HEnd (el_end e) (incoming_downstream now m (S i) r s)) as [P2 S2].
  unfold Pot, SameShut in *. split; [lia|congruence].
Qed.

Definition kind_is_msg (k : kind) : bool := match k with KMsg _ => true | _ => false end.

Lemma Pot_panic_if b m s : Pot s (panic_if b m s) /\ SameShut s (panic_if b m s).
Proof. unfold panic_if, Pot, SameShut, phi. destruct b; cbn [say bud buf shut]; split; try lia; reflexivity. Qed.

Lemma Pot_handler_part now m h k msg s :
  Pot s (handler_part now m h k msg s) /\ (kind_is_msg k = false -> SameShut s (handler_part now m h k msg s)).
Proof.
  destruct k as [x| |st|]; cbn [handler_part].
  - split; [|discriminate]. destruct msg as [y|]; [|unfold Pot; lia].
    destruct (Pot_say_emits now m Handler (HHandle y now) (h_msg h) s) as [P1 _].
    assert (PP : forall b, Pot s (panic_if b m (emits now m Handler (h_msg h) (say m Handler (HHandle y now) s)))).
    { intros b. destruct (Pot_panic_if b m (emits now m Handler (h_msg h) (say m Handler (HHandle y now) s))) as [P2 _].
      unfold Pot in *. lia. }
    destruct (h_extra h) as [|d|trig r pan|site trig since]; try apply PP. destruct (y =? trig); [|exact P1].
    unfold Pot, phi in *. cbn [say bud buf] in *. exact P1.
  - split; [unfold Pot; lia|reflexivity].
  - destruct (Pot_say_emits now m Handler (HSimStart st now) (h_start h) s) as [P1 S1].
    destruct (Pot_panic_if (panics now h (KStart st) msg) m (emits now m Handler (h_start h) (say m Handler (HSimStart st now) s))) as [P2 S2].
    unfold Pot, SameShut in *. split; [lia|intros _; congruence].
  - destruct (Pot_say_emits now m Handler (HSimEnd now) (h_end h) s) as [P1 S1].
    destruct (Pot_panic_if (panics now h KEnd msg) m (emits now m Handler (h_end h) (say m Handler (HSimEnd now) s))) as [P2 S2].
    unfold Pot, SameShut in *. split; [lia|intros _; congruence].
Qed.

Lemma Pot_poll_tasks now m h woken s : Pot s (poll_tasks now m h woken s) /\ SameShut s (poll_tasks now m h woken s).
Proof. unfold poll_tasks. destruct woken; [apply Pot_say_emits|split; [unfold Pot; lia|reflexivity]]. Qed.

Lemma Pot_run_bracket now m c woken k s :
  Pot s (fst (run_bracket now m c woken k s)) /\
  (kind_is_msg k = false -> SameShut s (fst (run_bracket now m c woken k s))).
Proof.
  unfold run_bracket, bracket. cbn [fst].
  set (s0 := {| lg := []; buf := buf s; bud := bud s; shut := shut s; dead := dead s |}).
  destruct (Pot_upstream now m (m_stack c) 0%nat (match k with KMsg x => Some x | _ => None end) s0) as [P1 S1].
  destruct (incoming_upstream now m 0 (m_stack c) (match k with KMsg x => Some x | _ => None end) s0) as [msg s1].
  cbn [snd] in P1, S1.
  destruct (Pot_handler_part now m (m_handler c) k msg s1) as [P2 S2].
  destruct (Pot_poll_tasks now m (m_handler c) woken (handler_part now m (m_handler c) k msg s1)) as [P3 S3].
  destruct (Pot_downstream now m (m_stack c) 0%nat (poll_tasks now m (m_handler c) woken (handler_part now m (m_handler c) k msg s1))) as [P4 S4].
  unfold Pot, SameShut, phi in *. subst s0. cbn [bud buf shut] in *. split; [lia|].
  intros Hk. specialize (S2 Hk). congruence.
Qed.

Lemma Pot_module_restart now m c : forall l s acc,
  let r := fold_left (fun acc stage => if dead (fst acc) then acc else
                        let '(s1, b) := at_sim_start now m c false stage (fst acc) in (s1, snd acc ++ [b])) l (s, acc) in
  Pot s (fst r) /\ SameShut s (fst r).
Proof.
  induction l as [|st l IH]; intros s acc; cbn [fold_left]; [cbn [fst]; split; [unfold Pot; lia|reflexivity]|].
  cbn [fst snd]. destruct (dead s); [apply IH|].
  change (at_sim_start now m c false st s) with (run_bracket now m c false (KStart st) s).
  destruct (Pot_run_bracket now m c false (KStart st) s) as [P1 S1]. specialize (S1 eq_refl).
  destruct (run_bracket now m c false (KStart st) s) as [s1 b]. cbn [fst] in P1, S1.
  destruct (IH s1 (acc ++ [b])) as [P2 S2]. unfold Pot, SameShut in *. split; [lia|congruence].
Qed.

(* ---- the potential of the world ---- *)
Lemma mu_set_mst w m x : mu (set_mst w m x) = mu w.
Proof. unfold mu, set_mst. destruct (m =? 0); reflexivity. Qed.

Lemma finish_event_mu w m x s its wake :
  mu (fst (finish_event w m x s its wake)) <=
  phi s + wsum (w_fes w) + (match wake with Some _ => 1 | None => 0 end) + (match shut s with Some _ => 1 | None => 0 end).
Proof.
  unfold finish_event.
  set (f0 := match wake with Some d => fes_add d (EvWake m) (w_fes w) | None => w_fes w end).
  assert (H0 : wsum f0 = wsum (w_fes w) + match wake with Some _ => 1 | None => 0 end)
    by (unfold f0; destruct wake; [rewrite wsum_add; cbn [wt]; lia|lia]).
  destruct (shut s) as [[rt|]|]; cbn [fst]; rewrite mu_set_mst; unfold mu, phi; cbn [w_bud w_fes];
    rewrite ?wsum_add, wsum_flush, H0; cbn [wt]; lia.
Qed.

Lemma process_mu sc w t ev : mu (fst (process sc w t ev)) + 1 <= mu w + wt ev.
Proof.
  unfold process. destruct ev as [chk dst x|m x|m|m]; cbn [wt].
  - cbn [fst]. destruct (match chk with Some src => active (mstate w src) | None => true end); [|lia].
    unfold mu. cbn [set_fes w_bud w_fes]. rewrite wsum_add. cbn [wt]. lia.
  - destruct (activate t (mstate w m)) as [woken ms].
    destruct (active ms); [|cbn [fst]; rewrite mu_set_mst; lia].
    unfold handle_message. destruct (Pot_run_bracket t m (cfg sc m) woken (KMsg x) (es0 (w_bud w))) as [P _].
    destruct (run_bracket t m (cfg sc m) woken (KMsg x) (es0 (w_bud w))) as [s b]. cbn [fst] in P.
    pose proof (finish_event_mu w m ms s [IBrk b] None) as H. unfold Pot, phi in *. cbn [es0 bud buf wl] in P.
    unfold mu in *. destruct (shut s); lia.
  - destruct (activate t (mstate w m)) as [woken ms].
    destruct (active ms); [|cbn [fst]; rewrite mu_set_mst; lia].
    unfold async_wakeup. destruct (Pot_run_bracket t m (cfg sc m) woken KWake (es0 (w_bud w))) as [P S]. specialize (S eq_refl).
    destruct (run_bracket t m (cfg sc m) woken KWake (es0 (w_bud w))) as [s b]. cbn [fst] in P, S.
    pose proof (finish_event_mu w m ms s [IBrk b] None) as H. unfold Pot, SameShut, phi in *.
    cbn [es0 bud buf shut wl] in P, S. rewrite S in H. unfold mu in *. lia.
  - destruct (activate t (mstate w m)) as [woken ms]. unfold module_restart.
    destruct (Pot_module_restart t m (cfg sc m) (stage_list (h_stages (m_handler (cfg sc m)))) (es0 (w_bud w)) []) as [P S].
    destruct (fold_left _ (stage_list (h_stages (m_handler (cfg sc m)))) (es0 (w_bud w), [])) as [s bs]. cbn [fst] in P, S.
    pose proof (finish_event_mu w m {| active := true; timer := timer ms |} s (map IBrk bs) None) as H.
    unfold Pot, SameShut, phi in *. cbn [es0 bud buf shut wl] in P, S. rewrite S in H. unfold mu in *. lia.
Qed.

Lemma start_one_mu sc stage m acc : mu (fst (start_one sc stage m acc)) <= mu (fst acc) + 1.
Proof.
  unfold start_one. destruct acc as [w its]. cbn [fst].
  destruct ((stage <? h_stages (m_handler (cfg sc m))) && active (mstate w m)); [|cbn [fst]; lia].
  destruct (activate 0 (mstate w m)) as [woken ms]. unfold at_sim_start.
  destruct (Pot_run_bracket 0 m (cfg sc m) woken (KStart stage) (es0 (w_bud w))) as [P S]. specialize (S eq_refl).
  destruct (run_bracket 0 m (cfg sc m) woken (KStart stage) (es0 (w_bud w))) as [s b]. cbn [fst] in P, S.
  match goal with |- context [finish_event ?a ?b ?c ?d ?e ?f] =>
    pose proof (finish_event_mu a b c d e f) as H; destruct (finish_event a b c d e f) as [w' new] end.
  cbn [fst] in *. unfold Pot, SameShut, phi in *. cbn [es0 bud buf shut wl] in P, S. rewrite S in H.
  unfold mu in *. destruct (timer_reg 0 (cfg sc m) stage); lia.
Qed.

Lemma sim_start_mu sc w : mu (fst (sim_start sc w)) <= mu w + 2 * max_stage sc.
Proof.
  unfold sim_start, stage_list.
  assert (G : forall l acc, mu (fst (fold_left (fun acc stage => start_one sc stage 1 (start_one sc stage 0 acc)) l acc))
                            <= mu (fst acc) + 2 * N.of_nat (length l)).
  { induction l as [|st l IH]; intros acc; cbn [fold_left length]; [lia|].
    specialize (IH (start_one sc st 1 (start_one sc st 0 acc))).
    pose proof (start_one_mu sc st 1 (start_one sc st 0 acc)). pose proof (start_one_mu sc st 0 acc). lia. }
  specialize (G (map N.of_nat (seq 0 (N.to_nat (max_stage sc)))) (w, [])).
  rewrite map_length, seq_length, N2Nat.id in G. exact G.
Qed.

Lemma init_world_mu sc : mu (init_world sc) <= 3 * (s_bud sc + N.of_nat (length (s_inj sc))).
Proof.
  unfold mu, init_world. cbn [w_bud w_fes]. rewrite wsum_flush. unfold wsum. cbn [f_zero f_rest wl].
  assert (H : wl (s_inj sc) <= 3 * N.of_nat (length (s_inj sc))).
  { induction (s_inj sc) as [|p l IH]; cbn [wl length]; [lia|]. pose proof (wt_le3 (snd p)). lia. }
  lia.
Qed.

(* ---- the loop ---- *)
Definition st_mu (st : lstate) : N := mu (fst (fst st)).

Lemma loop_step_mu sc st st' : loop_step sc st = inl st' -> st_mu st' + 1 <= st_mu st.
Proof.
  unfold loop_step, st_mu. destruct st as [[w now] its]. cbn [fst].
  destruct (fes_fetch (w_fes w)) as [[[t ev] f]|] eqn:Hf; [|discriminate].
  pose proof (process_mu sc (set_fes w f) t ev) as H.
  destruct (process sc (set_fes w f) t ev) as [w' new]. intros E. injection E as <-. cbn [fst] in *.
  apply wsum_fetch in Hf. unfold mu in *. cbn [set_fes w_bud w_fes] in H. lia.
Qed.

Lemma loop_terminates sc : forall k st, (N.to_nat (st_mu st) < k)%nat -> exists r, iter_nat k (loop_step sc) st = inr r.
Proof.
  induction k as [|k IH]; intros st Hk; [lia|]. cbn [iter_nat].
  destruct (loop_step sc st) as [st'|r] eqn:E; [|exists r; reflexivity].
  apply loop_step_mu in E. apply IH. lia.
Qed.

Lemma fuel_nat sc :
  Pos.to_nat (fuel sc) = S (N.to_nat (3 * (s_bud sc + N.of_nat (length (s_inj sc))) + 2 * max_stage sc)).
Proof. unfold fuel. generalize (3 * (s_bud sc + N.of_nat (length (s_inj sc))) + 2 * max_stage sc). intros x. destruct x; cbn; lia. Qed.

Theorem run_terminates sc : snd (run_script sc) = true.
Proof.
  unfold run_script.
  pose proof (sim_start_mu sc (init_world sc)) as H1. pose proof (init_world_mu sc) as H0.
  destruct (sim_start sc (init_world sc)) as [w0 its0]. cbn [fst] in H1.
  rewrite iter_until_nat.
  destruct (loop_terminates sc (Pos.to_nat (fuel sc)) (w0, 0, its0)) as [[[w now] its] Hr].
  - rewrite fuel_nat. unfold st_mu. cbn [fst]. lia.
  - rewrite Hr. reflexivity.
Qed.
