(* Concrete model of the processing-element machinery of des:
     des/src/net/processing.rs      Processor::incoming_upstream / incoming_downstream
     des/src/net/runtime/events.rs  ModuleRef::{handle_message, async_wakeup, at_sim_start,
                                    at_sim_end, module_restart}, the NetEvents handlers
     des/src/net/runtime/ctx.rs     buf_send_at / buf_schedule_at / buf_process
     des/src/net/runtime/mod.rs     SimLifecycle::{at_sim_start, at_sim_end}
   Function names and branch structure follow the Rust code.  User code (processing
   elements, the module's handler, one optional sleeping task) is a script.  The world
   has two modules 0 and 1 (gate "out" of each is connected to the other without a
   channel).  No proofs in this file. *)
From Coq Require Import List NArith PArith Bool.
From DesVerif Require Import Common.Fuel Common.Codec.
Import ListNotations.
Open Scope N_scope.

(* ---- scripts of user code ---- *)
(* what ProcessingElement::incoming does with the message *)
Inductive act := Pass | Modify (k : N) | Consume.

(* one send: schedule_in(msg id, delay) to the module itself, or
   send_in(msg id, "out", delay) towards the peer *)
Record emit := { e_peer : bool; e_delay : N; e_id : N }.

Record elem := { el_act : act; el_start : list emit; el_in : list emit; el_end : list emit }.

(* The module itself.  Besides its callbacks it may do ONE of two further things:
   spawn (in at_sim_start(0)) a task that sleeps d+1 ns and then sends [h_task], or
   shut itself down (optionally restarting after r ns) when handle_message sees the
   payload [trig], or panic at the end of one callback (its stereotype has on_panic_catch,
   so Harness::catch swallows the panic and deactivates the module): [XPanic 0 x since] in
   handle_message of payload x, [XPanic 1 st since] in at_sim_start(st), [XPanic 2 _ since] in
   at_sim_end, each only from simulation time [since] on (since = 0: also in the first
   start-up; since > 0: only in a later one).  A module that shuts down and restarts may in
   addition panic in one start-up stage from time [since] on ([XShut trig r (Some (st, since))]):
   with since > 0 that is a panic in stage st of a RESTART.
   A timer excludes the other two: a shutdown drops the tokio runtime and with it the timer
   slot, and a panic skips the poll of woken tasks (subjects of C05/C09/C13, not of C14).
   Uncaught panics are outside C14. *)
Inductive extra :=
| XNone | XTimer (d : N)
| XShut (trig : N) (restart : option N) (pan : option (N * N))
| XPanic (site trig since : N).

Record handler := { h_stages : N; h_extra : extra;
  h_start : list emit; h_msg : list emit; h_end : list emit; h_task : list emit }.

Record modcfg := { m_stack : list elem; m_handler : handler }.

(* ---- the call log ---- *)
Inductive who := Handler | Task | Elem (i : nat).

Inductive hook :=
| HStart (t : N)                 (* ProcessingElement::event_start, at time t *)
| HIn (x : N)                    (* ProcessingElement::incoming(msg with payload x) *)
| HEnd                           (* ProcessingElement::event_end *)
| HHandle (x t : N)              (* Module::handle_message *)
| HSimStart (stage t : N)        (* Module::at_sim_start(stage) *)
| HSimEnd (t : N)                (* Module::at_sim_end *)
| HTask (t : N)                  (* the sleeping task resumed *)
| HReset                         (* Module::reset *)
| HSched (delay id : N)          (* schedule_in *)
| HSend (delay id : N)           (* send_in(.., "out", ..) *)
| HShut (restart : option N)     (* current().shutdown() / shutdow_and_restart_in(r) *)
| HPanic.                        (* the callback panics (caught by the stereotype) *)

Record entry := { en_mod : N; en_who : who; en_hook : hook }.

(* ---- future event set (C01, C03) ---- *)
Inductive fev :=
| EvExit (chk : option N) (dst id : N)   (* MessageExitingConnection; chk = owner of a transit gate *)
| EvDeliver (dst id : N)                 (* HandleMessageEvent *)
| EvWake (m : N)                         (* AsyncWakeupEvent *)
| EvRestart (m : N).                     (* ModuleRestartEvent *)

(* The event set is the calendar queue of des-cqueue, which C01 proves equal to this
   two-list specification (coq/CQueue/Spec.v): events scheduled for the instant of the event
   that is running join a FIFO that is served first; all others are kept sorted by time,
   FIFO among equal times.  (Every add in this model has t >= tcur: tcur is the time of the
   running event, delays are non-negative.) *)
Fixpoint fes_ins (t : N) (e : fev) (l : list (N * fev)) : list (N * fev) :=
  match l with
  | [] => [(t, e)]
  | x :: r => if t <? fst x then (t, e) :: x :: r else x :: fes_ins t e r
  end.

Record fes := { f_tcur : N; f_zero : list (N * fev); f_rest : list (N * fev) }.

Definition fes_add (t : N) (e : fev) (f : fes) : fes :=
  if t =? f_tcur f then {| f_tcur := f_tcur f; f_zero := f_zero f ++ [(t, e)]; f_rest := f_rest f |}
  else {| f_tcur := f_tcur f; f_zero := f_zero f; f_rest := fes_ins t e (f_rest f) |}.

Definition fes_fetch (f : fes) : option (N * fev * fes) :=
  match f_zero f with
  | x :: z => Some (x, {| f_tcur := f_tcur f; f_zero := z; f_rest := f_rest f |})
  | [] => match f_rest f with
          | x :: r => Some (x, {| f_tcur := fst x; f_zero := []; f_rest := r |})
          | [] => None
          end
  end.

(* ---- state local to one runtime event: call log of the current bracket, BUF_CTX.events,
   remaining send budget of the scripts, ModuleContext::shutdown_task, "Harness::catch saw a
   panic and cleared ctx.active" ---- *)
Record es := { lg : list entry; buf : list (N * fev); bud : N; shut : option (option N); dead : bool }.

Definition peer (m : N) : N := if m =? 0 then 1 else 0.

Definition say (m : N) (w : who) (h : hook) (s : es) : es :=
  {| lg := lg s ++ [{| en_mod := m; en_who := w; en_hook := h |}];
     buf := buf s; bud := bud s; shut := shut s; dead := dead s |}.

(* message/api.rs schedule_in -> buf_schedule_at: HandleMessageEvent for the current module.
   send_in -> buf_send_at: a delayed send buffers a MessageExitingConnection; an immediate one
   walks the (channel-less) gate chain inline and buffers the HandleMessageEvent of the peer.
   handle_with_sink drops the message when the owner of the first gate is inactive: for the
   inline case that happens exactly when a caught panic has just deactivated the sender (the
   other brackets whose buffers are flushed run on an active module).
   The scripts share a send budget so that every run is finite. *)
Definition pending (now m : N) (e : emit) : N * fev :=
  if e_peer e then
    if e_delay e =? 0 then (now, EvDeliver (peer m) (e_id e))
    else (now + e_delay e, EvExit (Some m) (peer m) (e_id e))
  else (now + e_delay e, EvDeliver m (e_id e)).

Definition emit1 (now m : N) (w : who) (e : emit) (s : es) : es :=
  if bud s =? 0 then s else
  {| lg := lg s ++ [{| en_mod := m; en_who := w;
                       en_hook := if e_peer e then HSend (e_delay e) (e_id e) else HSched (e_delay e) (e_id e) |}];
     buf := (if dead s && e_peer e && (e_delay e =? 0) then buf s else buf s ++ [pending now m e]);
     bud := bud s - 1; shut := shut s; dead := dead s |}.

Definition emits (now m : N) (w : who) (l : list emit) (s : es) : es :=
  fold_left (fun s e => emit1 now m w e s) l s.

(* ---- processing.rs ---- *)
Definition apply_act (a : act) (x : N) : option N :=
  match a with Pass => Some x | Modify k => Some (x + k) | Consume => None end.

(* for i in 0..n { items[i].event_start(); if let Some(m) = msg { msg = items[i].incoming(m) } } *)
Fixpoint incoming_upstream (now m : N) (i : nat) (els : list elem) (msg : option N) (s : es) : option N * es :=
  match els with
  | [] => (msg, s)
  | e :: r =>
    let s1 := emits now m (Elem i) (el_start e) (say m (Elem i) (HStart now) s) in
    match msg with
    | Some x =>
      let s2 := emits now m (Elem i) (el_in e) (say m (Elem i) (HIn x) s1) in
      incoming_upstream now m (S i) r (apply_act (el_act e) x) s2
    | None => incoming_upstream now m (S i) r None s1
    end
  end.

(* for i in (0..n).rev() { items[i].event_end() } *)
Fixpoint incoming_downstream (now m : N) (i : nat) (els : list elem) (s : es) : es :=
  match els with
  | [] => s
  | e :: r => let s1 := incoming_downstream now m (S i) r s in
              emits now m (Elem i) (el_end e) (say m (Elem i) HEnd s1)
  end.

(* ---- events.rs: the ModuleRef entry points ---- *)
Inductive kind := KMsg (x : N) | KWake | KStart (stage : N) | KEnd.

(* does the callback of this event end in a (caught) panic? *)
Definition panics (now : N) (h : handler) (k : kind) (msg : option N) : bool :=
  match h_extra h with
  | XPanic site trig since =>
    (since <=? now) &&
    match k with
    | KMsg _ => (site =? 0) && (match msg with Some y => y =? trig | None => false end)
    | KStart stage => (site =? 1) && (stage =? trig)
    | KEnd => site =? 2
    | KWake => false
    end
  | XShut _ _ (Some (st, since)) =>
    match k with KStart stage => (since <=? now) && (stage =? st) | _ => false end
  | _ => false
  end.

(* Harness::catch: the unwind is swallowed (on_panic_catch) and ctx.active is cleared *)
Definition panic_if (b : bool) (m : N) (s : es) : es :=
  if b then let s1 := say m Handler HPanic s in
            {| lg := lg s1; buf := buf s1; bud := bud s1; shut := shut s1; dead := true |}
  else s.

(* what runs inside Harness::exec: the handler callback ... *)
Definition handler_part (now m : N) (h : handler) (k : kind) (msg : option N) (s : es) : es :=
  match k with
  | KMsg _ =>
    match msg with
    | Some y =>
      let s1 := emits now m Handler (h_msg h) (say m Handler (HHandle y now) s) in
      match h_extra h with
      | XShut trig r _ =>
        if y =? trig then
          let s2 := say m Handler (HShut r) s1 in
          {| lg := lg s2; buf := buf s2; bud := bud s2;
             shut := Some (match r with Some d => Some (now + d) | None => None end); dead := dead s2 |}
        else s1
      | _ => panic_if (panics now h k msg) m s1
      end
    | None => s                                   (* Harness::exec(|| {}) *)
    end
  | KWake => s
  | KStart stage => panic_if (panics now h k msg) m (emits now m Handler (h_start h) (say m Handler (HSimStart stage now) s))
  | KEnd => panic_if (panics now h k msg) m (emits now m Handler (h_end h) (say m Handler (HSimEnd now) s))
  end.

(* ... followed by yield_now: a task woken by activate() is polled *)
Definition poll_tasks (now m : N) (h : handler) (woken : bool) (s : es) : es :=
  if woken then emits now m Task (h_task h) (say m Task (HTask now) s) else s.

(* upstream; Harness::exec(callback); downstream -- also after a caught panic *)
Definition bracket (now m : N) (c : modcfg) (woken : bool) (k : kind) (s : es) : es :=
  let '(msg, s1) := incoming_upstream now m 0 (m_stack c)
                      (match k with KMsg x => Some x | _ => None end) s in
  let s2 := handler_part now m (m_handler c) k msg s1 in
  let s3 := poll_tasks now m (m_handler c) woken s2 in
  incoming_downstream now m 0 (m_stack c) s3.

Record brk := { b_mod : N; b_kind : kind; b_time : N; b_woken : bool; b_log : list entry }.

Definition run_bracket (now m : N) (c : modcfg) (woken : bool) (k : kind) (s : es) : es * brk :=
  let s' := bracket now m c woken k {| lg := []; buf := buf s; bud := bud s; shut := shut s; dead := dead s |} in
  (s', {| b_mod := m; b_kind := k; b_time := now; b_woken := woken; b_log := lg s' |}).

Definition handle_message now m c woken (x : N) s := run_bracket now m c woken (KMsg x) s.
Definition async_wakeup now m c woken s := run_bracket now m c woken KWake s.
Definition at_sim_start now m c woken (stage : N) s := run_bracket now m c woken (KStart stage) s.
Definition at_sim_end now m c woken s := run_bracket now m c woken KEnd s.

Definition stage_list (n : N) : list N := map N.of_nat (seq 0 (N.to_nat n)).

(* for stage in 0..num_sim_start_stages() { at_sim_start(stage)?; if !active { break } } *)
Definition module_restart (now m : N) (c : modcfg) (s : es) : es * list brk :=
  fold_left (fun acc stage =>
               if dead (fst acc) then acc
               else let '(s1, b) := at_sim_start now m c false stage (fst acc) in (s1, snd acc ++ [b]))
            (stage_list (h_stages (m_handler c))) (s, []).

(* ---- the simulation ---- *)
Record mst := { active : bool; timer : option N }.   (* ctx.active; deadline of the sleeping task *)

Record world := { w_fes : fes; w_bud : N; w_m0 : mst; w_m1 : mst }.

Record script := { s_bud : N; s_m0 : modcfg; s_m1 : modcfg; s_inj : list (N * fev) }.

Definition cfg (sc : script) (m : N) : modcfg := if m =? 0 then s_m0 sc else s_m1 sc.
Definition mstate (w : world) (m : N) : mst := if m =? 0 then w_m0 w else w_m1 w.
Definition set_mst (w : world) (m : N) (x : mst) : world :=
  if m =? 0 then {| w_fes := w_fes w; w_bud := w_bud w; w_m0 := x; w_m1 := w_m1 w |}
  else {| w_fes := w_fes w; w_bud := w_bud w; w_m0 := w_m0 w; w_m1 := x |}.
Definition set_fes (w : world) (f : fes) : world :=
  {| w_fes := f; w_bud := w_bud w; w_m0 := w_m0 w; w_m1 := w_m1 w |}.

Inductive item := IBrk (b : brk) | IReset (m : N).

(* ModuleRef::activate: timer slots with deadline <= now are woken *)
Definition activate (now : N) (x : mst) : bool * mst :=
  match timer x with
  | Some d => if d <=? now then (true, {| active := active x; timer := None |}) else (false, x)
  | None => (false, x)
  end.

Definition es0 (b : N) : es := {| lg := []; buf := []; bud := b; shut := None; dead := false |}.

Definition fes_flush (ps : list (N * fev)) (f : fes) : fes := fold_left (fun f p => fes_add (fst p) (snd p) f) ps f.

(* [a caught panic has cleared ctx.active;] module.deactivate(rt) [schedules the wake-up of a newly registered timer], then buf_process:
   drain the buffered events into the event set in order, then handle a requested shutdown
   (deactivate, Module::reset, schedule the restart). *)
Definition finish_event (w : world) (m : N) (x0 : mst) (s : es) (its : list item) (wake : option N) : world * list item :=
  let x := if dead s then {| active := false; timer := timer x0 |} else x0 in
  let f0 := match wake with Some d => fes_add d (EvWake m) (w_fes w) | None => w_fes w end in
  let f1 := fes_flush (buf s) f0 in
  match shut s with
  | None => (set_mst {| w_fes := f1; w_bud := bud s; w_m0 := w_m0 w; w_m1 := w_m1 w |} m x, its)
  | Some r =>
    let f2 := match r with Some t => fes_add t (EvRestart m) f1 | None => f1 end in
    (set_mst {| w_fes := f2; w_bud := bud s; w_m0 := w_m0 w; w_m1 := w_m1 w |} m {| active := false; timer := None |},
     its ++ [IReset m])
  end.

(* the task spawned in at_sim_start(0) registers its sleep when first polled *)
Definition timer_reg (now : N) (c : modcfg) (stage : N) : option N :=
  if stage =? 0 then match h_extra (m_handler c) with XTimer d => Some (now + d + 1) | _ => None end else None.

(* NetEvents::handle for one event popped at time t *)
Definition process (sc : script) (w : world) (t : N) (ev : fev) : world * list item :=
  match ev with
  | EvExit chk dst x =>
    let ok := match chk with Some src => active (mstate w src) | None => true end in
    (if ok then set_fes w (fes_add t (EvDeliver dst x) (w_fes w)) else w, [])
  | EvDeliver m x =>
    let '(woken, ms) := activate t (mstate w m) in
    if active ms then
      let '(s, b) := handle_message t m (cfg sc m) woken x (es0 (w_bud w)) in
      finish_event w m ms s [IBrk b] None
    else (set_mst w m ms, [])
  | EvWake m =>
    let '(woken, ms) := activate t (mstate w m) in
    if active ms then
      let '(s, b) := async_wakeup t m (cfg sc m) woken (es0 (w_bud w)) in
      finish_event w m ms s [IBrk b] None
    else (set_mst w m ms, [])
  | EvRestart m =>
    let '(_, ms) := activate t (mstate w m) in
    let '(s, bs) := module_restart t m (cfg sc m) (es0 (w_bud w)) in
    finish_event w m {| active := true; timer := timer ms |} s (map IBrk bs) None
  end.

(* SimLifecycle::at_sim_start: stages outermost, modules in tree order; a module that an
   earlier stage deactivated is skipped *)
Definition start_one (sc : script) (stage m : N) (acc : world * list item) : world * list item :=
  let '(w, its) := acc in
  if (stage <? h_stages (m_handler (cfg sc m))) && active (mstate w m) then
    let '(woken, ms) := activate 0 (mstate w m) in
    let '(s, b) := at_sim_start 0 m (cfg sc m) woken stage (es0 (w_bud w)) in
    let reg := timer_reg 0 (cfg sc m) stage in
    let ms' := match reg with Some d => {| active := active ms; timer := Some d |} | None => ms end in
    let '(w', new) := finish_event w m ms' s [IBrk b] reg in
    (w', its ++ new)
  else acc.

Definition max_stage (sc : script) : N :=
  N.max 1 (N.max (h_stages (m_handler (s_m0 sc))) (h_stages (m_handler (s_m1 sc)))).

Definition sim_start (sc : script) (w : world) : world * list item :=
  fold_left (fun acc stage => start_one sc stage 1 (start_one sc stage 0 acc)) (stage_list (max_stage sc)) (w, []).

(* SimLifecycle::at_sim_end: every module, active or not; no buf_process *)
Definition end_one (sc : script) (now m : N) (acc : world * list item) : world * list item :=
  let '(w, its) := acc in
  let '(woken, ms) := activate now (mstate w m) in
  let '(s, b) := at_sim_end now m (cfg sc m) woken (es0 (w_bud w)) in
  (set_mst {| w_fes := w_fes w; w_bud := bud s; w_m0 := w_m0 w; w_m1 := w_m1 w |} m
           (if dead s then {| active := false; timer := timer ms |} else ms), its ++ [IBrk b]).

Definition sim_end (sc : script) (now : N) (w : world) : world * list item :=
  end_one sc now 1 (end_one sc now 0 (w, [])).

(* Runtime::run main loop *)
Definition lstate := (world * N * list item)%type.

Definition loop_step (sc : script) (st : lstate) : lstate + lstate :=
  let '(w, now, its) := st in
  match fes_fetch (w_fes w) with
  | None => inr st
  | Some (t, ev, f) => let '(w', new) := process sc (set_fes w f) t ev in inl (w', t, its ++ new)
  end.

Definition init_world (sc : script) : world :=
  {| w_fes := fes_flush (s_inj sc) {| f_tcur := 0; f_zero := []; f_rest := [] |}; w_bud := s_bud sc;
     w_m0 := {| active := true; timer := None |}; w_m1 := {| active := true; timer := None |} |}.

(* every loop iteration lowers  3*budget + sum of event weights  (Proc/Term.v proves that
   this fuel is never exhausted) *)
Definition fuel (sc : script) : positive :=
  N.succ_pos (3 * (s_bud sc + N.of_nat (length (s_inj sc))) + 2 * max_stage sc).

Definition run_script (sc : script) : list item * bool :=
  let '(w0, its0) := sim_start sc (init_world sc) in
  match iter_until (fuel sc) (loop_step sc) (w0, 0, its0) with
  | inr (w, now, its) => (its ++ snd (sim_end sc now w), true)
  | inl (_, _, its) => (its, false)
  end.

Definition item_log (it : item) : list entry :=
  match it with
  | IBrk b => b_log b
  | IReset m => [{| en_mod := m; en_who := Handler; en_hook := HReset |}]
  end.

Definition trace (sc : script) : list item := fst (run_script sc).
Definition flat_log (sc : script) : list entry := flat_map item_log (trace sc).

(* ---- wire format ---- *)
(* script := budget  nG blob*  mod mod  inj*
   blob   := len x1 .. xlen                           (length-prefixed)
   elem   := blob[ act k  lp(start emits) lp(in emits) lp(end emits) ]   act mod 3: 0 pass 1 modify(+k) 2 consume
   emits  := (peer delay id)*                         peer odd = send to "out", even = schedule to self
   mod    := mode nOwn blob*  blob[ handler ]         mode mod 4: 0 default stack, 1 default++own, 2 own, 3 own++default
   handler:= stages(mod 4) xkind(mod 4: 0 none 1 timer 2 shutdown 3 panic) xa xb xc  lp(start) lp(msg) lp(end) lp(task)
             timer: sleeps xa+1 ns;  shutdown: trigger payload xa, restart iff xb odd, after xc ns
             panic (caught): xb mod 3 = 0 in handle_message of payload xa, 1 in at_sim_start(xa), 2 in at_sim_end;
                             only from time xc on
             optional tail  pf pst psince  (after the four lists; used with shutdown only): pf odd = the module
             also panics (caught) in at_sim_start(pst) from time psince on
   inj    := kind dst time id                         kind odd = handle_message_on, even = add_message_onto(port) *)
Definition nxt (l : list N) : N * list N := match l with [] => (0, []) | x :: r => (x, r) end.

Fixpoint triples (l : list N) : list emit :=
  match l with
  | a :: b :: c :: r => {| e_peer := N.odd a; e_delay := b; e_id := c |} :: triples r
  | _ => []
  end.

Fixpoint take_blobs (k : nat) (l : list N) : list (list N) * list N :=
  match k with
  | O => ([], l)
  | S k' => match l with
            | [] => ([], [])
            | _ => let '(b, r) := take_lp l in let '(bs, r') := take_blobs k' r in (b :: bs, r')
            end
  end.

Definition blobs (l : list N) : list (list N) * list N :=
  let '(n, r) := nxt l in take_blobs (N.to_nat (N.min n (N.of_nat (length r)))) r.

Definition dec_elem (b : list N) : elem :=
  let '(a, r) := nxt b in let '(k, r) := nxt r in
  let '(s, r) := take_lp r in let '(i, r) := take_lp r in let '(e, _) := take_lp r in
  {| el_act := (if a mod 3 =? 0 then Pass else if a mod 3 =? 1 then Modify k else Consume);
     el_start := triples s; el_in := triples i; el_end := triples e |}.

Definition dec_handler (b : list N) : handler :=
  let '(st, r) := nxt b in let '(xk, r) := nxt r in
  let '(xa, r) := nxt r in let '(xb, r) := nxt r in let '(xc, r) := nxt r in
  let '(s, r) := take_lp r in let '(g, r) := take_lp r in let '(e, r) := take_lp r in let '(t, r) := take_lp r in
  let '(pf, r) := nxt r in let '(pst, r) := nxt r in let '(psince, _) := nxt r in
  {| h_stages := st mod 4;
     h_extra := (if xk mod 4 =? 0 then XNone else if xk mod 4 =? 1 then XTimer xa
                 else if xk mod 4 =? 2 then XShut xa (if N.odd xb then Some xc else None)
                                                  (if N.odd pf then Some (pst, psince) else None)
                 else XPanic (xb mod 3) xa xc);
     h_start := triples s; h_msg := triples g; h_end := triples e; h_task := triples t |}.

(* Module::stack(default) *)
Definition compose (mode : N) (g own : list elem) : list elem :=
  if mode mod 4 =? 0 then g else if mode mod 4 =? 1 then g ++ own else if mode mod 4 =? 2 then own else own ++ g.

Definition dec_mod (g : list elem) (l : list N) : modcfg * list N :=
  let '(mode, r) := nxt l in
  let '(own, r) := blobs r in
  let '(hb, r) := take_lp r in
  ({| m_stack := compose mode g (map dec_elem own); m_handler := dec_handler hb |}, r).

Fixpoint quads (l : list N) : list (N * fev) :=
  match l with
  | k :: d :: t :: x :: r =>
    (t, if N.odd k then EvDeliver (d mod 2) x else EvExit None (d mod 2) x) :: quads r
  | _ => []
  end.

Definition decode (l : list N) : script :=
  let '(b, r) := nxt l in
  let '(gb, r) := blobs r in
  let g := map dec_elem gb in
  let '(m0, r) := dec_mod g r in
  let '(m1, r) := dec_mod g r in
  {| s_bud := b; s_m0 := m0; s_m1 := m1; s_inj := quads r |}.

(* one log entry = 5 numbers: module who hook a b *)
Definition enc_who (w : who) : N := match w with Handler => 0 | Task => 1 | Elem i => 2 + N.of_nat i end.

Definition enc_entry (e : entry) : list N :=
  en_mod e :: enc_who (en_who e) ::
  match en_hook e with
  | HStart t => [1; t; 0]
  | HIn x => [2; x; 0]
  | HEnd => [3; 0; 0]
  | HHandle x t => [4; x; t]
  | HSimStart st t => [5; st; t]
  | HSimEnd t => [6; t; 0]
  | HTask t => [7; t; 0]
  | HReset => [8; 0; 0]
  | HSched d i => [9; d; i]
  | HSend d i => [10; d; i]
  | HShut None => [11; 0; 0]
  | HShut (Some d) => [11; 1; d]
  | HPanic => [12; 0; 0]
  end.

Definition run (input : list N) : list N :=
  let '(its, ok) := run_script (decode input) in
  flat_map enc_entry (flat_map item_log its) ++ (if ok then [] else [8]).
