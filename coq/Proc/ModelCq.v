(* The event loop of Proc/Model.v once more, over an ARBITRARY event-set implementation
   (Section Gen: a state type with add / fetch), and its instance over the CONCRETE calendar
   queue of des-cqueue (CQueue.Model.cq: buckets, head, t0/t1 window, with the parameters
   n, t of Builder::cqueue_options).  Everything below the event loop (processing stacks,
   entry points, brackets: Model.v [run_bracket], [handle_message], [module_restart], ...)
   does not touch the event set and is shared.  Every definition here is the one of Model.v
   with the event-set calls replaced (prefix g).  Proc/CqSim.v and Proc/CqInst.v prove that
   for all n, t >= 1 the run over the calendar queue prints exactly what Model.v prints.
   No proofs in this file. *)
From Coq Require Import List NArith PArith Bool.
From DesVerif Require Import Common.Fuel Common.Codec CQueue.Model Proc.Model.
Import ListNotations.
Open Scope N_scope.

Section Gen.
Variable Q : Type.
Variable q_add : N -> fev -> Q -> Q.                   (* FutureEventSet::add(time, event) *)
Variable q_fetch : Q -> option (N * fev * Q).          (* None when is_empty(), else fetch_next() *)

Record gworld := { g_q : Q; g_bud : N; g_m0 : mst; g_m1 : mst }.

Definition gmstate (w : gworld) (m : N) : mst := if m =? 0 then g_m0 w else g_m1 w.
Definition gset_mst (w : gworld) (m : N) (x : mst) : gworld :=
  if m =? 0 then {| g_q := g_q w; g_bud := g_bud w; g_m0 := x; g_m1 := g_m1 w |}
  else {| g_q := g_q w; g_bud := g_bud w; g_m0 := g_m0 w; g_m1 := x |}.
Definition gset_q (w : gworld) (q : Q) : gworld :=
  {| g_q := q; g_bud := g_bud w; g_m0 := g_m0 w; g_m1 := g_m1 w |}.

Definition q_flush (ps : list (N * fev)) (q : Q) : Q := fold_left (fun q p => q_add (fst p) (snd p) q) ps q.

Definition gfinish_event (w : gworld) (m : N) (x0 : mst) (s : es) (its : list item) (wake : option N) : gworld * list item :=
  let x := if dead s then {| active := false; timer := timer x0 |} else x0 in
  let f0 := match wake with Some d => q_add d (EvWake m) (g_q w) | None => g_q w end in
  let f1 := q_flush (buf s) f0 in
  match shut s with
  | None => (gset_mst {| g_q := f1; g_bud := bud s; g_m0 := g_m0 w; g_m1 := g_m1 w |} m x, its)
  | Some r =>
    let f2 := match r with Some t => q_add t (EvRestart m) f1 | None => f1 end in
    (gset_mst {| g_q := f2; g_bud := bud s; g_m0 := g_m0 w; g_m1 := g_m1 w |} m {| active := false; timer := None |},
     its ++ [IReset m])
  end.

Definition gprocess (sc : script) (w : gworld) (t : N) (ev : fev) : gworld * list item :=
  match ev with
  | EvExit chk dst x =>
    let ok := match chk with Some src => active (gmstate w src) | None => true end in
    (if ok then gset_q w (q_add t (EvDeliver dst x) (g_q w)) else w, [])
  | EvDeliver m x =>
    let '(woken, ms) := activate t (gmstate w m) in
    if active ms then
      let '(s, b) := handle_message t m (cfg sc m) woken x (es0 (g_bud w)) in
      gfinish_event w m ms s [IBrk b] None
    else (gset_mst w m ms, [])
  | EvWake m =>
    let '(woken, ms) := activate t (gmstate w m) in
    if active ms then
      let '(s, b) := async_wakeup t m (cfg sc m) woken (es0 (g_bud w)) in
      gfinish_event w m ms s [IBrk b] None
    else (gset_mst w m ms, [])
  | EvRestart m =>
    let '(_, ms) := activate t (gmstate w m) in
    let '(s, bs) := module_restart t m (cfg sc m) (es0 (g_bud w)) in
    gfinish_event w m {| active := true; timer := timer ms |} s (map IBrk bs) None
  end.

Definition gstart_one (sc : script) (stage m : N) (acc : gworld * list item) : gworld * list item :=
  let '(w, its) := acc in
  if (stage <? h_stages (m_handler (cfg sc m))) && active (gmstate w m) then
    let '(woken, ms) := activate 0 (gmstate w m) in
    let '(s, b) := at_sim_start 0 m (cfg sc m) woken stage (es0 (g_bud w)) in
    let reg := timer_reg 0 (cfg sc m) stage in
    let ms' := match reg with Some d => {| active := active ms; timer := Some d |} | None => ms end in
    let '(w', new) := gfinish_event w m ms' s [IBrk b] reg in
    (w', its ++ new)
  else acc.

Definition gsim_start (sc : script) (w : gworld) : gworld * list item :=
  fold_left (fun acc stage => gstart_one sc stage 1 (gstart_one sc stage 0 acc)) (stage_list (max_stage sc)) (w, []).

Definition gend_one (sc : script) (now m : N) (acc : gworld * list item) : gworld * list item :=
  let '(w, its) := acc in
  let '(woken, ms) := activate now (gmstate w m) in
  let '(s, b) := at_sim_end now m (cfg sc m) woken (es0 (g_bud w)) in
  (gset_mst {| g_q := g_q w; g_bud := bud s; g_m0 := g_m0 w; g_m1 := g_m1 w |} m
            (if dead s then {| active := false; timer := timer ms |} else ms), its ++ [IBrk b]).

Definition gsim_end (sc : script) (now : N) (w : gworld) : gworld * list item :=
  gend_one sc now 1 (gend_one sc now 0 (w, [])).

Definition glstate := (gworld * N * list item)%type.

Definition gloop_step (sc : script) (st : glstate) : glstate + glstate :=
  let '(w, now, its) := st in
  match q_fetch (g_q w) with
  | None => inr st
  | Some (t, ev, f) => let '(w', new) := gprocess sc (gset_q w f) t ev in inl (w', t, its ++ new)
  end.

Definition ginit_world (q0 : Q) (sc : script) : gworld :=
  {| g_q := q_flush (s_inj sc) q0; g_bud := s_bud sc;
     g_m0 := {| active := true; timer := None |}; g_m1 := {| active := true; timer := None |} |}.

Definition grun_script (q0 : Q) (sc : script) : list item * bool :=
  let '(w0, its0) := gsim_start sc (ginit_world q0 sc) in
  match iter_until (fuel sc) (gloop_step sc) (w0, 0, its0) with
  | inr (w, now, its) => (its ++ snd (gsim_end sc now w), true)
  | inl (_, _, its) => (its, false)
  end.
End Gen.

Arguments g_q {Q}. Arguments g_bud {Q}. Arguments g_m0 {Q}. Arguments g_m1 {Q}.

(* ---- the instance over the calendar queue ----
   The queue stores, as the payload of an entry, the index of the event in an event store
   (the real queue stores the boxed event itself); the store only grows. *)
Definition cqs := (cq * list fev)%type.

(* cqueue_impl add: CQueue::add(time, event) *)
Definition cq_add (t : N) (e : fev) (qs : cqs) : cqs :=
  (fst (fst (add (fst qs) t (N.of_nat (length (snd qs))))), snd qs ++ [e]).

(* Runtime::dispatch_all: while !fes.is_empty() { fes.fetch_next() .. } *)
Definition cq_fetch (qs : cqs) : option (N * fev * cqs) :=
  if qlen (fst qs) =? 0 then None
  else match fetch_next (fst qs) with
       | (q', OFetched p t) => Some (t, nth (N.to_nat p) (snd qs) (EvWake 0), (q', snd qs))
       | _ => None
       end.

(* FutureEventSet::new_with -> CQueue::new_at(n, t, SimTime::ZERO) *)
Definition cq_init (n t : N) : cqs := (cq_new_at n t 0, []).

Definition cworld := gworld cqs.
Definition process_cq := gprocess cqs cq_add.
Definition loop_step_cq := gloop_step cqs cq_add cq_fetch.
Definition sim_start_cq := gsim_start cqs cq_add.
Definition init_world_cq (n t : N) := ginit_world cqs cq_add (cq_init n t).
Definition cq_flush := q_flush cqs cq_add.

Definition run_script_cq (n t : N) (sc : script) : list item * bool := grun_script cqs cq_add cq_fetch (cq_init n t) sc.
Definition trace_cq (n t : N) (sc : script) : list item := fst (run_script_cq n t sc).
Definition flat_log_cq (n t : N) (sc : script) : list entry := flat_map item_log (trace_cq n t sc).

(* the same wire format as Model.run, for a given parameterisation of the calendar queue *)
Definition run_cq (n t : N) (input : list N) : list N :=
  let '(its, ok) := run_script_cq n t (decode input) in
  flat_map enc_entry (flat_map item_log its) ++ (if ok then [] else [8]).
