(* Vocabulary for the C19 statements: what a world's gate graph says (endpoint
   gates, far ends, module reachability), what an exact view of it is, and
   the graph notions of a topology object (steps, walks, reachability); plus
   the list lemmas about [position] and [mem] every other file needs. *)
From Coq Require Import List Arith Bool Lia Relations.
From DesVerif Require Import Topo.Model.
Import ListNotations.

(* ---- position / mem ---- *)
Lemma mem_true_iff x l : mem x l = true <-> In x l.
Proof.
  unfold mem. rewrite existsb_exists. split.
  - intros [y [Hin He]]. apply Nat.eqb_eq in He. subst. exact Hin.
  - intros Hin. exists x. split; [exact Hin|apply Nat.eqb_refl].
Qed.

Lemma mem_false_iff x l : mem x l = false <-> ~ In x l.
Proof. rewrite <- mem_true_iff. destruct (mem x l); intuition congruence. Qed.

Lemma position_Some x l i : position x l = Some i -> nth_error l i = Some x.
Proof.
  revert i. induction l as [|y r IH]; intros i H; cbn [position] in H; [discriminate|].
  destruct (Nat.eqb_spec y x) as [E|N].
  - inversion H. subst. reflexivity.
  - destruct (position x r) as [j|]; [|discriminate]. inversion H. subst. cbn [nth_error]. apply IH. reflexivity.
Qed.

Lemma position_first x l i : position x l = Some i -> forall j, j < i -> nth_error l j <> Some x.
Proof.
  revert i. induction l as [|y r IH]; intros i H j Hj; cbn [position] in H; [discriminate|].
  destruct (Nat.eqb_spec y x) as [E|N].
  - inversion H. subst. lia.
  - destruct (position x r) as [k|] eqn:P; [|discriminate]. inversion H. subst.
    destruct j as [|j]; cbn [nth_error].
    + intro E. inversion E. contradiction.
    + apply (IH k eq_refl). lia.
Qed.

Lemma position_None x l : position x l = None <-> ~ In x l.
Proof.
  induction l as [|y r IH]; cbn [position In]; [tauto|].
  destruct (Nat.eqb_spec y x) as [E|N].
  - split; [discriminate|]. intros H. exfalso. apply H. left. exact E.
  - destruct (position x r) as [k|].
    + split; [discriminate|]. intros H. exfalso. apply H. right.
      destruct IH as [_ IH]. destruct (in_dec Nat.eq_dec x r) as [I|I]; [exact I|]. specialize (IH I). discriminate.
    + split; [|reflexivity]. intros _ [E|I]; [contradiction|]. apply IH; [reflexivity|exact I].
Qed.

Lemma position_In x l : In x l -> exists i, position x l = Some i.
Proof.
  intros H. destruct (position x l) as [i|] eqn:P; [exists i; reflexivity|].
  apply position_None in P. contradiction.
Qed.

Lemma position_lt x l i : position x l = Some i -> i < length l.
Proof. intros H. apply position_Some in H. apply nth_error_Some. rewrite H. discriminate. Qed.

Lemma NoDup_nth_error_inj {A} (l : list A) i j x :
  NoDup l -> nth_error l i = Some x -> nth_error l j = Some x -> i = j.
Proof.
  intros ND Hi Hj. apply (proj1 (NoDup_nth_error l) ND).
  - apply nth_error_Some. rewrite Hi. discriminate.
  - rewrite Hi, Hj. reflexivity.
Qed.

Lemma position_NoDup x l i : NoDup l -> nth_error l i = Some x -> position x l = Some i.
Proof.
  intros ND H. destruct (position_In x l) as [j Hj]; [eapply nth_error_In; exact H|].
  rewrite Hj. f_equal. eapply NoDup_nth_error_inj; [exact ND| |exact H]. apply position_Some. exact Hj.
Qed.

Lemma position_app x l1 l2 :
  position x (l1 ++ l2) = match position x l1 with
                          | Some i => Some i
                          | None => match position x l2 with Some j => Some (length l1 + j) | None => None end
                          end.
Proof.
  induction l1 as [|y r IH]; cbn [app position length Nat.add].
  - destruct (position x l2); reflexivity.
  - destruct (y =? x); [reflexivity|]. rewrite IH.
    destruct (position x r); [reflexivity|]. destruct (position x l2); reflexivity.
Qed.

Lemma position_seq n m : m < n -> position m (seq 0 n) = Some m.
Proof.
  intros H. apply position_NoDup; [apply seq_NoDup|].
  rewrite nth_error_nth' with (d := 0); [|rewrite seq_length; exact H]. rewrite seq_nth; [reflexivity|exact H].
Qed.

(* ---- the gate graph of a world ---- *)
(* endpoint gates of module m in gate order, each with its chain *)
Fixpoint endpoints_from (m gi : nat) (gs : list gate) : list (gref * list gref) :=
  match gs with
  | [] => []
  | Endpoint c :: r => ((m, gi), c) :: endpoints_from m (S gi) r
  | _ :: r => endpoints_from m (S gi) r
  end.
Definition endpoints (w : world) (m : nat) : list (gref * list gref) := endpoints_from m 0 (gates_of w m).

(* the other end of the chain that starts at endpoint gate g with chain c *)
Definition far_end (g : gref) (c : list gref) : gref := last c g.

Lemma endpoints_from_In m gi gs g c :
  In (g, c) (endpoints_from m gi gs) <-> exists k, g = (m, gi + k) /\ nth_error gs k = Some (Endpoint c).
Proof.
  revert gi. induction gs as [|x r IH]; intros gi; cbn [endpoints_from].
  - split; [intros []|]. intros [k [_ H]]. destruct k; discriminate.
  - assert (R : In (g, c) (endpoints_from m (S gi) r) <->
                exists k, g = (m, gi + S k) /\ nth_error (x :: r) (S k) = Some (Endpoint c)).
    { rewrite IH. split; intros [k [E H]]; exists k; (split; [rewrite E; f_equal; lia|exact H]). }
    destruct x as [| |c'].
    + rewrite R. split; intros [k [E H]]; [exists (S k); tauto|].
      destruct k as [|k]; [discriminate|]. exists k. tauto.
    + rewrite R. split; intros [k [E H]]; [exists (S k); tauto|].
      destruct k as [|k]; [discriminate|]. exists k. tauto.
    + cbn [In]. rewrite R. split.
      * intros [E|[k [E H]]]; [|exists (S k); tauto].
        inversion E. subst. exists 0. rewrite Nat.add_0_r. split; reflexivity.
      * intros [k [E H]]. destruct k as [|k]; [|right; exists k; tauto].
        left. cbn [nth_error] in H. inversion H. subst. rewrite Nat.add_0_r. reflexivity.
Qed.

Lemma endpoints_In w m g c :
  In (g, c) (endpoints w m) <-> exists gi, g = (m, gi) /\ nth_error (gates_of w m) gi = Some (Endpoint c).
Proof. unfold endpoints. rewrite endpoints_from_In. cbn [Nat.add]. tauto. Qed.

Lemma endpoints_from_starts_lt m gi gs g c : In (g, c) (endpoints_from m gi gs) -> fst g = m /\ gi <= snd g.
Proof. rewrite endpoints_from_In. intros [k [E _]]. subst. cbn [fst snd]. split; [reflexivity|lia]. Qed.

(* every endpoint gate occurs once: "exactly one edge per endpoint" is a Forall2 against this list *)
Lemma endpoints_from_NoDup m gi gs : NoDup (map fst (endpoints_from m gi gs)).
Proof.
  revert gi. induction gs as [|x r IH]; intros gi; cbn [endpoints_from map]; [constructor|].
  destruct x as [| |c]; try apply IH. cbn [map fst]. constructor; [|apply IH].
  intros H. apply in_map_iff in H. destruct H as [[g c'] [E H]]. cbn [fst] in E. subst g.
  apply endpoints_from_starts_lt in H. cbn [snd] in H. lia.
Qed.

Lemma endpoints_NoDup w m : NoDup (map fst (endpoints w m)).
Proof. apply endpoints_from_NoDup. Qed.

(* worlds the theorems are about: chains within the supported number of hops,
   and the far end of every chain is a gate of a module of the world *)
Definition short (w : world) : Prop :=
  forall m g c, In (g, c) (endpoints w m) -> length c <= MAX_HOPS.
Definition closed (w : world) : Prop :=
  forall m g c, In (g, c) (endpoints w m) -> fst (far_end g c) < length w.

(* module m' is the owner of the far end of a chain starting at a gate of m *)
Definition madj (w : world) (m m' : nat) : Prop :=
  exists g c, In (g, c) (endpoints w m) /\ fst (far_end g c) = m'.
Definition mreach (w : world) : nat -> nat -> Prop := clos_refl_trans_1n nat (madj w).

(* ---- exact views ---- *)
(* the edge a view must contain for endpoint gate g with chain c *)
Definition expected_edge (nds : list nat) (gc : gref * list gref) (e : edge) : Prop :=
  e_start e = fst gc /\ e_stop e = far_end (fst gc) (snd gc) /\
  nth_error nds (e_dst e) = Some (fst (far_end (fst gc) (snd gc))).

(* t is an exact view of the gate graph of w restricted to its node set:
   every module at most once; node i carries, in gate order, exactly one edge
   per endpoint gate of its module (whose far owner is [sel]ected), labelled
   with that gate and the far gate and leading to the node of the far owner *)
Definition exact_view_on (sel : gref * list gref -> bool) (w : world) (t : topo) : Prop :=
  NoDup (nodes t) /\ length (edges t) = length (nodes t) /\
  forall i m, nth_error (nodes t) i = Some m ->
              Forall2 (expected_edge (nodes t)) (filter sel (endpoints w m)) (bundle t i).
Definition exact_view : world -> topo -> Prop := exact_view_on (fun _ => true).

(* ---- graph notions of a topology object ---- *)
Definition topo_ok (t : topo) : Prop :=
  length (edges t) = length (nodes t) /\ forall i e, In e (bundle t i) -> e_dst e < length (nodes t).

Inductive walk (t : topo) : nat -> list edge -> nat -> Prop :=
| walk_nil u : walk t u [] u
| walk_cons u e p v : In e (bundle t u) -> walk t (e_dst e) p v -> walk t u (e :: p) v.

Definition treach (t : topo) (u v : nat) : Prop := exists p, walk t u p v.

Lemma walk_app t u p v q x : walk t u p v -> walk t v q x -> walk t u (p ++ q) x.
Proof. induction 1 as [u|u e p v Hin _ IH]; intros Hq; cbn [app]; [exact Hq|]. constructor; [exact Hin|apply IH; exact Hq]. Qed.

Lemma walk_snoc t u p v e : walk t u p v -> In e (bundle t v) -> walk t u (p ++ [e]) (e_dst e).
Proof. intros Hp He. eapply walk_app; [exact Hp|]. constructor; [exact He|constructor]. Qed.

Lemma treach_refl t u : treach t u u.
Proof. exists []. constructor. Qed.

Lemma treach_step t u e v : In e (bundle t u) -> treach t (e_dst e) v -> treach t u v.
Proof. intros He [p Hp]. exists (e :: p). constructor; assumption. Qed.

Lemma treach_trans t u v x : treach t u v -> treach t v x -> treach t u x.
Proof. intros [p Hp] [q Hq]. exists (p ++ q). eapply walk_app; eassumption. Qed.

Lemma bundle_In_lt t i e : In e (bundle t i) -> i < length (edges t).
Proof.
  unfold bundle. intros H. destruct (Nat.lt_ge_cases i (length (edges t))) as [L|G]; [exact L|].
  rewrite nth_overflow in H; [destruct H|exact G].
Qed.

Lemma walk_lt t u p v : topo_ok t -> u < length (nodes t) -> walk t u p v -> v < length (nodes t).
Proof. intros [_ Hd] Hu W. induction W as [u|u e p v Hin _ IH]; [exact Hu|]. apply IH. eapply Hd. exact Hin. Qed.

Lemma Forall2_In_r {A B} (R : A -> B -> Prop) l1 l2 b :
  Forall2 R l1 l2 -> In b l2 -> exists a, In a l1 /\ R a b.
Proof.
  induction 1 as [|x y l1 l2 Hxy _ IH]; intros Hin; [destruct Hin|].
  destruct Hin as [E|Hin].
  - subst. exists x. split; [left; reflexivity|exact Hxy].
  - destruct (IH Hin) as [a [Ha Hr]]. exists a. split; [right; exact Ha|exact Hr].
Qed.

Lemma Forall2_In_l {A B} (R : A -> B -> Prop) l1 l2 a :
  Forall2 R l1 l2 -> In a l1 -> exists b, In b l2 /\ R a b.
Proof.
  induction 1 as [|x y l1 l2 Hxy _ IH]; intros Hin; [destruct Hin|].
  destruct Hin as [E|Hin].
  - subst. exists y. split; [left; reflexivity|exact Hxy].
  - destruct (IH Hin) as [b [Hb Hr]]. exists b. split; [right; exact Hb|exact Hr].
Qed.

Lemma exact_view_on_ok sel w t : exact_view_on sel w t -> topo_ok t.
Proof.
  intros [ND [Hl Hb]]. split; [exact Hl|]. intros i e Hin.
  assert (Hi : i < length (nodes t)) by (rewrite <- Hl; eapply bundle_In_lt; exact Hin).
  destruct (nth_error (nodes t) i) as [m|] eqn:Hm; [|apply nth_error_None in Hm; lia].
  specialize (Hb i m Hm).
  destruct (Forall2_In_r _ _ _ _ Hb Hin) as [gc [_ [_ [_ Hd]]]].
  apply nth_error_Some. rewrite Hd. discriminate.
Qed.
