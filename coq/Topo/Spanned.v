(* Topology::spanned (C19, second clause).  The loop hands out node indices for
   modules that are still pending.  The key fact: with a FIFO work list the
   concatenation  L = nodes ++ pending  never changes except by appending at its
   end, and every index handed out is the position of the module in L.  When
   the loop ends, L is the node list. *)
From Coq Require Import List Arith Bool Lia Relations.
From DesVerif Require Import Topo.Model Topo.Graph.
Import ListNotations.

Lemma NoDup_app_snoc {A} (l : list A) x : NoDup l -> ~ In x l -> NoDup (l ++ [x]).
Proof.
  induction l as [|y r IH]; intros ND Hn; cbn [app].
  - constructor; [intros []|constructor].
  - inversion ND as [|y' r' Hy ND']. subst. constructor.
    + intro H. apply in_app_or in H. destruct H as [H|[H|[]]]; [contradiction|]. subst. apply Hn. left. reflexivity.
    + apply IH; [exact ND'|]. intro H. apply Hn. right. exact H.
Qed.

(* ---- the index prediction ---- *)
Lemma sp_index_spec nds queue x i q' :
  nds <> [] ->
  sp_index nds (length nds - 1) queue x = (i, q') ->
  position x (nds ++ q') = Some i /\
  ((q' = queue /\ In x (nds ++ queue)) \/ (q' = queue ++ [x] /\ ~ In x (nds ++ queue))).
Proof.
  intros Hne H. unfold sp_index in H.
  assert (Hl : length nds - 1 + 1 = length nds).
  { destruct nds; [contradiction|cbn [length]; lia]. }
  destruct (position x nds) as [j|] eqn:P1.
  - inversion H. subst. split.
    + rewrite position_app, P1. reflexivity.
    + left. split; [reflexivity|]. apply in_or_app. left. eapply nth_error_In. apply position_Some. exact P1.
  - destruct (position x queue) as [off|] eqn:P2.
    + inversion H. subst. split.
      * rewrite position_app, P1, P2. f_equal. lia.
      * left. split; [reflexivity|]. apply in_or_app. right. eapply nth_error_In. apply position_Some. exact P2.
    + inversion H. subst. split.
      * rewrite position_app, P1, position_app, P2. cbn [position]. rewrite Nat.eqb_refl.
        f_equal. rewrite app_length. cbn [length]. lia.
      * right. split; [reflexivity|]. intros Hin. apply in_app_or in Hin.
        apply position_None in P1. apply position_None in P2. tauto.
Qed.

Lemma expected_edge_mono L ext gc e : expected_edge L gc e -> expected_edge (L ++ ext) gc e.
Proof.
  intros [H1 [H2 H3]]. split; [exact H1|]. split; [exact H2|].
  rewrite nth_error_app1; [exact H3|]. apply nth_error_Some. rewrite H3. discriminate.
Qed.

Lemma Forall2_expected_mono L ext l es :
  Forall2 (expected_edge L) l es -> Forall2 (expected_edge (L ++ ext)) l es.
Proof. induction 1; constructor; [apply expected_edge_mono; assumption|assumption]. Qed.

(* one module's gate loop *)
Lemma sp_gates_spec nds m gs : forall gi queue es q'',
  nds <> [] -> NoDup (nds ++ queue) ->
  sp_gates nds (length nds - 1) m gi gs queue = (es, q'') ->
  exists ext, q'' = queue ++ ext /\ NoDup (nds ++ q'') /\
    Forall2 (expected_edge (nds ++ q'')) (endpoints_from m gi gs) es /\
    (forall x, In x ext -> exists g c, In (g, c) (endpoints_from m gi gs) /\ fst (far_end g c) = x).
Proof.
  induction gs as [|x r IH]; intros gi queue es q'' Hne ND H; cbn [sp_gates endpoints_from] in *.
  - inversion H. subst. exists []. rewrite app_nil_r. split; [reflexivity|]. split; [exact ND|].
    split; [constructor|]. intros y [].
  - destruct x as [| |c]; try (apply IH; assumption).
    destruct (sp_index nds (length nds - 1) queue (fst (last c (m, gi)))) as [idx q1] eqn:SI.
    destruct (sp_gates nds (length nds - 1) m (S gi) r q1) as [es' q2] eqn:SG.
    inversion H. subst es q''. clear H.
    destruct (sp_index_spec _ _ _ _ _ Hne SI) as [Hpos Hq1].
    assert (ND1 : NoDup (nds ++ q1)).
    { destruct Hq1 as [[E _]|[E Hnin]]; subst q1; [exact ND|].
      rewrite app_assoc. apply NoDup_app_snoc; assumption. }
    destruct (IH (S gi) q1 es' q2 Hne ND1 SG) as [ext [E2 [ND2 [F2 Hext]]]].
    assert (Hq1' : exists ext1, q1 = queue ++ ext1 /\
                   forall y, In y ext1 -> y = fst (far_end (m, gi) c)).
    { destruct Hq1 as [[E _]|[E _]]; subst q1.
      - exists []. rewrite app_nil_r. split; [reflexivity|]. intros y [].
      - exists [fst (last c (m, gi))]. split; [reflexivity|]. intros y [Hy|[]]. subst y. reflexivity. }
    destruct Hq1' as [ext1 [E1 Hext1]].
    exists (ext1 ++ ext). split; [subst q2 q1; rewrite app_assoc; reflexivity|]. split; [exact ND2|]. split.
    + constructor; [|exact F2].
      unfold expected_edge, far_end. cbn [e_start e_stop e_dst fst snd].
      split; [reflexivity|]. split; [reflexivity|].
      subst q2. rewrite app_assoc. rewrite nth_error_app1.
      * apply position_Some. exact Hpos.
      * eapply position_lt. exact Hpos.
    + intros y Hy. apply in_app_or in Hy. destruct Hy as [Hy|Hy].
      * exists (m, gi), c. split; [left; reflexivity|]. symmetry. apply Hext1. exact Hy.
      * destruct (Hext y Hy) as [g [c' [Hin Hf]]]. exists g, c'. split; [right; exact Hin|exact Hf].
Qed.

(* ---- module reachability ---- *)
Lemma mreach_snoc w a b c : mreach w a b -> madj w b c -> mreach w a c.
Proof.
  intros H Hbc. induction H as [x|x y z Hxy _ IH].
  - econstructor 2; [exact Hbc|constructor 1].
  - econstructor 2; [exact Hxy|apply IH; exact Hbc].
Qed.

Lemma NoDup_bounded_length (l : list nat) n : NoDup l -> (forall x, In x l -> x < n) -> length l <= n.
Proof.
  intros ND Hb. rewrite <- (seq_length n 0). apply NoDup_incl_length; [exact ND|].
  intros x Hx. apply in_seq. specialize (Hb x Hx). lia.
Qed.

Section Loop.
Variable w : world.
Variable root : nat.
Hypothesis Hclosed : closed w.

(* the loop invariant; L = nds ++ queue is the final node list in the making *)
Definition sp_inv (nds : list nat) (eds : list (list edge)) (queue : list nat) : Prop :=
  NoDup (nds ++ queue) /\ length eds = length nds /\
  (forall i m, nth_error nds i = Some m ->
               Forall2 (expected_edge (nds ++ queue)) (endpoints w m) (nth i eds [])) /\
  (forall m, In m (nds ++ queue) -> mreach w root m) /\
  (forall m m', In m nds -> madj w m m' -> In m' (nds ++ queue)) /\
  hd_error (nds ++ queue) = Some root /\
  (forall m, In m (nds ++ queue) -> m < length w).

Lemma sp_inv_step nds eds m q b q' :
  sp_inv nds eds (m :: q) ->
  sp_gates (nds ++ [m]) (length (nds ++ [m]) - 1) m 0 (gates_of w m) q = (b, q') ->
  sp_inv (nds ++ [m]) (eds ++ [b]) q'.
Proof.
  intros [ND [Hl [Hb [Hr [Hcl [Hhd Hlt]]]]]] SG.
  assert (EL : (nds ++ [m]) ++ q = nds ++ m :: q) by (rewrite <- app_assoc; reflexivity).
  assert (Hne : nds ++ [m] <> []) by (intros E; apply app_eq_nil in E; destruct E; discriminate).
  assert (ND' : NoDup ((nds ++ [m]) ++ q)) by (rewrite EL; exact ND).
  destruct (sp_gates_spec _ _ _ _ _ _ _ Hne ND' SG) as [ext [E [ND2 [F Hext]]]].
  assert (EL2 : (nds ++ [m]) ++ q' = (nds ++ m :: q) ++ ext) by (subst q'; rewrite app_assoc, EL; reflexivity).
  assert (Hm : mreach w root m) by (apply Hr; apply in_or_app; right; left; reflexivity).
  unfold sp_inv. rewrite EL2. rewrite EL2 in ND2, F.
  split; [exact ND2|]. split; [rewrite !app_length, Hl; reflexivity|]. split; [|split; [|split; [|split]]].
  - intros i m0 Hi. destruct (Nat.lt_ge_cases i (length nds)) as [Lt|Ge].
    + rewrite nth_error_app1 in Hi by exact Lt. rewrite app_nth1 by (rewrite Hl; exact Lt).
      apply Forall2_expected_mono. apply Hb. exact Hi.
    + rewrite nth_error_app2 in Hi by exact Ge.
      destruct (i - length nds) as [|k] eqn:Ek; [|destruct k; discriminate].
      cbn [nth_error] in Hi. inversion Hi. subst m0.
      assert (i = length eds) by lia. subst i. rewrite app_nth2 by lia. rewrite Nat.sub_diag. cbn [nth].
      exact F.
  - intros x Hx. apply in_app_or in Hx. destruct Hx as [Hx|Hx]; [apply Hr; exact Hx|].
    destruct (Hext x Hx) as [g [c [Hin Hf]]]. eapply mreach_snoc; [exact Hm|]. exists g, c. split; assumption.
  - intros x x' Hx Hadj. apply in_app_or in Hx. destruct Hx as [Hx|[Hx|[]]].
    + apply in_or_app. left. eapply Hcl; eassumption.
    + subst x. destruct Hadj as [g [c [Hin Hf]]].
      destruct (Forall2_In_l _ _ _ _ F Hin) as [e [_ [_ [_ Hd]]]]. cbn [fst snd] in Hd.
      rewrite Hf in Hd. eapply nth_error_In. exact Hd.
  - destruct (nds ++ m :: q) as [|y l] eqn:E'; [discriminate|]. exact Hhd.
  - intros x Hx. apply in_app_or in Hx. destruct Hx as [Hx|Hx]; [apply Hlt; exact Hx|].
    destruct (Hext x Hx) as [g [c [Hin Hf]]]. rewrite <- Hf. eapply Hclosed. exact Hin.
Qed.

Definition sp_final (t : topo) : Prop :=
  exact_view w t /\ hd_error (nodes t) = Some root /\ forall m, In m (nodes t) <-> mreach w root m.

Lemma sp_inv_final nds eds : sp_inv nds eds [] -> sp_final {| nodes := nds; edges := eds |}.
Proof.
  unfold sp_inv. rewrite app_nil_r. intros [ND [Hl [Hb [Hr [Hcl [Hhd _]]]]]].
  split; [|split; [exact Hhd|]].
  - split; [exact ND|]. split; [exact Hl|]. intros i m Hm. cbn [nodes] in *.
    assert (E : forall l : list (gref * list gref), filter (fun _ => true) l = l).
    { induction l as [|x l IH]; cbn [filter]; [reflexivity|f_equal; exact IH]. }
    rewrite E. unfold bundle. cbn [edges]. apply Hb. exact Hm.
  - intros m. cbn [nodes]. split; [apply Hr|].
    intros H. assert (Hroot : In root nds) by (destruct nds; [discriminate|inversion Hhd; left; reflexivity]).
    assert (Hclo : forall a b, mreach w a b -> In a nds -> In b nds).
    { intros a b Hab. induction Hab as [x|x y z Hxy _ IH]; intros Ha; [exact Ha|]. apply IH. eapply Hcl; eassumption. }
    apply (Hclo root m H Hroot).
Qed.

Lemma sp_loop_total fuel : forall nds eds queue,
  sp_inv nds eds queue -> S (length w) <= fuel + length nds ->
  exists t, sp_loop fuel w nds eds queue = Some t /\ sp_final t.
Proof.
  induction fuel as [|f IH]; intros nds eds queue Hinv Hf.
  - destruct queue as [|m q]; cbn [sp_loop].
    + eexists. split; [reflexivity|apply sp_inv_final; exact Hinv].
    + exfalso. destruct Hinv as [ND [_ [_ [_ [_ [_ Hlt]]]]]].
      pose proof (NoDup_bounded_length _ _ ND Hlt) as Hb. rewrite app_length in Hb. cbn [length] in Hb. lia.
  - destruct queue as [|m q]; cbn [sp_loop].
    + eexists. split; [reflexivity|apply sp_inv_final; exact Hinv].
    + destruct (sp_gates (nds ++ [m]) (length (nds ++ [m]) - 1) m 0 (gates_of w m) q) as [b q'] eqn:SG.
      apply IH; [eapply sp_inv_step; eassumption|]. rewrite app_length. cbn [length]. lia.
Qed.

End Loop.

Theorem spanned_exact w root :
  closed w -> root < length w ->
  exists t, spanned w root = Some t /\ exact_view w t /\ hd_error (nodes t) = Some root /\
            forall m, In m (nodes t) <-> mreach w root m.
Proof.
  intros Hc Hr. unfold spanned.
  apply (sp_loop_total w root Hc (S (length w)) [] [] [root]); [|cbn [length]; lia].
  unfold sp_inv. cbn [app length]. split; [constructor; [intros []|constructor]|]. split; [reflexivity|].
  split; [intros i m H; destruct i; discriminate|]. split; [intros m [E|[]]; subst; constructor 1|].
  split; [intros m m' []|]. split; [reflexivity|]. intros m [E|[]]. subst. exact Hr.
Qed.
