(* Concrete model of des/src/net/topology.rs (C19).  Function names and branch
   structure follow the Rust code as it is now (after the fix: commits 0df464e
   and 4342f5b: both work lists are FIFO).  No proofs in this file.

   The gate layer (C08) is seen through a small abstract view: a world is a
   list of modules, a module an ordered list of gates (the order of
   ModuleContext::gates, i.e. creation order).  A gate is standalone, transit
   or an endpoint; an endpoint carries its chain: the gates that path_iter
   visits, in order, the last one being the other end.  A gate is named by
   (index of the owner module, position in the owner's gate list); module
   ids and ObjectPaths are represented by the module index.  All numbers in
   this file are list positions, hence nat. *)
From Coq Require Import List NArith Arith Bool.
From DesVerif Require Import Common.Codec.
Import ListNotations.
Close Scope N_scope.
Open Scope nat_scope.

Definition gref := (nat * nat)%type.
Inductive gate := Standalone | Transit | Endpoint (chain : list gref).
Definition world := list (list gate).
Definition gates_of (w : world) (m : nat) : list gate := nth m w [].

(* EdgeRaw { dst, start, end } (data = ()) *)
Record edge := { e_dst : nat; e_start : gref; e_stop : gref }.
(* Topology { nodes, edges }: a node is its module *)
Record topo := { nodes : list nat; edges : list (list edge) }.
Definition bundle (t : topo) (i : nat) : list edge := nth i (edges t) [].
Definition empty_topo : topo := {| nodes := []; edges := [] |}.

(* iter().position(|x| x == id) *)
Fixpoint position (x : nat) (l : list nat) : option nat :=
  match l with
  | [] => None
  | y :: r => if y =? x then Some 0
              else match position x r with Some i => Some (S i) | None => None end
  end.

(* Vec::contains *)
Definition mem (x : nat) (l : list nat) : bool := existsb (Nat.eqb x) l.

(* ---- from_modules ---- *)
(* `for con in iter.take(16) { end = con.endpoint }` *)
Definition MAX_HOPS : nat := 16.

Fixpoint fm_gates (ns : list nat) (m gi : nat) (gs : list gate) : list edge :=
  match gs with
  | [] => []
  | Endpoint chain :: r =>
      let en := last (firstn MAX_HOPS chain) (m, gi) in
      match position (fst en) ns with
      | Some d => {| e_dst := d; e_start := (m, gi); e_stop := en |} :: fm_gates ns m (S gi) r
      | None => fm_gates ns m (S gi) r          (* "ignore external links" *)
      end
  | _ :: r => fm_gates ns m (S gi) r
  end.

Definition from_modules (w : world) (ms : list nat) : topo :=
  {| nodes := ms; edges := map (fun m => fm_gates ms m 0 (gates_of w m)) ms |}.

(* Globals::topology *)
Definition global_topology (w : world) : topo := from_modules w (seq 0 (length w)).

(* ---- spanned ---- *)
(* the index handed to the far module of a chain: its node index when it is a
   node already, else the index predicted from its place in the pending list *)
Definition sp_index (nds : list nat) (src_idx : nat) (queue : list nat) (end_id : nat) : nat * list nat :=
  match position end_id nds with
  | Some i => (i, queue)
  | None => match position end_id queue with
            | Some off => (src_idx + 1 + off, queue)
            | None => let queue' := queue ++ [end_id] in (src_idx + length queue', queue')
            end
  end.

(* the loop over the gates of the module that became node src_idx; no cut-off here *)
Fixpoint sp_gates (nds : list nat) (src_idx m gi : nat) (gs : list gate) (queue : list nat)
  : list edge * list nat :=
  match gs with
  | [] => ([], queue)
  | Endpoint chain :: r =>
      let en := last chain (m, gi) in
      let '(idx, queue') := sp_index nds src_idx queue (fst en) in
      let '(es, queue'') := sp_gates nds src_idx m (S gi) r queue' in
      ({| e_dst := idx; e_start := (m, gi); e_stop := en |} :: es, queue'')
  | _ :: r => sp_gates nds src_idx m (S gi) r queue
  end.

(* `while let Some(module) = modules.pop_front()`; None = fuel exhausted *)
Fixpoint sp_loop (fuel : nat) (w : world) (nds : list nat) (eds : list (list edge)) (queue : list nat)
  : option topo :=
  match queue with
  | [] => Some {| nodes := nds; edges := eds |}
  | m :: q =>
      match fuel with
      | O => None
      | S f =>
          let nds' := nds ++ [m] in
          let src_idx := length nds' - 1 in
          let '(b, q') := sp_gates nds' src_idx m 0 (gates_of w m) q in
          sp_loop f w nds' (eds ++ [b]) q'
      end
  end.

Definition spanned (w : world) (root : nat) : option topo := sp_loop (S (length w)) w [] [] [root].

(* ---- dijkstra ---- *)
(* QueueElement { idx, distance, next }; an Edge is (from.id, raw edge) *)
Definition hop := (nat * edge)%type.
Record qel := { q_idx : nat; q_dist : nat; q_next : option hop }.

Fixpoint lookup {A} (k : nat) (m : list (nat * A)) : option A :=
  match m with
  | [] => None
  | (k', v) :: r => if k' =? k then Some v else lookup k r
  end.

(* the `for edge in self.edges_by_id(cur.idx)` loop: what is pushed to the back *)
Definition dj_succ (visited : list nat) (cur : qel) (es : list edge) : list qel :=
  map (fun e => {| q_idx := e_dst e; q_dist := S (q_dist cur);
                   q_next := Some (match q_next cur with Some h => h | None => (q_idx cur, e) end) |})
      (filter (fun e => negb (mem (e_dst e) visited)) es).

(* the mapping is keyed by the module path of the node; insert = cons, get = first hit *)
Fixpoint dj_loop (fuel : nat) (t : topo) (visited : list nat) (queue : list qel) (mapping : list (nat * hop))
  : option (list (nat * hop)) :=
  match queue with
  | [] => Some mapping
  | cur :: q =>
      match fuel with
      | O => None
      | S f =>
          if mem (q_idx cur) visited then dj_loop f t visited q mapping
          else
            let visited' := visited ++ [q_idx cur] in
            let mapping' := match q_next cur with
                            | Some h => (nth (q_idx cur) (nodes t) 0, h) :: mapping
                            | None => mapping
                            end in
            dj_loop f t visited' (q ++ dj_succ visited' cur (bundle t (q_idx cur))) mapping'
      end
  end.

Inductive dj_result := DjOk (m : list (nat * hop)) | DjPanic | DjOutOfFuel.

Definition dj_fuel (t : topo) : nat := S (S (length (concat (edges t)))).

(* src is a module (its path); `.expect("unknown node")` *)
Definition dijkstra (t : topo) (src : nat) : dj_result :=
  match position src (nodes t) with
  | None => DjPanic
  | Some s => match dj_loop (dj_fuel t) t [] [{| q_idx := s; q_dist := 0; q_next := None |}] [] with
              | Some m => DjOk m
              | None => DjOutOfFuel
              end
  end.

(* ---- connected / bidirectional ---- *)
(* the recursive helper `visit`; the recursion depth is bounded by the number of nodes *)
Fixpoint visit (fuel : nat) (t : topo) (i : nat) (visited : list nat) : list nat :=
  match fuel with
  | O => visited
  | S f => if mem i visited then visited
           else fold_left (fun vis e => visit f t (e_dst e) vis) (bundle t i) (visited ++ [i])
  end.

Definition connected (t : topo) : bool :=
  let n := length (nodes t) in
  forallb (fun start => length (visit (S n) t start []) =? n) (seq 0 n).

Fixpoint bidi_from (t : topo) (src : nat) (bs : list (list edge)) : bool :=
  match bs with
  | [] => true
  | b :: r => forallb (fun e => existsb (fun e' => e_dst e' =? src) (bundle t (e_dst e))) b
              && bidi_from t (S src) r
  end.

Definition bidirectional (t : topo) : bool := bidi_from t 0 (edges t).

(* ---- filter_edges / filter_nodes ---- *)
Fixpoint fe_from (f : nat -> edge -> bool) (src : nat) (bs : list (list edge)) : list (list edge) :=
  match bs with
  | [] => []
  | b :: r => filter (f src) b :: fe_from f (S src) r
  end.

Definition filter_edges (f : nat -> edge -> bool) (t : topo) : topo :=
  {| nodes := nodes t; edges := fe_from f 0 (edges t) |}.

Fixpoint remove_at {A} (i : nat) (l : list A) : list A :=
  match l, i with
  | [], _ => []
  | _ :: r, O => r
  | x :: r, S i' => x :: remove_at i' r
  end.

(* `for index in &mut node_id_mapping`: usize::MAX is None *)
Fixpoint fn_loop (keep : list bool) (running : nat) (ns : list nat) (es : list (list edge))
  : list (option nat) * list nat * list (list edge) :=
  match keep with
  | [] => ([], ns, es)
  | true :: k' => let '(mp, ns', es') := fn_loop k' (S running) ns es in (Some running :: mp, ns', es')
  | false :: k' => let '(mp, ns', es') := fn_loop k' running (remove_at running ns) (remove_at running es) in
                   (None :: mp, ns', es')
  end.

(* `bundle.retain_mut(|edge| { edge.dst = node_id_mapping[edge.dst]; edge.dst != usize::MAX })` *)
Fixpoint fn_retain (mp : list (option nat)) (b : list edge) : list edge :=
  match b with
  | [] => []
  | e :: r => match nth (e_dst e) mp None with
              | Some d => {| e_dst := d; e_start := e_start e; e_stop := e_stop e |} :: fn_retain mp r
              | None => fn_retain mp r
              end
  end.

Definition filter_nodes (f : nat -> bool) (t : topo) : topo :=
  let keep := map f (nodes t) in
  let '(mp, ns, es) := fn_loop keep 0 (nodes t) (edges t) in
  {| nodes := ns; edges := map (fn_retain mp) es |}.

(* edges_for(path) *)
Definition edges_for (t : topo) (m : nat) : list hop :=
  match position m (nodes t) with
  | Some i => map (fun e => (i, e)) (bundle t i)
  | None => []
  end.

(* ---- worlds from scripts ---- *)
Fixpoint upd {A} (i : nat) (f : A -> A) (l : list A) : list A :=
  match l, i with
  | [], _ => []
  | x :: r, O => f x :: r
  | x :: r, S i' => x :: upd i' f r
  end.

Definition get_gate (w : world) (g : gref) : option gate := nth_error (gates_of w (fst g)) (snd g).
Definition set_gate (w : world) (g : gref) (x : gate) : world := upd (fst g) (upd (snd g) (fun _ => x)) w.
Definition is_free (w : world) (g : gref) : bool :=
  match get_gate w g with Some Standalone => true | _ => false end.
Definition gref_eqb (a b : gref) : bool := (fst a =? fst b) && (snd a =? snd b).
Fixpoint nodupb (l : list gref) : bool :=
  match l with [] => true | x :: r => negb (existsb (gref_eqb x) r) && nodupb r end.

(* a chain g0 - g1 - ... - gh is wired only if it has at least one hop and all
   its gates exist, are distinct and still unconnected *)
Definition valid_chain (w : world) (c : list gref) : bool :=
  (2 <=? length c) && nodupb c && forallb (is_free w) c.

Definition add_chain (w : world) (c : list gref) : world :=
  if valid_chain w c then
    match c, rev c with
    | g0 :: rest, gh :: rrest =>
        let w1 := fold_left (fun w' g => set_gate w' g Transit) (removelast rest) w in
        set_gate (set_gate w1 g0 (Endpoint rest)) gh (Endpoint rrest)
    | _, _ => w
    end
  else w.

(* ---- wire format ---- *)
(* script:  p   nmod cnt_1 .. cnt_nmod   nch (len mode m0 g0 m1 g1 ..){nch}   query*
     p = position of the process-global ModuleId counter when the simulation is built
         (the runner burns ids until the next ModuleId::gen() returns p mod 2^16);
         the first output record is  10 nmod d z :  d = the module ids of the simulation
         are pairwise distinct (the premise under which a module index stands for its id),
         z = number of modules whose id is ModuleId::NULL = 0
     (len counts mode and the 2*(hops+1) gate coordinates; mode only tells the
      harness in which order/orientation to issue the connect calls)
   operations are queries or change the gate graph; each query answers for the graph at that moment:
         | 10 len mode m0 g0 ..  connect the chain of existing gates (rule as above)     -> 11 wired?
         | 11 m via              new gate on module m (via 0: Sim::gate / ModuleRef::create_gate, 1: Spawner::gate) -> 12 position+1 | 12 0
         | 12 m                  from here on the operations run at run time inside module (m mod nmod)'s at_sim_start -> 13 switched?
         | 13 m kind             (declaration) during the run-time part module m is down from start-up stage 0 on, the
                                 operations run in stage 1: kind 0 shutdown(), 1 shutdow_and_restart_in(5 s), 2 a panic
                                 caught by the stereotype; the executing module stays up                           -> 14 0
   query = 1                 Globals::topology() / Topology::current()  -> current
         | 2 r               Topology::spanned(module r)    -> current
         | 3 s               current.dijkstra(module s)
         | 4                 current.connected()
         | 5                 current.bidirectional()
         | 6 mask            current.filter_nodes(bit (module index) of mask)
         | 7 mask            current.filter_edges(bit ((from.id*8 + start gate position) mod 62) of mask)
         | 8 m               current.edges_for(module m)
         | 9 k m1 .. mk      Topology::from_modules([..]) (unknown and repeated modules dropped) -> current
   output: view = 1 nn module{nn} ne (src sm sg em eg dst){ne} | dijkstra = 3 nn (0 | 1 src sm sg em eg dst){nn}
         | 4 b | 5 b | edges_for = 6 ne (src sm sg em eg dst){ne} | 7 (no such root) | 8 (out of fuel) | 9 1 (panic: unknown node) *)
Open Scope N_scope.

Definition cl (k x : N) : nat := N.to_nat (N.min x k).

Definition take_lp' (l : list N) : list N * list N :=
  match l with
  | [] => ([], [])
  | k :: r => take_n (N.to_nat (N.min k (N.of_nat (length r)))) r
  end.

Fixpoint take_chains (k : nat) (l : list N) : list (list N) * list N :=
  match k with
  | O => ([], l)
  | S k' => let '(c, r) := take_lp' l in let '(cs, r') := take_chains k' r in (c :: cs, r')
  end.

Fixpoint pairs (l : list N) : list gref :=
  match l with
  | a :: b :: r => (cl 255 a, cl 255 b) :: pairs r
  | _ => []
  end.

Definition init_world (counts : list N) : world :=
  map (fun c => repeat Standalone (cl 40 c)) (firstn 24 counts).

Definition build_world (counts : list N) (chains : list (list N)) : world :=
  fold_left (fun w c => add_chain w (pairs (tl c))) chains (init_world counts).

Inductive query :=
| QGlobal | QSpanned (r : nat) | QDijkstra (s : nat) | QConnected | QBidirectional
| QFilterNodes (mask : N) | QFilterEdges (mask : N) | QEdgesFor (m : nat) | QFromModules (ms : list nat).

Definition dec_query (l : list N) : option (query * list N) :=
  match l with
  | 1 :: r => Some (QGlobal, r)
  | 2 :: x :: r => Some (QSpanned (cl 255 x), r)
  | 3 :: x :: r => Some (QDijkstra (cl 255 x), r)
  | 4 :: r => Some (QConnected, r)
  | 5 :: r => Some (QBidirectional, r)
  | 6 :: x :: r => Some (QFilterNodes x, r)
  | 7 :: x :: r => Some (QFilterEdges x, r)
  | 8 :: x :: r => Some (QEdgesFor (cl 255 x), r)
  | 9 :: r => let '(ms, r') := take_lp' r in Some (QFromModules (map (cl 255) ms), r')
  | _ => None
  end.

Definition enc_edge (h : hop) : list N :=
  let '(src, e) := h in
  map N.of_nat [src; fst (e_start e); snd (e_start e); fst (e_stop e); snd (e_stop e); e_dst e].

Fixpoint enc_bundles (i : nat) (bs : list (list edge)) : list N :=
  match bs with
  | [] => []
  | b :: r => flat_map (fun e => enc_edge (i, e)) b ++ enc_bundles (S i) r
  end.

Definition enc_view (t : topo) : list N :=
  [1; N.of_nat (length (nodes t))] ++ map N.of_nat (nodes t)
  ++ [N.of_nat (length (concat (edges t)))] ++ enc_bundles 0 (edges t).

Definition mask_bit (mask : N) (i : nat) : bool := N.testbit mask (N.of_nat i).

(* known modules only, first occurrences only *)
Fixpoint select_modules (n : nat) (seen ms : list nat) : list nat :=
  match ms with
  | [] => []
  | m :: r => if (m <? n)%nat && negb (mem m seen) then m :: select_modules n (m :: seen) r
              else select_modules n seen r
  end.

Definition exec (w : world) (t : topo) (q : query) : topo * list N :=
  match q with
  | QGlobal => let t' := global_topology w in (t', enc_view t')
  | QSpanned r =>
      if (r <? length w)%nat then
        match spanned w r with Some t' => (t', enc_view t') | None => (t, [8]) end
      else (t, [7])
  | QDijkstra s =>
      (t, match dijkstra t s with
          | DjOk m => [3; N.of_nat (length (nodes t))]
                      ++ flat_map (fun v => match lookup v m with Some h => 1 :: enc_edge h | None => [0] end) (nodes t)
          | DjPanic => [9; 1]
          | DjOutOfFuel => [8]
          end)
  | QConnected => (t, [4; b2n (connected t)])
  | QBidirectional => (t, [5; b2n (bidirectional t)])
  | QFilterNodes mask => let t' := filter_nodes (mask_bit mask) t in (t', enc_view t')
  | QFilterEdges mask =>
      let t' := filter_edges (fun src e => mask_bit mask ((src * 8 + snd (e_start e)) mod 62)%nat) t in
      (t', enc_view t')
  | QEdgesFor m => let es := edges_for t m in (t, [6; N.of_nat (length es)] ++ flat_map enc_edge es)
  | QFromModules ms => let t' := from_modules w (select_modules (length w) [] ms) in (t', enc_view t')
  end.

(* ---- histories: wiring operations between the queries ---- *)
(* The gate graph may change after a view was taken: gates are created and
   connected while the simulation is built and by modules while it runs.  A
   script is a history of queries and wiring operations; a view query answers
   for the graph as it is at that moment (a Topology object, once extracted,
   is a value and does not follow later changes). *)
Inductive op :=
| OQuery (q : query)
| OConnect (c : list gref)      (* connect the gates of a chain, under the rule of [add_chain] *)
| ONewGate (m : nat)            (* a new gate at the end of module m's gate list *)
| ORuntime (m : nat)            (* from here on the operations run inside module m while the simulation runs *)
| ODown (m kind : nat).         (* module m is shut down / waiting for a restart / has panicked (caught) during the
                                   run-time part; the world has no activity field: no view depends on it *)

Definition MAX_GATES : nat := 60.
Definition can_new_gate (w : world) (m : nat) : bool :=
  (m <? length w)%nat && (length (gates_of w m) <? MAX_GATES)%nat.
Definition new_gate (w : world) (m : nat) : world := upd m (fun gs => gs ++ [Standalone]) w.

(* the gate graph after an operation; queries and the phase switch leave it alone *)
Definition apply_op (w : world) (o : op) : world :=
  match o with
  | OConnect c => add_chain w c
  | ONewGate m => if can_new_gate w m then new_gate w m else w
  | _ => w
  end.

Record hstate := { h_world : world; h_topo : topo; h_rt : bool }.

Definition step (s : hstate) (o : op) : hstate * list N :=
  let w := h_world s in
  match o with
  | OQuery q => let '(t', out) := exec w (h_topo s) q in
                ({| h_world := w; h_topo := t'; h_rt := h_rt s |}, out)
  | OConnect c => ({| h_world := apply_op w o; h_topo := h_topo s; h_rt := h_rt s |}, [11; b2n (valid_chain w c)])
  | ONewGate m => ({| h_world := apply_op w o; h_topo := h_topo s; h_rt := h_rt s |},
                   [12; if can_new_gate w m then N.of_nat (S (length (gates_of w m))) else 0])
  | ORuntime m => if h_rt s || (length w =? 0)%nat then (s, [13; 0])
                  else ({| h_world := w; h_topo := h_topo s; h_rt := true |}, [13; 1])
  | ODown _ _ => (s, [14; 0])
  end.

Fixpoint exec_all (s : hstate) (os : list op) : list N :=
  match os with
  | [] => []
  | o :: r => let '(s', out) := step s o in out ++ exec_all s' r
  end.

Definition dec_op (l : list N) : option (op * list N) :=
  match l with
  | 10 :: r => let '(c, r') := take_lp' r in Some (OConnect (pairs (tl c)), r')
  | 11 :: m :: via :: r => Some (ONewGate (cl 255 m), r)
  | 12 :: m :: r => Some (ORuntime (cl 255 m), r)
  | 13 :: m :: k :: r => Some (ODown (cl 255 m) (cl 255 k), r)
  | _ => match dec_query l with Some (q, r) => Some (OQuery q, r) | None => None end
  end.

Definition init_state (w : world) : hstate := {| h_world := w; h_topo := empty_topo; h_rt := false |}.

Definition run_sim (input : list N) : list N :=
  let '(counts, r1) := take_lp' input in
  match r1 with
  | [] => []
  | nch :: r2 =>
      let '(chains, r3) := take_chains (cl 64 nch) r2 in
      exec_all (init_state (build_world counts chains)) (decode_all dec_op r3)
  end.

(* ModuleId::gen: `MODULE_ID.fetch_add(1)` on a process-global AtomicU16 (wrapping);
   with the counter at p the n modules of a simulation get p, p+1, .. (mod 2^16) *)
Definition ID_SPACE : N := 65536.
Definition gen_ids (p : N) (n : nat) : list N := map (fun i => (p + N.of_nat i) mod ID_SPACE) (seq 0 n).
Fixpoint distinctb (l : list N) : bool :=
  match l with [] => true | x :: r => negb (existsb (N.eqb x) r) && distinctb r end.

Definition run (input : list N) : list N :=
  match input with
  | [] => []
  | p :: rest =>
      let n := length (init_world (fst (take_lp' rest))) in
      let ids := gen_ids (p mod ID_SPACE) n in
      [10; N.of_nat n; b2n (distinctb ids); N.of_nat (length (filter (N.eqb 0) ids))] ++ run_sim rest
  end.
