(* from_modules / Globals::topology produce exact views (C19, first clause). *)
From Coq Require Import List Arith Bool Lia.
From DesVerif Require Import Topo.Model Topo.Graph.
Import ListNotations.

(* the far owner of an endpoint is among the modules considered *)
Definition sel_in (ms : list nat) (gc : gref * list gref) : bool :=
  mem (fst (far_end (fst gc) (snd gc))) ms.

Lemma filter_all {A} (f : A -> bool) l : (forall x, In x l -> f x = true) -> filter f l = l.
Proof.
  induction l as [|x r IH]; intros H; cbn [filter]; [reflexivity|].
  rewrite (H x (or_introl eq_refl)). f_equal. apply IH. intros y Hy. apply H. right. exact Hy.
Qed.

Lemma fm_gates_spec ms m gi gs :
  (forall g c, In (g, c) (endpoints_from m gi gs) -> length c <= MAX_HOPS) ->
  Forall2 (expected_edge ms) (filter (sel_in ms) (endpoints_from m gi gs)) (fm_gates ms m gi gs).
Proof.
  revert gi. induction gs as [|x r IH]; intros gi Hs; cbn [endpoints_from fm_gates filter]; [constructor|].
  destruct x as [| |c]; try (apply IH; exact Hs).
  assert (Hr : forall g c', In (g, c') (endpoints_from m (S gi) r) -> length c' <= MAX_HOPS).
  { intros g c' H. apply (Hs g c'). cbn [endpoints_from]. right. exact H. }
  assert (Hc : length c <= MAX_HOPS) by (apply (Hs (m, gi) c); cbn [endpoints_from]; left; reflexivity).
  rewrite (firstn_all2 c Hc). cbn [filter]. unfold sel_in at 1. cbn [fst snd]. unfold far_end at 1.
  destruct (position (fst (last c (m, gi))) ms) as [d|] eqn:P.
  - assert (M : mem (fst (last c (m, gi))) ms = true).
    { apply mem_true_iff. eapply nth_error_In. apply position_Some. exact P. }
    rewrite M. constructor; [|apply IH; exact Hr].
    unfold expected_edge, far_end. cbn [e_start e_stop e_dst fst snd].
    split; [reflexivity|]. split; [reflexivity|]. apply position_Some. exact P.
  - assert (M : mem (fst (last c (m, gi))) ms = false).
    { apply mem_false_iff. apply position_None. exact P. }
    rewrite M. apply IH. exact Hr.
Qed.

Lemma bundle_from_modules w ms i m :
  nth_error ms i = Some m -> bundle (from_modules w ms) i = fm_gates ms m 0 (gates_of w m).
Proof.
  intros H. unfold bundle, from_modules. cbn [edges].
  apply nth_error_nth. apply (map_nth_error (fun m0 => fm_gates ms m0 0 (gates_of w m0))). exact H.
Qed.

(* any duplicate-free list of modules: one node per module, one edge per
   endpoint gate whose chain ends at one of these modules *)
Lemma from_modules_exact w ms :
  short w -> NoDup ms -> exact_view_on (sel_in ms) w (from_modules w ms).
Proof.
  intros Hs ND. split; [exact ND|]. split; [unfold from_modules; cbn [edges nodes]; apply map_length|].
  intros i m Hm. rewrite (bundle_from_modules w ms i m Hm). cbn [nodes from_modules].
  apply fm_gates_spec. intros g c H. eapply Hs. exact H.
Qed.

Lemma exact_view_on_all sel w t :
  exact_view_on sel w t ->
  (forall m gc, In m (nodes t) -> In gc (endpoints w m) -> sel gc = true) ->
  exact_view w t.
Proof.
  intros [ND [Hl Hb]] Hall. split; [exact ND|]. split; [exact Hl|]. intros i m Hm.
  specialize (Hb i m Hm).
  rewrite filter_all in Hb; [|intros gc Hgc; eapply Hall; [eapply nth_error_In; exact Hm|exact Hgc]].
  rewrite filter_all; [exact Hb|reflexivity].
Qed.

(* the global view: all modules in module order, every endpoint gate of every module *)
Theorem global_view_exact w :
  short w -> closed w ->
  nodes (global_topology w) = seq 0 (length w) /\ exact_view w (global_topology w).
Proof.
  intros Hs Hc. split; [reflexivity|].
  apply exact_view_on_all with (sel := sel_in (seq 0 (length w))).
  - apply from_modules_exact; [exact Hs|apply seq_NoDup].
  - intros m [g c] _ Hgc. unfold sel_in. cbn [fst snd]. apply mem_true_iff. apply in_seq.
    specialize (Hc m g c Hgc). lia.
Qed.
