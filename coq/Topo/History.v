(* Histories (C19): wiring operations between the queries.  The view functions
   are functions of the gate graph, and the script interpreter applies them to
   the graph as it is when the query is made; so every view query of a history
   returns the exact view of the graph built by the header and the operations
   before it.  The graph stays [closed] (and [short] when every declared chain
   has at most 16 hops) under connect and new-gate operations, so the
   exactness theorems apply at every point of every history. *)
From Coq Require Import List NArith Arith Bool Lia.
From DesVerif Require Import Topo.Model Topo.Graph Topo.FromGates Topo.Spanned Topo.World.
Import ListNotations.
Open Scope nat_scope.

Definition world_after (w : world) (os : list op) : world := fold_left apply_op os w.
Definition state_after (s : hstate) (os : list op) : hstate := fold_left (fun s' o => fst (step s' o)) os s.

Lemma step_world s o : h_world (fst (step s o)) = apply_op (h_world s) o.
Proof.
  destruct o as [q|c|m|m|m k]; cbn [step apply_op].
  - destruct (exec (h_world s) (h_topo s) q). reflexivity.
  - reflexivity.
  - reflexivity.
  - destruct (h_rt s || (length (h_world s) =? 0)); reflexivity.
  - reflexivity.
Qed.

Lemma state_after_world os : forall s, h_world (state_after s os) = world_after (h_world s) os.
Proof.
  induction os as [|o r IH]; intros s; cbn [state_after world_after fold_left]; [reflexivity|].
  fold (state_after (fst (step s o)) r). rewrite IH, step_world. reflexivity.
Qed.

(* ---- a new gate changes no chain ---- *)
Lemma get_new_gate w m g c :
  get_gate (new_gate w m) g = Some (Endpoint c) -> get_gate w g = Some (Endpoint c).
Proof.
  unfold get_gate, gates_of, new_gate. rewrite !nth_as_error, nth_error_upd.
  destruct (m =? fst g); [|tauto]. destruct (nth_error w (fst g)) as [gs|]; cbn [option_map]; [|tauto].
  intros H. destruct (Nat.lt_ge_cases (snd g) (length gs)) as [L|G].
  - rewrite nth_error_app1 in H by exact L. exact H.
  - rewrite nth_error_app2 in H by exact G. destruct (snd g - length gs) as [|k]; [discriminate|destruct k; discriminate].
Qed.

Lemma new_gate_length w m : length (new_gate w m) = length w.
Proof. apply upd_length. Qed.

Lemma apply_op_closed w o : closed' w -> closed' (apply_op w o).
Proof.
  intros H. destruct o as [q|c|m|m|m k]; cbn [apply_op]; try exact H.
  - apply add_chain_closed. exact H.
  - destruct (can_new_gate w m); [|exact H]. intros g c Hg. rewrite new_gate_length.
    apply (H g c). eapply get_new_gate. exact Hg.
Qed.

Definition op_short (o : op) : Prop := match o with OConnect c => length c <= S MAX_HOPS | _ => True end.

Lemma apply_op_short w o : op_short o -> short' w -> short' (apply_op w o).
Proof.
  intros Ho H. destruct o as [q|c|m|m|m k]; cbn [apply_op]; try exact H.
  - apply add_chain_short; assumption.
  - destruct (can_new_gate w m); [|exact H]. intros g c Hg. apply (H g c). eapply get_new_gate. exact Hg.
Qed.

Lemma world_after_closed os : forall w, closed' w -> closed' (world_after w os).
Proof. induction os as [|o r IH]; intros w H; cbn [world_after fold_left]; [exact H|]. apply IH. apply apply_op_closed. exact H. Qed.

Lemma world_after_short os : forall w, Forall op_short os -> short' w -> short' (world_after w os).
Proof.
  induction os as [|o r IH]; intros w Hs H; cbn [world_after fold_left]; [exact H|].
  inversion Hs. subst. apply IH; [assumption|]. apply apply_op_short; assumption.
Qed.

Lemma build_world_closed' counts chains : closed' (build_world counts chains).
Proof.
  unfold build_world.
  assert (H0 : closed' (init_world counts)) by (intros g c H; apply init_world_gates in H; discriminate).
  revert H0. generalize (init_world counts). induction chains as [|c r IH]; intros w H; cbn [fold_left]; [exact H|].
  apply IH. apply add_chain_closed. exact H.
Qed.

Lemma build_world_short' counts chains :
  (forall c, In c chains -> length (pairs (tl c)) <= S MAX_HOPS) -> short' (build_world counts chains).
Proof.
  intros Hc. unfold build_world.
  assert (H0 : short' (init_world counts)) by (intros g c H; apply init_world_gates in H; discriminate).
  revert H0. generalize (init_world counts). induction chains as [|c r IH]; intros w H; cbn [fold_left]; [exact H|].
  apply IH; [intros c' Hc'; apply Hc; right; exact Hc'|]. apply add_chain_short; [apply Hc; left; reflexivity|exact H].
Qed.

(* ---- from_modules is always asked for a duplicate-free list ---- *)
Lemma select_modules_NoDup n : forall ms seen,
  NoDup (select_modules n seen ms) /\ forall x, In x (select_modules n seen ms) -> ~ In x seen.
Proof.
  induction ms as [|m r IH]; intros seen; cbn [select_modules]; [split; [constructor|intros x []]|].
  destruct ((m <? n) && negb (mem m seen)) eqn:E.
  - apply andb_true_iff in E. destruct E as [_ E]. apply negb_true_iff in E. apply mem_false_iff in E.
    destruct (IH (m :: seen)) as [ND Hn]. split.
    + constructor; [|exact ND]. intros Hin. apply (Hn m Hin). left. reflexivity.
    + intros x [Ex|Hx]; [subst; exact E|]. intros Hs. apply (Hn x Hx). right. exact Hs.
  - apply IH.
Qed.

(* ---- every view query of a history sees the graph of that moment ---- *)
Theorem history_exact counts chains pre :
  let s := state_after (init_state (build_world counts chains)) pre in
  let w := world_after (build_world counts chains) pre in
  h_world s = w /\ closed w /\
  ((forall c, In c chains -> length (pairs (tl c)) <= S MAX_HOPS) -> Forall op_short pre -> short w) /\
  (h_topo (fst (step s (OQuery QGlobal))) = global_topology w /\
   (short w -> nodes (global_topology w) = seq 0 (length w) /\ exact_view w (global_topology w))) /\
  (forall r, r < length w ->
     exists t, spanned w r = Some t /\ h_topo (fst (step s (OQuery (QSpanned r)))) = t /\
               exact_view w t /\ hd_error (nodes t) = Some r /\ forall m, In m (nodes t) <-> mreach w r m) /\
  (forall ms, let sel := select_modules (length w) [] ms in
     h_topo (fst (step s (OQuery (QFromModules ms)))) = from_modules w sel /\
     (short w -> exact_view_on (sel_in sel) w (from_modules w sel))).
Proof.
  cbn zeta.
  set (s := state_after (init_state (build_world counts chains)) pre).
  set (w := world_after (build_world counts chains) pre).
  assert (Hw : h_world s = w) by (unfold s, w; rewrite state_after_world; reflexivity).
  assert (Hc : closed w) by (apply closed'_closed; apply world_after_closed; apply build_world_closed').
  split; [exact Hw|]. split; [exact Hc|]. split; [|split; [|split]].
  - intros H1 H2. apply short'_short. apply world_after_short; [exact H2|apply build_world_short'; exact H1].
  - split; [cbn [step exec fst h_topo]; rewrite Hw; reflexivity|].
    intros Hs. apply global_view_exact; assumption.
  - intros r Hr. destruct (spanned_exact w r Hc Hr) as [t [Ht [Hv [Hh Hm]]]]. exists t.
    split; [exact Ht|]. split; [|tauto].
    cbn [step exec fst]. rewrite Hw. apply Nat.ltb_lt in Hr. rewrite Hr, Ht. reflexivity.
  - intros ms. split; [cbn [step exec fst h_topo]; rewrite Hw; reflexivity|].
    intros Hs. apply from_modules_exact; [exact Hs|]. apply (select_modules_NoDup (length w) ms []).
Qed.
