(* filter_nodes keeps exactly the selected nodes and the edges among them,
   re-indexed correctly; filter_edges keeps exactly the selected edges (C19). *)
From Coq Require Import List Arith Bool Lia.
From DesVerif Require Import Topo.Model Topo.Graph.
Import ListNotations.

(* new index of old node d: the number of kept nodes in front of it *)
Definition rank (p : nat -> bool) (ns : list nat) (d : nat) : nat := length (filter p (firstn d ns)).

(* the bundles at kept positions *)
Fixpoint select {A} (keep : list bool) (l : list A) : list A :=
  match keep, l with
  | k :: ks, x :: r => if k then x :: select ks r else select ks r
  | _, _ => []
  end.

Definition redst (p : nat -> bool) (ns : list nat) (e : edge) : edge :=
  {| e_dst := rank p ns (e_dst e); e_start := e_start e; e_stop := e_stop e |}.
Definition dst_kept (p : nat -> bool) (ns : list nat) (e : edge) : bool := p (nth (e_dst e) ns 0).

(* the id mapping computed by the first loop *)
Fixpoint fn_map (p : nat -> bool) (running : nat) (suf : list nat) : list (option nat) :=
  match suf with
  | [] => []
  | x :: r => if p x then Some running :: fn_map p (S running) r else None :: fn_map p running r
  end.

Lemma remove_at_app {A} (pre : list A) x r : remove_at (length pre) (pre ++ x :: r) = pre ++ r.
Proof. induction pre as [|y pre IH]; cbn [length app remove_at]; [reflexivity|f_equal; exact IH]. Qed.

Lemma fn_loop_spec p : forall suf esuf pre (epre : list (list edge)) running,
  length pre = running -> length epre = running -> length esuf = length suf ->
  fn_loop (map p suf) running (pre ++ suf) (epre ++ esuf)
  = (fn_map p running suf, pre ++ filter p suf, epre ++ select (map p suf) esuf).
Proof.
  induction suf as [|x r IH]; intros esuf pre epre running H1 H2 H3; cbn [map fn_loop fn_map filter].
  - destruct esuf; [|discriminate]. reflexivity.
  - destruct esuf as [|b er]; [discriminate|]. cbn [length] in H3. cbn [select].
    destruct (p x) eqn:Px.
    + replace (pre ++ x :: r) with ((pre ++ [x]) ++ r) by (rewrite <- app_assoc; reflexivity).
      replace (epre ++ b :: er) with ((epre ++ [b]) ++ er) by (rewrite <- app_assoc; reflexivity).
      rewrite IH; [|rewrite app_length; cbn [length]; lia|rewrite app_length; cbn [length]; lia|lia].
      rewrite <- !app_assoc. reflexivity.
    + subst running. rewrite remove_at_app. rewrite <- H2 at 2. rewrite remove_at_app.
      rewrite IH; [reflexivity|reflexivity|exact H2|lia].
Qed.

Lemma rank_cons p x r d : rank p (x :: r) (S d) = (if p x then 1 else 0) + rank p r d.
Proof. unfold rank. cbn [firstn filter]. destruct (p x); reflexivity. Qed.

Lemma fn_map_nth p : forall suf running d m,
  nth_error suf d = Some m ->
  nth d (fn_map p running suf) None = if p m then Some (running + rank p suf d) else None.
Proof.
  induction suf as [|x r IH]; intros running d m H; [destruct d; discriminate|].
  destruct d as [|d]; cbn [nth_error] in H.
  - inversion H. subst. cbn [fn_map]. unfold rank. cbn [firstn filter length].
    destruct (p m); cbn [nth]; [f_equal; lia|reflexivity].
  - cbn [fn_map]. rewrite rank_cons. destruct (p x); cbn [nth]; rewrite (IH _ d m H); destruct (p m); try reflexivity; f_equal; lia.
Qed.

Lemma fn_retain_spec p ns b :
  (forall e, In e b -> e_dst e < length ns) ->
  fn_retain (fn_map p 0 ns) b = map (redst p ns) (filter (dst_kept p ns) b).
Proof.
  induction b as [|e r IH]; intros Hd; cbn [fn_retain filter map]; [reflexivity|].
  assert (He : e_dst e < length ns) by (apply Hd; left; reflexivity).
  destruct (nth_error ns (e_dst e)) as [m|] eqn:Hm; [|apply nth_error_None in Hm; lia].
  rewrite (fn_map_nth p ns 0 _ m Hm). unfold dst_kept at 1. rewrite (nth_error_nth _ _ 0 Hm).
  destruct (p m); cbn [map]; [f_equal|]; apply IH; intros e0 H0; apply Hd; right; exact H0.
Qed.

(* filter_nodes as a function of the old topology *)
Lemma filter_nodes_eq p t :
  topo_ok t ->
  filter_nodes p t =
  {| nodes := filter p (nodes t);
     edges := map (fun b => map (redst p (nodes t)) (filter (dst_kept p (nodes t)) b))
                  (select (map p (nodes t)) (edges t)) |}.
Proof.
  intros [Hl Hd]. unfold filter_nodes.
  pose proof (fn_loop_spec p (nodes t) (edges t) [] [] 0 eq_refl eq_refl Hl) as E. cbn [app] in E.
  rewrite E. f_equal.
  apply map_ext_in. intros b Hb. apply fn_retain_spec. intros e He.
  assert (Hin : exists i, In e (bundle t i)).
  { clear - Hb He. revert Hb. unfold bundle. generalize (map p (nodes t)) as ks, (edges t) as es.
    intros ks es. revert ks. induction es as [|b0 es IH]; intros ks Hb; [destruct ks; destruct Hb|].
    destruct ks as [|k ks]; [destruct Hb|]. cbn [select] in Hb.
    assert (R : In b (select ks es) -> exists i, In e (nth i (b0 :: es) [])).
    { intros H. destruct (IH ks H) as [i Hi]. exists (S i). exact Hi. }
    destruct k; [destruct Hb as [E|Hb]; [subst; exists 0; exact He|exact (R Hb)]|exact (R Hb)]. }
  destruct Hin as [i Hi]. eapply Hd. exact Hi.
Qed.

(* ---- what the new indices mean ---- *)
Lemma rank_kept p : forall ns d m,
  nth_error ns d = Some m -> p m = true -> nth_error (filter p ns) (rank p ns d) = Some m.
Proof.
  induction ns as [|x r IH]; intros d m H Pm; [destruct d; discriminate|].
  destruct d as [|d]; cbn [nth_error] in H.
  - inversion H. subst. unfold rank. cbn [firstn filter length]. rewrite Pm. reflexivity.
  - rewrite rank_cons. cbn [filter]. destruct (p x); cbn [Nat.add nth_error]; apply IH; assumption.
Qed.

Lemma rank_surj p : forall ns j m,
  nth_error (filter p ns) j = Some m ->
  exists i, nth_error ns i = Some m /\ p m = true /\ rank p ns i = j.
Proof.
  induction ns as [|x r IH]; intros j m H; cbn [filter] in H; [destruct j; discriminate|].
  destruct (p x) eqn:Px.
  - destruct j as [|j]; cbn [nth_error] in H.
    + inversion H. subst. exists 0. split; [reflexivity|]. split; [exact Px|reflexivity].
    + destruct (IH j m H) as [i [H1 [H2 H3]]]. exists (S i). split; [exact H1|]. split; [exact H2|].
      rewrite rank_cons, Px. lia.
  - destruct (IH j m H) as [i [H1 [H2 H3]]]. exists (S i). split; [exact H1|]. split; [exact H2|].
    rewrite rank_cons, Px. exact H3.
Qed.

Lemma select_nth {A} (p : nat -> bool) (d0 : A) : forall (ns : list nat) (es : list A) i m,
  length es = length ns -> nth_error ns i = Some m -> p m = true ->
  nth (rank p ns i) (select (map p ns) es) d0 = nth i es d0.
Proof.
  induction ns as [|x r IH]; intros es i m Hl H Pm; [destruct i; discriminate|].
  destruct es as [|b er]; [discriminate|]. cbn [length] in Hl. cbn [map select].
  destruct i as [|i]; cbn [nth_error] in H.
  - inversion H. subst. rewrite Pm. unfold rank. cbn [firstn filter length nth]. reflexivity.
  - rewrite rank_cons. destruct (p x); cbn [Nat.add nth]; apply (IH er i m); try assumption; lia.
Qed.

Lemma select_length {A} (p : nat -> bool) : forall (ns : list nat) (es : list A),
  length es = length ns -> length (select (map p ns) es) = length (filter p ns).
Proof.
  induction ns as [|x r IH]; intros es Hl; [destruct es; reflexivity|].
  destruct es as [|b er]; [discriminate|]. cbn [length] in Hl. cbn [map select filter].
  destruct (p x); cbn [length]; rewrite IH by lia; reflexivity.
Qed.

Lemma rank_lt p ns d m : nth_error ns d = Some m -> p m = true -> rank p ns d < length (filter p ns).
Proof. intros H Pm. apply nth_error_Some. rewrite (rank_kept p ns d m H Pm). discriminate. Qed.

(* filtering keeps exactly the selected nodes (in their order); node number
   [rank i] of the result is the kept old node i; its edges are the old edges
   of i whose target is kept, with the target re-indexed; and the result is a
   well-formed topology again *)
Theorem filter_exact p t :
  topo_ok t ->
  let t' := filter_nodes p t in
  nodes t' = filter p (nodes t) /\ topo_ok t' /\
  (forall j m, nth_error (nodes t') j = Some m ->
               exists i, nth_error (nodes t) i = Some m /\ p m = true /\ rank p (nodes t) i = j) /\
  (forall i m, nth_error (nodes t) i = Some m -> p m = true ->
               nth_error (nodes t') (rank p (nodes t) i) = Some m /\
               bundle t' (rank p (nodes t) i)
               = map (redst p (nodes t)) (filter (dst_kept p (nodes t)) (bundle t i))).
Proof.
  intros Hok. cbn zeta. rewrite (filter_nodes_eq p t Hok). destruct Hok as [Hl Hd]. cbn [nodes edges].
  assert (Hb : forall i m, nth_error (nodes t) i = Some m -> p m = true ->
    bundle {| nodes := filter p (nodes t);
              edges := map (fun b => map (redst p (nodes t)) (filter (dst_kept p (nodes t)) b))
                           (select (map p (nodes t)) (edges t)) |} (rank p (nodes t) i)
    = map (redst p (nodes t)) (filter (dst_kept p (nodes t)) (bundle t i))).
  { intros i m H Pm. unfold bundle. cbn [edges].
    change (@nil edge) with ((fun b => map (redst p (nodes t)) (filter (dst_kept p (nodes t)) b)) []) at 1.
    rewrite map_nth. rewrite (select_nth p [] (nodes t) (edges t) i m Hl H Pm). reflexivity. }
  split; [reflexivity|]. split; [|split].
  - split; [cbn [nodes edges]; rewrite map_length; apply select_length; exact Hl|].
    cbn [nodes]. intros j e He.
    assert (Hj : j < length (filter p (nodes t))).
    { apply bundle_In_lt in He. cbn [edges] in He. rewrite map_length, select_length in He; assumption. }
    destruct (nth_error (filter p (nodes t)) j) as [m|] eqn:Hm; [|apply nth_error_None in Hm; lia].
    destruct (rank_surj p _ _ _ Hm) as [i [H1 [H2 H3]]]. subst j.
    rewrite (Hb i m H1 H2) in He. apply in_map_iff in He. destruct He as [e0 [E He0]]. subst e.
    apply filter_In in He0. destruct He0 as [Hin Hk]. cbn [redst e_dst].
    specialize (Hd i e0 Hin).
    destruct (nth_error (nodes t) (e_dst e0)) as [m0|] eqn:Hm0; [|apply nth_error_None in Hm0; lia].
    unfold dst_kept in Hk. rewrite (nth_error_nth _ _ 0 Hm0) in Hk. eapply rank_lt; eassumption.
  - intros j m Hm. apply rank_surj. exact Hm.
  - intros i m H Pm. split; [apply rank_kept; assumption|apply (Hb i m); assumption].
Qed.

(* the re-indexed target is the same module as before *)
Lemma redst_same_module p ns e m :
  nth_error ns (e_dst e) = Some m -> dst_kept p ns e = true ->
  nth_error (filter p ns) (e_dst (redst p ns e)) = Some m.
Proof.
  intros H Hk. unfold dst_kept in Hk. rewrite (nth_error_nth _ _ 0 H) in Hk. cbn [redst e_dst].
  apply rank_kept; assumption.
Qed.

(* ---- filter_edges ---- *)
Lemma fe_from_nth f : forall bs src i, nth i (fe_from f src bs) [] = filter (f (src + i)) (nth i bs []).
Proof.
  induction bs as [|b r IH]; intros src i; cbn [fe_from].
  - destruct i; reflexivity.
  - destruct i as [|i]; cbn [nth]; [rewrite Nat.add_0_r; reflexivity|]. rewrite IH. f_equal. f_equal. lia.
Qed.

Theorem filter_edges_exact f t :
  nodes (filter_edges f t) = nodes t /\
  forall i, bundle (filter_edges f t) i = filter (f i) (bundle t i).
Proof. split; [reflexivity|]. intros i. unfold bundle, filter_edges. cbn [edges]. apply fe_from_nth. Qed.

(* ---- a node-filtered exact view is the exact view of the kept modules ---- *)
Lemma Forall2_filter {A B} (R : A -> B -> Prop) fa fb :
  (forall a b, R a b -> fa a = fb b) ->
  forall l1 l2, Forall2 R l1 l2 -> Forall2 R (filter fa l1) (filter fb l2).
Proof.
  intros H l1 l2 F. induction F as [|a b l1 l2 Hab _ IH]; cbn [filter]; [constructor|].
  rewrite <- (H a b Hab). destruct (fa a); [constructor; assumption|exact IH].
Qed.

Lemma filter_filter {A} (f g : A -> bool) l : filter f (filter g l) = filter (fun x => g x && f x) l.
Proof.
  induction l as [|x r IH]; cbn [filter]; [reflexivity|].
  destruct (g x); cbn [filter andb]; [destruct (f x); [f_equal|]; exact IH|exact IH].
Qed.

Theorem filter_nodes_view sel p w t :
  exact_view_on sel w t ->
  exact_view_on (fun gc => sel gc && p (fst (far_end (fst gc) (snd gc)))) w (filter_nodes p t).
Proof.
  intros Hv. pose proof (exact_view_on_ok _ _ _ Hv) as Hok.
  destruct (filter_exact p t Hok) as [Hn [[Hl _] [Hsurj Hkept]]]. destruct Hv as [ND [_ Hb]].
  split; [rewrite Hn; apply NoDup_filter; exact ND|]. split; [exact Hl|].
  intros j m Hm. destruct (Hsurj j m Hm) as [i [H1 [H2 H3]]]. subst j.
  destruct (Hkept i m H1 H2) as [_ Eb]. rewrite Eb, Hn. specialize (Hb i m H1).
  rewrite <- filter_filter.
  assert (F : Forall2 (expected_edge (nodes t))
                (filter (fun gc => p (fst (far_end (fst gc) (snd gc)))) (filter sel (endpoints w m)))
                (filter (dst_kept p (nodes t)) (bundle t i))).
  { apply Forall2_filter; [|exact Hb]. intros gc e [_ [_ Hd]]. unfold dst_kept.
    rewrite (nth_error_nth _ _ 0 Hd). reflexivity. }
  revert F. generalize (filter (fun gc => p (fst (far_end (fst gc) (snd gc)))) (filter sel (endpoints w m))) as l1.
  assert (G : forall e, In e (filter (dst_kept p (nodes t)) (bundle t i)) -> dst_kept p (nodes t) e = true).
  { intros e He. apply filter_In in He. tauto. }
  revert G. generalize (filter (dst_kept p (nodes t)) (bundle t i)) as l2.
  intros l2 G l1 F. induction F as [|gc e l1 l2 Hge _ IH]; cbn [map]; constructor.
  - destruct Hge as [A [B C]]. split; [exact A|]. split; [exact B|].
    apply redst_same_module; [exact C|apply G; left; reflexivity].
  - apply IH. intros e0 H0. apply G. right. exact H0.
Qed.
