(* connected / bidirectional agree with their graph definitions (C19). *)
From Coq Require Import List Arith Bool Lia.
From DesVerif Require Import Topo.Model Topo.Graph Topo.Spanned.
Import ListNotations.

(* ---- bidirectional ---- *)
Lemma nth_nil {A} k (d : A) : nth k [] d = d.
Proof. destruct k; reflexivity. Qed.

Lemma bidi_from_spec t : forall bs src,
  bidi_from t src bs = true <->
  forall k e, In e (nth k bs []) -> exists e', In e' (bundle t (e_dst e)) /\ e_dst e' = src + k.
Proof.
  induction bs as [|b r IH]; intros src; cbn [bidi_from].
  - split; [|reflexivity]. intros _ k e H. rewrite nth_nil in H. destruct H.
  - rewrite andb_true_iff, forallb_forall, IH. split.
    + intros [H0 Hr] k e Hin. destruct k as [|k]; cbn [nth] in Hin.
      * specialize (H0 e Hin). apply existsb_exists in H0. destruct H0 as [e' [Hin' He']].
        apply Nat.eqb_eq in He'. exists e'. split; [exact Hin'|lia].
      * destruct (Hr k e Hin) as [e' [Hin' He']]. exists e'. split; [exact Hin'|lia].
    + intros H. split.
      * intros e Hin. destruct (H 0 e Hin) as [e' [Hin' He']]. apply existsb_exists. exists e'.
        split; [exact Hin'|apply Nat.eqb_eq; lia].
      * intros k e Hin. destruct (H (S k) e Hin) as [e' [Hin' He']]. exists e'. split; [exact Hin'|lia].
Qed.

(* what the code tests: every edge u -> v is answered by some edge v -> u *)
Theorem bidirectional_iff t :
  bidirectional t = true <->
  forall u e, In e (bundle t u) -> exists e', In e' (bundle t (e_dst e)) /\ e_dst e' = u.
Proof. unfold bidirectional. rewrite bidi_from_spec. unfold bundle. cbn [Nat.add]. tauto. Qed.

(* ---- connected: the recursive visit is a depth-first search ---- *)
Section Visit.
Variable t : topo.
Hypothesis Hok : topo_ok t.
Let n := length (nodes t).

Definition bounded (l : list nat) : Prop := forall x, In x l -> x < n.

(* what one call of visit guarantees *)
Definition visit_post (i : nat) (vis vis' : list nat) : Prop :=
  NoDup vis' /\ bounded vis' /\ incl vis vis' /\ In i vis' /\
  (forall x, In x vis' -> ~ In x vis -> forall e, In e (bundle t x) -> In (e_dst e) vis') /\
  (forall x, In x vis' -> In x vis \/ treach t i x).

Lemma visit_spec : forall fuel i vis,
  NoDup vis -> bounded vis -> i < n -> n - length vis < fuel ->
  visit_post i vis (visit fuel t i vis).
Proof.
  induction fuel as [|f IH]; intros i vis ND Hb Hi Hf; [lia|]. cbn [visit].
  destruct (mem i vis) eqn:M.
  - apply mem_true_iff in M. unfold visit_post. split; [exact ND|]. split; [exact Hb|].
    split; [apply incl_refl|]. split; [exact M|]. split; [intros x H1 H2; contradiction|]. intros x H. left. exact H.
  - apply mem_false_iff in M.
    set (vis0 := vis ++ [i]).
    assert (ND0 : NoDup vis0) by (apply NoDup_app_snoc; assumption).
    assert (Hb0 : bounded vis0).
    { intros x Hx. apply in_app_or in Hx. destruct Hx as [Hx|[Hx|[]]]; [apply Hb; exact Hx|subst; exact Hi]. }
    assert (Hlen0 : length vis0 = S (length vis)) by (unfold vis0; rewrite app_length; cbn [length]; lia).
    (* the loop over the edges of i *)
    assert (Fold : forall es acc,
      (forall e, In e es -> In e (bundle t i)) ->
      NoDup acc -> bounded acc -> incl vis0 acc ->
      (forall x, In x acc -> ~ In x vis0 -> forall e, In e (bundle t x) -> In (e_dst e) acc) ->
      (forall x, In x acc -> In x vis \/ treach t i x) ->
      let acc' := fold_left (fun v e => visit f t (e_dst e) v) es acc in
      NoDup acc' /\ bounded acc' /\ incl acc acc' /\
      (forall x, In x acc' -> ~ In x vis0 -> forall e, In e (bundle t x) -> In (e_dst e) acc') /\
      (forall x, In x acc' -> In x vis \/ treach t i x) /\
      (forall e, In e es -> In (e_dst e) acc')).
    { induction es as [|e es IHes]; intros acc Hes NDa Hba Hinc Hcl Hre; cbn [fold_left].
      - split; [exact NDa|]. split; [exact Hba|]. split; [apply incl_refl|]. split; [exact Hcl|].
        split; [exact Hre|]. intros e [].
      - assert (Hei : In e (bundle t i)) by (apply Hes; left; reflexivity).
        assert (Hd : e_dst e < n) by (destruct Hok as [_ Hd]; eapply Hd; exact Hei).
        assert (Hla : n - length acc < f).
        { pose proof (NoDup_incl_length ND0 Hinc) as H1.
          pose proof (NoDup_bounded_length _ _ ND0 Hb0) as H2. lia. }
        destruct (IH (e_dst e) acc NDa Hba Hd Hla) as [ND2 [Hb2 [Hinc2 [Hin2 [Hcl2 Hre2]]]]].
        set (acc2 := visit f t (e_dst e) acc) in *.
        assert (Hcl' : forall x, In x acc2 -> ~ In x vis0 -> forall e0, In e0 (bundle t x) -> In (e_dst e0) acc2).
        { intros x Hx Hn e0 He0. destruct (in_dec Nat.eq_dec x acc) as [Ia|Na].
          - apply Hinc2. eapply Hcl; eassumption.
          - eapply Hcl2; eassumption. }
        assert (Hre' : forall x, In x acc2 -> In x vis \/ treach t i x).
        { intros x Hx. destruct (Hre2 x Hx) as [Ia|R]; [apply Hre; exact Ia|].
          right. eapply treach_step; eassumption. }
        destruct (IHes acc2 (fun e0 H => Hes e0 (or_intror H)) ND2 Hb2
                    (fun x H => Hinc2 x (Hinc x H)) Hcl' Hre') as [A [B [C [D [E F]]]]].
        split; [exact A|]. split; [exact B|]. split; [intros x H; apply C; apply Hinc2; exact H|].
        split; [exact D|]. split; [exact E|]. intros e0 [E0|H0]; [subst e0; apply C; exact Hin2|apply F; exact H0]. }
    destruct (Fold (bundle t i) vis0 (fun e H => H) ND0 Hb0 (incl_refl _)) as [A [B [C [D [E F]]]]].
    { intros x H1 H2. contradiction. }
    { intros x Hx. apply in_app_or in Hx. destruct Hx as [Hx|[Hx|[]]]; [left; exact Hx|subst; right; apply treach_refl]. }
    unfold visit_post. split; [exact A|]. split; [exact B|].
    split; [intros x Hx; apply C; apply in_or_app; left; exact Hx|].
    split; [apply C; apply in_or_app; right; left; reflexivity|]. split; [|exact E].
    intros x Hx Hnx e He. destruct (Nat.eq_dec x i) as [Ei|Ni].
    + subst x. apply F. exact He.
    + eapply D; [exact Hx| |exact He]. intros H0. apply in_app_or in H0. destruct H0 as [H0|[H0|[]]]; [contradiction|congruence].
Qed.

Lemma closed_walk (vis : list nat) :
  (forall x, In x vis -> forall e, In e (bundle t x) -> In (e_dst e) vis) ->
  forall u p v, walk t u p v -> In u vis -> In v vis.
Proof.
  intros Hc u p v W. induction W as [u|u e p v He _ IH]; intros Hu; [exact Hu|].
  apply IH. eapply Hc; eassumption.
Qed.

(* started on the empty list, visit collects exactly what the start node reaches *)
Lemma visit_reach s : s < n ->
  let vis := visit (S n) t s [] in
  NoDup vis /\ bounded vis /\ forall v, In v vis <-> treach t s v.
Proof.
  intros Hs. destruct (visit_spec (S n) s [] (NoDup_nil _) (fun x H => match H with end) Hs) as [A [B [_ [C [D E]]]]].
  { cbn [length]. lia. }
  split; [exact A|]. split; [exact B|]. intros v. split.
  - intros H. destruct (E v H) as [[]|R]. exact R.
  - intros [p W]. eapply closed_walk; [|exact W|exact C].
    intros x Hx e He. eapply D; [exact Hx|intros []|exact He].
Qed.

Lemma full_length (l : list nat) : NoDup l -> bounded l -> (length l = n <-> forall v, v < n -> In v l).
Proof.
  intros ND Hb.
  assert (I1 : incl l (seq 0 n)) by (intros x Hx; apply in_seq; specialize (Hb x Hx); lia).
  split.
  - intros Hl v Hv.
    assert (I2 : incl (seq 0 n) l) by (apply (NoDup_length_incl ND); [rewrite seq_length; lia|exact I1]).
    apply I2. apply in_seq. lia.
  - intros H.
    assert (I2 : incl (seq 0 n) l) by (intros x Hx; apply in_seq in Hx; apply H; lia).
    pose proof (NoDup_incl_length (seq_NoDup n 0) I2) as H1. rewrite seq_length in H1.
    pose proof (NoDup_bounded_length _ _ ND Hb) as H2. lia.
Qed.

Lemma connected_iff_sec :
  connected t = true <-> forall u v, u < n -> v < n -> treach t u v.
Proof.
  unfold connected. fold n. rewrite forallb_forall. split.
  - intros H u v Hu Hv. specialize (H u (proj2 (in_seq n 0 u) (conj (Nat.le_0_l u) Hu))).
    apply Nat.eqb_eq in H. destruct (visit_reach u Hu) as [ND [Hb Hr]].
    apply Hr. apply (proj1 (full_length _ ND Hb) H). exact Hv.
  - intros H s Hs. apply in_seq in Hs. apply Nat.eqb_eq.
    destruct (visit_reach s (proj2 Hs)) as [ND [Hb Hr]].
    apply (full_length _ ND Hb). intros v Hv. apply Hr. apply H; [lia|exact Hv].
Qed.

End Visit.

(* "a path from each arbitrary start node to each arbitrary end node" *)
Theorem connected_iff t :
  topo_ok t ->
  (connected t = true <->
   forall u v, u < length (nodes t) -> v < length (nodes t) -> treach t u v).
Proof. intros H. apply connected_iff_sec. exact H. Qed.
