(* The worlds that scripts wire (Model.build_world) satisfy the hypotheses of the
   C19 theorems: every far end is a gate of a module of the world ([closed]),
   and chains declared with at most 16 hops give [short] worlds.  So the
   theorems apply to every gate graph the correspondence check can build. *)
From Coq Require Import List NArith Arith Bool Lia.
From DesVerif Require Import Topo.Model Topo.Graph.
Import ListNotations.
Open Scope nat_scope.

Lemma upd_length {A} (f : A -> A) : forall l i, length (upd i f l) = length l.
Proof. induction l as [|x r IH]; intros i; [destruct i; reflexivity|]. destruct i; cbn [upd length]; [reflexivity|f_equal; apply IH]. Qed.

Lemma nth_error_upd {A} (f : A -> A) : forall l i j,
  nth_error (upd i f l) j = if i =? j then option_map f (nth_error l j) else nth_error l j.
Proof.
  induction l as [|x r IH]; intros i j.
  - destruct i, j; cbn; try reflexivity. destruct (i =? j); reflexivity.
  - destruct i as [|i], j as [|j]; cbn [upd nth_error Nat.eqb option_map]; try reflexivity. apply IH.
Qed.

Lemma nth_as_error {A} (d : A) : forall l i, nth i l d = match nth_error l i with Some x => x | None => d end.
Proof. induction l as [|x r IH]; intros i; destruct i; cbn [nth nth_error]; try reflexivity. apply IH. Qed.

Lemma gates_of_set w g x m :
  gates_of (set_gate w g x) m = if fst g =? m then upd (snd g) (fun _ => x) (gates_of w m) else gates_of w m.
Proof.
  unfold gates_of, set_gate. rewrite !nth_as_error, nth_error_upd.
  destruct (fst g =? m); [|reflexivity]. destruct (nth_error w m); cbn [option_map]; [reflexivity|].
  destruct (snd g); reflexivity.
Qed.

Lemma gref_eqb_eq a b : gref_eqb a b = true <-> a = b.
Proof.
  unfold gref_eqb. rewrite andb_true_iff, !Nat.eqb_eq. destruct a, b; cbn [fst snd]. split.
  - intros [H1 H2]. subst. reflexivity.
  - intros E. inversion E. split; reflexivity.
Qed.

Lemma get_set w g x g' :
  get_gate (set_gate w g x) g' =
  if gref_eqb g g' then option_map (fun _ => x) (get_gate w g') else get_gate w g'.
Proof.
  unfold get_gate, gref_eqb. rewrite gates_of_set. destruct (fst g =? fst g'); cbn [andb]; [|reflexivity].
  apply nth_error_upd.
Qed.

Lemma set_gate_length w g x : length (set_gate w g x) = length w.
Proof. apply upd_length. Qed.

Lemma get_gate_lt w g x : get_gate w g = Some x -> fst g < length w.
Proof.
  unfold get_gate, gates_of. intros H. destruct (Nat.lt_ge_cases (fst g) (length w)) as [L|G]; [exact L|].
  rewrite nth_overflow in H by exact G. destruct (snd g); discriminate.
Qed.

(* [closed] and [short] in terms of get_gate *)
Definition closed' (w : world) : Prop := forall g c, get_gate w g = Some (Endpoint c) -> fst (last c g) < length w.
Definition short' (w : world) : Prop := forall g c, get_gate w g = Some (Endpoint c) -> length c <= MAX_HOPS.

Lemma endpoints_get w m g c : In (g, c) (endpoints w m) -> get_gate w g = Some (Endpoint c).
Proof. intros H. apply endpoints_In in H. destruct H as [gi [E H]]. subst g. exact H. Qed.

Lemma closed'_closed w : closed' w -> closed w.
Proof. intros H m g c Hin. apply (H g c). eapply endpoints_get. exact Hin. Qed.
Lemma short'_short w : short' w -> short w.
Proof. intros H m g c Hin. apply (H g c). eapply endpoints_get. exact Hin. Qed.

Lemma set_transit_inv (P : world -> Prop) w g :
  (P = closed' \/ P = short') -> P w -> P (set_gate w g Transit).
Proof.
  intros [E|E] H; subst P; intros g' c Hg; rewrite get_set in Hg; try rewrite set_gate_length;
    (destruct (gref_eqb g g'); [destruct (get_gate w g'); discriminate|exact (H g' c Hg)]).
Qed.

Lemma closed'_set_endpoint w g ch :
  closed' w -> fst (last ch g) < length w -> closed' (set_gate w g (Endpoint ch)).
Proof.
  intros H Hl g' c Hg. rewrite set_gate_length. rewrite get_set in Hg.
  destruct (gref_eqb g g') eqn:E; [|exact (H g' c Hg)].
  apply gref_eqb_eq in E. subst g'. destruct (get_gate w g); [|discriminate]. inversion Hg. subst. exact Hl.
Qed.

Lemma short'_set_endpoint w g ch :
  short' w -> length ch <= MAX_HOPS -> short' (set_gate w g (Endpoint ch)).
Proof.
  intros H Hl g' c Hg. rewrite get_set in Hg.
  destruct (gref_eqb g g') eqn:E; [|exact (H g' c Hg)].
  destruct (get_gate w g'); [|discriminate]. inversion Hg. subst. exact Hl.
Qed.

Lemma fold_transit_inv (P : world -> Prop) : (P = closed' \/ P = short') ->
  forall l w, P w -> P (fold_left (fun w' g => set_gate w' g Transit) l w).
Proof. intros HP. induction l as [|g l IH]; intros w H; cbn [fold_left]; [exact H|]. apply IH. apply set_transit_inv; assumption. Qed.

Lemma fold_transit_length l : forall w, length (fold_left (fun w' g => set_gate w' g Transit) l w) = length w.
Proof. induction l as [|g l IH]; intros w; cbn [fold_left]; [reflexivity|]. rewrite IH. apply set_gate_length. Qed.

Lemma last_In {A} (l : list A) d : In (last l d) (d :: l).
Proof.
  destruct l as [|x r]; [left; reflexivity|]. right.
  assert (H : x :: r <> []) by discriminate.
  rewrite (app_removelast_last d H) at 2. apply in_or_app. right. left. reflexivity.
Qed.

Lemma add_chain_closed w c : closed' w -> closed' (add_chain w c).
Proof.
  intros H. unfold add_chain. destruct (valid_chain w c) eqn:V; [|exact H].
  destruct c as [|g0 rest]; [exact H|]. destruct (rev (g0 :: rest)) as [|gh rrest] eqn:R; [exact H|].
  unfold valid_chain in V. apply andb_true_iff in V. destruct V as [_ V].
  assert (Hin : forall g, In g (g0 :: rest) -> fst g < length w).
  { intros g Hg. rewrite forallb_forall in V. specialize (V g Hg). unfold is_free in V.
    destruct (get_gate w g) as [x|] eqn:G; [|discriminate]. eapply get_gate_lt. exact G. }
  set (w1 := fold_left (fun w' g => set_gate w' g Transit) (removelast rest) w).
  assert (L1 : length w1 = length w) by apply fold_transit_length.
  assert (H1 : closed' w1) by (apply fold_transit_inv; [left; reflexivity|exact H]).
  apply closed'_set_endpoint; [apply closed'_set_endpoint; [exact H1|]|].
  - rewrite L1. apply Hin. apply last_In.
  - rewrite set_gate_length, L1. apply Hin. apply in_rev. rewrite R. apply last_In.
Qed.

Lemma rev_cons_length {A} (l : list A) x r : rev l = x :: r -> length l = S (length r).
Proof. intros E. rewrite <- (rev_length l), E. reflexivity. Qed.

Lemma add_chain_short w c : length c <= S MAX_HOPS -> short' w -> short' (add_chain w c).
Proof.
  intros Hc H. unfold add_chain. destruct (valid_chain w c); [|exact H].
  destruct c as [|g0 rest]; [exact H|]. destruct (rev (g0 :: rest)) as [|gh rrest] eqn:R; [exact H|].
  apply rev_cons_length in R. cbn [length] in Hc, R.
  apply short'_set_endpoint; [apply short'_set_endpoint; [apply fold_transit_inv; [right; reflexivity|exact H]|]|]; lia.
Qed.

Lemma init_world_gates counts g x : get_gate (init_world counts) g = Some x -> x = Standalone.
Proof.
  unfold get_gate, gates_of, init_world. intros H. apply nth_error_In in H.
  destruct (nth_in_or_default (fst g) (map (fun c => repeat Standalone (cl 40 c)) (firstn 24 counts)) []) as [I|E].
  - apply in_map_iff in I. destruct I as [c [E _]]. rewrite <- E in H. eapply repeat_spec. exact H.
  - rewrite E in H. destruct H.
Qed.

(* every world a script wires *)
Theorem build_world_closed counts chains : closed (build_world counts chains).
Proof.
  apply closed'_closed. unfold build_world.
  assert (H0 : closed' (init_world counts)).
  { intros g c H. apply init_world_gates in H. discriminate. }
  revert H0. generalize (init_world counts). induction chains as [|c r IH]; intros w H; cbn [fold_left]; [exact H|].
  apply IH. apply add_chain_closed. exact H.
Qed.

(* ... and with all declared chains within 16 hops (17 gates) *)
Theorem build_world_short counts chains :
  (forall c, In c chains -> length (pairs (tl c)) <= S MAX_HOPS) -> short (build_world counts chains).
Proof.
  intros Hc. apply short'_short. unfold build_world.
  assert (H0 : short' (init_world counts)).
  { intros g c H. apply init_world_gates in H. discriminate. }
  revert H0. generalize (init_world counts). induction chains as [|c r IH]; intros w H; cbn [fold_left]; [exact H|].
  apply IH; [intros c' Hc'; apply Hc; right; exact Hc'|]. apply add_chain_short; [apply Hc; left; reflexivity|exact H].
Qed.

(* ---- module identities ---- *)
(* The model names a module by its index; the code by its ModuleId.  Ids come
   from a wrapping 16-bit counter: whatever its position, the (at most 2^16)
   modules of one simulation get pairwise distinct ids.  The runner reports
   the same fact about the real ids for every script. *)
Lemma gen_ids_from_NoDup p : forall n a,
  (N.of_nat (a + n) <= ID_SPACE)%N ->
  NoDup (map (fun i => ((p + N.of_nat i) mod ID_SPACE)%N) (seq a n)).
Proof.
  induction n as [|n IH]; intros a H; cbn [seq map]; [constructor|].
  constructor; [|apply IH; lia].
  intros Hin. apply in_map_iff in Hin. destruct Hin as [j [E Hj]]. apply in_seq in Hj.
  unfold ID_SPACE in *.
  pose proof (N.div_mod (p + N.of_nat j) 65536 ltac:(discriminate)) as D1.
  pose proof (N.div_mod (p + N.of_nat a) 65536 ltac:(discriminate)) as D2.
  rewrite E in D1. revert D1 D2.
  generalize ((p + N.of_nat j) / 65536)%N as q1, ((p + N.of_nat a) / 65536)%N as q2,
             ((p + N.of_nat a) mod 65536)%N as r.
  intros q1 q2 r D1 D2. lia.
Qed.

Theorem gen_ids_NoDup p n : (N.of_nat n <= ID_SPACE)%N -> NoDup (gen_ids p n).
Proof. intros H. apply gen_ids_from_NoDup. exact H. Qed.

Lemma distinctb_true l : NoDup l -> distinctb l = true.
Proof.
  induction 1 as [|x l Hx _ IH]; cbn [distinctb]; [reflexivity|]. rewrite IH, andb_true_r.
  apply negb_true_iff. destruct (existsb (N.eqb x) l) eqn:E; [|reflexivity].
  apply existsb_exists in E. destruct E as [y [Hy Ey]]. apply N.eqb_eq in Ey. subst. contradiction.
Qed.
