(* dijkstra is a breadth-first search: for every reachable node it records the
   first edge of a minimum-hop path (C19, last clause).

   The work list is FIFO and entries are deleted lazily (a popped node that is
   already visited is skipped).  Invariant: the distances in the work list are
   k..k,k+1..k+1 ("layered"), every entry is witnessed by a walk of that length
   whose first edge it carries, and every edge out of a visited node leads to
   a visited node or to a work-list entry at most one hop further.  When an
   unvisited node is popped, any shorter walk to it would have to leave the
   visited set through such an edge, whose entry cannot be behind the head. *)
From Coq Require Import List Arith Bool Lia.
From DesVerif Require Import Topo.Model Topo.Graph Topo.FromGates Topo.Spanned Topo.Conn.
Import ListNotations.

Lemma map_nth_seq {A} (d : A) : forall l, map (fun i => nth i l d) (seq 0 (length l)) = l.
Proof.
  induction l as [|x r IH]; [reflexivity|].
  cbn [length seq map nth]. f_equal. rewrite <- seq_shift, map_map. exact IH.
Qed.

Lemma filter_len_le {A} (f : A -> bool) l : length (filter f l) <= length l.
Proof. induction l as [|x r IH]; cbn [filter length]; [lia|]. destruct (f x); cbn [length]; lia. Qed.

Lemma mem_app_snoc x V c : mem x (V ++ [c]) = mem x V || (x =? c).
Proof. unfold mem. rewrite existsb_app. cbn [existsb]. rewrite orb_false_r. reflexivity. Qed.

Section Bfs.
Variable t : topo.
Hypothesis Hok : topo_ok t.
Hypothesis Hnd : NoDup (nodes t).
Variable s : nat.
Hypothesis Hs : s < length (nodes t).

Definition key (v : nat) : nat := nth v (nodes t) 0.

Lemma key_inj u v : u < length (nodes t) -> v < length (nodes t) -> key u = key v -> u = v.
Proof. intros Hu Hv E. apply (proj1 (NoDup_nth (nodes t) 0) Hnd); assumption. Qed.

Definition src_el : qel := {| q_idx := s; q_dist := 0; q_next := None |}.
Definition first_of (p : list edge) : option hop := match p with [] => None | e :: _ => Some (s, e) end.

(* a work-list entry is witnessed by a walk from the source *)
Definition qel_ok (x : qel) : Prop :=
  exists p, walk t s p (q_idx x) /\ length p = q_dist x /\ q_next x = first_of p.

(* k is the minimum number of hops from the source to v *)
Definition mind (v k : nat) : Prop :=
  (exists p, walk t s p v /\ length p = k) /\ forall q, walk t s q v -> k <= length q.

Definition layered (Q : list qel) : Prop :=
  exists k A B, Q = A ++ B /\ (forall x, In x A -> q_dist x = k) /\ (forall x, In x B -> q_dist x = S k).

Definition vis_ok (V : list nat) (Q : list qel) (M : list (nat * hop)) (v : nat) : Prop :=
  exists k, mind v k /\ (forall y, In y Q -> k <= q_dist y) /\
    (forall e, In e (bundle t v) ->
               In (e_dst e) V \/ exists y, In y Q /\ q_idx y = e_dst e /\ q_dist y <= S k) /\
    ((v = s /\ lookup (key v) M = None) \/
     (v <> s /\ exists e p, lookup (key v) M = Some (s, e) /\ walk t s (e :: p) v /\ length (e :: p) = k)).

Definition inv (V : list nat) (Q : list qel) (M : list (nat * hop)) : Prop :=
  NoDup V /\ (forall v, In v V -> v < length (nodes t)) /\
  Forall qel_ok Q /\ layered Q /\
  (forall v, In v V -> vis_ok V Q M v) /\
  (forall k h, lookup k M = Some h -> exists v, In v V /\ key v = k) /\
  ((V = [] /\ Q = [src_el] /\ M = []) \/ In s V).

Lemma walk_nil_inv u v : walk t u [] v -> u = v.
Proof. intros W. inversion W. reflexivity. Qed.

Lemma head_min cur q : layered (cur :: q) -> forall y, In y (cur :: q) -> q_dist cur <= q_dist y.
Proof.
  intros [k [A [B [E [HA HB]]]]] y Hy. destruct A as [|a A'].
  - cbn [app] in E. subst B. rewrite (HB cur (or_introl eq_refl)), (HB y Hy). lia.
  - cbn [app] in E. inversion E. subst a. rewrite (HA cur (or_introl eq_refl)).
    rewrite H1 in Hy. destruct Hy as [Hy|Hy]; [rewrite <- Hy, (HA cur (or_introl eq_refl)); lia|].
    apply in_app_or in Hy. destruct Hy as [Hy|Hy]; [rewrite (HA y (or_intror Hy)); lia|rewrite (HB y Hy); lia].
Qed.

Lemma layered_tail cur q : layered (cur :: q) -> layered q.
Proof.
  intros [k [A [B [E [HA HB]]]]]. destruct A as [|a A'].
  - cbn [app] in E. subst B. exists (S k), q, []. rewrite app_nil_r. split; [reflexivity|].
    split; [intros x Hx; apply HB; right; exact Hx|intros x []].
  - cbn [app] in E. inversion E. exists k, A', B. split; [reflexivity|].
    split; [intros x Hx; apply HA; right; exact Hx|exact HB].
Qed.

Lemma layered_push cur q new :
  layered (cur :: q) -> (forall x, In x new -> q_dist x = S (q_dist cur)) -> layered (q ++ new).
Proof.
  intros [k [A [B [E [HA HB]]]]] Hn. destruct A as [|a A'].
  - cbn [app] in E. subst B. exists (S k), q, new. split; [reflexivity|].
    split; [intros x Hx; apply HB; right; exact Hx|].
    intros x Hx. rewrite (Hn x Hx), (HB cur (or_introl eq_refl)). reflexivity.
  - cbn [app] in E. inversion E. subst a. exists k, A', (B ++ new). split; [rewrite app_assoc; reflexivity|].
    split; [intros x Hx; apply HA; right; exact Hx|].
    intros x Hx. apply in_app_or in Hx. destruct Hx as [Hx|Hx]; [apply HB; exact Hx|].
    rewrite (Hn x Hx), (HA cur (or_introl eq_refl)). reflexivity.
Qed.

(* a walk that starts inside V and ends outside leaves V through some edge *)
Lemma frontier V : forall u q v, walk t u q v -> In u V -> ~ In v V ->
  exists q1 w e q2, q = q1 ++ e :: q2 /\ walk t u q1 w /\ In w V /\ In e (bundle t w) /\ ~ In (e_dst e) V.
Proof.
  intros u q v W. induction W as [u|u e p v He W IH]; intros Hu Hv; [contradiction|].
  destruct (in_dec Nat.eq_dec (e_dst e) V) as [I|N].
  - destruct (IH I Hv) as [q1 [w [e' [q2 [E [W1 [Hw [He' Hn]]]]]]]].
    exists (e :: q1), w, e', q2. split; [rewrite E; reflexivity|]. split; [constructor; assumption|]. tauto.
  - exists [], u, e, p. split; [reflexivity|]. split; [constructor|]. tauto.
Qed.

(* ---- pop of an entry whose node is visited already ---- *)
Lemma inv_skip V cur q M : inv V (cur :: q) M -> In (q_idx cur) V -> inv V q M.
Proof.
  intros [ND [Hb [HQ [HL [HV [HK Hi]]]]]] Hc.
  split; [exact ND|]. split; [exact Hb|]. split; [inversion HQ; assumption|]. split; [eapply layered_tail; exact HL|].
  split; [|split; [exact HK|]].
  - intros v Hv. destruct (HV v Hv) as [k [Hm [Hle [He HM]]]]. exists k. split; [exact Hm|].
    split; [intros y Hy; apply Hle; right; exact Hy|]. split; [|exact HM].
    intros e Hin. destruct (He e Hin) as [I|[y [[Ey|Hy] [Hi' Hd]]]]; [left; exact I| |right; exists y; tauto].
    subst y. left. rewrite <- Hi'. exact Hc.
  - destruct Hi as [[E _]|I]; [subst V; destruct Hc|right; exact I].
Qed.

(* ---- pop of an entry whose node is not visited yet ---- *)
Lemma pop_min V cur q M :
  inv V (cur :: q) M -> ~ In (q_idx cur) V -> mind (q_idx cur) (q_dist cur).
Proof.
  intros [ND [Hb [HQ [HL [HV [HK Hi]]]]]] Hc.
  assert (Hcur : qel_ok cur) by (inversion HQ; assumption).
  destruct Hcur as [p [Wp [Lp Np]]]. split; [exists p; tauto|]. intros r Wr.
  destruct Hi as [[EV [EQ EM]]|Is].
  - inversion EQ. subst cur. unfold src_el. cbn [q_dist]. lia.
  - destruct (frontier V _ _ _ Wr Is Hc) as [q1 [w [e [q2 [E [W1 [Hw [He Hn]]]]]]]].
    destruct (HV w Hw) as [kw [[_ Hmin] [_ [Hedge _]]]].
    destruct (Hedge e He) as [I|[y [Hy [Hyi Hyd]]]]; [contradiction|].
    pose proof (head_min cur q HL y Hy) as H1. pose proof (Hmin q1 W1) as H2.
    rewrite E, app_length. cbn [length]. lia.
Qed.

Lemma succ_In V' cur es y :
  In y (dj_succ V' cur es) <->
  exists e, In e es /\ ~ In (e_dst e) V' /\
            y = {| q_idx := e_dst e; q_dist := S (q_dist cur);
                   q_next := Some (match q_next cur with Some h => h | None => (q_idx cur, e) end) |}.
Proof.
  unfold dj_succ. rewrite in_map_iff. split.
  - intros [e [E H]]. apply filter_In in H. destruct H as [H1 H2]. exists e. split; [exact H1|].
    split; [|symmetry; exact E]. apply mem_false_iff. destruct (mem (e_dst e) V'); [discriminate|reflexivity].
  - intros [e [H1 [H2 E]]]. exists e. split; [symmetry; exact E|]. apply filter_In. split; [exact H1|].
    apply mem_false_iff in H2. rewrite H2. reflexivity.
Qed.

Lemma inv_visit V cur q M :
  inv V (cur :: q) M -> ~ In (q_idx cur) V ->
  inv (V ++ [q_idx cur])
      (q ++ dj_succ (V ++ [q_idx cur]) cur (bundle t (q_idx cur)))
      (match q_next cur with Some h => (key (q_idx cur), h) :: M | None => M end).
Proof.
  intros Hinv Hc. pose proof (pop_min V cur q M Hinv Hc) as Hmin.
  destruct Hinv as [ND [Hb [HQ [HL [HV [HK Hi]]]]]].
  set (c := q_idx cur) in *. set (k := q_dist cur) in *. set (V' := V ++ [c]).
  set (new := dj_succ V' cur (bundle t c)).
  set (M' := match q_next cur with Some h => (key c, h) :: M | None => M end).
  assert (Hcur : qel_ok cur) by (inversion HQ; assumption).
  destruct Hcur as [p [Wp [Lp Np]]]. fold c in Wp. fold k in Lp.
  assert (Hcn : c < length (nodes t)) by (eapply walk_lt; [exact Hok|exact Hs|exact Wp]).
  assert (HinV' : forall v, In v V' <-> In v V \/ v = c).
  { intros v. unfold V'. rewrite in_app_iff. cbn [In]. intuition. }
  assert (Hnew : forall y, In y new -> q_dist y = S k).
  { intros y Hy. apply succ_In in Hy. destruct Hy as [e [_ [_ E]]]. subst y. reflexivity. }
  assert (HnoM : lookup (key c) M = None).
  { destruct (lookup (key c) M) as [h|] eqn:L; [|reflexivity]. destruct (HK _ _ L) as [v [Hv Ev]].
    apply key_inj in Ev; [subst v; contradiction|apply Hb; exact Hv|exact Hcn]. }
  assert (HM_old : forall v, In v V -> lookup (key v) M' = lookup (key v) M).
  { intros v Hv. unfold M'. destruct (q_next cur) as [h|]; [|reflexivity]. cbn [lookup].
    destruct (Nat.eqb_spec (key c) (key v)) as [E|N]; [|reflexivity].
    apply key_inj in E; [subst v; contradiction|exact Hcn|apply Hb; exact Hv]. }
  split; [apply NoDup_app_snoc; assumption|].
  split; [intros v Hv; apply HinV' in Hv; destruct Hv as [Hv|Hv]; [apply Hb; exact Hv|subst; exact Hcn]|].
  split; [|split; [apply (layered_push cur q new HL); exact Hnew|split; [|split]]].
  - (* entries are witnessed *)
    apply Forall_app. split; [inversion HQ; assumption|]. apply Forall_forall. intros y Hy.
    apply succ_In in Hy. destruct Hy as [e [He [_ E]]]. subst y. exists (p ++ [e]). cbn [q_idx q_dist q_next].
    split; [eapply walk_snoc; [exact Wp|exact He]|]. split; [rewrite app_length; cbn [length]; fold k; lia|].
    rewrite Np. destruct p as [|e0 p']; cbn [first_of app]; [|reflexivity].
    apply walk_nil_inv in Wp. unfold c in Wp. rewrite <- Wp. reflexivity.
  - (* visited nodes *)
    intros v Hv. apply HinV' in Hv. destruct Hv as [Hv|Hv].
    + destruct (HV v Hv) as [kv [Hm [Hle [He HM]]]]. exists kv. split; [exact Hm|]. split; [|split].
      * intros y Hy. apply in_app_or in Hy. destruct Hy as [Hy|Hy]; [apply Hle; right; exact Hy|].
        rewrite (Hnew y Hy). specialize (Hle cur (or_introl eq_refl)). fold k in Hle. lia.
      * intros e Hin. destruct (He e Hin) as [I|[y [[Ey|Hy] [Hyi Hyd]]]].
        -- left. apply HinV'. left. exact I.
        -- subst y. left. apply HinV'. right. symmetry. exact Hyi.
        -- right. exists y. split; [apply in_or_app; left; exact Hy|tauto].
      * rewrite (HM_old v Hv). exact HM.
    + subst v. exists k. split; [exact Hmin|]. split; [|split].
      * intros y Hy. apply in_app_or in Hy. destruct Hy as [Hy|Hy].
        -- apply (head_min cur q HL). right. exact Hy.
        -- rewrite (Hnew y Hy). lia.
      * intros e Hin. destruct (in_dec Nat.eq_dec (e_dst e) V') as [I|N]; [left; exact I|].
        right. eexists. split; [apply in_or_app; right; apply succ_In; exists e; split; [exact Hin|split; [exact N|reflexivity]]|].
        cbn [q_idx q_dist]. split; [reflexivity|]. fold k. lia.
      * destruct (Nat.eq_dec c s) as [Es|Ns].
        -- left. split; [exact Es|].
           assert (k = 0). { destruct Hmin as [_ Hm]. specialize (Hm [] ltac:(rewrite Es; constructor)). cbn [length] in Hm. lia. }
           destruct p as [|e0 p']; [|cbn [length] in Lp; lia]. cbn [first_of] in Np. unfold M'. rewrite Np. exact HnoM.
        -- right. split; [exact Ns|]. destruct p as [|e0 p']; [apply walk_nil_inv in Wp; congruence|].
           cbn [first_of] in Np. exists e0, p'. unfold M'. rewrite Np. cbn [lookup]. rewrite Nat.eqb_refl. tauto.
  - (* keys of the mapping *)
    intros k0 h L. unfold M' in L. destruct (q_next cur) as [h0|].
    + cbn [lookup] in L. destruct (Nat.eqb_spec (key c) k0) as [E|N].
      * exists c. split; [apply HinV'; right; reflexivity|exact E].
      * destruct (HK _ _ L) as [v [Hv Ev]]. exists v. split; [apply HinV'; left; exact Hv|exact Ev].
    + destruct (HK _ _ L) as [v [Hv Ev]]. exists v. split; [apply HinV'; left; exact Hv|exact Ev].
  - right. apply HinV'. destruct Hi as [[_ [EQ _]]|I]; [|left; exact I].
    right. inversion EQ as [[H0 H1]]. unfold c. rewrite H0. reflexivity.
Qed.

(* ---- termination: each pop either shortens the work list or uses up the edges of a fresh node ---- *)
Definition deg_sum (l : list nat) : nat := length (concat (map (bundle t) l)).
Definition unv (V : list nat) : list nat := filter (fun w => negb (mem w V)) (seq 0 (length (nodes t))).
Definition mu (V : list nat) (Q : list qel) : nat := length Q + deg_sum (unv V).

Lemma deg_sum_cons x l : deg_sum (x :: l) = length (bundle t x) + deg_sum l.
Proof. unfold deg_sum. cbn [map concat]. apply app_length. Qed.

Lemma unv_same V c l : ~ In c l ->
  filter (fun w => negb (mem w (V ++ [c]))) l = filter (fun w => negb (mem w V)) l.
Proof.
  intros H. apply filter_ext_in. intros x Hx. rewrite mem_app_snoc.
  destruct (Nat.eqb_spec x c) as [E|N]; [subst; contradiction|]. rewrite orb_false_r. reflexivity.
Qed.

Lemma unv_step V c : ~ In c V -> forall l, NoDup l -> In c l ->
  deg_sum (filter (fun w => negb (mem w (V ++ [c]))) l) + length (bundle t c)
  = deg_sum (filter (fun w => negb (mem w V)) l).
Proof.
  intros Hc. induction l as [|x r IH]; intros ND Hin; [destruct Hin|].
  inversion ND as [|x' r' Hx ND']. subst. cbn [filter]. rewrite mem_app_snoc.
  destruct (Nat.eqb_spec x c) as [E|N].
  - subst x. rewrite orb_true_r. cbn [negb]. apply mem_false_iff in Hc. rewrite Hc. cbn [negb].
    rewrite deg_sum_cons, (unv_same V c r Hx). lia.
  - rewrite orb_false_r. destruct Hin as [E|Hin]; [congruence|]. specialize (IH ND' Hin).
    destruct (negb (mem x V)); [rewrite !deg_sum_cons; lia|exact IH].
Qed.

Lemma mu_init : mu [] [src_el] < dj_fuel t.
Proof.
  unfold mu, dj_fuel, unv, deg_sum. cbn [length].
  rewrite filter_all by (intros x _; reflexivity).
  destruct Hok as [Hl _]. rewrite <- Hl. unfold bundle. rewrite (map_nth_seq (@nil edge) (edges t)). lia.
Qed.

Lemma dj_loop_total : forall fuel V Q M,
  inv V Q M -> mu V Q < fuel ->
  exists M' V', dj_loop fuel t V Q M = Some M' /\ inv V' [] M'.
Proof.
  induction fuel as [|f IH]; intros V Q M Hinv Hmu; [lia|].
  destruct Q as [|cur q]; cbn [dj_loop]; [exists M, V; split; [reflexivity|exact Hinv]|].
  destruct (mem (q_idx cur) V) eqn:Mc.
  - apply mem_true_iff in Mc. apply IH; [eapply inv_skip; eassumption|]. unfold mu in *. cbn [length] in Hmu. lia.
  - apply mem_false_iff in Mc. apply IH; [apply inv_visit; assumption|].
    assert (Hcn : q_idx cur < length (nodes t)).
    { destruct Hinv as [_ [_ [HQ _]]]. inversion HQ as [|x l [p [Wp _]] _]. subst.
      eapply walk_lt; [exact Hok|exact Hs|exact Wp]. }
    pose proof (unv_step V (q_idx cur) Mc (seq 0 (length (nodes t))) (seq_NoDup _ _)
                  (proj2 (in_seq _ _ _) (conj (Nat.le_0_l _) Hcn))) as Hstep.
    unfold mu in *. fold (unv (V ++ [q_idx cur])) in Hstep. fold (unv V) in Hstep.
    rewrite app_length. unfold dj_succ. rewrite map_length.
    pose proof (filter_len_le (fun e => negb (mem (e_dst e) (V ++ [q_idx cur]))) (bundle t (q_idx cur))) as Hle.
    cbn [length] in Hmu. lia.
Qed.

Lemma inv_init : inv [] [src_el] [].
Proof.
  split; [constructor|]. split; [intros v []|]. split; [|split; [|split; [intros v []|split]]].
  - constructor; [|constructor]. exists []. split; [constructor|]. split; reflexivity.
  - exists 0, [src_el], []. split; [reflexivity|]. split; [intros x [E|[]]; subst; reflexivity|intros x []].
  - intros k h L. discriminate.
  - left. tauto.
Qed.

(* ---- what the final state says ---- *)
Lemma final_spec V M : inv V [] M ->
  forall v, v < length (nodes t) ->
    (v <> s -> treach t s v ->
       exists e p, lookup (key v) M = Some (s, e) /\ walk t s (e :: p) v /\
                   forall q, walk t s q v -> length (e :: p) <= length q) /\
    (v = s \/ ~ treach t s v -> lookup (key v) M = None).
Proof.
  intros [ND [Hb [_ [_ [HV [HK Hi]]]]]] v Hv.
  assert (Is : In s V) by (destruct Hi as [[_ [E _]]|I]; [discriminate|exact I]).
  assert (Hclosed : forall x, In x V -> forall e, In e (bundle t x) -> In (e_dst e) V).
  { intros x Hx e He. destruct (HV x Hx) as [k [_ [_ [Hedge _]]]].
    destruct (Hedge e He) as [I|[y [[] _]]]. exact I. }
  assert (Hreach : forall x, treach t s x -> In x V).
  { intros x [p W]. eapply closed_walk; [exact Hclosed|exact W|exact Is]. }
  split.
  - intros Hne R. destruct (HV v (Hreach v R)) as [k [[_ Hmin] [_ [_ [[E _]|[_ [e [p [L [W Lk]]]]]]]]]]; [contradiction|].
    exists e, p. split; [exact L|]. split; [exact W|]. rewrite Lk. exact Hmin.
  - intros [E|N].
    + subst v. destruct (HV s Is) as [k [_ [_ [_ [[_ L]|[Hne _]]]]]]; [exact L|congruence].
    + destruct (lookup (key v) M) as [h|] eqn:L; [|reflexivity]. exfalso.
      destruct (HK _ _ L) as [x [Hx Ex]]. apply key_inj in Ex; [|apply Hb; exact Hx|exact Hv]. subst x.
      destruct (HV v Hx) as [k [[[p [W _]] _] _]]. apply N. exists p. exact W.
Qed.

End Bfs.

(* For every topology with in-range edges and distinct nodes and every source
   node s: dijkstra terminates without panic; a node v <> s that s reaches is
   mapped to an edge e leaving s that is the first edge of a walk from s to v
   which no walk from s to v undercuts; the source and the nodes s does not
   reach are not in the map. *)
Theorem first_hop_of_shortest_path t s ms :
  topo_ok t -> NoDup (nodes t) -> nth_error (nodes t) s = Some ms ->
  exists m, dijkstra t ms = DjOk m /\
    forall v mv, nth_error (nodes t) v = Some mv ->
      (v <> s -> treach t s v ->
         exists e p, lookup mv m = Some (s, e) /\ walk t s (e :: p) v /\
                     forall q, walk t s q v -> length (e :: p) <= length q) /\
      (v = s \/ ~ treach t s v -> lookup mv m = None).
Proof.
  intros Hok Hnd Hs.
  assert (Hlt : s < length (nodes t)) by (apply nth_error_Some; rewrite Hs; discriminate).
  unfold dijkstra. rewrite (position_NoDup ms (nodes t) s Hnd Hs).
  destruct (dj_loop_total t Hok Hnd s Hlt (dj_fuel t) [] [src_el s] [] (inv_init t s) (mu_init t Hok s Hlt))
    as [M [V [E Hinv]]].
  unfold src_el in E. rewrite E. exists M. split; [reflexivity|]. intros v mv Hv.
  assert (Hvl : v < length (nodes t)) by (apply nth_error_Some; rewrite Hv; discriminate).
  pose proof (final_spec t Hnd s V M Hinv v Hvl) as F.
  unfold key in F. rewrite (nth_error_nth _ _ 0 Hv) in F. exact F.
Qed.
