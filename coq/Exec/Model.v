(* Executable model of how des runs a module's async work (C06).

   Every module callback is  Harness::exec (des/src/net/runtime/unwind.rs):
       task_set.block_on(&rt, async { f(); tokio::task::yield_now().await })
   on the module's own current-thread runtime + LocalSet (des/src/net/module/ctx/rt.rs).
   With tokio 1.45.1 (task/local.rs, runtime/scheduler/current_thread/mod.rs,
   task/coop/mod.rs, runtime/scheduler/defer.rs) one such call is:

     phase 1  the root future is polled: f() runs (spawns, channel sends); yield_now
              defers its wake and returns Pending;
     phase 2  still inside that poll, RunUntil::poll calls LocalSet::tick once: at most
              MAX_TASKS_PER_TICK polls of tasks from the LocalSet's local queue;
     phase 3  the scheduler loop of CoreGuard::block_on: at most event_interval polls of
              tasks from the core queue (tokio::spawn);
     park     Defer::wake fires the deferred wakers, LAST deferred FIRST (Vec::pop); the
              root future is polled again, yield_now is Ready, block_on returns.

   Every poll runs under the cooperative budget Budget::initial(): each successful mpsc
   recv / JoinHandle poll consumes one unit; an operation attempted with none left
   returns Pending and defers the task's wake to the park.  yield_now inside a task
   defers in the same way.  Whatever is queued when block_on returns waits for the
   module's next callback.

   All wakes happen on the simulation thread, so LocalSet tasks always go to the
   LocalSet's LOCAL queue (Shared::schedule: first branch inside RunUntil::poll, second
   branch -- same thread -- otherwise); its remote queue stays empty and
   REMOTE_FIRST_INTERVAL has no effect.  A tokio::spawn task woken inside block_on goes
   to the scheduler's core queue (Handle::schedule with the core present); woken OUTSIDE
   block_on -- by a processing element's hook, which des runs before the exec
   (ModuleRef::handle_message: incoming_upstream; exec; incoming_downstream) -- it goes
   to the scheduler's INJECT queue.  Core::next_task takes from the inject queue first
   when the scheduler's tick counter (u32, incremented before every lookup, also the
   failing one that ends the turn) is a multiple of global_queue_interval, else from the
   core queue first.

   Entry points of des/src/net/runtime/events.rs, all of which run Harness::exec:
   at_sim_start(stage) = exec(handler.at_sim_start); handle_message = element hooks
   outside, then exec(handle_message) or, when an element consumed the message,
   exec(|| {}); async_wakeup = timer wakes outside, then exec(|| {}) (same shape as a
   consumed message; timers are C05's); at_sim_end = exec(at_sim_end) + block_on(yield_now);
   restart = the at_sim_start stages on the runtime created at shutdown.
   Shutdown: a callback that calls shutdown() / shutdow_and_restart_in(d) only sets a
   request; its exec drives the runtime as usual (tasks it woke ARE polled); buf_process
   consumes the request after the event: the runtime is dropped (all tasks cancelled), a
   fresh one is created, exec(Module::reset) runs on it, the module is inactive (messages
   are ignored, no hooks, no exec) until the restart event, if any.

   [mode]: [Some c] is tokio with cooperative budget c; [None] is the executor without
   cooperative budget in which a yield re-queues at once -- used, with unbounded poll
   fuel, as the ideal executor the property is stated against.
   No proofs in this file. *)
From Coq Require Import List NArith Bool Arith.
From DesVerif Require Import Common.Codec.
Import ListNotations.
Open Scope N_scope.

(* ---- task systems ---- *)
Inductive op := Log | Recv | Send (t : nat) | Join (t : nat) | Yield | End.
(* AShutdown None = current().shutdown(); AShutdown (Some d) = current().shutdow_and_restart_in(d) *)
Inductive act := Spawn (t : nat) | ASend (t : nat) | AShutdown (r : option N).
Inductive status := NotSpawned | Queued | BlockedRecv | BlockedJoin (t : nat) | Done.
(* where the JoinHandle of a task is: nowhere (not spawned / consumed), in the module's
   table, or taken by task i (which is awaiting it or about to) *)
Inductive jstate := JNone | JTable | JHeld (i : nat).

Record task := {
  local : bool;               (* spawn_local (LocalSet) or tokio::spawn (scheduler) *)
  code : option (list op);    (* what is left to run; None = finished *)
  stat : status;
  inbox : N;                  (* messages in the task's own unbounded channel *)
  jh : jstate;
  wk : N }.                   (* simulated time at which it was last made runnable *)

Inductive trec :=
| RStart (now : N)
| RReset (now : N)
| REvent (e : nat) (now : N)
| RPoll (i : nat) (woken now : N)
| ROp (i : nat) (now : N)
| RClose (tag pl pr : N) (lf : bool).

Record st := {
  tasks : list task;
  lq : list nat;       (* LocalSet local queue *)
  cq : list nat;       (* scheduler core queue *)
  inj : list nat;      (* scheduler inject queue *)
  stick : N;           (* scheduler tick counter *)
  gqi : N;             (* global_queue_interval (constant) *)
  trace : list trec }.

(* what one poll did *)
Record pinfo := {
  p_ops : N;      (* resource operations attempted (successful ones + a final blocking one) *)
  p_dfr : bool;   (* wake deferred to the park (tokio mode only) *)
  p_yld : bool;   (* stopped at a yield_now *)
  p_out : bool }. (* woke a LocalSet task from outside the LocalSet's poll *)

(* ---- state primitives ---- *)
Fixpoint upd {A} (i : nat) (f : A -> A) (l : list A) : list A :=
  match l, i with
  | [], _ => []
  | x :: r, O => f x :: r
  | x :: r, S i' => x :: upd i' f r
  end.

Definition upd_task (i : nat) (f : task -> task) (s : st) : st :=
  {| tasks := upd i f (tasks s); lq := lq s; cq := cq s; inj := inj s; stick := stick s; gqi := gqi s; trace := trace s |}.
Definition add_trace (r : trec) (s : st) : st :=
  {| tasks := tasks s; lq := lq s; cq := cq s; inj := inj s; stick := stick s; gqi := gqi s; trace := r :: trace s |}.
Definition set_lq (q : list nat) (s : st) : st :=
  {| tasks := tasks s; lq := q; cq := cq s; inj := inj s; stick := stick s; gqi := gqi s; trace := trace s |}.
Definition set_cq (q : list nat) (s : st) : st :=
  {| tasks := tasks s; lq := lq s; cq := q; inj := inj s; stick := stick s; gqi := gqi s; trace := trace s |}.
Definition set_inj (q : list nat) (s : st) : st :=
  {| tasks := tasks s; lq := lq s; cq := cq s; inj := q; stick := stick s; gqi := gqi s; trace := trace s |}.
Definition set_stick (t : N) (s : st) : st :=
  {| tasks := tasks s; lq := lq s; cq := cq s; inj := inj s; stick := t; gqi := gqi s; trace := trace s |}.
Definition push (loc : bool) (i : nat) (s : st) : st :=
  if loc then set_lq (lq s ++ [i]) s else set_cq (cq s ++ [i]) s.
Definition next_tick (s : st) : N := (stick s + 1) mod 4294967296.
(* the lookup that finds nothing still advances the tick *)
Definition bump (s : st) : st := set_stick (next_tick s) s.
(* LocalSet::next_task (remote queue always empty) / Core::next_task *)
Definition pop (loc : bool) (s : st) : option (nat * st) :=
  if loc then match lq s with
              | [] => None
              | i :: r => Some (i, set_lq r s)
              end
  else
    let s' := bump s in
    if next_tick s mod gqi s =? 0 then
      match inj s, cq s with
      | i :: r, _ => Some (i, set_inj r s')
      | [], i :: r => Some (i, set_cq r s')
      | [], [] => None
      end
    else
      match cq s, inj s with
      | i :: r, _ => Some (i, set_cq r s')
      | [], i :: r => Some (i, set_inj r s')
      | [], [] => None
      end.

Definition set_code c (t : task) := {| local := local t; code := c; stat := stat t; inbox := inbox t; jh := jh t; wk := wk t |}.
Definition set_stat x (t : task) := {| local := local t; code := code t; stat := x; inbox := inbox t; jh := jh t; wk := wk t |}.
Definition set_inbox n (t : task) := {| local := local t; code := code t; stat := stat t; inbox := n; jh := jh t; wk := wk t |}.
Definition set_jh j (t : task) := {| local := local t; code := code t; stat := stat t; inbox := inbox t; jh := j; wk := wk t |}.
Definition set_wk w (t : task) := {| local := local t; code := code t; stat := stat t; inbox := inbox t; jh := jh t; wk := w |}.

Definition get (i : nat) (s : st) : option task := nth_error (tasks s) i.

(* make task t runnable now: onto the queue of its kind.  [inside] = the waker runs
   inside the LocalSet's poll (phases 1 and 2).  Result flag: a LocalSet task was woken
   from outside. *)
Definition enqueue (inside : bool) (now : N) (t : nat) (s : st) : st * bool :=
  match get t s with
  | None => (s, false)
  | Some tk => (push (local tk) t (upd_task t (set_wk now) s), local tk && negb inside)
  end.

Definition wake (inside : bool) (now : N) (t : nat) (s : st) : st * bool :=
  enqueue inside now t (upd_task t (set_stat Queued) s).

(* UnboundedSender::send: push + rx_waker.wake() *)
Definition send (inside : bool) (now : N) (t : nat) (s : st) : st * bool :=
  match get t s with
  | None => (s, false)
  | Some tk =>
      let s1 := upd_task t (set_inbox (inbox tk + 1)) s in
      match stat tk with
      | BlockedRecv => wake inside now t s1
      | _ => (s1, false)
      end
  end.

(* the task's future returned Ready: the JoinHandle's waker is woken *)
Definition finish (inside : bool) (now : N) (i : nat) (s : st) : st * bool :=
  let s1 := upd_task i (fun t => set_stat Done (set_code None t)) s in
  match get i s with
  | Some ti =>
      match jh ti with
      | JHeld j => match get j s with
                   | Some tj => match stat tj with
                                | BlockedJoin i' => if Nat.eqb i' i then wake inside now j s1 else (s1, false)
                                | _ => (s1, false)
                                end
                   | None => (s1, false)
                   end
      | _ => (s1, false)
      end
  | None => (s1, false)
  end.

Definition exhausted (m : option N) (used : N) : bool :=
  match m with Some c => c <=? used | None => false end.

Inductive sres :=
| Cont (s : st) (used : N) (out : bool)
| Halt (s : st) (p : pinfo).

Definition mkp ops d y o := {| p_ops := ops; p_dfr := d; p_yld := y; p_out := o |}.

(* one operation of task i, whose code in [s] is [o :: r] *)
Definition step_op (m : option N) (inside : bool) (now : N) (i : nat) (o : op) (r : list op)
                   (used : N) (out : bool) (s : st) : sres :=
  (* the operation completes: the code shrinks first, then its effect, then the record *)
  let sh := upd_task i (set_code (Some r)) s in
  let tr := add_trace (ROp i now) in
  match o with
  | Log => Cont (tr sh) used out
  | Recv =>
      match get i s with
      | Some ti => if exhausted m used then Halt s (mkp used true false out)
                   else if 0 <? inbox ti
                        then Cont (tr (upd_task i (set_inbox (inbox ti - 1)) sh)) (used + 1) out
                        else Halt (upd_task i (set_stat BlockedRecv) s) (mkp (used + 1) false false out)
      | None => Halt s (mkp used false false out)
      end
  | Send t => let '(s1, o1) := send inside now t sh in Cont (tr s1) used (out || o1)
  | Join t =>
      match get t s with
      | Some tq =>
          let mine := match jh tq with JTable => true | JHeld j => Nat.eqb j i | JNone => false end in
          if mine then
            if exhausted m used then Halt (upd_task t (set_jh (JHeld i)) s) (mkp used true false out)
            else match stat tq with
                 | Done => Cont (tr (upd_task t (set_jh JNone) sh)) (used + 1) out
                 | _ => Halt (upd_task i (set_stat (BlockedJoin t)) (upd_task t (set_jh (JHeld i)) s))
                             (mkp (used + 1) false false out)
                 end
          else Cont (tr sh) used out
      | None => Cont (tr sh) used out
      end
  | Yield =>
      (* the resumption completes the yield: it leaves one record, like Log *)
      let s1 := upd_task i (set_code (Some (Log :: r))) s in
      match m with
      | Some _ => Halt s1 (mkp used true true out)
      | None => let '(s2, o2) := enqueue inside now i s1 in Halt s2 (mkp used false true (out || o2))
      end
  | End => let '(s1, o1) := finish inside now i (tr s) in
           Halt s1 (mkp used false false (out || o1))
  end.

Definition code_of (i : nat) (s : st) : option (list op) :=
  match get i s with Some t => code t | None => None end.

(* run task i until it blocks, yields, exhausts the budget or finishes *)
Fixpoint interp (fuel : nat) (m : option N) (inside : bool) (now : N) (i : nat)
                (used : N) (out : bool) (s : st) : st * pinfo :=
  match fuel with
  | O => (s, mkp used false false out)
  | S f =>
      match code_of i s with
      | None => (s, mkp used false false out)
      | Some [] => let '(s1, o1) := finish inside now i s in (s1, mkp used false false (out || o1))
      | Some (o :: r) =>
          match step_op m inside now i o r used out s with
          | Cont s' used' out' => interp f m inside now i used' out' s'
          | Halt s' p => (s', p)
          end
      end
  end.

Definition code_len (i : nat) (s : st) : nat :=
  match code_of i s with Some c => length c | None => O end.
Definition wk_of (i : nat) (s : st) : N :=
  match get i s with Some t => wk t | None => 0 end.

Definition poll_task (m : option N) (inside : bool) (now : N) (i : nat) (s : st) : st * pinfo :=
  interp (S (code_len i s)) m inside now i 0 false (add_trace (RPoll i (wk_of i s) now) s).

(* at most n polls from the local queue (LocalSet::tick, [loc = true], polled inside the
   LocalSet's context) or from the core queue ([loc = false]).  Result: state, what each
   poll did, deferred tasks in the order Defer::wake will wake them (last deferred first). *)
Fixpoint drain (m : option N) (loc : bool) (n : nat) (now : N) (s : st) : st * list pinfo * list nat :=
  match n with
  | O => (s, [], [])
  | S n' =>
      match pop loc s with
      | None => (s, [], [])
      | Some (i, s1) =>
          let '(s2, p) := poll_task m loc now i s1 in
          let '(s3, ps, dl) := drain m loc n' now s2 in
          (s3, p :: ps, if p_dfr p then dl ++ [i] else dl)
      end
  end.

(* phase 1: the callback *)
Definition do_act (now : N) (s : st) (a : act) : st :=
  match a with
  | Spawn t => match get t s with
               | Some tq => match stat tq with
                            | NotSpawned => fst (wake true now t (upd_task t (set_jh JTable) s))
                            | _ => s
                            end
               | None => s
               end
  | ASend t => fst (send true now t s)
  | AShutdown _ => s      (* only sets ModuleContext::shutdown_task; see [shutdown_req] *)
  end.
Definition handler (now : N) (acts : list act) (s : st) : st := fold_left (do_act now) acts s.

Fixpoint wake_deferred (now : N) (dl : list nat) (s : st) : st :=
  match dl with
  | [] => s
  | i :: r => wake_deferred now r (fst (enqueue false now i s))
  end.

Definition quiescent (s : st) : bool :=
  match lq s, cq s, inj s with [], [], [] => true | _, _, _ => false end.

(* a processing element's hook (event_start / incoming), run by des BEFORE the exec, outside
   the runtime: a send wakes a LocalSet task onto the local queue (Shared::schedule, same
   thread) and a tokio::spawn task onto the inject queue (Handle::schedule without core).
   Spawning is impossible there (no runtime context). *)
Definition send_outside (now : N) (t : nat) (s : st) : st :=
  match get t s with
  | None => s
  | Some tk =>
      let s1 := upd_task t (set_inbox (inbox tk + 1)) s in
      match stat tk with
      | BlockedRecv =>
          let s2 := upd_task t (set_wk now) (upd_task t (set_stat Queued) s1) in
          if local tk then push true t s2 else set_inj (inj s2 ++ [t]) s2
      | _ => s1
      end
  end.
Definition do_pre (now : N) (s : st) (a : act) : st :=
  match a with ASend t => send_outside now t s | Spawn _ => s | AShutdown _ => s end.
Definition pre_hooks (now : N) (pre : list act) (s : st) : st := fold_left (do_pre now) pre s.

(* one Harness::exec under tokio's budgets *)
Definition exec_event (bl br : nat) (c : N) (now : N) (acts : list act) (s : st)
  : st * list pinfo * list pinfo :=
  let s0 := handler now acts s in
  let '(s1, p2, d2) := drain (Some c) true bl now s0 in
  let '(s2, p3, d3) := drain (Some c) false br now s1 in
  (wake_deferred now (d3 ++ d2) s2, p2, p3).

(* ---- the executor without budgets ---- *)
Definition opw (o : op) : nat := match o with Yield => 4 | _ => 2 end.
Definition weight (t : task) : nat :=
  match code t with Some c => 2 + fold_right (fun o a => opw o + a) 0 c | None => 0 end%nat.
(* upper bound on the number of polls still possible; used as fuel *)
Definition measure (s : st) : nat :=
  (fold_right (fun t a => weight t + a) 0 (tasks s) + length (lq s) + length (cq s) + length (inj s))%nat.

(* one unbounded LocalSet tick followed by one unbounded scheduler turn *)
Definition ideal_round (now : N) (s : st) : st * list pinfo * list pinfo :=
  let '(s1, p2, _) := drain None true (measure s) now s in
  let '(s2, p3, _) := drain None false (measure s1) now s1 in
  (s2, p2, p3).

(* ... repeated until nothing is runnable; the polls of the first round are reported *)
Fixpoint ideal_rounds (f : nat) (now : N) (s : st) : option st :=
  match f with
  | O => None
  | S f' => let '(s2, _, _) := ideal_round now s in
            if quiescent s2 then Some s2 else ideal_rounds f' now s2
  end.

Definition ideal_event (now : N) (acts : list act) (s : st) : option st :=
  let s0 := handler now acts s in ideal_rounds (S (measure s0)) now s0.

(* ---- a module run ---- *)
Definition close (tag : N) (pl pr : nat) (s : st) : st :=
  add_trace (RClose tag (N.of_nat pl) (N.of_nat pr) (negb (quiescent s))) s.

Record budgets := { b_local : nat; b_rt : nat; b_coop : N }.

(* the scheduler turn ends with a lookup that finds nothing (and advances the tick) unless
   all event_interval iterations polled a task *)
Definition end_turn (br : nat) (p3 : list pinfo) (s : st) : st :=
  if (length p3 <? br)%nat then bump s else s.

(* one Harness::exec, with the bookkeeping of the trace and of the tick *)
Definition run_exec (b : budgets) (tag : N) (now : N) (acts : list act) (s : st) : st :=
  let '(s1, p2, p3) := exec_event (b_local b) (b_rt b) (b_coop b) now acts s in
  close tag (length p2) (length p3) (end_turn (b_rt b) p3 s1).

(* a message event: (delay since the previous one, consumed by the element?, actions of the
   element's incoming hook, actions of handle_message).  A consumed message still runs
   exec(|| {}) -- ModuleRef::handle_message, the `else` branch. *)
Definition mevent : Type := N * bool * list act * list act.

Definition ev_acts (consumed : bool) (acts : list act) : list act := if consumed then [] else acts.

Definition run_event (b : budgets) (s : st) (e : nat) (now : N) (consumed : bool) (pre acts : list act) : st :=
  run_exec b 4 now (ev_acts consumed acts) (pre_hooks now pre (add_trace (REvent e now) s)).

(* at_sim_start (one stage) *)
Definition run_start (b : budgets) (s : st) (now : N) (acts : list act) : st :=
  run_exec b 4 now acts (add_trace (RStart now) s).

Definition mk_task (loc : bool) (c : list op) : task :=
  {| local := loc; code := Some c; stat := NotSpawned; inbox := 0; jh := JNone; wk := 0 |}.
Definition init (g : N) (ts : list (bool * list op)) : st :=
  {| tasks := map (fun x => mk_task (fst x) (snd x)) ts; lq := []; cq := []; inj := []; stick := 0; gqi := g; trace := [] |}.

(* ---- shutdown / restart ---- *)
(* the request left in ModuleContext::shutdown_task by a callback: the last call wins;
   Some None = shut down for good, Some (Some r) = restart at r *)
Definition shutdown_req (now : N) (acts : list act) : option (option N) :=
  fold_left (fun q a => match a with
                        | AShutdown None => Some None
                        | AShutdown (Some d) => Some (Some (now + d))
                        | _ => q
                        end) acts None.

(* buf_process consuming the request: runtime dropped, fresh runtime, exec(Module::reset) *)
Definition do_shutdown (b : budgets) (g : N) (ts : list (bool * list op)) (now : N) (s : st) : st :=
  let s0 := {| tasks := tasks (init g ts); lq := []; cq := []; inj := []; stick := 0; gqi := g;
               trace := RReset now :: trace s |} in
  let '(s1, _, p3) := exec_event (b_local b) (b_rt b) (b_coop b) now [] s0 in
  end_turn (b_rt b) p3 s1.

Inductive mode := Up | Down (restart : option N).

Definition after_exec (b : budgets) (g : N) (ts : list (bool * list op)) (now : N) (acts : list act) (s : st) : st * mode :=
  match shutdown_req now acts with
  | Some r => (do_shutdown b g ts now s, Down r)
  | None => (s, Up)
  end.

(* the restart replays at_sim_start; the harness' module requests no shutdown there *)
Definition no_shutdown (acts : list act) : list act :=
  filter (fun a => match a with AShutdown _ => false | _ => true end) acts.

(* the restart event is queued behind the messages already scheduled for its instant *)
Definition restart_due (m : mode) (t : N) : option N :=
  match m with Down (Some r) => if r <? t then Some r else None | _ => None end.

Definition catch_up (b : budgets) (start : list act) (sm : st * mode) (t : N) : st * mode :=
  match restart_due (snd sm) t with
  | Some r => (run_start b (fst sm) r (no_shutdown start), Up)
  | None => sm
  end.

Definition step_event (b : budgets) (g : N) (ts : list (bool * list op)) (start : list act)
                      (sm : st * mode) (e : nat) (t : N) (k : bool) (pre acts : list act) : st * mode :=
  let sm' := catch_up b start sm t in
  match snd sm' with
  | Up => after_exec b g ts t (ev_acts k acts) (run_event b (fst sm') e t k pre acts)
  | Down _ => sm'          (* inactive: the message is ignored *)
  end.

Fixpoint run_events (b : budgets) (g : N) (ts : list (bool * list op)) (start : list act)
                    (sm : st * mode) (e : nat) (now : N) (evs : list mevent) : st * mode * N :=
  match evs with
  | [] => (sm, now)
  | (d, k, pre, acts) :: r =>
      run_events b g ts start (step_event b g ts start sm e (now + d) k pre acts) (S e) (now + d) r
  end.

(* a restart still pending after the last message happens before the simulation ends *)
Definition last_restart (b : budgets) (start : list act) (sm : st * mode) (now : N) : st * N :=
  match snd sm with
  | Down (Some r) => (run_start b (fst sm) r (no_shutdown start), N.max now r)
  | _ => (fst sm, now)
  end.

(* the tear-down (ModuleRef::at_sim_end): exec(at_sim_end) and block_on(yield_now()),
   both at the time of the last event *)
Definition run_end (b : budgets) (s : st) (now : N) : st :=
  let '(s1, p2, p3) := exec_event (b_local b) (b_rt b) (b_coop b) now [] s in
  let s1' := end_turn (b_rt b) p3 s1 in
  let '(s2, q2, q3) := exec_event (b_local b) (b_rt b) (b_coop b) now [] s1' in
  close 5 (length p2 + length q2) (length p3 + length q3) (end_turn (b_rt b) q3 s2).

Definition boot (b : budgets) (g : N) (ts : list (bool * list op)) (start : list act) : st * mode :=
  after_exec b g ts 0 start (run_start b (init g ts) 0 start).

Definition run_model (b : budgets) (g : N) (ts : list (bool * list op)) (start : list act) (evs : list mevent) : list trec :=
  let '(sm, now) := run_events b g ts start (boot b g ts start) O 0 evs in
  let '(s, now') := last_restart b start sm now in
  rev (trace (run_end b s now')).

(* ---- wire format ---- *)
(* script: B_local B_rt C R G  nT (kind len op* )*  lp(start act* )  (delta kind lp(pre act* ) lp(act* ))*
   op = 0 Log | 1 Recv | 2 t Send | 3 t Join | 4 Yield | 5 End;
   act = 0 t Spawn | 1 t Send | 2 _ shutdown | 3 d shutdown and restart in d;
   kind odd = the processing element consumes the message.
   R (REMOTE_FIRST_INTERVAL) is carried for the record and has no effect (see above);
   G = global_queue_interval. *)
Definition tid (nt t : N) : nat := N.to_nat (N.min t nt).

Definition dec_op (nt : N) (l : list N) : option (op * list N) :=
  match l with
  | 0 :: r => Some (Log, r)
  | 1 :: r => Some (Recv, r)
  | 2 :: t :: r => Some (Send (tid nt t), r)
  | 3 :: t :: r => Some (Join (tid nt t), r)
  | 4 :: r => Some (Yield, r)
  | 5 :: r => Some (End, r)
  | _ => None
  end.

Definition dec_act (nt : N) (l : list N) : option (act * list N) :=
  match l with
  | 0 :: t :: r => Some (Spawn (tid nt t), r)
  | 1 :: t :: r => Some (ASend (tid nt t), r)
  | 2 :: _ :: r => Some (AShutdown None, r)
  | 3 :: d :: r => Some (AShutdown (Some (N.max d 1)), r)   (* restart delays are >= 1 ns *)
  | _ => None
  end.

Fixpoint dec_tasks (nt : N) (k : nat) (l : list N) : list (bool * list op) * list N :=
  match k, l with
  | O, _ => ([], l)
  | S _, [] => ([], [])
  | S k', kind :: r =>
      let '(blob, rest) := take_lp r in
      let '(ts, rest') := dec_tasks nt k' rest in
      ((N.odd kind, decode_all (dec_op nt) blob) :: ts, rest')
  end.

Definition dec_event (nt : N) (l : list N) : option (mevent * list N) :=
  match l with
  | [] => None
  | d :: r =>
      let k := match r with x :: _ => N.odd x | [] => false end in
      let '(pre, r2) := take_lp (tl r) in
      let '(blob, rest) := take_lp r2 in
      Some ((d, k, decode_all (dec_act nt) pre, decode_all (dec_act nt) blob), rest)
  end.

Definition enc_rec (r : trec) : list N :=
  match r with
  | RStart now => [6; 0; now]
  | RReset now => [7; 0; now]
  | REvent e now => [3; N.of_nat e; now]
  | RPoll i w now => [2; N.of_nat i; w; now]
  | ROp i now => [1; N.of_nat i; now]
  | RClose tag pl pr lf => [tag; pl; pr; b2n lf]
  end.

Definition run (input : list N) : list N :=
  match input with
  | bl :: br :: c :: _ :: g :: nt :: rest =>
      let k := N.to_nat (N.min nt (N.of_nat (length rest))) in
      (* ids are clamped to k: anything >= the table length is out of range *)
      let n := N.of_nat k in
      let '(ts, rest') := dec_tasks n k rest in
      let '(start, rest'') := take_lp rest' in
      let evs := decode_all (dec_event n) rest'' in
      flat_map enc_rec (run_model {| b_local := N.to_nat bl; b_rt := N.to_nat br; b_coop := c |} g ts
                                  (decode_all (dec_act n) start) evs)
  | _ => [7]
  end.
