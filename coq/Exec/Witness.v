(* C06, negative part (finding F4), for every value of the budgets:
   B+1 independent ready tasks need B+1 polls, the bounded executor polls B of them and
   returns with the last one still queued; a task that has c+1 messages waiting and
   receives c+1 times is suspended after c receives under cooperative budget c. *)
From Coq Require Import List NArith Bool Arith Lia.
From DesVerif Require Import Exec.Model Exec.Basics Exec.Measure Exec.Mode Exec.Budget.
Import ListNotations.
Local Open Scope nat_scope.

(* a task with nothing left to do whose JoinHandle nobody awaits *)
Definition harmless (j : nat) (s : st) : Prop :=
  exists t, get j s = Some t /\ (code t = Some [] \/ code t = None) /\ (forall k, jh t <> JHeld k).

Definition p0 : pinfo := mkp 0 false false false.

Lemma poll_harmless m ins now i s : harmless i s ->
  lq (fst (poll_task m ins now i s)) = lq s /\ cq (fst (poll_task m ins now i s)) = cq s /\
  inj (fst (poll_task m ins now i s)) = inj s /\
  (forall j, harmless j s -> harmless j (fst (poll_task m ins now i s))) /\
  snd (poll_task m ins now i s) = p0.
Proof.
  intros [t [Hg [Hc Hj]]]. unfold poll_task. cbn [interp].
  assert (Ec : code_of i (add_trace (RPoll i (wk_of i s) now) s) = code t)
    by (unfold code_of; rewrite get_add_trace, Hg; reflexivity).
  rewrite Ec. destruct Hc as [Hc|Hc]; rewrite Hc.
  - set (s1 := upd_task i (fun t0 => set_stat Done (set_code None t0)) (add_trace (RPoll i (wk_of i s) now) s)).
    assert (E : finish ins now i (add_trace (RPoll i (wk_of i s) now) s) = (s1, false)).
    { unfold finish. rewrite get_add_trace, Hg. destruct (jh t) as [| |k] eqn:Ej; try reflexivity.
      exfalso. exact (Hj k eq_refl). }
    rewrite E. cbn [fst snd]. repeat split.
    intros j [tj [Hgj [Hcj Hjj]]]. unfold harmless, s1. rewrite get_upd_task, get_add_trace.
    destruct (Nat.eqb_spec i j) as [->|Hne].
    + rewrite Hgj. cbn [option_map]. eexists; split; [reflexivity|]. split; [right; reflexivity|exact Hjj].
    + exists tj. auto.
  - cbn [fst snd]. repeat split. intros j Hh. exact Hh.
Qed.

Lemma qlen_poll_harmless m ins now i s loc : harmless i s -> qlen loc (fst (poll_task m ins now i s)) = qlen loc s.
Proof.
  intros H. destruct (poll_harmless m ins now i s H) as [Hl [Hc [Hi _]]]. unfold qlen. rewrite Hl, Hc, Hi. reflexivity.
Qed.

Lemma qin_poll_harmless m ins now i s loc j : harmless i s -> qin loc j (fst (poll_task m ins now i s)) -> qin loc j s.
Proof.
  intros H. destruct (poll_harmless m ins now i s H) as [Hl [Hc [Hi _]]]. unfold qin. rewrite Hl, Hc, Hi. auto.
Qed.

(* draining queues of harmless tasks: the first n are polled, nothing is added *)
Lemma drain_harmless m loc now : forall n s,
  (forall j, qin loc j s -> harmless j s) ->
  qlen loc (dr_st (drain m loc n now s)) = qlen loc s - n /\
  qlen (negb loc) (dr_st (drain m loc n now s)) = qlen (negb loc) s /\
  length (dr_ps (drain m loc n now s)) = Nat.min n (qlen loc s) /\
  Forall (fun p => p = p0) (dr_ps (drain m loc n now s)) /\
  dr_dl (drain m loc n now s) = [].
Proof.
  induction n as [|n IH]; intros s Hh; cbn [drain].
  - unfold dr_st, dr_ps, dr_dl; cbn. repeat split; auto; lia.
  - destruct (pop loc s) as [[i s1]|] eqn:Ep.
    + destruct (pop_some _ _ _ _ Ep) as [Hq [Hi [Hsub [Ho [_ [Hts _]]]]]].
      assert (Hg : forall j, get j s1 = get j s) by (intros j; unfold get; rewrite Hts; reflexivity).
      assert (Hh1 : forall j, harmless j s -> harmless j s1).
      { intros j [t Ht]. exists t. rewrite Hg. exact Ht. }
      assert (Hi1 : harmless i s1) by (apply Hh1, Hh, Hi).
      destruct (poll_harmless m loc now i s1 Hi1) as [_ [_ [_ [Hpres Hp]]]].
      pose proof (qlen_poll_harmless m loc now i s1 loc Hi1) as Hql.
      pose proof (qlen_poll_harmless m loc now i s1 (negb loc) Hi1) as Hqo.
      pose proof (fun j => qin_poll_harmless m loc now i s1 loc j Hi1) as Hqi.
      destruct (poll_task m loc now i s1) as [s2 p]; cbn [fst snd] in *. subst p.
      specialize (IH s2). destruct (drain m loc n now s2) as [[s3 ps] dl].
      unfold dr_st, dr_ps, dr_dl in *; cbn [fst snd] in *.
      destruct IH as [I1 [I2 [I3 [I4 I5]]]].
      { intros j Hj. apply Hpres, Hh1, Hh, Hsub, Hqi. exact Hj. }
      cbn [length p0 mkp p_dfr]. rewrite I1, I2, I3, Hql, Hqo, Ho, Hq.
      repeat split; try lia; [constructor; [reflexivity|exact I4]|exact I5].
    + apply pop_none in Ep. unfold dr_st, dr_ps, dr_dl; cbn [fst snd]. rewrite Ep. cbn. repeat split; auto; lia.
Qed.

(* ---- n tasks that return at once, all spawned by one callback ---- *)
Definition idle_tasks (loc : bool) (n : nat) : list (bool * list op) := repeat (loc, []) n.
Definition spawn_all (n : nat) : list act := map Spawn (seq 0 n).

(* the queue [push loc] appends to *)
Definition sq (loc : bool) (s : st) : list nat := if loc then lq s else cq s.

Definition spawned (loc : bool) (n k : nat) (s : st) : Prop :=
  sq loc s = seq 0 k /\ sq (negb loc) s = [] /\ inj s = [] /\
  (forall j, j < k -> harmless j s) /\
  (forall j, k <= j < n -> get j s = Some (mk_task loc [])).

Lemma spawn_step loc n k now s : k < n -> spawned loc n k s -> spawned loc n (S k) (do_act now s (Spawn k)).
Proof.
  intros Hk [Hq [Ho [Hi [Hh Hr]]]]. cbn [do_act]. rewrite (Hr k) by lia. cbn [stat mk_task].
  unfold wake, enqueue. rewrite !get_upd_same, (Hr k) by lia. cbn [option_map local mk_task set_stat set_jh fst].
  set (s1 := upd_task k (set_wk now) (upd_task k (set_stat Queued) (upd_task k (set_jh JTable) s))).
  assert (Hg : forall j, j <> k -> get j s1 = get j s).
  { intros j Hj. unfold s1. rewrite !get_upd_other by auto. reflexivity. }
  split; [|split; [|split; [|split]]].
  - unfold sq, push, s1 in *. destruct loc; cbn [lq cq set_lq set_cq upd_task] in *; rewrite Hq, seq_S; reflexivity.
  - unfold sq, push, s1 in *. destruct loc; cbn [negb lq cq set_lq set_cq upd_task] in *; exact Ho.
  - unfold push, s1. destruct loc; cbn [inj set_lq set_cq upd_task]; exact Hi.
  - intros j Hj. unfold harmless. rewrite get_push.
    destruct (Nat.eq_dec j k) as [->|Hne].
    + unfold s1. rewrite !get_upd_same, (Hr k) by lia. cbn [option_map].
      eexists; split; [reflexivity|]. split; [left; reflexivity|]. cbn. discriminate.
    + rewrite Hg by assumption. apply Hh. lia.
  - intros j Hj. rewrite get_push, Hg by lia. apply Hr. lia.
Qed.

Lemma spawn_prefix loc n now s0 : spawned loc n 0 s0 -> forall k, k <= n ->
  spawned loc n k (handler now (spawn_all k) s0).
Proof.
  intros H0. induction k as [|k IH]; intros Hk; [exact H0|].
  unfold spawn_all, handler in *. rewrite seq_S, map_app, fold_left_app. cbn [map fold_left Nat.add].
  apply spawn_step; [lia|]. apply IH. lia.
Qed.

Lemma nth_error_map_repeat {A B} (f : A -> B) x : forall n j, j < n -> nth_error (map f (repeat x n)) j = Some (f x).
Proof.
  induction n as [|n IH]; intros j Hj; [lia|]. destruct j as [|j]; cbn [repeat map nth_error]; [reflexivity|].
  apply IH. lia.
Qed.

Lemma init_spawned g loc n r : spawned loc n 0 (add_trace r (init g (idle_tasks loc n))).
Proof.
  unfold spawned. split; [|split; [|split; [|split]]].
  - destruct loc; reflexivity.
  - destruct loc; reflexivity.
  - reflexivity.
  - intros j Hj. lia.
  - intros j [_ Hj]. unfold get, init, idle_tasks; cbn [tasks add_trace].
    rewrite nth_error_map_repeat by exact Hj. reflexivity.
Qed.

(* the state in which at_sim_start's exec begins *)
Definition start_state (g : N) (loc : bool) (n : nat) : st := add_trace (RStart 0) (init g (idle_tasks loc n)).

Lemma spawned_all g loc n now :
  let s0 := handler now (spawn_all n) (start_state g loc n) in
  qlen loc s0 = n /\ qlen (negb loc) s0 = 0 /\ (forall j, qin loc j s0 -> harmless j s0).
Proof.
  cbn zeta. destruct (spawn_prefix loc n now _ (init_spawned g loc n (RStart 0)) n (le_n n)) as [Hq [Ho [Hi [Hh _]]]].
  fold (start_state g loc n) in *.
  set (s0 := handler now (spawn_all n) (start_state g loc n)) in *.
  unfold sq, qlen, qin in *. destruct loc; cbn [negb] in *; rewrite ?Hq, ?Ho, ?Hi, ?seq_length; cbn [length];
    (split; [lia|split; [reflexivity|]]); intros j Hj.
  - apply in_seq in Hj. apply Hh. lia.
  - destruct Hj as [Hj|[]]. apply in_seq in Hj. apply Hh. lia.
Qed.

(* the callback is at_sim_start's (instant 0); any callback would do *)
Definition fanout (loc : bool) (b : budgets) (g : N) (n : nat) : event :=
  {| e_b := b; e_now := 0; e_acts := spawn_all n; e_st := start_state g loc n |}.

Lemma queues_length s : length (queues s) = qlen true s + qlen false s.
Proof. unfold queues, qlen. rewrite !app_length. lia. Qed.

(* B+1 tokio::spawn in one callback, event_interval = B *)
Lemma fanout_rt bl B c g :
  let x := fanout false {| b_local := bl; b_rt := B; b_coop := c |} g (S B) in
  polls_needed_local x = 0 /\ polls_needed_rt x = S B /\ length (queue_after x) = 1.
Proof.
  cbn zeta. unfold polls_needed_local, polls_needed_rt, queue_after, ideal_first, exec_bounded, fanout;
    cbn [e_b e_now e_acts e_st b_local b_rt b_coop].
  set (s0 := handler 0 (spawn_all (S B)) (start_state g false (S B))).
  destruct (spawned_all g false (S B) 0%N) as [Hq [Ho Hh]]. fold s0 in Hq, Ho, Hh. cbn [negb] in Ho.
  rewrite ideal_round_spec. cbn zeta. cbn [fst snd].
  rewrite (drain_empty None true (measure s0) 0%N s0 Ho). unfold dr_st at 1 2, dr_ps at 1; cbn [fst snd length].
  destruct (drain_harmless None false 0%N (measure s0) s0 Hh) as [_ [_ [Hl _]]].
  split; [reflexivity|]. split.
  - rewrite Hl, Hq. pose proof (measure_queue false s0) as Hm. lia.
  - unfold exec_event. fold s0. rewrite (drain_empty (Some c) true bl 0%N s0 Ho).
    destruct (drain_harmless (Some c) false 0%N B s0 Hh) as [H1 [H2 [_ [_ H5]]]].
    destruct (drain (Some c) false B 0%N s0) as [[s2 p3] d3]. unfold dr_st, dr_dl in *; cbn [fst snd negb] in *.
    subst d3. cbn [app wake_deferred fst]. rewrite queues_length, H1, H2, Hq, Ho. lia.
Qed.

(* B+1 spawn_local in one callback, MAX_TASKS_PER_TICK = B *)
Lemma fanout_local B br c g :
  let x := fanout true {| b_local := B; b_rt := br; b_coop := c |} g (S B) in
  polls_needed_local x = S B /\ polls_needed_rt x = 0 /\ length (queue_after x) = 1.
Proof.
  cbn zeta. unfold polls_needed_local, polls_needed_rt, queue_after, ideal_first, exec_bounded, fanout;
    cbn [e_b e_now e_acts e_st b_local b_rt b_coop].
  set (s0 := handler 0 (spawn_all (S B)) (start_state g true (S B))).
  destruct (spawned_all g true (S B) 0%N) as [Hq [Ho Hh]]. fold s0 in Hq, Ho, Hh. cbn [negb] in Ho.
  rewrite ideal_round_spec. cbn zeta. cbn [fst snd].
  destruct (drain_harmless None true 0%N (measure s0) s0 Hh) as [H1 [H2 [Hl _]]].
  assert (Hm : S B <= measure s0) by (pose proof (measure_queue true s0) as Hm; lia).
  assert (Hc1 : qlen false (dr_st (drain None true (measure s0) 0%N s0)) = 0) by (cbn [negb] in H2; rewrite H2; exact Ho).
  rewrite (drain_empty None false _ 0%N _ Hc1). unfold dr_ps at 2; cbn [fst snd length].
  split; [rewrite Hl, Hq; lia|]. split; [reflexivity|].
  unfold exec_event. fold s0.
  destruct (drain_harmless (Some c) true 0%N B s0 Hh) as [G1 [G2 [_ [_ G5]]]].
  destruct (drain (Some c) true B 0%N s0) as [[s1 p2] d2]. unfold dr_st, dr_dl in *; cbn [fst snd negb] in *.
  subst d2. rewrite (drain_empty (Some c) false br 0%N s1) by (rewrite G2; exact Ho).
  cbn [app wake_deferred fst]. rewrite queues_length, G1, G2, Hq, Ho. lia.
Qed.

(* an event that leaves something queued is in the known class *)
Lemma leftover_known x : queue_after x <> [] -> KnownClass x.
Proof.
  intros H. unfold KnownClass. destruct (over_budget x) eqn:E; [reflexivity|].
  exfalso. apply H. apply quiescent_if_within_budget. unfold KnownClass. rewrite E. discriminate.
Qed.

(* ---- the cooperative budget ---- *)
Local Open Scope N_scope.

Lemma interp_recv_deferred c ins now i : forall k f used out s t,
  code_of i s = Some (repeat Recv k) -> get i s = Some t -> N.of_nat k <= inbox t ->
  (k < f)%nat -> used <= c -> c < used + N.of_nat k ->
  p_dfr (snd (interp f (Some c) ins now i used out s)) = true.
Proof.
  induction k as [|k IH]; intros f used out s t Hc Hg Hi Hf Hu Hk; [lia|].
  destruct f as [|f]; [lia|]. cbn [interp]. rewrite Hc. cbn [repeat]. unfold step_op. rewrite Hg.
  cbn [exhausted]. destruct (c <=? used) eqn:E; [reflexivity|]. apply N.leb_gt in E.
  assert (Hpos : (0 <? inbox t) = true) by (apply N.ltb_lt; lia). rewrite Hpos.
  eapply IH with (t := set_inbox (inbox t - 1) (set_code (Some (repeat Recv k)) t)).
  - unfold code_of. rewrite get_add_trace, !get_upd_same, Hg. reflexivity.
  - rewrite get_add_trace, !get_upd_same, Hg. reflexivity.
  - cbn [inbox set_inbox]. lia.
  - lia.
  - lia.
  - lia.
Qed.

Lemma interp_recv_ideal ins now i : forall k f used out s t,
  code_of i s = Some (repeat Recv k) -> get i s = Some t -> N.of_nat k <= inbox t ->
  (k < f)%nat ->
  p_ops (snd (interp f None ins now i used out s)) = used + N.of_nat k /\
  code_of i (fst (interp f None ins now i used out s)) = None.
Proof.
  induction k as [|k IH]; intros f used out s t Hc Hg Hi Hf; (destruct f as [|f]; [lia|]); cbn [interp]; rewrite Hc; cbn [repeat].
  - destruct (finish ins now i s) as [s1 o1] eqn:Ef. cbn [fst snd p_ops mkp]. split; [lia|].
    assert (E : s1 = fst (finish ins now i s)) by (rewrite Ef; reflexivity). subst s1.
    unfold finish. rewrite Hg.
    assert (G : code_of i (upd_task i (fun t0 => set_stat Done (set_code None t0)) s) = None)
      by (unfold code_of; rewrite get_upd_same, Hg; reflexivity).
    assert (W : forall j, code_of i (fst (wake ins now j (upd_task i (fun t0 => set_stat Done (set_code None t0)) s))) = None).
    { intros j. unfold wake, enqueue. destruct (get j _) as [tk|]; cbn [fst].
      - unfold code_of. rewrite get_push. fold (code_of i (upd_task j (set_wk now) (upd_task j (set_stat Queued) (upd_task i (fun t0 => set_stat Done (set_code None t0)) s)))).
        rewrite !code_of_upd_keep by reflexivity. exact G.
      - rewrite code_of_upd_keep by reflexivity. exact G. }
    destruct (jh t) as [| |j]; cbn [fst]; try exact G.
    destruct (get j s) as [tj|]; cbn [fst]; try exact G.
    destruct (stat tj) as [| | |i'|]; cbn [fst]; try exact G.
    destruct (Nat.eqb i' i); cbn [fst]; [apply W|exact G].
  - unfold step_op. rewrite Hg. cbn [exhausted].
    assert (Hpos : (0 <? inbox t) = true) by (apply N.ltb_lt; lia). rewrite Hpos.
    edestruct IH with (t := set_inbox (inbox t - 1) (set_code (Some (repeat Recv k)) t)) as [H1 H2]; cycle 4.
    + rewrite H1, H2. split; [lia|reflexivity].
    + unfold code_of. rewrite get_add_trace, !get_upd_same, Hg. reflexivity.
    + rewrite get_add_trace, !get_upd_same, Hg. reflexivity.
    + cbn [inbox set_inbox]. lia.
    + lia.
Qed.

(* a LocalSet task with c+1 messages in its inbox and c+1 receives to do *)
Definition receiver (c : N) (now : N) : st :=
  {| tasks := [ {| local := true; code := Some (repeat Recv (S (N.to_nat c))); stat := Queued;
                   inbox := c + 1; jh := JTable; wk := now |} ];
     lq := []; cq := []; inj := []; stick := 0; gqi := 31; trace := [] |}.

Lemma coop_budget_defers c now :
  (* without budget: one poll, c+1 receives, finished *)
  p_ops (snd (poll_task None true now 0 (receiver c now))) = c + 1 /\
  code_of 0 (fst (poll_task None true now 0 (receiver c now))) = None /\
  (* with budget c: suspended, to be woken when the scheduler parks *)
  p_dfr (snd (poll_task (Some c) true now 0 (receiver c now))) = true.
Proof.
  unfold poll_task.
  assert (Hc : code_of 0 (add_trace (RPoll 0 (wk_of 0 (receiver c now)) now) (receiver c now)) = Some (repeat Recv (S (N.to_nat c))))
    by reflexivity.
  assert (Hl : code_len 0 (receiver c now) = S (N.to_nat c)) by (unfold code_len; cbn; rewrite repeat_length; reflexivity).
  rewrite Hl.
  edestruct (interp_recv_ideal true now 0 (S (N.to_nat c)) (S (S (N.to_nat c))) 0 false) as [H1 H2]; [exact Hc|reflexivity| | |].
  - cbn [inbox]. lia.
  - lia.
  - split; [rewrite H1; lia|]. split; [exact H2|].
    eapply interp_recv_deferred; [exact Hc|reflexivity| | | |]; cbn [inbox]; lia.
Qed.
