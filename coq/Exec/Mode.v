(* The cooperative budget and the poll budgets are invisible to work that fits them:
   a poll that attempts at most C resource operations and does not yield is the same
   poll with and without the budget C; a drain that empties its queue within b polls
   of that kind is the same drain with poll budget b. *)
From Coq Require Import List NArith Bool Arith Lia.
From DesVerif Require Import Exec.Model Exec.Basics Exec.Measure.
Import ListNotations.
Local Open Scope N_scope.

Definition ok (c : N) (p : pinfo) : Prop := p_ops p <= c /\ p_yld p = false.

Lemma step_op_used_mono m ins now i o r used out s :
  match step_op m ins now i o r used out s with
  | Cont _ u _ => used <= u
  | Halt _ p => used <= p_ops p
  end.
Proof.
  unfold step_op. destruct o as [| |t|t| |].
  - lia.
  - destruct (get i s) as [ti|]; [|cbn; lia].
    destruct (exhausted m used); [cbn; lia|]. destruct (0 <? inbox ti); cbn; lia.
  - destruct (send ins now t _). lia.
  - destruct (get t s) as [tq|]; [|lia].
    destruct (match jh tq with JNone => false | JTable => true | JHeld j => Nat.eqb j i end); [|lia].
    destruct (exhausted m used); [cbn; lia|]. destruct (stat tq); cbn; lia.
  - destruct m; [cbn; lia|]. destruct (enqueue ins now i _). cbn; lia.
  - destruct (finish ins now i _). cbn; lia.
Qed.

Lemma interp_ops_mono f m ins now i : forall used out s, used <= p_ops (snd (interp f m ins now i used out s)).
Proof.
  induction f as [|f IH]; intros used out s; cbn [interp]; [cbn; lia|].
  destruct (code_of i s) as [[|o r]|]; [|  |cbn; lia].
  - destruct (finish ins now i s). cbn; lia.
  - pose proof (step_op_used_mono m ins now i o r used out s) as H.
    destruct (step_op m ins now i o r used out s) as [s1 u1 o1|s1 p]; cbn [snd]; [|exact H].
    specialize (IH u1 o1 s1). lia.
Qed.

Lemma exhausted_not c used : used + 1 <= c -> exhausted (Some c) used = false.
Proof. intros H. cbn [exhausted]. apply N.leb_gt. lia. Qed.

(* one operation: without budget vs. with budget c *)
Lemma step_op_mode c ins now i o r used out s :
  match step_op None ins now i o r used out s with
  | Cont s1 u o1 => u <= c -> step_op (Some c) ins now i o r used out s = Cont s1 u o1
  | Halt s1 p => ok c p -> step_op (Some c) ins now i o r used out s = Halt s1 p
  end.
Proof.
  unfold step_op. destruct o as [| |t|t| |].
  - reflexivity.
  - destruct (get i s) as [ti|]; [|reflexivity].
    cbn [exhausted]. destruct (0 <? inbox ti).
    + intros H. rewrite (proj2 (N.leb_gt c used)) by lia. reflexivity.
    + intros [H _]; cbn [p_ops mkp] in H. rewrite (proj2 (N.leb_gt c used)) by lia. reflexivity.
  - destruct (send ins now t _). reflexivity.
  - destruct (get t s) as [tq|]; [|reflexivity].
    destruct (match jh tq with JNone => false | JTable => true | JHeld j => Nat.eqb j i end); [|reflexivity].
    cbn [exhausted]. destruct (stat tq);
      try (intros [H _]; cbn [p_ops mkp] in H; rewrite (proj2 (N.leb_gt c used)) by lia; reflexivity).
    intros H. rewrite (proj2 (N.leb_gt c used)) by lia. reflexivity.
  - destruct (enqueue ins now i _). intros [_ H]; cbn in H. discriminate.
  - destruct (finish ins now i _). reflexivity.
Qed.

Lemma interp_mode c f ins now i : forall used out s,
  ok c (snd (interp f None ins now i used out s)) ->
  interp f (Some c) ins now i used out s = interp f None ins now i used out s.
Proof.
  induction f as [|f IH]; intros used out s Hok; cbn [interp] in *; [reflexivity|].
  destruct (code_of i s) as [[|o r]|]; [reflexivity| |reflexivity].
  pose proof (step_op_mode c ins now i o r used out s) as H.
  destruct (step_op None ins now i o r used out s) as [s1 u1 o1|s1 p].
  - pose proof (interp_ops_mono f None ins now i u1 o1 s1) as Hm.
    destruct Hok as [Hops Hy]. rewrite H by lia. apply IH. split; assumption.
  - cbn [snd] in Hok. rewrite (H Hok). reflexivity.
Qed.

Lemma poll_task_mode c ins now i s :
  ok c (snd (poll_task None ins now i s)) -> poll_task (Some c) ins now i s = poll_task None ins now i s.
Proof. unfold poll_task. apply interp_mode. Qed.

(* the executor without budget never defers *)
Lemma step_op_ideal_no_defer ins now i o r used out s :
  match step_op None ins now i o r used out s with Cont _ _ _ => True | Halt _ p => p_dfr p = false end.
Proof.
  unfold step_op. destruct o as [| |t|t| |]; try exact I.
  - destruct (get i s) as [ti|]; [|reflexivity]. cbn [exhausted]. destruct (0 <? inbox ti); [exact I|reflexivity].
  - destruct (send ins now t _). exact I.
  - destruct (get t s) as [tq|]; [|exact I].
    destruct (match jh tq with JNone => false | JTable => true | JHeld j => Nat.eqb j i end); [|exact I].
    cbn [exhausted]. destruct (stat tq); first [exact I|reflexivity].
  - destruct (enqueue ins now i _). reflexivity.
  - destruct (finish ins now i _). reflexivity.
Qed.

Lemma interp_ideal_no_defer f ins now i : forall used out s, p_dfr (snd (interp f None ins now i used out s)) = false.
Proof.
  induction f as [|f IH]; intros used out s; cbn [interp]; [reflexivity|].
  destruct (code_of i s) as [[|o r]|]; [| |reflexivity].
  - destruct (finish ins now i s). reflexivity.
  - pose proof (step_op_ideal_no_defer ins now i o r used out s) as H.
    destruct (step_op None ins now i o r used out s) as [s1 u1 o1|s1 p]; [apply IH|exact H].
Qed.

Lemma drain_ideal_no_defer loc now : forall n s, dr_dl (drain None loc n now s) = [].
Proof.
  induction n as [|n IH]; intros s; cbn [drain]; [reflexivity|].
  destruct (pop loc s) as [[i s1]|]; [|reflexivity].
  pose proof (interp_ideal_no_defer (S (code_len i s1)) loc now i 0 false (add_trace (RPoll i (wk_of i s1) now) s1)) as Hd.
  fold (poll_task None loc now i s1) in Hd.
  destruct (poll_task None loc now i s1) as [s2 p]; cbn [snd] in Hd.
  specialize (IH s2). destruct (drain None loc n now s2) as [[s3 ps] dl].
  unfold dr_dl in *; cbn [snd] in *. rewrite Hd. exact IH.
Qed.

(* a drain without budgets that empties its queue is reproduced under any budgets that
   cover it *)
Lemma drain_mode c loc now : forall n b s,
  qlen loc (dr_st (drain None loc n now s)) = 0%nat ->
  (length (dr_ps (drain None loc n now s)) <= b)%nat ->
  Forall (ok c) (dr_ps (drain None loc n now s)) ->
  drain (Some c) loc b now s = drain None loc n now s.
Proof.
  induction n as [|n IH]; intros b s Hq Hb Hok; cbn [drain] in *.
  - unfold dr_st in Hq; cbn [fst] in Hq. apply drain_empty; assumption.
  - destruct (pop loc s) as [[i s1]|] eqn:Ep.
    + pose proof (poll_task_mode c loc now i s1) as Hp.
      destruct (poll_task None loc now i s1) as [s2 p] eqn:E2. cbn [snd] in Hp.
      specialize (IH (pred b) s2).
      destruct (drain None loc n now s2) as [[s3 ps] dl] eqn:E3.
      unfold dr_st, dr_ps in *; cbn [fst snd length] in *.
      inversion Hok as [|x l Hx Hl]; subst.
      destruct b as [|b]; [lia|]. cbn [drain pred] in *. rewrite Ep, (Hp Hx).
      rewrite IH; [reflexivity|assumption|lia|assumption].
    + unfold dr_st in Hq; cbn [fst] in Hq. apply drain_empty. apply pop_none; assumption.
Qed.
