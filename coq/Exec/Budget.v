(* C06, positive part: an event whose work fits tokio's budgets is executed by the
   bounded executor exactly as by the executor without budgets, and ends quiescent. *)
From Coq Require Import List NArith Bool Arith Lia.
From DesVerif Require Import Exec.Model Exec.Basics Exec.Measure Exec.Mode.
Import ListNotations.
Local Open Scope N_scope.

(* ---- polls outside the LocalSet's context that wake no LocalSet task leave the local queue alone ---- *)
Lemma enqueue_out now t s : snd (enqueue false now t s) = false -> lq (fst (enqueue false now t s)) = lq s.
Proof.
  unfold enqueue. destruct (get t s) as [tk|]; cbn [fst snd]; [|reflexivity].
  rewrite andb_true_r. intros ->. reflexivity.
Qed.

Lemma wake_out now t s : snd (wake false now t s) = false -> lq (fst (wake false now t s)) = lq s.
Proof. unfold wake. intros H. rewrite enqueue_out by assumption. reflexivity. Qed.

Lemma send_out now t s : snd (send false now t s) = false -> lq (fst (send false now t s)) = lq s.
Proof.
  unfold send. destruct (get t s) as [tk|]; cbn [fst snd]; [|reflexivity].
  destruct (stat tk); cbn [fst snd]; try reflexivity. intros H. rewrite wake_out by assumption. reflexivity.
Qed.

Lemma finish_out now i s : snd (finish false now i s) = false -> lq (fst (finish false now i s)) = lq s.
Proof.
  unfold finish. destruct (get i s) as [ti|]; cbn [fst snd]; [|reflexivity].
  destruct (jh ti) as [| |j]; cbn [fst snd]; try reflexivity.
  destruct (get j s) as [tj|]; cbn [fst snd]; try reflexivity.
  destruct (stat tj) as [| | |i'|]; cbn [fst snd]; try reflexivity.
  destruct (Nat.eqb i' i); cbn [fst snd]; [|reflexivity].
  intros H. rewrite wake_out by assumption. reflexivity.
Qed.

Lemma step_op_out m now i o r used out s :
  match step_op m false now i o r used out s with
  | Cont s1 _ o1 => o1 = false -> out = false /\ lq s1 = lq s
  | Halt s1 p => p_out p = false -> out = false /\ lq s1 = lq s
  end.
Proof.
  unfold step_op. destruct o as [| |t|t| |].
  - auto.
  - destruct (get i s) as [ti|]; [|cbn; auto].
    destruct (exhausted m used); [cbn; auto|]. destruct (0 <? inbox ti); cbn; auto.
  - pose proof (send_out now t (upd_task i (set_code (Some r)) s)) as H.
    destruct (send false now t _) as [s1 o1]; cbn [fst snd] in H.
    intros Ho. apply orb_false_elim in Ho. destruct Ho as [-> Ho]. split; [reflexivity|]. cbn [add_trace lq]. rewrite H by assumption. reflexivity.
  - destruct (get t s) as [tq|]; [|auto].
    destruct (match jh tq with JNone => false | JTable => true | JHeld j => Nat.eqb j i end); [|auto].
    destruct (exhausted m used); [cbn; auto|]. destruct (stat tq); cbn; auto.
  - destruct m; [cbn; auto|].
    pose proof (enqueue_out now i (upd_task i (set_code (Some (Log :: r))) s)) as H.
    destruct (enqueue false now i _) as [s2 o2]; cbn [fst snd] in H. cbn [p_out mkp].
    intros Ho. apply orb_false_elim in Ho. destruct Ho as [-> Ho]. split; [reflexivity|]. rewrite H by assumption. reflexivity.
  - pose proof (finish_out now i (add_trace (ROp i now) s)) as H.
    destruct (finish false now i _) as [s1 o1]; cbn [fst snd] in H. cbn [p_out mkp].
    intros Ho. apply orb_false_elim in Ho. destruct Ho as [-> Ho]. split; [reflexivity|]. rewrite H by assumption. reflexivity.
Qed.

Lemma interp_out f m now i : forall used out s,
  p_out (snd (interp f m false now i used out s)) = false ->
  out = false /\ lq (fst (interp f m false now i used out s)) = lq s.
Proof.
  induction f as [|f IH]; intros used out s; cbn [interp]; [cbn; auto|].
  destruct (code_of i s) as [[|o r]|]; [| |cbn; auto].
  - pose proof (finish_out now i s) as H. destruct (finish false now i s) as [s1 o1]; cbn [fst snd p_out mkp] in *.
    intros Ho. apply orb_false_elim in Ho. destruct Ho as [-> Ho]. auto.
  - pose proof (step_op_out m now i o r used out s) as H.
    destruct (step_op m false now i o r used out s) as [s1 u1 o1|s1 p]; cbn [fst snd]; [|exact H].
    intros Ho. destruct (IH u1 o1 s1 Ho) as [-> Hl]. destruct (H eq_refl) as [-> Hl']. split; [reflexivity|congruence].
Qed.

Lemma poll_task_out m now i s :
  p_out (snd (poll_task m false now i s)) = false -> lq (fst (poll_task m false now i s)) = lq s.
Proof. unfold poll_task. intros H. apply interp_out in H. destruct H as [_ H]. exact H. Qed.

Lemma drain_out m now : forall n s,
  Forall (fun p => p_out p = false) (dr_ps (drain m false n now s)) ->
  lq (dr_st (drain m false n now s)) = lq s.
Proof.
  induction n as [|n IH]; intros s; cbn [drain]; [reflexivity|].
  destruct (pop false s) as [[i s1]|] eqn:Ep; [|reflexivity].
  pose proof (poll_task_out m now i s1) as Hp.
  destruct (poll_task m false now i s1) as [s2 p]; cbn [fst snd] in Hp.
  specialize (IH s2). destruct (drain m false n now s2) as [[s3 ps] dl].
  unfold dr_st, dr_ps in *; cbn [fst snd] in *.
  intros H. inversion H; subst. rewrite IH, Hp by assumption.
  apply pop_some in Ep. apply Ep. reflexivity.
Qed.

(* ---- the class of events that fit ---- *)
(* what the executor without budgets does in its first round -- one LocalSet tick and one
   scheduler turn, both unbounded -- must fit: *)
Definition fits (b : budgets) (p2 p3 : list pinfo) : Prop :=
  (length p2 <= b_local b)%nat /\            (* polls needed in phase 2 *)
  (length p3 <= b_rt b)%nat /\               (* polls needed in phase 3 *)
  Forall (ok (b_coop b)) (p2 ++ p3) /\       (* no poll attempts more than C resource operations; no yield *)
  Forall (fun p => p_out p = false) p3.      (* no LocalSet task is woken after the LocalSet's tick *)

Definition okb (c : N) (p : pinfo) : bool := (p_ops p <=? c) && negb (p_yld p).
Definition fitsb (b : budgets) (p2 p3 : list pinfo) : bool :=
  (length p2 <=? b_local b)%nat && (length p3 <=? b_rt b)%nat &&
  forallb (okb (b_coop b)) (p2 ++ p3) && forallb (fun p => negb (p_out p)) p3.

Lemma okb_ok c p : okb c p = true <-> ok c p.
Proof.
  unfold okb, ok. rewrite andb_true_iff, N.leb_le. destruct (p_yld p); cbn [negb]; intuition discriminate.
Qed.

Lemma fitsb_spec b p2 p3 : fitsb b p2 p3 = true <-> fits b p2 p3.
Proof.
  unfold fitsb, fits. rewrite !andb_true_iff, !forallb_forall, !Forall_forall, !Nat.leb_le.
  split.
  - intros [[[H1 H2] H3] H4]. split; [exact H1|]. split; [exact H2|]. split.
    + intros p Hp. apply okb_ok. exact (H3 p Hp).
    + intros p Hp. specialize (H4 p Hp). destruct (p_out p); [discriminate|reflexivity].
  - intros [H1 [H2 [H3 H4]]]. split; [split; [split; [exact H1|exact H2]|]|].
    + intros p Hp. apply okb_ok. exact (H3 p Hp).
    + intros p Hp. rewrite (H4 p Hp). reflexivity.
Qed.

(* an event = budgets, instant, callback actions, state of the module's task system *)
Record event := { e_b : budgets; e_now : N; e_acts : list act; e_st : st }.

Definition ideal_first (x : event) : st * list pinfo * list pinfo :=
  ideal_round (e_now x) (handler (e_now x) (e_acts x) (e_st x)).
Definition polls_needed_local (x : event) : nat := length (snd (fst (ideal_first x))).
Definition polls_needed_rt (x : event) : nat := length (snd (ideal_first x)).

Definition over_budget (x : event) : bool :=
  negb (fitsb (e_b x) (snd (fst (ideal_first x))) (snd (ideal_first x))).

(* the known class (finding F4): the event's work exceeds tokio's budgets *)
Definition KnownClass (x : event) : Prop := over_budget x = true.

Definition within_budget (x : event) : Prop :=
  fits (e_b x) (snd (fst (ideal_first x))) (snd (ideal_first x)).

Lemma not_known_within x : ~ KnownClass x -> within_budget x.
Proof.
  unfold KnownClass, over_budget, within_budget. intros H. apply fitsb_spec.
  destruct (fitsb _ _ _); [reflexivity|]. exfalso. apply H. reflexivity.
Qed.

Lemma within_not_known x : within_budget x -> ~ KnownClass x.
Proof.
  unfold KnownClass, over_budget, within_budget. intros H. apply fitsb_spec in H. rewrite H. discriminate.
Qed.

Definition exec_bounded (x : event) : st * list pinfo * list pinfo :=
  exec_event (b_local (e_b x)) (b_rt (e_b x)) (b_coop (e_b x)) (e_now x) (e_acts x) (e_st x).
Definition queues (s : st) : list nat := lq s ++ cq s ++ inj s.
Definition queue_after (x : event) : list nat := queues (fst (fst (exec_bounded x))).

Lemma queues_nil s : queues s = [] <-> quiescent s = true.
Proof.
  rewrite quiescent_nil. unfold queues. split.
  - intros H. apply app_eq_nil in H. destruct H as [H1 H2]. apply app_eq_nil in H2. tauto.
  - intros [-> [-> ->]]. reflexivity.
Qed.

Lemma wake_deferred_nil now s : wake_deferred now [] s = s.
Proof. reflexivity. Qed.

(* the bounded executor on an event that fits = the first round of the executor without
   budgets, and that round ends with nothing runnable *)
Lemma exec_fits x : within_budget x ->
  exec_bounded x = ideal_first x /\ quiescent (fst (fst (ideal_first x))) = true.
Proof.
  unfold within_budget, exec_bounded, ideal_first. destruct x as [b now acts s]; cbn [e_b e_now e_acts e_st].
  set (s0 := handler now acts s). rewrite ideal_round_spec. cbn zeta. cbn [fst snd].
  set (d1 := drain None true (measure s0) now s0).
  set (d2 := drain None false (measure (dr_st d1)) now (dr_st d1)).
  intros [H2 [H3 [Hok Hout]]].
  apply Forall_app in Hok. destruct Hok as [Hok2 Hok3].
  assert (Q1 : qlen true (dr_st d1) = 0%nat) by (apply drain_sufficient; lia).
  assert (Q2 : qlen false (dr_st d2) = 0%nat) by (apply drain_sufficient; lia).
  assert (E1 : drain (Some (b_coop b)) true (b_local b) now s0 = d1) by (apply drain_mode; assumption).
  assert (E2 : drain (Some (b_coop b)) false (b_rt b) now (dr_st d1) = d2) by (apply drain_mode; assumption).
  assert (D1 : dr_dl d1 = []) by apply drain_ideal_no_defer.
  assert (D2 : dr_dl d2 = []) by apply drain_ideal_no_defer.
  assert (L2 : qlen true (dr_st d2) = 0%nat).
  { unfold qlen, d2. rewrite drain_out by exact Hout. exact Q1. }
  split.
  - unfold exec_event. fold s0. rewrite E1.
    destruct d1 as [[s1 p2] dl2] eqn:Ed1. unfold dr_st, dr_ps, dr_dl in *; cbn [fst snd] in *.
    rewrite E2. destruct d2 as [[s2 p3] dl3] eqn:Ed2. cbn [fst snd] in *. subst dl2 dl3. reflexivity.
  - apply quiescent_iff. split; [exact L2|exact Q2].
Qed.

Theorem quiescent_if_within_budget x : ~ KnownClass x ->
  queue_after x = [] /\
  ideal_event (e_now x) (e_acts x) (e_st x) = Some (fst (fst (exec_bounded x))) /\
  exec_bounded x = ideal_first x.
Proof.
  intros Hk. apply not_known_within in Hk. destruct (exec_fits x Hk) as [E Q].
  split; [|split; [|exact E]].
  - unfold queue_after. rewrite E. apply queues_nil. exact Q.
  - rewrite E. unfold ideal_event, ideal_first in *. cbn [ideal_rounds].
    destruct (ideal_round (e_now x) (handler (e_now x) (e_acts x) (e_st x))) as [[s2 p2] p3]. cbn [fst] in *.
    rewrite Q. reflexivity.
Qed.

(* ---- larger budgets change nothing for an event that fits ---- *)
Definition ble (b b' : budgets) : Prop :=
  (b_local b <= b_local b')%nat /\ (b_rt b <= b_rt b')%nat /\ b_coop b <= b_coop b'.

Definition with_budgets (b' : budgets) (x : event) : event :=
  {| e_b := b'; e_now := e_now x; e_acts := e_acts x; e_st := e_st x |}.

Lemma fits_mono b b' p2 p3 : ble b b' -> fits b p2 p3 -> fits b' p2 p3.
Proof.
  intros [H1 [H2 H3]] [F1 [F2 [F3 F4]]]. repeat split; try lia; try assumption.
  eapply Forall_impl; [|exact F3]. intros p [Ha Hb]. split; [lia|assumption].
Qed.

Theorem budget_monotone x b' : ~ KnownClass x -> ble (e_b x) b' ->
  ~ KnownClass (with_budgets b' x) /\ exec_bounded (with_budgets b' x) = exec_bounded x.
Proof.
  intros Hk Hle. apply not_known_within in Hk.
  assert (Hk' : within_budget (with_budgets b' x)) by (eapply fits_mono; eassumption).
  split; [apply within_not_known; exact Hk'|].
  destruct (exec_fits x Hk) as [E _]. destruct (exec_fits _ Hk') as [E' _].
  rewrite E, E'. reflexivity.
Qed.
