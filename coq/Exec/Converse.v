(* The class is tight: an event that is over budget always leaves work behind.  Together
   with Budget.quiescent_if_within_budget: the bounded executor returns with every queue
   empty IF AND ONLY IF the event fits the budgets. *)
From Coq Require Import List NArith Bool Arith Lia.
From DesVerif Require Import Exec.Model Exec.Basics Exec.Measure Exec.Mode Exec.Budget.
Import ListNotations.
Local Open Scope nat_scope.

Definition nt (s : st) : nat := length (tasks s).
Definition ll (s : st) : nat := length (lq s).
Definition lc (s : st) : nat := length (cq s) + length (inj s).

(* a poll never removes a task from the table or an entry from a queue *)
Definition ext (s s' : st) : Prop := nt s' = nt s /\ ll s <= ll s' /\ lc s <= lc s'.

Lemma ext_refl s : ext s s.
Proof. unfold ext; lia. Qed.
Lemma ext_trans s1 s2 s3 : ext s1 s2 -> ext s2 s3 -> ext s1 s3.
Proof. unfold ext; lia. Qed.

Lemma ext_upd_task i f s : ext s (upd_task i f s).
Proof. unfold ext, nt, ll, lc, upd_task; cbn [tasks lq cq inj]. rewrite upd_length. lia. Qed.
Lemma ext_add_trace r s : ext s (add_trace r s).
Proof. unfold ext, nt, ll, lc; cbn. lia. Qed.
Lemma ext_push l i s : ext s (push l i s).
Proof. unfold ext, nt, ll, lc, push; destruct l; cbn [tasks lq cq inj set_lq set_cq]; rewrite ?app_length; cbn [length]; lia. Qed.

Lemma get_lt i s : get i s <> None <-> i < nt s.
Proof. unfold get, nt. apply nth_error_Some. Qed.

Lemma ext_enqueue ins now t s : ext s (fst (enqueue ins now t s)).
Proof.
  unfold enqueue. destruct (get t s); cbn [fst]; [|apply ext_refl].
  eapply ext_trans; [apply ext_upd_task|apply ext_push].
Qed.

(* enqueueing an existing task makes the queues longer *)
Lemma enqueue_grows ins now t s : t < nt s ->
  ll s + lc s < ll (fst (enqueue ins now t s)) + lc (fst (enqueue ins now t s)).
Proof.
  intros H. apply get_lt in H. unfold enqueue. destruct (get t s) as [tk|]; [|contradiction]. cbn [fst].
  unfold ll, lc, push; destruct (local tk); cbn [lq cq inj set_lq set_cq upd_task]; rewrite app_length; cbn [length]; lia.
Qed.

Lemma ext_wake ins now t s : ext s (fst (wake ins now t s)).
Proof. unfold wake. eapply ext_trans; [apply ext_upd_task|apply ext_enqueue]. Qed.

Lemma ext_send ins now t s : ext s (fst (send ins now t s)).
Proof.
  unfold send. destruct (get t s) as [tk|]; cbn [fst]; [|apply ext_refl].
  destruct (stat tk); cbn [fst]; try apply ext_upd_task.
  eapply ext_trans; [apply ext_upd_task|apply ext_wake].
Qed.

Lemma ext_finish ins now i s : ext s (fst (finish ins now i s)).
Proof.
  unfold finish.
  assert (H1 : ext s (upd_task i (fun t => set_stat Done (set_code None t)) s)) by apply ext_upd_task.
  destruct (get i s) as [ti|]; cbn [fst]; [|exact H1].
  destruct (jh ti) as [| |j]; cbn [fst]; try exact H1.
  destruct (get j s) as [tj|]; cbn [fst]; try exact H1.
  destruct (stat tj) as [| | |i'|]; cbn [fst]; try exact H1.
  destruct (Nat.eqb i' i); cbn [fst]; [|exact H1]. eapply ext_trans; [exact H1|apply ext_wake].
Qed.

Ltac ext_chain := repeat first [apply ext_refl | apply ext_upd_task | apply ext_add_trace
                               | (eapply ext_trans; [|apply ext_add_trace]) | (eapply ext_trans; [|apply ext_upd_task]) ].

Lemma ext_step_op m ins now i o r used out s :
  match step_op m ins now i o r used out s with
  | Cont s1 _ _ => ext s s1
  | Halt s1 _ => ext s s1
  end.
Proof.
  unfold step_op. destruct o as [| |t|t| |].
  - ext_chain.
  - destruct (get i s) as [ti|]; [|apply ext_refl].
    destruct (exhausted m used); [apply ext_refl|]. destruct (0 <? inbox ti)%N; ext_chain.
  - pose proof (ext_send ins now t (upd_task i (set_code (Some r)) s)) as H.
    destruct (send ins now t _) as [s1 o1]; cbn [fst] in H.
    eapply ext_trans; [|apply ext_add_trace]. eapply ext_trans; [apply ext_upd_task|exact H].
  - destruct (get t s) as [tq|]; [|ext_chain].
    destruct (match jh tq with JNone => false | JTable => true | JHeld j => Nat.eqb j i end); [|ext_chain].
    destruct (exhausted m used); [ext_chain|]. destruct (stat tq); ext_chain.
  - destruct m; [ext_chain|].
    pose proof (ext_enqueue ins now i (upd_task i (set_code (Some (Log :: r))) s)) as H.
    destruct (enqueue ins now i _) as [s2 o2]; cbn [fst] in H. eapply ext_trans; [apply ext_upd_task|exact H].
  - pose proof (ext_finish ins now i (add_trace (ROp i now) s)) as H.
    destruct (finish ins now i _) as [s1 o1]; cbn [fst] in H. eapply ext_trans; [apply ext_add_trace|exact H].
Qed.

Lemma ext_interp f m ins now i : forall used out s, ext s (fst (interp f m ins now i used out s)).
Proof.
  induction f as [|f IH]; intros used out s; cbn [interp]; [apply ext_refl|].
  destruct (code_of i s) as [[|o r]|]; [| |apply ext_refl].
  - pose proof (ext_finish ins now i s) as H. destruct (finish ins now i s) as [s1 o1]. exact H.
  - pose proof (ext_step_op m ins now i o r used out s) as H.
    destruct (step_op m ins now i o r used out s) as [s1 u1 o1|s1 p]; cbn [fst]; [|exact H].
    eapply ext_trans; [exact H|apply IH].
Qed.

Lemma ext_poll_task m ins now i s : ext s (fst (poll_task m ins now i s)).
Proof. unfold poll_task. eapply ext_trans; [apply ext_add_trace|apply ext_interp]. Qed.

Lemma ext_wake_deferred now dl : forall s, ext s (wake_deferred now dl s).
Proof.
  induction dl as [|i dl IH]; intros s; cbn [wake_deferred]; [apply ext_refl|].
  eapply ext_trans; [apply ext_enqueue|apply IH].
Qed.

Lemma wake_deferred_grows now dl s : dl <> [] -> Forall (fun i => i < nt s) dl ->
  0 < ll (wake_deferred now dl s) + lc (wake_deferred now dl s).
Proof.
  destruct dl as [|i dl]; [contradiction|]. intros _ H. cbn [wake_deferred].
  pose proof (enqueue_grows false now i s (Forall_inv H)) as Hg.
  pose proof (ext_wake_deferred now dl (fst (enqueue false now i s))) as [_ He]. lia.
Qed.

(* a drain of the core queue does not shorten the local queue; the table keeps its size *)
Lemma drain_ext_nt m loc now : forall n s, nt (dr_st (drain m loc n now s)) = nt s.
Proof.
  induction n as [|n IH]; intros s; cbn [drain]; [reflexivity|].
  destruct (pop loc s) as [[i s1]|] eqn:Ep; [|reflexivity].
  pose proof (ext_poll_task m loc now i s1) as [Hn _].
  destruct (poll_task m loc now i s1) as [s2 p]; cbn [fst] in Hn.
  specialize (IH s2). destruct (drain m loc n now s2) as [[s3 ps] dl]. unfold dr_st in *; cbn [fst] in *.
  apply pop_some in Ep. destruct Ep as [_ [_ [_ [_ [_ [Ht _]]]]]]. unfold nt in *. rewrite IH, Hn, Ht. reflexivity.
Qed.

Lemma drain_rt_ll m now : forall n s, ll s <= ll (dr_st (drain m false n now s)).
Proof.
  induction n as [|n IH]; intros s; cbn [drain]; [unfold dr_st; cbn; lia|].
  destruct (pop false s) as [[i s1]|] eqn:Ep; [|unfold dr_st; cbn; lia].
  pose proof (ext_poll_task m false now i s1) as [_ [Hl _]].
  destruct (poll_task m false now i s1) as [s2 p]; cbn [fst] in Hl.
  specialize (IH s2). destruct (drain m false n now s2) as [[s3 ps] dl]. unfold dr_st in *; cbn [fst] in *.
  apply pop_some in Ep. destruct Ep as [_ [_ [_ [_ [Ho _]]]]]. unfold ll in *. rewrite <- (Ho eq_refl). lia.
Qed.

(* ---- a deferred task exists ---- *)
Lemma poll_deferred_exists m ins now i s : p_dfr (snd (poll_task m ins now i s)) = true -> i < nt s.
Proof.
  intros H. apply get_lt. intros Hg. unfold poll_task in H. cbn [interp] in H.
  unfold code_of in H. rewrite get_add_trace, Hg in H. discriminate.
Qed.

Lemma drain_dl_exist m loc now : forall n s, Forall (fun i => i < nt s) (dr_dl (drain m loc n now s)).
Proof.
  induction n as [|n IH]; intros s; cbn [drain]; [constructor|].
  destruct (pop loc s) as [[i s1]|] eqn:Ep; [|constructor].
  pose proof (poll_deferred_exists m loc now i s1) as Hd.
  pose proof (ext_poll_task m loc now i s1) as [Hn _].
  destruct (poll_task m loc now i s1) as [s2 p]; cbn [fst snd] in *.
  specialize (IH s2). destruct (drain m loc n now s2) as [[s3 ps] dl]. unfold dr_dl in *; cbn [snd] in *.
  apply pop_some in Ep. destruct Ep as [_ [_ [_ [_ [_ [Ht _]]]]]].
  assert (E : nt s2 = nt s) by (unfold nt in *; rewrite Hn, Ht; reflexivity). rewrite E in IH.
  destruct (p_dfr p); [|exact IH]. apply Forall_app; split; [exact IH|].
  constructor; [|constructor]. unfold nt in *. rewrite <- Ht. apply Hd. reflexivity.
Qed.

(* ---- a poll that does not fit the cooperative budget is deferred under it ---- *)
Local Open Scope N_scope.

Definition deferred (r : sres) : Prop := match r with Halt _ p => p_dfr p = true | Cont _ _ _ => False end.

Lemma step_op_over c ins now i o r used out s : used <= c ->
  match step_op None ins now i o r used out s with
  | Cont s1 u o1 => (u <= c /\ step_op (Some c) ins now i o r used out s = Cont s1 u o1) \/
                    deferred (step_op (Some c) ins now i o r used out s)
  | Halt s1 p => ok c p \/ deferred (step_op (Some c) ins now i o r used out s)
  end.
Proof.
  intros Hu. unfold step_op. destruct o as [| |t|t| |].
  - left. split; [exact Hu|reflexivity].
  - destruct (get i s) as [ti|]; [|left; split; [exact Hu|reflexivity]].
    cbn [exhausted]. destruct (c <=? used) eqn:E.
    + destruct (0 <? inbox ti); right; reflexivity.
    + apply N.leb_gt in E. destruct (0 <? inbox ti).
      * left. split; [lia|reflexivity].
      * left. split; [cbn; lia|reflexivity].
  - destruct (send ins now t _). left. split; [exact Hu|reflexivity].
  - destruct (get t s) as [tq|]; [|left; split; [exact Hu|reflexivity]].
    destruct (match jh tq with JNone => false | JTable => true | JHeld j => Nat.eqb j i end);
      [|left; split; [exact Hu|reflexivity]].
    cbn [exhausted]. destruct (c <=? used) eqn:E.
    + destruct (stat tq); right; reflexivity.
    + apply N.leb_gt in E. destruct (stat tq); left; (split; [cbn; lia|reflexivity]).
  - destruct (enqueue ins now i _). right. reflexivity.
  - destruct (finish ins now i _). left. split; [exact Hu|reflexivity].
Qed.

Lemma interp_over c f ins now i : forall used out s, used <= c ->
  ok c (snd (interp f None ins now i used out s)) \/
  p_dfr (snd (interp f (Some c) ins now i used out s)) = true.
Proof.
  induction f as [|f IH]; intros used out s Hu; cbn [interp]; [left; split; [exact Hu|reflexivity]|].
  destruct (code_of i s) as [[|o r]|]; [| |left; split; [exact Hu|reflexivity]].
  - destruct (finish ins now i s). left. split; [exact Hu|reflexivity].
  - pose proof (step_op_over c ins now i o r used out s Hu) as H.
    destruct (step_op None ins now i o r used out s) as [s1 u1 o1|s1 p].
    + destruct H as [[Hu1 ->]|H]; [apply IH; exact Hu1|].
      right. destruct (step_op (Some c) ins now i o r used out s); [contradiction|exact H].
    + destruct H as [H|H]; [left; exact H|].
      right. destruct (step_op (Some c) ins now i o r used out s); [contradiction|exact H].
Qed.

Lemma poll_over c ins now i s :
  ok c (snd (poll_task None ins now i s)) \/ p_dfr (snd (poll_task (Some c) ins now i s)) = true.
Proof. unfold poll_task. apply interp_over. lia. Qed.

Lemma okb_spec c p : okb c p = true <-> ok c p.
Proof. apply okb_ok. Qed.

(* ---- a drain that does not fit leaves something pending ---- *)
Local Open Scope nat_scope.

Definition coverb (c : N) (b : nat) (ps : list pinfo) : bool := (length ps <=? b) && forallb (okb c) ps.

Lemma coverb_spec c b ps : coverb c b ps = true <-> length ps <= b /\ Forall (ok c) ps.
Proof.
  unfold coverb. rewrite andb_true_iff, Nat.leb_le, forallb_forall, Forall_forall.
  split; intros [H1 H2]; (split; [exact H1|]); intros p Hp; apply okb_spec; auto.
Qed.

Lemma drain_over c loc now : forall n b s,
  coverb c b (dr_ps (drain None loc n now s)) = false ->
  0 < qlen loc (dr_st (drain (Some c) loc b now s)) \/ dr_dl (drain (Some c) loc b now s) <> [].
Proof.
  induction n as [|n IH]; intros b s Hc; cbn [drain] in Hc.
  - unfold dr_ps, coverb in Hc; cbn in Hc. discriminate.
  - destruct (pop loc s) as [[i s1]|] eqn:Ep; [|unfold dr_ps, coverb in Hc; cbn in Hc; discriminate].
    destruct b as [|b]; cbn [drain].
    + left. unfold dr_st; cbn [fst]. destruct (qlen loc s) eqn:H; [|lia]. apply pop_none in H. rewrite H in Ep. discriminate.
    + rewrite Ep. pose proof (poll_over c loc now i s1) as Hp. pose proof (poll_task_mode c loc now i s1) as Hm.
      destruct (poll_task None loc now i s1) as [s2 p] eqn:E2. cbn [snd] in Hp, Hm.
      specialize (IH b s2).
      destruct (drain None loc n now s2) as [[s3 ps] dl] eqn:E3. unfold dr_ps in Hc, IH; cbn [fst snd] in Hc, IH.
      destruct Hp as [Hok|Hd].
      * rewrite (Hm Hok).
        assert (Hc' : coverb c b ps = false).
        { unfold coverb in *. cbn [length forallb] in Hc. rewrite (proj2 (okb_spec c p) Hok) in Hc. cbn [andb] in Hc.
          destruct (length ps <=? b) eqn:El; [|reflexivity]. cbn [andb] in *.
          replace (S (length ps) <=? S b) with true in Hc by (symmetry; apply Nat.leb_le; apply Nat.leb_le in El; lia).
          exact Hc. }
        specialize (IH Hc'). destruct (drain (Some c) loc b now s2) as [[s3' ps'] dl'].
        unfold dr_st, dr_dl in *; cbn [fst snd] in *. destruct IH as [IH|IH]; [left; exact IH|right].
        destruct (p_dfr p); [|exact IH]. intros H. apply app_eq_nil in H. destruct H as [_ H]. discriminate.
      * destruct (poll_task (Some c) loc now i s1) as [s2' p']; cbn [snd] in Hd.
        destruct (drain (Some c) loc b now s2') as [[s3' ps'] dl']. unfold dr_dl; cbn [snd]. rewrite Hd.
        right. intros H. apply app_eq_nil in H. destruct H as [_ H]. discriminate.
Qed.

(* ---- a scheduler-turn poll that wakes a LocalSet task lengthens the local queue ---- *)
Lemma enqueue_out_grows now t s : snd (enqueue false now t s) = true -> ll s < ll (fst (enqueue false now t s)).
Proof.
  unfold enqueue. destruct (get t s) as [tk|]; cbn [fst snd]; [|discriminate].
  rewrite andb_true_r. intros ->. unfold ll, push; cbn [lq set_lq upd_task]. rewrite app_length; cbn [length]. lia.
Qed.

Lemma wake_out_grows now t s : snd (wake false now t s) = true -> ll s < ll (fst (wake false now t s)).
Proof. unfold wake. intros H. apply enqueue_out_grows in H. exact H. Qed.

Lemma send_out_grows now t s : snd (send false now t s) = true -> ll s < ll (fst (send false now t s)).
Proof.
  unfold send. destruct (get t s) as [tk|]; cbn [fst snd]; [|discriminate].
  destruct (stat tk); cbn [fst snd]; try discriminate. intros H. apply wake_out_grows in H. exact H.
Qed.

Lemma finish_out_grows now i s : snd (finish false now i s) = true -> ll s < ll (fst (finish false now i s)).
Proof.
  unfold finish. destruct (get i s) as [ti|]; cbn [fst snd]; [|discriminate].
  destruct (jh ti) as [| |j]; cbn [fst snd]; try discriminate.
  destruct (get j s) as [tj|]; cbn [fst snd]; try discriminate.
  destruct (stat tj) as [| | |i'|]; cbn [fst snd]; try discriminate.
  destruct (Nat.eqb i' i); cbn [fst snd]; [|discriminate].
  intros H. apply wake_out_grows in H. exact H.
Qed.

Lemma step_op_out_grows m now i o r used out s :
  match step_op m false now i o r used out s with
  | Cont s1 _ o1 => o1 = true -> out = true \/ ll s < ll s1
  | Halt s1 p => p_out p = true -> out = true \/ ll s < ll s1
  end.
Proof.
  unfold step_op. destruct o as [| |t|t| |].
  - auto.
  - destruct (get i s) as [ti|]; [|cbn; auto].
    destruct (exhausted m used); [cbn; auto|]. destruct (0 <? inbox ti)%N; cbn; auto.
  - pose proof (send_out_grows now t (upd_task i (set_code (Some r)) s)) as H.
    destruct (send false now t _) as [s1 o1]; cbn [fst snd] in H.
    intros Ho. apply orb_true_iff in Ho. destruct Ho as [Ho|Ho]; [left; exact Ho|right].
    specialize (H Ho). unfold ll in *; cbn [add_trace lq upd_task] in *. exact H.
  - destruct (get t s) as [tq|]; [|auto].
    destruct (match jh tq with JNone => false | JTable => true | JHeld j => Nat.eqb j i end); [|auto].
    destruct (exhausted m used); [cbn; auto|]. destruct (stat tq); cbn; auto.
  - destruct m; [cbn; auto|].
    pose proof (enqueue_out_grows now i (upd_task i (set_code (Some (Log :: r))) s)) as H.
    destruct (enqueue false now i _) as [s2 o2]; cbn [fst snd] in H. cbn [p_out mkp].
    intros Ho. apply orb_true_iff in Ho. destruct Ho as [Ho|Ho]; [left; exact Ho|right]. exact (H Ho).
  - pose proof (finish_out_grows now i (add_trace (ROp i now) s)) as H.
    destruct (finish false now i _) as [s1 o1]; cbn [fst snd] in H. cbn [p_out mkp].
    intros Ho. apply orb_true_iff in Ho. destruct Ho as [Ho|Ho]; [left; exact Ho|right]. exact (H Ho).
Qed.

Lemma interp_out_grows f m now i : forall used out s,
  p_out (snd (interp f m false now i used out s)) = true ->
  out = true \/ ll s < ll (fst (interp f m false now i used out s)).
Proof.
  induction f as [|f IH]; intros used out s; cbn [interp]; [cbn; auto|].
  destruct (code_of i s) as [[|o r]|]; [| |cbn; auto].
  - pose proof (finish_out_grows now i s) as H. destruct (finish false now i s) as [s1 o1]; cbn [fst snd p_out mkp] in *.
    intros Ho. apply orb_true_iff in Ho. destruct Ho as [Ho|Ho]; [left; exact Ho|right; exact (H Ho)].
  - pose proof (step_op_out_grows m now i o r used out s) as H.
    pose proof (ext_step_op m false now i o r used out s) as He.
    destruct (step_op m false now i o r used out s) as [s1 u1 o1|s1 p]; cbn [fst snd]; [|exact H].
    intros Ho. pose proof (ext_interp f m false now i u1 o1 s1) as [_ [Hl _]].
    destruct (IH u1 o1 s1 Ho) as [Ho1|Hg].
    + destruct (H Ho1) as [Hout|Hg]; [left; exact Hout|right; lia].
    + right. destruct He as [_ [He _]]. lia.
Qed.

Lemma drain_out_grows m now : forall n s,
  Exists (fun p => p_out p = true) (dr_ps (drain m false n now s)) -> 0 < ll (dr_st (drain m false n now s)).
Proof.
  induction n as [|n IH]; intros s; cbn [drain]; [intros H; inversion H|].
  destruct (pop false s) as [[i s1]|] eqn:Ep; [|intros H; inversion H].
  pose proof (interp_out_grows (S (code_len i s1)) m now i 0 false (add_trace (RPoll i (wk_of i s1) now) s1)) as Hg.
  fold (poll_task m false now i s1) in Hg.
  destruct (poll_task m false now i s1) as [s2 p]; cbn [fst snd] in Hg.
  specialize (IH s2). pose proof (drain_rt_ll m now n s2) as Hm.
  destruct (drain m false n now s2) as [[s3 ps] dl]. unfold dr_st, dr_ps in *; cbn [fst snd] in *.
  intros H. inversion H as [x l Hx|x l Hl]; subst.
  - destruct (Hg Hx) as [Hf|Hgr]; [discriminate|]. unfold ll in *; cbn [add_trace lq] in *. lia.
  - apply IH. exact Hl.
Qed.

(* ---- the converse ---- *)
Lemma queue_after_pos x :
  0 < ll (fst (fst (exec_bounded x))) + lc (fst (fst (exec_bounded x))) -> queue_after x <> [].
Proof.
  unfold queue_after, queues, ll, lc. intros H E. apply app_eq_nil in E. destruct E as [E1 E2].
  apply app_eq_nil in E2. destruct E2 as [E2 E3]. rewrite E1, E2, E3 in H. cbn in H. lia.
Qed.

Lemma forallb_false_exists {A} (f : A -> bool) l : forallb f l = false -> Exists (fun x => f x = false) l.
Proof.
  induction l as [|x l IH]; cbn [forallb]; [discriminate|].
  destruct (f x) eqn:E; cbn [andb]; [intros H; right; apply IH; exact H|intros _; left; exact E].
Qed.

Theorem over_budget_leaves_work x : KnownClass x -> queue_after x <> [].
Proof.
  unfold KnownClass, over_budget. intros Hk. apply negb_true_iff in Hk.
  apply queue_after_pos. revert Hk.
  unfold exec_bounded, ideal_first. destruct x as [[bl br c] now acts s]; cbn [e_b e_now e_acts e_st b_local b_rt b_coop].
  set (s0 := handler now acts s). rewrite ideal_round_spec. cbn zeta. cbn [fst snd].
  set (d1 := drain None true (measure s0) now s0).
  set (d2 := drain None false (measure (dr_st d1)) now (dr_st d1)).
  intros Hk. unfold exec_event. fold s0.
  destruct (coverb c bl (dr_ps d1)) eqn:C2.
  - (* the LocalSet tick fits: it is the ideal one *)
    apply coverb_spec in C2. destruct C2 as [L2 O2].
    assert (Q1 : qlen true (dr_st d1) = 0) by (apply drain_sufficient; lia).
    assert (E1 : drain (Some c) true bl now s0 = d1) by (apply drain_mode; assumption).
    assert (D1 : dr_dl d1 = []) by apply drain_ideal_no_defer.
    rewrite E1. destruct d1 as [[s1 p2] dl2] eqn:Ed1. unfold dr_st, dr_ps, dr_dl in *; cbn [fst snd] in *. subst dl2.
    destruct (coverb c br (dr_ps d2)) eqn:C3.
    + (* the scheduler turn fits as well: a LocalSet task was woken during it *)
      apply coverb_spec in C3. destruct C3 as [L3 O3].
      assert (Q2 : qlen false (dr_st d2) = 0) by (apply drain_sufficient; lia).
      assert (E2 : drain (Some c) false br now s1 = d2) by (apply drain_mode; assumption).
      assert (D2 : dr_dl d2 = []) by apply drain_ideal_no_defer.
      rewrite E2.
      assert (Hout : Exists (fun p => p_out p = true) (dr_ps d2)).
      { unfold fitsb in Hk; cbn [b_local b_rt b_coop] in Hk. change (snd (fst d2)) with (dr_ps d2) in Hk.
        rewrite (proj2 (Nat.leb_le _ _) L2), (proj2 (Nat.leb_le _ _) L3) in Hk. cbn [andb] in Hk.
        assert (F : forallb (okb c) (p2 ++ dr_ps d2) = true).
        { rewrite forallb_app. apply andb_true_iff. split; apply forallb_forall; intros p Hp; apply okb_spec;
            [exact (proj1 (Forall_forall _ _) O2 p Hp)|exact (proj1 (Forall_forall _ _) O3 p Hp)]. }
        rewrite F in Hk. cbn [andb] in Hk. apply forallb_false_exists in Hk.
        eapply Exists_impl; [|exact Hk]. intros p Hp. cbn beta in Hp. destruct (p_out p); [reflexivity|discriminate]. }
      pose proof (drain_out_grows None now (measure s1) s1 Hout) as Hg. fold d2 in Hg.
      destruct d2 as [[s2 p3] dl3] eqn:Ed2. unfold dr_st, dr_dl in *; cbn [fst snd] in *. subst dl3.
      cbn [app wake_deferred fst]. lia.
    + (* the scheduler turn does not fit *)
      pose proof (drain_over c false now (measure s1) br s1 C3) as Hp.
      pose proof (drain_dl_exist (Some c) false now br s1) as Hex.
      pose proof (drain_ext_nt (Some c) false now br s1) as Hnt.
      destruct (drain (Some c) false br now s1) as [[s2 p3] d3]. unfold dr_st, dr_dl in *; cbn [fst snd qlen] in *.
      rewrite app_nil_r. destruct Hp as [Hp|Hp].
      * pose proof (ext_wake_deferred now d3 s2) as [_ [_ He]]. unfold lc in *. lia.
      * rewrite <- Hnt in Hex. pose proof (wake_deferred_grows now d3 s2 Hp Hex). lia.
  - (* the LocalSet tick does not fit *)
    pose proof (drain_over c true now (measure s0) bl s0 C2) as Hp.
    pose proof (drain_dl_exist (Some c) true now bl s0) as Hex.
    pose proof (drain_ext_nt (Some c) true now bl s0) as Hnt.
    destruct (drain (Some c) true bl now s0) as [[s1 p2] dl2]. unfold dr_st, dr_dl in *; cbn [fst snd qlen] in *.
    pose proof (drain_rt_ll (Some c) now br s1) as Hl.
    pose proof (drain_dl_exist (Some c) false now br s1) as Hex3.
    pose proof (drain_ext_nt (Some c) false now br s1) as Hnt3.
    destruct (drain (Some c) false br now s1) as [[s2 p3] d3]. unfold dr_st, dr_dl in *; cbn [fst snd] in *.
    destruct Hp as [Hp|Hp].
    + pose proof (ext_wake_deferred now (d3 ++ dl2) s2) as [_ [He _]]. unfold ll in *. lia.
    + assert (Hne : d3 ++ dl2 <> []) by (intros H; apply app_eq_nil in H; destruct H as [_ H]; contradiction).
      assert (Hall : Forall (fun i => i < nt s2) (d3 ++ dl2)).
      { apply Forall_app. split; [rewrite Hnt3; exact Hex3|rewrite Hnt3, Hnt; exact Hex]. }
      pose proof (wake_deferred_grows now (d3 ++ dl2) s2 Hne Hall). lia.
Qed.

Theorem quiescent_iff_within_budget x : queue_after x = [] <-> ~ KnownClass x.
Proof.
  split.
  - intros Hq Hk. exact (over_budget_leaves_work x Hk Hq).
  - intros Hk. apply quiescent_if_within_budget. exact Hk.
Qed.
