(* Termination of the executor without budgets: every poll strictly decreases [measure]
   (twice the operations left, counting a yield double and the implicit return of every
   unfinished task, plus the queue lengths), so [measure] polls of fuel always empty the
   queue that is drained, and the ideal executor reaches quiescence. *)
From Coq Require Import List NArith Bool Arith Lia.
From DesVerif Require Import Exec.Model Exec.Basics.
Import ListNotations.
Local Open Scope nat_scope.

Lemma enqueue_measure ins now t s : measure (fst (enqueue ins now t s)) <= S (measure s).
Proof.
  unfold enqueue. destruct (get t s) as [tk|]; cbn [fst]; [|lia].
  rewrite measure_push, measure_upd_keep by reflexivity. lia.
Qed.

Lemma wake_measure ins now t s : measure (fst (wake ins now t s)) <= S (measure s).
Proof.
  unfold wake. etransitivity; [apply enqueue_measure|]. rewrite measure_upd_keep by reflexivity. lia.
Qed.

Lemma send_measure ins now t s : measure (fst (send ins now t s)) <= S (measure s).
Proof.
  unfold send. destruct (get t s) as [tk|]; cbn [fst]; [|lia].
  assert (E : measure (upd_task t (set_inbox (inbox tk + 1)) s) = measure s) by (apply measure_upd_keep; reflexivity).
  destruct (stat tk); cbn [fst]; try lia.
  etransitivity; [apply wake_measure|]. lia.
Qed.

Lemma finish_measure ins now i s c : code_of i s = Some c -> measure (fst (finish ins now i s)) + 1 <= measure s.
Proof.
  unfold code_of. destruct (get i s) as [ti|] eqn:E; [|discriminate]. intros Hc.
  pose proof (measure_upd_task i (fun t => set_stat Done (set_code None t)) s ti E) as H.
  rewrite (weight_some _ _ Hc) in H. rewrite (weight_none (set_stat Done (set_code None ti))) in H by reflexivity.
  unfold finish. rewrite E.
  set (s1 := upd_task i _ s) in *.
  assert (W : forall j, measure (fst (wake ins now j s1)) + 1 <= measure s)
    by (intros j; pose proof (wake_measure ins now j s1); lia).
  destruct (jh ti) as [| |j]; cbn [fst]; try lia.
  destruct (get j s) as [tj|]; cbn [fst]; try lia.
  destruct (stat tj) as [| | |i'|]; cbn [fst]; try lia.
  destruct (Nat.eqb i' i); cbn [fst]; [apply W|lia].
Qed.

Lemma shrink_measure i s o r : code_of i s = Some (o :: r) ->
  measure (upd_task i (set_code (Some r)) s) + opw o = measure s.
Proof.
  unfold code_of. destruct (get i s) as [ti|] eqn:E; [|discriminate]. intros Hc.
  pose proof (measure_upd_task i (set_code (Some r)) s ti E) as H.
  rewrite (weight_some _ _ Hc) in H. rewrite (weight_some (set_code (Some r) ti) r) in H by reflexivity.
  cbn [cw fold_right] in H. fold (cw r) in H. lia.
Qed.

Lemma opw_ge o : 2 <= opw o.
Proof. destruct o; cbn; lia. Qed.

Lemma step_op_measure m ins now i o r used out s :
  code_of i s = Some (o :: r) ->
  match step_op m ins now i o r used out s with
  | Cont s1 _ _ => measure s1 < measure s
  | Halt s1 _ => measure s1 <= measure s
  end.
Proof.
  intros Hc. pose proof (shrink_measure i s o r Hc) as Hsh. pose proof (opw_ge o) as Hw.
  unfold step_op. destruct o as [| |t|t| |].
  - rewrite measure_add_trace. lia.
  - destruct (get i s) as [ti|]; [|lia].
    destruct (exhausted m used); [lia|].
    destruct (0 <? inbox ti)%N.
    + rewrite measure_add_trace, measure_upd_keep by reflexivity. lia.
    + rewrite measure_upd_keep by reflexivity. lia.
  - destruct (send ins now t _) as [s1 o1] eqn:Es. rewrite measure_add_trace.
    pose proof (send_measure ins now t (upd_task i (set_code (Some r)) s)) as H. rewrite Es in H; cbn [fst] in H. lia.
  - destruct (get t s) as [tq|]; [|rewrite measure_add_trace; lia].
    destruct (match jh tq with JNone => false | JTable => true | JHeld j => Nat.eqb j i end);
      [|rewrite measure_add_trace; lia].
    destruct (exhausted m used); [rewrite measure_upd_keep by reflexivity; lia|].
    destruct (stat tq); try (rewrite !measure_upd_keep by reflexivity; lia).
    rewrite measure_add_trace, measure_upd_keep by reflexivity. lia.
  - assert (H : measure (upd_task i (set_code (Some (Log :: r))) s) + 2 = measure s).
    { unfold code_of in Hc. destruct (get i s) as [ti|] eqn:E; [|discriminate].
      pose proof (measure_upd_task i (set_code (Some (Log :: r))) s ti E) as H.
      rewrite (weight_some _ _ Hc) in H. rewrite (weight_some (set_code (Some (Log :: r)) ti) (Log :: r)) in H by reflexivity.
      cbn [cw fold_right opw] in H. fold (cw r) in H. lia. }
    destruct m.
    + lia.
    + destruct (enqueue ins now i _) as [s2 o2] eqn:Ee.
      pose proof (enqueue_measure ins now i (upd_task i (set_code (Some (Log :: r))) s)) as H2.
      rewrite Ee in H2; cbn [fst] in H2. lia.
  - destruct (finish ins now i _) as [s1 o1] eqn:Ef.
    pose proof (finish_measure ins now i (add_trace (ROp i now) s) (End :: r)) as H.
    rewrite Ef in H; cbn [fst] in H. rewrite measure_add_trace in H. specialize (H Hc). lia.
Qed.

Lemma interp_measure f m ins now i : forall used out s,
  measure (fst (interp f m ins now i used out s)) <= measure s.
Proof.
  induction f as [|f IH]; intros used out s; cbn [interp]; [cbn; lia|].
  destruct (code_of i s) as [[|o r]|] eqn:Hc; [| |cbn; lia].
  - destruct (finish ins now i s) as [s1 o1] eqn:Ef; cbn [fst].
    pose proof (finish_measure ins now i s [] Hc) as H. rewrite Ef in H; cbn [fst] in H. lia.
  - pose proof (step_op_measure m ins now i o r used out s Hc) as H.
    destruct (step_op m ins now i o r used out s) as [s1 u1 o1|s1 p]; cbn [fst]; [|lia].
    specialize (IH u1 o1 s1). lia.
Qed.

Lemma poll_task_measure m ins now i s : measure (fst (poll_task m ins now i s)) <= measure s.
Proof. unfold poll_task. etransitivity; [apply interp_measure|]. rewrite measure_add_trace. lia. Qed.

Definition dr_st (x : st * list pinfo * list nat) : st := fst (fst x).
Definition dr_ps (x : st * list pinfo * list nat) : list pinfo := snd (fst x).
Definition dr_dl (x : st * list pinfo * list nat) : list nat := snd x.

Lemma drain_measure m loc now : forall n s,
  measure (dr_st (drain m loc n now s)) + length (dr_ps (drain m loc n now s)) <= measure s.
Proof.
  induction n as [|n IH]; intros s; cbn [drain]; [cbn; lia|].
  destruct (pop loc s) as [[i s1]|] eqn:Ep; [|cbn; lia].
  pose proof (measure_pop _ _ _ _ Ep) as Hp.
  pose proof (poll_task_measure m loc now i s1) as Hq.
  destruct (poll_task m loc now i s1) as [s2 p]; cbn [fst] in Hq.
  specialize (IH s2). destruct (drain m loc n now s2) as [[s3 ps] dl].
  unfold dr_st, dr_ps in *; cbn [fst snd length] in *. lia.
Qed.

Lemma drain_polls_pos m loc now n s : 0 < n -> 0 < qlen loc s -> 0 < length (dr_ps (drain m loc n now s)).
Proof.
  intros Hn Hq. destruct n as [|n]; [lia|]. cbn [drain].
  destruct (pop loc s) as [[i s1]|] eqn:Ep.
  - destruct (poll_task m loc now i s1) as [s2 p]. destruct (drain m loc n now s2) as [[s3 ps] dl].
    unfold dr_ps; cbn [fst snd length]. lia.
  - apply pop_none in Ep. lia.
Qed.

(* fuel [measure s] empties the drained queue(s), in either mode *)
Lemma drain_sufficient m loc now : forall n s, measure s <= n -> qlen loc (dr_st (drain m loc n now s)) = 0.
Proof.
  induction n as [|n IH]; intros s Hn; cbn [drain].
  - unfold dr_st; cbn [fst]. pose proof (measure_queue loc s) as H. lia.
  - destruct (pop loc s) as [[i s1]|] eqn:Ep.
    + pose proof (measure_pop _ _ _ _ Ep) as Hp.
      pose proof (poll_task_measure m loc now i s1) as Hq.
      destruct (poll_task m loc now i s1) as [s2 p]; cbn [fst] in Hq.
      specialize (IH s2). destruct (drain m loc n now s2) as [[s3 ps] dl].
      unfold dr_st in *; cbn [fst] in *. apply IH. lia.
    + unfold dr_st; cbn [fst]. apply pop_none; assumption.
Qed.

Lemma drain_empty m loc n now s : qlen loc s = 0 -> drain m loc n now s = (s, [], []).
Proof. intros H. destruct n; cbn [drain]; [reflexivity|]. apply pop_none in H. rewrite H. reflexivity. Qed.

Definition ir_st (x : st * list pinfo * list pinfo) : st := fst (fst x).

Lemma ideal_round_spec now s :
  ideal_round now s =
  let d1 := drain None true (measure s) now s in
  let d2 := drain None false (measure (dr_st d1)) now (dr_st d1) in
  (dr_st d2, dr_ps d1, dr_ps d2).
Proof.
  unfold ideal_round. cbn zeta. destruct (drain None true (measure s) now s) as [[s1 p2] d2].
  unfold dr_st, dr_ps; cbn [fst snd].
  destruct (drain None false (measure s1) now s1) as [[s2 p3] d3]. reflexivity.
Qed.

Lemma ideal_round_measure now s : measure (ir_st (ideal_round now s)) <= measure s.
Proof.
  rewrite ideal_round_spec. cbn zeta. unfold ir_st; cbn [fst].
  pose proof (drain_measure None true now (measure s) s).
  pose proof (drain_measure None false now (measure (dr_st (drain None true (measure s) now s))) (dr_st (drain None true (measure s) now s))).
  lia.
Qed.

Lemma quiescent_iff s : quiescent s = true <-> qlen true s = 0 /\ qlen false s = 0.
Proof.
  unfold quiescent, qlen. destruct (lq s), (cq s), (inj s); cbn [length]; split; intros H; try discriminate; auto;
    destruct H; lia.
Qed.

Lemma quiescent_nil s : quiescent s = true <-> lq s = [] /\ cq s = [] /\ inj s = [].
Proof.
  unfold quiescent. destruct (lq s), (cq s), (inj s); split; intros H; try discriminate; auto;
    destruct H as [H1 [H2 H3]]; discriminate.
Qed.

(* a round that starts with something runnable polls at least once *)
Lemma ideal_round_progress now s : quiescent s = false -> measure (ir_st (ideal_round now s)) < measure s.
Proof.
  intros Hq. rewrite ideal_round_spec. cbn zeta. unfold ir_st; cbn [fst].
  set (d1 := drain None true (measure s) now s).
  pose proof (drain_measure None true now (measure s) s) as H1. fold d1 in H1.
  pose proof (drain_measure None false now (measure (dr_st d1)) (dr_st d1)) as H2.
  destruct (qlen true s) as [|k] eqn:El.
  - (* nothing local: the first drain does nothing, the second must poll *)
    assert (Ed : d1 = (s, [], [])) by (apply drain_empty; exact El).
    rewrite Ed in *. unfold dr_st in *; cbn [fst] in *.
    assert (Hc : 0 < qlen false s).
    { destruct (qlen false s) eqn:Ec; [|lia]. exfalso.
      assert (quiescent s = true) by (apply quiescent_iff; auto). congruence. }
    assert (0 < measure s) by (pose proof (measure_queue false s); lia).
    pose proof (drain_polls_pos None false now (measure s) s H Hc). lia.
  - assert (Hc : 0 < qlen true s) by lia.
    assert (0 < measure s) by (pose proof (measure_queue true s); lia).
    pose proof (drain_polls_pos None true now (measure s) s H Hc) as H3. fold d1 in H3. lia.
Qed.

(* the ideal executor never runs out of fuel and ends with nothing runnable *)
Lemma ideal_rounds_quiescent now : forall f s, measure s < f ->
  exists s', ideal_rounds f now s = Some s' /\ quiescent s' = true.
Proof.
  induction f as [|f IH]; intros s Hf; [lia|]. cbn [ideal_rounds].
  destruct (ideal_round now s) as [[s2 p2] p3] eqn:Er.
  destruct (quiescent s2) eqn:Eq; [exists s2; auto|].
  apply IH.
  destruct (quiescent s) eqn:Eqs.
  - (* nothing was runnable: the round changed nothing *)
    exfalso. apply quiescent_iff in Eqs. destruct Eqs as [El Ec].
    rewrite ideal_round_spec in Er. cbn zeta in Er.
    rewrite (drain_empty None true (measure s) now s El) in Er. unfold dr_st, dr_ps in Er; cbn [fst snd] in Er.
    rewrite (drain_empty None false (measure s) now s Ec) in Er. cbn [fst snd] in Er.
    inversion Er; subst s2.
    assert (quiescent s = true) by (apply quiescent_iff; auto). congruence.
  - pose proof (ideal_round_progress now s Eqs) as H. rewrite Er in H. unfold ir_st in H; cbn [fst] in H. lia.
Qed.

Theorem ideal_event_quiescent now acts s :
  exists s', ideal_event now acts s = Some s' /\ quiescent s' = true.
Proof. unfold ideal_event. apply ideal_rounds_quiescent. lia. Qed.
