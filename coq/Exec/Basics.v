(* Elementary facts about the state primitives of Exec/Model.v. *)
From Coq Require Import List NArith Bool Arith Lia.
From DesVerif Require Import Exec.Model.
Import ListNotations.
Local Open Scope nat_scope.

Lemma nth_error_upd {A} (f : A -> A) (l : list A) i j :
  nth_error (upd i f l) j = if Nat.eqb i j then option_map f (nth_error l j) else nth_error l j.
Proof.
  revert i j; induction l as [|x l IH]; intros i j.
  - destruct i, j; cbn; try reflexivity; destruct (Nat.eqb _ _); reflexivity.
  - destruct i as [|i], j as [|j]; cbn [upd nth_error Nat.eqb option_map]; try reflexivity. apply IH.
Qed.

Lemma upd_length {A} (f : A -> A) l i : length (upd i f l) = length l.
Proof. revert i; induction l as [|x l IH]; intros [|i]; cbn [upd length]; auto. Qed.

Lemma get_upd_task i f s j :
  get j (upd_task i f s) = if Nat.eqb i j then option_map f (get j s) else get j s.
Proof. unfold get, upd_task; cbn [tasks]. apply nth_error_upd. Qed.

Lemma get_upd_same i f s : get i (upd_task i f s) = option_map f (get i s).
Proof. rewrite get_upd_task, Nat.eqb_refl. reflexivity. Qed.

Lemma get_upd_other i f s j : i <> j -> get j (upd_task i f s) = get j s.
Proof. intros H. rewrite get_upd_task. destruct (Nat.eqb_spec i j); [contradiction|reflexivity]. Qed.

Lemma get_add_trace r s j : get j (add_trace r s) = get j s.
Proof. reflexivity. Qed.

Lemma get_push l i s j : get j (push l i s) = get j s.
Proof. unfold push; destruct l; reflexivity. Qed.

(* queues: the LocalSet's local queue, or the scheduler's two queues taken together *)
Definition qlen (loc : bool) (s : st) : nat := if loc then length (lq s) else length (cq s) + length (inj s).
Definition qin (loc : bool) (i : nat) (s : st) : Prop := if loc then In i (lq s) else In i (cq s) \/ In i (inj s).

Lemma qlen_upd_task l i f s : qlen l (upd_task i f s) = qlen l s.
Proof. destruct l; reflexivity. Qed.
Lemma qlen_add_trace l r s : qlen l (add_trace r s) = qlen l s.
Proof. destruct l; reflexivity. Qed.
Lemma qlen_push l k i s : qlen l (push k i s) = if Bool.eqb l k then S (qlen l s) else qlen l s.
Proof. destruct l, k; unfold push, qlen; cbn [lq cq inj set_lq set_cq Bool.eqb]; rewrite ?app_length; cbn [length]; lia. Qed.

Lemma pop_none l s : pop l s = None <-> qlen l s = 0.
Proof.
  unfold pop, qlen; destruct l.
  - destruct (lq s); split; intros H; try reflexivity; discriminate.
  - destruct (next_tick s mod gqi s =? 0)%N; destruct (cq s), (inj s); cbn [length]; split; intros H;
      try reflexivity; try discriminate.
Qed.

Lemma pop_some l s i s' : pop l s = Some (i, s') ->
  qlen l s = S (qlen l s') /\ qin l i s /\ (forall j, qin l j s' -> qin l j s) /\
  qlen (negb l) s' = qlen (negb l) s /\ (l = false -> lq s' = lq s) /\
  tasks s' = tasks s /\ trace s' = trace s /\ gqi s' = gqi s.
Proof.
  unfold pop, qlen, qin; destruct l; cbn [negb].
  - destruct (lq s) as [|x q] eqn:E; [discriminate|]. intros H; inversion H; subst; cbn.
    repeat split; auto. discriminate.
  - destruct (next_tick s mod gqi s =? 0)%N; destruct (cq s) as [|x q] eqn:Ec, (inj s) as [|y r] eqn:Ei;
      try discriminate; intros H; inversion H; subst; cbn; rewrite ?Ec, ?Ei; cbn;
      repeat split; auto; try lia; intros j Hj; tauto.
Qed.

Lemma get_pop l s i s' j : pop l s = Some (i, s') -> get j s' = get j s.
Proof. intros H. apply pop_some in H. unfold get. destruct H as [_ [_ [_ [_ [_ [H _]]]]]]. rewrite H. reflexivity. Qed.

(* the measure *)
Definition tw (ts : list task) : nat := fold_right (fun t a => weight t + a) 0 ts.
Definition cw (c : list op) : nat := fold_right (fun o a => opw o + a) 0 c.

Lemma measure_eq s : measure s = tw (tasks s) + length (lq s) + length (cq s) + length (inj s).
Proof. reflexivity. Qed.

Lemma weight_some t c : code t = Some c -> weight t = 2 + cw c.
Proof. unfold weight, cw; intros ->; reflexivity. Qed.
Lemma weight_none t : code t = None -> weight t = 0.
Proof. unfold weight; intros ->; reflexivity. Qed.

Lemma tw_upd f ts i t : nth_error ts i = Some t -> tw (upd i f ts) + weight t = tw ts + weight (f t).
Proof.
  revert i; induction ts as [|x ts IH]; intros [|i]; cbn [nth_error upd tw fold_right]; try discriminate.
  - intros H; inversion H; subst. lia.
  - intros H. specialize (IH _ H). unfold tw in IH. lia.
Qed.

Lemma upd_none {A} (f : A -> A) (l : list A) i : nth_error l i = None -> upd i f l = l.
Proof.
  revert i; induction l as [|x l IH]; intros [|i]; cbn [nth_error upd]; try reflexivity; try discriminate.
  intros H. rewrite IH by assumption. reflexivity.
Qed.

Lemma measure_upd_task i f s t : get i s = Some t ->
  measure (upd_task i f s) + weight t = measure s + weight (f t).
Proof.
  intros H. rewrite !measure_eq. unfold upd_task; cbn [tasks lq cq inj].
  pose proof (tw_upd f _ _ _ H). lia.
Qed.

Lemma measure_upd_none i f s : get i s = None -> upd_task i f s = s.
Proof.
  intros H. unfold upd_task. unfold get in H. rewrite (upd_none _ _ _ H). destruct s; reflexivity.
Qed.

(* updates that leave the code alone leave the measure alone *)
Lemma measure_upd_keep i f s : (forall t, code (f t) = code t) -> measure (upd_task i f s) = measure s.
Proof.
  intros Hf. destruct (get i s) as [t|] eqn:E.
  - pose proof (measure_upd_task i f s t E) as H.
    assert (weight (f t) = weight t) by (unfold weight; rewrite Hf; reflexivity). lia.
  - rewrite measure_upd_none by assumption. reflexivity.
Qed.

Lemma measure_add_trace r s : measure (add_trace r s) = measure s.
Proof. reflexivity. Qed.

Lemma measure_push l i s : measure (push l i s) = S (measure s).
Proof. rewrite !measure_eq. unfold push; destruct l; cbn [tasks lq cq inj set_lq set_cq]; rewrite app_length; cbn [length]; lia. Qed.

Lemma measure_pop l s i s' : pop l s = Some (i, s') -> measure s = S (measure s').
Proof.
  intros H. apply pop_some in H. destruct H as [H1 [_ [_ [H2 [_ [H3 _]]]]]].
  rewrite !measure_eq, H3. unfold qlen in *. destruct l; cbn [negb] in *; lia.
Qed.

Lemma measure_queue l s : qlen l s <= measure s.
Proof. rewrite measure_eq. destruct l; cbn [qlen]; lia. Qed.

(* code_of through the primitives *)
Lemma code_of_upd_keep i f s j : (forall t, code (f t) = code t) -> code_of j (upd_task i f s) = code_of j s.
Proof.
  intros Hf. unfold code_of. rewrite get_upd_task. destruct (Nat.eqb i j); [|reflexivity].
  destruct (get j s); cbn [option_map]; [apply Hf|reflexivity].
Qed.
