(* Shape of the trace: every operation record (task, time) directly follows the poll
   record of that task at that time or another operation record of the same poll.  So
   the time an operation observes is the time of the poll it runs in. *)
From Coq Require Import List NArith Bool Arith Lia.
From DesVerif Require Import Exec.Model Exec.Basics.
Import ListNotations.
Local Open Scope N_scope.

(* on the trace as stored: newest record first *)
Definition cur (tr : list trec) : option (nat * N) :=
  match tr with
  | ROp i t :: _ => Some (i, t)
  | RPoll i _ t :: _ => Some (i, t)
  | _ => None
  end.

Fixpoint ops_ok (tr : list trec) : Prop :=
  match tr with
  | [] => True
  | ROp i t :: r => cur r = Some (i, t) /\ ops_ok r
  | _ :: r => ops_ok r
  end.

Definition in_poll (i : nat) (now : N) (s : st) : Prop := ops_ok (trace s) /\ cur (trace s) = Some (i, now).

Lemma trace_push l i s : trace (push l i s) = trace s.
Proof. unfold push; destruct l; reflexivity. Qed.

Lemma trace_enqueue ins now t s : trace (fst (enqueue ins now t s)) = trace s.
Proof. unfold enqueue. destruct (get t s); cbn [fst]; [rewrite trace_push|]; reflexivity. Qed.

Lemma trace_wake ins now t s : trace (fst (wake ins now t s)) = trace s.
Proof. unfold wake. rewrite trace_enqueue. reflexivity. Qed.

Lemma trace_send ins now t s : trace (fst (send ins now t s)) = trace s.
Proof.
  unfold send. destruct (get t s) as [tk|]; cbn [fst]; [|reflexivity].
  destruct (stat tk); cbn [fst]; try reflexivity. rewrite trace_wake. reflexivity.
Qed.

Lemma trace_finish ins now i s : trace (fst (finish ins now i s)) = trace s.
Proof.
  unfold finish. destruct (get i s) as [ti|]; cbn [fst]; [|reflexivity].
  destruct (jh ti) as [| |j]; cbn [fst]; try reflexivity.
  destruct (get j s) as [tj|]; cbn [fst]; try reflexivity.
  destruct (stat tj) as [| | |i'|]; cbn [fst]; try reflexivity.
  destruct (Nat.eqb i' i); cbn [fst]; [rewrite trace_wake|]; reflexivity.
Qed.

Lemma in_poll_same i now s s' : trace s' = trace s -> in_poll i now s -> in_poll i now s'.
Proof. unfold in_poll. intros ->. auto. Qed.

Lemma in_poll_op i now s s' : trace s' = trace s -> in_poll i now s -> in_poll i now (add_trace (ROp i now) s').
Proof. unfold in_poll. cbn [add_trace trace ops_ok cur]. intros ->. intros [H1 H2]. auto. Qed.

Lemma in_poll_step_op m ins now i o r used out s : in_poll i now s ->
  match step_op m ins now i o r used out s with
  | Cont s1 _ _ => in_poll i now s1
  | Halt s1 _ => in_poll i now s1
  end.
Proof.
  intros H. unfold step_op. destruct o as [| |t|t| |].
  - apply (in_poll_op i now s); [reflexivity|exact H].
  - destruct (get i s) as [ti|]; [|exact H].
    destruct (exhausted m used); [exact H|]. destruct (0 <? inbox ti).
    + apply (in_poll_op i now s); [reflexivity|exact H].
    + eapply in_poll_same; [|exact H]. reflexivity.
  - pose proof (trace_send ins now t (upd_task i (set_code (Some r)) s)) as Ht.
    destruct (send ins now t _) as [s1 o1]; cbn [fst] in Ht. apply (in_poll_op i now s); [exact Ht|exact H].
  - destruct (get t s) as [tq|]; [|apply (in_poll_op i now s); [reflexivity|exact H]].
    destruct (match jh tq with JNone => false | JTable => true | JHeld j => Nat.eqb j i end);
      [|apply (in_poll_op i now s); [reflexivity|exact H]].
    destruct (exhausted m used); [eapply in_poll_same; [|exact H]; reflexivity|].
    destruct (stat tq); try (eapply in_poll_same; [|exact H]; reflexivity).
    apply (in_poll_op i now s); [reflexivity|exact H].
  - destruct m; [eapply in_poll_same; [|exact H]; reflexivity|].
    pose proof (trace_enqueue ins now i (upd_task i (set_code (Some (Log :: r))) s)) as Ht.
    destruct (enqueue ins now i _) as [s2 o2]; cbn [fst] in Ht. eapply in_poll_same; [exact Ht|exact H].
  - pose proof (trace_finish ins now i (add_trace (ROp i now) s)) as Ht.
    destruct (finish ins now i _) as [s1 o1]; cbn [fst] in Ht.
    eapply in_poll_same; [exact Ht|]. apply (in_poll_op i now s); [reflexivity|exact H].
Qed.

Lemma in_poll_interp f m ins now i : forall used out s, in_poll i now s -> in_poll i now (fst (interp f m ins now i used out s)).
Proof.
  induction f as [|f IH]; intros used out s H; cbn [interp]; [exact H|].
  destruct (code_of i s) as [[|o r]|]; [| |exact H].
  - pose proof (trace_finish ins now i s) as Ht. destruct (finish ins now i s) as [s1 o1]; cbn [fst] in *.
    eapply in_poll_same; eassumption.
  - pose proof (in_poll_step_op m ins now i o r used out s H) as Hs.
    destruct (step_op m ins now i o r used out s) as [s1 u1 o1|s1 p]; cbn [fst]; [apply IH|]; exact Hs.
Qed.

Lemma ops_ok_poll_task m ins now i s : ops_ok (trace s) -> ops_ok (trace (fst (poll_task m ins now i s))).
Proof.
  intros H. unfold poll_task.
  apply (in_poll_interp (S (code_len i s)) m ins now i 0 false (add_trace (RPoll i (wk_of i s) now) s)).
  split; [exact H|reflexivity].
Qed.

Lemma trace_pop loc s i s1 : pop loc s = Some (i, s1) -> trace s1 = trace s.
Proof. intros H. apply pop_some in H. apply H. Qed.

Lemma ops_ok_drain m loc now : forall n s, ops_ok (trace s) -> ops_ok (trace (fst (fst (drain m loc n now s)))).
Proof.
  induction n as [|n IH]; intros s H; cbn [drain]; [exact H|].
  destruct (pop loc s) as [[i s1]|] eqn:Ep; [|exact H].
  rewrite <- (trace_pop _ _ _ _ Ep) in H.
  pose proof (ops_ok_poll_task m loc now i s1 H) as H2.
  destruct (poll_task m loc now i s1) as [s2 p]; cbn [fst] in H2.
  specialize (IH s2 H2). destruct (drain m loc n now s2) as [[s3 ps] dl]. exact IH.
Qed.

Lemma trace_do_act now s a : trace (do_act now s a) = trace s.
Proof.
  destruct a as [t|t|r]; cbn [do_act].
  - destruct (get t s) as [tq|]; [|reflexivity]. destruct (stat tq); try reflexivity. rewrite trace_wake. reflexivity.
  - apply trace_send.
  - reflexivity.
Qed.

Lemma trace_handler now acts : forall s, trace (handler now acts s) = trace s.
Proof.
  unfold handler. induction acts as [|a acts IH]; intros s; cbn [fold_left]; [reflexivity|].
  rewrite IH. apply trace_do_act.
Qed.

Lemma trace_wake_deferred now dl : forall s, trace (wake_deferred now dl s) = trace s.
Proof.
  induction dl as [|i dl IH]; intros s; cbn [wake_deferred]; [reflexivity|]. rewrite IH. apply trace_enqueue.
Qed.

Lemma ops_ok_exec_event bl br c now acts s :
  ops_ok (trace s) -> ops_ok (trace (fst (fst (exec_event bl br c now acts s)))).
Proof.
  intros H. unfold exec_event. rewrite <- (trace_handler now acts s) in H.
  pose proof (ops_ok_drain (Some c) true now bl _ H) as H1.
  destruct (drain (Some c) true bl now (handler now acts s)) as [[s1 p2] d2]; cbn [fst] in H1.
  pose proof (ops_ok_drain (Some c) false now br _ H1) as H2.
  destruct (drain (Some c) false br now s1) as [[s2 p3] d3]; cbn [fst] in *.
  rewrite trace_wake_deferred. exact H2.
Qed.

Lemma trace_end_turn br p3 s : trace (end_turn br p3 s) = trace s.
Proof. unfold end_turn. destruct (length p3 <? br)%nat; reflexivity. Qed.

Lemma trace_send_outside now t s : trace (send_outside now t s) = trace s.
Proof.
  unfold send_outside. destruct (get t s) as [tk|]; [|reflexivity].
  destruct (stat tk); try reflexivity. destruct (local tk); [rewrite trace_push|]; reflexivity.
Qed.

Lemma trace_pre_hooks now pre : forall s, trace (pre_hooks now pre s) = trace s.
Proof.
  unfold pre_hooks. induction pre as [|a pre IH]; intros s; cbn [fold_left]; [reflexivity|].
  rewrite IH. destruct a; cbn [do_pre]; [reflexivity|apply trace_send_outside|reflexivity].
Qed.

Lemma ops_ok_run_exec b tag now acts s : ops_ok (trace s) -> ops_ok (trace (run_exec b tag now acts s)).
Proof.
  intros H. unfold run_exec.
  pose proof (ops_ok_exec_event (b_local b) (b_rt b) (b_coop b) now acts s H) as H1.
  destruct (exec_event _ _ _ _ _ _) as [[s1 p2] p3]; cbn [fst] in H1.
  unfold close; cbn [add_trace trace ops_ok]. rewrite trace_end_turn. exact H1.
Qed.

Lemma ops_ok_run_event b s e now k pre acts : ops_ok (trace s) -> ops_ok (trace (run_event b s e now k pre acts)).
Proof.
  intros H. unfold run_event. apply ops_ok_run_exec. rewrite trace_pre_hooks. exact H.
Qed.

Lemma ops_ok_run_start b s now acts : ops_ok (trace s) -> ops_ok (trace (run_start b s now acts)).
Proof. intros H. unfold run_start. apply ops_ok_run_exec. exact H. Qed.

Lemma ops_ok_do_shutdown b g ts now s : ops_ok (trace s) -> ops_ok (trace (do_shutdown b g ts now s)).
Proof.
  intros H. unfold do_shutdown.
  set (s0 := {| tasks := tasks (init g ts); lq := []; cq := []; inj := []; stick := 0; gqi := g; trace := RReset now :: trace s |}).
  pose proof (ops_ok_exec_event (b_local b) (b_rt b) (b_coop b) now [] s0 H) as H1.
  destruct (exec_event _ _ _ _ _ _) as [[s1 p2] p3]; cbn [fst] in H1. rewrite trace_end_turn. exact H1.
Qed.

Lemma ops_ok_after_exec b g ts now acts s : ops_ok (trace s) -> ops_ok (trace (fst (after_exec b g ts now acts s))).
Proof.
  intros H. unfold after_exec. destruct (shutdown_req now acts); cbn [fst]; [apply ops_ok_do_shutdown|]; exact H.
Qed.

Lemma ops_ok_catch_up b start sm t : ops_ok (trace (fst sm)) -> ops_ok (trace (fst (catch_up b start sm t))).
Proof.
  intros H. unfold catch_up. destruct (restart_due (snd sm) t); cbn [fst]; [apply ops_ok_run_start|]; exact H.
Qed.

Lemma ops_ok_step_event b g ts start sm e t k pre acts :
  ops_ok (trace (fst sm)) -> ops_ok (trace (fst (step_event b g ts start sm e t k pre acts))).
Proof.
  intros H. unfold step_event. pose proof (ops_ok_catch_up b start sm t H) as H1.
  destruct (snd (catch_up b start sm t)); [|exact H1].
  apply ops_ok_after_exec. apply ops_ok_run_event. exact H1.
Qed.

Lemma ops_ok_run_events b g ts start : forall evs sm e now,
  ops_ok (trace (fst sm)) -> ops_ok (trace (fst (fst (run_events b g ts start sm e now evs)))).
Proof.
  induction evs as [|[[[d k] pre] acts] evs IH]; intros sm e now H; cbn [run_events fst]; [exact H|].
  apply IH. apply ops_ok_step_event. exact H.
Qed.

Lemma ops_ok_run_end b s now : ops_ok (trace s) -> ops_ok (trace (run_end b s now)).
Proof.
  intros H. unfold run_end.
  pose proof (ops_ok_exec_event (b_local b) (b_rt b) (b_coop b) now [] s H) as H1.
  destruct (exec_event (b_local b) (b_rt b) (b_coop b) now [] s) as [[s1 p2] p3]; cbn [fst] in H1.
  rewrite <- (trace_end_turn (b_rt b) p3 s1) in H1.
  pose proof (ops_ok_exec_event (b_local b) (b_rt b) (b_coop b) now [] _ H1) as H2.
  destruct (exec_event (b_local b) (b_rt b) (b_coop b) now [] (end_turn (b_rt b) p3 s1)) as [[s2 q2] q3]; cbn [fst] in H2.
  unfold close; cbn [add_trace trace ops_ok]. rewrite trace_end_turn. exact H2.
Qed.

(* [run_model] lists the records oldest first; [rev] puts the newest first again *)
Theorem ops_within_their_poll b g ts start evs : ops_ok (rev (run_model b g ts start evs)).
Proof.
  unfold run_model.
  assert (Hb : ops_ok (trace (fst (boot b g ts start)))).
  { unfold boot. apply ops_ok_after_exec. apply ops_ok_run_start. exact I. }
  pose proof (ops_ok_run_events b g ts start evs _ O 0 Hb) as H.
  destruct (run_events b g ts start (boot b g ts start) 0 0 evs) as [sm now]; cbn [fst] in H.
  assert (H2 : ops_ok (trace (fst (last_restart b start sm now)))).
  { unfold last_restart. destruct (snd sm) as [|[r|]]; cbn [fst]; try exact H. apply ops_ok_run_start. exact H. }
  destruct (last_restart b start sm now) as [s now']; cbn [fst] in H2.
  rewrite rev_involutive. apply ops_ok_run_end. exact H2.
Qed.
