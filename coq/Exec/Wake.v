(* Wake records: every queued task carries the instant at which it was made runnable.
   Invariant of one Harness::exec at instant [now], started with empty queues: every
   queued task was made runnable at [now], hence every poll record (task, woken, now)
   has woken = now.  Across a run in which every event fits the budgets the queues are
   empty between events, so this holds for every poll of the run: code that follows an
   await runs in the instant that satisfied the await. *)
From Coq Require Import List NArith Bool Arith Lia.
From DesVerif Require Import Exec.Model Exec.Basics Exec.Measure Exec.Mode Exec.Budget.
Import ListNotations.
Local Open Scope N_scope.

Definition timely (r : trec) : Prop := match r with RPoll _ w n => w = n | _ => True end.
Definition polls_timely (tr : list trec) : Prop := Forall timely tr.

Definition qwk (now : N) (s : st) : Prop := forall j, In j (queues s) -> wk_of j s = now.
Definition inv (now : N) (s : st) : Prop := polls_timely (trace s) /\ qwk now s.

Lemma wk_of_upd_keep i f s j : (forall t, wk (f t) = wk t) -> wk_of j (upd_task i f s) = wk_of j s.
Proof.
  intros Hf. unfold wk_of. rewrite get_upd_task. destruct (Nat.eqb i j); [|reflexivity].
  destruct (get j s); cbn [option_map]; [apply Hf|reflexivity].
Qed.

Lemma inv_upd_keep now i f s : (forall t, wk (f t) = wk t) -> inv now s -> inv now (upd_task i f s).
Proof.
  intros Hf [Ht Hq]. split; [exact Ht|]. intros j Hj. rewrite wk_of_upd_keep by assumption. apply Hq. exact Hj.
Qed.

Lemma inv_add_trace now r s : timely r -> inv now s -> inv now (add_trace r s).
Proof. intros Hr [Ht Hq]. split; [constructor; assumption|exact Hq]. Qed.

Lemma queues_in j s : In j (queues s) <-> In j (lq s) \/ In j (cq s) \/ In j (inj s).
Proof. unfold queues. rewrite !in_app_iff. tauto. Qed.

(* task t gets the wake time [now] and joins some queue *)
Lemma inv_requeue now t s s' : inv now s ->
  trace s' = trace s -> (forall j, wk_of j s' = if Nat.eqb t j then now else wk_of j s) ->
  (forall j, In j (queues s') -> In j (queues s) \/ j = t) -> inv now s'.
Proof.
  intros [Ht Hq] Etr Hw Hin. split; [unfold polls_timely; rewrite Etr; exact Ht|].
  intros j Hj. rewrite Hw. destruct (Nat.eqb_spec t j); [reflexivity|].
  destruct (Hin j Hj) as [H|H]; [apply Hq; exact H|congruence].
Qed.

Lemma wk_of_set_wk now t s j : get t s <> None ->
  wk_of j (upd_task t (set_wk now) s) = if Nat.eqb t j then now else wk_of j s.
Proof.
  intros Hg. unfold wk_of. rewrite get_upd_task. destruct (Nat.eqb_spec t j); [|reflexivity].
  subst j. destruct (get t s); [reflexivity|contradiction].
Qed.

Lemma inv_enqueue ins now t s : inv now s -> inv now (fst (enqueue ins now t s)).
Proof.
  intros H. unfold enqueue. destruct (get t s) as [tk|] eqn:E; cbn [fst]; [|exact H].
  eapply inv_requeue; [exact H| | |].
  - unfold push; destruct (local tk); reflexivity.
  - intros j. unfold wk_of. rewrite get_push. fold (wk_of j (upd_task t (set_wk now) s)).
    apply wk_of_set_wk. rewrite E. discriminate.
  - intros j. rewrite !queues_in. unfold push; destruct (local tk); cbn [lq cq inj set_lq set_cq upd_task];
      rewrite ?in_app_iff; cbn [In]; intuition auto.
Qed.

Lemma inv_wake ins now t s : inv now s -> inv now (fst (wake ins now t s)).
Proof. intros H. unfold wake. apply inv_enqueue. apply inv_upd_keep; [reflexivity|exact H]. Qed.

Lemma inv_send ins now t s : inv now s -> inv now (fst (send ins now t s)).
Proof.
  intros H. unfold send. destruct (get t s) as [tk|]; cbn [fst]; [|exact H].
  assert (H1 : inv now (upd_task t (set_inbox (inbox tk + 1)) s)) by (apply inv_upd_keep; [reflexivity|exact H]).
  destruct (stat tk); cbn [fst]; try exact H1. apply inv_wake. exact H1.
Qed.

Lemma inv_finish ins now i s : inv now s -> inv now (fst (finish ins now i s)).
Proof.
  intros H. unfold finish.
  assert (H1 : inv now (upd_task i (fun t => set_stat Done (set_code None t)) s)) by (apply inv_upd_keep; [reflexivity|exact H]).
  destruct (get i s) as [ti|]; cbn [fst]; [|exact H1].
  destruct (jh ti) as [| |j]; cbn [fst]; try exact H1.
  destruct (get j s) as [tj|]; cbn [fst]; try exact H1.
  destruct (stat tj) as [| | |i'|]; cbn [fst]; try exact H1.
  destruct (Nat.eqb i' i); cbn [fst]; [apply inv_wake|]; exact H1.
Qed.

Lemma inv_step_op m ins now i o r used out s : inv now s ->
  match step_op m ins now i o r used out s with
  | Cont s1 _ _ => inv now s1
  | Halt s1 _ => inv now s1
  end.
Proof.
  intros H. unfold step_op.
  assert (Hsh : inv now (upd_task i (set_code (Some r)) s)) by (apply inv_upd_keep; [reflexivity|exact H]).
  destruct o as [| |t|t| |].
  - apply inv_add_trace; [exact I|exact Hsh].
  - destruct (get i s) as [ti|]; [|exact H].
    destruct (exhausted m used); [exact H|]. destruct (0 <? inbox ti).
    + apply inv_add_trace; [exact I|]. apply inv_upd_keep; [reflexivity|exact Hsh].
    + apply inv_upd_keep; [reflexivity|exact H].
  - pose proof (inv_send ins now t _ Hsh) as Hs. destruct (send ins now t _) as [s1 o1]; cbn [fst] in Hs.
    apply inv_add_trace; [exact I|exact Hs].
  - destruct (get t s) as [tq|]; [|apply inv_add_trace; [exact I|exact Hsh]].
    destruct (match jh tq with JNone => false | JTable => true | JHeld j => Nat.eqb j i end);
      [|apply inv_add_trace; [exact I|exact Hsh]].
    destruct (exhausted m used); [apply inv_upd_keep; [reflexivity|exact H]|].
    destruct (stat tq); try (apply inv_upd_keep; [reflexivity|]; apply inv_upd_keep; [reflexivity|exact H]).
    apply inv_add_trace; [exact I|]. apply inv_upd_keep; [reflexivity|exact Hsh].
  - assert (H1 : inv now (upd_task i (set_code (Some (Log :: r))) s)) by (apply inv_upd_keep; [reflexivity|exact H]).
    destruct m; [exact H1|].
    pose proof (inv_enqueue ins now i _ H1) as He. destruct (enqueue ins now i _) as [s2 o2]. exact He.
  - pose proof (inv_finish ins now i (add_trace (ROp i now) s)) as Hf.
    destruct (finish ins now i _) as [s1 o1]; cbn [fst] in Hf. apply Hf. apply inv_add_trace; [exact I|exact H].
Qed.

Lemma inv_interp f m ins now i : forall used out s, inv now s -> inv now (fst (interp f m ins now i used out s)).
Proof.
  induction f as [|f IH]; intros used out s H; cbn [interp]; [exact H|].
  destruct (code_of i s) as [[|o r]|]; [| |exact H].
  - pose proof (inv_finish ins now i s H) as Hf. destruct (finish ins now i s) as [s1 o1]. exact Hf.
  - pose proof (inv_step_op m ins now i o r used out s H) as Hs.
    destruct (step_op m ins now i o r used out s) as [s1 u1 o1|s1 p]; cbn [fst]; [apply IH|]; exact Hs.
Qed.

(* a task that was made runnable now is polled now *)
Lemma inv_poll_task m ins now i s : inv now s -> wk_of i s = now -> inv now (fst (poll_task m ins now i s)).
Proof.
  intros H Hw. unfold poll_task. apply inv_interp. apply inv_add_trace; [exact Hw|exact H].
Qed.

Lemma inv_pop now loc s i s1 : pop loc s = Some (i, s1) -> inv now s -> inv now s1 /\ wk_of i s = now /\ wk_of i s1 = now.
Proof.
  intros Ep [Ht Hq]. pose proof (pop_some _ _ _ _ Ep) as [_ [Hi [Hsub [_ [_ [Hts [Htr _]]]]]]].
  assert (Hw : forall j, wk_of j s1 = wk_of j s) by (intros j; unfold wk_of, get; rewrite Hts; reflexivity).
  assert (Hqi : forall j, qin loc j s -> In j (queues s)).
  { intros j Hj. apply queues_in. unfold qin in Hj. destruct loc; tauto. }
  assert (Hx : wk_of i s = now) by (apply Hq, Hqi, Hi).
  split; [|split; [exact Hx|rewrite Hw; exact Hx]].
  split; [unfold polls_timely; rewrite Htr; exact Ht|].
  intros j Hj. rewrite Hw. apply Hq. apply queues_in. apply queues_in in Hj.
  pose proof (pop_some _ _ _ _ Ep) as [_ [_ [_ [Hlen [Hlq _]]]]].
  destruct loc; cbn [qin negb] in *.
  - (* lq popped; cq and inj of s1 are those of s *)
    unfold pop in Ep. destruct (lq s) as [|x q] eqn:El; [discriminate|]. inversion Ep; subst. cbn [lq cq inj set_lq] in *.
    cbn [In]. tauto.
  - specialize (Hlq eq_refl). rewrite Hlq in Hj. destruct Hj as [Hj|Hj]; [tauto|].
    right. apply Hsub. exact Hj.
Qed.

Lemma inv_drain m loc now : forall n s, inv now s -> inv now (dr_st (drain m loc n now s)).
Proof.
  induction n as [|n IH]; intros s H; cbn [drain]; [exact H|].
  destruct (pop loc s) as [[i s1]|] eqn:Ep; [|exact H].
  destruct (inv_pop now loc s i s1 Ep H) as [H1 [_ Hw]].
  pose proof (inv_poll_task m loc now i s1 H1 Hw) as H2.
  destruct (poll_task m loc now i s1) as [s2 p]; cbn [fst] in H2.
  specialize (IH s2 H2). destruct (drain m loc n now s2) as [[s3 ps] dl]. exact IH.
Qed.

Lemma inv_do_act now s a : inv now s -> inv now (do_act now s a).
Proof.
  intros H. destruct a as [t|t]; cbn [do_act].
  - destruct (get t s) as [tq|]; [|exact H]. destruct (stat tq); try exact H.
    apply inv_wake. apply inv_upd_keep; [reflexivity|exact H].
  - apply inv_send. exact H.
Qed.

Lemma inv_handler now acts : forall s, inv now s -> inv now (handler now acts s).
Proof.
  unfold handler. induction acts as [|a acts IH]; intros s H; cbn [fold_left]; [exact H|].
  apply IH. apply inv_do_act. exact H.
Qed.

Lemma inv_wake_deferred now dl : forall s, inv now s -> inv now (wake_deferred now dl s).
Proof.
  induction dl as [|i dl IH]; intros s H; cbn [wake_deferred]; [exact H|]. apply IH. apply inv_enqueue. exact H.
Qed.

Definition ee_st (x : st * list pinfo * list pinfo) : st := fst (fst x).

(* one Harness::exec, whatever the budgets *)
Lemma inv_exec_event bl br c now acts s : inv now s -> inv now (ee_st (exec_event bl br c now acts s)).
Proof.
  intros H. unfold exec_event.
  pose proof (inv_drain (Some c) true now bl _ (inv_handler now acts s H)) as H1.
  destruct (drain (Some c) true bl now (handler now acts s)) as [[s1 p2] d2]. unfold dr_st in H1; cbn [fst] in H1.
  pose proof (inv_drain (Some c) false now br _ H1) as H2.
  destruct (drain (Some c) false br now s1) as [[s2 p3] d3]. unfold dr_st in H2; cbn [fst] in H2.
  unfold ee_st; cbn [fst]. apply inv_wake_deferred. exact H2.
Qed.

(* with empty queues the invariant holds for any instant *)
Lemma inv_quiescent now now' s : inv now s -> quiescent s = true -> inv now' s.
Proof.
  intros [Ht _] Hq. apply queues_nil in Hq. split; [exact Ht|]. intros j Hj. rewrite Hq in Hj. destruct Hj.
Qed.

Lemma quiescent_add_trace r s : quiescent (add_trace r s) = quiescent s.
Proof. reflexivity. Qed.

Lemma inv_bump now s : inv now s -> inv now (bump s).
Proof. intros H. exact H. Qed.

Lemma inv_end_turn now br p3 s : inv now s -> inv now (end_turn br p3 s).
Proof. intros H. unfold end_turn. destruct (length p3 <? br)%nat; [apply inv_bump|]; exact H. Qed.

Lemma quiescent_end_turn br p3 s : quiescent (end_turn br p3 s) = quiescent s.
Proof. unfold end_turn. destruct (length p3 <? br)%nat; reflexivity. Qed.

(* a processing element's hook wakes tasks at the event's instant *)
Lemma inv_send_outside now t s : inv now s -> inv now (send_outside now t s).
Proof.
  intros H. unfold send_outside. destruct (get t s) as [tk|] eqn:E; [|exact H].
  assert (H1 : inv now (upd_task t (set_inbox (inbox tk + 1)) s)) by (apply inv_upd_keep; [reflexivity|exact H]).
  destruct (stat tk); try exact H1.
  set (s1 := upd_task t (set_stat Queued) (upd_task t (set_inbox (inbox tk + 1)) s)).
  assert (H2 : inv now s1) by (apply inv_upd_keep; [reflexivity|exact H1]).
  assert (Hg : get t s1 <> None) by (unfold s1; rewrite !get_upd_same, E; discriminate).
  destruct (local tk).
  - eapply inv_requeue; [exact H2|reflexivity| |].
    + intros j. unfold wk_of. rewrite get_push. fold (wk_of j (upd_task t (set_wk now) s1)). apply wk_of_set_wk. exact Hg.
    + intros j. rewrite !queues_in. unfold push; cbn [lq cq inj set_lq upd_task]. rewrite in_app_iff; cbn [In]. intuition auto.
  - eapply inv_requeue; [exact H2|reflexivity| |].
    + intros j. apply (wk_of_set_wk now t s1 j Hg).
    + intros j. rewrite !queues_in. cbn [lq cq inj set_inj upd_task]. rewrite in_app_iff; cbn [In]. intuition auto.
Qed.

Lemma inv_pre_hooks now pre : forall s, inv now s -> inv now (pre_hooks now pre s).
Proof.
  unfold pre_hooks. induction pre as [|a pre IH]; intros s H; cbn [fold_left]; [exact H|].
  apply IH. destruct a as [t|t]; cbn [do_pre]; [exact H|apply inv_send_outside; exact H].
Qed.

Lemma inv_run_exec b tag now acts s : inv now s -> inv now (run_exec b tag now acts s).
Proof.
  intros H. unfold run_exec.
  pose proof (inv_exec_event (b_local b) (b_rt b) (b_coop b) now acts s H) as H1.
  destruct (exec_event _ _ _ _ _ _) as [[s1 p2] p3]. unfold ee_st in H1; cbn [fst] in H1.
  unfold close. apply inv_add_trace; [exact I|]. apply inv_end_turn. exact H1.
Qed.

(* ---- runs ---- *)
(* the state in which the exec of message event e starts: the record and the element's hooks *)
Definition ev_state (s : st) (e : nat) (now : N) (pre : list act) : st :=
  pre_hooks now pre (add_trace (REvent e now) s).
Definition ev_acts (consumed : bool) (acts : list act) : list act := if consumed then [] else acts.

(* every event of the run, executed from the state the bounded executor is in, fits *)
Fixpoint all_within (b : budgets) (s : st) (e : nat) (now : N) (evs : list mevent) : Prop :=
  match evs with
  | [] => True
  | (d, k, pre, acts) :: r =>
      ~ KnownClass {| e_b := b; e_now := now + d; e_acts := ev_acts k acts; e_st := ev_state s e (now + d) pre |} /\
      all_within b (run_event b s e (now + d) k pre acts) (S e) (now + d) r
  end.

Lemma run_exec_quiescent b tag now acts s :
  ~ KnownClass {| e_b := b; e_now := now; e_acts := acts; e_st := s |} -> quiescent (run_exec b tag now acts s) = true.
Proof.
  intros Hk. pose proof (quiescent_if_within_budget _ Hk) as [Hqa _].
  unfold queue_after, exec_bounded in Hqa; cbn [e_b e_now e_acts e_st] in Hqa.
  unfold run_exec. destruct (exec_event _ _ _ _ _ _) as [[s1 p2] p3]; cbn [fst] in Hqa.
  unfold close. rewrite quiescent_add_trace, quiescent_end_turn. apply queues_nil. exact Hqa.
Qed.

Lemma run_events_inv b : forall evs s e now,
  inv now s -> quiescent s = true -> all_within b s e now evs ->
  inv (snd (run_events b s e now evs)) (fst (run_events b s e now evs)) /\
  quiescent (fst (run_events b s e now evs)) = true.
Proof.
  induction evs as [|[[[d k] pre] acts] evs IH]; intros s e now Hi Hq Hw; cbn [run_events fst snd]; [auto|].
  destruct Hw as [Hk Hw].
  assert (Hi' : inv (now + d) (ev_state s e (now + d) pre)).
  { unfold ev_state. apply inv_pre_hooks. apply inv_add_trace; [exact I|]. eapply inv_quiescent; eassumption. }
  apply IH; [| |exact Hw].
  - unfold run_event. apply inv_run_exec. exact Hi'.
  - unfold run_event. apply run_exec_quiescent. exact Hk.
Qed.

Lemma run_end_inv b s now : inv now s -> polls_timely (trace (run_end b s now)).
Proof.
  intros H. unfold run_end.
  pose proof (inv_exec_event (b_local b) (b_rt b) (b_coop b) now [] s H) as H1.
  destruct (exec_event (b_local b) (b_rt b) (b_coop b) now [] s) as [[s1 p2] p3]. unfold ee_st in H1; cbn [fst] in H1.
  pose proof (inv_exec_event (b_local b) (b_rt b) (b_coop b) now [] _ (inv_end_turn now (b_rt b) p3 s1 H1)) as H2.
  destruct (exec_event (b_local b) (b_rt b) (b_coop b) now [] (end_turn (b_rt b) p3 s1)) as [[s2 q2] q3]. unfold ee_st in H2; cbn [fst] in H2.
  unfold close. constructor; [exact I|]. apply (inv_end_turn now (b_rt b) q3 s2 H2).
Qed.

(* a run: at_sim_start performing [start], then the message events, then the tear-down *)
Definition run_within (b : budgets) (g : N) (ts : list (bool * list op)) (start : list act) (evs : list mevent) : Prop :=
  ~ KnownClass {| e_b := b; e_now := 0; e_acts := start; e_st := add_trace (RStart 0) (init g ts) |} /\
  all_within b (run_start b (init g ts) start) O 0 evs.

Theorem await_observes_enabling_instant b g ts start evs :
  run_within b g ts start evs -> polls_timely (run_model b g ts start evs).
Proof.
  intros [Hk Hw]. unfold run_model.
  assert (Hi : inv 0 (add_trace (RStart 0) (init g ts))).
  { apply inv_add_trace; [exact I|]. split; [constructor|]. intros j Hj. destruct Hj. }
  pose proof (run_events_inv b evs (run_start b (init g ts) start) O 0
                (inv_run_exec b 4 0 start _ Hi) (run_exec_quiescent b 4 0 start _ Hk) Hw) as [H _].
  destruct (run_events b (run_start b (init g ts) start) 0 0 evs) as [s now]; cbn [fst snd] in H.
  unfold polls_timely. apply Forall_rev. apply run_end_inv. exact H.
Qed.

(* independently of any budget: an exec that starts with empty queues polls only tasks
   made runnable in that same exec *)
Theorem exec_from_quiescent_timely bl br c now now0 acts s :
  inv now0 s -> quiescent s = true -> polls_timely (trace (ee_st (exec_event bl br c now acts s))).
Proof.
  intros Hi Hq. apply (inv_exec_event bl br c now acts s). eapply inv_quiescent; eassumption.
Qed.

(* ... and so does an exec that starts with only tasks woken by the element hooks of the
   same event (the consumed-message path: hooks, then exec of an empty callback) *)
Theorem consumed_event_timely bl br c now now0 pre s :
  inv now0 s -> quiescent s = true ->
  polls_timely (trace (ee_st (exec_event bl br c now [] (pre_hooks now pre s)))).
Proof.
  intros Hi Hq. apply (inv_exec_event bl br c now [] _). apply inv_pre_hooks. eapply inv_quiescent; eassumption.
Qed.
