(* Wake records: every queued task carries the instant at which it was made runnable.
   Invariant of one Harness::exec at instant [now], started with empty queues: every
   queued task was made runnable at [now], hence every poll record (task, woken, now)
   has woken = now.  Across a run in which every event fits the budgets the queues are
   empty between events, so this holds for every poll of the run: code that follows an
   await runs in the instant that satisfied the await. *)
From Coq Require Import List NArith Bool Arith Lia.
From DesVerif Require Import Exec.Model Exec.Basics Exec.Measure Exec.Mode Exec.Budget.
Import ListNotations.
Local Open Scope N_scope.

Definition timely (r : trec) : Prop := match r with RPoll _ w n => w = n | _ => True end.
Definition polls_timely (tr : list trec) : Prop := Forall timely tr.

Definition qwk (now : N) (s : st) : Prop := forall j, In j (queues s) -> wk_of j s = now.
Definition inv (now : N) (s : st) : Prop := polls_timely (trace s) /\ qwk now s.

Lemma wk_of_upd_keep i f s j : (forall t, wk (f t) = wk t) -> wk_of j (upd_task i f s) = wk_of j s.
Proof.
  intros Hf. unfold wk_of. rewrite get_upd_task. destruct (Nat.eqb i j); [|reflexivity].
  destruct (get j s); cbn [option_map]; [apply Hf|reflexivity].
Qed.

Lemma inv_upd_keep now i f s : (forall t, wk (f t) = wk t) -> inv now s -> inv now (upd_task i f s).
Proof.
  intros Hf [Ht Hq]. split; [exact Ht|]. intros j Hj. rewrite wk_of_upd_keep by assumption. apply Hq. exact Hj.
Qed.

Lemma inv_add_trace now r s : timely r -> inv now s -> inv now (add_trace r s).
Proof. intros Hr [Ht Hq]. split; [constructor; assumption|exact Hq]. Qed.

Lemma queues_in j s : In j (queues s) <-> In j (lq s) \/ In j (cq s) \/ In j (inj s).
Proof. unfold queues. rewrite !in_app_iff. tauto. Qed.

(* task t gets the wake time [now] and joins some queue *)
Lemma inv_requeue now t s s' : inv now s ->
  trace s' = trace s -> (forall j, wk_of j s' = if Nat.eqb t j then now else wk_of j s) ->
  (forall j, In j (queues s') -> In j (queues s) \/ j = t) -> inv now s'.
Proof.
  intros [Ht Hq] Etr Hw Hin. split; [unfold polls_timely; rewrite Etr; exact Ht|].
  intros j Hj. rewrite Hw. destruct (Nat.eqb_spec t j); [reflexivity|].
  destruct (Hin j Hj) as [H|H]; [apply Hq; exact H|congruence].
Qed.

Lemma wk_of_set_wk now t s j : get t s <> None ->
  wk_of j (upd_task t (set_wk now) s) = if Nat.eqb t j then now else wk_of j s.
Proof.
  intros Hg. unfold wk_of. rewrite get_upd_task. destruct (Nat.eqb_spec t j); [|reflexivity].
  subst j. destruct (get t s); [reflexivity|contradiction].
Qed.

Lemma inv_enqueue ins now t s : inv now s -> inv now (fst (enqueue ins now t s)).
Proof.
  intros H. unfold enqueue. destruct (get t s) as [tk|] eqn:E; cbn [fst]; [|exact H].
  eapply inv_requeue; [exact H| | |].
  - unfold push; destruct (local tk); reflexivity.
  - intros j. unfold wk_of. rewrite get_push. fold (wk_of j (upd_task t (set_wk now) s)).
    apply wk_of_set_wk. rewrite E. discriminate.
  - intros j. rewrite !queues_in. unfold push; destruct (local tk); cbn [lq cq inj set_lq set_cq upd_task];
      rewrite ?in_app_iff; cbn [In]; intuition auto.
Qed.

Lemma inv_wake ins now t s : inv now s -> inv now (fst (wake ins now t s)).
Proof. intros H. unfold wake. apply inv_enqueue. apply inv_upd_keep; [reflexivity|exact H]. Qed.

Lemma inv_send ins now t s : inv now s -> inv now (fst (send ins now t s)).
Proof.
  intros H. unfold send. destruct (get t s) as [tk|]; cbn [fst]; [|exact H].
  assert (H1 : inv now (upd_task t (set_inbox (inbox tk + 1)) s)) by (apply inv_upd_keep; [reflexivity|exact H]).
  destruct (stat tk); cbn [fst]; try exact H1. apply inv_wake. exact H1.
Qed.

Lemma inv_finish ins now i s : inv now s -> inv now (fst (finish ins now i s)).
Proof.
  intros H. unfold finish.
  assert (H1 : inv now (upd_task i (fun t => set_stat Done (set_code None t)) s)) by (apply inv_upd_keep; [reflexivity|exact H]).
  destruct (get i s) as [ti|]; cbn [fst]; [|exact H1].
  destruct (jh ti) as [| |j]; cbn [fst]; try exact H1.
  destruct (get j s) as [tj|]; cbn [fst]; try exact H1.
  destruct (stat tj) as [| | |i'|]; cbn [fst]; try exact H1.
  destruct (Nat.eqb i' i); cbn [fst]; [apply inv_wake|]; exact H1.
Qed.

Lemma inv_step_op m ins now i o r used out s : inv now s ->
  match step_op m ins now i o r used out s with
  | Cont s1 _ _ => inv now s1
  | Halt s1 _ => inv now s1
  end.
Proof.
  intros H. unfold step_op.
  assert (Hsh : inv now (upd_task i (set_code (Some r)) s)) by (apply inv_upd_keep; [reflexivity|exact H]).
  destruct o as [| |t|t| |].
  - apply inv_add_trace; [exact I|exact Hsh].
  - destruct (get i s) as [ti|]; [|exact H].
    destruct (exhausted m used); [exact H|]. destruct (0 <? inbox ti).
    + apply inv_add_trace; [exact I|]. apply inv_upd_keep; [reflexivity|exact Hsh].
    + apply inv_upd_keep; [reflexivity|exact H].
  - pose proof (inv_send ins now t _ Hsh) as Hs. destruct (send ins now t _) as [s1 o1]; cbn [fst] in Hs.
    apply inv_add_trace; [exact I|exact Hs].
  - destruct (get t s) as [tq|]; [|apply inv_add_trace; [exact I|exact Hsh]].
    destruct (match jh tq with JNone => false | JTable => true | JHeld j => Nat.eqb j i end);
      [|apply inv_add_trace; [exact I|exact Hsh]].
    destruct (exhausted m used); [apply inv_upd_keep; [reflexivity|exact H]|].
    destruct (stat tq); try (apply inv_upd_keep; [reflexivity|]; apply inv_upd_keep; [reflexivity|exact H]).
    apply inv_add_trace; [exact I|]. apply inv_upd_keep; [reflexivity|exact Hsh].
  - assert (H1 : inv now (upd_task i (set_code (Some (Log :: r))) s)) by (apply inv_upd_keep; [reflexivity|exact H]).
    destruct m; [exact H1|].
    pose proof (inv_enqueue ins now i _ H1) as He. destruct (enqueue ins now i _) as [s2 o2]. exact He.
  - pose proof (inv_finish ins now i (add_trace (ROp i now) s)) as Hf.
    destruct (finish ins now i _) as [s1 o1]; cbn [fst] in Hf. apply Hf. apply inv_add_trace; [exact I|exact H].
Qed.

Lemma inv_interp f m ins now i : forall used out s, inv now s -> inv now (fst (interp f m ins now i used out s)).
Proof.
  induction f as [|f IH]; intros used out s H; cbn [interp]; [exact H|].
  destruct (code_of i s) as [[|o r]|]; [| |exact H].
  - pose proof (inv_finish ins now i s H) as Hf. destruct (finish ins now i s) as [s1 o1]. exact Hf.
  - pose proof (inv_step_op m ins now i o r used out s H) as Hs.
    destruct (step_op m ins now i o r used out s) as [s1 u1 o1|s1 p]; cbn [fst]; [apply IH|]; exact Hs.
Qed.

(* a task that was made runnable now is polled now *)
Lemma inv_poll_task m ins now i s : inv now s -> wk_of i s = now -> inv now (fst (poll_task m ins now i s)).
Proof.
  intros H Hw. unfold poll_task. apply inv_interp. apply inv_add_trace; [exact Hw|exact H].
Qed.

Lemma inv_pop now loc s i s1 : pop loc s = Some (i, s1) -> inv now s -> inv now s1 /\ wk_of i s = now /\ wk_of i s1 = now.
Proof.
  intros Ep [Ht Hq]. pose proof (pop_some _ _ _ _ Ep) as [_ [Hi [Hsub [_ [_ [Hts [Htr _]]]]]]].
  assert (Hw : forall j, wk_of j s1 = wk_of j s) by (intros j; unfold wk_of, get; rewrite Hts; reflexivity).
  assert (Hqi : forall j, qin loc j s -> In j (queues s)).
  { intros j Hj. apply queues_in. unfold qin in Hj. destruct loc; tauto. }
  assert (Hx : wk_of i s = now) by (apply Hq, Hqi, Hi).
  split; [|split; [exact Hx|rewrite Hw; exact Hx]].
  split; [unfold polls_timely; rewrite Htr; exact Ht|].
  intros j Hj. rewrite Hw. apply Hq. apply queues_in. apply queues_in in Hj.
  pose proof (pop_some _ _ _ _ Ep) as [_ [_ [_ [Hlen [Hlq _]]]]].
  destruct loc; cbn [qin negb] in *.
  - (* lq popped; cq and inj of s1 are those of s *)
    unfold pop in Ep. destruct (lq s) as [|x q] eqn:El; [discriminate|]. inversion Ep; subst. cbn [lq cq inj set_lq] in *.
    cbn [In]. tauto.
  - specialize (Hlq eq_refl). rewrite Hlq in Hj. destruct Hj as [Hj|Hj]; [tauto|].
    right. apply Hsub. exact Hj.
Qed.

Lemma inv_drain m loc now : forall n s, inv now s -> inv now (dr_st (drain m loc n now s)).
Proof.
  induction n as [|n IH]; intros s H; cbn [drain]; [exact H|].
  destruct (pop loc s) as [[i s1]|] eqn:Ep; [|exact H].
  destruct (inv_pop now loc s i s1 Ep H) as [H1 [_ Hw]].
  pose proof (inv_poll_task m loc now i s1 H1 Hw) as H2.
  destruct (poll_task m loc now i s1) as [s2 p]; cbn [fst] in H2.
  specialize (IH s2 H2). destruct (drain m loc n now s2) as [[s3 ps] dl]. exact IH.
Qed.

Lemma inv_do_act now s a : inv now s -> inv now (do_act now s a).
Proof.
  intros H. destruct a as [t|t|r]; cbn [do_act].
  - destruct (get t s) as [tq|]; [|exact H]. destruct (stat tq); try exact H.
    apply inv_wake. apply inv_upd_keep; [reflexivity|exact H].
  - apply inv_send. exact H.
  - exact H.
Qed.

Lemma inv_handler now acts : forall s, inv now s -> inv now (handler now acts s).
Proof.
  unfold handler. induction acts as [|a acts IH]; intros s H; cbn [fold_left]; [exact H|].
  apply IH. apply inv_do_act. exact H.
Qed.

Lemma inv_wake_deferred now dl : forall s, inv now s -> inv now (wake_deferred now dl s).
Proof.
  induction dl as [|i dl IH]; intros s H; cbn [wake_deferred]; [exact H|]. apply IH. apply inv_enqueue. exact H.
Qed.

Definition ee_st (x : st * list pinfo * list pinfo) : st := fst (fst x).

(* one Harness::exec, whatever the budgets *)
Lemma inv_exec_event bl br c now acts s : inv now s -> inv now (ee_st (exec_event bl br c now acts s)).
Proof.
  intros H. unfold exec_event.
  pose proof (inv_drain (Some c) true now bl _ (inv_handler now acts s H)) as H1.
  destruct (drain (Some c) true bl now (handler now acts s)) as [[s1 p2] d2]. unfold dr_st in H1; cbn [fst] in H1.
  pose proof (inv_drain (Some c) false now br _ H1) as H2.
  destruct (drain (Some c) false br now s1) as [[s2 p3] d3]. unfold dr_st in H2; cbn [fst] in H2.
  unfold ee_st; cbn [fst]. apply inv_wake_deferred. exact H2.
Qed.

(* with empty queues the invariant holds for any instant *)
Lemma inv_quiescent now now' s : inv now s -> quiescent s = true -> inv now' s.
Proof.
  intros [Ht _] Hq. apply queues_nil in Hq. split; [exact Ht|]. intros j Hj. rewrite Hq in Hj. destruct Hj.
Qed.

Lemma quiescent_add_trace r s : quiescent (add_trace r s) = quiescent s.
Proof. reflexivity. Qed.

Lemma inv_bump now s : inv now s -> inv now (bump s).
Proof. intros H. exact H. Qed.

Lemma inv_end_turn now br p3 s : inv now s -> inv now (end_turn br p3 s).
Proof. intros H. unfold end_turn. destruct (length p3 <? br)%nat; [apply inv_bump|]; exact H. Qed.

Lemma trace_end_turn_w br p3 s : trace (end_turn br p3 s) = trace s.
Proof. unfold end_turn. destruct (length p3 <? br)%nat; reflexivity. Qed.

Lemma quiescent_end_turn br p3 s : quiescent (end_turn br p3 s) = quiescent s.
Proof. unfold end_turn. destruct (length p3 <? br)%nat; reflexivity. Qed.

(* a processing element's hook wakes tasks at the event's instant *)
Lemma inv_send_outside now t s : inv now s -> inv now (send_outside now t s).
Proof.
  intros H. unfold send_outside. destruct (get t s) as [tk|] eqn:E; [|exact H].
  assert (H1 : inv now (upd_task t (set_inbox (inbox tk + 1)) s)) by (apply inv_upd_keep; [reflexivity|exact H]).
  destruct (stat tk); try exact H1.
  set (s1 := upd_task t (set_stat Queued) (upd_task t (set_inbox (inbox tk + 1)) s)).
  assert (H2 : inv now s1) by (apply inv_upd_keep; [reflexivity|exact H1]).
  assert (Hg : get t s1 <> None) by (unfold s1; rewrite !get_upd_same, E; discriminate).
  destruct (local tk).
  - eapply inv_requeue; [exact H2|reflexivity| |].
    + intros j. unfold wk_of. rewrite get_push. fold (wk_of j (upd_task t (set_wk now) s1)). apply wk_of_set_wk. exact Hg.
    + intros j. rewrite !queues_in. unfold push; cbn [lq cq inj set_lq upd_task]. rewrite in_app_iff; cbn [In]. intuition auto.
  - eapply inv_requeue; [exact H2|reflexivity| |].
    + intros j. apply (wk_of_set_wk now t s1 j Hg).
    + intros j. rewrite !queues_in. cbn [lq cq inj set_inj upd_task]. rewrite in_app_iff; cbn [In]. intuition auto.
Qed.

Lemma inv_pre_hooks now pre : forall s, inv now s -> inv now (pre_hooks now pre s).
Proof.
  unfold pre_hooks. induction pre as [|a pre IH]; intros s H; cbn [fold_left]; [exact H|].
  apply IH. destruct a as [t|t|r]; cbn [do_pre]; [exact H|apply inv_send_outside; exact H|exact H].
Qed.

Lemma inv_run_exec b tag now acts s : inv now s -> inv now (run_exec b tag now acts s).
Proof.
  intros H. unfold run_exec.
  pose proof (inv_exec_event (b_local b) (b_rt b) (b_coop b) now acts s H) as H1.
  destruct (exec_event _ _ _ _ _ _) as [[s1 p2] p3]. unfold ee_st in H1; cbn [fst] in H1.
  unfold close. apply inv_add_trace; [exact I|]. apply inv_end_turn. exact H1.
Qed.

(* ---- runs ---- *)
(* the state in which the exec of message event e starts: the record and the element's hooks *)
Definition ev_state (s : st) (e : nat) (now : N) (pre : list act) : st :=
  pre_hooks now pre (add_trace (REvent e now) s).

Definition fits_exec (b : budgets) (now : N) (acts : list act) (s : st) : Prop :=
  ~ KnownClass {| e_b := b; e_now := now; e_acts := acts; e_st := s |}.

Lemma run_exec_quiescent b tag now acts s : fits_exec b now acts s -> quiescent (run_exec b tag now acts s) = true.
Proof.
  intros Hk. pose proof (quiescent_if_within_budget _ Hk) as [Hqa _].
  unfold queue_after, exec_bounded in Hqa; cbn [e_b e_now e_acts e_st] in Hqa.
  unfold run_exec. destruct (exec_event _ _ _ _ _ _) as [[s1 p2] p3]; cbn [fst] in Hqa.
  unfold close. rewrite quiescent_add_trace, quiescent_end_turn. apply queues_nil. exact Hqa.
Qed.

(* the invariant between events: all polls so far were timely, nothing is queued *)
Definition calm (s : st) : Prop := polls_timely (trace s) /\ quiescent s = true.

Lemma calm_inv now s : calm s -> inv now s.
Proof.
  intros [Ht Hq]. apply queues_nil in Hq. split; [exact Ht|]. intros j Hj. rewrite Hq in Hj. destruct Hj.
Qed.

Lemma calm_run_exec b tag now acts s : inv now s -> fits_exec b now acts s -> calm (run_exec b tag now acts s).
Proof.
  intros Hi Hk. split; [apply (inv_run_exec b tag now acts s Hi)|apply run_exec_quiescent; exact Hk].
Qed.

Lemma calm_run_start b s now acts : calm s -> fits_exec b now acts (add_trace (RStart now) s) ->
  calm (run_start b s now acts).
Proof.
  intros Hc Hk. unfold run_start. apply calm_run_exec; [|exact Hk].
  apply inv_add_trace; [exact I|apply calm_inv; exact Hc].
Qed.

(* a shutdown leaves a fresh runtime: nothing queued, whatever was queued before *)
Lemma calm_do_shutdown b g ts now s : polls_timely (trace s) -> calm (do_shutdown b g ts now s).
Proof.
  intros Ht. unfold do_shutdown.
  set (s0 := {| tasks := tasks (init g ts); lq := []; cq := []; inj := []; stick := 0; gqi := g; trace := RReset now :: trace s |}).
  assert (Hi : inv now s0) by (split; [constructor; [exact I|exact Ht]|intros j Hj; destruct Hj]).
  assert (Hq : forall j, qin true j s0 \/ qin false j s0 -> False) by (intros j [H|[H|H]]; destruct H).
  pose proof (inv_exec_event (b_local b) (b_rt b) (b_coop b) now [] s0 Hi) as H1.
  unfold exec_event in *. cbn [handler fold_left] in *.
  rewrite (drain_empty (Some (b_coop b)) true (b_local b) now s0 eq_refl) in *.
  rewrite (drain_empty (Some (b_coop b)) false (b_rt b) now s0 eq_refl) in *.
  cbn [app wake_deferred] in *. unfold ee_st in H1; cbn [fst] in H1.
  split; [rewrite trace_end_turn_w; apply H1|rewrite quiescent_end_turn; reflexivity].
Qed.

(* every exec of the run, from the state the bounded executor is in, fits the budgets *)
Definition within_catch_up (b : budgets) (start : list act) (sm : st * mode) (t : N) : Prop :=
  match restart_due (snd sm) t with
  | Some r => fits_exec b r (no_shutdown start) (add_trace (RStart r) (fst sm))
  | None => True
  end.

Definition within_step (b : budgets) (start : list act) (sm : st * mode) (e : nat) (t : N) (k : bool) (pre acts : list act) : Prop :=
  within_catch_up b start sm t /\
  let sm' := catch_up b start sm t in
  match snd sm' with
  | Up => fits_exec b t (ev_acts k acts) (ev_state (fst sm') e t pre)
  | Down _ => True
  end.

Fixpoint all_within (b : budgets) (g : N) (ts : list (bool * list op)) (start : list act)
                    (sm : st * mode) (e : nat) (now : N) (evs : list mevent) : Prop :=
  match evs with
  | [] => match snd sm with
          | Down (Some r) => fits_exec b r (no_shutdown start) (add_trace (RStart r) (fst sm))
          | _ => True
          end
  | (d, k, pre, acts) :: r =>
      within_step b start sm e (now + d) k pre acts /\
      all_within b g ts start (step_event b g ts start sm e (now + d) k pre acts) (S e) (now + d) r
  end.

Lemma calm_after_exec b g ts now acts s : calm s -> calm (fst (after_exec b g ts now acts s)).
Proof.
  intros Hc. unfold after_exec. destruct (shutdown_req now acts) as [r|]; cbn [fst]; [|exact Hc].
  apply calm_do_shutdown. apply Hc.
Qed.

Lemma calm_catch_up b start sm t : calm (fst sm) -> within_catch_up b start sm t -> calm (fst (catch_up b start sm t)).
Proof.
  intros Hc Hw. unfold catch_up, within_catch_up in *. destruct (restart_due (snd sm) t) as [r|]; cbn [fst]; [|exact Hc].
  apply calm_run_start; assumption.
Qed.

Lemma calm_step_event b g ts start sm e t k pre acts :
  calm (fst sm) -> within_step b start sm e t k pre acts -> calm (fst (step_event b g ts start sm e t k pre acts)).
Proof.
  intros Hc [Hw1 Hw2]. unfold step_event. cbn zeta in Hw2.
  pose proof (calm_catch_up b start sm t Hc Hw1) as Hc'.
  destruct (snd (catch_up b start sm t)); [|exact Hc'].
  apply calm_after_exec. unfold run_event. apply calm_run_exec; [|exact Hw2].
  apply inv_pre_hooks. apply inv_add_trace; [exact I|apply calm_inv; exact Hc'].
Qed.

Lemma run_events_calm b g ts start : forall evs sm e now,
  calm (fst sm) -> all_within b g ts start sm e now evs ->
  let r := run_events b g ts start sm e now evs in
  calm (fst (last_restart b start (fst r) (snd r))).
Proof.
  induction evs as [|[[[d k] pre] acts] evs IH]; intros sm e now Hc Hw; cbn [run_events all_within] in *.
  - cbn zeta. cbn [fst snd]. unfold last_restart. destruct (snd sm) as [|[r|]]; cbn [fst]; try exact Hc.
    apply calm_run_start; assumption.
  - destruct Hw as [Hs Hw]. apply IH; [|exact Hw]. apply calm_step_event; assumption.
Qed.

Lemma run_end_inv b s now : inv now s -> polls_timely (trace (run_end b s now)).
Proof.
  intros H. unfold run_end.
  pose proof (inv_exec_event (b_local b) (b_rt b) (b_coop b) now [] s H) as H1.
  destruct (exec_event (b_local b) (b_rt b) (b_coop b) now [] s) as [[s1 p2] p3]. unfold ee_st in H1; cbn [fst] in H1.
  pose proof (inv_exec_event (b_local b) (b_rt b) (b_coop b) now [] _ (inv_end_turn now (b_rt b) p3 s1 H1)) as H2.
  destruct (exec_event (b_local b) (b_rt b) (b_coop b) now [] (end_turn (b_rt b) p3 s1)) as [[s2 q2] q3]. unfold ee_st in H2; cbn [fst] in H2.
  unfold close. constructor; [exact I|]. apply (inv_end_turn now (b_rt b) q3 s2 H2).
Qed.

(* a run: at_sim_start performing [start], the message events with shutdowns and restarts,
   the tear-down *)
Definition run_within (b : budgets) (g : N) (ts : list (bool * list op)) (start : list act) (evs : list mevent) : Prop :=
  fits_exec b 0 start (add_trace (RStart 0) (init g ts)) /\
  all_within b g ts start (boot b g ts start) O 0 evs.

Theorem await_observes_enabling_instant b g ts start evs :
  run_within b g ts start evs -> polls_timely (run_model b g ts start evs).
Proof.
  intros [Hk Hw]. unfold run_model.
  assert (Hc0 : calm (init g ts)) by (split; [constructor|reflexivity]).
  assert (Hb : calm (fst (boot b g ts start))).
  { unfold boot. apply calm_after_exec. apply calm_run_start; assumption. }
  pose proof (run_events_calm b g ts start evs _ O 0 Hb Hw) as H. cbn zeta in H.
  destruct (run_events b g ts start (boot b g ts start) 0 0 evs) as [sm now]; cbn [fst snd] in H.
  destruct (last_restart b start sm now) as [s now']; cbn [fst] in H.
  unfold polls_timely. apply Forall_rev. apply run_end_inv. apply calm_inv. exact H.
Qed.

(* independently of any budget: an exec that starts with empty queues polls only tasks
   made runnable in that same exec *)
Theorem exec_from_quiescent_timely bl br c now now0 acts s :
  inv now0 s -> quiescent s = true -> polls_timely (trace (ee_st (exec_event bl br c now acts s))).
Proof.
  intros Hi Hq. apply (inv_exec_event bl br c now acts s). eapply inv_quiescent; eassumption.
Qed.

(* ... and so does an exec that starts with only tasks woken by the element hooks of the
   same event (the consumed-message path: hooks, then exec of an empty callback) *)
Theorem consumed_event_timely bl br c now now0 pre s :
  inv now0 s -> quiescent s = true ->
  polls_timely (trace (ee_st (exec_event bl br c now [] (pre_hooks now pre s)))).
Proof.
  intros Hi Hq. apply (inv_exec_event bl br c now [] _). apply inv_pre_hooks. eapply inv_quiescent; eassumption.
Qed.

(* a callback that requests a shutdown drives the runtime exactly like the same callback
   without the request: the request is only consumed after the event (buf_process) *)
Lemma handler_no_shutdown now acts : forall s, handler now acts s = handler now (no_shutdown acts) s.
Proof.
  unfold handler. induction acts as [|a acts IH]; intros s; cbn [no_shutdown filter fold_left]; [reflexivity|].
  destruct a as [t|t|r]; cbn [fold_left]; apply IH.
Qed.

Theorem shutdown_request_keeps_exec bl br c now acts s :
  exec_event bl br c now acts s = exec_event bl br c now (no_shutdown acts) s.
Proof. unfold exec_event. rewrite <- handler_no_shutdown. reflexivity. Qed.
