(* The pair representation of simulated time is a faithful image of the natural numbers of nanoseconds
   below 2^64 * 10^9: every operation of Time/Model.v is the corresponding operation on N with a range
   check, and the whole script interpreter agrees with its nanosecond-level twin. *)
From Coq Require Import List NArith Bool Lia.
From DesVerif Require Import Common.Codec Time.Model.
Import ListNotations.
Open Scope N_scope.

Arguments N.add : simpl never.
Arguments N.sub : simpl never.
Arguments N.mul : simpl never.
Arguments N.div : simpl never.
Arguments N.modulo : simpl never.
Arguments N.leb : simpl never.
Arguments N.ltb : simpl never.
Arguments N.eqb : simpl never.
Arguments N.compare : simpl never.

Definition to_ns (d : dur) : N := secs d * NPS + nanos d.
Definition of_ns (n : N) : dur := mkDur (n / NPS) (n mod NPS).
Definition LIMIT : N := U64 * NPS.          (* first nanosecond count that no Duration holds *)

Lemma NPS_pos : 0 < NPS. Proof. reflexivity. Qed.
Lemma NPS_val : NPS = 1000000000. Proof. reflexivity. Qed.
Lemma U64_val : U64 = 18446744073709551616. Proof. reflexivity. Qed.
Lemma LIMIT_val : LIMIT = 18446744073709551616000000000. Proof. reflexivity. Qed.

Ltac nums := rewrite ?NPS_val, ?U64_val, ?LIMIT_val in *.

Lemma to_ns_lt d : wf d -> to_ns d < LIMIT.
Proof. unfold wf, to_ns. intros [Hs Hn]. nums. nia. Qed.

Lemma of_ns_wf n : n < LIMIT -> wf (of_ns n).
Proof.
  unfold wf, of_ns; cbn [secs nanos]. intros H. split.
  - apply N.div_lt_upper_bound; [discriminate|]. nums. lia.
  - apply N.mod_lt. discriminate.
Qed.

Lemma to_of_ns n : to_ns (of_ns n) = n.
Proof.
  unfold to_ns, of_ns; cbn [secs nanos].
  pose proof (N.div_mod n NPS ltac:(discriminate)). lia.
Qed.

Lemma of_to_ns d : wf d -> of_ns (to_ns d) = d.
Proof.
  unfold wf, to_ns, of_ns. destruct d as [s n]; cbn [secs nanos]. intros [Hs Hn].
  f_equal.
  - symmetry. apply N.div_unique with n; [assumption|lia].
  - symmetry. apply N.mod_unique with s; [assumption|lia].
Qed.

Lemma to_ns_inj a b : wf a -> wf b -> to_ns a = to_ns b -> a = b.
Proof. intros Ha Hb H. rewrite <- (of_to_ns a Ha), <- (of_to_ns b Hb), H. reflexivity. Qed.

(* ---- single operations ---- *)

Lemma checked_add_spec a b : wf a -> wf b ->
  match dur_checked_add a b with
  | Some c => wf c /\ to_ns c = to_ns a + to_ns b
  | None => LIMIT <= to_ns a + to_ns b
  end.
Proof.
  unfold wf, dur_checked_add, to_ns. destruct a as [sa na], b as [sb nb]; cbn [secs nanos].
  intros [Hsa Hna] [Hsb Hnb].
  destruct (N.leb_spec U64 (sa + sb)) as [H1|H1].
  - nums. nia.
  - destruct (N.leb_spec NPS (na + nb)) as [H2|H2].
    + destruct (N.leb_spec U64 (sa + sb + 1)) as [H3|H3]; cbn [secs nanos].
      * nums. nia.
      * nums. repeat split; nia.
    + cbn [secs nanos]. nums. repeat split; nia.
Qed.

Lemma checked_sub_spec a b : wf a -> wf b ->
  match dur_checked_sub a b with
  | Some c => wf c /\ to_ns b <= to_ns a /\ to_ns c = to_ns a - to_ns b
  | None => to_ns a < to_ns b
  end.
Proof.
  unfold wf, dur_checked_sub, to_ns. destruct a as [sa na], b as [sb nb]; cbn [secs nanos].
  intros [Hsa Hna] [Hsb Hnb].
  destruct (N.ltb_spec sa sb) as [H1|H1].
  - nums. nia.
  - destruct (N.leb_spec nb na) as [H2|H2]; cbn [secs nanos].
    + nums. repeat split; nia.
    + destruct (N.eqb_spec (sa - sb) 0) as [H3|H3]; cbn [secs nanos].
      * nums. nia.
      * nums. repeat split; nia.
Qed.

Lemma cmp_spec a b : wf a -> wf b -> dur_cmp a b = (to_ns a ?= to_ns b).
Proof.
  unfold wf, dur_cmp, to_ns. destruct a as [sa na], b as [sb nb]; cbn [secs nanos].
  intros [Hsa Hna] [Hsb Hnb]. symmetry.
  destruct (N.compare_spec sa sb) as [H|H|H].
  - subst. destruct (N.compare_spec na nb) as [H|H|H].
    + subst. apply N.compare_refl.
    + apply N.compare_lt_iff. lia.
    + apply N.compare_gt_iff. lia.
  - apply N.compare_lt_iff. nums. nia.
  - apply N.compare_gt_iff. nums. nia.
Qed.

Lemma eqb_spec a b : wf a -> wf b -> dur_eqb a b = (to_ns a =? to_ns b).
Proof.
  intros Ha Hb. unfold dur_eqb.
  destruct (N.eqb_spec (to_ns a) (to_ns b)) as [H|H].
  - apply (to_ns_inj a b Ha Hb) in H. subst. rewrite !N.eqb_refl. reflexivity.
  - destruct (N.eqb_spec (secs a) (secs b)) as [H1|H1]; [|reflexivity].
    destruct (N.eqb_spec (nanos a) (nanos b)) as [H2|H2]; [|reflexivity].
    exfalso. apply H. unfold to_ns. rewrite H1, H2. reflexivity.
Qed.

Lemma dur_new_spec s n : s < U64 ->
  match dur_new s n with
  | Some d => wf d /\ to_ns d = s * NPS + n
  | None => LIMIT <= s * NPS + n
  end.
Proof.
  unfold dur_new, wf, to_ns. intros Hs.
  pose proof (N.div_mod n NPS ltac:(discriminate)) as Hdm.
  pose proof (N.mod_lt n NPS ltac:(discriminate)) as Hm.
  destruct (N.ltb_spec (s + n / NPS) U64) as [H|H]; cbn [secs nanos];
    set (q := n / NPS) in *; set (r := n mod NPS) in *; clearbody q r; nums.
  - repeat split; try assumption. lia.
  - lia.
Qed.

(* the two-atomics clock gives back exactly what was stored *)
Lemma clock_roundtrip t : wf t -> now (set_now t) = Some t.
Proof.
  unfold wf, now, set_now, dur_new. destruct t as [s n]; cbn [secs nanos clk_s clk_n]. intros [Hs Hn].
  rewrite N.div_small by assumption. rewrite N.add_0_r.
  destruct (N.ltb_spec s U64) as [_|H]; [|lia].
  rewrite N.mod_small by assumption. reflexivity.
Qed.

Lemma wf_zero : wf dur_zero. Proof. split; reflexivity. Qed.
Lemma wf_max : wf dur_max. Proof. split; reflexivity. Qed.
Lemma to_ns_max : to_ns dur_max = LIMIT - 1. Proof. reflexivity. Qed.
Lemma wf_mk s n : wf (mk s n).
Proof. split; cbn [mk secs nanos]; apply N.mod_lt; discriminate. Qed.

Lemma saturating_spec a b : wf a -> wf b ->
  wf (saturating_since a b) /\ to_ns (saturating_since a b) = to_ns a - to_ns b.
Proof.
  intros Ha Hb. unfold saturating_since, checked_since.
  pose proof (checked_sub_spec a b Ha Hb) as H. destruct (dur_checked_sub a b) as [c|].
  - destruct H as (Hw & _ & He). split; assumption.
  - split; [apply wf_zero|]. change (to_ns dur_zero) with 0. lia.
Qed.

Lemma diff_spec a b : wf a -> wf b ->
  wf (duration_diff a b) /\
  to_ns (duration_diff a b) = (to_ns a - to_ns b) + (to_ns b - to_ns a).
Proof.
  intros Ha Hb. unfold duration_diff, dur_gtb. rewrite (cmp_spec a b Ha Hb).
  destruct (N.compare_spec (to_ns a) (to_ns b)) as [H|H|H].
  - destruct (saturating_spec b a Hb Ha) as [Hw He]. split; [assumption|]. lia.
  - destruct (saturating_spec b a Hb Ha) as [Hw He]. split; [assumption|]. lia.
  - destruct (saturating_spec a b Ha Hb) as [Hw He]. split; [assumption|]. lia.
Qed.

Lemma ltb_spec a b : wf a -> wf b -> dur_ltb a b = (to_ns a <? to_ns b).
Proof.
  intros Ha Hb. unfold dur_ltb. rewrite (cmp_spec a b Ha Hb).
  destruct (N.compare_spec (to_ns a) (to_ns b)) as [H|H|H];
    destruct (N.ltb_spec (to_ns a) (to_ns b)); try reflexivity; lia.
Qed.

(* ---- the nanosecond-level interpreter ---- *)

Definition pn (n : N) : list N := [n / NPS; n mod NPS].

Definition aadd (x y : N) : option N := if x + y <? LIMIT then Some (x + y) else None.
Definition asub (x y : N) : option N := if y <=? x then Some (x - y) else None.
Definition adiff (x y : N) : N := (x - y) + (y - x).

Inductive aop :=
| ASet (d : N) | AAdd (d : N) | AAddAssign (d : N) | ASub (d : N) | ASubAssign (d : N)
| ACheckedAdd (d : N) | ACheckedSub (d : N) | ARelate (d : N) | AApprox (d e : N) | AClock | AConst (k : N).

Definition astep (cur : N) (o : aop) : N * list N :=
  match o with
  | ASet d => (d, 1 :: pn d)
  | AAdd d => match aadd cur d with Some c => (c, 2 :: 0 :: pn c) | None => (cur, [2; 9]) end
  | AAddAssign d => match aadd cur d with Some c => (c, 3 :: 0 :: pn c) | None => (cur, [3; 9]) end
  | ASub d => match asub cur d with Some c => (c, 4 :: 0 :: pn c) | None => (cur, [4; 9]) end
  | ASubAssign d => match asub cur d with Some c => (c, 5 :: 0 :: pn c) | None => (cur, [5; 9]) end
  | ACheckedAdd d => (cur, match aadd cur d with Some c => 6 :: 1 :: pn c | None => [6; 0] end)
  | ACheckedSub d => (cur, match asub cur d with Some c => 7 :: 1 :: pn c | None => [7; 0] end)
  | ARelate d =>
      (cur, [8; cmp_code (cur ?= d); b2n (cur =? d)]
            ++ (match asub cur d with Some x => 1 :: pn x | None => [0] end)
            ++ pn (cur - d)
            ++ pn (adiff cur d))
  | AApprox d e => (cur, [9; b2n (adiff cur d <? e)])
  | AClock => (cur, if (cur / WIDTH) * WIDTH + WIDTH <? LIMIT
                    then 10 :: 0 :: pn cur      (* the clock shows exactly the start time *)
                    else [10; 9])               (* the scan window would end beyond the representable range *)
  | AConst k => let d := if k =? 2 then LIMIT - 1 else 0 in (d, 11 :: pn d)
  end.

Fixpoint aexec (cur : N) (ops : list aop) : list N :=
  match ops with
  | [] => []
  | o :: r => let '(c, out) := astep cur o in out ++ aexec c r
  end.

Definition abs_op (o : op) : aop :=
  match o with
  | OSet d => ASet (to_ns d) | OAdd d => AAdd (to_ns d) | OAddAssign d => AAddAssign (to_ns d)
  | OSub d => ASub (to_ns d) | OSubAssign d => ASubAssign (to_ns d)
  | OCheckedAdd d => ACheckedAdd (to_ns d) | OCheckedSub d => ACheckedSub (to_ns d)
  | ORelate d => ARelate (to_ns d) | OApprox d e => AApprox (to_ns d) (to_ns e)
  | OClock => AClock | OConst k => AConst k
  end.

Definition wf_op (o : op) : Prop :=
  match o with
  | OSet d | OAdd d | OAddAssign d | OSub d | OSubAssign d | OCheckedAdd d | OCheckedSub d | ORelate d => wf d
  | OApprox d e => wf d /\ wf e
  | OClock | OConst _ => True
  end.

Lemma pd_pn d : wf d -> pd d = pn (to_ns d).
Proof.
  intros H. unfold pd, pn. pose proof (of_to_ns d H) as E. unfold of_ns in E.
  destruct d as [s n]. injection E as E1 E2. cbn [secs nanos]. rewrite E1, E2. reflexivity.
Qed.

Lemma aadd_spec a b : wf a -> wf b ->
  match dur_checked_add a b, aadd (to_ns a) (to_ns b) with
  | Some c, Some n => wf c /\ to_ns c = n
  | None, None => True
  | _, _ => False
  end.
Proof.
  intros Ha Hb. pose proof (checked_add_spec a b Ha Hb) as H. unfold aadd.
  destruct (dur_checked_add a b) as [c|]; destruct (N.ltb_spec (to_ns a + to_ns b) LIMIT) as [L|L].
  - destruct H. split; assumption.
  - destruct H as [Hw He]. pose proof (to_ns_lt c Hw). lia.
  - lia.
  - exact I.
Qed.

Lemma asub_spec a b : wf a -> wf b ->
  match dur_checked_sub a b, asub (to_ns a) (to_ns b) with
  | Some c, Some n => wf c /\ to_ns c = n
  | None, None => True
  | _, _ => False
  end.
Proof.
  intros Ha Hb. pose proof (checked_sub_spec a b Ha Hb) as H. unfold asub.
  destruct (dur_checked_sub a b) as [c|]; destruct (N.leb_spec (to_ns b) (to_ns a)) as [L|L].
  - destruct H as (Hw & _ & He). split; assumption.
  - destruct H as (_ & Hle & _). lia.
  - lia.
  - exact I.
Qed.

Lemma build_ok_spec t : wf t -> build_ok t = ((to_ns t / WIDTH) * WIDTH + WIDTH <? LIMIT).
Proof.
  intros Ht. unfold build_ok. fold (to_ns t).
  set (t0 := to_ns t / WIDTH * WIDTH).
  assert (Hle : t0 <= to_ns t).
  { unfold t0. rewrite N.mul_comm. apply N.mul_div_le. discriminate. }
  pose proof (to_ns_lt t Ht) as Hlt.
  assert (Hw0 : wf (of_ns t0)) by (apply of_ns_wf; lia).
  assert (Hww : wf (mkDur 0 WIDTH)) by (split; reflexivity).
  pose proof (checked_add_spec (of_ns t0) (mkDur 0 WIDTH) Hw0 Hww) as H.
  rewrite to_of_ns in H. change (to_ns (mkDur 0 WIDTH)) with WIDTH in H.
  change (mkDur (t0 / NPS) (t0 mod NPS)) with (of_ns t0).
  destruct (dur_checked_add (of_ns t0) (mkDur 0 WIDTH)) as [c|];
    destruct (N.ltb_spec (t0 + WIDTH) LIMIT) as [L|L]; try reflexivity.
  - destruct H as [Hw He]. pose proof (to_ns_lt c Hw). lia.
  - lia.
Qed.

Ltac tri := split; [|split].

Lemma step_astep cur o : wf cur -> wf_op o ->
  wf (fst (step cur o)) /\
  to_ns (fst (step cur o)) = fst (astep (to_ns cur) (abs_op o)) /\
  snd (step cur o) = snd (astep (to_ns cur) (abs_op o)).
Proof.
  intros Hc Ho. destruct o as [d|d|d|d|d|d|d|d|d e| |k]; cbn [wf_op] in Ho; cbn [step astep abs_op].
  - cbn [fst snd]. tri; [assumption|reflexivity|]. rewrite (pd_pn d Ho). reflexivity.
  - pose proof (aadd_spec cur d Hc Ho) as H.
    destruct (dur_checked_add cur d) as [c|]; destruct (aadd (to_ns cur) (to_ns d)) as [n|]; try contradiction; cbn [fst snd].
    + destruct H as [Hw He]. subst n. tri; [assumption|reflexivity|]. rewrite (pd_pn c Hw). reflexivity.
    + tri; [assumption|reflexivity|reflexivity].
  - pose proof (aadd_spec cur d Hc Ho) as H.
    destruct (dur_checked_add cur d) as [c|]; destruct (aadd (to_ns cur) (to_ns d)) as [n|]; try contradiction; cbn [fst snd].
    + destruct H as [Hw He]. subst n. tri; [assumption|reflexivity|]. rewrite (pd_pn c Hw). reflexivity.
    + tri; [assumption|reflexivity|reflexivity].
  - pose proof (asub_spec cur d Hc Ho) as H.
    destruct (dur_checked_sub cur d) as [c|]; destruct (asub (to_ns cur) (to_ns d)) as [n|]; try contradiction; cbn [fst snd].
    + destruct H as [Hw He]. subst n. tri; [assumption|reflexivity|]. rewrite (pd_pn c Hw). reflexivity.
    + tri; [assumption|reflexivity|reflexivity].
  - pose proof (asub_spec cur d Hc Ho) as H.
    destruct (dur_checked_sub cur d) as [c|]; destruct (asub (to_ns cur) (to_ns d)) as [n|]; try contradiction; cbn [fst snd].
    + destruct H as [Hw He]. subst n. tri; [assumption|reflexivity|]. rewrite (pd_pn c Hw). reflexivity.
    + tri; [assumption|reflexivity|reflexivity].
  - cbn [fst snd]. tri; [assumption|reflexivity|].
    pose proof (aadd_spec cur d Hc Ho) as H.
    destruct (dur_checked_add cur d) as [c|]; destruct (aadd (to_ns cur) (to_ns d)) as [n|]; try contradiction.
    + destruct H as [Hw He]. subst n. rewrite (pd_pn c Hw). reflexivity.
    + reflexivity.
  - cbn [fst snd]. tri; [assumption|reflexivity|].
    pose proof (asub_spec cur d Hc Ho) as H.
    destruct (dur_checked_sub cur d) as [c|]; destruct (asub (to_ns cur) (to_ns d)) as [n|]; try contradiction.
    + destruct H as [Hw He]. subst n. rewrite (pd_pn c Hw). reflexivity.
    + reflexivity.
  - cbn [fst snd]. tri; [assumption|reflexivity|].
    rewrite (cmp_spec cur d Hc Ho), (eqb_spec cur d Hc Ho).
    destruct (saturating_spec cur d Hc Ho) as [Hsw Hse].
    destruct (diff_spec cur d Hc Ho) as [Hdw Hde].
    rewrite (pd_pn _ Hsw), (pd_pn _ Hdw), Hse, Hde. unfold adiff.
    pose proof (asub_spec cur d Hc Ho) as H. unfold checked_since.
    destruct (dur_checked_sub cur d) as [c|]; destruct (asub (to_ns cur) (to_ns d)) as [n|]; try contradiction.
    + destruct H as [Hw He]. subst n. rewrite (pd_pn c Hw). reflexivity.
    + reflexivity.
  - destruct Ho as [Hd He]. cbn [fst snd]. tri; [assumption|reflexivity|].
    unfold eq_approx. destruct (diff_spec cur d Hc Hd) as [Hdw Hde].
    rewrite (ltb_spec _ e Hdw He), Hde. reflexivity.
  - cbn [fst snd]. rewrite (clock_roundtrip cur Hc), (build_ok_spec cur Hc). tri; [assumption|reflexivity|].
    rewrite (pd_pn cur Hc). reflexivity.
  - cbn [fst snd]. destruct (k =? 2).
    + tri; [apply wf_max|reflexivity|]. rewrite (pd_pn _ wf_max). reflexivity.
    + tri; [apply wf_zero|reflexivity|]. rewrite (pd_pn _ wf_zero). reflexivity.
Qed.

Theorem exec_aexec ops : forall cur, wf cur -> Forall wf_op ops ->
  exec cur ops = aexec (to_ns cur) (map abs_op ops).
Proof.
  induction ops as [|o r IH]; intros cur Hc Hops; [reflexivity|].
  inversion Hops as [|? ? Ho Hr]; subst.
  cbn [exec aexec map].
  destruct (step_astep cur o Hc Ho) as (Hw & Hn & Hout).
  destruct (step cur o) as [c out]; destruct (astep (to_ns cur) (abs_op o)) as [c' out'].
  cbn [fst snd] in *. subst. f_equal. apply IH; assumption.
Qed.

(* every decoded script is well formed: operands are reduced into range by the decoder *)
Lemma dec1_wf l o r : dec1 l = Some (o, r) -> wf_op o.
Proof.
  unfold dec1. intros H.
  repeat (match type of H with
          | match ?x with _ => _ end = _ => destruct x; try discriminate
          end);
  injection H as <- _; cbn [wf_op]; auto using wf_mk.
Qed.

Lemma decode_with_wf fuel : forall l, Forall wf_op (decode_with fuel dec1 l).
Proof.
  induction fuel as [|f IH]; intros l; cbn [decode_with]; [constructor|].
  destruct l as [|x l']; [constructor|].
  destruct (dec1 (x :: l')) as [[o r]|] eqn:E; [|constructor].
  constructor; [eapply dec1_wf; eassumption|apply IH].
Qed.

Lemma decode_wf l : Forall wf_op (decode l).
Proof. apply decode_with_wf. Qed.

Theorem run_is_nanosecond_arithmetic script :
  run script = aexec 0 (map abs_op (decode script)).
Proof.
  unfold run. change 0 with (to_ns dur_zero).
  apply exec_aexec; [apply wf_zero|apply decode_wf].
Qed.

(* the representation is an order isomorphism onto [0, LIMIT) *)
Theorem repr_iso :
  (forall d, wf d -> to_ns d < LIMIT /\ of_ns (to_ns d) = d) /\
  (forall n, n < LIMIT -> wf (of_ns n) /\ to_ns (of_ns n) = n) /\
  (forall a b, wf a -> wf b -> dur_cmp a b = (to_ns a ?= to_ns b)).
Proof.
  split; [|split].
  - intros d Hd. split; [apply to_ns_lt|apply of_to_ns]; assumption.
  - intros n Hn. split; [apply of_ns_wf; assumption|apply to_of_ns].
  - apply cmp_spec.
Qed.
