(* SimTime / Duration arithmetic as the code performs it (des/src/time/mod.rs, des/src/time/duration.rs on
   top of std::time::Duration): a time value is a pair (secs : u64, nanos : u32 < 10^9); addition and
   subtraction carry/borrow between the two fields and are checked against the u64 range of the seconds;
   the derived order is lexicographic; the process-global clock is a pair of atomics written by
   SimTime::set_now and read back by SimTime::now through Duration::new.

   Every other model of this development writes simulated time as one natural number of nanoseconds.
   Time/Props.v proves that this is faithful: the pair-level interpreter [run] below and the
   nanosecond-level interpreter [arun] produce the same output on every script.  The correspondence check
   runs [run] against the real SimTime on the same scripts (harness/src/bin/simtime.rs).  f64 conversions
   (From<f64>, Add<f64>, Div) and serde are not modelled. *)
From Coq Require Import List NArith Bool.
From DesVerif Require Import Common.Codec.
Import ListNotations.
Open Scope N_scope.

Definition NPS : N := 1000000000.
Definition U64 : N := 18446744073709551616.

Record dur := mkDur { secs : N; nanos : N }.

Definition wf (d : dur) : Prop := secs d < U64 /\ nanos d < NPS.

(* Duration::new(secs, nanos): carries whole seconds out of nanos, panics when the seconds overflow *)
Definition dur_new (s n : N) : option dur :=
  let s' := s + n / NPS in
  if s' <? U64 then Some (mkDur s' (n mod NPS)) else None.

(* Duration::checked_add *)
Definition dur_checked_add (a b : dur) : option dur :=
  let s := secs a + secs b in
  if U64 <=? s then None else
  let n := nanos a + nanos b in
  if NPS <=? n then
    (let s1 := s + 1 in if U64 <=? s1 then None else Some (mkDur s1 (n - NPS)))
  else Some (mkDur s n).

(* Duration::checked_sub *)
Definition dur_checked_sub (a b : dur) : option dur :=
  if secs a <? secs b then None else
  let s := secs a - secs b in
  if nanos b <=? nanos a then Some (mkDur s (nanos a - nanos b))
  else if s =? 0 then None else Some (mkDur (s - 1) (nanos a + NPS - nanos b)).

(* #[derive(PartialOrd, Ord)] on Duration { secs, nanos } *)
Definition dur_cmp (a b : dur) : comparison :=
  match secs a ?= secs b with
  | Eq => nanos a ?= nanos b
  | c => c
  end.

Definition dur_ltb (a b : dur) : bool := match dur_cmp a b with Lt => true | _ => false end.
Definition dur_gtb (a b : dur) : bool := match dur_cmp a b with Gt => true | _ => false end.
Definition dur_eqb (a b : dur) : bool := (secs a =? secs b) && (nanos a =? nanos b).

Definition dur_zero : dur := mkDur 0 0.
Definition dur_max : dur := mkDur (U64 - 1) (NPS - 1).

(* ---- SimTime (a transparent wrapper around Duration) ---- *)

(* SimTime::checked_duration_since / saturating_duration_since / duration_diff / eq_approx *)
Definition checked_since (a earlier : dur) : option dur := dur_checked_sub a earlier.
Definition saturating_since (a earlier : dur) : dur :=
  match checked_since a earlier with Some d => d | None => dur_zero end.
(* duration_diff: `if self > other { self.duration_since(other) } else { other.duration_since(self) }`;
   neither branch can panic *)
Definition duration_diff (a b : dur) : dur :=
  if dur_gtb a b then saturating_since a b else saturating_since b a.
Definition eq_approx (a b err : dur) : bool := dur_ltb (duration_diff a b) err.

(* the clock: static SIMTIME: (AtomicU64, AtomicU32) *)
Record clock := mkClock { clk_s : N; clk_n : N }.
Definition set_now (t : dur) : clock := mkClock (secs t) (nanos t).
Definition now (c : clock) : option dur := dur_new (clk_s c) (clk_n c).

(* Builder::build with start_time(t) (default calendar-queue options: bucket width 2.5 ms): CQueue::new_at
   places the scan window [t0, t0 + width] on the bucket that contains t, t0 computed in u128 nanoseconds;
   `t0 + width` is a panicking Duration addition, so a start time inside the last bucket width of the
   representable range cannot be built. *)
Definition WIDTH : N := 2500000.
Definition build_ok (t : dur) : bool :=
  let ns := secs t * NPS + nanos t in
  let t0 := (ns / WIDTH) * WIDTH in
  match dur_checked_add (mkDur (t0 / NPS) (t0 mod NPS)) (mkDur 0 WIDTH) with
  | Some _ => true
  | None => false
  end.

(* ---- scripts ---- *)
Inductive op :=
| OSet (d : dur)             (* cur := SimTime::from_duration(d) *)
| OAdd (d : dur)             (* cur = cur + d            (panics on overflow) *)
| OAddAssign (d : dur)       (* cur += d *)
| OSub (d : dur)             (* cur = cur - d            (panics on underflow) *)
| OSubAssign (d : dur)       (* cur -= d *)
| OCheckedAdd (d : dur)
| OCheckedSub (d : dur)
| ORelate (d : dur)          (* other = SimTime(d): cmp, ==, checked/saturating/panicking duration_since, duration_diff *)
| OApprox (d e : dur)        (* cur.eq_approx(SimTime(d), e) *)
| OClock                     (* a runtime built with start_time(cur): SimTime::now() afterwards *)
| OConst (k : N).            (* cur := ZERO | MIN | MAX *)

Definition pd (d : dur) : list N := [secs d; nanos d].
Definition cmp_code (c : comparison) : N := match c with Lt => 0 | Eq => 1 | Gt => 2 end.

(* state: the SimTime variable the script works on *)
Definition step (cur : dur) (o : op) : dur * list N :=
  match o with
  | OSet d => (d, 1 :: pd d)
  | OAdd d => match dur_checked_add cur d with
              | Some c => (c, 2 :: 0 :: pd c)
              | None => (cur, [2; 9])
              end
  | OAddAssign d => match dur_checked_add cur d with
                    | Some c => (c, 3 :: 0 :: pd c)
                    | None => (cur, [3; 9])
                    end
  | OSub d => match dur_checked_sub cur d with
              | Some c => (c, 4 :: 0 :: pd c)
              | None => (cur, [4; 9])
              end
  | OSubAssign d => match dur_checked_sub cur d with
                    | Some c => (c, 5 :: 0 :: pd c)
                    | None => (cur, [5; 9])
                    end
  | OCheckedAdd d => (cur, match dur_checked_add cur d with
                           | Some c => 6 :: 1 :: pd c
                           | None => [6; 0]
                           end)
  | OCheckedSub d => (cur, match dur_checked_sub cur d with
                           | Some c => 7 :: 1 :: pd c
                           | None => [7; 0]
                           end)
  | ORelate d =>
      (cur, [8; cmp_code (dur_cmp cur d); b2n (dur_eqb cur d)]
            ++ (match checked_since cur d with Some x => 1 :: pd x | None => [0] end)
            ++ pd (saturating_since cur d)
            ++ pd (duration_diff cur d))
  | OApprox d e => (cur, [9; b2n (eq_approx cur d e)])
  | OClock => (cur, if build_ok cur then
                      match now (set_now cur) with
                      | Some t => 10 :: 0 :: pd t
                      | None => [10; 9]
                      end
                    else [10; 9])
  | OConst k => let d := if k =? 2 then dur_max else dur_zero in (d, 11 :: pd d)
  end.

Fixpoint exec (cur : dur) (ops : list op) : list N :=
  match ops with
  | [] => []
  | o :: r => let '(c, out) := step cur o in out ++ exec c r
  end.

(* ---- wire format ----
   script := op*   with   op = code s n [s2 n2]
   operands are Duration::new(s mod 2^64, n mod 10^9): always valid, no carry *)
Definition mk (s n : N) : dur := mkDur (s mod U64) (n mod NPS).

Definition dec1 (l : list N) : option (op * list N) :=
  match l with
  | 1 :: s :: n :: r => Some (OSet (mk s n), r)
  | 2 :: s :: n :: r => Some (OAdd (mk s n), r)
  | 3 :: s :: n :: r => Some (OAddAssign (mk s n), r)
  | 4 :: s :: n :: r => Some (OSub (mk s n), r)
  | 5 :: s :: n :: r => Some (OSubAssign (mk s n), r)
  | 6 :: s :: n :: r => Some (OCheckedAdd (mk s n), r)
  | 7 :: s :: n :: r => Some (OCheckedSub (mk s n), r)
  | 8 :: s :: n :: r => Some (ORelate (mk s n), r)
  | 9 :: s :: n :: s2 :: n2 :: r => Some (OApprox (mk s n) (mk s2 n2), r)
  | 10 :: r => Some (OClock, r)
  | 11 :: k :: r => Some (OConst k, r)
  | _ => None
  end.

Definition decode (l : list N) : list op := decode_all dec1 l.

Definition run (script : list N) : list N := exec dur_zero (decode script).
