(* End-to-end argument for the composite model on the fragment {sleep, sleep_until, log}:
   the invariant that ties tasks, waker table, the two drivers and the event set together. *)
From Coq Require Import List NArith Bool Lia Sorting.Sorted Permutation ZifyBool.
From DesVerif Require Import CQueue.Model CQueue.Spec CQueue.SpecProps Timer.Driver Timer.QueueLemmas Timer.Inv
  Timer.Futures Timer.Model Timer.EvSet Timer.Frag.
Import ListNotations.
Open Scope N_scope.

(* the log the property demands of the task *)
Definition expected (tk0 : task) : list N := exp_run (t_start tk0) None (t_steps tk0).

(* a task as the decoder produces it, restricted to the fragment; all its deadlines are finite
   (below SimTime::MAX = TMAX, i.e. 2^62 - 1 ns: a Sleep with deadline SimTime::MAX never elapses) *)
Definition init_ok (tk0 : task) : Prop :=
  Forall frag_step (t_steps tk0) /\ t_cur tk0 = None /\ t_iv tk0 = None /\ t_log tk0 = [] /\
  t_fin tk0 = false /\ t_mod tk0 < 2 /\ Forall (fun x => x < TMAX) (expected tk0).

Definition unspawned (tk : task) : Prop := t_cur tk = None /\ t_fin tk = false.

(* the Sleeps a task holds (all registered while it is blocked) *)
Definition held (tk : task) : list sleep := held_sleeps (t_cur tk) (t_iv tk).

(* the three states of a task, against the task as it was scripted *)
Inductive tstate (tk0 tk : task) : Prop :=
| TUn : tk = tk0 -> tstate tk0 tk
| TBl a st rest :
    t_mod tk = t_mod tk0 -> t_start tk = t_start tk0 -> t_steps tk = st :: rest -> Forall frag_step rest ->
    t_cur tk = Some a -> t_fin tk = false -> aw_kind a (t_iv tk) ->
    Forall (fun s => handle s = Some (deadline s)) (aw_held a (t_iv tk)) -> NoDup (map sid (aw_held a (t_iv tk))) ->
    expected tk0 = t_log tk ++ aw_rec a (t_iv tk) ++ exp_run (aw_end a (t_iv tk)) (iv_abs (iv_after a (t_iv tk))) rest -> tstate tk0 tk
| TDn :
    t_mod tk = t_mod tk0 -> t_start tk = t_start tk0 -> t_steps tk = [] -> t_cur tk = None -> t_iv tk = None ->
    t_fin tk = true -> t_log tk = expected tk0 -> tstate tk0 tk.

(* payload of the message that makes its module spawn task k *)
Definition msg_of (k : nat) : N := 2 + N.of_nat k.

(* the entries of driver m are exactly the Sleeps held by the tasks of module m, each woken
   through its own task; inside an event at instant t the tasks in [q] are about to be polled:
   their Sleeps that were due have been popped *)
Record Tie (ts : list task) (t : N) (q : list nat) (m : N) (dr : driver) : Prop := {
  tie_entry : forall k tk s, nth_error ts k = Some tk -> In s (held tk) -> t_mod tk = m -> (~ In k q \/ t < deadline s) ->
              In (sid s) (ents_at (deadline s) (pending dr));
  tie_task : forall d id, In id (ents_at d (pending dr)) ->
             exists k tk s, nth_error ts k = Some tk /\ In s (held tk) /\ t_mod tk = m /\ sid s = id /\ deadline s = d;
  tie_nodup : forall d, NoDup (ents_at d (pending dr)) }.

(* what does not depend on where in an event we are *)
(* the Sleeps a task owns: those it holds, and the Sleep of its interval (not registered, hence
   not held, outside of tick().await) *)
Definition owned (tk : task) : list sleep := held tk ++ match t_iv tk with Some i => [iv_delay i] | None => [] end.

Record Base (ts0 ts : list task) (own : wakers) (nid : N) : Prop := {
  b_states : Forall2 tstate ts0 ts;
  b_init : Forall init_ok ts0;
  b_ids : forall k tk s, nth_error ts k = Some tk -> In s (held tk) ->
          sid s < nid /\ waker_of own (sid s) = Some k;
  b_own : forall k tk s, nth_error ts k = Some tk -> In s (owned tk) -> sid s < nid;
  b_distinct : forall k k' tk tk' s s', nth_error ts k = Some tk -> nth_error ts k' = Some tk' ->
               In s (owned tk) -> In s' (owned tk') -> sid s = sid s' -> k = k' }.

Lemma held_owned tk s : In s (held tk) -> In s (owned tk).
Proof. intros H. apply in_or_app. left; exact H. Qed.

(* the messages in the event set: one for every unspawned task that is not exempt ([later]) *)
Record Msgs (ts : list task) (l : list ev) (later : nat -> Prop) : Prop := {
  m_task : forall e, In e l -> 2 <= epay e ->
           exists k tk, epay e = msg_of k /\ nth_error ts k = Some tk /\ unspawned tk /\ etime e = t_start tk /\ 0 < etime e;
  m_nodup : NoDup (filter (fun p => 2 <=? p) (map epay l));
  m_all : forall k tk, nth_error ts k = Some tk -> unspawned tk -> later k \/ exists e, In e l /\ epay e = msg_of k;
  m_later : forall k, later k -> exists tk, nth_error ts k = Some tk /\ unspawned tk }.

(* In this fragment a timer that is registered when an event ends is never cancelled (a Sleep
   that is reset or dropped is so within the poll that registered it): the slot next_wakeup
   was scheduled for still holds its timer. *)
Definition NwLive (dr : driver) : Prop := forall w, next_wakeup dr = Some w -> ents_at w (pending dr) <> [].
Definition Extra (l : N) (dr : driver) : Prop := Snap l dr /\ NwLive dr.

(* at an event boundary; l0, l1: the instants of the last event of module 0 / 1 *)
Record WInv (ts0 : list task) (later : nat -> Prop) (w : world) : Prop := {
  wi_si : SI (w_fes w);
  wi_tcur : s_tcur (w_fes w) = w_now w;
  wi_mail : w_mail w = [];
  wi_base : Base ts0 (w_tasks w) (w_owner w) (w_nid w);
  wi_drv : forall m, m < 2 -> exists l, l <= w_now w /\ Inv l (drv_of w m) /\
           Permutation (wakes m (spend (w_fes w))) (scheduled (drv_of w m)) /\
           Tie (w_tasks w) l [] m (drv_of w m) /\ Extra l (drv_of w m);
  wi_msgs : Msgs (w_tasks w) (spend (w_fes w)) later }.

(* ---- small facts ---- *)
Lemma tstate_cases tk0 tk : tstate tk0 tk -> init_ok tk0 ->
  t_mod tk = t_mod tk0 /\ t_start tk = t_start tk0 /\
  (t_cur tk = None \/ exists a, t_cur tk = Some a /\ aw_kind a (t_iv tk)).
Proof.
  intros [->|a st rest H1 H2 H3 H4 H5 H7 H8 H9 H10 H11|H1 H2 H3 H4 H5 H6 H7] (I1 & I2 & I3 & I4 & I5 & I6 & I7).
  - repeat split; try assumption; try reflexivity. left; exact I2.
  - repeat split; try assumption. right; exists a; split; assumption.
  - repeat split; try assumption. left; exact H4.
Qed.

Lemma Forall2_nth {A B} (R : A -> B -> Prop) l l' k b : Forall2 R l l' -> nth_error l' k = Some b ->
  exists a, nth_error l k = Some a /\ R a b.
Proof.
  intros H. revert k. induction H as [|x y l l' Hxy _ IH]; intros k Hk; [destruct k; discriminate|].
  destruct k as [|k]; cbn [nth_error] in *; [injection Hk as <-; exists x; split; [reflexivity|exact Hxy]|exact (IH k Hk)].
Qed.

Lemma Forall2_set_nth {A B} (R : A -> B -> Prop) l l' k a b : Forall2 R l l' -> nth_error l k = Some a -> R a b ->
  Forall2 R l (set_nth k b l').
Proof.
  intros H. revert k. induction H as [|x y l l' Hxy H IH]; intros k Hk Hr; [destruct k; discriminate|].
  destruct k as [|k]; cbn [nth_error set_nth] in *.
  - injection Hk as ->. constructor; assumption.
  - constructor; [exact Hxy|exact (IH k Hk Hr)].
Qed.

Lemma nth_set_nth_same {A} (l : list A) k x y : nth_error l k = Some y -> nth_error (set_nth k x l) k = Some x.
Proof.
  revert k; induction l as [|a l IH]; intros k H; [destruct k; discriminate|].
  destruct k as [|k]; cbn [nth_error set_nth] in *; [reflexivity|exact (IH k H)].
Qed.

Lemma nth_set_nth_other {A} (l : list A) k k' x : k <> k' -> nth_error (set_nth k x l) k' = nth_error l k'.
Proof.
  revert k k'; induction l as [|a l IH]; intros k k' H; [destruct k; reflexivity|].
  destruct k as [|k], k' as [|k']; cbn [nth_error set_nth]; try reflexivity; [contradiction H; reflexivity|].
  apply IH. intros E; apply H; f_equal; exact E.
Qed.

Lemma length_set_nth {A} (l : list A) k x : length (set_nth k x l) = length l.
Proof. revert k; induction l as [|a l IH]; intros k; [destruct k; reflexivity|]. destruct k; cbn [set_nth length]; [reflexivity|rewrite IH; reflexivity]. Qed.

(* no task of the fragment ever waits on a channel *)
Lemma aw_kind_no_wait a iv : aw_kind a iv -> waits_on (Some a) = None.
Proof. destruct a as [s|v dl| | | | | | |]; try contradiction; try reflexivity. destruct v; try contradiction. reflexivity. Qed.

Lemma min2 (s1 s2 : sleep) : (exists s, In s [s1; s2] /\ deadline s = N.min (deadline s1) (deadline s2)) /\
  forall s, In s [s1; s2] -> N.min (deadline s1) (deadline s2) <= deadline s.
Proof.
  split.
  - destruct (N.min_spec (deadline s1) (deadline s2)) as [[_ E]|[_ E]]; rewrite E;
      [exists s1; split; [left; reflexivity|reflexivity]|exists s2; split; [right; left; reflexivity|reflexivity]].
  - intros s' [<-|[<-|[]]]; lia.
Qed.

Lemma no_receivers ts0 ts m mail : Forall2 tstate ts0 ts -> Forall init_ok ts0 -> forall i, ready_receivers m mail i ts = [].
Proof.
  intros H. induction H as [|x y l l' Hxy H IH]; intros Hi i; [reflexivity|].
  inversion Hi as [|? ? Hx Hl]; subst. cbn [ready_receivers].
  destruct (tstate_cases _ _ Hxy Hx) as (_ & _ & [Hc|(a & Hc & Hk)]); rewrite Hc.
  - cbn [waits_on]. apply IH; exact Hl.
  - rewrite (aw_kind_no_wait a _ Hk). apply IH; exact Hl.
Qed.

(* facts about the await states of the fragment *)
Lemma aw_wake_held a iv : aw_kind a iv ->
  (exists s, In s (aw_held a iv) /\ deadline s = aw_wake a iv) /\ forall s, In s (aw_held a iv) -> aw_wake a iv <= deadline s.
Proof.
  destruct a as [s|v dl|biased tie sa sb| | | | |rearm d3 s sx|pre s]; try contradiction.
  - intros _. cbn [aw_held held_sleeps aw_wake]. split; [exists s; split; [left; reflexivity|reflexivity]|intros s' [<-|[]]; lia].
  - destruct v as [s| | |]; try contradiction. intros _. cbn [aw_held held_sleeps aw_wake]. apply min2.
  - intros _. cbn [aw_held held_sleeps aw_wake]. apply min2.
  - destruct iv as [i|]; [|intros H; contradiction H; reflexivity]. intros _. cbn [aw_held held_sleeps aw_wake].
    split; [exists (iv_delay i); split; [left; reflexivity|reflexivity]|intros s' [<-|[]]; lia].
  - intros _. cbn [aw_held held_sleeps aw_wake]. apply min2.
  - intros _. cbn [aw_held held_sleeps aw_wake]. split; [exists s; split; [left; reflexivity|reflexivity]|intros s' [<-|[]]; lia].
Qed.

Lemma aw_wake_in_rec a iv : aw_kind a iv -> In (aw_wake a iv) (aw_rec a iv).
Proof.
  destruct a as [s|v dl|biased tie sa sb| | | | |rearm d3 s sx|pre s]; try contradiction.
  - intros _. left; reflexivity.
  - destruct v as [s| | |]; try contradiction. intros _. left; reflexivity.
  - intros _. left; reflexivity.
  - destruct iv as [i|]; [|intros H; contradiction H; reflexivity]. intros _. left; reflexivity.
  - intros _. cbn [aw_wake aw_rec]. destruct (deadline s <=? deadline sx) eqn:E; left; lia.
  - intros _. cbn [aw_wake aw_rec]. apply in_or_app. right. left. reflexivity.
Qed.

(* the instant a blocked task will complete its await is finite *)
Lemma blocked_fin tk0 tk a : tstate tk0 tk -> init_ok tk0 -> t_cur tk = Some a -> aw_wake a (t_iv tk) < TMAX.
Proof.
  intros Hst (_ & I2 & _ & _ & _ & _ & I7) Hc.
  destruct Hst as [->|a' st rest _ _ _ _ H5 _ Hk _ _ H9|_ _ _ H4 _ _ _].
  - rewrite I2 in Hc. discriminate.
  - rewrite H5 in Hc. injection Hc as ->. rewrite Forall_forall in I7. apply I7. rewrite H9.
    apply in_or_app. right. apply in_or_app. left. exact (aw_wake_in_rec a _ Hk).
  - rewrite H4 in Hc. discriminate.
Qed.

Lemma base_blocked_fin ts0 ts own nid k tk a : Base ts0 ts own nid -> nth_error ts k = Some tk ->
  t_cur tk = Some a -> aw_wake a (t_iv tk) < TMAX.
Proof.
  intros B Hk Hc. destruct (Forall2_nth _ _ _ _ _ (b_states _ _ _ _ B) Hk) as (tk0 & Hk0 & Hst).
  apply (blocked_fin tk0 tk a Hst); [|exact Hc]. pose proof (b_init _ _ _ _ B) as Ha. rewrite Forall_forall in Ha.
  apply Ha. eapply nth_error_In; exact Hk0.
Qed.

(* a task that holds a Sleep is blocked on an await state of the fragment that holds it *)
Lemma held_blocked tk0 tk s : tstate tk0 tk -> init_ok tk0 -> In s (held tk) ->
  exists a, t_cur tk = Some a /\ aw_kind a (t_iv tk) /\ In s (aw_held a (t_iv tk)) /\ handle s = Some (deadline s) /\
            NoDup (map sid (aw_held a (t_iv tk))) /\ held tk = aw_held a (t_iv tk).
Proof.
  intros Hst (_ & I2 & I3 & _) Hin. unfold held in *.
  destruct Hst as [->|a st rest _ _ _ _ H5 _ Hk Hh Hnd _|_ _ _ H4 _ _ _].
  - rewrite I2 in Hin. contradiction.
  - rewrite H5 in *. exists a. rewrite Forall_forall in Hh. repeat split; try assumption; try reflexivity. exact (Hh s Hin).
  - rewrite H4 in Hin. contradiction.
Qed.
