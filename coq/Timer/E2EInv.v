(* End-to-end argument for the composite model on the fragment of coq/Timer/Frag.v:
   the invariant that ties tasks, waker table, the two drivers, the channels and the event set together. *)
From Coq Require Import List Arith NArith Bool Lia Sorting.Sorted Permutation ZifyBool.
From DesVerif Require Import CQueue.Model CQueue.Spec CQueue.SpecProps Timer.Driver Timer.QueueLemmas Timer.Inv
  Timer.Futures Timer.Model Timer.EvSet Timer.Frag.
Import ListNotations.
Open Scope N_scope.

(* ---- sorting the instants at which messages are sent ---- *)
Fixpoint insert (x : N) (l : list N) : list N :=
  match l with [] => [x] | y :: r => if x <=? y then x :: l else y :: insert x r end.

Fixpoint isort (l : list N) : list N := match l with [] => [] | x :: r => insert x (isort r) end.

Lemma insert_perm x l : Permutation (x :: l) (insert x l).
Proof.
  induction l as [|y r IH]; cbn [insert]; [apply Permutation_refl|]. destruct (x <=? y); [apply Permutation_refl|].
  eapply Permutation_trans; [apply perm_swap|]. apply perm_skip. exact IH.
Qed.

Lemma isort_perm l : Permutation l (isort l).
Proof. induction l as [|x r IH]; cbn [isort]; [constructor|]. eapply Permutation_trans; [apply perm_skip; exact IH|apply insert_perm]. Qed.

Definition sortedN (l : list N) : Prop := StronglySorted N.le l.

Lemma insert_sorted x l : sortedN l -> sortedN (insert x l).
Proof.
  induction l as [|y r IH]; intros H; cbn [insert]; [repeat constructor|]. inversion H as [|? ? Hr Hy]; subst.
  destruct (x <=? y) eqn:E.
  - constructor; [exact H|]. constructor; [lia|]. eapply Forall_impl; [|exact Hy]. cbn beta. intros z Hz. lia.
  - constructor; [exact (IH Hr)|]. apply (Permutation_Forall (insert_perm x r)). constructor; [lia|exact Hy].
Qed.

Lemma isort_sorted l : sortedN (isort l).
Proof. induction l as [|x r IH]; cbn [isort]; [constructor|apply insert_sorted; exact IH]. Qed.

Lemma sorted_perm_eq l : forall l', sortedN l -> sortedN l' -> Permutation l l' -> l = l'.
Proof.
  induction l as [|x r IH]; intros l' H H' P.
  - apply Permutation_nil in P. symmetry; exact P.
  - destruct l' as [|y r']; [apply Permutation_sym, Permutation_nil in P; discriminate|].
    inversion H as [|? ? Hr Hx]; subst. inversion H' as [|? ? Hr' Hy]; subst.
    assert (x = y).
    { assert (I1 : In x (y :: r')) by (eapply Permutation_in; [exact P|left; reflexivity]).
      assert (I2 : In y (x :: r)) by (eapply Permutation_in; [apply Permutation_sym; exact P|left; reflexivity]).
      rewrite Forall_forall in Hx, Hy. destruct I1 as [->|I1]; [reflexivity|]. destruct I2 as [->|I2]; [reflexivity|].
      pose proof (Hy x I1). pose proof (Hx y I2). lia. }
    subst y. f_equal. apply IH; [exact Hr|exact Hr'|]. eapply Permutation_cons_inv; exact P.
Qed.

Lemma isort_perm_eq l l' : Permutation l l' -> isort l = isort l'.
Proof.
  intros P. apply sorted_perm_eq; [apply isort_sorted|apply isort_sorted|].
  eapply Permutation_trans; [apply Permutation_sym, isort_perm|]. eapply Permutation_trans; [exact P|apply isort_perm].
Qed.

(* the instants of a prefix that are all [t], no later than anything else, come first *)
Lemma isort_min_prefix t pre l : Forall (fun a => a = t) pre -> Forall (fun a => t <= a) l -> isort (pre ++ l) = pre ++ isort l.
Proof.
  intros Hp Hl. induction Hp as [|x pre Hx Hp IH]; [reflexivity|]. subst x. cbn [app isort]. rewrite IH.
  assert (Hall : Forall (fun a => t <= a) (pre ++ isort l)).
  { apply Forall_app. split; [|apply (Permutation_Forall (isort_perm l)); exact Hl].
    eapply Forall_impl; [|exact Hp]. cbn beta. intros a ->. lia. }
  destruct (pre ++ isort l) as [|y r]; [reflexivity|]. cbn [insert]. inversion Hall; subst. replace (t <=? y) with true by lia. reflexivity.
Qed.

Lemma isort_forall (P : N -> Prop) l : Forall P l -> Forall P (isort l).
Proof. intros H. exact (Permutation_Forall (isort_perm l) H). Qed.

(* ---- what is fixed by the scripts ---- *)
Definition is_recv (st : step) : bool := match st with STimeoutRecv _ _ => true | _ => false end.

(* a task is a receiver iff its script awaits a receive *)
Definition rcv_of (tk0 : task) : bool := existsb is_recv (t_steps tk0).

Definition on_chan (c : N) (l : list (N * N)) : list N := map snd (filter (fun p => fst p =? c) l).

(* the instants at which messages are sent into channel c of module m, in order *)
Definition arrivals (ts0 : list task) (m c : N) : list N :=
  isort (flat_map (fun tk0 => if t_mod tk0 =? m then on_chan c (exp_sends (t_start tk0) None (t_steps tk0)) else []) ts0).

(* the log the property demands of the task; [A0 m]: the arrivals in the channels of module m *)
Definition expected (A0 : N -> arrs) (tk0 : task) : list N := exp_run (t_start tk0) None (A0 (t_mod tk0)) (t_steps tk0).

(* a task as the decoder produces it, restricted to the fragment without channels; all its deadlines
   are finite (below SimTime::MAX = TMAX, i.e. 2^62 - 1 ns: a Sleep with deadline SimTime::MAX never elapses) *)
Definition init_ok (tk0 : task) : Prop :=
  Forall frag_step (t_steps tk0) /\ t_cur tk0 = None /\ t_iv tk0 = None /\ t_log tk0 = [] /\
  t_fin tk0 = false /\ t_mod tk0 < 2 /\ Forall (fun x => x < TMAX) (expected (fun _ => noarr) tk0).

(* ... with channels: no receive of the task is a tie (recv_ok) *)
Definition init_ok2 (A0 : N -> arrs) (tk0 : task) : Prop :=
  Forall (frag_step2 (rcv_of tk0)) (t_steps tk0) /\ t_cur tk0 = None /\ t_iv tk0 = None /\ t_log tk0 = [] /\
  t_fin tk0 = false /\ t_mod tk0 < 2 /\ Forall (fun x => x < TMAX) (expected A0 tk0) /\
  recv_ok (t_start tk0) None (A0 (t_mod tk0)) (t_steps tk0).

Definition unspawned (tk : task) : Prop := t_cur tk = None /\ t_fin tk = false.

(* the Sleeps a task holds (all registered while it is blocked) *)
Definition held (tk : task) : list sleep := held_sleeps (t_cur tk) (t_iv tk).

(* the three states of a task, against the task as it was scripted; [A m]: the arrivals the
   receiver of module m still expects *)
Inductive tstate (A0 A : N -> arrs) (tk0 tk : task) : Prop :=
| TUn : tk = tk0 ->
    expected A0 tk0 = exp_run (t_start tk0) None (A (t_mod tk0)) (t_steps tk0) ->
    recv_ok (t_start tk0) None (A (t_mod tk0)) (t_steps tk0) -> tstate A0 A tk0 tk
| TBl a st rest :
    t_mod tk = t_mod tk0 -> t_start tk = t_start tk0 -> t_steps tk = st :: rest -> Forall (frag_step2 (rcv_of tk0)) rest ->
    t_cur tk = Some a -> t_fin tk = false -> aw_kind a (t_iv tk) ->
    Forall (fun s => handle s = Some (deadline s)) (aw_held a (t_iv tk)) -> NoDup (map sid (aw_held a (t_iv tk))) ->
    expected A0 tk0 = t_log tk ++ aw_rec a (t_iv tk) (A (t_mod tk0)) ++
                      exp_run (aw_end a (t_iv tk) (A (t_mod tk0))) (iv_abs (iv_after a (t_iv tk))) (aw_arr a (A (t_mod tk0))) rest ->
    aw_ok a (A (t_mod tk0)) ->
    recv_ok (aw_end a (t_iv tk) (A (t_mod tk0))) (iv_abs (iv_after a (t_iv tk))) (aw_arr a (A (t_mod tk0))) rest ->
    (forall ch, waits_on (Some a) = Some ch -> rcv_of tk0 = true) -> tstate A0 A tk0 tk
| TDn :
    t_mod tk = t_mod tk0 -> t_start tk = t_start tk0 -> t_steps tk = [] -> t_cur tk = None -> t_iv tk = None ->
    t_fin tk = true -> t_log tk = expected A0 tk0 -> tstate A0 A tk0 tk.

(* payload of the message that makes its module spawn task k *)
Definition msg_of (k : nat) : N := 2 + N.of_nat k.

(* the entries of driver m are exactly the Sleeps held by the tasks of module m, each woken
   through its own task; inside an event at instant t the tasks in [q] are about to be polled:
   their Sleeps that were due have been popped *)
Record Tie (ts : list task) (t : N) (q : list nat) (m : N) (dr : driver) : Prop := {
  tie_entry : forall k tk s, nth_error ts k = Some tk -> In s (held tk) -> t_mod tk = m -> (~ In k q \/ t < deadline s) ->
              In (sid s) (ents_at (deadline s) (pending dr));
  tie_task : forall d id, In id (ents_at d (pending dr)) ->
             exists k tk s, nth_error ts k = Some tk /\ In s (held tk) /\ t_mod tk = m /\ sid s = id /\ deadline s = d;
  tie_nodup : forall d, NoDup (ents_at d (pending dr)) }.

(* what does not depend on where in an event we are *)
(* the Sleeps a task owns: those it holds, and the Sleep of its interval (not registered, hence
   not held, outside of tick().await) *)
Definition owned (tk : task) : list sleep := held tk ++ match t_iv tk with Some i => [iv_delay i] | None => [] end.

Record Base (A0 A : N -> arrs) (ts0 ts : list task) (own : wakers) (nid : N) : Prop := {
  b_states : Forall2 (tstate A0 A) ts0 ts;
  b_init : Forall (init_ok2 A0) ts0;
  (* at most one task of a module receives *)
  b_one : forall k k' tk0 tk0', nth_error ts0 k = Some tk0 -> nth_error ts0 k' = Some tk0' ->
          rcv_of tk0 = true -> rcv_of tk0' = true -> t_mod tk0 = t_mod tk0' -> k = k';
  b_ids : forall k tk s, nth_error ts k = Some tk -> In s (held tk) ->
          sid s < nid /\ waker_of own (sid s) = Some k;
  b_own : forall k tk s, nth_error ts k = Some tk -> In s (owned tk) -> sid s < nid;
  b_distinct : forall k k' tk tk' s s', nth_error ts k = Some tk -> nth_error ts k' = Some tk' ->
               In s (owned tk) -> In s' (owned tk') -> sid s = sid s' -> k = k' }.

Lemma held_owned tk s : In s (held tk) -> In s (owned tk).
Proof. intros H. apply in_or_app. left; exact H. Qed.

(* the messages in the event set: one for every unspawned task that is not exempt ([later]) *)
Record Msgs (ts : list task) (l : list ev) (later : nat -> Prop) : Prop := {
  m_task : forall e, In e l -> 2 <= epay e ->
           exists k tk, epay e = msg_of k /\ nth_error ts k = Some tk /\ unspawned tk /\ etime e = t_start tk /\ 0 < etime e;
  m_nodup : NoDup (filter (fun p => 2 <=? p) (map epay l));
  m_all : forall k tk, nth_error ts k = Some tk -> unspawned tk -> later k \/ exists e, In e l /\ epay e = msg_of k;
  m_later : forall k, later k -> exists tk, nth_error ts k = Some tk /\ unspawned tk }.

(* A message that is received cancels the delay of its timeout, possibly the timer next_wakeup
   was scheduled for: that wake-up is stale then -- it fires, finds nothing, and the next one is
   scheduled.  [stale]: 1 iff next_wakeup points at a slot without a timer *)
Definition stale (dr : driver) : nat :=
  match next_wakeup dr with
  | Some x => match ents_at x (pending dr) with [] => 1%nat | _ => 0%nat end
  | None => 0%nat
  end.

(* ---- the channels ---- *)
(* the messages a task will still send, from its state *)
Definition fut_sends (tk : task) : list (N * N) :=
  match t_cur tk with
  | None => if t_fin tk then [] else exp_sends (t_start tk) None (t_steps tk)
  | Some a => exp_sends (aw_end a (t_iv tk) noarr) (iv_abs (iv_after a (t_iv tk))) (tl (t_steps tk))
  end.

Definition fsends (m c : N) (ts : list task) : list N :=
  flat_map (fun tk => if t_mod tk =? m then on_chan c (fut_sends tk) else []) ts.

Definition chan_inst (m c : N) (mail : mailbox) : list N := map deadline (chan m c mail).

(* the arrivals still expected in channel c of module m at instant t: the messages that are in
   the channel (sent no later than t), then the ones that will be sent (no earlier than t) *)
Definition Arr (A : N -> arrs) (t : N) (ts : list task) (mail : mailbox) : Prop :=
  forall m c, A m c = chan_inst m c mail ++ isort (fsends m c ts) /\
              Forall (fun a => a <= t) (chan_inst m c mail) /\ Forall (fun a => t <= a) (fsends m c ts).

(* at an event boundary *)
Record WInv (A0 A : N -> arrs) (ts0 : list task) (later : nat -> Prop) (w : world) : Prop := {
  wi_si : SI (w_fes w);
  wi_tcur : s_tcur (w_fes w) = w_now w;
  wi_inert : inert (w_mail w);
  wi_arr : Arr A (w_now w) (w_tasks w) (w_mail w);
  (* no receiver is blocked while its channel holds a message *)
  wi_norecv : forall k tk ch, nth_error (w_tasks w) k = Some tk -> waits_on (t_cur tk) = Some ch -> chan (t_mod tk) ch (w_mail w) = [];
  wi_base : Base A0 A ts0 (w_tasks w) (w_owner w) (w_nid w);
  wi_drv : forall m, m < 2 -> exists l, l <= w_now w /\ Inv l (drv_of w m) /\
           Permutation (wakes m (spend (w_fes w))) (scheduled (drv_of w m)) /\
           Tie (w_tasks w) l [] m (drv_of w m) /\ Snap l (drv_of w m);
  wi_msgs : Msgs (w_tasks w) (spend (w_fes w)) later }.

(* ---- small facts ---- *)
Lemma tstate_cases A0 A tk0 tk : tstate A0 A tk0 tk -> init_ok2 A0 tk0 ->
  t_mod tk = t_mod tk0 /\ t_start tk = t_start tk0 /\
  (t_cur tk = None \/ exists a, t_cur tk = Some a /\ aw_kind a (t_iv tk)).
Proof.
  intros [-> _ _|a st rest H1 H2 H3 H4 H5 H7 H8 H9 H10 H11 _ _ _|H1 H2 H3 H4 H5 H6 H7] (I1 & I2 & I3 & I4 & I5 & I6 & I7).
  - repeat split; try assumption; try reflexivity. left; exact I2.
  - repeat split; try assumption. right; exists a; split; assumption.
  - repeat split; try assumption. left; exact H4.
Qed.

Lemma Forall2_nth {A B} (R : A -> B -> Prop) l l' k b : Forall2 R l l' -> nth_error l' k = Some b ->
  exists a, nth_error l k = Some a /\ R a b.
Proof.
  intros H. revert k. induction H as [|x y l l' Hxy _ IH]; intros k Hk; [destruct k; discriminate|].
  destruct k as [|k]; cbn [nth_error] in *; [injection Hk as <-; exists x; split; [reflexivity|exact Hxy]|exact (IH k Hk)].
Qed.

Lemma Forall2_set_nth {A B} (R : A -> B -> Prop) l l' k a b : Forall2 R l l' -> nth_error l k = Some a -> R a b ->
  Forall2 R l (set_nth k b l').
Proof.
  intros H. revert k. induction H as [|x y l l' Hxy H IH]; intros k Hk Hr; [destruct k; discriminate|].
  destruct k as [|k]; cbn [nth_error set_nth] in *.
  - injection Hk as ->. constructor; assumption.
  - constructor; [exact Hxy|exact (IH k Hk Hr)].
Qed.

Lemma Forall2_nth_impl {A B} (R Q : A -> B -> Prop) l l' : Forall2 R l l' ->
  (forall k a b, nth_error l k = Some a -> nth_error l' k = Some b -> R a b -> Q a b) -> Forall2 Q l l'.
Proof.
  intros H. induction H as [|x y l l' Hxy H IH]; intros Himp; [constructor|].
  constructor; [exact (Himp 0%nat x y eq_refl eq_refl Hxy)|].
  apply IH. intros k a b Ha Hb Hr. exact (Himp (S k) a b Ha Hb Hr).
Qed.

Lemma Forall2_set_nth_impl {A B} (R Q : A -> B -> Prop) l l' k a b : Forall2 R l l' -> nth_error l k = Some a -> Q a b ->
  (forall k' a' b', k' <> k -> nth_error l k' = Some a' -> nth_error l' k' = Some b' -> R a' b' -> Q a' b') ->
  Forall2 Q l (set_nth k b l').
Proof.
  intros H. revert k. induction H as [|x y l l' Hxy H IH]; intros k Hk Hq Himp; [destruct k; discriminate|].
  destruct k as [|k]; cbn [nth_error set_nth] in *.
  - injection Hk as ->. constructor; [exact Hq|].
    apply (Forall2_nth_impl R Q l l' H). intros k' a' b' Ha Hb Hr. apply (Himp (S k') a' b'); [lia|exact Ha|exact Hb|exact Hr].
  - constructor; [apply (Himp 0%nat x y); [lia|reflexivity|reflexivity|exact Hxy]|].
    apply (IH k Hk Hq). intros k' a' b' Hne Ha Hb Hr. apply (Himp (S k') a' b'); [lia|exact Ha|exact Hb|exact Hr].
Qed.

Lemma nth_set_nth_same {A} (l : list A) k x y : nth_error l k = Some y -> nth_error (set_nth k x l) k = Some x.
Proof.
  revert k; induction l as [|a l IH]; intros k H; [destruct k; discriminate|].
  destruct k as [|k]; cbn [nth_error set_nth] in *; [reflexivity|exact (IH k H)].
Qed.

Lemma nth_set_nth_other {A} (l : list A) k k' x : k <> k' -> nth_error (set_nth k x l) k' = nth_error l k'.
Proof.
  revert k k'; induction l as [|a l IH]; intros k k' H; [destruct k; reflexivity|].
  destruct k as [|k], k' as [|k']; cbn [nth_error set_nth]; try reflexivity; [contradiction H; reflexivity|].
  apply IH. intros E; apply H; f_equal; exact E.
Qed.

Lemma length_set_nth {A} (l : list A) k x : length (set_nth k x l) = length l.
Proof. revert k; induction l as [|a l IH]; intros k; [destruct k; reflexivity|]. destruct k; cbn [set_nth length]; [reflexivity|rewrite IH; reflexivity]. Qed.

(* the await states that do not wait on a channel do not depend on the arrivals *)
Lemma aw_noarr a iv arr arr' : waits_on (Some a) = None ->
  aw_rec a iv arr = aw_rec a iv arr' /\ aw_end a iv arr = aw_end a iv arr' /\ aw_arr a arr = arr /\ aw_arr a arr' = arr' /\ aw_ok a arr'.
Proof.
  destruct a as [s|v dl|biased tie sa sb| | | | |rearm d3 s sx|pre s|kr chi cho]; try (cbn [waits_on]; discriminate); try (intros _; repeat split; reflexivity).
  destruct v; cbn [waits_on]; intros H; try discriminate; repeat split; reflexivity.
Qed.

Lemma min2 (s1 s2 : sleep) : (exists s, In s [s1; s2] /\ deadline s = N.min (deadline s1) (deadline s2)) /\
  forall s, In s [s1; s2] -> N.min (deadline s1) (deadline s2) <= deadline s.
Proof.
  split.
  - destruct (N.min_spec (deadline s1) (deadline s2)) as [[_ E]|[_ E]]; rewrite E;
      [exists s1; split; [left; reflexivity|reflexivity]|exists s2; split; [right; left; reflexivity|reflexivity]].
  - intros s' [<-|[<-|[]]]; lia.
Qed.

(* facts about the await states of the fragment *)
Lemma aw_wake_held a iv : aw_kind a iv ->
  (exists s, In s (aw_held a iv) /\ deadline s = aw_wake a iv) /\ forall s, In s (aw_held a iv) -> aw_wake a iv <= deadline s.
Proof.
  assert (H1 : forall s : sleep, (exists s', In s' [s] /\ deadline s' = deadline s) /\ forall s', In s' [s] -> deadline s <= deadline s').
  { intros s. split; [exists s; split; [left; reflexivity|reflexivity]|intros s' [<-|[]]; lia]. }
  destruct a as [s|v dl|biased tie sa sb| | | | |rearm d3 s sx|pre s|kr chi cho]; try contradiction.
  - intros _. apply H1.
  - destruct v as [s| |ch|]; try contradiction; intros _; cbn [aw_held held_sleeps aw_wake]; [apply min2|apply H1].
  - intros _. cbn [aw_held held_sleeps aw_wake]. apply min2.
  - destruct iv as [i|]; [|intros H; contradiction H; reflexivity]. intros _. cbn [aw_held held_sleeps aw_wake]. apply H1.
  - intros _. cbn [aw_held held_sleeps aw_wake]. apply min2.
  - intros _. apply H1.
Qed.

Lemma aw_wake_in_rec a iv arr : aw_kind a iv -> waits_on (Some a) = None -> In (aw_wake a iv) (aw_rec a iv arr).
Proof.
  destruct a as [s|v dl|biased tie sa sb| | | | |rearm d3 s sx|pre s|kr chi cho]; try contradiction.
  - intros _ _. left; reflexivity.
  - destruct v as [s| |ch|]; try contradiction; [intros _ _; left; reflexivity|intros _ H; discriminate].
  - intros _ _. left; reflexivity.
  - destruct iv as [i|]; [|intros H; contradiction H; reflexivity]. intros _ _. left; reflexivity.
  - intros _ _. cbn [aw_wake aw_rec]. destruct (deadline s <=? deadline sx) eqn:E; left; lia.
  - intros _ _. cbn [aw_wake aw_rec]. apply in_or_app. right. left. reflexivity.
Qed.

(* the instant of the first timer wake-up of a blocked task is finite *)
Lemma blocked_fin A0 A tk0 tk a : tstate A0 A tk0 tk -> init_ok2 A0 tk0 -> t_cur tk = Some a -> aw_wake a (t_iv tk) < TMAX.
Proof.
  intros Hst (_ & I2 & _ & _ & _ & _ & I7 & _) Hc.
  destruct Hst as [-> _ _|a' st rest _ _ _ _ H5 _ Hk _ _ H9 Hao _ _|_ _ _ H4 _ _ _].
  - rewrite I2 in Hc. discriminate.
  - rewrite H5 in Hc. injection Hc as ->. destruct (waits_on (Some a)) as [ch|] eqn:Ew.
    + destruct a as [s|v dl| | | | | | | |]; try discriminate; try contradiction. destruct v; try discriminate. exact (proj1 Hao).
    + rewrite Forall_forall in I7. apply I7. rewrite H9.
      apply in_or_app. right. apply in_or_app. left. exact (aw_wake_in_rec a _ _ Hk Ew).
  - rewrite H4 in Hc. discriminate.
Qed.

Lemma base_blocked_fin A0 A ts0 ts own nid k tk a : Base A0 A ts0 ts own nid -> nth_error ts k = Some tk ->
  t_cur tk = Some a -> aw_wake a (t_iv tk) < TMAX.
Proof.
  intros B Hk Hc. destruct (Forall2_nth _ _ _ _ _ (b_states _ _ _ _ _ _ B) Hk) as (tk0 & Hk0 & Hst).
  apply (blocked_fin A0 A tk0 tk a Hst); [|exact Hc]. pose proof (b_init _ _ _ _ _ _ B) as Ha. rewrite Forall_forall in Ha.
  apply Ha. eapply nth_error_In; exact Hk0.
Qed.

(* a task that holds a Sleep is blocked on an await state of the fragment that holds it *)
Lemma held_blocked A0 A tk0 tk s : tstate A0 A tk0 tk -> init_ok2 A0 tk0 -> In s (held tk) ->
  exists a, t_cur tk = Some a /\ aw_kind a (t_iv tk) /\ In s (aw_held a (t_iv tk)) /\ handle s = Some (deadline s) /\
            NoDup (map sid (aw_held a (t_iv tk))) /\ held tk = aw_held a (t_iv tk).
Proof.
  intros Hst (_ & I2 & I3 & _) Hin. unfold held in *.
  destruct Hst as [-> _ _|a st rest _ _ _ _ H5 _ Hk Hh Hnd _ _ _ _|_ _ _ H4 _ _ _].
  - rewrite I2 in Hin. contradiction.
  - rewrite H5 in *. exists a. rewrite Forall_forall in Hh. repeat split; try assumption; try reflexivity. exact (Hh s Hin).
  - rewrite H4 in Hin. contradiction.
Qed.

(* a task that is not the receiver of its module: its state does not depend on the arrivals *)
Lemma tstate_noarr A0 A A' tk0 tk : tstate A0 A tk0 tk -> init_ok2 A0 tk0 -> rcv_of tk0 = false -> tstate A0 A' tk0 tk.
Proof.
  intros Hst (I1 & _) Hr. rewrite Hr in I1.
  destruct Hst as [-> He Ho|a st rest H1 H2 H3 H4 H5 H7 H8 H9 H10 H11 H12 H13 H14|H1 H2 H3 H4 H5 H6 H7].
  - apply TUn; [reflexivity| |apply recv_ok_noarr; exact I1]. rewrite He. apply exp_run_noarr. exact I1.
  - rewrite Hr in H4.
    assert (Hw : waits_on (Some a) = None).
    { destruct (waits_on (Some a)) as [ch|] eqn:E; [|reflexivity]. specialize (H14 ch eq_refl). congruence. }
    destruct (aw_noarr a (t_iv tk) (A (t_mod tk0)) (A' (t_mod tk0)) Hw) as (E1 & E2 & E3 & E4 & E5).
    apply (TBl _ _ _ _ a st rest); try assumption.
    + rewrite Hr. exact H4.
    + rewrite H11, E1, E2, E3, E4. f_equal. f_equal. apply exp_run_noarr. exact H4.
    + rewrite E4. apply recv_ok_noarr. exact H4.
  - apply TDn; assumption.
Qed.

(* a receiver never sends *)
Lemma rcv_no_sends A0 A tk0 tk : tstate A0 A tk0 tk -> init_ok2 A0 tk0 -> rcv_of tk0 = true -> fut_sends tk = [].
Proof.
  intros Hst (I1 & I2 & _ & _ & I5 & _) Hr. rewrite Hr in I1. unfold fut_sends.
  destruct Hst as [-> _ _|a st rest H1 H2 H3 H4 H5 H7 H8 H9 H10 H11 H12 H13 H14|H1 H2 H3 H4 H5 H6 H7].
  - rewrite I2, I5. apply exp_sends_rcv. exact I1.
  - rewrite H5, H3. cbn [tl]. rewrite Hr in H4. apply exp_sends_rcv. exact H4.
  - rewrite H4, H6. reflexivity.
Qed.
