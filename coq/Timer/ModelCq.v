(* The composite timer model of Timer/Model.v once more, with the event set of the real crate:
   the CONCRETE calendar queue (CQueue.Model.cq, the model of des-cqueue that C01 is about:
   buckets, head, t0/t1 window, with the parameters n, t of Builder::cqueue_options) in place
   of C01's two-list SPECIFICATION (CQueue.Spec.sp) that Model.v uses for the fetch order:
     sp_new -> cq_new_at n t 0      sp_add -> add      sp_fetch -> fetch_next
     "no event pending"  ->  qlen = 0   (Runtime::run: while !fes.is_empty() { fetch_next() .. })
   Everything below the event loop (tasks, futures, executor run queue, drivers, waker table,
   channels: Model.v [run_steps], [poll_task], [run_queue], activate / deactivate) does not
   touch the event set and is shared: the state is a pair of the calendar queue and a [world]
   whose w_fes field is never read nor written here (it stays sp_new).  The three places that
   do touch the event set -- the wake-up that deactivate asks for at the end of a module's
   event, the messages injected before the run, the fetch of the main loop -- are the
   definitions of Model.v with the calls replaced (suffix _cq).
   Timer/OverCq.v proves that for all n, t >= 1 the run over the calendar queue prints exactly
   what Model.run prints.  No proofs in this file. *)
From Coq Require Import List NArith PArith Bool.
From DesVerif Require Import Common.Fuel Common.Codec CQueue.Model CQueue.Spec Timer.Driver Timer.Futures Timer.Model.
Import ListNotations.
Open Scope N_scope.

Record cworld := { c_q : cq; c_w : world }.

(* FutureEventSet::add(time, event); the handle and the result code are not used *)
Definition cq_add (q : cq) (time pay : N) : cq := fst (fst (add q time pay)).

Definition module_event_cq (wfix : bool) (t m : N) (spawn : list nat) (fire : bool) (cw : cworld) : cworld :=
  let w := c_w cw in
  let dr := if fire then sched_fire t (drv_of w m) else drv_of w m in
  let '(woken, dr1) := activate t dr in
  let q := dedup (flat_map (owner_of (w_owner w)) (flat_map snd woken) ++ spawn) in
  let w1 := set_drv w m dr1 in
  let w2 := run_queue wfix (queue_fuel w1 q) t m q w1 in
  let '(dr3, wk) := deactivate true (drv_of w2 m) in
  let w3 := set_drv w2 m dr3 in
  {| c_q := match wk with Some x => cq_add (c_q cw) x m | None => c_q cw end;
     c_w := {| w_fes := w_fes w3; w_now := t; w_d0 := w_d0 w3; w_d1 := w_d1 w3; w_tasks := w_tasks w3; w_nid := w_nid w3;
               w_owner := w_owner w3; w_mail := w_mail w3; w_snaps := w_snaps w3 |} |}.

Fixpoint inject_cq (i : nat) (ts : list task) (q : cq) : cq :=
  match ts with
  | [] => q
  | tk :: r => inject_cq (S i) r (if t_start tk =? 0 then q else cq_add q (t_start tk) (2 + N.of_nat i))
  end.

(* FutureEventSet::new_with -> CQueue::new_at(n, t, SimTime::ZERO) *)
Definition init_world_cq (n t : N) (ts : list task) : cworld :=
  {| c_q := inject_cq 0 ts (cq_new_at n t 0);
     c_w := {| w_fes := sp_new; w_now := 0; w_d0 := new_driver; w_d1 := new_driver;
               w_tasks := ts; w_nid := 0; w_owner := []; w_mail := []; w_snaps := [] |} |}.

Definition take_snaps_cq (cw : cworld) : cworld := {| c_q := c_q cw; c_w := take_snaps (c_w cw) |}.

Definition sim_start_cq (wfix : bool) (cw : cworld) : cworld :=
  let cw0 := module_event_cq wfix 0 0 (start_tasks 0 0 (w_tasks (c_w cw))) false cw in
  take_snaps_cq (module_event_cq wfix 0 1 (start_tasks 1 0 (w_tasks (c_w cw0))) false cw0).

Definition loop_step_cq (wfix : bool) (cw : cworld) : cworld + cworld :=
  if qlen (c_q cw) =? 0 then inr cw else
  match fetch_next (c_q cw) with
  | (q', OFetched pay t) =>
    let cw1 := {| c_q := q'; c_w := c_w cw |} in
    if pay <? 2 then inl (take_snaps_cq (module_event_cq wfix t pay [] true cw1))
    else
      let k := N.to_nat (pay - 2) in
      match nth_error (w_tasks (c_w cw1)) k with
      | Some tk => inl (take_snaps_cq (module_event_cq wfix t (t_mod tk) [k] false cw1))
      | None => inl cw1
      end
  | (_, _) => inr cw
  end.

Definition run_tasks_cq (wfix : bool) (n t : N) (ts : list task) : cworld * bool :=
  match iter_until (fuel ts) (loop_step_cq wfix) (sim_start_cq wfix (init_world_cq n t ts)) with
  | inr cw => (cw, true)
  | inl cw => (cw, false)
  end.

(* the same wire format as Model.run_gen, for a given parameterisation of the calendar queue *)
Definition run_gen_cq (wfix : bool) (n t : N) (input : list N) : list N :=
  let '(cw, ok) := run_tasks_cq wfix n t (decode input) in
  let w := c_w cw in
  flat_map enc_task (w_tasks w) ++ [b2n (forallb t_fin (w_tasks w)); w_now w] ++ w_snaps w ++ (if ok then [] else [8]).

Definition run_cq (n t : N) (input : list N) : list N := run_gen_cq true n t input.
