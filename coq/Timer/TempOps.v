(* A Sleep that is registered and, within the same poll, dropped or reset leaves the entries
   of the driver exactly as they were (it leaves empty slots behind), provided its id is
   fresh: the removal by id then hits its own entry. *)
From Coq Require Import List NArith Bool Lia ZifyBool.
From DesVerif Require Import Timer.Driver Timer.QueueLemmas Timer.Inv Timer.Futures Timer.FutureLaws.
Import ListNotations.
Open Scope N_scope.

Lemma ents_remove_app_fresh id es : ~ In id es -> ents_remove id (es ++ [id]) = Some es.
Proof.
  induction es as [|a r IH]; intros H; cbn [app ents_remove]; [rewrite N.eqb_refl; reflexivity|].
  destruct (a =? id) eqn:E; [exfalso; apply H; left; lia|]. rewrite IH; [reflexivity|]. intros Hin; apply H; right; exact Hin.
Qed.

Lemma rm_app_fresh id es : ~ In id es -> rm id (es ++ [id]) = es.
Proof. intros H. unfold rm. rewrite (ents_remove_app_fresh _ _ H). reflexivity. Qed.

Lemma ents_remove_fresh id es : ~ In id es -> ents_remove id es = None.
Proof.
  induction es as [|a r IH]; intros H; cbn [ents_remove]; [reflexivity|].
  destruct (a =? id) eqn:E; [exfalso; apply H; left; lia|]. rewrite IH; [reflexivity|]. intros Hin; apply H; right; exact Hin.
Qed.

Lemma rm_fresh id es : ~ In id es -> rm id es = es.
Proof. intros H. unfold rm. rewrite (ents_remove_fresh _ _ H). reflexivity. Qed.

Definition fresh_in (id : N) (p : list slot) : Prop := forall x, ~ In id (ents_at x p).

Lemma drop_registered_ents id d dr x : sorted (pending dr) -> fresh_in id (pending dr) ->
  ents_at x (pending (drop_entry id d (register id d dr))) = ents_at x (pending dr).
Proof.
  intros Hs Hf. cbn [drop_entry register set_pending pending]. rewrite ents_at_remove, !(ents_at_add _ _ _ _ Hs), N.eqb_refl.
  destruct (x =? d) eqn:E; [|reflexivity]. replace x with d by lia. apply rm_app_fresh, Hf.
Qed.

Lemma reset_registered_ents id d d' dr x : sorted (pending dr) -> fresh_in id (pending dr) ->
  ents_at x (pending (reset_entry id d d' (register id d dr))) = ents_at x (pending dr).
Proof.
  intros Hs Hf. rewrite reset_entry_pending. cbn [register set_pending pending].
  pose proof (q_add_sorted id d _ Hs) as Hs1.
  destruct (q_take_at d id (q_add id d (pending dr))) as [p1|] eqn:Et.
  - pose proof (q_take_at_sorted _ _ _ _ Et Hs1) as Hsp1.
    assert (H1 : forall y, ents_at y p1 = ents_at y (pending dr)).
    { intros y. rewrite (ents_at_take _ _ _ _ y Et), !(ents_at_add _ _ _ _ Hs), N.eqb_refl.
      destruct (y =? d) eqn:E; [|reflexivity]. replace y with d by lia. apply rm_app_fresh, Hf. }
    rewrite !ents_at_remove, !(ents_at_add _ _ _ _ Hsp1), !H1, ?N.eqb_refl.
    destruct (x =? d') eqn:E1.
    + replace x with d' by lia. destruct (d' =? d) eqn:E2.
      * replace (d =? d') with true by lia. rewrite rm_app_fresh by apply Hf. apply rm_fresh, Hf.
      * apply rm_app_fresh, Hf.
    + destruct (x =? d) eqn:E2; [|reflexivity]. replace x with d by lia.
      destruct (d =? d') eqn:E3; [lia|]. apply rm_fresh, Hf.
  - exfalso. apply q_take_at_none in Et. rewrite (ents_at_add _ _ _ _ Hs), N.eqb_refl in Et.
    rewrite (ents_remove_app_fresh _ _ (Hf d)) in Et. discriminate.
Qed.

(* polled (if it is not due yet: registered), then dropped *)
Lemma poll_drop_ents now D id dr x : sorted (pending dr) -> fresh_in id (pending dr) ->
  ents_at x (pending (let '(_, s1, dr1) := sleep_poll now (sleep_new D id) dr in sleep_drop s1 dr1)) = ents_at x (pending dr).
Proof.
  intros Hs Hf. unfold sleep_poll, sleep_new. cbn [deadline handle sid].
  destruct (now <? D); unfold sleep_drop; cbn [handle sid]; [apply drop_registered_ents; assumption|reflexivity].
Qed.

Lemma poll_drop_acts now D id dr :
  acts now dr (let '(_, s1, dr1) := sleep_poll now (sleep_new D id) dr in sleep_drop s1 dr1).
Proof.
  pose proof (sleep_poll_acts now (sleep_new D id) dr) as H. destruct (sleep_poll now (sleep_new D id) dr) as [[r s1] dr1].
  cbn [snd] in H. eapply acts_trans; [exact H|apply sleep_drop_acts].
Qed.

(* created, polled if asked, reset: the Sleep is not registered afterwards *)
Definition reset_prep (now : N) (polled : bool) (D1 D2 id : N) (dr : driver) : sleep * driver :=
  let s0 := sleep_new D1 id in
  let '(s1, dr1) := if polled then let '(_, s1, dr1) := sleep_poll now s0 dr in (s1, dr1) else (s0, dr) in
  sleep_reset s1 D2 dr1.

Lemma reset_prep_spec now polled D1 D2 id dr : sorted (pending dr) -> fresh_in id (pending dr) ->
  fst (reset_prep now polled D1 D2 id dr) = {| deadline := D2; sid := id; handle := None |} /\
  acts now dr (snd (reset_prep now polled D1 D2 id dr)) /\
  forall x, ents_at x (pending (snd (reset_prep now polled D1 D2 id dr))) = ents_at x (pending dr).
Proof.
  intros Hs Hf. unfold reset_prep. destruct polled.
  - pose proof (sleep_poll_acts now (sleep_new D1 id) dr) as Ha.
    unfold sleep_poll, sleep_new in *. cbn [deadline handle sid] in *.
    destruct (now <? D1); cbn [snd] in Ha; unfold sleep_reset; cbn [deadline handle sid fst snd].
    + split; [reflexivity|]. split.
      * eapply acts_trans; [exact Ha|]. apply (acts_one now _ (ResetEntry id D1 D2)). exact I.
      * intros x. apply reset_registered_ents; assumption.
    + split; [reflexivity|]. split; [apply acts_refl|reflexivity].
  - unfold sleep_reset, sleep_new. cbn [deadline handle sid fst snd]. split; [reflexivity|]. split; [apply acts_refl|reflexivity].
Qed.

(* with distinct ids in a slot, removal by id takes out exactly that id *)
Lemma rm_in_iff id es a : NoDup es -> (In a (rm id es) <-> In a es /\ a <> id).
Proof.
  intros Hnd. unfold rm. destruct (ents_remove id es) as [e|] eqn:E.
  - revert e E. induction es as [|x r IH]; intros e E; cbn [ents_remove] in E; [discriminate|].
    inversion Hnd as [|? ? Hx Hr]; subst. destruct (x =? id) eqn:Ex.
    + injection E as <-. assert (x = id) by lia. subst x. split.
      * intros Hin. split; [right; exact Hin|intros ->; contradiction].
      * intros [[->|Hin] Hne]; [contradiction Hne; reflexivity|exact Hin].
    + destruct (ents_remove id r) as [r'|] eqn:Er; [|discriminate]. injection E as <-. specialize (IH Hr r' eq_refl). split.
      * intros [->|Hin]; [split; [left; reflexivity|lia]|]. apply IH in Hin. split; [right; exact (proj1 Hin)|exact (proj2 Hin)].
      * intros [[->|Hin] Hne]; [left; reflexivity|right; apply IH; split; assumption].
  - split; [intros Hin; split; [exact Hin|]|intros [Hin _]; exact Hin].
    intros ->. clear Hnd. induction es as [|x r IH]; [contradiction|]. cbn [ents_remove] in E.
    destruct (x =? id) eqn:Ex; [discriminate|]. destruct (ents_remove id r); [discriminate|].
    destruct Hin as [->|Hin]; [lia|exact (IH eq_refl Hin)].
Qed.

Lemma rm_nodup id es : NoDup es -> NoDup (rm id es).
Proof.
  intros Hnd. unfold rm. destruct (ents_remove id es) as [e|] eqn:E; [|exact Hnd].
  revert e E. induction es as [|x r IH]; intros e E; cbn [ents_remove] in E; [discriminate|].
  inversion Hnd as [|? ? Hx Hr]; subst. destruct (x =? id); [injection E as <-; exact Hr|].
  destruct (ents_remove id r) as [r'|] eqn:Er; [|discriminate]. injection E as <-. constructor; [|exact (IH Hr r' eq_refl)].
  intros Hin. apply Hx. exact (ents_remove_in _ _ _ _ Er Hin).
Qed.

(* reset of a Sleep that is registered (its id in its slot exactly once, and nowhere in the
   slot it moves to): the entry is gone afterwards, everything else is as it was *)
Lemma reset_existing_ents id d d' dr x : sorted (pending dr) -> In id (ents_at d (pending dr)) ->
  NoDup (ents_at d (pending dr)) -> (d' <> d -> ~ In id (ents_at d' (pending dr))) ->
  ents_at x (pending (reset_entry id d d' dr)) = if x =? d then rm id (ents_at d (pending dr)) else ents_at x (pending dr).
Proof.
  intros Hs Hin Hnd Hf. rewrite reset_entry_pending.
  destruct (q_take_at d id (pending dr)) as [p1|] eqn:Et.
  - pose proof (q_take_at_sorted _ _ _ _ Et Hs) as Hsp1.
    assert (Hno : ~ In id (rm id (ents_at d (pending dr)))).
    { intros H. apply (rm_in_iff _ _ _ Hnd) in H. destruct H as [_ H]. apply H. reflexivity. }
    rewrite !ents_at_remove, !(ents_at_add _ _ _ _ Hsp1), !(ents_at_take _ _ _ _ _ Et), ?N.eqb_refl.
    destruct (d' =? d) eqn:E2.
    + replace d' with d in * by lia. rewrite ?N.eqb_refl.
      destruct (x =? d) eqn:E1; [|reflexivity].
      rewrite (rm_app_fresh _ _ Hno). apply rm_fresh. exact Hno.
    + replace (d =? d') with false by lia.
      destruct (x =? d') eqn:E1.
      * replace x with d' by lia. rewrite E2. apply rm_app_fresh. apply Hf. lia.
      * destruct (x =? d) eqn:E3; [|reflexivity]. apply rm_fresh. exact Hno.
  - exfalso. apply q_take_at_none in Et. clear -Et Hin. induction (ents_at d (pending dr)) as [|a r IH]; [contradiction|].
    cbn [ents_remove] in Et. destruct (a =? id) eqn:E; [discriminate|]. destruct Hin as [->|Hin]; [lia|].
    destruct (ents_remove id r); [discriminate|]. exact (IH Hin eq_refl).
Qed.
