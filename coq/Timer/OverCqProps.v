(* What is proved of the composite timer model over C01's event-set specification (Timer/E2E*.v)
   holds of the same model over the concrete calendar queue (Timer/ModelCq.v), for every
   parameterisation n, t >= 1 of the queue: corollaries of the simulation of Timer/OverCq.v. *)
From Coq Require Import List NArith PArith Bool Lia.
From DesVerif Require Import Common.Fuel CQueue.Model CQueue.Spec CQueue.Refine
  Timer.Driver Timer.Futures Timer.Model Timer.ModelCq Timer.OverCq Timer.EvSet Timer.Frag Timer.E2EInv Timer.E2EPoll Timer.E2ELoop Timer.E2EInit.
Import ListNotations.
Open Scope N_scope.

(* the whole proved fragment, with channels *)
Theorem composite_exact_cq n t ts0 : n <> 0 -> t <> 0 -> chan_ok ts0 ->
  exists cw, run_tasks_cq true n t ts0 = (cw, true) /\ Forall2 (done_exact (arrivals ts0)) ts0 (w_tasks (c_w cw)).
Proof.
  intros Hn Ht Hok. destruct (composite_exact ts0 Hok) as (w & Hrun & Hdone).
  destruct (run_tasks_sim true n t ts0 Hn Ht) as [HRel Eok]. rewrite Hrun in HRel, Eok. cbn [fst snd] in *.
  destruct (run_tasks_cq true n t ts0) as [cw ok]. cbn [fst snd] in *. subst ok.
  exists cw. split; [reflexivity|]. rewrite (Rel_tasks _ _ HRel). exact Hdone.
Qed.

(* ... without channels *)
Theorem composite_sleep_exact_cq n t ts0 : n <> 0 -> t <> 0 -> Forall init_ok ts0 ->
  exists cw, run_tasks_cq true n t ts0 = (cw, true) /\
    Forall2 (fun tk0 tk => t_fin tk = true /\ t_log tk = expected (fun _ => noarr) tk0) ts0 (w_tasks (c_w cw)).
Proof.
  intros Hn Ht Hinit. destruct (composite_sleep_exact ts0 Hinit) as (w & Hrun & Hdone).
  destruct (run_tasks_sim true n t ts0 Hn Ht) as [HRel Eok]. rewrite Hrun in HRel, Eok. cbn [fst snd] in *.
  destruct (run_tasks_cq true n t ts0) as [cw ok]. cbn [fst snd] in *. subst ok.
  exists cw. split; [reflexivity|]. rewrite (Rel_tasks _ _ HRel). exact Hdone.
Qed.

(* the state a run is in after k iterations of its main loop, ended or not *)
Definition state_of {X} (x : X + X) : X := match x with inl c => c | inr c => c end.

(* in the run over the calendar queue, whenever the queue hands out the next event: the slots with
   timers that this event's activation pops from its module's driver have exactly the deadline t
   the event is stamped with *)
Theorem woken_exactly_at_deadline_cq n t ts0 : n <> 0 -> t <> 0 -> chan_ok ts0 -> forall k,
  let cw := state_of (iter_nat k (loop_step_cq true) (sim_start_cq true (init_world_cq n t ts0))) in
  forall q' pay te, fetch_next (c_q cw) = (q', OFetched pay te) ->
  forall m fire, ev_module pay (w_tasks (c_w cw)) m fire ->
  forall d es, In (d, es) (fst (activate te (if fire then sched_fire te (drv_of (c_w cw) m) else drv_of (c_w cw) m))) ->
               es <> [] -> d = te.
Proof.
  intros Hn Ht Hok k. cbn zeta.
  pose proof (iter_sim true k _ _ (sim_start_sim true _ _ (init_sim n t ts0 Hn Ht))) as HS.
  pose proof (iter_winv (arrivals ts0) ts0 k _ (sim_start_winv ts0 Hok)) as HW.
  destruct (iter_nat k (loop_step true) (sim_start true (init_world ts0))) as [w|w],
           (iter_nat k (loop_step_cq true) (sim_start_cq true (init_world_cq n t ts0))) as [cw|cw];
    cbn [RelS] in HS; try contradiction; cbn [state_of].
  - intros q' pay te Hf m fire Hev d es Hin Hne. destruct HS as [(hs & HR) Ew].
    pose proof (R_fetch _ _ _ HR) as HF. rewrite Hf in HF. destruct (sp_fetch (w_fes w)) as [f o'] eqn:Ef. destruct HF as [<- _].
    rewrite Ew in Hev, Hin. exact (event_woken_exact _ _ _ _ _ _ _ _ HW Ef Hev d es Hin Hne).
  - intros q' pay te Hf m fire Hev d es Hin Hne. destruct HS as [(hs & HR) Ew]. destruct HW as [HW _].
    pose proof (R_fetch _ _ _ HR) as HF. rewrite Hf in HF. destruct (sp_fetch (w_fes w)) as [f o'] eqn:Ef. destruct HF as [<- _].
    rewrite Ew in Hev, Hin. exact (event_woken_exact _ _ _ _ _ _ _ _ HW Ef Hev d es Hin Hne).
Qed.
