(* The wake-up invariant of the timer driver (coq/Timer/Driver.v) and its preservation by
   every event of a module, for every sequence of register / drop / reset operations
   performed during the event. *)
From Coq Require Import List NArith Bool Lia Sorting.Sorted ZifyBool.
From DesVerif Require Import Timer.Driver Timer.QueueLemmas.
Import ListNotations.
Open Scope N_scope.

(* every slot that holds an entry lies strictly in the future *)
Definition lives (t : N) (p : list slot) : Prop := forall d es, In (d, es) p -> es <> [] -> t < d.

(* holds between activate and deactivate of an event at time t *)
Record Mid (t : N) (dr : driver) : Prop := mkMid {
  mid_sorted : sorted (pending dr);
  mid_future : lives t (pending dr);
  mid_nw : forall w, next_wakeup dr = Some w -> t < w /\ In w (scheduled dr);
  mid_sched : forall w, In w (scheduled dr) -> t <= w }.

(* Inv_wake: every slot with a live entry and a finite deadline (below SimTime::MAX; a
   far-future Sleep never elapses) is covered by a scheduled wake-up that is not in the past
   and not later than the slot's deadline *)
Definition Inv_wake (now : N) (dr : driver) : Prop :=
  forall d es, In (d, es) (pending dr) -> es <> [] -> d < TMAX ->
  exists w, In w (scheduled dr) /\ now <= w /\ w <= d.

(* holds at every event boundary *)
Definition Inv (now : N) (dr : driver) : Prop := Mid now dr /\ Inv_wake now dr.

(* the contract of TimerQueue::add: its only caller Sleep::poll registers deadlines > now *)
Definition op_wf (t : N) (o : dop) : Prop :=
  match o with Register _ d => t < d | _ => True end.

Definition ops_wf (t : N) (ops : list dop) : Prop := Forall (op_wf t) ops.

Definition ev_valid (st : N * driver) (e : event) : Prop :=
  match e with
  | EOther t ops => fst st <= t /\ (forall w, In w (scheduled (snd st)) -> t <= w) /\ ops_wf t ops
  | EWake ops => exists w, lmin (scheduled (snd st)) = Some w /\ ops_wf w ops
  end.

Fixpoint valid_trace (st : N * driver) (tr : list event) : Prop :=
  match tr with
  | [] => True
  | e :: r => ev_valid st e /\
              valid_trace (fst (fst (step_event true st e)), snd (fst (step_event true st e))) r
  end.

Ltac beq := repeat match goal with
  | |- context [?a =? ?a] => rewrite (N.eqb_refl a)
  | H : ?a <> ?b |- context [?a =? ?b] => rewrite (proj2 (N.eqb_neq a b) H)
  | H : ?a <> ?b |- context [?b =? ?a] => rewrite (proj2 (N.eqb_neq b a) (not_eq_sym H))
  end.

(* ---- lives, by deadline ---- *)
Lemma lives_ents t p : sorted p -> (lives t p <-> forall x, ents_at x p <> [] -> t < x).
Proof.
  intros Hs. split.
  - intros H x Hx. exact (H x _ (ents_at_in _ _ Hx) Hx).
  - intros H d es Hin Hne. apply H. rewrite (in_ents_at _ _ _ Hs Hin). exact Hne.
Qed.

(* ---- single operations on the entries under a deadline ---- *)
Lemma ents_at_remove_keeps d id p x a : In a (ents_at x p) -> a <> id -> In a (ents_at x (q_remove_at d id p)).
Proof.
  intros Ha Hne. rewrite ents_at_remove. destruct (N.eq_dec x d) as [->|Hxd]; beq; [|exact Ha].
  apply rm_keeps; assumption.
Qed.

Lemma ents_at_take_keeps d id p p' x a : q_take_at d id p = Some p' ->
  In a (ents_at x p) -> a <> id -> In a (ents_at x p').
Proof.
  intros Ht Ha Hne. rewrite (ents_at_take _ _ _ _ x Ht). destruct (N.eq_dec x d) as [->|Hxd]; beq; [|exact Ha].
  apply rm_keeps; assumption.
Qed.

Lemma ents_at_add_keeps id d p x a : sorted p -> In a (ents_at x p) -> In a (ents_at x (q_add id d p)).
Proof.
  intros Hs Ha. rewrite (ents_at_add _ _ _ _ Hs). destruct (N.eq_dec x d) as [->|Hxd]; beq; [|exact Ha].
  apply in_or_app. left; exact Ha.
Qed.

Lemma reset_entry_pending id d d' dr : pending (reset_entry id d d' dr) =
  match q_take_at d id (pending dr) with
  | Some p1 => q_remove_at d' id (q_remove_at d id (q_add id d' p1))
  | None => pending dr
  end.
Proof. unfold reset_entry, handle_reset. destruct (q_take_at d id (pending dr)); reflexivity. Qed.

(* a reset never leaves a new live entry behind: the re-added entry is removed again *)
Lemma reset_ents_nil id d d' dr x : sorted (pending dr) -> ents_at x (pending dr) = [] ->
  ents_at x (pending (reset_entry id d d' dr)) = [].
Proof.
  intros Hs Hx. rewrite reset_entry_pending. destruct (q_take_at d id (pending dr)) as [p1|] eqn:Et; [|exact Hx].
  pose proof (q_take_at_sorted _ _ _ _ Et Hs) as Hs1.
  assert (H1 : ents_at x p1 = []).
  { rewrite (ents_at_take _ _ _ _ x Et). destruct (N.eq_dec x d) as [->|Hxd]; beq; [|exact Hx]. rewrite Hx. reflexivity. }
  assert (H2 : ents_at x (q_add id d' p1) = if x =? d' then [id] else []).
  { rewrite (ents_at_add _ _ _ _ Hs1). destruct (N.eq_dec x d') as [->|Hxd]; beq; [|exact H1]. rewrite H1. reflexivity. }
  rewrite ents_at_remove. destruct (N.eq_dec x d') as [->|Hxd'].
  - beq. rewrite ents_at_remove. destruct (N.eq_dec d' d) as [->|Hdd].
    + beq. rewrite H2. beq. rewrite rm_single. reflexivity.
    + beq. rewrite H2. beq. apply rm_single.
  - beq. rewrite ents_at_remove. destruct (N.eq_dec x d) as [->|Hxd].
    + beq. rewrite H2. beq. reflexivity.
    + beq. rewrite H2. beq. reflexivity.
Qed.

Lemma reset_ents_keeps id d d' dr x a : sorted (pending dr) -> In a (ents_at x (pending dr)) -> a <> id ->
  In a (ents_at x (pending (reset_entry id d d' dr))).
Proof.
  intros Hs Ha Hne. rewrite reset_entry_pending. destruct (q_take_at d id (pending dr)) as [p1|] eqn:Et; [|exact Ha].
  pose proof (q_take_at_sorted _ _ _ _ Et Hs) as Hs1.
  apply ents_at_remove_keeps; [|exact Hne]. apply ents_at_remove_keeps; [|exact Hne].
  apply ents_at_add_keeps; [exact Hs1|]. eapply ents_at_take_keeps; eassumption.
Qed.

(* ---- operations keep the mid-event invariant ---- *)
Lemma apply_op_sorted dr o : sorted (pending dr) -> sorted (pending (apply_op dr o)).
Proof.
  intros Hs. destruct o as [id d|id d|id d d']; cbn [apply_op].
  - apply q_add_sorted; exact Hs.
  - apply q_remove_at_sorted; exact Hs.
  - rewrite reset_entry_pending. destruct (q_take_at d id (pending dr)) as [p1|] eqn:Et; [|exact Hs].
    apply q_remove_at_sorted, q_remove_at_sorted, q_add_sorted. exact (q_take_at_sorted _ _ _ _ Et Hs).
Qed.

Lemma apply_op_lives t dr o : sorted (pending dr) -> lives t (pending dr) -> op_wf t o ->
  lives t (pending (apply_op dr o)).
Proof.
  intros Hs Hl Hwf. apply (lives_ents t _ (apply_op_sorted dr o Hs)).
  pose proof (proj1 (lives_ents t _ Hs) Hl) as Hl'. intros x.
  destruct o as [id d|id d|id d d']; cbn [apply_op register drop_entry set_pending pending].
  - cbn [op_wf] in Hwf. rewrite (ents_at_add _ _ _ _ Hs). destruct (N.eq_dec x d) as [->|Hxd]; beq; [intros _; exact Hwf|apply Hl'].
  - rewrite ents_at_remove. destruct (N.eq_dec x d) as [->|Hxd]; beq; [|apply Hl'].
    intros H. apply Hl'. exact (rm_nonempty _ _ H).
  - intros H. apply Hl'. intros Hnil. apply H. apply reset_ents_nil; assumption.
Qed.

Lemma apply_op_rest dr o : next_wakeup (apply_op dr o) = next_wakeup dr /\ scheduled (apply_op dr o) = scheduled dr.
Proof.
  destruct o as [id d|id d|id d d']; cbn [apply_op]; unfold register, drop_entry, reset_entry, set_pending.
  - split; reflexivity.
  - split; reflexivity.
  - destruct (handle_reset d id d' (pending dr)) as [p1 b]. split; reflexivity.
Qed.

Lemma apply_op_mid t dr o : Mid t dr -> op_wf t o -> Mid t (apply_op dr o).
Proof.
  intros [Hs Hl Hnw Hsc] Hwf. destruct (apply_op_rest dr o) as [E1 E2]. constructor.
  - apply apply_op_sorted; exact Hs.
  - apply apply_op_lives; assumption.
  - rewrite E1, E2. exact Hnw.
  - rewrite E2. exact Hsc.
Qed.

Lemma apply_ops_mid t ops dr : Mid t dr -> ops_wf t ops -> Mid t (apply_ops ops dr).
Proof.
  unfold apply_ops, ops_wf. revert dr. induction ops as [|o r IH]; intros dr Hm Hwf; cbn [fold_left]; [exact Hm|].
  inversion Hwf as [|? ? Ho Hr]; subst. apply IH; [apply apply_op_mid; assumption|exact Hr].
Qed.

(* ---- activate ---- *)
(* what activate needs: order, and the bookkeeping of next_wakeup / scheduled relative to
   the time t of the event that starts *)
Record Pre (t : N) (dr : driver) : Prop := mkPre {
  pre_sorted : sorted (pending dr);
  pre_nw : forall w, next_wakeup dr = Some w -> t < w -> In w (scheduled dr);
  pre_sched : forall w, In w (scheduled dr) -> t <= w }.

Lemma activate_mid t dr : Pre t dr -> Mid t (snd (activate t dr)).
Proof.
  intros [Hs Hnw Hsc]. unfold activate. destruct (q_bump t (pending dr)) as [w rest] eqn:Eb. cbn [snd].
  destruct (q_bump_spec _ _ _ _ Eb) as (Hp & _ & _).
  constructor; cbn [pending next_wakeup scheduled].
  - rewrite Hp in Hs. exact (sorted_app_r _ _ Hs).
  - intros d es Hin _. exact (q_bump_rest_future _ _ _ _ Hs Eb _ Hin).
  - intros x Hx. destruct (next_wakeup dr) as [y|] eqn:En; [|discriminate].
    destruct (y <=? t) eqn:E; [discriminate|]. injection Hx as <-.
    split; [lia|]. apply Hnw; [reflexivity|lia].
  - exact Hsc.
Qed.

Lemma inv_pre_other now dr t : Inv now dr -> (forall w, In w (scheduled dr) -> t <= w) -> Pre t dr.
Proof.
  intros [[Hs _ Hnw _] _] Hv. constructor; [exact Hs| |exact Hv].
  intros w Hw _. exact (proj2 (Hnw w Hw)).
Qed.

Lemma inv_pre_wake now dr t : Inv now dr -> lmin (scheduled dr) = Some t -> Pre t (sched_fire t dr).
Proof.
  intros [[Hs _ Hnw _] _] Hm. destruct (lmin_spec _ _ Hm) as [_ Hmin].
  constructor; cbn [sched_fire pending next_wakeup scheduled]; [exact Hs| |].
  - intros w Hw Hlt. apply remove1_keeps; [exact (proj2 (Hnw w Hw))|lia].
  - intros w Hw. apply Hmin. exact (remove1_in _ _ _ Hw).
Qed.

(* ---- deactivate: the heart ---- *)
Lemma deactivate_inv t dr : Mid t dr -> Inv t (fst (deactivate true dr)).
Proof.
  intros [Hs Hl Hnw Hsc]. unfold deactivate, q_next.
  pose proof (prune_sorted _ Hs) as Hps.
  assert (Hpl : lives t (prune (pending dr))).
  { intros d es Hin Hne. exact (Hl d es (prune_in _ _ Hin) Hne). }
  destruct (prune (pending dr)) as [|[d0 es0] r] eqn:Ep; cbn [front_time].
  - (* no live timer *)
    cbn [fst]. split; [constructor; cbn [pending next_wakeup scheduled]; assumption|].
    intros d es Hin. cbn [pending] in Hin. contradiction.
  - pose proof (prune_head_live _ _ _ _ Ep) as Hne0.
    assert (Hd0 : t < d0) by (apply (Hpl d0 es0); [left; reflexivity|exact Hne0]).
    assert (Hfront : forall d es, In (d, es) ((d0, es0) :: r) -> d0 <= d).
    { intros d es [Heq|Hin]; [injection Heq as <- _; lia|].
      pose proof (sorted_head_lt _ _ _ Hps Hin) as Hlt. cbn [fst] in Hlt. lia. }
    destruct (earlier d0 (next_wakeup dr)) eqn:Ee; cbn [fst].
    + (* a new wake-up is scheduled for the earliest live deadline *)
      split.
      * constructor; cbn [pending next_wakeup scheduled]; [exact Hps|exact Hpl| |].
        -- intros w Hw. injection Hw as <-. split; [exact Hd0|]. apply in_or_app. right. left. reflexivity.
        -- intros w Hw. apply in_app_or in Hw. destruct Hw as [Hw|[<-|[]]]; [exact (Hsc w Hw)|lia].
      * intros d es Hin _ _. cbn [pending scheduled] in *. exists d0.
        split; [apply in_or_app; right; left; reflexivity|]. split; [lia|exact (Hfront d es Hin)].
    + (* the wake-up that is already scheduled is early enough, or the earliest deadline is SimTime::MAX *)
      unfold earlier in Ee. destruct (next_wakeup dr) as [w0|] eqn:En.
      * destruct (Hnw w0 eq_refl) as [Hw0 Hin0].
        split.
        -- constructor; cbn [pending next_wakeup scheduled]; [exact Hps|exact Hpl| |exact Hsc].
           intros w Hw. injection Hw as <-. split; assumption.
        -- intros d es Hin _ _. cbn [pending scheduled] in *. exists w0.
           split; [exact Hin0|]. split; [lia|]. pose proof (Hfront d es Hin). lia.
      * split.
        -- constructor; cbn [pending next_wakeup scheduled]; [exact Hps|exact Hpl| |exact Hsc].
           intros w Hw. discriminate.
        -- intros d es Hin _ Hfin. cbn [pending] in Hin. pose proof (Hfront d es Hin). lia.
Qed.

(* ---- one event ---- *)
Lemma event_body_inv t ops dr : Pre t dr -> ops_wf t ops -> Inv t (snd (event_body true t ops dr)).
Proof.
  intros Hpre Hwf. unfold event_body. pose proof (activate_mid t dr Hpre) as Hm.
  destruct (activate t dr) as [w d1]. cbn [snd] in *.
  apply deactivate_inv. apply apply_ops_mid; assumption.
Qed.

Lemma step_event_time st e : Inv (fst st) (snd st) -> ev_valid st e -> fst st <= fst (fst (step_event true st e)).
Proof.
  destruct st as [now dr]. destruct e as [t ops|ops]; cbn [ev_valid step_event fst snd].
  - intros _ (H & _). destruct (event_body true t ops dr). cbn [fst]. exact H.
  - intros [[_ _ _ Hsc] _] (w & Hm & _). rewrite Hm. destruct (wakeup_event true w ops dr). cbn [fst].
    apply Hsc. exact (proj1 (lmin_spec _ _ Hm)).
Qed.

Lemma step_event_inv st e : Inv (fst st) (snd st) -> ev_valid st e ->
  Inv (fst (fst (step_event true st e))) (snd (fst (step_event true st e))).
Proof.
  destruct st as [now dr]. cbn [fst snd]. intros Hinv Hv.
  destruct e as [t ops|ops]; cbn [ev_valid fst snd] in Hv; cbn [step_event].
  - destruct Hv as (_ & Hsc & Hwf).
    pose proof (event_body_inv t ops dr (inv_pre_other _ _ _ Hinv Hsc) Hwf) as H.
    destruct (event_body true t ops dr) as [w dr']. cbn [fst snd] in *. exact H.
  - destruct Hv as (w & Hm & Hwf). rewrite Hm. unfold wakeup_event.
    pose proof (event_body_inv w ops _ (inv_pre_wake _ _ _ Hinv Hm) Hwf) as H.
    destruct (event_body true w ops (sched_fire w dr)) as [wk dr']. cbn [fst snd] in *. exact H.
Qed.

Lemma inv_init : Inv 0 new_driver.
Proof.
  split.
  - constructor; cbn [new_driver pending next_wakeup scheduled].
    + constructor.
    + intros d es [].
    + intros w H; discriminate.
    + intros w [].
  - intros d es [].
Qed.

Lemma run_trace_cons st e r :
  run_trace true st (e :: r) =
  let '(t, dr', w) := step_event true st e in
  let '(now', dr'', lg) := run_trace true (t, dr') r in
  (now', dr'', map (fun s => (t, s)) w ++ lg).
Proof. reflexivity. Qed.

(* ---- every history ---- *)
Lemma trace_inv tr : forall st, Inv (fst st) (snd st) -> valid_trace st tr ->
  Inv (fst (fst (run_trace true st tr))) (snd (fst (run_trace true st tr))).
Proof.
  induction tr as [|e r IH]; intros st Hinv Hv; [exact Hinv|].
  destruct Hv as [Hev Hr]. rewrite run_trace_cons.
  pose proof (step_event_inv st e Hinv Hev) as Hi.
  destruct (step_event true st e) as [[t dr'] w]. cbn [fst snd] in *.
  specialize (IH (t, dr') Hi Hr).
  destruct (run_trace true (t, dr') r) as [[now' dr''] lg]. cbn [fst snd] in *. exact IH.
Qed.

(* ---- what a snapshot of the driver between two events looks like ---- *)
(* (this is what the correspondence check evaluates on the real driver through the
   verification hook Driver::verif_snapshot): slots sorted by distinct deadlines, none in the
   past, the front slot holds a timer, and next_wakeup itself is the wake-up that covers
   every live slot *)
Record Snap (now : N) (dr : driver) : Prop := mkSnap {
  sn_sorted : sorted (pending dr);
  sn_future : forall d es, In (d, es) (pending dr) -> now < d;
  sn_front : match pending dr with (_, []) :: _ => False | _ => True end;
  sn_cover : forall d es, In (d, es) (pending dr) -> es <> [] -> d < TMAX ->
             exists w, next_wakeup dr = Some w /\ In w (scheduled dr) /\ now < w /\ w <= d }.

Lemma deactivate_snap t dr : Mid t dr -> Snap t (fst (deactivate true dr)).
Proof.
  intros Hm. pose proof Hm as [Hs Hl Hnw Hsc].
  pose proof (prune_sorted _ Hs) as Hps.
  assert (Hfut : forall d es, In (d, es) (prune (pending dr)) -> t < d).
  { intros d es Hin. destruct (prune (pending dr)) as [|[d0 es0] r] eqn:Ep; [contradiction|].
    pose proof (prune_head_live _ _ _ _ Ep) as Hne0.
    assert (Hd0 : t < d0) by (apply (Hl d0 es0); [apply prune_in; rewrite Ep; left; reflexivity|exact Hne0]).
    destruct Hin as [Heq|Hin]; [injection Heq as <- _; exact Hd0|].
    pose proof (sorted_head_lt _ _ _ Hps Hin) as Hlt. cbn [fst] in Hlt. lia. }
  assert (Hfront : match prune (pending dr) with (_, []) :: _ => False | _ => True end).
  { destruct (prune (pending dr)) as [|[d0 es0] r] eqn:Ep; [exact I|].
    pose proof (prune_head_live _ _ _ _ Ep) as Hne0. destruct es0; [contradiction Hne0; reflexivity|exact I]. }
  unfold deactivate, q_next.
  destruct (prune (pending dr)) as [|[d0 es0] r] eqn:Ep; cbn [front_time fst].
  - constructor; cbn [pending next_wakeup scheduled]; [constructor|intros d es []|exact I|intros d es []].
  - pose proof (prune_head_live _ _ _ _ Ep) as Hne0.
    assert (Hd0 : t < d0) by (apply (Hfut d0 es0); left; reflexivity).
    assert (Hmin : forall d es, In (d, es) ((d0, es0) :: r) -> d0 <= d).
    { intros d es [Heq|Hin]; [injection Heq as <- _; lia|].
      pose proof (sorted_head_lt _ _ _ Hps Hin) as Hlt. cbn [fst] in Hlt. lia. }
    destruct (earlier d0 (next_wakeup dr)) eqn:Ee; cbn [fst].
    + constructor; cbn [pending next_wakeup scheduled]; [exact Hps|exact Hfut|exact Hfront|].
      intros d es Hin _ _. exists d0. split; [reflexivity|]. split; [apply in_or_app; right; left; reflexivity|].
      split; [exact Hd0|exact (Hmin d es Hin)].
    + unfold earlier in Ee. destruct (next_wakeup dr) as [w0|] eqn:En.
      * destruct (Hnw w0 eq_refl) as [Hw0 Hin0].
        constructor; cbn [pending next_wakeup scheduled]; [exact Hps|exact Hfut|exact Hfront|].
        intros d es Hin _ _. exists w0. split; [reflexivity|]. split; [exact Hin0|]. split; [exact Hw0|].
        pose proof (Hmin d es Hin). lia.
      * constructor; cbn [pending next_wakeup scheduled]; [exact Hps|exact Hfut|exact Hfront|].
        intros d es Hin _ Hfin. pose proof (Hmin d es Hin). lia.
Qed.

Lemma step_event_snap st e : Inv (fst st) (snd st) -> ev_valid st e ->
  Snap (fst (fst (step_event true st e))) (snd (fst (step_event true st e))).
Proof.
  destruct st as [now dr]. cbn [fst snd]. intros Hinv Hv.
  destruct e as [t ops|ops]; cbn [ev_valid fst snd] in Hv; cbn [step_event].
  - destruct Hv as (_ & Hsc & Hwf). unfold event_body.
    pose proof (activate_mid t dr (inv_pre_other _ _ _ Hinv Hsc)) as Hm.
    destruct (activate t dr) as [w d1]. cbn [fst snd] in *.
    apply deactivate_snap. apply apply_ops_mid; assumption.
  - destruct Hv as (w & Hm & Hwf). rewrite Hm. unfold wakeup_event, event_body.
    pose proof (activate_mid w _ (inv_pre_wake _ _ _ Hinv Hm)) as Hmid.
    destruct (activate w (sched_fire w dr)) as [wk d1]. cbn [fst snd] in *.
    apply deactivate_snap. apply apply_ops_mid; assumption.
Qed.

Lemma trace_snap tr : forall st, Inv (fst st) (snd st) -> valid_trace st tr -> Snap (fst st) (snd st) ->
  Snap (fst (fst (run_trace true st tr))) (snd (fst (run_trace true st tr))).
Proof.
  induction tr as [|e r IH]; intros st Hinv Hv Hsn; [exact Hsn|].
  destruct Hv as [Hev Hr]. rewrite run_trace_cons.
  pose proof (step_event_inv st e Hinv Hev) as Hi. pose proof (step_event_snap st e Hinv Hev) as Hs1.
  destruct (step_event true st e) as [[t dr'] w]. cbn [fst snd] in *.
  specialize (IH (t, dr') Hi Hr Hs1).
  destruct (run_trace true (t, dr') r) as [[now' dr''] lg]. cbn [fst snd] in *. exact IH.
Qed.

Lemma snap_init : Snap 0 new_driver.
Proof. constructor; cbn [new_driver pending]; [constructor|intros d es []|exact I|intros d es []]. Qed.
