(* Laws of the timer futures (coq/Timer/Futures.v), for every [now] and every driver state. *)
From Coq Require Import List NArith Bool Lia ZifyBool.
From DesVerif Require Import Timer.Driver Timer.QueueLemmas Timer.Inv Timer.Futures.
Import ListNotations.
Open Scope N_scope.

(* ---- Sleep ---- *)
Lemma due_deadline_completes_immediately now s dr : deadline s <= now ->
  sleep_poll now s dr = (true, {| deadline := deadline s; sid := sid s; handle := None |}, dr).
Proof. intros H. unfold sleep_poll. replace (now <? deadline s) with false by lia. reflexivity. Qed.

Lemma pending_sleep_registers_once now s dr : now < deadline s ->
  sleep_poll now s dr =
  match handle s with
  | None => (false, {| deadline := deadline s; sid := sid s; handle := Some (deadline s) |},
             apply_op dr (Register (sid s) (deadline s)))
  | Some _ => (false, s, dr)
  end.
Proof. intros H. unfold sleep_poll. replace (now <? deadline s) with true by lia. reflexivity. Qed.

Lemma sleep_poll_deadline now s dr : deadline (snd (fst (sleep_poll now s dr))) = deadline s.
Proof. unfold sleep_poll. destruct (now <? deadline s); [destruct (handle s)|]; reflexivity. Qed.

Lemma sleep_poll_ready now s dr : fst (fst (sleep_poll now s dr)) = (deadline s <=? now).
Proof.
  unfold sleep_poll. destruct (now <? deadline s) eqn:E; [destruct (handle s)|]; cbn [fst]; lia.
Qed.

(* ---- the futures touch the driver only through contract-respecting operations ---- *)
Definition acts (t : N) (dr dr' : driver) : Prop := exists ops, ops_wf t ops /\ dr' = apply_ops ops dr.

Lemma acts_refl t dr : acts t dr dr.
Proof. exists []. split; [constructor|reflexivity]. Qed.

Lemma acts_trans t a b c : acts t a b -> acts t b c -> acts t a c.
Proof.
  intros (o1 & W1 & ->) (o2 & W2 & ->). exists (o1 ++ o2). split.
  - apply Forall_app. split; assumption.
  - unfold apply_ops. rewrite fold_left_app. reflexivity.
Qed.

Lemma acts_one t dr o : op_wf t o -> acts t dr (apply_op dr o).
Proof. intros H. exists [o]. split; [constructor; [exact H|constructor]|reflexivity]. Qed.

Lemma acts_mid t dr dr' : acts t dr dr' -> Mid t dr -> Mid t dr'.
Proof. intros (ops & W & ->) Hm. apply apply_ops_mid; assumption. Qed.

Lemma sleep_poll_acts now s dr : acts now dr (snd (sleep_poll now s dr)).
Proof.
  unfold sleep_poll. destruct (now <? deadline s) eqn:E; [|apply acts_refl].
  destruct (handle s); cbn [snd]; [apply acts_refl|].
  apply (acts_one now dr (Register (sid s) (deadline s))). cbn [op_wf]. lia.
Qed.

Lemma sleep_reset_acts now s d' dr : acts now dr (snd (sleep_reset s d' dr)).
Proof.
  unfold sleep_reset. cbn [snd]. destruct (handle s) as [d|]; [|apply acts_refl].
  apply (acts_one now dr (ResetEntry (sid s) d d')). exact I.
Qed.

Lemma sleep_drop_acts now s dr : acts now dr (sleep_drop s dr).
Proof.
  unfold sleep_drop. destruct (handle s) as [d|]; [|apply acts_refl].
  apply (acts_one now dr (DropEntry (sid s) d)). exact I.
Qed.

Lemma poll_tick_acts now iv dr : acts now dr (snd (poll_tick now iv dr)).
Proof.
  unfold poll_tick. pose proof (sleep_poll_acts now (iv_delay iv) dr) as H1.
  destruct (sleep_poll now (iv_delay iv) dr) as [[r s1] dr1]. cbn [snd] in H1.
  destruct r; cbn [snd]; [|exact H1].
  pose proof (sleep_reset_acts now s1 (tick_next (iv_beh iv) (deadline s1) now (iv_period iv)) dr1) as H2.
  destruct (sleep_reset s1 (tick_next (iv_beh iv) (deadline s1) now (iv_period iv)) dr1) as [s2 dr2].
  cbn [snd] in *. exact (acts_trans _ _ _ _ H1 H2).
Qed.

Section TimeoutLaws.
  Variable V : Type.
  Variable vpoll : N -> V -> driver -> bool * V * driver.

  Lemma timeout_poll_acts now v dl dr :
    (forall v0 dr0, acts now dr0 (snd (vpoll now v0 dr0))) ->
    acts now dr (snd (timeout_poll vpoll now v dl dr)).
  Proof.
    intros Hv. unfold timeout_poll. pose proof (Hv v dr) as H1.
    destruct (vpoll now v dr) as [[vr v'] dr1]. cbn [snd] in H1.
    destruct vr; cbn [snd]; [exact H1|].
    pose proof (sleep_poll_acts now dl dr1) as H2.
    destruct (sleep_poll now dl dr1) as [[r dl'] dr2]. cbn [snd] in H2.
    destruct r; cbn [snd]; exact (acts_trans _ _ _ _ H1 H2).
  Qed.

  (* one poll: the value is looked at first, so a tie goes to the value *)
  Lemma timeout_poll_law now v dl dr :
    fst (fst (fst (timeout_poll vpoll now v dl dr))) =
    if fst (fst (vpoll now v dr)) then TOk
    else if deadline dl <=? now then TElapsed else TPending.
  Proof.
    unfold timeout_poll. destruct (vpoll now v dr) as [[vr v'] dr1]. cbn [fst].
    destruct vr; [reflexivity|].
    pose proof (sleep_poll_ready now dl dr1) as Hr.
    destruct (sleep_poll now dl dr1) as [[r dl'] dr2]. cbn [fst] in *. rewrite <- Hr.
    destruct r; reflexivity.
  Qed.

  Lemma timeout_poll_delay_deadline now v dl dr :
    deadline (snd (fst (timeout_poll vpoll now v dl dr))) = deadline dl.
  Proof.
    unfold timeout_poll. destruct (vpoll now v dr) as [[vr v'] dr1].
    destruct vr; [reflexivity|].
    pose proof (sleep_poll_deadline now dl dr1) as Hd.
    destruct (sleep_poll now dl dr1) as [[r dl'] dr2]. cbn [fst snd] in *.
    destruct r; cbn [fst snd]; exact Hd.
  Qed.

  (* the value becomes ready at instant r (and stays ready) *)
  Variable r : N.
  Hypothesis vready : forall now v dr, fst (fst (vpoll now v dr)) = (r <=? now).

  (* The task is polled at [pre] (all before both r and the deadline D), then at
     min r D -- which is what the driver guarantees: the wake-up for the earlier of the two
     timers is stamped exactly with its deadline.  The timeout completes at min r D, with
     the value iff r <= D. *)
  Lemma timeout_run_prompt pre post v dl dr :
    let D := deadline dl in
    Forall (fun t => t < N.min r D) pre ->
    timeout_run vpoll (pre ++ N.min r D :: post) v dl dr =
    Some (N.min r D, if r <=? D then TOk else TElapsed).
  Proof.
    cbn zeta. revert v dl dr. induction pre as [|t pre IH]; intros v dl dr Hall; cbn [app timeout_run].
    - pose proof (timeout_poll_law (N.min r (deadline dl)) v dl dr) as Hl. rewrite vready in Hl.
      destruct (timeout_poll vpoll (N.min r (deadline dl)) v dl dr) as [[[res v'] dl'] dr']. cbn [fst] in Hl.
      destruct (r <=? deadline dl) eqn:E.
      + replace (r <=? N.min r (deadline dl)) with true in Hl by lia. rewrite Hl. reflexivity.
      + replace (r <=? N.min r (deadline dl)) with false in Hl by lia.
        replace (deadline dl <=? N.min r (deadline dl)) with true in Hl by lia. rewrite Hl. reflexivity.
    - inversion Hall as [|? ? Ht Hr]; subst.
      pose proof (timeout_poll_law t v dl dr) as Hl. rewrite vready in Hl.
      pose proof (timeout_poll_delay_deadline t v dl dr) as Hd.
      destruct (timeout_poll vpoll t v dl dr) as [[[res v'] dl'] dr']. cbn [fst snd] in Hl, Hd.
      replace (r <=? t) with false in Hl by lia. replace (deadline dl <=? t) with false in Hl by lia.
      rewrite Hl. rewrite <- Hd. apply IH. rewrite Hd. exact Hr.
  Qed.
End TimeoutLaws.

Theorem timeout_ok_iff_inner_first (V : Type) (vpoll : N -> V -> driver -> bool * V * driver) (r : N) :
  (forall now v dr, fst (fst (vpoll now v dr)) = (r <=? now)) ->
  forall pre post v dl dr, Forall (fun t => t < N.min r (deadline dl)) pre ->
  exists res, timeout_run vpoll (pre ++ N.min r (deadline dl) :: post) v dl dr = Some (N.min r (deadline dl), res) /\
              (res = TOk <-> r <= deadline dl) /\ (res = TElapsed <-> deadline dl < r).
Proof.
  intros Hv pre post v dl dr Hall.
  exists (if r <=? deadline dl then TOk else TElapsed).
  split; [exact (timeout_run_prompt V vpoll r Hv pre post v dl dr Hall)|].
  destruct (r <=? deadline dl) eqn:E; split; split; intros H; try reflexivity; try discriminate; lia.
Qed.

(* ---- Interval ---- *)
Lemma tick_next_on_time b timeout now period : now <= timeout + GRACE ->
  tick_next b timeout now period = timeout + period.
Proof. intros H. unfold tick_next. replace (timeout + GRACE <? now) with false by lia. reflexivity. Qed.

Lemma tick_next_burst timeout now period : tick_next Burst timeout now period = timeout + period.
Proof. unfold tick_next. destruct (timeout + GRACE <? now); reflexivity. Qed.

Lemma tick_next_delay timeout now period : timeout + GRACE < now ->
  tick_next Delay timeout now period = now + period.
Proof. intros H. unfold tick_next. replace (timeout + GRACE <? now) with true by lia. reflexivity. Qed.

(* Skip: the next instant of the original schedule that lies strictly after now *)
Lemma tick_next_skip timeout now period : timeout + GRACE < now -> 0 < period ->
  let nx := tick_next Skip timeout now period in
  now < nx /\ nx <= now + period /\ nx = timeout + ((now - timeout) / period + 1) * period.
Proof.
  intros H Hp. cbn zeta. unfold tick_next, next_timeout. replace (timeout + GRACE <? now) with true by lia.
  assert (Hn : period <> 0) by lia.
  pose proof (N.mod_upper_bound (now - timeout) period Hn) as Hm.
  pose proof (N.div_mod (now - timeout) period Hn) as Hdm.
  assert (Hnow : now = timeout + (now - timeout)) by lia.
  set (a := now - timeout) in *. set (q := a / period) in *. set (m := a mod period) in *.
  rewrite N.mul_add_distr_r, N.mul_1_l, (N.mul_comm q period). lia.
Qed.

Lemma poll_tick_ready now iv dr : deadline (iv_delay iv) <= now ->
  poll_tick now iv dr =
  (Some (deadline (iv_delay iv)),
   {| iv_delay := {| deadline := tick_next (iv_beh iv) (deadline (iv_delay iv)) now (iv_period iv);
                     sid := sid (iv_delay iv); handle := None |};
      iv_period := iv_period iv; iv_beh := iv_beh iv |}, dr).
Proof.
  intros H. unfold poll_tick. rewrite (due_deadline_completes_immediately _ _ _ H).
  unfold sleep_reset. cbn [deadline sid handle]. reflexivity.
Qed.

Lemma poll_tick_pending now iv dr : now < deadline (iv_delay iv) ->
  fst (fst (poll_tick now iv dr)) = None /\
  deadline (iv_delay (snd (fst (poll_tick now iv dr)))) = deadline (iv_delay iv) /\
  iv_period (snd (fst (poll_tick now iv dr))) = iv_period iv /\ iv_beh (snd (fst (poll_tick now iv dr))) = iv_beh iv.
Proof.
  intros H. unfold poll_tick. rewrite (pending_sleep_registers_once _ _ _ H).
  destruct (handle (iv_delay iv)); cbn [fst snd iv_delay iv_period iv_beh deadline]; repeat split.
Qed.

(* the nominal schedule start, start + period, start + 2 period, ... *)
Fixpoint schedule (start period : N) (n : nat) : list N :=
  match n with O => [] | S n' => start :: schedule (start + period) period n' end.

Lemma schedule_nth start period n k : (k < n)%nat -> nth k (schedule start period n) 0 = start + N.of_nat k * period.
Proof.
  revert start k; induction n as [|n IH]; intros start k Hk; [lia|]. cbn [schedule].
  destruct k as [|k]; cbn [nth]; [lia|]. rewrite IH by lia. lia.
Qed.

(* tick k is taken at an instant within [nominal, nominal + 5 ms] *)
Fixpoint on_time (start period : N) (ts : list N) : Prop :=
  match ts with
  | [] => True
  | t :: r => start <= t /\ t <= start + GRACE /\ on_time (start + period) period r
  end.

(* tick k is taken at or after its nominal instant, however late *)
Fixpoint not_before (start period : N) (ts : list N) : Prop :=
  match ts with
  | [] => True
  | t :: r => start <= t /\ not_before (start + period) period r
  end.

Lemma interval_no_miss ts : forall iv dr,
  on_time (deadline (iv_delay iv)) (iv_period iv) ts ->
  tick_seq ts iv dr = schedule (deadline (iv_delay iv)) (iv_period iv) (length ts).
Proof.
  induction ts as [|t r IH]; intros iv dr H; [reflexivity|].
  destruct H as (H1 & H2 & H3). cbn [tick_seq length schedule].
  rewrite (poll_tick_ready _ _ _ H1). f_equal.
  rewrite IH; cbn [iv_delay iv_period deadline]; rewrite (tick_next_on_time _ _ _ _ H2); [reflexivity|exact H3].
Qed.

Lemma interval_burst ts : forall iv dr, iv_beh iv = Burst ->
  not_before (deadline (iv_delay iv)) (iv_period iv) ts ->
  tick_seq ts iv dr = schedule (deadline (iv_delay iv)) (iv_period iv) (length ts).
Proof.
  induction ts as [|t r IH]; intros iv dr Hb H; [reflexivity|].
  destruct H as (H1 & H3). cbn [tick_seq length schedule].
  rewrite (poll_tick_ready _ _ _ H1). rewrite Hb. f_equal.
  rewrite IH; cbn [iv_delay iv_period iv_beh deadline]; rewrite ?tick_next_burst; [reflexivity|reflexivity|exact H3].
Qed.

(* a tick taken at [now], more than 5 ms late *)
Lemma interval_missed now iv dr : deadline (iv_delay iv) + GRACE < now -> 0 < iv_period iv ->
  let tm := deadline (iv_delay iv) in
  let nx := deadline (iv_delay (snd (fst (poll_tick now iv dr)))) in
  fst (fst (poll_tick now iv dr)) = Some tm /\
  match iv_beh iv with
  | Burst => nx = tm + iv_period iv
  | Delay => nx = now + iv_period iv
  | Skip => now < nx /\ nx <= now + iv_period iv /\ nx = tm + ((now - tm) / iv_period iv + 1) * iv_period iv
  end.
Proof.
  intros H Hp. cbn zeta. rewrite poll_tick_ready by lia. cbn [fst snd iv_delay deadline].
  split; [reflexivity|]. destruct (iv_beh iv).
  - apply tick_next_burst.
  - apply tick_next_delay; exact H.
  - apply tick_next_skip; assumption.
Qed.

(* ---- the waker stored with a timer entry ---- *)
Lemma sleep_poll_sid now s dr : sid (snd (fst (sleep_poll now s dr))) = sid s.
Proof. unfold sleep_poll. destruct (now <? deadline s); [destruct (handle s)|]; reflexivity. Qed.

Lemma note_poll_is_sleep_poll_waker fixed now k s dr tab :
  note_poll fixed k (match handle s with Some _ => true | None => false end) (snd (fst (sleep_poll now s dr))) tab =
  sleep_poll_waker fixed now k s tab.
Proof.
  unfold note_poll, sleep_poll_waker, sleep_poll. destruct (now <? deadline s).
  - destruct (handle s) as [h|] eqn:E; cbn [fst snd handle sid andb negb].
    + rewrite E. destruct fixed; reflexivity.
    + reflexivity.
  - reflexivity.
Qed.

Lemma pending_poll_shape t s dr : t < deadline s ->
  sleep_poll t s dr =
  (false, {| deadline := deadline s; sid := sid s;
             handle := Some (match handle s with None => deadline s | Some h => h end) |},
   match handle s with None => register (sid s) (deadline s) dr | Some _ => dr end).
Proof.
  intros H. rewrite (pending_sleep_registers_once _ _ _ H). destruct s as [d i [h|]]; reflexivity.
Qed.

(* A registered Sleep follows the task that polls it: after any sequence of polls before the
   deadline (by whatever tasks; the Sleep may have moved between them), the waker stored
   with the entry is that of the task that polled LAST, and the entry was registered once. *)
Theorem woken_through_last_poller polls : forall t k s dr tab,
  Forall (fun p => fst p < deadline s) (polls ++ [(t, k)]) ->
  let r := poll_seq true (polls ++ [(t, k)]) s dr tab in
  waker_of (snd r) (sid s) = Some k /\
  snd (fst r) = match handle s with None => register (sid s) (deadline s) dr | Some _ => dr end /\
  handle (fst (fst r)) = Some (match handle s with None => deadline s | Some h => h end).
Proof.
  induction polls as [|[t0 k0] polls IH]; intros t k s dr tab Hall; cbn zeta; cbn [app poll_seq].
  - inversion Hall as [|? ? Ht _]; subst. cbn [fst] in Ht. rewrite (pending_poll_shape _ _ _ Ht). cbn [fst snd].
    unfold sleep_poll_waker. replace (t <? deadline s) with true by lia.
    split; [|split; reflexivity].
    destruct (handle s); cbn [waker_of]; rewrite N.eqb_refl; reflexivity.
  - inversion Hall as [|? ? Ht Hr]; subst. cbn [fst] in Ht. rewrite (pending_poll_shape _ _ _ Ht).
    set (s' := {| deadline := deadline s; sid := sid s;
                  handle := Some (match handle s with None => deadline s | Some h => h end) |}).
    specialize (IH t k s' (match handle s with None => register (sid s) (deadline s) dr | Some _ => dr end)
                   (sleep_poll_waker true t0 k0 s tab) Hr).
    cbn zeta in IH. cbn [sid deadline handle s'] in IH. exact IH.
Qed.

(* The code before commit 5af9a5f: the entry keeps the waker of the task that polled FIRST. *)
Theorem pinned_woken_through_first_poller polls : forall t k s dr tab, handle s = None ->
  Forall (fun p => fst p < deadline s) ((t, k) :: polls) ->
  waker_of (snd (poll_seq false ((t, k) :: polls) s dr tab)) (sid s) = Some k.
Proof.
  assert (Hkeep : forall polls s dr tab h, handle s = Some h -> Forall (fun p => fst p < deadline s) polls ->
            snd (poll_seq false polls s dr tab) = tab).
  { induction polls0 as [|[t0 k0] polls0 IH]; intros s dr tab h Hh Hall; cbn [poll_seq]; [reflexivity|].
    inversion Hall as [|? ? Ht Hr]; subst. cbn [fst] in Ht. rewrite (pending_poll_shape _ _ _ Ht). rewrite Hh.
    unfold sleep_poll_waker. replace (t0 <? deadline s) with true by lia. rewrite Hh.
    eapply IH; [reflexivity|exact Hr]. }
  intros t k s dr tab Hn Hall. cbn [poll_seq]. inversion Hall as [|? ? Ht Hr]; subst. cbn [fst] in Ht.
  rewrite (pending_poll_shape _ _ _ Ht). rewrite Hn.
  unfold sleep_poll_waker. replace (t <? deadline s) with true by lia. rewrite Hn.
  erewrite Hkeep; [|reflexivity|exact Hr]. cbn [waker_of]. rewrite N.eqb_refl. reflexivity.
Qed.
