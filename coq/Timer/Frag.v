(* The fragment {sleep(d), sleep_until(t), log} of the task scripts of coq/Timer/Model.v:
   what the property demands of a task (exp_run), and what one poll of such a task does. *)
From Coq Require Import List NArith Bool Lia ZifyBool.
From DesVerif Require Import Common.Codec CQueue.Spec Timer.Driver Timer.QueueLemmas Timer.Inv Timer.Futures Timer.FutureLaws Timer.TempOps Timer.Model.
Import ListNotations.
Open Scope N_scope.

(* finite durations: a duration >= FARK stands for Duration::MAX (coq/Timer/Model.v [dl]) *)
Definition frag_step (s : step) : Prop :=
  match s with
  | SSleep _ | SSleepUntil _ | SLog => True
  | SReset _ d1 d2 => d1 < FARK /\ d2 < FARK
  | SDropSleep d => d < FARK
  | STimeout d (ISleep x) => d < FARK /\ x < FARK
  | _ => False
  end.

(* the log the property demands of a task that is at instant [now] with [steps] to go:
   every await returns at exactly its deadline; a reset Sleep at its NEW deadline; polling and
   dropping a Sleep takes no time *)
Fixpoint exp_run (now : N) (steps : list step) : list N :=
  match steps with
  | [] => []
  | SSleep d :: r => (now + d) :: exp_run (now + d) r
  | SSleepUntil t :: r => N.max now t :: exp_run (N.max now t) r
  | SReset _ _ d2 :: r => (now + d2) :: exp_run (now + d2) r
  | STimeout d (ISleep x) :: r => (now + N.min x d) :: b2n (x <=? d) :: exp_run (now + N.min x d) r
  | _ :: r => now :: exp_run now r
  end.

(* the await states of the fragment: the Sleeps they hold (all registered while the task is
   blocked), the instant they complete, and what the task logs then *)
Definition aw_held (a : aw) : list sleep := held_sleeps (Some a) None.

Definition aw_kind (a : aw) : Prop :=
  match a with AwSleep _ => True | AwTimeout (VSleep _) _ => True | _ => False end.

Definition aw_wake (a : aw) : N :=
  match a with
  | AwSleep s => deadline s
  | AwTimeout (VSleep s) dl => N.min (deadline s) (deadline dl)
  | _ => 0
  end.

Definition aw_rec (a : aw) : list N :=
  match a with
  | AwSleep s => [deadline s]
  | AwTimeout (VSleep s) dl => [N.min (deadline s) (deadline dl); b2n (deadline s <=? deadline dl)]
  | _ => []
  end.

(* ids of the held Sleeps registered under deadline x, in registration order *)
Definition new_at (a : aw) (x : N) : list N := map sid (filter (fun s => deadline s =? x) (aw_held a)).

Definition reg (id d : N) : sleep := {| deadline := d; sid := id; handle := Some d |}.

Definition dl_of (now : N) (st : step) : N :=
  match st with SSleep d => now + d | SSleepUntil t => t | SReset _ _ d2 => dl now d2 | _ => now end.

(* the driver after the preparations of a step: reset = the pinned Sleep is created, polled
   (registered) if asked, and reset -- which removes the entry again; drop = created, polled, dropped *)
Definition prep_drv (now nid : N) (st : step) (dr : driver) : driver :=
  match st with
  | SReset polled d1 d2 => snd (reset_prep now polled (dl now d1) (dl now d2) nid dr)
  | SDropSleep d => let '(_, s1, dr1) := sleep_poll now (sleep_new (dl now d) nid) dr in sleep_drop s1 dr1
  | STimeout d (ISleep x) =>
    (* only when the delay is due at once (d = 0) while the value is not: the value Sleep was registered and is dropped *)
    if (now <? now + x) && negb (now <? dl now d) then drop_entry nid (now + x) (register nid (now + x) dr) else dr
  | _ => dr
  end.

(* one poll of a task that is not awaiting anything: (log entries, the Sleep it blocks on
   with the steps still to go, next Sleep id, the driver afterwards) *)
Fixpoint frag_run (now nid : N) (steps : list step) (dr : driver) : list N * option (aw * list step) * N * driver :=
  match steps with
  | [] => ([], None, nid, dr)
  | st :: r =>
    match st with
    | SLog => let '(o, b, n, d') := frag_run now nid r dr in (now :: o, b, n, d')
    | SDropSleep _ => let '(o, b, n, d') := frag_run now (nid + 1) r (prep_drv now nid st dr) in (now :: o, b, n, d')
    | SSleep _ | SSleepUntil _ | SReset _ _ _ =>
      let dr1 := prep_drv now nid st dr in
      if now <? dl_of now st
      then ([], Some (AwSleep (reg nid (dl_of now st)), st :: r), nid + 1, register nid (dl_of now st) dr1)
      else let '(o, b, n, d') := frag_run now (nid + 1) r dr1 in (now :: o, b, n, d')
    | STimeout d (ISleep x) =>
      if (now <? now + x) && (now <? dl now d)
      then ([], Some (AwTimeout (VSleep (reg nid (now + x))) (reg (nid + 1) (dl now d)), st :: r), nid + 2,
            register (nid + 1) (dl now d) (register nid (now + x) dr))
      else let '(o, b, n, d') := frag_run now (nid + 2) r (prep_drv now nid st dr) in
           (now :: b2n (negb (now <? now + x)) :: o, b, n, d')
    | _ => ([], None, nid, dr)
    end
  end.

Definition fr_steps (b : option (aw * list step)) : list step := match b with Some (_, l) => l | None => [] end.
Definition fr_cur (b : option (aw * list step)) : option aw := match b with Some (a, _) => Some a | None => None end.

Lemma dl_fin now d : d < FARK -> dl now d = now + d.
Proof. intros H. unfold dl. replace (FARK <=? d) with false by lia. reflexivity. Qed.

Lemma run_steps_frag now m k steps : Forall frag_step steps -> forall dr nid lg mail,
  run_steps now m k steps None None dr nid lg mail =
  let '(o, b, n, d') := frag_run now nid steps dr in
  (fr_steps b, fr_cur b, None, d', n, lg ++ o, false, mail).
Proof.
  induction 1 as [|st r Hst Hr IH]; intros dr nid lg mail.
  - cbn [run_steps frag_run fr_steps fr_cur iv_drop]. rewrite app_nil_r. reflexivity.
  - destruct st; try contradiction; cbn [run_steps start_step start_step0 poll_aw poll_aw0 fst snd frag_run dl_of prep_drv].
    + unfold sleep_poll, sleep_new. cbn [deadline handle sid].
      destruct (now <? now + d); cbn [fr_steps fr_cur]; [rewrite app_nil_r; reflexivity|].
      rewrite IH. destruct (frag_run now (nid + 1) r dr) as [[[o b] n] d']. rewrite <- app_assoc. reflexivity.
    + unfold sleep_poll, sleep_new. cbn [deadline handle sid].
      destruct (now <? t); cbn [fr_steps fr_cur]; [rewrite app_nil_r; reflexivity|].
      rewrite IH. destruct (frag_run now (nid + 1) r dr) as [[[o b] n] d']. rewrite <- app_assoc. reflexivity.
    + (* timeout around a sleep *)
      destruct v as [x|]; [|contradiction].
      cbn [run_steps start_step start_step0 poll_aw poll_aw0 fst snd frag_run prep_drv]. unfold timeout_poll, vpoll_m. cbn [fst snd vpoll]. unfold sleep_poll, sleep_new. cbn [deadline handle sid].
      destruct (now <? now + x) eqn:Ex; cbn [andb negb].
      * destruct (now <? dl now d) eqn:Ed; cbn [fst snd self_wakes fr_steps fr_cur reg].
        -- rewrite app_nil_r. reflexivity.
        -- unfold sleep_drop, vdrop. cbn [handle sid].
           rewrite IH. destruct (frag_run now (nid + 2) r _) as [[[o b] n] d']. rewrite <- app_assoc. reflexivity.
      * cbn [fst snd vdrop]. unfold sleep_drop. cbn [handle].
        rewrite IH. destruct (frag_run now (nid + 2) r dr) as [[[o b] n] d']. rewrite <- app_assoc. reflexivity.
    + (* reset *)
      unfold reset_prep.
      destruct (if polled then let '(_, s1, dr1) := sleep_poll now (sleep_new (dl now d1) nid) dr in (s1, dr1)
                else (sleep_new (dl now d1) nid, dr)) as [s1 dr1] eqn:E1.
      assert (Hsid : sid s1 = nid).
      { destruct polled; [|injection E1 as <- _; reflexivity].
        pose proof (sleep_poll_sid now (sleep_new (dl now d1) nid) dr) as Hs.
        destruct (sleep_poll now (sleep_new (dl now d1) nid) dr) as [[r0 s1'] dr1']. injection E1 as <- _. exact Hs. }
      unfold sleep_reset. cbn [snd fst poll_aw poll_aw0]. unfold sleep_poll. cbn [deadline handle sid]. rewrite Hsid.
      destruct (now <? dl now d2); cbn [fr_steps fr_cur fst snd]; [rewrite app_nil_r; reflexivity|].
      rewrite IH. destruct (frag_run now (nid + 1) r _) as [[[o b] n] d']. rewrite <- app_assoc. reflexivity.
    + (* drop *)
      destruct (sleep_poll now (sleep_new (dl now d) nid) dr) as [[r0 s1] dr1]. cbn [fst snd].
      rewrite IH. destruct (frag_run now (nid + 1) r (sleep_drop s1 dr1)) as [[[o b] n] d']. rewrite <- app_assoc. reflexivity.
    + rewrite IH. destruct (frag_run now nid r dr) as [[[o b] n] d']. rewrite <- app_assoc. reflexivity.
Qed.

(* the task is polled when the future it awaits completes: at its wake instant *)
Definition aw_done (t : N) (a : aw) (dr : driver) : driver :=
  match a with
  | AwTimeout (VSleep s) dl =>
    if deadline s <=? t then drop_entry (sid dl) (deadline dl) dr else drop_entry (sid s) (deadline s) dr
  | _ => dr
  end.

Lemma run_steps_woken now m k st r a dr nid lg mail :
  aw_kind a -> Forall (fun s => handle s = Some (deadline s)) (aw_held a) -> aw_wake a = now ->
  run_steps now m k (st :: r) (Some a) None dr nid lg mail =
  run_steps now m k r None None (aw_done now a dr) nid (lg ++ aw_rec a) mail.
Proof.
  intros Hk Hh Hw. destruct a as [s|v dl| | | | | | |]; try contradiction.
  - cbn [aw_wake] in Hw. cbn [run_steps poll_aw poll_aw0 fst snd aw_done aw_rec]. unfold sleep_poll.
    replace (now <? deadline s) with false by lia. rewrite Hw. reflexivity.
  - destruct v as [s| | |]; try contradiction. cbn [aw_wake] in Hw. cbn [aw_held held_sleeps] in Hh.
    inversion Hh as [|? ? Hs Hh']; subst. inversion Hh' as [|? ? Hd _]; subst.
    cbn [run_steps poll_aw fst snd aw_done aw_rec]. unfold timeout_poll, vpoll_m. cbn [fst snd vpoll]. unfold sleep_poll.
    destruct (deadline s <=? N.min (deadline s) (deadline dl)) eqn:E.
    + replace (N.min (deadline s) (deadline dl) <? deadline s) with false by lia. cbn [fst snd vdrop].
      unfold sleep_drop. cbn [handle sid]. rewrite Hd.
      replace (deadline s <=? deadline dl) with true by lia. reflexivity.
    + replace (N.min (deadline s) (deadline dl) <? deadline s) with true by lia. rewrite Hs. cbn [fst snd].
      replace (N.min (deadline s) (deadline dl) <? deadline dl) with false by lia. cbn [fst snd vdrop].
      unfold sleep_drop. cbn [handle sid]. rewrite Hs.
      replace (deadline s <=? deadline dl) with false by lia. reflexivity.
Qed.

(* the preparations of a step leave the entries of the driver as they were *)
Lemma prep_drv_spec now nid st dr : frag_step st -> Mid now dr -> fresh_in nid (pending dr) ->
  acts now dr (prep_drv now nid st dr) /\ forall x, ents_at x (pending (prep_drv now nid st dr)) = ents_at x (pending dr).
Proof.
  intros Hst Hm Hf. pose proof (mid_sorted _ _ Hm) as Hs.
  destruct st as [d|t|d v| | | | |polled d1 d2|d| | | | | |]; try contradiction; cbn [prep_drv]; try (split; [apply acts_refl|reflexivity]).
  - destruct v as [x|]; [|contradiction].
    destruct ((now <? now + x) && negb (now <? dl now d)) eqn:E; [|split; [apply acts_refl|reflexivity]].
    split.
    + eapply acts_trans; [apply (acts_one now dr (Register nid (now + x))); cbn [op_wf]; lia|].
      apply (acts_one now _ (DropEntry nid (now + x))). exact I.
    + intros y. apply drop_registered_ents; assumption.
  - destruct (reset_prep_spec now polled (dl now d1) (dl now d2) nid dr Hs Hf) as (_ & H2 & H3). split; assumption.
  - split; [apply poll_drop_acts|]. intros x. apply poll_drop_ents; assumption.
Qed.

(* what one poll emits, where it leaves the task against the demanded log, and what it does
   to the driver: contract-respecting operations whose net effect on the entries is the
   registration of the Sleeps the task blocks on *)
Definition blocked_ok (now nid n : N) (a : aw) : Prop :=
  aw_kind a /\ now < aw_wake a /\ NoDup (map sid (aw_held a)) /\
  Forall (fun s => now < deadline s /\ handle s = Some (deadline s) /\ nid <= sid s /\ sid s < n) (aw_held a).

Lemma frag_run_spec now steps : Forall frag_step steps -> forall nid dr,
  Mid now dr -> (forall x id, In id (ents_at x (pending dr)) -> id < nid) ->
  let '(o, b, n, d') := frag_run now nid steps dr in
  nid <= n /\ acts now dr d' /\
  (forall x, ents_at x (pending d') =
             ents_at x (pending dr) ++ match b with Some (a, _) => new_at a x | None => [] end) /\
  match b with
  | None => exp_run now steps = o
  | Some (a, l) =>
    exists st rest, l = st :: rest /\ Forall frag_step rest /\
      exp_run now steps = o ++ aw_rec a ++ exp_run (aw_wake a) rest /\ blocked_ok now nid n a
  end.
Proof.
  induction 1 as [|st r Hst Hr IH]; intros nid dr Hm Hfr.
  { cbn [frag_run exp_run]. split; [lia|]. split; [apply acts_refl|]. split; [intros x; rewrite app_nil_r; reflexivity|reflexivity]. }
  assert (Hf : fresh_in nid (pending dr)) by (intros x Hin; specialize (Hfr x nid Hin); lia).
  destruct (prep_drv_spec now nid st dr Hst Hm Hf) as [Hpa Hpe].
  assert (Hm1 : Mid now (prep_drv now nid st dr)) by exact (acts_mid _ _ _ Hpa Hm).
  (* a step that blocks on one Sleep *)
  assert (Hblock : forall D, dl_of now st = D -> now < D ->
    (exp_run now (st :: r) = D :: exp_run D r) ->
    let a := AwSleep (reg nid D) in
    nid <= nid + 1 /\ acts now dr (register nid D (prep_drv now nid st dr)) /\
    (forall x, ents_at x (pending (register nid D (prep_drv now nid st dr))) = ents_at x (pending dr) ++ new_at a x) /\
    exists st' rest, st :: r = st' :: rest /\ Forall frag_step rest /\
      exp_run now (st :: r) = [] ++ aw_rec a ++ exp_run (aw_wake a) rest /\ blocked_ok now nid (nid + 1) a).
  { intros D HD Hlt Hexp. cbn zeta. split; [lia|]. split.
    - eapply acts_trans; [exact Hpa|]. apply (acts_one now _ (Register nid D)). exact Hlt.
    - split.
      + intros x. cbn [register set_pending pending]. rewrite (ents_at_add _ _ _ _ (mid_sorted _ _ Hm1)), !Hpe.
        unfold new_at. cbn [aw_held held_sleeps filter reg deadline sid map].
        destruct (x =? D) eqn:E.
        * replace x with D by lia. rewrite N.eqb_refl. reflexivity.
        * replace (D =? x) with false by lia. rewrite app_nil_r. reflexivity.
      + exists st, r. cbn [aw_rec aw_wake reg deadline app]. split; [reflexivity|]. split; [exact Hr|]. split; [exact Hexp|].
        unfold blocked_ok. cbn [aw_kind aw_wake aw_held held_sleeps reg deadline sid handle map].
        split; [exact I|]. split; [exact Hlt|]. split; [repeat constructor; intros []|].
        constructor; [|constructor]. unfold reg. cbn [deadline handle sid]. repeat split; try reflexivity; lia. }
  (* a step that completes at once *)
  assert (Hpass : forall nid' dr' (pre : list N), nid <= nid' -> acts now dr dr' -> Mid now dr' ->
     (forall x, ents_at x (pending dr') = ents_at x (pending dr)) ->
     (exp_run now (st :: r) = pre ++ exp_run now r) ->
     let '(o, b, n, d') := frag_run now nid' r dr' in
     nid <= n /\ acts now dr d' /\
     (forall x, ents_at x (pending d') =
                ents_at x (pending dr) ++ match b with Some (a, _) => new_at a x | None => [] end) /\
     match b with
     | None => exp_run now (st :: r) = pre ++ o
     | Some (a, l) =>
       exists st' rest, l = st' :: rest /\ Forall frag_step rest /\
         exp_run now (st :: r) = (pre ++ o) ++ aw_rec a ++ exp_run (aw_wake a) rest /\ blocked_ok now nid n a
     end).
  { intros nid' dr' pre Hn Ha Hm' He Hexp.
    assert (Hfr' : forall x id, In id (ents_at x (pending dr')) -> id < nid') by (intros x id Hin; rewrite He in Hin; specialize (Hfr x id Hin); lia).
    specialize (IH nid' dr' Hm' Hfr'). destruct (frag_run now nid' r dr') as [[[o b] n] d'].
    destruct IH as (I1 & I2 & I3 & I4). split; [lia|]. split; [exact (acts_trans _ _ _ _ Ha I2)|].
    split; [intros x; rewrite I3, He; reflexivity|].
    destruct b as [[a l]|].
    - destruct I4 as (st' & rest & -> & Hf' & He' & Hk & Hw & Hnd & Hall). exists st', rest.
      rewrite Hexp, He', <- app_assoc. split; [reflexivity|]. split; [exact Hf'|]. split; [reflexivity|].
      split; [exact Hk|]. split; [exact Hw|]. split; [exact Hnd|].
      eapply Forall_impl; [|exact Hall]. cbn beta. intros s0 (H1 & H2 & H3 & H4). repeat split; try assumption; lia.
    - rewrite Hexp, I4. reflexivity. }
  destruct st as [d|t|d v| | | | |polled d1 d2|d| | | | | |]; try contradiction; cbn [frag_run].
  - (* sleep *)
    cbn [dl_of]. destruct (now <? now + d) eqn:E.
    + apply (Hblock (now + d)); [reflexivity|lia|reflexivity].
    + pose proof (Hpass (nid + 1) (prep_drv now nid (SSleep d) dr) [now] ltac:(lia) Hpa Hm1 Hpe) as H.
      cbn [prep_drv] in *. destruct (frag_run now (nid + 1) r dr) as [[[o b] n] d'].
      apply H. cbn [exp_run app]. replace (now + d) with now by lia. reflexivity.
  - (* sleep_until *)
    cbn [dl_of]. destruct (now <? t) eqn:E.
    + apply (Hblock t); [reflexivity|lia|]. cbn [exp_run]. replace (N.max now t) with t by lia. reflexivity.
    + pose proof (Hpass (nid + 1) (prep_drv now nid (SSleepUntil t) dr) [now] ltac:(lia) Hpa Hm1 Hpe) as H.
      cbn [prep_drv] in *. destruct (frag_run now (nid + 1) r dr) as [[[o b] n] d'].
      apply H. cbn [exp_run app]. replace (N.max now t) with now by lia. reflexivity.
  - (* timeout around a sleep *)
    destruct v as [x|]; [|contradiction]. destruct Hst as [Hd Hx]. rewrite (dl_fin now d Hd) in *.
    destruct ((now <? now + x) && (now <? now + d)) eqn:E.
    + (* both pending: the value Sleep and the delay are registered *)
      split; [lia|]. split.
      * eapply acts_trans; [apply (acts_one now dr (Register nid (now + x))); cbn [op_wf]; lia|].
        apply (acts_one now _ (Register (nid + 1) (now + d))). cbn [op_wf]. lia.
      * split.
        -- intros y. cbn [register set_pending pending].
           rewrite (ents_at_add _ _ _ _ (q_add_sorted _ _ _ (mid_sorted _ _ Hm))), !(ents_at_add _ _ _ _ (mid_sorted _ _ Hm)).
           unfold new_at. cbn [aw_held held_sleeps filter reg deadline sid map].
           destruct (y =? now + d) eqn:E1, (y =? now + x) eqn:E2.
           ++ replace y with (now + d) by lia. replace (now + x) with (now + d) by lia. rewrite !N.eqb_refl. cbn [map]. rewrite <- app_assoc. reflexivity.
           ++ replace y with (now + d) by lia. rewrite N.eqb_refl. replace (now + d =? now + x) with false by lia.
              replace (now + x =? now + d) with false by lia. cbn [map]. reflexivity.
           ++ replace y with (now + x) by lia. rewrite N.eqb_refl. replace (now + d =? now + x) with false by lia. cbn [map reg sid]. reflexivity.
           ++ replace (now + x =? y) with false by lia. replace (now + d =? y) with false by lia. cbn [map]. rewrite app_nil_r. reflexivity.
        -- exists (STimeout d (ISleep x)), r. split; [reflexivity|]. split; [exact Hr|].
           cbn [aw_rec aw_wake reg deadline exp_run app]. split.
           ++ rewrite N.add_min_distr_l. replace (now + x <=? now + d) with (x <=? d) by lia. reflexivity.
           ++ unfold blocked_ok. cbn [aw_kind aw_wake aw_held held_sleeps reg deadline sid handle map].
              split; [exact I|]. split; [lia|]. split; [repeat constructor; [intros [H|[]]; lia|intros []]|].
              constructor; [|constructor; [|constructor]]; unfold reg; cbn [deadline handle sid]; repeat split; try reflexivity; lia.
    + (* one of them is due at once *)
      pose proof (Hpass (nid + 2) (prep_drv now nid (STimeout d (ISleep x)) dr) [now; b2n (negb (now <? now + x))] ltac:(lia) Hpa Hm1 Hpe) as H.
      cbn [prep_drv] in *. rewrite (dl_fin now d Hd) in *.
      destruct (frag_run now (nid + 2) r _) as [[[o b] n] d'].
      apply H. cbn [exp_run app].
      destruct (now <? now + x) eqn:E1; cbn [andb negb] in *.
      * (* the value is pending, so the delay is due: d = 0 *)
        replace (N.min x d) with 0 by lia. replace (x <=? d) with false by lia. rewrite N.add_0_r. reflexivity.
      * replace (N.min x d) with 0 by lia. replace (x <=? d) with true by lia. rewrite N.add_0_r. reflexivity.
  - (* reset *)
    destruct Hst as [Hd1 Hd2]. cbn [dl_of]. rewrite (dl_fin now d2 Hd2) in *. destruct (now <? now + d2) eqn:E.
    + apply (Hblock (now + d2)); [cbn [dl_of]; apply dl_fin; exact Hd2|lia|reflexivity].
    + pose proof (Hpass (nid + 1) (prep_drv now nid (SReset polled d1 d2) dr) [now] ltac:(lia) Hpa Hm1 Hpe) as H.
      destruct (frag_run now (nid + 1) r (prep_drv now nid (SReset polled d1 d2) dr)) as [[[o b] n] d'].
      apply H. cbn [exp_run app]. replace (now + d2) with now by lia. reflexivity.
  - (* drop *)
    pose proof (Hpass (nid + 1) (prep_drv now nid (SDropSleep d) dr) [now] ltac:(lia) Hpa Hm1 Hpe) as H.
    destruct (frag_run now (nid + 1) r (prep_drv now nid (SDropSleep d) dr)) as [[[o b] n] d'].
    apply H. reflexivity.
  - (* log *)
    pose proof (Hpass nid dr [now] ltac:(lia) (acts_refl now dr) Hm (fun x => eq_refl)) as H.
    destruct (frag_run now nid r dr) as [[[o b] n] d']. apply H. reflexivity.
Qed.
