(* The fragment {sleep, sleep_until, log, reset / drop of a pinned sleep, timeout(d, sleep x),
   interval new / tick / drop, keep-alive select (step 13)} of the task scripts of
   coq/Timer/Model.v: what the property demands of a task (exp_run), and what one poll of
   such a task does (frag_run, poll_ok). *)
From Coq Require Import List Arith NArith Bool Lia ZifyBool.
From DesVerif Require Import Common.Codec CQueue.Spec Timer.Driver Timer.QueueLemmas Timer.Inv Timer.Futures Timer.FutureLaws Timer.TempOps Timer.Model.
Import ListNotations.
Open Scope N_scope.

(* finite durations: a duration >= FARK stands for Duration::MAX (coq/Timer/Model.v [dl]) *)
Definition frag_step (s : step) : Prop :=
  match s with
  | SSleep _ | SSleepUntil _ | SLog => True
  | SReset _ d1 d2 => d1 < FARK /\ d2 < FARK
  | SDropSleep d => d < FARK
  | STimeout d (ISleep x) => d < FARK /\ x < FARK
  | SSelect _ a b => a < FARK /\ b < FARK
  | SIvNew p _ => 0 < p
  | SIvTick | SIvDrop => True
  | SKeep _ _ d2 x d3 => d2 < FARK /\ x < FARK /\ d3 < FARK
  | _ => False
  end.

(* select! over sleep(a) and sleep(b): the branch that is reported; an unbiased select whose branches
   are due at the same instant may take either, which the scripts log as 2 *)
Definition sel_code (biased : bool) (a b : N) : N :=
  if a <=? b then (if biased || negb (a =? b) then 0 else 2) else 1.

(* what the log depends on of an interval: (deadline of the next tick, period, behaviour) *)
Definition ivs := option (N * N * behaviour).

Definition iv_abs (iv : option interval) : ivs :=
  match iv with Some i => Some (deadline (iv_delay i), iv_period i, iv_beh i) | None => None end.

(* the log the property demands of a task that is at instant [now] with [steps] to go:
   every await returns at exactly its deadline; a reset Sleep at its NEW deadline; polling and
   dropping a Sleep takes no time.  tick() of an interval whose next tick is due at [nx]
   returns at max(now, nx) -- at once if the tick was missed -- with the value nx, and the
   following tick is due at tick_next (Burst: nx + period always; Delay: now + period and
   Skip: the next multiple of the period after now, both only when the tick was taken more
   than 5 ms late); tick() without an interval is logged as [now; 0] *)
Fixpoint exp_run (now : N) (iv : ivs) (steps : list step) : list N :=
  match steps with
  | [] => []
  | SSleep d :: r => (now + d) :: exp_run (now + d) iv r
  | SSleepUntil t :: r => N.max now t :: exp_run (N.max now t) iv r
  | SReset _ _ d2 :: r => (now + d2) :: exp_run (now + d2) iv r
  | STimeout d (ISleep x) :: r => (now + N.min x d) :: b2n (x <=? d) :: exp_run (now + N.min x d) iv r
  | SSelect biased a b :: r => (now + N.min a b) :: sel_code biased a b :: exp_run (now + N.min a b) iv r
  | SIvNew p b :: r => exp_run now (Some (now, p, b)) r
  | SIvTick :: r =>
    match iv with
    | Some (nx, p, b) => N.max now nx :: nx :: exp_run (N.max now nx) (Some (tick_next b nx (N.max now nx) p, p, b)) r
    | None => now :: 0 :: exp_run now None r
    end
  | SIvDrop :: r => exp_run now None r
  | SKeep rearm _ d2 x d3 :: r =>
    (* select! { biased; the kept timer (armed for now + d2) => 0, sleep(x) => 1 }: the kept timer
       wins a tie; on 1 it is re-armed for d3 more and awaited (rearm) or dropped *)
    if d2 <=? x then (now + d2) :: 0 :: exp_run (now + d2) iv r
    else let e := now + x + (if rearm then d3 else 0) in (now + x) :: 1 :: e :: exp_run e iv r
  | _ :: r => now :: exp_run now iv r
  end.

(* outside of tick().await the Sleep of the interval is not registered *)
Definition iv_idle (iv : option interval) : Prop :=
  match iv with Some i => handle (iv_delay i) = None | None => True end.

(* the await states of the fragment: the Sleeps they hold (all registered while the task is
   blocked), the instant they complete, what the task logs then, and the interval afterwards *)
Definition aw_held (a : aw) (iv : option interval) : list sleep := held_sleeps (Some a) iv.

Definition aw_kind (a : aw) (iv : option interval) : Prop :=
  match a with
  | AwSleep _ => iv_idle iv
  | AwTimeout (VSleep _) _ => iv_idle iv
  | AwSelect _ tie sa sb => iv_idle iv /\ tie = (deadline sa =? deadline sb)
  | AwTick => iv <> None
  | AwKeep _ d3 _ _ => iv_idle iv /\ d3 < FARK
  | AwThen _ _ => iv_idle iv
  | _ => False
  end.

Definition aw_wake (a : aw) (iv : option interval) : N :=
  match a with
  | AwSleep s => deadline s
  | AwTimeout (VSleep s) dl => N.min (deadline s) (deadline dl)
  | AwSelect _ _ sa sb => N.min (deadline sa) (deadline sb)
  | AwTick => match iv with Some i => deadline (iv_delay i) | None => 0 end
  | AwKeep _ _ s sx => N.min (deadline s) (deadline sx)
  | AwThen _ s => deadline s
  | _ => 0
  end.

(* the instant the await completes: the first wake-up, except for the re-armed kept timer *)
Definition aw_end (a : aw) (iv : option interval) : N :=
  match a with
  | AwKeep rearm d3 s sx => if deadline s <=? deadline sx then deadline s else deadline sx + (if rearm then d3 else 0)
  | _ => aw_wake a iv
  end.

Definition aw_rec (a : aw) (iv : option interval) : list N :=
  match a with
  | AwSleep s => [deadline s]
  | AwTimeout (VSleep s) dl => [N.min (deadline s) (deadline dl); b2n (deadline s <=? deadline dl)]
  | AwSelect biased _ sa sb => [N.min (deadline sa) (deadline sb); sel_code biased (deadline sa) (deadline sb)]
  | AwTick => match iv with Some i => [deadline (iv_delay i); deadline (iv_delay i)] | None => [] end
  | AwKeep rearm d3 s sx =>
    if deadline s <=? deadline sx then [deadline s; 0] else [deadline sx; 1; deadline sx + (if rearm then d3 else 0)]
  | AwThen pre s => pre ++ [deadline s]
  | _ => []
  end.

Definition iv_next (i : interval) (d : N) : interval :=
  {| iv_delay := {| deadline := d; sid := sid (iv_delay i); handle := None |}; iv_period := iv_period i; iv_beh := iv_beh i |}.

Definition iv_after (a : aw) (iv : option interval) : option interval :=
  match a, iv with
  | AwTick, Some i => Some (iv_next i (deadline (iv_delay i) + iv_period i))
  | _, _ => iv
  end.

(* ids of the held Sleeps registered under deadline x, in registration order *)
Definition new_at (a : aw) (iv : option interval) (x : N) : list N :=
  map sid (filter (fun s => deadline s =? x) (aw_held a iv)).

Definition reg (id d : N) : sleep := {| deadline := d; sid := id; handle := Some d |}.

Definition dl_of (now : N) (st : step) : N :=
  match st with SSleep d => now + d | SSleepUntil t => t | SReset _ _ d2 => dl now d2 | _ => now end.

(* the driver after the preparations of a step: reset = the pinned Sleep is created, polled
   (registered) if asked, and reset -- which removes the entry again; drop = created, polled, dropped *)
Definition prep_drv (now nid : N) (st : step) (dr : driver) : driver :=
  match st with
  | SReset polled d1 d2 => snd (reset_prep now polled (dl now d1) (dl now d2) nid dr)
  | SDropSleep d => let '(_, s1, dr1) := sleep_poll now (sleep_new (dl now d) nid) dr in sleep_drop s1 dr1
  | STimeout d (ISleep x) =>
    (* only when the delay is due at once (d = 0) while the value is not: the value Sleep was registered and is dropped *)
    if (now <? now + x) && negb (now <? dl now d) then drop_entry nid (now + x) (register nid (now + x) dr) else dr
  | SSelect _ a b =>
    (* only when sleep(b) is due at once (b = 0) while sleep(a) is not: sleep(a) was registered and is dropped *)
    if (now <? dl now a) && negb (now <? dl now b) then drop_entry nid (dl now a) (register nid (dl now a) dr) else dr
  | SKeep rearm d0 d2 x d3 =>
    (* the kept timer is created, polled, reset to now + d2; if then sleep(x) is due at once (x = 0) while the
       kept timer is not, the kept timer -- registered by the select -- is reset again or dropped *)
    let dr2 := snd (reset_prep now true (dl now d0) (dl now d2) nid dr) in
    if (now <? dl now d2) && negb (now <? now + x) then
      if rearm then reset_entry nid (dl now d2) (dl now d3) (register nid (dl now d2) dr2)
      else drop_entry nid (dl now d2) (register nid (dl now d2) dr2)
    else dr2
  | _ => dr
  end.

Definition iv_reg (i : interval) : interval :=
  {| iv_delay := reg (sid (iv_delay i)) (deadline (iv_delay i)); iv_period := iv_period i; iv_beh := iv_beh i |}.

(* one poll of a task that is not awaiting anything: (log entries, the await state it blocks in
   with its interval and the steps still to go, next Sleep id, the driver afterwards) *)
Fixpoint frag_run (now nid : N) (iv : option interval) (steps : list step) (dr : driver)
  : list N * option (aw * option interval * list step) * N * driver :=
  match steps with
  | [] => ([], None, nid, dr)
  | st :: r =>
    match st with
    | SLog => let '(o, b, n, d') := frag_run now nid iv r dr in (now :: o, b, n, d')
    | SDropSleep _ => let '(o, b, n, d') := frag_run now (nid + 1) iv r (prep_drv now nid st dr) in (now :: o, b, n, d')
    | SSleep _ | SSleepUntil _ | SReset _ _ _ =>
      let dr1 := prep_drv now nid st dr in
      if now <? dl_of now st
      then ([], Some (AwSleep (reg nid (dl_of now st)), iv, st :: r), nid + 1, register nid (dl_of now st) dr1)
      else let '(o, b, n, d') := frag_run now (nid + 1) iv r dr1 in (now :: o, b, n, d')
    | STimeout d (ISleep x) =>
      if (now <? now + x) && (now <? dl now d)
      then ([], Some (AwTimeout (VSleep (reg nid (now + x))) (reg (nid + 1) (dl now d)), iv, st :: r), nid + 2,
            register (nid + 1) (dl now d) (register nid (now + x) dr))
      else let '(o, b, n, d') := frag_run now (nid + 2) iv r (prep_drv now nid st dr) in
           (now :: b2n (negb (now <? now + x)) :: o, b, n, d')
    | SSelect biased a b =>
      if (now <? dl now a) && (now <? dl now b)
      then ([], Some (AwSelect biased (a =? b) (reg nid (dl now a)) (reg (nid + 1) (dl now b)), iv, st :: r), nid + 2,
            register (nid + 1) (dl now b) (register nid (dl now a) dr))
      else let '(o, b', n, d') := frag_run now (nid + 2) iv r (prep_drv now nid st dr) in
           (now :: (if now <? dl now a then 1 else if biased || negb (a =? b) then 0 else 2) :: o, b', n, d')
    | SKeep rearm d0 d2 x d3 =>
      let drp := prep_drv now nid st dr in
      if now <? dl now d2 then
        if now <? now + x then
          ([], Some (AwKeep rearm d3 (reg nid (dl now d2)) (reg (nid + 1) (now + x)), iv, st :: r), nid + 2,
           register (nid + 1) (now + x) (register nid (dl now d2) drp))
        else if rearm && (now <? dl now d3) then
          ([], Some (AwThen [now; 1] (reg nid (dl now d3)), iv, st :: r), nid + 2, register nid (dl now d3) drp)
        else let '(o, b, n, d') := frag_run now (nid + 2) iv r drp in (now :: 1 :: now :: o, b, n, d')
      else let '(o, b, n, d') := frag_run now (nid + 2) iv r drp in (now :: 0 :: o, b, n, d')
    | SIvNew p bh => frag_run now (nid + 1) (Some (interval_new now p bh nid)) r dr
    | SIvDrop => frag_run now nid None r dr
    | SIvTick =>
      match iv with
      | None => let '(o, b, n, d') := frag_run now nid None r dr in (now :: 0 :: o, b, n, d')
      | Some i =>
        let nx := deadline (iv_delay i) in
        if now <? nx
        then ([], Some (AwTick, Some (iv_reg i), st :: r), nid, register (sid (iv_delay i)) nx dr)
        else let '(o, b, n, d') := frag_run now nid (Some (iv_next i (tick_next (iv_beh i) nx now (iv_period i)))) r dr in
             (now :: nx :: o, b, n, d')
      end
    | _ => ([], None, nid, dr)
    end
  end.

Definition fr_steps (b : option (aw * option interval * list step)) : list step := match b with Some (_, _, l) => l | None => [] end.
Definition fr_cur (b : option (aw * option interval * list step)) : option aw := match b with Some (a, _, _) => Some a | None => None end.
Definition fr_iv (b : option (aw * option interval * list step)) : option interval := match b with Some (_, iv, _) => iv | None => None end.

Lemma dl_fin now d : d < FARK -> dl now d = now + d.
Proof. intros H. unfold dl. replace (FARK <=? d) with false by lia. reflexivity. Qed.

Lemma iv_drop_idle iv dr : iv_idle iv -> iv_drop iv dr = dr.
Proof. destruct iv as [i|]; [|reflexivity]. cbn [iv_idle iv_drop]. unfold sleep_drop. intros ->. reflexivity. Qed.

Lemma run_steps_frag now m k steps : Forall frag_step steps -> forall iv dr nid lg mail, iv_idle iv ->
  run_steps now m k steps None iv dr nid lg mail =
  let '(o, b, n, d') := frag_run now nid iv steps dr in
  (fr_steps b, fr_cur b, fr_iv b, d', n, lg ++ o, false, mail).
Proof.
  induction 1 as [|st r Hst Hr IH]; intros iv dr nid lg mail Hi.
  - cbn [run_steps frag_run fr_steps fr_cur fr_iv]. rewrite (iv_drop_idle iv dr Hi), app_nil_r. reflexivity.
  - destruct st; try contradiction; cbn [run_steps start_step start_step0 poll_aw poll_aw0 fst snd frag_run dl_of prep_drv].
    + unfold sleep_poll, sleep_new. cbn [deadline handle sid].
      destruct (now <? now + d); cbn [fr_steps fr_cur fr_iv]; [rewrite app_nil_r; reflexivity|].
      rewrite (IH iv _ _ _ _ Hi). destruct (frag_run now (nid + 1) iv r dr) as [[[o b] n] d']. rewrite <- app_assoc. reflexivity.
    + unfold sleep_poll, sleep_new. cbn [deadline handle sid].
      destruct (now <? t); cbn [fr_steps fr_cur fr_iv]; [rewrite app_nil_r; reflexivity|].
      rewrite (IH iv _ _ _ _ Hi). destruct (frag_run now (nid + 1) iv r dr) as [[[o b] n] d']. rewrite <- app_assoc. reflexivity.
    + (* timeout around a sleep *)
      destruct v as [x|]; [|contradiction].
      cbn [run_steps start_step start_step0 poll_aw poll_aw0 fst snd frag_run prep_drv]. unfold timeout_poll, vpoll_m. cbn [fst snd vpoll]. unfold sleep_poll, sleep_new. cbn [deadline handle sid].
      destruct (now <? now + x) eqn:Ex; cbn [andb negb].
      * destruct (now <? dl now d) eqn:Ed; cbn [fst snd self_wakes fr_steps fr_cur fr_iv reg].
        -- rewrite app_nil_r. reflexivity.
        -- unfold sleep_drop, vdrop. cbn [handle sid].
           rewrite (IH iv _ _ _ _ Hi). destruct (frag_run now (nid + 2) iv r _) as [[[o b] n] d']. rewrite <- app_assoc. reflexivity.
      * cbn [fst snd vdrop]. unfold sleep_drop. cbn [handle].
        rewrite (IH iv _ _ _ _ Hi). destruct (frag_run now (nid + 2) iv r dr) as [[[o b] n] d']. rewrite <- app_assoc. reflexivity.
    + (* select over two sleeps *)
      destruct Hst as [Ha Hb]. rewrite (dl_fin now a Ha), (dl_fin now b Hb).
      unfold sleep_poll, sleep_new. cbn [deadline handle sid].
      destruct (now <? now + a) eqn:Ea; cbn [andb negb].
      * destruct (now <? now + b) eqn:Eb; cbn [fst snd fr_steps fr_cur fr_iv reg].
        -- rewrite app_nil_r. reflexivity.
        -- unfold sleep_drop. cbn [handle sid]. replace (a =? b) with false by lia. rewrite orb_true_r.
           rewrite (IH iv _ _ _ _ Hi). destruct (frag_run now (nid + 2) iv r _) as [[[o b'] n] d']. rewrite <- app_assoc. reflexivity.
      * cbn [fst snd]. unfold sleep_drop. cbn [handle].
        rewrite (IH iv _ _ _ _ Hi). destruct (frag_run now (nid + 2) iv r dr) as [[[o b'] n] d']. rewrite <- app_assoc. reflexivity.
    + (* a new interval: the old one, idle, is dropped *)
      rewrite (iv_drop_idle iv dr Hi). rewrite IH; [|reflexivity]. reflexivity.
    + (* tick *)
      destruct iv as [[[dd ii hh] pp bb]|]; cbn [iv_idle iv_delay handle] in Hi.
      * subst hh. unfold poll_tick, sleep_poll. cbn [iv_delay iv_period iv_beh deadline handle sid].
        destruct (now <? dd); cbn [fr_steps fr_cur fr_iv].
        -- rewrite app_nil_r. reflexivity.
        -- unfold sleep_reset. cbn [deadline handle sid fst snd].
           rewrite IH; [|reflexivity]. unfold iv_next. cbn [iv_delay iv_period iv_beh sid].
           destruct (frag_run now nid _ r dr) as [[[o b] n] d']. rewrite <- app_assoc. reflexivity.
      * rewrite IH; [|exact I]. destruct (frag_run now nid None r dr) as [[[o b] n] d']. rewrite <- app_assoc. reflexivity.
    + (* the interval, idle, is dropped *)
      rewrite (iv_drop_idle iv dr Hi). rewrite IH; [|exact I]. reflexivity.
    + (* reset *)
      unfold reset_prep.
      destruct (if polled then let '(_, s1, dr1) := sleep_poll now (sleep_new (dl now d1) nid) dr in (s1, dr1)
                else (sleep_new (dl now d1) nid, dr)) as [s1 dr1] eqn:E1.
      assert (Hsid : sid s1 = nid).
      { destruct polled; [|injection E1 as <- _; reflexivity].
        pose proof (sleep_poll_sid now (sleep_new (dl now d1) nid) dr) as Hs.
        destruct (sleep_poll now (sleep_new (dl now d1) nid) dr) as [[r0 s1'] dr1']. injection E1 as <- _. exact Hs. }
      unfold sleep_reset. cbn [snd fst poll_aw poll_aw0]. unfold sleep_poll. cbn [deadline handle sid]. rewrite Hsid.
      destruct (now <? dl now d2); cbn [fr_steps fr_cur fr_iv fst snd]; [rewrite app_nil_r; reflexivity|].
      rewrite (IH iv _ _ _ _ Hi). destruct (frag_run now (nid + 1) iv r _) as [[[o b] n] d']. rewrite <- app_assoc. reflexivity.
    + (* drop *)
      destruct (sleep_poll now (sleep_new (dl now d) nid) dr) as [[r0 s1] dr1]. cbn [fst snd].
      rewrite (IH iv _ _ _ _ Hi). destruct (frag_run now (nid + 1) iv r (sleep_drop s1 dr1)) as [[[o b] n] d']. rewrite <- app_assoc. reflexivity.
    + rewrite (IH iv _ _ _ _ Hi). destruct (frag_run now nid iv r dr) as [[[o b] n] d']. rewrite <- app_assoc. reflexivity.
    + (* keep-alive select *)
      unfold reset_prep, sleep_poll, sleep_new, sleep_reset. cbn [deadline handle sid fst snd].
      destruct (now <? dl now d0); cbn [deadline handle sid fst snd poll_aw poll_aw0]; unfold sleep_poll; cbn [deadline handle sid];
      (destruct (now <? dl now d2) eqn:E2; cbn [andb negb];
       [destruct (now <? now + x) eqn:Ex; cbn [andb negb fst snd];
        [cbn [fr_steps fr_cur fr_iv reg]; rewrite app_nil_r; reflexivity|
         destruct rearm; cbn [andb];
         [unfold sleep_reset, sleep_drop; cbn [deadline handle sid fst snd]; unfold sleep_poll; cbn [deadline handle sid];
          destruct (now <? dl now d3) eqn:E3; cbn [fr_steps fr_cur fr_iv reg fst snd];
          [rewrite app_nil_r; reflexivity|
           rewrite (IH iv _ _ _ _ Hi);
           match goal with |- context [frag_run now (nid + 2) iv r ?D] => destruct (frag_run now (nid + 2) iv r D) as [[[o b] n] d'] end;
           rewrite <- app_assoc; reflexivity]|
          unfold sleep_drop; cbn [deadline handle sid fst snd];
          rewrite (IH iv _ _ _ _ Hi);
          match goal with |- context [frag_run now (nid + 2) iv r ?D] => destruct (frag_run now (nid + 2) iv r D) as [[[o b] n] d'] end;
          rewrite <- app_assoc; reflexivity]]|
        unfold sleep_drop; cbn [deadline handle sid fst snd];
        rewrite (IH iv _ _ _ _ Hi);
        match goal with |- context [frag_run now (nid + 2) iv r ?D] => destruct (frag_run now (nid + 2) iv r D) as [[[o b] n] d'] end;
        rewrite <- app_assoc; reflexivity]).
Qed.

(* the task is polled when the future it awaits completes: at its wake instant *)
Definition aw_done (t : N) (a : aw) (dr : driver) : driver :=
  match a with
  | AwTimeout (VSleep s) dl =>
    if deadline s <=? t then drop_entry (sid dl) (deadline dl) dr else drop_entry (sid s) (deadline s) dr
  | AwSelect _ _ sa sb =>
    if deadline sa <=? t then drop_entry (sid sb) (deadline sb) dr else drop_entry (sid sa) (deadline sa) dr
  | AwKeep rearm d3 s sx =>
    if deadline s <=? t then drop_entry (sid sx) (deadline sx) dr
    else if rearm then reset_entry (sid s) (deadline s) (dl t d3) dr
         else drop_entry (sid s) (deadline s) dr
  | _ => dr
  end.

(* ... except when sleep(x) wins against the kept timer and that is re-armed for a later
   instant: the task stays blocked, now on the kept timer alone *)
Definition aw_reblock (t : N) (a : aw) : option aw :=
  match a with
  | AwKeep true d3 s sx =>
    if deadline s <=? t then None
    else if t <? dl t d3 then Some (AwThen [t; 1] (reg (sid s) (dl t d3))) else None
  | _ => None
  end.

Lemma run_steps_woken now m k st r a iv dr nid lg mail :
  aw_kind a iv -> Forall (fun s => handle s = Some (deadline s)) (aw_held a iv) -> aw_wake a iv = now ->
  aw_reblock now a = None ->
  run_steps now m k (st :: r) (Some a) iv dr nid lg mail =
  run_steps now m k r None (iv_after a iv) (aw_done now a dr) nid (lg ++ aw_rec a iv) mail.
Proof.
  intros Hk Hh Hw Hrb. destruct a as [s|v dl|biased tie sa sb| | | | |rearm d3 s sx|pre s]; try contradiction.
  - cbn [aw_wake] in Hw. cbn [run_steps poll_aw poll_aw0 fst snd aw_done aw_rec iv_after]. unfold sleep_poll.
    replace (now <? deadline s) with false by lia. rewrite Hw. reflexivity.
  - destruct v as [s| | |]; try contradiction. cbn [aw_wake] in Hw. cbn [aw_held held_sleeps] in Hh.
    inversion Hh as [|? ? Hs Hh']; subst. inversion Hh' as [|? ? Hd _]; subst.
    cbn [run_steps poll_aw fst snd aw_done aw_rec iv_after]. unfold timeout_poll, vpoll_m. cbn [fst snd vpoll]. unfold sleep_poll.
    destruct (deadline s <=? N.min (deadline s) (deadline dl)) eqn:E.
    + replace (N.min (deadline s) (deadline dl) <? deadline s) with false by lia. cbn [fst snd vdrop].
      unfold sleep_drop. cbn [handle sid]. rewrite Hd.
      replace (deadline s <=? deadline dl) with true by lia. reflexivity.
    + replace (N.min (deadline s) (deadline dl) <? deadline s) with true by lia. rewrite Hs. cbn [fst snd].
      replace (N.min (deadline s) (deadline dl) <? deadline dl) with false by lia. cbn [fst snd vdrop].
      unfold sleep_drop. cbn [handle sid]. rewrite Hs.
      replace (deadline s <=? deadline dl) with false by lia. reflexivity.
  - (* select over two sleeps *)
    destruct Hk as [_ ->]. cbn [aw_wake] in Hw. cbn [aw_held held_sleeps] in Hh.
    inversion Hh as [|? ? Hsa Hh']; subst. inversion Hh' as [|? ? Hsb _]; subst.
    cbn [run_steps poll_aw poll_aw0 fst snd aw_done aw_rec iv_after]. unfold sleep_poll, sel_code.
    destruct (deadline sa <=? N.min (deadline sa) (deadline sb)) eqn:E.
    + replace (N.min (deadline sa) (deadline sb) <? deadline sa) with false by lia. cbn [fst snd].
      unfold sleep_drop. cbn [handle sid]. rewrite Hsb.
      replace (deadline sa <=? deadline sb) with true by lia. reflexivity.
    + replace (N.min (deadline sa) (deadline sb) <? deadline sa) with true by lia. rewrite Hsa. cbn [fst snd].
      replace (N.min (deadline sa) (deadline sb) <? deadline sb) with false by lia. cbn [fst snd].
      unfold sleep_drop. cbn [handle sid]. rewrite Hsa.
      replace (deadline sa <=? deadline sb) with false by lia. replace (deadline sa =? deadline sb) with false by lia.
      rewrite orb_true_r. reflexivity.
  - (* the tick that was waited for: taken at exactly its instant, so it is not a missed one *)
    destruct iv as [[[dd ii hh] pp bb]|]; [|contradiction Hk; reflexivity].
    cbn [aw_wake iv_delay deadline] in Hw. subst dd.
    cbn [run_steps poll_aw poll_aw0 fst snd aw_done aw_rec iv_after iv_delay iv_period deadline]. unfold poll_tick, sleep_poll.
    cbn [iv_delay iv_period iv_beh deadline handle sid]. rewrite N.ltb_irrefl.
    unfold sleep_reset, tick_next. cbn [deadline handle sid fst snd].
    replace (now + GRACE <? now) with false by lia. reflexivity.
  - (* the keep-alive select *)
    destruct Hk as [_ Hd3]. cbn [aw_wake] in Hw. cbn [aw_held held_sleeps] in Hh.
    inversion Hh as [|? ? Hs Hh']; subst. inversion Hh' as [|? ? Hx _]; subst.
    cbn [run_steps poll_aw poll_aw0 fst snd aw_done aw_rec iv_after]. unfold sleep_poll.
    destruct (deadline s <=? N.min (deadline s) (deadline sx)) eqn:E.
    + replace (N.min (deadline s) (deadline sx) <? deadline s) with false by lia. cbn [fst snd].
      unfold sleep_drop. cbn [handle sid]. rewrite Hx.
      replace (deadline s <=? deadline sx) with true by lia.
      replace (N.min (deadline s) (deadline sx)) with (deadline s) by lia. reflexivity.
    + replace (N.min (deadline s) (deadline sx) <? deadline s) with true by lia. rewrite Hs. cbn [fst snd].
      replace (N.min (deadline s) (deadline sx) <? deadline sx) with false by lia. cbn [fst snd].
      replace (deadline s <=? deadline sx) with false by lia.
      replace (N.min (deadline s) (deadline sx)) with (deadline sx) in * by lia.
      destruct rearm.
      * cbn [aw_reblock] in Hrb. rewrite E in Hrb. rewrite (dl_fin _ _ Hd3) in *.
        destruct (deadline sx <? deadline sx + d3) eqn:E3; [discriminate|].
        unfold sleep_reset, sleep_drop. cbn [deadline handle sid fst snd]. rewrite Hs. unfold sleep_poll. cbn [deadline handle sid].
        rewrite E3. cbn [fst snd]. replace (deadline sx + d3) with (deadline sx) by lia. reflexivity.
      * unfold sleep_drop. cbn [deadline handle sid fst snd]. rewrite Hs. rewrite N.add_0_r. reflexivity.
  - (* the re-armed kept timer *)
    cbn [aw_wake] in Hw. cbn [run_steps poll_aw poll_aw0 fst snd aw_done aw_rec iv_after]. unfold sleep_poll.
    replace (now <? deadline s) with false by lia. rewrite Hw. reflexivity.
Qed.

Lemma run_steps_reblock now m k st r a a' iv dr nid lg mail :
  aw_kind a iv -> Forall (fun s => handle s = Some (deadline s)) (aw_held a iv) -> aw_wake a iv = now ->
  aw_reblock now a = Some a' ->
  exists pre s', a' = AwThen pre s' /\
  run_steps now m k (st :: r) (Some a) iv dr nid lg mail =
  (st :: r, Some a', iv, register (sid s') (deadline s') (aw_done now a dr), nid, lg, false, mail).
Proof.
  intros Hk Hh Hw Hrb. destruct a as [s|v dl| | | | | |rearm d3 s sx|pre s]; try discriminate.
  destruct rearm; [|discriminate]. cbn [aw_reblock] in Hrb.
  destruct (deadline s <=? now) eqn:E; [discriminate|]. destruct (now <? dl now d3) eqn:E3; [|discriminate]. injection Hrb as <-.
  exists [now; 1], (reg (sid s) (dl now d3)). split; [reflexivity|].
  cbn [aw_wake] in Hw. cbn [aw_held held_sleeps] in Hh.
  inversion Hh as [|? ? Hs Hh']; subst. inversion Hh' as [|? ? Hx _]; subst.
  cbn [run_steps poll_aw poll_aw0 fst snd aw_done]. unfold sleep_poll.
  replace (N.min (deadline s) (deadline sx) <? deadline s) with true by lia. rewrite Hs. cbn [fst snd].
  replace (N.min (deadline s) (deadline sx) <? deadline sx) with false by lia. cbn [fst snd].
  unfold sleep_reset, sleep_drop. cbn [deadline handle sid fst snd]. rewrite Hs. unfold sleep_poll. cbn [deadline handle sid].
  rewrite E3, E. cbn [fst snd reg deadline sid]. reflexivity.
Qed.

(* the preparations of a step leave the entries of the driver as they were *)
Lemma prep_drv_spec now nid st dr : frag_step st -> Mid now dr -> fresh_in nid (pending dr) ->
  acts now dr (prep_drv now nid st dr) /\ forall x, ents_at x (pending (prep_drv now nid st dr)) = ents_at x (pending dr).
Proof.
  intros Hst Hm Hf. pose proof (mid_sorted _ _ Hm) as Hs.
  destruct st as [d|t|d v|biased a b| | | |polled d1 d2|d| | | | | |rearm d0 d2 x d3]; try contradiction; cbn [prep_drv]; try (split; [apply acts_refl|reflexivity]).
  - destruct v as [x|]; [|contradiction].
    destruct ((now <? now + x) && negb (now <? dl now d)) eqn:E; [|split; [apply acts_refl|reflexivity]].
    split.
    + eapply acts_trans; [apply (acts_one now dr (Register nid (now + x))); cbn [op_wf]; lia|].
      apply (acts_one now _ (DropEntry nid (now + x))). exact I.
    + intros y. apply drop_registered_ents; assumption.
  - destruct ((now <? dl now a) && negb (now <? dl now b)) eqn:E; [|split; [apply acts_refl|reflexivity]].
    split.
    + eapply acts_trans; [apply (acts_one now dr (Register nid (dl now a))); cbn [op_wf]; lia|].
      apply (acts_one now _ (DropEntry nid (dl now a))). exact I.
    + intros y. apply drop_registered_ents; assumption.
  - destruct (reset_prep_spec now polled (dl now d1) (dl now d2) nid dr Hs Hf) as (_ & H2 & H3). split; assumption.
  - split; [apply poll_drop_acts|]. intros x. apply poll_drop_ents; assumption.
  - destruct (reset_prep_spec now true (dl now d0) (dl now d2) nid dr Hs Hf) as (_ & H2 & H3).
    set (dr2 := snd (reset_prep now true (dl now d0) (dl now d2) nid dr)) in *.
    assert (Hs2 : sorted (pending dr2)) by exact (mid_sorted _ _ (acts_mid _ _ _ H2 Hm)).
    assert (Hf2 : fresh_in nid (pending dr2)) by (intros y; rewrite H3; apply Hf).
    destruct ((now <? dl now d2) && negb (now <? now + x)) eqn:E; [|split; assumption].
    destruct rearm.
    + split.
      * eapply acts_trans; [exact H2|]. eapply acts_trans; [apply (acts_one now dr2 (Register nid (dl now d2))); cbn [op_wf]; lia|].
        apply (acts_one now _ (ResetEntry nid (dl now d2) (dl now d3))). exact I.
      * intros y. rewrite (reset_registered_ents _ _ _ _ _ Hs2 Hf2). apply H3.
    + split.
      * eapply acts_trans; [exact H2|]. eapply acts_trans; [apply (acts_one now dr2 (Register nid (dl now d2))); cbn [op_wf]; lia|].
        apply (acts_one now _ (DropEntry nid (dl now d2))). exact I.
      * intros y. rewrite (drop_registered_ents _ _ _ _ Hs2 Hf2). apply H3.
Qed.

(* where the id of a Sleep the task holds after a poll comes from: created in this poll, or one
   the task owned before ([old]) *)
Definition idsrc (nid n : N) (old : N -> Prop) (id : N) : Prop := (nid <= id /\ id < n) \/ old id.

Definition iv_ids (iv : option interval) (id : N) : Prop := exists i, iv = Some i /\ id = sid (iv_delay i).

Definition blocked_ok (now nid n : N) (old : N -> Prop) (a : aw) (iv' : option interval) : Prop :=
  aw_kind a iv' /\ now < aw_wake a iv' /\ NoDup (map sid (aw_held a iv')) /\
  Forall (fun s => now < deadline s /\ handle s = Some (deadline s) /\ idsrc nid n old (sid s)) (aw_held a iv') /\
  (forall id, iv_ids iv' id -> idsrc nid n old id).

(* what one poll emits against the log [E] still demanded, where it leaves the task, and what
   it does to the driver: contract-respecting operations whose net effect on the entries is the
   registration of the Sleeps the task blocks on *)
Definition poll_ok (now nid : N) (old : N -> Prop) (dr : driver) (E : list N)
                   (res : list N * option (aw * option interval * list step) * N * driver) : Prop :=
  let '(o, b, n, d') := res in
  nid <= n /\ acts now dr d' /\
  (forall x, ents_at x (pending d') =
             ents_at x (pending dr) ++ match b with Some (a, iv', _) => new_at a iv' x | None => [] end) /\
  match b with
  | None => E = o
  | Some (a, iv', l) =>
    exists st rest, l = st :: rest /\ Forall frag_step rest /\
      E = o ++ aw_rec a iv' ++ exp_run (aw_end a iv') (iv_abs (iv_after a iv')) rest /\ blocked_ok now nid n old a iv'
  end.

Lemma poll_ok_pass now nid nid' (old old' : N -> Prop) dr dr' E pre res :
  nid <= nid' -> (forall id, old' id -> idsrc nid nid' old id) -> acts now dr dr' ->
  (forall x, ents_at x (pending dr') = ents_at x (pending dr)) ->
  poll_ok now nid' old' dr' E res ->
  poll_ok now nid old dr (pre ++ E) (let '(o, b, n, d') := res in (pre ++ o, b, n, d')).
Proof.
  intros Hn Hold Ha He. destruct res as [[[o b] n] d']. unfold poll_ok. intros (I1 & I2 & I3 & I4).
  assert (Hsrc : forall id, idsrc nid' n old' id -> idsrc nid n old id).
  { intros id [[H1 H2]|H]; [left; lia|]. destruct (Hold id H) as [[H1 H2]|H']; [left; lia|right; exact H']. }
  split; [lia|]. split; [exact (acts_trans _ _ _ _ Ha I2)|].
  split; [intros x; rewrite I3, He; reflexivity|].
  destruct b as [[[a iv'] l]|].
  - destruct I4 as (st' & rest & -> & Hf' & He' & Hk & Hw & Hnd & Hall & Hiv). exists st', rest.
    split; [reflexivity|]. split; [exact Hf'|]. split; [rewrite He', app_assoc; reflexivity|].
    split; [exact Hk|]. split; [exact Hw|]. split; [exact Hnd|]. split.
    + eapply Forall_impl; [|exact Hall]. cbn beta. intros s0 (H1 & H2 & H3). repeat split; try assumption. exact (Hsrc _ H3).
    + intros id Hid. exact (Hsrc _ (Hiv id Hid)).
  - rewrite I4. reflexivity.
Qed.

Lemma tick_next_on_time b nx p : tick_next b nx nx p = nx + p.
Proof. unfold tick_next. replace (nx + GRACE <? nx) with false by lia. reflexivity. Qed.

Lemma frag_run_spec now steps : Forall frag_step steps -> forall nid iv dr,
  iv_idle iv -> Mid now dr -> (forall x id, In id (ents_at x (pending dr)) -> id < nid) ->
  poll_ok now nid (iv_ids iv) dr (exp_run now (iv_abs iv) steps) (frag_run now nid iv steps dr).
Proof.
  induction 1 as [|st r Hst Hr IH]; intros nid iv dr Hi Hm Hfr.
  { cbn [frag_run exp_run poll_ok]. split; [lia|]. split; [apply acts_refl|]. split; [intros x; rewrite app_nil_r; reflexivity|reflexivity]. }
  assert (Hf : fresh_in nid (pending dr)) by (intros x Hin; specialize (Hfr x nid Hin); lia).
  destruct (prep_drv_spec now nid st dr Hst Hm Hf) as [Hpa Hpe].
  assert (Hm1 : Mid now (prep_drv now nid st dr)) by exact (acts_mid _ _ _ Hpa Hm).
  assert (Hsame : forall id, iv_ids iv id -> forall nid', idsrc nid nid' (iv_ids iv) id) by (intros id H nid'; right; exact H).
  (* a step that blocks on one Sleep *)
  assert (Hblock : forall D, dl_of now st = D -> now < D ->
    (exp_run now (iv_abs iv) (st :: r) = D :: exp_run D (iv_abs iv) r) ->
    poll_ok now nid (iv_ids iv) dr (exp_run now (iv_abs iv) (st :: r))
      ([], Some (AwSleep (reg nid D), iv, st :: r), nid + 1, register nid D (prep_drv now nid st dr))).
  { intros D HD Hlt Hexp. unfold poll_ok. split; [lia|]. split.
    - eapply acts_trans; [exact Hpa|]. apply (acts_one now _ (Register nid D)). exact Hlt.
    - split.
      + intros x. cbn [register set_pending pending]. rewrite (ents_at_add _ _ _ _ (mid_sorted _ _ Hm1)), !Hpe.
        unfold new_at. cbn [aw_held held_sleeps filter reg deadline sid map].
        destruct (x =? D) eqn:E.
        * replace x with D by lia. rewrite N.eqb_refl. reflexivity.
        * replace (D =? x) with false by lia. rewrite app_nil_r. reflexivity.
      + exists st, r. cbn [aw_rec aw_end aw_wake reg deadline app iv_after]. split; [reflexivity|]. split; [exact Hr|]. split; [exact Hexp|].
        unfold blocked_ok. cbn [aw_kind aw_wake aw_held held_sleeps reg deadline sid handle map].
        split; [exact Hi|]. split; [exact Hlt|]. split; [repeat constructor; intros []|]. split.
        * constructor; [|constructor]. unfold reg. cbn [deadline handle sid]. repeat split; try reflexivity; try lia. left; lia.
        * intros id Hid. right; exact Hid. }
  (* a step that completes at once, leaving the interval as it is *)
  assert (Hpass : forall nid' dr' (pre : list N), nid <= nid' -> acts now dr dr' -> Mid now dr' ->
     (forall x, ents_at x (pending dr') = ents_at x (pending dr)) ->
     (exp_run now (iv_abs iv) (st :: r) = pre ++ exp_run now (iv_abs iv) r) ->
     poll_ok now nid (iv_ids iv) dr (exp_run now (iv_abs iv) (st :: r))
       (let '(o, b, n, d') := frag_run now nid' iv r dr' in (pre ++ o, b, n, d'))).
  { intros nid' dr' pre Hn Ha Hm' He Hexp. rewrite Hexp.
    apply (poll_ok_pass now nid nid' (iv_ids iv) (iv_ids iv) dr dr'); try assumption.
    - intros id H. right; exact H.
    - apply IH; [exact Hi|exact Hm'|]. intros x id Hin. rewrite He in Hin. specialize (Hfr x id Hin). lia. }
  destruct st as [d|t|d v|biased a b|p bh| | |polled d1 d2|d| | | | | |rearm d0 d2 x d3]; try contradiction; cbn [frag_run].
  - (* sleep *)
    cbn [dl_of]. destruct (now <? now + d) eqn:E.
    + apply (Hblock (now + d)); [reflexivity|lia|reflexivity].
    + pose proof (Hpass (nid + 1) (prep_drv now nid (SSleep d) dr) [now] ltac:(lia) Hpa Hm1 Hpe) as H.
      cbn [prep_drv app] in *. destruct (frag_run now (nid + 1) iv r dr) as [[[o b] n] d'].
      apply H. cbn [exp_run app]. replace (now + d) with now by lia. reflexivity.
  - (* sleep_until *)
    cbn [dl_of]. destruct (now <? t) eqn:E.
    + apply (Hblock t); [reflexivity|lia|]. cbn [exp_run]. replace (N.max now t) with t by lia. reflexivity.
    + pose proof (Hpass (nid + 1) (prep_drv now nid (SSleepUntil t) dr) [now] ltac:(lia) Hpa Hm1 Hpe) as H.
      cbn [prep_drv app] in *. destruct (frag_run now (nid + 1) iv r dr) as [[[o b] n] d'].
      apply H. cbn [exp_run app]. replace (N.max now t) with now by lia. reflexivity.
  - (* timeout around a sleep *)
    destruct v as [x|]; [|contradiction]. destruct Hst as [Hd Hx]. rewrite (dl_fin now d Hd) in *.
    destruct ((now <? now + x) && (now <? now + d)) eqn:E.
    + (* both pending: the value Sleep and the delay are registered *)
      unfold poll_ok. split; [lia|]. split.
      * eapply acts_trans; [apply (acts_one now dr (Register nid (now + x))); cbn [op_wf]; lia|].
        apply (acts_one now _ (Register (nid + 1) (now + d))). cbn [op_wf]. lia.
      * split.
        -- intros y. cbn [register set_pending pending].
           rewrite (ents_at_add _ _ _ _ (q_add_sorted _ _ _ (mid_sorted _ _ Hm))), !(ents_at_add _ _ _ _ (mid_sorted _ _ Hm)).
           unfold new_at. cbn [aw_held held_sleeps filter reg deadline sid map].
           destruct (y =? now + d) eqn:E1, (y =? now + x) eqn:E2.
           ++ replace y with (now + d) by lia. replace (now + x) with (now + d) by lia. rewrite !N.eqb_refl. cbn [map]. rewrite <- app_assoc. reflexivity.
           ++ replace y with (now + d) by lia. rewrite N.eqb_refl. replace (now + d =? now + x) with false by lia.
              replace (now + x =? now + d) with false by lia. cbn [map]. reflexivity.
           ++ replace y with (now + x) by lia. rewrite N.eqb_refl. replace (now + d =? now + x) with false by lia. cbn [map reg sid]. reflexivity.
           ++ replace (now + x =? y) with false by lia. replace (now + d =? y) with false by lia. cbn [map]. rewrite app_nil_r. reflexivity.
        -- exists (STimeout d (ISleep x)), r. split; [reflexivity|]. split; [exact Hr|].
           cbn [aw_rec aw_end aw_wake reg deadline exp_run app iv_after]. split.
           ++ rewrite N.add_min_distr_l. replace (now + x <=? now + d) with (x <=? d) by lia. reflexivity.
           ++ unfold blocked_ok. cbn [aw_kind aw_wake aw_held held_sleeps reg deadline sid handle map].
              split; [exact Hi|]. split; [lia|]. split; [repeat constructor; [intros [H|[]]; lia|intros []]|]. split.
              ** constructor; [|constructor; [|constructor]]; unfold reg; cbn [deadline handle sid]; (split; [lia|split; [reflexivity|left; lia]]).
              ** intros id Hid. right; exact Hid.
    + (* one of them is due at once *)
      pose proof (Hpass (nid + 2) (prep_drv now nid (STimeout d (ISleep x)) dr) [now; b2n (negb (now <? now + x))] ltac:(lia) Hpa Hm1 Hpe) as H.
      cbn [prep_drv app] in *. rewrite (dl_fin now d Hd) in *.
      destruct (frag_run now (nid + 2) iv r _) as [[[o b] n] d'].
      apply H. cbn [exp_run app].
      destruct (now <? now + x) eqn:E1; cbn [andb negb] in *.
      * (* the value is pending, so the delay is due: d = 0 *)
        replace (N.min x d) with 0 by lia. replace (x <=? d) with false by lia. rewrite N.add_0_r. reflexivity.
      * replace (N.min x d) with 0 by lia. replace (x <=? d) with true by lia. rewrite N.add_0_r. reflexivity.
  - (* select over two sleeps *)
    destruct Hst as [Ha Hb]. rewrite (dl_fin now a Ha), (dl_fin now b Hb).
    destruct ((now <? now + a) && (now <? now + b)) eqn:E.
    + (* both pending: both Sleeps are registered *)
      unfold poll_ok. split; [lia|]. split.
      * eapply acts_trans; [apply (acts_one now dr (Register nid (now + a))); cbn [op_wf]; lia|].
        apply (acts_one now _ (Register (nid + 1) (now + b))). cbn [op_wf]. lia.
      * split.
        -- intros y. cbn [register set_pending pending].
           rewrite (ents_at_add _ _ _ _ (q_add_sorted _ _ _ (mid_sorted _ _ Hm))), !(ents_at_add _ _ _ _ (mid_sorted _ _ Hm)).
           unfold new_at. cbn [aw_held held_sleeps filter reg deadline sid map].
           destruct (y =? now + b) eqn:E1, (y =? now + a) eqn:E2.
           ++ replace y with (now + b) by lia. replace (now + a) with (now + b) by lia. rewrite !N.eqb_refl. cbn [map]. rewrite <- app_assoc. reflexivity.
           ++ replace y with (now + b) by lia. rewrite N.eqb_refl. replace (now + b =? now + a) with false by lia.
              replace (now + a =? now + b) with false by lia. cbn [map]. reflexivity.
           ++ replace y with (now + a) by lia. rewrite N.eqb_refl. replace (now + b =? now + a) with false by lia. cbn [map reg sid]. reflexivity.
           ++ replace (now + a =? y) with false by lia. replace (now + b =? y) with false by lia. cbn [map]. rewrite app_nil_r. reflexivity.
        -- exists (SSelect biased a b), r. split; [reflexivity|]. split; [exact Hr|].
           cbn [aw_rec aw_end aw_wake reg deadline exp_run app iv_after]. split.
           ++ rewrite N.add_min_distr_l. unfold sel_code. replace (now + a <=? now + b) with (a <=? b) by lia.
              replace (now + a =? now + b) with (a =? b) by lia. reflexivity.
           ++ unfold blocked_ok. cbn [aw_kind aw_wake aw_held held_sleeps reg deadline sid handle map].
              split; [split; [exact Hi|lia]|]. split; [lia|]. split; [repeat constructor; [intros [H|[]]; lia|intros []]|]. split.
              ** constructor; [|constructor; [|constructor]]; unfold reg; cbn [deadline handle sid]; (split; [lia|split; [reflexivity|left; lia]]).
              ** intros id Hid. right; exact Hid.
    + (* one of them is due at once *)
      pose proof (Hpass (nid + 2) (prep_drv now nid (SSelect biased a b) dr)
                    [now; if now <? now + a then 1 else if biased || negb (a =? b) then 0 else 2] ltac:(lia) Hpa Hm1 Hpe) as H.
      destruct (frag_run now (nid + 2) iv r _) as [[[o b'] n] d']. cbn [app] in H.
      apply H. cbn [exp_run app]. unfold sel_code.
      destruct (now <? now + a) eqn:E1; cbn [andb] in E.
      * replace (N.min a b) with 0 by lia. replace (a <=? b) with false by lia. rewrite N.add_0_r. reflexivity.
      * replace (N.min a b) with 0 by lia. replace (a <=? b) with true by lia. rewrite N.add_0_r. reflexivity.
  - (* a new interval *)
    assert (HI : poll_ok now (nid + 1) (iv_ids (Some (interval_new now p bh nid))) dr
                   (exp_run now (iv_abs (Some (interval_new now p bh nid))) r) (frag_run now (nid + 1) (Some (interval_new now p bh nid)) r dr)).
    { apply IH; [reflexivity|exact Hm|]. intros x id Hin. specialize (Hfr x id Hin). lia. }
    assert (Hold : forall id, iv_ids (Some (interval_new now p bh nid)) id -> idsrc nid (nid + 1) (iv_ids iv) id).
    { intros id (i & E & ->). injection E as <-. left. cbn [interval_new iv_delay sleep_new sid]. lia. }
    pose proof (poll_ok_pass now nid (nid + 1) (iv_ids iv) _ dr dr _ [] _ ltac:(lia) Hold (acts_refl now dr) (fun x => eq_refl) HI) as H.
    destruct (frag_run now (nid + 1) (Some (interval_new now p bh nid)) r dr) as [[[o b] n] d']. exact H.
  - (* tick *)
    destruct iv as [i|].
    + cbn [iv_idle] in Hi. destruct (now <? deadline (iv_delay i)) eqn:E.
      * (* not yet due: the Sleep of the interval is registered *)
        assert (Hmax : N.max now (deadline (iv_delay i)) = deadline (iv_delay i)) by lia.
        unfold poll_ok. split; [lia|]. split; [apply (acts_one now dr (Register (sid (iv_delay i)) (deadline (iv_delay i)))); cbn [op_wf]; lia|].
        split.
        -- intros x. cbn [register set_pending pending]. rewrite (ents_at_add _ _ _ _ (mid_sorted _ _ Hm)).
           unfold new_at. cbn [aw_held held_sleeps iv_reg iv_delay filter reg deadline sid map].
           destruct (x =? deadline (iv_delay i)) eqn:E1.
           ++ replace x with (deadline (iv_delay i)) by lia. rewrite N.eqb_refl. reflexivity.
           ++ replace (deadline (iv_delay i) =? x) with false by lia. rewrite app_nil_r. reflexivity.
        -- exists SIvTick, r. split; [reflexivity|]. split; [exact Hr|].
           cbn [aw_rec aw_end aw_wake iv_after iv_reg iv_delay iv_period iv_beh reg deadline sid exp_run app iv_abs iv_next]. split.
           ++ rewrite Hmax, tick_next_on_time. reflexivity.
           ++ unfold blocked_ok. cbn [aw_kind aw_wake aw_held held_sleeps iv_reg iv_delay reg deadline sid handle map].
              split; [discriminate|]. split; [lia|]. split; [repeat constructor; intros []|]. split.
              ** constructor; [|constructor]. unfold reg; cbn [deadline handle sid]. split; [lia|]. split; [reflexivity|]. right. exists i. split; reflexivity.
              ** intros id (i' & E' & ->). injection E' as <-. right. exists i. split; reflexivity.
      * (* due (or missed): the tick is taken at once *)
        set (iv1 := Some (iv_next i (tick_next (iv_beh i) (deadline (iv_delay i)) now (iv_period i)))).
        assert (HI : poll_ok now nid (iv_ids iv1) dr (exp_run now (iv_abs iv1) r) (frag_run now nid iv1 r dr)) by (apply IH; [reflexivity|exact Hm|exact Hfr]).
        assert (Hold : forall id, iv_ids iv1 id -> idsrc nid nid (iv_ids (Some i)) id).
        { intros id (i' & E' & ->). unfold iv1 in E'. injection E' as <-. right. exists i. split; reflexivity. }
        pose proof (poll_ok_pass now nid nid (iv_ids (Some i)) _ dr dr _ [now; deadline (iv_delay i)] _ ltac:(lia) Hold (acts_refl now dr) (fun x => eq_refl) HI) as H.
        replace (exp_run now (iv_abs (Some i)) (SIvTick :: r)) with ([now; deadline (iv_delay i)] ++ exp_run now (iv_abs iv1) r).
        -- fold iv1. destruct (frag_run now nid iv1 r dr) as [[[o b] n] d']. exact H.
        -- cbn [exp_run iv_abs app]. replace (N.max now (deadline (iv_delay i))) with now by lia. reflexivity.
    + assert (HI : poll_ok now nid (iv_ids None) dr (exp_run now None r) (frag_run now nid None r dr)) by (apply (IH nid None dr I Hm Hfr)).
      pose proof (poll_ok_pass now nid nid (iv_ids None) _ dr dr _ [now; 0] _ ltac:(lia) (fun id H => or_intror H) (acts_refl now dr) (fun x => eq_refl) HI) as H.
      destruct (frag_run now nid None r dr) as [[[o b] n] d']. exact H.
  - (* the interval is dropped *)
    assert (HI : poll_ok now nid (iv_ids None) dr (exp_run now None r) (frag_run now nid None r dr)) by (apply (IH nid None dr I Hm Hfr)).
    assert (Hold : forall id, iv_ids None id -> idsrc nid nid (iv_ids iv) id) by (intros id (i & E & _); discriminate).
    pose proof (poll_ok_pass now nid nid (iv_ids iv) _ dr dr _ [] _ ltac:(lia) Hold (acts_refl now dr) (fun x => eq_refl) HI) as H.
    destruct (frag_run now nid None r dr) as [[[o b] n] d']. exact H.
  - (* reset *)
    destruct Hst as [Hd1 Hd2]. cbn [dl_of]. rewrite (dl_fin now d2 Hd2) in *. destruct (now <? now + d2) eqn:E.
    + apply (Hblock (now + d2)); [cbn [dl_of]; apply dl_fin; exact Hd2|lia|reflexivity].
    + pose proof (Hpass (nid + 1) (prep_drv now nid (SReset polled d1 d2) dr) [now] ltac:(lia) Hpa Hm1 Hpe) as H.
      destruct (frag_run now (nid + 1) iv r (prep_drv now nid (SReset polled d1 d2) dr)) as [[[o b] n] d']. cbn [app] in H.
      apply H. cbn [exp_run app]. replace (now + d2) with now by lia. reflexivity.
  - (* drop *)
    pose proof (Hpass (nid + 1) (prep_drv now nid (SDropSleep d) dr) [now] ltac:(lia) Hpa Hm1 Hpe) as H.
    destruct (frag_run now (nid + 1) iv r (prep_drv now nid (SDropSleep d) dr)) as [[[o b] n] d']. cbn [app] in H.
    apply H. reflexivity.
  - (* log *)
    pose proof (Hpass nid dr [now] ltac:(lia) (acts_refl now dr) Hm (fun x => eq_refl)) as H.
    destruct (frag_run now nid iv r dr) as [[[o b] n] d']. cbn [app] in H. apply H. reflexivity.
  - (* keep-alive select *)
    destruct Hst as (Hd2 & Hx & Hd3). rewrite (dl_fin now d2 Hd2), (dl_fin now d3 Hd3).
    set (drp := prep_drv now nid (SKeep rearm d0 d2 x d3) dr) in *.
    pose proof (mid_sorted _ _ Hm1) as Hsp.
    destruct (now <? now + d2) eqn:E2.
    + destruct (now <? now + x) eqn:Ex.
      * (* both pending: the kept timer and sleep(x) are registered *)
        unfold poll_ok. split; [lia|]. split.
        -- eapply acts_trans; [exact Hpa|].
           eapply acts_trans; [apply (acts_one now drp (Register nid (now + d2))); cbn [op_wf]; lia|].
           apply (acts_one now _ (Register (nid + 1) (now + x))). cbn [op_wf]. lia.
        -- split.
           ++ intros y. cbn [register set_pending pending].
              rewrite (ents_at_add _ _ _ _ (q_add_sorted _ _ _ Hsp)), !(ents_at_add _ _ _ _ Hsp), !Hpe.
              unfold new_at. cbn [aw_held held_sleeps filter reg deadline sid map].
              destruct (y =? now + x) eqn:E1, (y =? now + d2) eqn:E3.
              ** replace y with (now + x) by lia. replace (now + d2) with (now + x) by lia. rewrite !N.eqb_refl. cbn [map]. rewrite <- app_assoc. reflexivity.
              ** replace y with (now + x) by lia. rewrite N.eqb_refl. replace (now + x =? now + d2) with false by lia.
                 replace (now + d2 =? now + x) with false by lia. cbn [map]. reflexivity.
              ** replace y with (now + d2) by lia. rewrite N.eqb_refl. replace (now + x =? now + d2) with false by lia. cbn [map reg sid]. reflexivity.
              ** replace (now + d2 =? y) with false by lia. replace (now + x =? y) with false by lia. cbn [map]. rewrite app_nil_r. reflexivity.
           ++ exists (SKeep rearm d0 d2 x d3), r. split; [reflexivity|]. split; [exact Hr|].
              cbn [aw_rec aw_end aw_wake reg deadline exp_run app iv_after]. split.
              ** replace (now + d2 <=? now + x) with (d2 <=? x) by lia. destruct (d2 <=? x); reflexivity.
              ** unfold blocked_ok. cbn [aw_kind aw_wake aw_held held_sleeps reg deadline sid handle map].
                 split; [split; [exact Hi|exact Hd3]|]. split; [lia|]. split; [repeat constructor; [intros [H|[]]; lia|intros []]|]. split.
                 --- constructor; [|constructor; [|constructor]]; unfold reg; cbn [deadline handle sid]; (split; [lia|split; [reflexivity|left; lia]]).
                 --- intros id Hid. right; exact Hid.
      * (* sleep(x) is due at once, the kept timer is not *)
        assert (Hx0 : x = 0) by lia. subst x.
        assert (Hexp : forall e, e = now + 0 + (if rearm then d3 else 0) ->
                  exp_run now (iv_abs iv) (SKeep rearm d0 d2 0 d3 :: r) = [now; 1; e] ++ exp_run e (iv_abs iv) r).
        { intros e ->. cbn [exp_run app]. replace (d2 <=? 0) with false by lia. rewrite N.add_0_r. reflexivity. }
        destruct rearm; cbn [andb].
        -- destruct (now <? now + d3) eqn:E3.
           ++ (* re-armed for a later instant: blocked on the kept timer alone *)
              unfold poll_ok. split; [lia|]. split.
              ** eapply acts_trans; [exact Hpa|]. apply (acts_one now drp (Register nid (now + d3))). cbn [op_wf]. lia.
              ** split.
                 --- intros y. cbn [register set_pending pending]. rewrite (ents_at_add _ _ _ _ Hsp), !Hpe.
                     unfold new_at. cbn [aw_held held_sleeps filter reg deadline sid map].
                     destruct (y =? now + d3) eqn:E1.
                     +++ replace y with (now + d3) by lia. rewrite N.eqb_refl. reflexivity.
                     +++ replace (now + d3 =? y) with false by lia. rewrite app_nil_r. reflexivity.
                 --- exists (SKeep true d0 d2 0 d3), r. split; [reflexivity|]. split; [exact Hr|].
                     cbn [aw_rec aw_end aw_wake reg deadline app iv_after]. split.
                     +++ rewrite (Hexp (now + d3)) by lia. reflexivity.
                     +++ unfold blocked_ok. cbn [aw_kind aw_wake aw_held held_sleeps reg deadline sid handle map].
                         split; [exact Hi|]. split; [lia|]. split; [repeat constructor; intros []|]. split.
                         *** constructor; [|constructor]. unfold reg; cbn [deadline handle sid]. split; [lia|]. split; [reflexivity|left; lia].
                         *** intros id Hid. right; exact Hid.
           ++ pose proof (Hpass (nid + 2) drp [now; 1; now] ltac:(lia) Hpa Hm1 Hpe) as H.
              destruct (frag_run now (nid + 2) iv r drp) as [[[o b] n] d']. cbn [app] in H. apply H.
              rewrite (Hexp now) by lia. reflexivity.
        -- pose proof (Hpass (nid + 2) drp [now; 1; now] ltac:(lia) Hpa Hm1 Hpe) as H.
           destruct (frag_run now (nid + 2) iv r drp) as [[[o b] n] d']. cbn [app] in H. apply H.
           rewrite (Hexp now) by lia. reflexivity.
    + (* the kept timer is due at once *)
      pose proof (Hpass (nid + 2) drp [now; 0] ltac:(lia) Hpa Hm1 Hpe) as H.
      destruct (frag_run now (nid + 2) iv r drp) as [[[o b] n] d']. cbn [app] in H. apply H.
      cbn [exp_run app]. replace (d2 <=? x) with true by lia. replace (now + d2) with now by lia. reflexivity.
Qed.

(* ---- closed forms for the interval ---- *)
(* a tick taken no later than 5 ms after its nominal instant, whatever the behaviour, and any tick
   under Burst: the next tick is due one period after the nominal instant *)
Lemma tick_next_nominal b nx t p : t <= nx + GRACE -> tick_next b nx t p = nx + p.
Proof. intros H. unfold tick_next. replace (nx + GRACE <? t) with false by lia. reflexivity. Qed.

Lemma tick_next_burst nx t p : tick_next Burst nx t p = nx + p.
Proof. unfold tick_next, next_timeout. destruct (nx + GRACE <? t); reflexivity. Qed.

(* a missed tick: Delay re-schedules one period after now, Skip at the next instant of the
   original schedule strictly after now *)
Lemma tick_next_delay nx t p : nx + GRACE < t -> tick_next Delay nx t p = t + p.
Proof. intros H. unfold tick_next, next_timeout. replace (nx + GRACE <? t) with true by lia. reflexivity. Qed.

Lemma tick_next_skip nx t p : nx + GRACE < t -> 0 < p ->
  tick_next Skip nx t p = nx + ((t - nx) / p + 1) * p /\ t < tick_next Skip nx t p <= t + p.
Proof.
  intros H Hp. unfold tick_next, next_timeout. replace (nx + GRACE <? t) with true by lia.
  pose proof (N.div_mod (t - nx) p ltac:(lia)) as Hdm. pose proof (N.mod_lt (t - nx) p ltac:(lia)) as Hlt.
  set (q := (t - nx) / p) in *. set (m := (t - nx) mod p) in *. clearbody q m.
  split; [|lia]. rewrite N.mul_add_distr_r, N.mul_1_l, (N.mul_comm q p). lia.
Qed.

(* Burst, over a whole sequence of ticks with work of [busy_k] ns after the k-th: the k-th tick
   has the value start + k * period whatever the delays, and returns at that instant or, if
   the task arrives later, at once *)
Fixpoint burst_log (now start p : N) (k : nat) (busy : list N) : list N :=
  match busy with
  | [] => []
  | d :: r =>
    let nom := start + N.of_nat k * p in
    let t := N.max now nom in
    t :: nom :: (if d =? 0 then burst_log t start p (S k) r else (t + d) :: burst_log (t + d) start p (S k) r)
  end.

Fixpoint burst_end (now start p : N) (k : nat) (busy : list N) : N :=
  match busy with
  | [] => now
  | d :: r => burst_end (N.max now (start + N.of_nat k * p) + d) start p (S k) r
  end.

Lemma exp_run_burst busy : forall now start p k r,
  exp_run now (Some (start + N.of_nat k * p, p, Burst)) (ticks busy ++ r) =
  burst_log now start p k busy ++
  exp_run (burst_end now start p k busy) (Some (start + N.of_nat (k + length busy) * p, p, Burst)) r.
Proof.
  induction busy as [|d bs IH]; intros now start p k r.
  - cbn [ticks app burst_log burst_end length]. rewrite Nat.add_0_r. reflexivity.
  - cbn [ticks app burst_log burst_end length exp_run]. rewrite tick_next_burst.
    replace (start + N.of_nat k * p + p) with (start + N.of_nat (S k) * p) by lia.
    replace (k + S (length bs))%nat with (S k + length bs)%nat by lia.
    destruct (d =? 0) eqn:E.
    + replace (N.max now (start + N.of_nat k * p) + d) with (N.max now (start + N.of_nat k * p)) by lia.
      rewrite IH. reflexivity.
    + cbn [app exp_run]. rewrite IH. reflexivity.
Qed.

(* the branch a select over sleep(a), sleep(b) reports, spelled out *)
Lemma sel_code_cases biased a b :
  sel_code biased a b = if a <? b then 0 else if b <? a then 1 else if biased then 0 else 2.
Proof.
  unfold sel_code. destruct (a <? b) eqn:E1.
  - replace (a <=? b) with true by lia. replace (a =? b) with false by lia. rewrite orb_true_r. reflexivity.
  - destruct (b <? a) eqn:E2.
    + replace (a <=? b) with false by lia. reflexivity.
    + replace (a <=? b) with true by lia. replace (a =? b) with true by lia. destruct biased; reflexivity.
Qed.
