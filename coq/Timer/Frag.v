(* The fragment {sleep(d), sleep_until(t), log} of the task scripts of coq/Timer/Model.v:
   what the property demands of a task (exp_run), and what one poll of such a task does. *)
From Coq Require Import List NArith Bool Lia ZifyBool.
From DesVerif Require Import CQueue.Spec Timer.Driver Timer.Futures Timer.Model.
Import ListNotations.
Open Scope N_scope.

Definition frag_step (s : step) : Prop :=
  match s with SSleep _ | SSleepUntil _ | SLog => True | _ => False end.

(* the log the property demands of a task that is at instant [now] with [steps] to go:
   every await returns at exactly its deadline *)
Fixpoint exp_run (now : N) (steps : list step) : list N :=
  match steps with
  | [] => []
  | SSleep d :: r => (now + d) :: exp_run (now + d) r
  | SSleepUntil t :: r => N.max now t :: exp_run (N.max now t) r
  | _ :: r => now :: exp_run now r
  end.

Definition dl_of (now : N) (st : step) : N :=
  match st with SSleep d => now + d | SSleepUntil t => t | _ => now end.

(* one poll of a task that is not awaiting anything: (log entries, the Sleep it blocks on
   with the steps still to go, next Sleep id) *)
Fixpoint frag_run (now nid : N) (steps : list step) : list N * option (sleep * list step) * N :=
  match steps with
  | [] => ([], None, nid)
  | st :: r =>
    match st with
    | SLog => let '(o, b, n) := frag_run now nid r in (now :: o, b, n)
    | SSleep _ | SSleepUntil _ =>
      if now <? dl_of now st
      then ([], Some ({| deadline := dl_of now st; sid := nid; handle := Some (dl_of now st) |}, st :: r), nid + 1)
      else let '(o, b, n) := frag_run now (nid + 1) r in (now :: o, b, n)
    | _ => ([], None, nid)
    end
  end.

Definition fr_steps (b : option (sleep * list step)) : list step := match b with Some (_, l) => l | None => [] end.
Definition fr_cur (b : option (sleep * list step)) : option aw := match b with Some (s, _) => Some (AwSleep s) | None => None end.
Definition fr_drv (b : option (sleep * list step)) (dr : driver) : driver :=
  match b with Some (s, _) => register (sid s) (deadline s) dr | None => dr end.

Lemma run_steps_frag now m k steps : Forall frag_step steps -> forall dr nid lg mail,
  run_steps now m k steps None None dr nid lg mail =
  let '(o, b, n) := frag_run now nid steps in
  (fr_steps b, fr_cur b, None, fr_drv b dr, n, lg ++ o, false, mail).
Proof.
  induction 1 as [|st r Hst Hr IH]; intros dr nid lg mail.
  - cbn [run_steps frag_run fr_steps fr_cur fr_drv iv_drop]. rewrite app_nil_r. reflexivity.
  - destruct st; try contradiction; cbn [run_steps start_step start_step0 poll_aw poll_aw0 fst snd frag_run dl_of].
    + unfold sleep_poll, sleep_new. cbn [deadline handle sid].
      destruct (now <? now + d); cbn [fr_steps fr_cur fr_drv]; [rewrite app_nil_r; reflexivity|].
      rewrite IH. destruct (frag_run now (nid + 1) r) as [[o b] n]. rewrite <- app_assoc. reflexivity.
    + unfold sleep_poll, sleep_new. cbn [deadline handle sid].
      destruct (now <? t); cbn [fr_steps fr_cur fr_drv]; [rewrite app_nil_r; reflexivity|].
      rewrite IH. destruct (frag_run now (nid + 1) r) as [[o b] n]. rewrite <- app_assoc. reflexivity.
    + rewrite IH. destruct (frag_run now nid r) as [[o b] n]. rewrite <- app_assoc. reflexivity.
Qed.

(* the task is polled when the Sleep it awaits is due *)
Lemma run_steps_woken now m k st r s dr nid lg mail : deadline s <= now ->
  run_steps now m k (st :: r) (Some (AwSleep s)) None dr nid lg mail =
  run_steps now m k r None None dr nid (lg ++ [now]) mail.
Proof.
  intros H. cbn [run_steps poll_aw poll_aw0 fst snd]. unfold sleep_poll.
  replace (now <? deadline s) with false by lia. reflexivity.
Qed.

(* what one poll emits, and where it leaves the task, against the demanded log *)
Lemma frag_run_spec now steps : Forall frag_step steps -> forall nid,
  let '(o, b, n) := frag_run now nid steps in
  nid <= n /\
  match b with
  | None => exp_run now steps = o
  | Some (s, l) =>
    exists st rest, l = st :: rest /\ Forall frag_step rest /\
      exp_run now steps = o ++ deadline s :: exp_run (deadline s) rest /\
      now < deadline s /\ handle s = Some (deadline s) /\ nid <= sid s /\ sid s < n
  end.
Proof.
  induction 1 as [|st r Hst Hr IH]; intros nid; [cbn [frag_run exp_run]; split; [lia|reflexivity]|].
  destruct st; try contradiction; cbn [frag_run exp_run dl_of].
  - destruct (now <? now + d) eqn:E.
    + split; [lia|]. exists (SSleep d), r. cbn [deadline handle sid app]. repeat split; try assumption; lia.
    + specialize (IH (nid + 1)). destruct (frag_run now (nid + 1) r) as [[o b] n]. destruct IH as [Hn Hb].
      split; [lia|]. replace (now + d) with now by lia. destruct b as [[s l]|].
      * destruct Hb as (st & rest & -> & Hf & He & H1 & H2 & H3 & H4). exists st, rest.
        cbn [app]. rewrite He. repeat split; try assumption; lia.
      * rewrite Hb. reflexivity.
  - destruct (now <? t) eqn:E.
    + split; [lia|]. exists (SSleepUntil t), r. cbn [deadline handle sid app]. replace (N.max now t) with t by lia.
      repeat split; try assumption; lia.
    + specialize (IH (nid + 1)). destruct (frag_run now (nid + 1) r) as [[o b] n]. destruct IH as [Hn Hb].
      split; [lia|]. replace (N.max now t) with now by lia. destruct b as [[s l]|].
      * destruct Hb as (st & rest & -> & Hf & He & H1 & H2 & H3 & H4). exists st, rest.
        cbn [app]. rewrite He. repeat split; try assumption; lia.
      * rewrite Hb. reflexivity.
  - specialize (IH nid). destruct (frag_run now nid r) as [[o b] n]. destruct IH as [Hn Hb].
    split; [exact Hn|]. destruct b as [[s l]|].
    + destruct Hb as (st & rest & -> & Hf & He & H1 & H2 & H3 & H4). exists st, rest.
      cbn [app]. rewrite He. repeat split; assumption.
    + rewrite Hb. reflexivity.
Qed.
