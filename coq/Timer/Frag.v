(* The fragment {sleep, sleep_until, log, reset / drop of a pinned sleep, timeout(d, sleep x),
   select over two sleeps, interval new / tick / drop, keep-alive select (step 13)} of the task
   scripts of coq/Timer/Model.v, and its extension by channels {hand-over of an elapsed boxed
   Sleep (a token), timeout(d, receive)}: what the property demands of a task (exp_run), and
   what one poll of such a task does (frag_run, poll_ok). *)
From Coq Require Import List Arith NArith Bool Lia ZifyBool.
From DesVerif Require Import Common.Codec CQueue.Spec Timer.Driver Timer.QueueLemmas Timer.Inv Timer.Futures Timer.FutureLaws Timer.TempOps Timer.Model.
Import ListNotations.
Open Scope N_scope.

(* finite durations: a duration >= FARK stands for Duration::MAX (coq/Timer/Model.v [dl]) *)
Definition frag_step (s : step) : Prop :=
  match s with
  | SSleep _ | SSleepUntil _ | SLog => True
  | SReset _ d1 d2 => d1 < FARK /\ d2 < FARK
  | SDropSleep d => d < FARK
  | STimeout d (ISleep x) => d < FARK /\ x < FARK
  | SSelect _ a b => a < FARK /\ b < FARK
  | SIvNew p _ => 0 < p
  | SIvTick | SIvDrop => True
  | SKeep _ _ d2 x d3 => d2 < FARK /\ x < FARK /\ d3 < FARK
  | _ => False
  end.

(* ... with channels.  A task is either a receiver ([rcv = true]: it may await timeout(d, receive
   from ch)) or not (it may send: the boxed Sleep it hands over is sleep(0), polled once -- it has
   elapsed, is never registered, and serves as a mere token) *)
Definition frag_step2 (rcv : bool) (s : step) : Prop :=
  match s with
  | STimeoutRecv d _ => rcv = true /\ d < FARK
  | SHandOver _ d => rcv = false /\ d = 0
  | _ => frag_step s
  end.

(* select! over sleep(a) and sleep(b): the branch that is reported; an unbiased select whose branches
   are due at the same instant may take either, which the scripts log as 2 *)
Definition sel_code (biased : bool) (a b : N) : N :=
  if a <=? b then (if biased || negb (a =? b) then 0 else 2) else 1.

(* what the log depends on of an interval: (deadline of the next tick, period, behaviour) *)
Definition ivs := option (N * N * behaviour).

Definition iv_abs (iv : option interval) : ivs :=
  match iv with Some i => Some (deadline (iv_delay i), iv_period i, iv_beh i) | None => None end.

(* ... and of the channels of the task's module: for every channel the instants at which the
   messages the task has not yet received are (or will be) sent, in order *)
Definition arrs := N -> list N.
Definition noarr : arrs := fun _ => [].
Definition arr_pop (arr : arrs) (ch : N) : arrs := fun c => if c =? ch then tl (arr c) else arr c.

(* timeout(d, receive) begun at [now] when the next message arrives at the head of [l]: the
   message is received iff it arrives before the deadline now + d *)
Definition recv_hit (now d : N) (l : list N) : option N :=
  match l with a :: _ => if a <? now + d then Some a else None | [] => None end.

(* the log the property demands of a task that is at instant [now] with [steps] to go, step by
   step: what the step logs, and the instant / interval / arrivals after it.
   Every await returns at exactly its deadline; a reset Sleep at its NEW deadline; polling and
   dropping a Sleep takes no time.  tick() of an interval whose next tick is due at [nx]
   returns at max(now, nx) -- at once if the tick was missed -- with the value nx, and the
   following tick is due at tick_next (Burst: nx + period always; Delay: now + period and
   Skip: the next multiple of the period after now, both only when the tick was taken more
   than 5 ms late); tick() without an interval is logged as [now; 0].
   select! { biased; the kept timer (armed for now + d2) => 0, sleep(x) => 1 }: the kept timer
   wins a tie; on 1 it is re-armed for d3 more and awaited (rearm) or dropped.
   timeout(d, receive): Ok (1) at max(now, arrival) if the message arrives before now + d,
   Elapsed (0) at now + d otherwise, the message staying for the next receive. *)
Definition step_log (now : N) (iv : ivs) (arr : arrs) (st : step) : list N :=
  match st with
  | SSleep d => [now + d]
  | SSleepUntil t => [N.max now t]
  | SReset _ _ d2 => [now + d2]
  | STimeout d (ISleep x) => [now + N.min x d; b2n (x <=? d)]
  | SSelect biased a b => [now + N.min a b; sel_code biased a b]
  | SIvNew _ _ => []
  | SIvTick => match iv with Some (nx, _, _) => [N.max now nx; nx] | None => [now; 0] end
  | SIvDrop => []
  | SKeep rearm _ d2 x d3 => if d2 <=? x then [now + d2; 0] else [now + x; 1; now + x + (if rearm then d3 else 0)]
  | STimeoutRecv d ch => match recv_hit now d (arr ch) with Some a => [N.max now a; 1] | None => [now + d; 0] end
  | _ => [now]
  end.

Definition step_time (now : N) (iv : ivs) (arr : arrs) (st : step) : N :=
  match st with
  | SSleep d => now + d
  | SSleepUntil t => N.max now t
  | SReset _ _ d2 => now + d2
  | STimeout d (ISleep x) => now + N.min x d
  | SSelect _ a b => now + N.min a b
  | SIvTick => match iv with Some (nx, _, _) => N.max now nx | None => now end
  | SKeep rearm _ d2 x d3 => if d2 <=? x then now + d2 else now + x + (if rearm then d3 else 0)
  | STimeoutRecv d ch => match recv_hit now d (arr ch) with Some a => N.max now a | None => now + d end
  | _ => now
  end.

Definition step_iv (now : N) (iv : ivs) (st : step) : ivs :=
  match st with
  | SIvNew p b => Some (now, p, b)
  | SIvTick => match iv with Some (nx, p, b) => Some (tick_next b nx (N.max now nx) p, p, b) | None => None end
  | SIvDrop => None
  | _ => iv
  end.

Definition step_arr (now : N) (arr : arrs) (st : step) : arrs :=
  match st with
  | STimeoutRecv d ch => match recv_hit now d (arr ch) with Some _ => arr_pop arr ch | None => arr end
  | _ => arr
  end.

Fixpoint exp_run (now : N) (iv : ivs) (arr : arrs) (steps : list step) : list N :=
  match steps with
  | [] => []
  | st :: r => step_log now iv arr st ++ exp_run (step_time now iv arr st) (step_iv now iv st) (step_arr now arr st) r
  end.

(* the closed form above does not say what happens when a message arrives at the very instant
   the timeout elapses: then the result is decided by the order in which the executor polls
   the sender and the receiver within that instant.  [recv_ok]: no receive of the task is
   such a tie (and its deadline is finite) *)
Definition step_ok (now : N) (arr : arrs) (st : step) : Prop :=
  match st with
  | STimeoutRecv d ch => now + d < TMAX /\ match arr ch with a :: _ => a <> now + d | [] => True end
  | _ => True
  end.

Fixpoint recv_ok (now : N) (iv : ivs) (arr : arrs) (steps : list step) : Prop :=
  match steps with
  | [] => True
  | st :: r => step_ok now arr st /\ recv_ok (step_time now iv arr st) (step_iv now iv st) (step_arr now arr st) r
  end.

(* the messages a task that does not receive will send: (channel, instant) *)
Fixpoint exp_sends (now : N) (iv : ivs) (steps : list step) : list (N * N) :=
  match steps with
  | [] => []
  | st :: r => (match st with SHandOver ch _ => [(ch, now)] | _ => [] end) ++
               exp_sends (step_time now iv noarr st) (step_iv now iv st) r
  end.

(* outside of tick().await the Sleep of the interval is not registered *)
Definition iv_idle (iv : option interval) : Prop :=
  match iv with Some i => handle (iv_delay i) = None | None => True end.

(* the await states of the fragment: the Sleeps they hold (all registered while the task is
   blocked), the instant of their first timer wake-up, the instant they complete, what the
   task logs then, and the interval / arrivals afterwards *)
Definition aw_held (a : aw) (iv : option interval) : list sleep := held_sleeps (Some a) iv.

Definition aw_kind (a : aw) (iv : option interval) : Prop :=
  match a with
  | AwSleep _ => iv_idle iv
  | AwTimeout (VSleep _) _ => iv_idle iv
  | AwTimeout (VRecv _) _ => iv_idle iv
  | AwSelect _ tie sa sb => iv_idle iv /\ tie = (deadline sa =? deadline sb)
  | AwTick => iv <> None
  | AwKeep _ d3 _ _ => iv_idle iv /\ d3 < FARK
  | AwThen _ _ => iv_idle iv
  | _ => False
  end.

Definition aw_wake (a : aw) (iv : option interval) : N :=
  match a with
  | AwSleep s => deadline s
  | AwTimeout (VSleep s) dl => N.min (deadline s) (deadline dl)
  | AwTimeout (VRecv _) dl => deadline dl
  | AwSelect _ _ sa sb => N.min (deadline sa) (deadline sb)
  | AwTick => match iv with Some i => deadline (iv_delay i) | None => 0 end
  | AwKeep _ _ s sx => N.min (deadline s) (deadline sx)
  | AwThen _ s => deadline s
  | _ => 0
  end.

(* a blocked receive: the next message, if it arrives before the deadline *)
Definition aw_hit (D : N) (l : list N) : option N :=
  match l with a :: _ => if a <? D then Some a else None | [] => None end.

(* the instant the await completes: the first wake-up, except for the re-armed kept timer and
   for a receive that gets its message *)
Definition aw_end (a : aw) (iv : option interval) (arr : arrs) : N :=
  match a with
  | AwKeep rearm d3 s sx => if deadline s <=? deadline sx then deadline s else deadline sx + (if rearm then d3 else 0)
  | AwTimeout (VRecv ch) dl => match aw_hit (deadline dl) (arr ch) with Some a0 => a0 | None => deadline dl end
  | _ => aw_wake a iv
  end.

Definition aw_rec (a : aw) (iv : option interval) (arr : arrs) : list N :=
  match a with
  | AwSleep s => [deadline s]
  | AwTimeout (VSleep s) dl => [N.min (deadline s) (deadline dl); b2n (deadline s <=? deadline dl)]
  | AwTimeout (VRecv ch) dl => match aw_hit (deadline dl) (arr ch) with Some a0 => [a0; 1] | None => [deadline dl; 0] end
  | AwSelect biased _ sa sb => [N.min (deadline sa) (deadline sb); sel_code biased (deadline sa) (deadline sb)]
  | AwTick => match iv with Some i => [deadline (iv_delay i); deadline (iv_delay i)] | None => [] end
  | AwKeep rearm d3 s sx =>
    if deadline s <=? deadline sx then [deadline s; 0] else [deadline sx; 1; deadline sx + (if rearm then d3 else 0)]
  | AwThen pre s => pre ++ [deadline s]
  | _ => []
  end.

Definition aw_arr (a : aw) (arr : arrs) : arrs :=
  match a with
  | AwTimeout (VRecv ch) dl => match aw_hit (deadline dl) (arr ch) with Some _ => arr_pop arr ch | None => arr end
  | _ => arr
  end.

(* the blocked receive is not a tie, and its deadline is finite *)
Definition aw_ok (a : aw) (arr : arrs) : Prop :=
  match a with
  | AwTimeout (VRecv ch) dl => deadline dl < TMAX /\ match arr ch with a0 :: _ => a0 <> deadline dl | [] => True end
  | _ => True
  end.

Definition iv_next (i : interval) (d : N) : interval :=
  {| iv_delay := {| deadline := d; sid := sid (iv_delay i); handle := None |}; iv_period := iv_period i; iv_beh := iv_beh i |}.

Definition iv_after (a : aw) (iv : option interval) : option interval :=
  match a, iv with
  | AwTick, Some i => Some (iv_next i (deadline (iv_delay i) + iv_period i))
  | _, _ => iv
  end.

(* ids of the held Sleeps registered under deadline x, in registration order *)
Definition new_at (a : aw) (iv : option interval) (x : N) : list N :=
  map sid (filter (fun s => deadline s =? x) (aw_held a iv)).

Definition reg (id d : N) : sleep := {| deadline := d; sid := id; handle := Some d |}.

Definition dl_of (now : N) (st : step) : N :=
  match st with SSleep d => now + d | SSleepUntil t => t | SReset _ _ d2 => dl now d2 | _ => now end.

(* the driver after the preparations of a step: reset = the pinned Sleep is created, polled
   (registered) if asked, and reset -- which removes the entry again; drop = created, polled, dropped *)
Definition prep_drv (now nid : N) (st : step) (dr : driver) : driver :=
  match st with
  | SReset polled d1 d2 => snd (reset_prep now polled (dl now d1) (dl now d2) nid dr)
  | SDropSleep d => let '(_, s1, dr1) := sleep_poll now (sleep_new (dl now d) nid) dr in sleep_drop s1 dr1
  | STimeout d (ISleep x) =>
    (* only when the delay is due at once (d = 0) while the value is not: the value Sleep was registered and is dropped *)
    if (now <? now + x) && negb (now <? dl now d) then drop_entry nid (now + x) (register nid (now + x) dr) else dr
  | SSelect _ a b =>
    (* only when sleep(b) is due at once (b = 0) while sleep(a) is not: sleep(a) was registered and is dropped *)
    if (now <? dl now a) && negb (now <? dl now b) then drop_entry nid (dl now a) (register nid (dl now a) dr) else dr
  | SKeep rearm d0 d2 x d3 =>
    (* the kept timer is created, polled, reset to now + d2; if then sleep(x) is due at once (x = 0) while the
       kept timer is not, the kept timer -- registered by the select -- is reset again or dropped *)
    let dr2 := snd (reset_prep now true (dl now d0) (dl now d2) nid dr) in
    if (now <? dl now d2) && negb (now <? now + x) then
      if rearm then reset_entry nid (dl now d2) (dl now d3) (register nid (dl now d2) dr2)
      else drop_entry nid (dl now d2) (register nid (dl now d2) dr2)
    else dr2
  | _ => dr
  end.

Definition iv_reg (i : interval) : interval :=
  {| iv_delay := reg (sid (iv_delay i)) (deadline (iv_delay i)); iv_period := iv_period i; iv_beh := iv_beh i |}.

(* the boxed Sleep that is handed over: sleep(d) created at [now] with id [nid] and polled once;
   in the fragment d = 0: it has elapsed *)
Definition token (now d nid : N) : sleep := {| deadline := now + d; sid := nid; handle := None |}.

(* one poll of task k of module m when it is not awaiting anything: (log entries, the await
   state it blocks in with its interval and the steps still to go, next Sleep id, the driver
   and the channels afterwards) *)
Fixpoint frag_run (now nid m : N) (k : nat) (iv : option interval) (steps : list step) (dr : driver) (mail : mailbox)
  : list N * option (aw * option interval * list step) * N * driver * mailbox :=
  match steps with
  | [] => ([], None, nid, dr, mail)
  | st :: r =>
    match st with
    | SLog => let '(o, b, n, d', ml) := frag_run now nid m k iv r dr mail in (now :: o, b, n, d', ml)
    | SDropSleep _ => let '(o, b, n, d', ml) := frag_run now (nid + 1) m k iv r (prep_drv now nid st dr) mail in (now :: o, b, n, d', ml)
    | SSleep _ | SSleepUntil _ | SReset _ _ _ =>
      let dr1 := prep_drv now nid st dr in
      if now <? dl_of now st
      then ([], Some (AwSleep (reg nid (dl_of now st)), iv, st :: r), nid + 1, register nid (dl_of now st) dr1, mail)
      else let '(o, b, n, d', ml) := frag_run now (nid + 1) m k iv r dr1 mail in (now :: o, b, n, d', ml)
    | STimeout d (ISleep x) =>
      if (now <? now + x) && (now <? dl now d)
      then ([], Some (AwTimeout (VSleep (reg nid (now + x))) (reg (nid + 1) (dl now d)), iv, st :: r), nid + 2,
            register (nid + 1) (dl now d) (register nid (now + x) dr), mail)
      else let '(o, b, n, d', ml) := frag_run now (nid + 2) m k iv r (prep_drv now nid st dr) mail in
           (now :: b2n (negb (now <? now + x)) :: o, b, n, d', ml)
    | SSelect biased a b =>
      if (now <? dl now a) && (now <? dl now b)
      then ([], Some (AwSelect biased (a =? b) (reg nid (dl now a)) (reg (nid + 1) (dl now b)), iv, st :: r), nid + 2,
            register (nid + 1) (dl now b) (register nid (dl now a) dr), mail)
      else let '(o, b', n, d', ml) := frag_run now (nid + 2) m k iv r (prep_drv now nid st dr) mail in
           (now :: (if now <? dl now a then 1 else if biased || negb (a =? b) then 0 else 2) :: o, b', n, d', ml)
    | SKeep rearm d0 d2 x d3 =>
      let drp := prep_drv now nid st dr in
      if now <? dl now d2 then
        if now <? now + x then
          ([], Some (AwKeep rearm d3 (reg nid (dl now d2)) (reg (nid + 1) (now + x)), iv, st :: r), nid + 2,
           register (nid + 1) (now + x) (register nid (dl now d2) drp), mail)
        else if rearm && (now <? dl now d3) then
          ([], Some (AwThen [now; 1] (reg nid (dl now d3)), iv, st :: r), nid + 2, register nid (dl now d3) drp, mail)
        else let '(o, b, n, d', ml) := frag_run now (nid + 2) m k iv r drp mail in (now :: 1 :: now :: o, b, n, d', ml)
      else let '(o, b, n, d', ml) := frag_run now (nid + 2) m k iv r drp mail in (now :: 0 :: o, b, n, d', ml)
    | SIvNew p bh => frag_run now (nid + 1) m k (Some (interval_new now p bh nid)) r dr mail
    | SIvDrop => frag_run now nid m k None r dr mail
    | SIvTick =>
      match iv with
      | None => let '(o, b, n, d', ml) := frag_run now nid m k None r dr mail in (now :: 0 :: o, b, n, d', ml)
      | Some i =>
        let nx := deadline (iv_delay i) in
        if now <? nx
        then ([], Some (AwTick, Some (iv_reg i), st :: r), nid, register (sid (iv_delay i)) nx dr, mail)
        else let '(o, b, n, d', ml) := frag_run now nid m k (Some (iv_next i (tick_next (iv_beh i) nx now (iv_period i)))) r dr mail in
             (now :: nx :: o, b, n, d', ml)
      end
    | SHandOver ch d =>
      let '(o, b, n, d', ml) := frag_run now (nid + 1) m k iv r dr (mail ++ [(m, ch, k, token now d nid)]) in (now :: o, b, n, d', ml)
    | STimeoutRecv d ch =>
      match mail_take m ch mail with
      | Some (s, mail') =>
        let '(o, b, n, d', ml) := frag_run now (nid + 1) m k iv r (sleep_drop s dr) mail' in (now :: 1 :: o, b, n, d', ml)
      | None =>
        if now <? dl now d
        then ([], Some (AwTimeout (VRecv ch) (reg nid (dl now d)), iv, st :: r), nid + 1, register nid (dl now d) dr, mail)
        else let '(o, b, n, d', ml) := frag_run now (nid + 1) m k iv r dr mail in (now :: 0 :: o, b, n, d', ml)
      end
    | _ => ([], None, nid, dr, mail)
    end
  end.

Definition fr_steps (b : option (aw * option interval * list step)) : list step := match b with Some (_, _, l) => l | None => [] end.
Definition fr_cur (b : option (aw * option interval * list step)) : option aw := match b with Some (a, _, _) => Some a | None => None end.
Definition fr_iv (b : option (aw * option interval * list step)) : option interval := match b with Some (_, iv, _) => iv | None => None end.

Lemma dl_fin now d : d < FARK -> dl now d = now + d.
Proof. intros H. unfold dl. replace (FARK <=? d) with false by lia. reflexivity. Qed.

Lemma iv_drop_idle iv dr : iv_idle iv -> iv_drop iv dr = dr.
Proof. destruct iv as [i|]; [|reflexivity]. cbn [iv_idle iv_drop]. unfold sleep_drop. intros ->. reflexivity. Qed.

Lemma frag_step2_old rcv st : frag_step st -> frag_step2 rcv st.
Proof. destruct st; cbn [frag_step frag_step2]; try (intros H; exact H); contradiction. Qed.

Ltac dfr := match goal with |- context [frag_run ?a ?b ?c ?d ?e ?f ?g ?h] =>
  let o := fresh "o" in let b' := fresh "b" in let n := fresh "n" in let d' := fresh "d'" in let ml := fresh "ml" in
  destruct (frag_run a b c d e f g h) as [[[[o b'] n] d'] ml] end.

Lemma run_steps_frag now m k rcv steps : Forall (frag_step2 rcv) steps -> forall iv dr nid lg mail, iv_idle iv ->
  run_steps now m k steps None iv dr nid lg mail =
  let '(o, b, n, d', ml) := frag_run now nid m k iv steps dr mail in
  (fr_steps b, fr_cur b, fr_iv b, d', n, lg ++ o, false, ml).
Proof.
  induction 1 as [|st r Hst Hr IH]; intros iv dr nid lg mail Hi.
  - cbn [run_steps frag_run fr_steps fr_cur fr_iv]. rewrite (iv_drop_idle iv dr Hi), app_nil_r. reflexivity.
  - destruct st; try contradiction; cbn [frag_step2 frag_step] in Hst; cbn [run_steps start_step start_step0 poll_aw poll_aw0 fst snd frag_run dl_of prep_drv].
    + unfold sleep_poll, sleep_new. cbn [deadline handle sid].
      destruct (now <? now + d); cbn [fr_steps fr_cur fr_iv]; [rewrite app_nil_r; reflexivity|].
      rewrite (IH iv _ _ _ _ Hi). dfr. rewrite <- app_assoc. reflexivity.
    + unfold sleep_poll, sleep_new. cbn [deadline handle sid].
      destruct (now <? t); cbn [fr_steps fr_cur fr_iv]; [rewrite app_nil_r; reflexivity|].
      rewrite (IH iv _ _ _ _ Hi). dfr. rewrite <- app_assoc. reflexivity.
    + (* timeout around a sleep *)
      destruct v as [x|]; [|contradiction].
      cbn [run_steps start_step start_step0 poll_aw poll_aw0 fst snd frag_run prep_drv]. unfold timeout_poll, vpoll_m. cbn [fst snd vpoll]. unfold sleep_poll, sleep_new. cbn [deadline handle sid].
      destruct (now <? now + x) eqn:Ex; cbn [andb negb].
      * destruct (now <? dl now d) eqn:Ed; cbn [fst snd self_wakes fr_steps fr_cur fr_iv reg].
        -- rewrite app_nil_r. reflexivity.
        -- cbn [vdrop]. unfold sleep_drop. cbn [handle sid andb negb].
           rewrite (IH iv _ _ _ _ Hi). dfr. rewrite <- app_assoc. reflexivity.
      * cbn [fst snd vdrop]. unfold sleep_drop. cbn [handle].
        rewrite (IH iv _ _ _ _ Hi). dfr. rewrite <- app_assoc. reflexivity.
    + (* select over two sleeps *)
      destruct Hst as [Ha Hb]. rewrite (dl_fin now a Ha), (dl_fin now b Hb).
      unfold sleep_poll, sleep_new. cbn [deadline handle sid].
      destruct (now <? now + a) eqn:Ea; cbn [andb negb].
      * destruct (now <? now + b) eqn:Eb; cbn [fst snd fr_steps fr_cur fr_iv reg].
        -- rewrite app_nil_r. reflexivity.
        -- unfold sleep_drop. cbn [handle sid andb negb]. replace (a =? b) with false by lia. rewrite orb_true_r.
           rewrite (IH iv _ _ _ _ Hi). dfr. rewrite <- app_assoc. reflexivity.
      * cbn [fst snd]. unfold sleep_drop. cbn [handle].
        rewrite (IH iv _ _ _ _ Hi). dfr. rewrite <- app_assoc. reflexivity.
    + (* a new interval: the old one, idle, is dropped *)
      rewrite (iv_drop_idle iv dr Hi). rewrite IH; [|reflexivity]. reflexivity.
    + (* tick *)
      destruct iv as [[[dd ii hh] pp bb]|]; cbn [iv_idle iv_delay handle] in Hi.
      * subst hh. unfold poll_tick, sleep_poll. cbn [iv_delay iv_period iv_beh deadline handle sid].
        destruct (now <? dd); cbn [fr_steps fr_cur fr_iv].
        -- rewrite app_nil_r. reflexivity.
        -- unfold sleep_reset. cbn [deadline handle sid fst snd].
           rewrite IH; [|reflexivity]. unfold iv_next. cbn [iv_delay iv_period iv_beh sid].
           dfr. rewrite <- app_assoc. reflexivity.
      * rewrite IH; [|exact I]. dfr. rewrite <- app_assoc. reflexivity.
    + (* the interval, idle, is dropped *)
      rewrite (iv_drop_idle iv dr Hi). rewrite IH; [|exact I]. reflexivity.
    + (* reset *)
      unfold reset_prep.
      destruct (if polled then let '(_, s1, dr1) := sleep_poll now (sleep_new (dl now d1) nid) dr in (s1, dr1)
                else (sleep_new (dl now d1) nid, dr)) as [s1 dr1] eqn:E1.
      assert (Hsid : sid s1 = nid).
      { destruct polled; [|injection E1 as <- _; reflexivity].
        pose proof (sleep_poll_sid now (sleep_new (dl now d1) nid) dr) as Hs.
        destruct (sleep_poll now (sleep_new (dl now d1) nid) dr) as [[r0 s1'] dr1']. injection E1 as <- _. exact Hs. }
      unfold sleep_reset. cbn [snd fst poll_aw poll_aw0]. unfold sleep_poll. cbn [deadline handle sid]. rewrite Hsid.
      destruct (now <? dl now d2); cbn [fr_steps fr_cur fr_iv fst snd]; [rewrite app_nil_r; reflexivity|].
      rewrite (IH iv _ _ _ _ Hi). dfr. rewrite <- app_assoc. reflexivity.
    + (* drop *)
      destruct (sleep_poll now (sleep_new (dl now d) nid) dr) as [[r0 s1] dr1]. cbn [fst snd].
      rewrite (IH iv _ _ _ _ Hi). dfr. rewrite <- app_assoc. reflexivity.
    + rewrite (IH iv _ _ _ _ Hi). dfr. rewrite <- app_assoc. reflexivity.
    + (* hand-over of an elapsed Sleep *)
      destruct Hst as [_ ->]. unfold sleep_poll, sleep_new. cbn [deadline handle sid].
      replace (now <? now + 0) with false by lia. cbn [fst snd]. fold (token now 0 nid).
      rewrite (IH iv _ _ _ _ Hi). dfr. rewrite <- app_assoc. reflexivity.
    + (* timeout around a receive *)
      unfold timeout_poll, vpoll_m. cbn [fst snd].
      destruct (mail_take m ch mail) as [[s mail']|] eqn:Em; cbn [fst snd].
      * unfold sleep_drop at 1. unfold sleep_new. cbn [handle vdrop].
        rewrite (IH iv _ _ _ _ Hi). dfr. rewrite <- app_assoc. reflexivity.
      * unfold sleep_poll, sleep_new. cbn [deadline handle sid].
        destruct (now <? dl now d) eqn:Ed; cbn [fst snd self_wakes fr_steps fr_cur fr_iv reg].
        -- rewrite app_nil_r. reflexivity.
        -- unfold sleep_drop. cbn [handle vdrop].
           rewrite (IH iv _ _ _ _ Hi). dfr. rewrite <- app_assoc. reflexivity.
    + (* keep-alive select *)
      unfold reset_prep, sleep_poll, sleep_new, sleep_reset. cbn [deadline handle sid fst snd].
      destruct (now <? dl now d0); cbn [deadline handle sid fst snd poll_aw poll_aw0]; unfold sleep_poll; cbn [deadline handle sid];
      (destruct (now <? dl now d2) eqn:E2; cbn [andb negb];
       [destruct (now <? now + x) eqn:Ex; cbn [andb negb fst snd];
        [cbn [fr_steps fr_cur fr_iv reg]; rewrite app_nil_r; reflexivity|
         destruct rearm; cbn [andb];
         [unfold sleep_reset, sleep_drop; cbn [deadline handle sid fst snd]; unfold sleep_poll; cbn [deadline handle sid];
          destruct (now <? dl now d3) eqn:E3; cbn [fr_steps fr_cur fr_iv reg fst snd];
          [rewrite app_nil_r; reflexivity|
           rewrite (IH iv _ _ _ _ Hi); dfr; rewrite <- app_assoc; reflexivity]|
          unfold sleep_drop; cbn [deadline handle sid fst snd];
          rewrite (IH iv _ _ _ _ Hi); dfr; rewrite <- app_assoc; reflexivity]]|
        unfold sleep_drop; cbn [deadline handle sid fst snd];
        rewrite (IH iv _ _ _ _ Hi); dfr; rewrite <- app_assoc; reflexivity]).
Qed.

(* the task is polled when the future it awaits completes: at its wake instant *)
Definition aw_done (t : N) (a : aw) (dr : driver) : driver :=
  match a with
  | AwTimeout (VSleep s) dl =>
    if deadline s <=? t then drop_entry (sid dl) (deadline dl) dr else drop_entry (sid s) (deadline s) dr
  | AwTimeout (VRecv _) dl =>
    (* woken by a message before the deadline: the delay is dropped; woken at the deadline: it was popped *)
    if t <? deadline dl then drop_entry (sid dl) (deadline dl) dr else dr
  | AwSelect _ _ sa sb =>
    if deadline sa <=? t then drop_entry (sid sb) (deadline sb) dr else drop_entry (sid sa) (deadline sa) dr
  | AwKeep rearm d3 s sx =>
    if deadline s <=? t then drop_entry (sid sx) (deadline sx) dr
    else if rearm then reset_entry (sid s) (deadline s) (dl t d3) dr
         else drop_entry (sid s) (deadline s) dr
  | _ => dr
  end.

(* ... except when sleep(x) wins against the kept timer and that is re-armed for a later
   instant: the task stays blocked, now on the kept timer alone *)
Definition aw_reblock (t : N) (a : aw) : option aw :=
  match a with
  | AwKeep true d3 s sx =>
    if deadline s <=? t then None
    else if t <? dl t d3 then Some (AwThen [t; 1] (reg (sid s) (dl t d3))) else None
  | _ => None
  end.

Lemma run_steps_woken now m k st r a iv arr dr nid lg mail :
  aw_kind a iv -> Forall (fun s => handle s = Some (deadline s)) (aw_held a iv) -> aw_wake a iv = now ->
  aw_reblock now a = None -> waits_on (Some a) = None ->
  run_steps now m k (st :: r) (Some a) iv dr nid lg mail =
  run_steps now m k r None (iv_after a iv) (aw_done now a dr) nid (lg ++ aw_rec a iv arr) mail.
Proof.
  intros Hk Hh Hw Hrb Hnw. destruct a as [s|v dl|biased tie sa sb| | | | |rearm d3 s sx|pre s|kr chi cho]; try contradiction.
  - cbn [aw_wake] in Hw. cbn [run_steps poll_aw poll_aw0 fst snd aw_done aw_rec iv_after]. unfold sleep_poll.
    replace (now <? deadline s) with false by lia. rewrite Hw. reflexivity.
  - destruct v as [s| |ch|]; try contradiction; [|discriminate Hnw]. cbn [aw_wake] in Hw. cbn [aw_held held_sleeps] in Hh.
    inversion Hh as [|? ? Hs Hh']; subst. inversion Hh' as [|? ? Hd _]; subst.
    cbn [run_steps poll_aw fst snd aw_done aw_rec iv_after]. unfold timeout_poll, vpoll_m. cbn [fst snd vpoll]. unfold sleep_poll.
    destruct (deadline s <=? N.min (deadline s) (deadline dl)) eqn:E.
    + replace (N.min (deadline s) (deadline dl) <? deadline s) with false by lia. cbn [fst snd vdrop].
      unfold sleep_drop. cbn [handle sid]. rewrite Hd.
      replace (deadline s <=? deadline dl) with true by lia. reflexivity.
    + replace (N.min (deadline s) (deadline dl) <? deadline s) with true by lia. rewrite Hs. cbn [fst snd].
      replace (N.min (deadline s) (deadline dl) <? deadline dl) with false by lia. cbn [fst snd vdrop].
      unfold sleep_drop. cbn [handle sid]. rewrite Hs.
      replace (deadline s <=? deadline dl) with false by lia. reflexivity.
  - (* select over two sleeps *)
    destruct Hk as [_ ->]. cbn [aw_wake] in Hw. cbn [aw_held held_sleeps] in Hh.
    inversion Hh as [|? ? Hsa Hh']; subst. inversion Hh' as [|? ? Hsb _]; subst.
    cbn [run_steps poll_aw poll_aw0 fst snd aw_done aw_rec iv_after]. unfold sleep_poll, sel_code.
    destruct (deadline sa <=? N.min (deadline sa) (deadline sb)) eqn:E.
    + replace (N.min (deadline sa) (deadline sb) <? deadline sa) with false by lia. cbn [fst snd].
      unfold sleep_drop. cbn [handle sid]. rewrite Hsb.
      replace (deadline sa <=? deadline sb) with true by lia. reflexivity.
    + replace (N.min (deadline sa) (deadline sb) <? deadline sa) with true by lia. rewrite Hsa. cbn [fst snd].
      replace (N.min (deadline sa) (deadline sb) <? deadline sb) with false by lia. cbn [fst snd].
      unfold sleep_drop. cbn [handle sid]. rewrite Hsa.
      replace (deadline sa <=? deadline sb) with false by lia. replace (deadline sa =? deadline sb) with false by lia.
      rewrite orb_true_r. reflexivity.
  - (* the tick that was waited for: taken at exactly its instant, so it is not a missed one *)
    destruct iv as [[[dd ii hh] pp bb]|]; [|contradiction Hk; reflexivity].
    cbn [aw_wake iv_delay deadline] in Hw. subst dd.
    cbn [run_steps poll_aw poll_aw0 fst snd aw_done aw_rec iv_after iv_delay iv_period deadline]. unfold poll_tick, sleep_poll.
    cbn [iv_delay iv_period iv_beh deadline handle sid]. rewrite N.ltb_irrefl.
    unfold sleep_reset, tick_next. cbn [deadline handle sid fst snd].
    replace (now + GRACE <? now) with false by lia. reflexivity.
  - (* the keep-alive select *)
    destruct Hk as [_ Hd3]. cbn [aw_wake] in Hw. cbn [aw_held held_sleeps] in Hh.
    inversion Hh as [|? ? Hs Hh']; subst. inversion Hh' as [|? ? Hx _]; subst.
    cbn [run_steps poll_aw poll_aw0 fst snd aw_done aw_rec iv_after]. unfold sleep_poll.
    destruct (deadline s <=? N.min (deadline s) (deadline sx)) eqn:E.
    + replace (N.min (deadline s) (deadline sx) <? deadline s) with false by lia. cbn [fst snd].
      unfold sleep_drop. cbn [handle sid]. rewrite Hx.
      replace (deadline s <=? deadline sx) with true by lia.
      replace (N.min (deadline s) (deadline sx)) with (deadline s) by lia. reflexivity.
    + replace (N.min (deadline s) (deadline sx) <? deadline s) with true by lia. rewrite Hs. cbn [fst snd].
      replace (N.min (deadline s) (deadline sx) <? deadline sx) with false by lia. cbn [fst snd].
      replace (deadline s <=? deadline sx) with false by lia.
      replace (N.min (deadline s) (deadline sx)) with (deadline sx) in * by lia.
      destruct rearm.
      * cbn [aw_reblock] in Hrb. rewrite E in Hrb. rewrite (dl_fin _ _ Hd3) in *.
        destruct (deadline sx <? deadline sx + d3) eqn:E3; [discriminate|].
        unfold sleep_reset, sleep_drop. cbn [deadline handle sid fst snd]. rewrite Hs. unfold sleep_poll. cbn [deadline handle sid].
        rewrite E3. cbn [fst snd]. replace (deadline sx + d3) with (deadline sx) by lia. reflexivity.
      * unfold sleep_drop. cbn [deadline handle sid fst snd]. rewrite Hs. rewrite N.add_0_r. reflexivity.
  - (* the re-armed kept timer *)
    cbn [aw_wake] in Hw. cbn [run_steps poll_aw poll_aw0 fst snd aw_done aw_rec iv_after]. unfold sleep_poll.
    replace (now <? deadline s) with false by lia. rewrite Hw. reflexivity.
Qed.

Lemma run_steps_reblock now m k st r a a' iv dr nid lg mail :
  aw_kind a iv -> Forall (fun s => handle s = Some (deadline s)) (aw_held a iv) -> aw_wake a iv = now ->
  aw_reblock now a = Some a' ->
  exists pre s', a' = AwThen pre s' /\
  run_steps now m k (st :: r) (Some a) iv dr nid lg mail =
  (st :: r, Some a', iv, register (sid s') (deadline s') (aw_done now a dr), nid, lg, false, mail).
Proof.
  intros Hk Hh Hw Hrb. destruct a as [s|v dl| | | | | |rearm d3 s sx|pre s|kr chi cho]; try discriminate.
  destruct rearm; [|discriminate]. cbn [aw_reblock] in Hrb.
  destruct (deadline s <=? now) eqn:E; [discriminate|]. destruct (now <? dl now d3) eqn:E3; [|discriminate]. injection Hrb as <-.
  exists [now; 1], (reg (sid s) (dl now d3)). split; [reflexivity|].
  cbn [aw_wake] in Hw. cbn [aw_held held_sleeps] in Hh.
  inversion Hh as [|? ? Hs Hh']; subst. inversion Hh' as [|? ? Hx _]; subst.
  cbn [run_steps poll_aw poll_aw0 fst snd aw_done]. unfold sleep_poll.
  replace (N.min (deadline s) (deadline sx) <? deadline s) with true by lia. rewrite Hs. cbn [fst snd].
  replace (N.min (deadline s) (deadline sx) <? deadline sx) with false by lia. cbn [fst snd].
  unfold sleep_reset, sleep_drop. cbn [deadline handle sid fst snd]. rewrite Hs. unfold sleep_poll. cbn [deadline handle sid].
  rewrite E3, E. cbn [fst snd reg deadline sid]. reflexivity.
Qed.

(* a blocked timeout(d, receive) is polled: with a message in its channel it is Ok -- the delay
   is dropped, and so is the boxed Sleep that was received; without one, at its deadline, it is Elapsed *)
Lemma run_steps_woken_recv now m k st r ch dl iv dr nid lg mail :
  handle dl = Some (deadline dl) ->
  match mail_take m ch mail with
  | Some (s, mail') =>
    run_steps now m k (st :: r) (Some (AwTimeout (VRecv ch) dl)) iv dr nid lg mail =
    run_steps now m k r None iv (drop_entry (sid dl) (deadline dl) (sleep_drop s dr)) nid (lg ++ [now; 1]) mail'
  | None =>
    deadline dl <= now ->
    run_steps now m k (st :: r) (Some (AwTimeout (VRecv ch) dl)) iv dr nid lg mail =
    run_steps now m k r None iv dr nid (lg ++ [now; 0]) mail
  end.
Proof.
  intros Hd. cbn [run_steps poll_aw fst snd]. unfold timeout_poll, vpoll_m. cbn [fst snd].
  destruct (mail_take m ch mail) as [[s mail']|] eqn:Em; cbn [fst snd].
  - unfold sleep_drop at 1. rewrite Hd. cbn [vdrop]. reflexivity.
  - intros Hle. unfold sleep_poll. replace (now <? deadline dl) with false by lia. cbn [fst snd].
    unfold sleep_drop. cbn [handle vdrop]. reflexivity.
Qed.

(* the preparations of a step leave the entries of the driver as they were *)
Lemma prep_drv_spec now nid rcv st dr : frag_step2 rcv st -> Mid now dr -> fresh_in nid (pending dr) ->
  acts now dr (prep_drv now nid st dr) /\ forall x, ents_at x (pending (prep_drv now nid st dr)) = ents_at x (pending dr).
Proof.
  intros Hst Hm Hf. pose proof (mid_sorted _ _ Hm) as Hs.
  destruct st as [d|t|d v|biased a b| | | |polled d1 d2|d| | | | | |rearm d0 d2 x d3| | ]; try contradiction; cbn [frag_step2 frag_step] in Hst; cbn [prep_drv]; try (split; [apply acts_refl|reflexivity]).
  - destruct v as [x|]; [|contradiction].
    destruct ((now <? now + x) && negb (now <? dl now d)) eqn:E; [|split; [apply acts_refl|reflexivity]].
    split.
    + eapply acts_trans; [apply (acts_one now dr (Register nid (now + x))); cbn [op_wf]; lia|].
      apply (acts_one now _ (DropEntry nid (now + x))). exact I.
    + intros y. apply drop_registered_ents; assumption.
  - destruct ((now <? dl now a) && negb (now <? dl now b)) eqn:E; [|split; [apply acts_refl|reflexivity]].
    split.
    + eapply acts_trans; [apply (acts_one now dr (Register nid (dl now a))); cbn [op_wf]; lia|].
      apply (acts_one now _ (DropEntry nid (dl now a))). exact I.
    + intros y. apply drop_registered_ents; assumption.
  - destruct (reset_prep_spec now polled (dl now d1) (dl now d2) nid dr Hs Hf) as (_ & H2 & H3). split; assumption.
  - split; [apply poll_drop_acts|]. intros x. apply poll_drop_ents; assumption.
  - destruct (reset_prep_spec now true (dl now d0) (dl now d2) nid dr Hs Hf) as (_ & H2 & H3).
    set (dr2 := snd (reset_prep now true (dl now d0) (dl now d2) nid dr)) in *.
    assert (Hs2 : sorted (pending dr2)) by exact (mid_sorted _ _ (acts_mid _ _ _ H2 Hm)).
    assert (Hf2 : fresh_in nid (pending dr2)) by (intros y; rewrite H3; apply Hf).
    destruct ((now <? dl now d2) && negb (now <? now + x)) eqn:E; [|split; assumption].
    destruct rearm.
    + split.
      * eapply acts_trans; [exact H2|]. eapply acts_trans; [apply (acts_one now dr2 (Register nid (dl now d2))); cbn [op_wf]; lia|].
        apply (acts_one now _ (ResetEntry nid (dl now d2) (dl now d3))). exact I.
      * intros y. rewrite (reset_registered_ents _ _ _ _ _ Hs2 Hf2). apply H3.
    + split.
      * eapply acts_trans; [exact H2|]. eapply acts_trans; [apply (acts_one now dr2 (Register nid (dl now d2))); cbn [op_wf]; lia|].
        apply (acts_one now _ (DropEntry nid (dl now d2))). exact I.
      * intros y. rewrite (drop_registered_ents _ _ _ _ Hs2 Hf2). apply H3.
Qed.

(* where the id of a Sleep the task holds after a poll comes from: created in this poll, or one
   the task owned before ([old]) *)
Definition idsrc (nid n : N) (old : N -> Prop) (id : N) : Prop := (nid <= id /\ id < n) \/ old id.

Definition iv_ids (iv : option interval) (id : N) : Prop := exists i, iv = Some i /\ id = sid (iv_delay i).

Definition blocked_ok (now nid n : N) (old : N -> Prop) (a : aw) (iv' : option interval) : Prop :=
  aw_kind a iv' /\ now < aw_wake a iv' /\ NoDup (map sid (aw_held a iv')) /\
  Forall (fun s => now < deadline s /\ handle s = Some (deadline s) /\ idsrc nid n old (sid s)) (aw_held a iv') /\
  (forall id, iv_ids iv' id -> idsrc nid n old id).

(* ---- the channels ---- *)
(* the boxed Sleeps in channel ch of module m, oldest first *)
Fixpoint chan (m ch : N) (mail : mailbox) : list sleep :=
  match mail with
  | [] => []
  | (m', ch', _, s) :: r => if (m' =? m) && (ch' =? ch) then s :: chan m ch r else chan m ch r
  end.

Definition chn (e : N * N * nat * sleep) : N := snd (fst (fst e)).

(* every boxed Sleep in a channel has elapsed before it was sent: it is not registered *)
Definition inert (mail : mailbox) : Prop := Forall (fun e : N * N * nat * sleep => handle (snd e) = None) mail.

Lemma chan_app m ch l1 l2 : chan m ch (l1 ++ l2) = chan m ch l1 ++ chan m ch l2.
Proof.
  induction l1 as [|[[[m' ch'] k'] s] r IH]; cbn [app chan]; [reflexivity|].
  destruct ((m' =? m) && (ch' =? ch)); [cbn [app]; rewrite IH; reflexivity|exact IH].
Qed.

Lemma mail_take_some m ch mail s mail' : mail_take m ch mail = Some (s, mail') ->
  chan m ch mail = s :: chan m ch mail' /\
  (forall m' c, (m' =? m) && (c =? ch) = false -> chan m' c mail' = chan m' c mail) /\
  (inert mail -> handle s = None /\ inert mail').
Proof.
  revert s mail'. induction mail as [|[[[m0 ch0] k0] s0] r IH]; intros s mail' H; cbn [mail_take] in H; [discriminate|].
  destruct ((m0 =? m) && (ch0 =? ch)) eqn:E.
  - injection H as <- <-. cbn [chan]. rewrite E. split; [reflexivity|]. split.
    + intros m' c Hne. replace ((m0 =? m') && (ch0 =? c)) with false; [reflexivity|].
      symmetry. apply not_true_is_false. intros Ht. apply andb_true_iff in Ht. apply andb_true_iff in E.
      destruct Ht as [T1 T2], E as [E1 E2]. assert (m' = m) by lia. assert (c = ch) by lia. subst m' c.
      rewrite !N.eqb_refl in Hne. discriminate.
    + intros Hi. inversion Hi as [|? ? H1 H2]; subst. split; assumption.
  - destruct (mail_take m ch r) as [[s1 r1]|] eqn:Er; [|discriminate]. injection H as <- <-.
    destruct (IH s1 r1 eq_refl) as (I1 & I2 & I3). cbn [chan]. rewrite E. split; [exact I1|]. split.
    + intros m' c Hne. destruct ((m0 =? m') && (ch0 =? c)); [rewrite (I2 m' c Hne); reflexivity|exact (I2 m' c Hne)].
    + intros Hi. inversion Hi as [|? ? H1 H2]; subst. destruct (I3 H2) as [J1 J2]. split; [exact J1|constructor; assumption].
Qed.

Lemma mail_take_none m ch mail : mail_take m ch mail = None <-> chan m ch mail = [].
Proof.
  induction mail as [|[[[m0 ch0] k0] s0] r IH]; cbn [mail_take chan]; [split; reflexivity|].
  destruct ((m0 =? m) && (ch0 =? ch)); [split; discriminate|].
  destruct (mail_take m ch r) as [[s1 r1]|]; [split; [discriminate|]|split; [intros _; apply IH; reflexivity|reflexivity]].
  intros H. apply IH in H. discriminate.
Qed.

Lemma skipn_add {A} (l : list A) : forall a b, skipn b (skipn a l) = skipn (a + b) l.
Proof.
  induction l as [|x r IH]; intros a b; [destruct a, b; reflexivity|].
  destruct a as [|a]; [reflexivity|]. cbn [skipn Nat.add]. apply IH.
Qed.

(* what a poll of task k (of module m, at instant now) does to the channels, to the arrivals the
   task still expects, and to the list of messages it is still to send:
   a receiver takes messages off the front of its channels; any other task appends tokens *)
Definition tok_ok (now m : N) (k : nat) (e : N * N * nat * sleep) : Prop :=
  exists ch id, e = (m, ch, k, token now 0 id).

Definition mail_ok (now m : N) (k : nat) (rcv : bool) (mail ml : mailbox) (arr arr' : arrs) (S S' : list (N * N)) : Prop :=
  if rcv then
    S = S' /\
    (exists cons : N -> nat, forall c, chan m c ml = skipn (cons c) (chan m c mail) /\ arr' c = skipn (cons c) (arr c) /\
                                       (cons c <= length (chan m c mail))%nat) /\
    (forall m' c, m' <> m -> chan m' c ml = chan m' c mail) /\ (inert mail -> inert ml)
  else
    exists toks, ml = mail ++ toks /\ Forall (tok_ok now m k) toks /\ (forall c, arr' c = arr c) /\
                 S = map (fun e => (chn e, now)) toks ++ S'.

Lemma mail_ok_refl now m k rcv mail arr S : mail_ok now m k rcv mail mail arr arr S S.
Proof.
  unfold mail_ok. destruct rcv.
  - split; [reflexivity|]. split; [exists (fun _ => 0%nat); intros c; repeat split; lia|]. split; [reflexivity|exact (fun H => H)].
  - exists []. rewrite app_nil_r. repeat split; constructor.
Qed.

Lemma mail_ok_trans now m k rcv mail mail1 ml arr arr1 arr' S1 S2 S' :
  mail_ok now m k rcv mail mail1 arr arr1 S1 [] -> mail_ok now m k rcv mail1 ml arr1 arr' S2 S' ->
  mail_ok now m k rcv mail ml arr arr' (S1 ++ S2) S'.
Proof.
  unfold mail_ok. destruct rcv.
  - intros (-> & (c1 & H1) & O1 & I1) (-> & (c2 & H2) & O2 & I2). split; [reflexivity|]. split; [|split].
    + exists (fun c => (c1 c + c2 c)%nat). intros c. destruct (H1 c) as (A1 & B1 & C1). destruct (H2 c) as (A2 & B2 & C2).
      rewrite A2, B2, A1, B1, !skipn_add. repeat split. rewrite A1, skipn_length in C2. lia.
    + intros m' c Hne. rewrite (O2 m' c Hne). apply O1; exact Hne.
    + intros H. exact (I2 (I1 H)).
  - intros (t1 & -> & F1 & A1 & ->) (t2 & -> & F2 & A2 & ->). exists (t1 ++ t2). rewrite app_assoc, map_app, app_nil_r, app_assoc.
    repeat split; try reflexivity; [apply Forall_app; split; assumption|]. intros c. rewrite A2. apply A1.
Qed.

(* the arrivals a receiver expects: first the messages that are in its channels (sent no later
   than now), then those still to be sent (no earlier than now) *)
Definition LA (now m : N) (mail : mailbox) (arr : arrs) : Prop :=
  forall c, exists F, arr c = map deadline (chan m c mail) ++ F /\
                      Forall (fun a => a <= now) (map deadline (chan m c mail)) /\ Forall (fun a => now <= a) F.

(* a task that is not a receiver never looks at the arrivals; a receiver never sends *)
Lemma step_time_noarr now iv arr st : frag_step2 false st -> step_time now iv arr st = step_time now iv noarr st.
Proof. destruct st; cbn [frag_step2 step_time]; try reflexivity. intros [H _]; discriminate. Qed.

Lemma exp_sends_rcv steps : Forall (frag_step2 true) steps -> forall now iv, exp_sends now iv steps = [].
Proof.
  induction 1 as [|st r Hst _ IH]; intros now iv; cbn [exp_sends]; [reflexivity|]. rewrite IH.
  destruct st; try reflexivity. destruct Hst as [H _]; discriminate.
Qed.

(* what one poll emits against the log [E] still demanded (and the messages [S] still to be
   sent), where it leaves the task, and what it does to the driver: contract-respecting
   operations whose net effect on the entries is the registration of the Sleeps the task
   blocks on *)
Definition poll_body (now nid n m : N) (k : nat) (rcv : bool) (old : N -> Prop) (mail ml : mailbox) (arr arr' : arrs)
                     (E : list N) (S : list (N * N)) (o : list N) (b : option (aw * option interval * list step)) : Prop :=
  match b with
  | None => E = o /\ mail_ok now m k rcv mail ml arr arr' S []
  | Some (a, iv', l) =>
    exists st rest, l = st :: rest /\ Forall (frag_step2 rcv) rest /\
      E = o ++ aw_rec a iv' arr' ++ exp_run (aw_end a iv' arr') (iv_abs (iv_after a iv')) (aw_arr a arr') rest /\
      blocked_ok now nid n old a iv' /\
      mail_ok now m k rcv mail ml arr arr' S (exp_sends (aw_end a iv' arr') (iv_abs (iv_after a iv')) rest) /\
      aw_ok a arr' /\ recv_ok (aw_end a iv' arr') (iv_abs (iv_after a iv')) (aw_arr a arr') rest /\
      (forall ch, waits_on (Some a) = Some ch -> rcv = true /\ chan m ch ml = [])
  end.

Definition poll_ok (now nid m : N) (k : nat) (rcv : bool) (old : N -> Prop) (dr : driver) (mail : mailbox) (arr : arrs)
                   (E : list N) (S : list (N * N))
                   (res : list N * option (aw * option interval * list step) * N * driver * mailbox) : Prop :=
  let '(o, b, n, d', ml) := res in
  nid <= n /\ acts now dr d' /\
  (forall x, ents_at x (pending d') =
             ents_at x (pending dr) ++ match b with Some (a, iv', _) => new_at a iv' x | None => [] end) /\
  exists arr', poll_body now nid n m k rcv old mail ml arr arr' E S o b.

Lemma poll_ok_pass now nid nid' m k rcv (old old' : N -> Prop) dr dr' mail mail1 arr arr1 E pre S1 S2 res :
  nid <= nid' -> (forall id, old' id -> idsrc nid nid' old id) -> acts now dr dr' ->
  (forall x, ents_at x (pending dr') = ents_at x (pending dr)) ->
  mail_ok now m k rcv mail mail1 arr arr1 S1 [] ->
  poll_ok now nid' m k rcv old' dr' mail1 arr1 E S2 res ->
  poll_ok now nid m k rcv old dr mail arr (pre ++ E) (S1 ++ S2) (let '(o, b, n, d', ml) := res in (pre ++ o, b, n, d', ml)).
Proof.
  intros Hn Hold Ha He Hm1. destruct res as [[[[o b] n] d'] ml]. unfold poll_ok, poll_body. intros (I1 & I2 & I3 & arr' & I4).
  assert (Hsrc : forall id, idsrc nid' n old' id -> idsrc nid n old id).
  { intros id [[H1 H2]|H]; [left; lia|]. destruct (Hold id H) as [[H1 H2]|H']; [left; lia|right; exact H']. }
  split; [lia|]. split; [exact (acts_trans _ _ _ _ Ha I2)|].
  split; [intros x; rewrite I3, He; reflexivity|]. exists arr'.
  destruct b as [[[a iv'] l]|].
  - destruct I4 as (st' & rest & -> & Hf' & He' & (Hk & Hw & Hnd & Hall & Hiv) & Hmo & Hao & Hro & Hch). exists st', rest.
    split; [reflexivity|]. split; [exact Hf'|]. split; [rewrite He', app_assoc; reflexivity|].
    split; [|split; [exact (mail_ok_trans _ _ _ _ _ _ _ _ _ _ _ _ _ Hm1 Hmo)|split; [exact Hao|split; [exact Hro|exact Hch]]]].
    split; [exact Hk|]. split; [exact Hw|]. split; [exact Hnd|]. split.
    + eapply Forall_impl; [|exact Hall]. cbn beta. intros s0 (H1 & H2 & H3). repeat split; try assumption. exact (Hsrc _ H3).
    + intros id Hid. exact (Hsrc _ (Hiv id Hid)).
  - destruct I4 as [-> Hmo]. split; [reflexivity|]. exact (mail_ok_trans _ _ _ _ _ _ _ _ _ _ _ _ _ Hm1 Hmo).
Qed.

Lemma tick_next_on_time b nx p : tick_next b nx nx p = nx + p.
Proof. unfold tick_next. replace (nx + GRACE <? nx) with false by lia. reflexivity. Qed.

Lemma frag_run_spec now m k rcv steps : Forall (frag_step2 rcv) steps -> forall nid iv dr mail arr,
  iv_idle iv -> Mid now dr -> (forall x id, In id (ents_at x (pending dr)) -> id < nid) ->
  inert mail -> (rcv = true -> LA now m mail arr) -> recv_ok now (iv_abs iv) arr steps ->
  poll_ok now nid m k rcv (iv_ids iv) dr mail arr (exp_run now (iv_abs iv) arr steps) (exp_sends now (iv_abs iv) steps)
          (frag_run now nid m k iv steps dr mail).
Proof.
  induction 1 as [|st r Hst Hr IH]; intros nid iv dr mail arr Hi Hm Hfr Hin Hla Hok.
  { cbn [frag_run exp_run exp_sends poll_ok poll_body]. split; [lia|]. split; [apply acts_refl|]. split; [intros x; rewrite app_nil_r; reflexivity|].
    exists arr. split; [reflexivity|apply mail_ok_refl]. }
  assert (Hf : fresh_in nid (pending dr)) by (intros x Hin'; specialize (Hfr x nid Hin'); lia).
  destruct (prep_drv_spec now nid rcv st dr Hst Hm Hf) as [Hpa Hpe].
  assert (Hm1 : Mid now (prep_drv now nid st dr)) by exact (acts_mid _ _ _ Hpa Hm).
  cbn [recv_ok] in Hok. destruct Hok as [Hsok Hokr].
  (* the messages still to be sent, after this step *)
  assert (Hsnd : forall t' iv', step_time now (iv_abs iv) arr st = t' -> step_iv now (iv_abs iv) st = iv' ->
     exp_sends now (iv_abs iv) (st :: r) = (match st with SHandOver ch _ => [(ch, now)] | _ => [] end) ++ exp_sends t' iv' r).
  { intros t' iv' <- <-. cbn [exp_sends]. destruct rcv.
    - rewrite !(exp_sends_rcv r Hr). reflexivity.
    - rewrite (step_time_noarr now (iv_abs iv) arr st Hst). reflexivity. }
  (* a step that blocks on one Sleep *)
  assert (Hblock : forall D, dl_of now st = D -> now < D ->
    step_log now (iv_abs iv) arr st = [D] -> step_time now (iv_abs iv) arr st = D -> step_iv now (iv_abs iv) st = iv_abs iv ->
    step_arr now arr st = arr -> (match st with SHandOver ch _ => [(ch, now)] | _ => [] end) = [] ->
    poll_ok now nid m k rcv (iv_ids iv) dr mail arr (exp_run now (iv_abs iv) arr (st :: r)) (exp_sends now (iv_abs iv) (st :: r))
      ([], Some (AwSleep (reg nid D), iv, st :: r), nid + 1, register nid D (prep_drv now nid st dr), mail)).
  { intros D HD Hlt Hlog Htime Hiv Harr Hown. unfold poll_ok, poll_body. split; [lia|]. split.
    - eapply acts_trans; [exact Hpa|]. apply (acts_one now _ (Register nid D)). exact Hlt.
    - split.
      + intros x. cbn [register set_pending pending]. rewrite (ents_at_add _ _ _ _ (mid_sorted _ _ Hm1)), !Hpe.
        unfold new_at. cbn [aw_held held_sleeps filter reg deadline sid map].
        destruct (x =? D) eqn:E.
        * replace x with D by lia. rewrite N.eqb_refl. reflexivity.
        * replace (D =? x) with false by lia. rewrite app_nil_r. reflexivity.
      + exists arr, st, r. cbn [aw_rec aw_end aw_wake aw_arr reg deadline app iv_after]. split; [reflexivity|]. split; [exact Hr|].
        split; [cbn [exp_run]; rewrite Hlog, Htime, Hiv, Harr; reflexivity|].
        split.
        { unfold blocked_ok. cbn [aw_kind aw_wake aw_held held_sleeps reg deadline sid handle map].
          split; [exact Hi|]. split; [exact Hlt|]. split; [repeat constructor; intros []|]. split.
          * constructor; [|constructor]. unfold reg. cbn [deadline handle sid]. repeat split; try reflexivity; try lia. left; lia.
          * intros id Hid. right; exact Hid. }
        split; [rewrite (Hsnd D (iv_abs iv) Htime Hiv), Hown; apply mail_ok_refl|].
        split; [exact I|]. split; [rewrite Htime, Hiv, Harr in Hokr; exact Hokr|]. intros ch H; discriminate. }
  (* a step that completes at once *)
  assert (Hpass : forall nid' dr' (pre : list N) iv1 mail1 arr1 S1,
     nid <= nid' -> (forall id, iv_ids iv1 id -> idsrc nid nid' (iv_ids iv) id) -> iv_idle iv1 ->
     acts now dr dr' -> Mid now dr' -> (forall x, ents_at x (pending dr') = ents_at x (pending dr)) ->
     step_log now (iv_abs iv) arr st = pre -> step_time now (iv_abs iv) arr st = now ->
     step_iv now (iv_abs iv) st = iv_abs iv1 -> step_arr now arr st = arr1 ->
     (match st with SHandOver ch _ => [(ch, now)] | _ => [] end) = S1 ->
     mail_ok now m k rcv mail mail1 arr arr1 S1 [] -> inert mail1 -> (rcv = true -> LA now m mail1 arr1) ->
     poll_ok now nid m k rcv (iv_ids iv) dr mail arr (exp_run now (iv_abs iv) arr (st :: r)) (exp_sends now (iv_abs iv) (st :: r))
       (let '(o, b, n, d', ml) := frag_run now nid' m k iv1 r dr' mail1 in (pre ++ o, b, n, d', ml))).
  { intros nid' dr' pre iv1 mail1 arr1 S1 Hn Hivo Hi1 Ha Hm' He Hlog Htime Hiv Harr Hown Hmo Hin1 Hla1.
    cbn [exp_run]. rewrite Hlog, Htime, Hiv, Harr, (Hsnd now (iv_abs iv1) Htime Hiv), Hown.
    apply (poll_ok_pass now nid nid' m k rcv (iv_ids iv) (iv_ids iv1) dr dr' mail mail1 arr arr1); try assumption.
    apply IH; try assumption.
    - intros x id Hin'. rewrite He in Hin'. specialize (Hfr x id Hin'). lia.
    - rewrite Htime, Hiv, Harr in Hokr. exact Hokr. }
  (* ... without touching the channels or the interval *)
  assert (Hpass0 : forall nid' dr' (pre : list N),
     nid <= nid' -> acts now dr dr' -> Mid now dr' -> (forall x, ents_at x (pending dr') = ents_at x (pending dr)) ->
     step_log now (iv_abs iv) arr st = pre -> step_time now (iv_abs iv) arr st = now ->
     step_iv now (iv_abs iv) st = iv_abs iv -> step_arr now arr st = arr ->
     (match st with SHandOver ch _ => [(ch, now)] | _ => [] end) = [] ->
     poll_ok now nid m k rcv (iv_ids iv) dr mail arr (exp_run now (iv_abs iv) arr (st :: r)) (exp_sends now (iv_abs iv) (st :: r))
       (let '(o, b, n, d', ml) := frag_run now nid' m k iv r dr' mail in (pre ++ o, b, n, d', ml))).
  { intros nid' dr' pre Hn Ha Hm' He Hlog Htime Hiv Harr Hown.
    apply (Hpass nid' dr' pre iv mail arr []); try assumption; [intros id H; right; exact H|apply mail_ok_refl]. }
  destruct st as [d|t|d v|biased a b|p bh| | |polled d1 d2|d| |ch d|ch|d ch|rf ch d|rearm d0 d2 x d3|wf d|wr chi cho];
    cbn [frag_step2 frag_step] in Hst; try contradiction; cbn [frag_run].
  - (* sleep *)
    cbn [dl_of]. destruct (now <? now + d) eqn:E.
    + apply (Hblock (now + d)); try reflexivity. lia.
    + pose proof (Hpass0 (nid + 1) (prep_drv now nid (SSleep d) dr) [now] ltac:(lia) Hpa Hm1 Hpe) as H.
      cbn [prep_drv app step_log step_time step_iv step_arr] in *. dfr.
      apply H; try reflexivity; replace (now + d) with now by lia; reflexivity.
  - (* sleep_until *)
    cbn [dl_of]. destruct (now <? t) eqn:E.
    + apply (Hblock t); try reflexivity; cbn [step_log step_time]; [lia| |]; replace (N.max now t) with t by lia; reflexivity.
    + pose proof (Hpass0 (nid + 1) (prep_drv now nid (SSleepUntil t) dr) [now] ltac:(lia) Hpa Hm1 Hpe) as H.
      cbn [prep_drv app step_log step_time step_iv step_arr] in *. dfr.
      apply H; try reflexivity; replace (N.max now t) with now by lia; reflexivity.
  - (* timeout around a sleep *)
    destruct v as [x|]; [|contradiction]. destruct Hst as [Hd Hx]. rewrite (dl_fin now d Hd) in *.
    destruct ((now <? now + x) && (now <? now + d)) eqn:E.
    + (* both pending: the value Sleep and the delay are registered *)
      unfold poll_ok, poll_body. split; [lia|]. split.
      * eapply acts_trans; [apply (acts_one now dr (Register nid (now + x))); cbn [op_wf]; lia|].
        apply (acts_one now _ (Register (nid + 1) (now + d))). cbn [op_wf]. lia.
      * split.
        -- intros y. cbn [register set_pending pending].
           rewrite (ents_at_add _ _ _ _ (q_add_sorted _ _ _ (mid_sorted _ _ Hm))), !(ents_at_add _ _ _ _ (mid_sorted _ _ Hm)).
           unfold new_at. cbn [aw_held held_sleeps filter reg deadline sid map].
           destruct (y =? now + d) eqn:E1, (y =? now + x) eqn:E2.
           ++ replace y with (now + d) by lia. replace (now + x) with (now + d) by lia. rewrite !N.eqb_refl. cbn [map]. rewrite <- app_assoc. reflexivity.
           ++ replace y with (now + d) by lia. rewrite N.eqb_refl. replace (now + d =? now + x) with false by lia.
              replace (now + x =? now + d) with false by lia. cbn [map]. reflexivity.
           ++ replace y with (now + x) by lia. rewrite N.eqb_refl. replace (now + d =? now + x) with false by lia. cbn [map reg sid]. reflexivity.
           ++ replace (now + x =? y) with false by lia. replace (now + d =? y) with false by lia. cbn [map]. rewrite app_nil_r. reflexivity.
        -- exists arr, (STimeout d (ISleep x)), r. split; [reflexivity|]. split; [exact Hr|].
           cbn [aw_rec aw_end aw_wake aw_arr reg deadline exp_run step_log step_time step_iv step_arr app iv_after] in *. split.
           ++ rewrite N.add_min_distr_l. replace (now + x <=? now + d) with (x <=? d) by lia. reflexivity.
           ++ split.
              { unfold blocked_ok. cbn [aw_kind aw_wake aw_held held_sleeps reg deadline sid handle map].
                split; [exact Hi|]. split; [lia|]. split; [repeat constructor; [intros [H|[]]; lia|intros []]|]. split.
                ** constructor; [|constructor; [|constructor]]; unfold reg; cbn [deadline handle sid]; (split; [lia|split; [reflexivity|left; lia]]).
                ** intros id Hid. right; exact Hid. }
              split; [rewrite (Hsnd _ _ eq_refl eq_refl); cbn [app]; rewrite N.add_min_distr_l; apply mail_ok_refl|].
              split; [exact I|]. split; [rewrite N.add_min_distr_l; exact Hokr|]. intros ch H; discriminate.
    + (* one of them is due at once *)
      pose proof (Hpass0 (nid + 2) (prep_drv now nid (STimeout d (ISleep x)) dr) [now; b2n (negb (now <? now + x))] ltac:(lia) Hpa Hm1 Hpe) as H.
      cbn [prep_drv app step_log step_time step_iv step_arr] in *. rewrite (dl_fin now d Hd) in *. dfr.
      destruct (now <? now + x) eqn:E1; cbn [andb negb] in *.
      * (* the value is pending, so the delay is due: d = 0 *)
        apply H; try reflexivity; replace (N.min x d) with 0 by lia; [replace (x <=? d) with false by lia|]; rewrite N.add_0_r; reflexivity.
      * apply H; try reflexivity; replace (N.min x d) with 0 by lia; [replace (x <=? d) with true by lia|]; rewrite N.add_0_r; reflexivity.
  - (* select over two sleeps *)
    destruct Hst as [Ha Hb]. rewrite (dl_fin now a Ha), (dl_fin now b Hb).
    destruct ((now <? now + a) && (now <? now + b)) eqn:E.
    + (* both pending: both Sleeps are registered *)
      unfold poll_ok, poll_body. split; [lia|]. split.
      * eapply acts_trans; [apply (acts_one now dr (Register nid (now + a))); cbn [op_wf]; lia|].
        apply (acts_one now _ (Register (nid + 1) (now + b))). cbn [op_wf]. lia.
      * split.
        -- intros y. cbn [register set_pending pending].
           rewrite (ents_at_add _ _ _ _ (q_add_sorted _ _ _ (mid_sorted _ _ Hm))), !(ents_at_add _ _ _ _ (mid_sorted _ _ Hm)).
           unfold new_at. cbn [aw_held held_sleeps filter reg deadline sid map].
           destruct (y =? now + b) eqn:E1, (y =? now + a) eqn:E2.
           ++ replace y with (now + b) by lia. replace (now + a) with (now + b) by lia. rewrite !N.eqb_refl. cbn [map]. rewrite <- app_assoc. reflexivity.
           ++ replace y with (now + b) by lia. rewrite N.eqb_refl. replace (now + b =? now + a) with false by lia.
              replace (now + a =? now + b) with false by lia. cbn [map]. reflexivity.
           ++ replace y with (now + a) by lia. rewrite N.eqb_refl. replace (now + b =? now + a) with false by lia. cbn [map reg sid]. reflexivity.
           ++ replace (now + a =? y) with false by lia. replace (now + b =? y) with false by lia. cbn [map]. rewrite app_nil_r. reflexivity.
        -- exists arr, (SSelect biased a b), r. split; [reflexivity|]. split; [exact Hr|].
           cbn [aw_rec aw_end aw_wake aw_arr reg deadline exp_run step_log step_time step_iv step_arr app iv_after] in *. split.
           ++ rewrite N.add_min_distr_l. unfold sel_code. replace (now + a <=? now + b) with (a <=? b) by lia.
              replace (now + a =? now + b) with (a =? b) by lia. reflexivity.
           ++ split.
              { unfold blocked_ok. cbn [aw_kind aw_wake aw_held held_sleeps reg deadline sid handle map].
                split; [split; [exact Hi|lia]|]. split; [lia|]. split; [repeat constructor; [intros [H|[]]; lia|intros []]|]. split.
                ** constructor; [|constructor; [|constructor]]; unfold reg; cbn [deadline handle sid]; (split; [lia|split; [reflexivity|left; lia]]).
                ** intros id Hid. right; exact Hid. }
              split; [rewrite (Hsnd _ _ eq_refl eq_refl); cbn [app]; rewrite N.add_min_distr_l; apply mail_ok_refl|].
              split; [exact I|]. split; [rewrite N.add_min_distr_l; exact Hokr|]. intros ch H; discriminate.
    + (* one of them is due at once *)
      pose proof (Hpass0 (nid + 2) (prep_drv now nid (SSelect biased a b) dr)
                    [now; if now <? now + a then 1 else if biased || negb (a =? b) then 0 else 2] ltac:(lia) Hpa Hm1 Hpe) as H.
      cbn [step_log step_time step_iv step_arr] in H. dfr. cbn [app] in H. unfold sel_code in H.
      destruct (now <? now + a) eqn:E1; cbn [andb] in E.
      * apply H; try reflexivity; replace (N.min a b) with 0 by lia; [replace (a <=? b) with false by lia|]; rewrite N.add_0_r; reflexivity.
      * apply H; try reflexivity; replace (N.min a b) with 0 by lia; [replace (a <=? b) with true by lia|]; rewrite N.add_0_r; reflexivity.
  - (* a new interval *)
    pose proof (Hpass (nid + 1) dr [] (Some (interval_new now p bh nid)) mail arr [] ltac:(lia)) as H.
    dfr. cbn [app] in H. apply H; try reflexivity; try assumption; try apply mail_ok_refl.
    intros id (i & E & ->). injection E as <-. left. cbn [interval_new iv_delay sleep_new sid]. lia.
  - (* tick *)
    destruct iv as [i|].
    + cbn [iv_idle] in Hi. destruct (now <? deadline (iv_delay i)) eqn:E.
      * (* not yet due: the Sleep of the interval is registered *)
        assert (Hmax : N.max now (deadline (iv_delay i)) = deadline (iv_delay i)) by lia.
        unfold poll_ok, poll_body. split; [lia|]. split; [apply (acts_one now dr (Register (sid (iv_delay i)) (deadline (iv_delay i)))); cbn [op_wf]; lia|].
        split.
        -- intros x. cbn [register set_pending pending]. rewrite (ents_at_add _ _ _ _ (mid_sorted _ _ Hm)).
           unfold new_at. cbn [aw_held held_sleeps iv_reg iv_delay filter reg deadline sid map].
           destruct (x =? deadline (iv_delay i)) eqn:E1.
           ++ replace x with (deadline (iv_delay i)) by lia. rewrite N.eqb_refl. reflexivity.
           ++ replace (deadline (iv_delay i) =? x) with false by lia. rewrite app_nil_r. reflexivity.
        -- exists arr, SIvTick, r. split; [reflexivity|]. split; [exact Hr|].
           cbn [aw_rec aw_end aw_wake aw_arr iv_after iv_reg iv_delay iv_period iv_beh reg deadline sid exp_run step_log step_time step_iv step_arr app iv_abs iv_next] in *. split.
           ++ rewrite Hmax, tick_next_on_time. reflexivity.
           ++ split.
              { unfold blocked_ok. cbn [aw_kind aw_wake aw_held held_sleeps iv_reg iv_delay reg deadline sid handle map].
                split; [discriminate|]. split; [lia|]. split; [repeat constructor; intros []|]. split.
                ** constructor; [|constructor]. unfold reg; cbn [deadline handle sid]. split; [lia|]. split; [reflexivity|]. right. exists i. split; reflexivity.
                ** intros id (i' & E' & ->). injection E' as <-. right. exists i. split; reflexivity. }
              split; [rewrite (Hsnd _ _ eq_refl eq_refl); cbn [app step_time step_iv iv_abs]; rewrite Hmax, tick_next_on_time; apply mail_ok_refl|].
              split; [exact I|]. split; [rewrite Hmax, tick_next_on_time in Hokr; exact Hokr|]. intros ch H; discriminate.
      * (* due (or missed): the tick is taken at once *)
        set (iv1 := Some (iv_next i (tick_next (iv_beh i) (deadline (iv_delay i)) now (iv_period i)))).
        pose proof (Hpass nid dr [now; deadline (iv_delay i)] iv1 mail arr [] ltac:(lia)) as H.
        fold iv1. dfr. cbn [app] in H. apply H; try reflexivity; try assumption; try apply mail_ok_refl.
        -- intros id (i' & E' & ->). unfold iv1 in E'. injection E' as <-. right. exists i. split; reflexivity.
        -- cbn [step_log iv_abs]. replace (N.max now (deadline (iv_delay i))) with now by lia. reflexivity.
        -- cbn [step_time iv_abs]. lia.
        -- cbn [step_iv iv_abs iv1 iv_next iv_delay iv_period iv_beh deadline]. replace (N.max now (deadline (iv_delay i))) with now by lia. reflexivity.
    + pose proof (Hpass nid dr [now; 0] None mail arr [] ltac:(lia)) as H.
      dfr. cbn [app] in H. apply H; try reflexivity; try assumption; try apply mail_ok_refl. intros id H0; right; exact H0.
  - (* the interval is dropped *)
    pose proof (Hpass nid dr [] None mail arr [] ltac:(lia)) as H.
    dfr. cbn [app] in H. apply H; try reflexivity; try assumption; try apply mail_ok_refl; try exact I. intros id (i & E & _); discriminate.
  - (* reset *)
    destruct Hst as [Hd1 Hd2]. cbn [dl_of]. rewrite (dl_fin now d2 Hd2) in *. destruct (now <? now + d2) eqn:E.
    + apply (Hblock (now + d2)); try reflexivity; [cbn [dl_of]; apply dl_fin; exact Hd2|lia].
    + pose proof (Hpass0 (nid + 1) (prep_drv now nid (SReset polled d1 d2) dr) [now] ltac:(lia) Hpa Hm1 Hpe) as H.
      cbn [step_log step_time step_iv step_arr] in H. dfr. cbn [app] in H.
      apply H; try reflexivity; replace (now + d2) with now by lia; reflexivity.
  - (* drop *)
    pose proof (Hpass0 (nid + 1) (prep_drv now nid (SDropSleep d) dr) [now] ltac:(lia) Hpa Hm1 Hpe) as H.
    dfr. cbn [app] in H. apply H; reflexivity.
  - (* log *)
    pose proof (Hpass0 nid dr [now] ltac:(lia) (acts_refl now dr) Hm (fun x => eq_refl)) as H.
    dfr. cbn [app] in H. apply H; reflexivity.
  - (* hand-over of a token *)
    destruct Hst as [-> ->].
    pose proof (Hpass (nid + 1) dr [now] iv (mail ++ [(m, ch, k, token now 0 nid)]) arr [(ch, now)] ltac:(lia)) as H.
    dfr. cbn [app] in H. apply H; try reflexivity; try assumption.
    + intros id H0; right; exact H0.
    + exists [(m, ch, k, token now 0 nid)]. split; [reflexivity|]. split; [constructor; [exists ch, nid; reflexivity|constructor]|].
      split; [reflexivity|reflexivity].
    + apply Forall_app. split; [exact Hin|constructor; [reflexivity|constructor]].
    + intros H0; discriminate.
  - (* timeout around a receive *)
    destruct Hst as [-> Hd]. rewrite (dl_fin now d Hd). specialize (Hla eq_refl).
    destruct Hsok as [Hfin Htie]. destruct (Hla ch) as (F & EF & Hpast & Hfut).
    destruct (mail_take m ch mail) as [[s mail']|] eqn:Em.
    + (* a message is waiting *)
      destruct (mail_take_some _ _ _ _ _ Em) as (Ec & Eo & Ei). destruct (Ei Hin) as [Hs Hin']. clear Ei.
      rewrite Ec in EF, Hpast. cbn [map app] in EF, Hpast. inversion Hpast as [|? ? Hsle Hpast']; subst.
      rewrite EF in Htie.
      assert (Hhit : recv_hit now d (arr ch) = Some (deadline s)) by (rewrite EF; cbn [recv_hit]; replace (deadline s <? now + d) with true by lia; reflexivity).
      unfold sleep_drop. rewrite Hs.
      pose proof (Hpass (nid + 1) dr [now; 1] iv mail' (arr_pop arr ch) [] ltac:(lia)) as H.
      dfr. cbn [app] in H. apply H; try reflexivity; try assumption.
      * intros id H0; right; exact H0.
      * cbn [step_log]. rewrite Hhit. replace (N.max now (deadline s)) with now by lia. reflexivity.
      * cbn [step_time]. rewrite Hhit. lia.
      * cbn [step_arr]. rewrite Hhit. reflexivity.
      * (* the message is taken off its channel *)
        unfold mail_ok. split; [reflexivity|]. split; [|split; [|intros _; exact Hin']].
        -- exists (fun c => if c =? ch then 1%nat else 0%nat). intros c. unfold arr_pop. destruct (c =? ch) eqn:E.
           ++ replace c with ch by lia. rewrite Ec. cbn [skipn length]. split; [reflexivity|]. split; [destruct (arr ch); reflexivity|lia].
           ++ rewrite (Eo m c) by (rewrite N.eqb_refl, E; reflexivity). cbn [skipn]. repeat split. lia.
        -- intros m' c Hne. apply Eo. replace (m' =? m) with false by lia. reflexivity.
      * intros _ c. unfold arr_pop. destruct (c =? ch) eqn:E.
        -- replace c with ch by lia. exists F. rewrite EF. cbn [tl]. repeat split; assumption.
        -- rewrite (Eo m c) by (rewrite N.eqb_refl, E; reflexivity). apply Hla.
    + (* the channel is empty *)
      apply mail_take_none in Em. rewrite Em in EF. cbn [map app] in EF.
      destruct (now <? now + d) eqn:Ed.
      * (* blocked: the delay is registered *)
        assert (Hmx : forall a0, In a0 F -> N.max now a0 = a0) by (intros a0 H0; rewrite Forall_forall in Hfut; specialize (Hfut a0 H0); lia).
        assert (Hsame : recv_hit now d (arr ch) = aw_hit (now + d) (arr ch)) by reflexivity.
        assert (Hmax : match recv_hit now d (arr ch) with Some a0 => N.max now a0 = a0 | None => True end).
        { rewrite EF. destruct F as [|a0 F']; [exact I|]. cbn [recv_hit]. destruct (a0 <? now + d); [apply Hmx; left; reflexivity|exact I]. }
        unfold poll_ok, poll_body. split; [lia|]. split; [apply (acts_one now dr (Register nid (now + d))); cbn [op_wf]; lia|]. split.
        -- intros x. cbn [register set_pending pending]. rewrite (ents_at_add _ _ _ _ (mid_sorted _ _ Hm)).
           unfold new_at. cbn [aw_held held_sleeps filter reg deadline sid map].
           destruct (x =? now + d) eqn:E1.
           ++ replace x with (now + d) by lia. rewrite N.eqb_refl. reflexivity.
           ++ replace (now + d =? x) with false by lia. rewrite app_nil_r. reflexivity.
        -- exists arr, (STimeoutRecv d ch), r. split; [reflexivity|]. split; [exact Hr|].
           cbn [aw_rec aw_end aw_wake aw_arr aw_ok reg deadline exp_run step_log step_time step_iv step_arr app iv_after] in *.
           rewrite <- Hsame. split.
           ++ destruct (recv_hit now d (arr ch)) as [a0|]; [rewrite Hmax|]; reflexivity.
           ++ split.
              { unfold blocked_ok. cbn [aw_kind aw_wake aw_held held_sleeps reg deadline sid handle map].
                split; [exact Hi|]. split; [lia|]. split; [repeat constructor; intros []|]. split.
                ** constructor; [|constructor]. unfold reg; cbn [deadline handle sid]. split; [lia|]. split; [reflexivity|left; lia].
                ** intros id Hid. right; exact Hid. }
              split; [rewrite !(exp_sends_rcv _ (Forall_cons _ (conj eq_refl Hd : frag_step2 true (STimeoutRecv d ch)) Hr)), (exp_sends_rcv r Hr); apply mail_ok_refl|].
              split; [split; [exact Hfin|exact Htie]|].
              split; [destruct (recv_hit now d (arr ch)) as [a0|]; [rewrite Hmax in Hokr|]; exact Hokr|].
              intros c H0. injection H0 as <-. split; [reflexivity|exact Em].
      * (* d = 0: elapsed at once *)
        assert (Hhit : recv_hit now d (arr ch) = None).
        { rewrite EF. destruct F as [|a0 F']; [reflexivity|]. cbn [recv_hit]. inversion Hfut; subst. replace (a0 <? now + d) with false by lia. reflexivity. }
        pose proof (Hpass0 (nid + 1) dr [now; 0] ltac:(lia) (acts_refl now dr) Hm (fun x => eq_refl)) as H.
        dfr. cbn [app] in H. apply H; try reflexivity.
        -- cbn [step_log]. rewrite Hhit. replace (now + d) with now by lia. reflexivity.
        -- cbn [step_time]. rewrite Hhit. lia.
        -- cbn [step_arr]. rewrite Hhit. reflexivity.
  - (* keep-alive select *)
    destruct Hst as (Hd2 & Hx & Hd3). rewrite (dl_fin now d2 Hd2), (dl_fin now d3 Hd3).
    set (drp := prep_drv now nid (SKeep rearm d0 d2 x d3) dr) in *.
    pose proof (mid_sorted _ _ Hm1) as Hsp.
    destruct (now <? now + d2) eqn:E2.
    + destruct (now <? now + x) eqn:Ex.
      * (* both pending: the kept timer and sleep(x) are registered *)
        unfold poll_ok, poll_body. split; [lia|]. split.
        -- eapply acts_trans; [exact Hpa|].
           eapply acts_trans; [apply (acts_one now drp (Register nid (now + d2))); cbn [op_wf]; lia|].
           apply (acts_one now _ (Register (nid + 1) (now + x))). cbn [op_wf]. lia.
        -- split.
           ++ intros y. cbn [register set_pending pending].
              rewrite (ents_at_add _ _ _ _ (q_add_sorted _ _ _ Hsp)), !(ents_at_add _ _ _ _ Hsp), !Hpe.
              unfold new_at. cbn [aw_held held_sleeps filter reg deadline sid map].
              destruct (y =? now + x) eqn:E1, (y =? now + d2) eqn:E3.
              ** replace y with (now + x) by lia. replace (now + d2) with (now + x) by lia. rewrite !N.eqb_refl. cbn [map]. rewrite <- app_assoc. reflexivity.
              ** replace y with (now + x) by lia. rewrite N.eqb_refl. replace (now + x =? now + d2) with false by lia.
                 replace (now + d2 =? now + x) with false by lia. cbn [map]. reflexivity.
              ** replace y with (now + d2) by lia. rewrite N.eqb_refl. replace (now + x =? now + d2) with false by lia. cbn [map reg sid]. reflexivity.
              ** replace (now + d2 =? y) with false by lia. replace (now + x =? y) with false by lia. cbn [map]. rewrite app_nil_r. reflexivity.
           ++ exists arr, (SKeep rearm d0 d2 x d3), r. split; [reflexivity|]. split; [exact Hr|].
              cbn [aw_rec aw_end aw_wake aw_arr reg deadline exp_run step_log step_time step_iv step_arr app iv_after] in *.
              replace (now + d2 <=? now + x) with (d2 <=? x) by lia. split.
              ** destruct (d2 <=? x); reflexivity.
              ** split.
                 { unfold blocked_ok. cbn [aw_kind aw_wake aw_held held_sleeps reg deadline sid handle map].
                   split; [split; [exact Hi|exact Hd3]|]. split; [lia|]. split; [repeat constructor; [intros [H|[]]; lia|intros []]|]. split.
                   --- constructor; [|constructor; [|constructor]]; unfold reg; cbn [deadline handle sid]; (split; [lia|split; [reflexivity|left; lia]]).
                   --- intros id Hid. right; exact Hid. }
                 split; [rewrite (Hsnd _ _ eq_refl eq_refl); cbn [app step_time step_iv]; apply mail_ok_refl|].
                 split; [exact I|]. split; [exact Hokr|]. intros ch H; discriminate.
      * (* sleep(x) is due at once, the kept timer is not *)
        assert (Hx0 : x = 0) by lia. subst x.
        assert (Hd20 : (d2 <=? 0) = false) by lia.
        destruct rearm; cbn [andb].
        -- destruct (now <? now + d3) eqn:E3.
           ++ (* re-armed for a later instant: blocked on the kept timer alone *)
              unfold poll_ok, poll_body. split; [lia|]. split.
              ** eapply acts_trans; [exact Hpa|]. apply (acts_one now drp (Register nid (now + d3))). cbn [op_wf]. lia.
              ** split.
                 --- intros y. cbn [register set_pending pending]. rewrite (ents_at_add _ _ _ _ Hsp), !Hpe.
                     unfold new_at. cbn [aw_held held_sleeps filter reg deadline sid map].
                     destruct (y =? now + d3) eqn:E1.
                     +++ replace y with (now + d3) by lia. rewrite N.eqb_refl. reflexivity.
                     +++ replace (now + d3 =? y) with false by lia. rewrite app_nil_r. reflexivity.
                 --- exists arr, (SKeep true d0 d2 0 d3), r. split; [reflexivity|]. split; [exact Hr|].
                     cbn [aw_rec aw_end aw_wake aw_arr reg deadline exp_run step_log step_time step_iv step_arr app iv_after] in *.
                     rewrite Hd20 in *. rewrite N.add_0_r in *. split; [reflexivity|]. split.
                     { unfold blocked_ok. cbn [aw_kind aw_wake aw_held held_sleeps reg deadline sid handle map].
                       split; [exact Hi|]. split; [lia|]. split; [repeat constructor; intros []|]. split.
                       *** constructor; [|constructor]. unfold reg; cbn [deadline handle sid]. split; [lia|]. split; [reflexivity|left; lia].
                       *** intros id Hid. right; exact Hid. }
                     split; [rewrite (Hsnd _ _ eq_refl eq_refl); cbn [app step_time step_iv]; rewrite ?Hd20, ?N.add_0_r; apply mail_ok_refl|].
                     split; [exact I|]. split; [exact Hokr|]. intros ch H; discriminate.
           ++ pose proof (Hpass0 (nid + 2) drp [now; 1; now] ltac:(lia) Hpa Hm1 Hpe) as H.
              dfr. cbn [app] in H. apply H; try reflexivity; cbn [step_log step_time]; rewrite Hd20; [replace (now + 0 + d3) with now by lia; rewrite N.add_0_r; reflexivity|lia].
        -- pose proof (Hpass0 (nid + 2) drp [now; 1; now] ltac:(lia) Hpa Hm1 Hpe) as H.
           dfr. cbn [app] in H. apply H; try reflexivity; cbn [step_log step_time]; rewrite Hd20; [rewrite !N.add_0_r; reflexivity|lia].
    + (* the kept timer is due at once *)
      pose proof (Hpass0 (nid + 2) drp [now; 0] ltac:(lia) Hpa Hm1 Hpe) as H.
      dfr. cbn [app] in H. apply H; try reflexivity; cbn [step_log step_time]; replace (d2 <=? x) with true by lia; [replace (now + d2) with now by lia; reflexivity|lia].
Qed.

(* ---- closed forms for the interval ---- *)
(* a tick taken no later than 5 ms after its nominal instant, whatever the behaviour, and any tick
   under Burst: the next tick is due one period after the nominal instant *)
Lemma tick_next_nominal b nx t p : t <= nx + GRACE -> tick_next b nx t p = nx + p.
Proof. intros H. unfold tick_next. replace (nx + GRACE <? t) with false by lia. reflexivity. Qed.

Lemma tick_next_burst nx t p : tick_next Burst nx t p = nx + p.
Proof. unfold tick_next, next_timeout. destruct (nx + GRACE <? t); reflexivity. Qed.

(* a missed tick: Delay re-schedules one period after now, Skip at the next instant of the
   original schedule strictly after now *)
Lemma tick_next_delay nx t p : nx + GRACE < t -> tick_next Delay nx t p = t + p.
Proof. intros H. unfold tick_next, next_timeout. replace (nx + GRACE <? t) with true by lia. reflexivity. Qed.

Lemma tick_next_skip nx t p : nx + GRACE < t -> 0 < p ->
  tick_next Skip nx t p = nx + ((t - nx) / p + 1) * p /\ t < tick_next Skip nx t p <= t + p.
Proof.
  intros H Hp. unfold tick_next, next_timeout. replace (nx + GRACE <? t) with true by lia.
  pose proof (N.div_mod (t - nx) p ltac:(lia)) as Hdm. pose proof (N.mod_lt (t - nx) p ltac:(lia)) as Hlt.
  set (q := (t - nx) / p) in *. set (m := (t - nx) mod p) in *. clearbody q m.
  split; [|lia]. rewrite N.mul_add_distr_r, N.mul_1_l, (N.mul_comm q p). lia.
Qed.

(* Burst, over a whole sequence of ticks with work of [busy_k] ns after the k-th: the k-th tick
   has the value start + k * period whatever the delays, and returns at that instant or, if
   the task arrives later, at once *)
Fixpoint burst_log (now start p : N) (k : nat) (busy : list N) : list N :=
  match busy with
  | [] => []
  | d :: r =>
    let nom := start + N.of_nat k * p in
    let t := N.max now nom in
    t :: nom :: (if d =? 0 then burst_log t start p (S k) r else (t + d) :: burst_log (t + d) start p (S k) r)
  end.

Fixpoint burst_end (now start p : N) (k : nat) (busy : list N) : N :=
  match busy with
  | [] => now
  | d :: r => burst_end (N.max now (start + N.of_nat k * p) + d) start p (S k) r
  end.

Lemma exp_run_burst busy : forall now start p k arr r,
  exp_run now (Some (start + N.of_nat k * p, p, Burst)) arr (ticks busy ++ r) =
  burst_log now start p k busy ++
  exp_run (burst_end now start p k busy) (Some (start + N.of_nat (k + length busy) * p, p, Burst)) arr r.
Proof.
  induction busy as [|d bs IH]; intros now start p k arr r.
  - cbn [ticks app burst_log burst_end length]. rewrite Nat.add_0_r. reflexivity.
  - cbn [ticks app burst_log burst_end length exp_run step_log step_time step_iv step_arr]. rewrite tick_next_burst.
    replace (start + N.of_nat k * p + p) with (start + N.of_nat (S k) * p) by lia.
    replace (k + S (length bs))%nat with (S k + length bs)%nat by lia.
    destruct (d =? 0) eqn:E.
    + replace (N.max now (start + N.of_nat k * p) + d) with (N.max now (start + N.of_nat k * p)) by lia.
      rewrite IH. reflexivity.
    + cbn [app exp_run step_log step_time step_iv step_arr]. rewrite IH. reflexivity.
Qed.

(* the branch a select over sleep(a), sleep(b) reports, spelled out *)
Lemma sel_code_cases biased a b :
  sel_code biased a b = if a <? b then 0 else if b <? a then 1 else if biased then 0 else 2.
Proof.
  unfold sel_code. destruct (a <? b) eqn:E1.
  - replace (a <=? b) with true by lia. replace (a =? b) with false by lia. rewrite orb_true_r. reflexivity.
  - destruct (b <? a) eqn:E2.
    + replace (a <=? b) with false by lia. reflexivity.
    + replace (a <=? b) with true by lia. replace (a =? b) with true by lia. destruct biased; reflexivity.
Qed.

(* ---- tasks that do not receive ---- *)
(* their demanded log does not depend on the arrivals, and they have no ties *)
Lemma exp_run_noarr steps : Forall (frag_step2 false) steps -> forall now iv arr arr',
  exp_run now iv arr steps = exp_run now iv arr' steps.
Proof.
  induction 1 as [|st r Hst _ IH]; intros now iv arr arr'; [reflexivity|]. cbn [exp_run].
  assert (H : step_log now iv arr st = step_log now iv arr' st /\ step_time now iv arr st = step_time now iv arr' st /\
              step_arr now arr st = arr /\ step_arr now arr' st = arr').
  { destruct st; cbn [frag_step2] in Hst; cbn [step_log step_time step_arr]; try (repeat split; reflexivity). destruct Hst as [H _]; discriminate. }
  destruct H as (-> & -> & -> & ->). rewrite (IH _ _ arr arr'). reflexivity.
Qed.

Lemma recv_ok_noarr steps : Forall (frag_step2 false) steps -> forall now iv arr, recv_ok now iv arr steps.
Proof.
  induction 1 as [|st r Hst _ IH]; intros now iv arr; cbn [recv_ok]; [exact I|]. split; [|apply IH].
  destruct st; cbn [frag_step2] in Hst; cbn [step_ok]; try exact I. destruct Hst as [H _]; discriminate.
Qed.

Lemma frag_step2_false_of_old steps : Forall frag_step steps -> Forall (frag_step2 false) steps.
Proof. intros H. eapply Forall_impl; [|exact H]. intros st. apply frag_step2_old. Qed.

(* the instants of a task's future messages are not before the instant it is at *)
Lemma step_time_mono now iv arr st : now <= step_time now iv arr st.
Proof.
  destruct st; cbn [step_time]; try lia.
  - destruct v; lia.
  - destruct iv as [[[nx p] b]|]; lia.
  - destruct (recv_hit now d (arr ch)); lia.
  - destruct (d2 <=? x); lia.
Qed.

Lemma exp_sends_ge steps : forall now iv c t, In (c, t) (exp_sends now iv steps) -> now <= t.
Proof.
  induction steps as [|st r IH]; intros now iv c t H; cbn [exp_sends] in H; [contradiction|].
  apply in_app_or in H. destruct H as [H|H].
  - destruct st; try contradiction. destruct H as [H|[]]. injection H as _ <-. lia.
  - specialize (IH _ _ _ _ H). pose proof (step_time_mono now iv noarr st). lia.
Qed.
