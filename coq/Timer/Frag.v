(* The fragment {sleep(d), sleep_until(t), log} of the task scripts of coq/Timer/Model.v:
   what the property demands of a task (exp_run), and what one poll of such a task does. *)
From Coq Require Import List NArith Bool Lia ZifyBool.
From DesVerif Require Import CQueue.Spec Timer.Driver Timer.QueueLemmas Timer.Inv Timer.Futures Timer.FutureLaws Timer.TempOps Timer.Model.
Import ListNotations.
Open Scope N_scope.

(* finite durations: a duration >= FARK stands for Duration::MAX (coq/Timer/Model.v [dl]) *)
Definition frag_step (s : step) : Prop :=
  match s with
  | SSleep _ | SSleepUntil _ | SLog => True
  | SReset _ d1 d2 => d1 < FARK /\ d2 < FARK
  | SDropSleep d => d < FARK
  | _ => False
  end.

(* the log the property demands of a task that is at instant [now] with [steps] to go:
   every await returns at exactly its deadline; a reset Sleep at its NEW deadline; polling and
   dropping a Sleep takes no time *)
Fixpoint exp_run (now : N) (steps : list step) : list N :=
  match steps with
  | [] => []
  | SSleep d :: r => (now + d) :: exp_run (now + d) r
  | SSleepUntil t :: r => N.max now t :: exp_run (N.max now t) r
  | SReset _ _ d2 :: r => (now + d2) :: exp_run (now + d2) r
  | _ :: r => now :: exp_run now r
  end.

Definition dl_of (now : N) (st : step) : N :=
  match st with SSleep d => now + d | SSleepUntil t => t | SReset _ _ d2 => dl now d2 | _ => now end.

(* the driver after the preparations of a step: reset = the pinned Sleep is created, polled
   (registered) if asked, and reset -- which removes the entry again; drop = created, polled, dropped *)
Definition prep_drv (now nid : N) (st : step) (dr : driver) : driver :=
  match st with
  | SReset polled d1 d2 => snd (reset_prep now polled (dl now d1) (dl now d2) nid dr)
  | SDropSleep d => let '(_, s1, dr1) := sleep_poll now (sleep_new (dl now d) nid) dr in sleep_drop s1 dr1
  | _ => dr
  end.

(* one poll of a task that is not awaiting anything: (log entries, the Sleep it blocks on
   with the steps still to go, next Sleep id, the driver afterwards) *)
Fixpoint frag_run (now nid : N) (steps : list step) (dr : driver) : list N * option (sleep * list step) * N * driver :=
  match steps with
  | [] => ([], None, nid, dr)
  | st :: r =>
    match st with
    | SLog => let '(o, b, n, d') := frag_run now nid r dr in (now :: o, b, n, d')
    | SDropSleep _ => let '(o, b, n, d') := frag_run now (nid + 1) r (prep_drv now nid st dr) in (now :: o, b, n, d')
    | SSleep _ | SSleepUntil _ | SReset _ _ _ =>
      let dr1 := prep_drv now nid st dr in
      if now <? dl_of now st
      then ([], Some ({| deadline := dl_of now st; sid := nid; handle := Some (dl_of now st) |}, st :: r), nid + 1,
            register nid (dl_of now st) dr1)
      else let '(o, b, n, d') := frag_run now (nid + 1) r dr1 in (now :: o, b, n, d')
    | _ => ([], None, nid, dr)
    end
  end.

Definition fr_steps (b : option (sleep * list step)) : list step := match b with Some (_, l) => l | None => [] end.
Definition fr_cur (b : option (sleep * list step)) : option aw := match b with Some (s, _) => Some (AwSleep s) | None => None end.

Lemma dl_fin now d : d < FARK -> dl now d = now + d.
Proof. intros H. unfold dl. replace (FARK <=? d) with false by lia. reflexivity. Qed.

Lemma run_steps_frag now m k steps : Forall frag_step steps -> forall dr nid lg mail,
  run_steps now m k steps None None dr nid lg mail =
  let '(o, b, n, d') := frag_run now nid steps dr in
  (fr_steps b, fr_cur b, None, d', n, lg ++ o, false, mail).
Proof.
  induction 1 as [|st r Hst Hr IH]; intros dr nid lg mail.
  - cbn [run_steps frag_run fr_steps fr_cur iv_drop]. rewrite app_nil_r. reflexivity.
  - destruct st; try contradiction; cbn [run_steps start_step start_step0 poll_aw poll_aw0 fst snd frag_run dl_of prep_drv].
    + unfold sleep_poll, sleep_new. cbn [deadline handle sid].
      destruct (now <? now + d); cbn [fr_steps fr_cur]; [rewrite app_nil_r; reflexivity|].
      rewrite IH. destruct (frag_run now (nid + 1) r dr) as [[[o b] n] d']. rewrite <- app_assoc. reflexivity.
    + unfold sleep_poll, sleep_new. cbn [deadline handle sid].
      destruct (now <? t); cbn [fr_steps fr_cur]; [rewrite app_nil_r; reflexivity|].
      rewrite IH. destruct (frag_run now (nid + 1) r dr) as [[[o b] n] d']. rewrite <- app_assoc. reflexivity.
    + (* reset *)
      unfold reset_prep.
      destruct (if polled then let '(_, s1, dr1) := sleep_poll now (sleep_new (dl now d1) nid) dr in (s1, dr1)
                else (sleep_new (dl now d1) nid, dr)) as [s1 dr1] eqn:E1.
      assert (Hsid : sid s1 = nid).
      { destruct polled; [|injection E1 as <- _; reflexivity].
        pose proof (sleep_poll_sid now (sleep_new (dl now d1) nid) dr) as Hs.
        destruct (sleep_poll now (sleep_new (dl now d1) nid) dr) as [[r0 s1'] dr1']. injection E1 as <- _. exact Hs. }
      unfold sleep_reset. cbn [snd fst poll_aw poll_aw0]. unfold sleep_poll. cbn [deadline handle sid]. rewrite Hsid.
      destruct (now <? dl now d2); cbn [fr_steps fr_cur fst snd]; [rewrite app_nil_r; reflexivity|].
      rewrite IH. destruct (frag_run now (nid + 1) r _) as [[[o b] n] d']. rewrite <- app_assoc. reflexivity.
    + (* drop *)
      destruct (sleep_poll now (sleep_new (dl now d) nid) dr) as [[r0 s1] dr1]. cbn [fst snd].
      rewrite IH. destruct (frag_run now (nid + 1) r (sleep_drop s1 dr1)) as [[[o b] n] d']. rewrite <- app_assoc. reflexivity.
    + rewrite IH. destruct (frag_run now nid r dr) as [[[o b] n] d']. rewrite <- app_assoc. reflexivity.
Qed.

(* the task is polled when the Sleep it awaits is due *)
Lemma run_steps_woken now m k st r s dr nid lg mail : deadline s <= now ->
  run_steps now m k (st :: r) (Some (AwSleep s)) None dr nid lg mail =
  run_steps now m k r None None dr nid (lg ++ [now]) mail.
Proof.
  intros H. cbn [run_steps poll_aw poll_aw0 fst snd]. unfold sleep_poll.
  replace (now <? deadline s) with false by lia. reflexivity.
Qed.

(* the preparations of a step leave the entries of the driver as they were *)
Lemma prep_drv_spec now nid st dr : frag_step st -> Mid now dr -> fresh_in nid (pending dr) ->
  acts now dr (prep_drv now nid st dr) /\ forall x, ents_at x (pending (prep_drv now nid st dr)) = ents_at x (pending dr).
Proof.
  intros Hst Hm Hf. pose proof (mid_sorted _ _ Hm) as Hs.
  destruct st; try contradiction; cbn [prep_drv]; try (split; [apply acts_refl|reflexivity]).
  - destruct (reset_prep_spec now polled (dl now d1) (dl now d2) nid dr Hs Hf) as (_ & H2 & H3). split; assumption.
  - split; [apply poll_drop_acts|]. intros x. apply poll_drop_ents; assumption.
Qed.

(* what one poll emits, where it leaves the task against the demanded log, and what it does
   to the driver: contract-respecting operations whose net effect on the entries is the
   registration of the Sleep the task blocks on *)
Lemma frag_run_spec now steps : Forall frag_step steps -> forall nid dr,
  Mid now dr -> (forall x id, In id (ents_at x (pending dr)) -> id < nid) ->
  let '(o, b, n, d') := frag_run now nid steps dr in
  nid <= n /\ acts now dr d' /\
  (forall x, ents_at x (pending d') =
             ents_at x (pending dr) ++ match b with Some (s, _) => if x =? deadline s then [sid s] else [] | None => [] end) /\
  match b with
  | None => exp_run now steps = o
  | Some (s, l) =>
    exists st rest, l = st :: rest /\ Forall frag_step rest /\
      exp_run now steps = o ++ deadline s :: exp_run (deadline s) rest /\
      now < deadline s /\ handle s = Some (deadline s) /\ nid <= sid s /\ sid s < n
  end.
Proof.
  induction 1 as [|st r Hst Hr IH]; intros nid dr Hm Hfr.
  { cbn [frag_run exp_run]. split; [lia|]. split; [apply acts_refl|]. split; [intros x; rewrite app_nil_r; reflexivity|reflexivity]. }
  assert (Hf : fresh_in nid (pending dr)) by (intros x Hin; specialize (Hfr x nid Hin); lia).
  destruct (prep_drv_spec now nid st dr Hst Hm Hf) as [Hpa Hpe].
  assert (Hm1 : Mid now (prep_drv now nid st dr)) by exact (acts_mid _ _ _ Hpa Hm).
  assert (Hfr1 : forall x id, In id (ents_at x (pending (prep_drv now nid st dr))) -> id < nid + 1).
  { intros x id Hin. rewrite Hpe in Hin. specialize (Hfr x id Hin). lia. }
  (* the three shapes: a step that may block, a step that does not, log *)
  assert (Hblock : forall D, dl_of now st = D -> now < D ->
    (exp_run now (st :: r) = D :: exp_run D r) ->
    let s := {| deadline := D; sid := nid; handle := Some D |} in
    nid <= nid + 1 /\ acts now dr (register nid D (prep_drv now nid st dr)) /\
    (forall x, ents_at x (pending (register nid D (prep_drv now nid st dr))) =
               ents_at x (pending dr) ++ (if x =? deadline s then [sid s] else [])) /\
    exists st' rest, st :: r = st' :: rest /\ Forall frag_step rest /\
      exp_run now (st :: r) = [] ++ deadline s :: exp_run (deadline s) rest /\
      now < deadline s /\ handle s = Some (deadline s) /\ nid <= sid s /\ sid s < nid + 1).
  { intros D HD Hlt Hexp. cbn zeta. split; [lia|]. split.
    - eapply acts_trans; [exact Hpa|]. apply (acts_one now _ (Register nid D)). exact Hlt.
    - split.
      + intros x. cbn [register set_pending pending deadline sid]. rewrite (ents_at_add _ _ _ _ (mid_sorted _ _ Hm1)), !Hpe.
        destruct (x =? D) eqn:E; [replace x with D by lia; reflexivity|rewrite app_nil_r; reflexivity].
      + exists st, r. cbn [deadline handle sid app]. repeat split; try assumption; lia. }
  assert (Hpass : forall nid' dr', nid <= nid' -> acts now dr dr' -> Mid now dr' ->
     (forall x, ents_at x (pending dr') = ents_at x (pending dr)) ->
     (exp_run now (st :: r) = now :: exp_run now r) ->
     let '(o, b, n, d') := frag_run now nid' r dr' in
     nid <= n /\ acts now dr d' /\
     (forall x, ents_at x (pending d') =
                ents_at x (pending dr) ++ match b with Some (s, _) => if x =? deadline s then [sid s] else [] | None => [] end) /\
     match b with
     | None => exp_run now (st :: r) = now :: o
     | Some (s, l) =>
       exists st' rest, l = st' :: rest /\ Forall frag_step rest /\
         exp_run now (st :: r) = (now :: o) ++ deadline s :: exp_run (deadline s) rest /\
         now < deadline s /\ handle s = Some (deadline s) /\ nid <= sid s /\ sid s < n
     end).
  { intros nid' dr' Hn Ha Hm' He Hexp.
    assert (Hfr' : forall x id, In id (ents_at x (pending dr')) -> id < nid') by (intros x id Hin; rewrite He in Hin; specialize (Hfr x id Hin); lia).
    specialize (IH nid' dr' Hm' Hfr'). destruct (frag_run now nid' r dr') as [[[o b] n] d'].
    destruct IH as (I1 & I2 & I3 & I4). split; [lia|]. split; [exact (acts_trans _ _ _ _ Ha I2)|].
    split; [intros x; rewrite I3, He; reflexivity|].
    destruct b as [[s l]|].
    - destruct I4 as (st' & rest & -> & Hf' & He' & H1 & H2 & H3 & H4). exists st', rest.
      rewrite Hexp, He'. cbn [app]. repeat split; try assumption; lia.
    - rewrite Hexp, I4. reflexivity. }
  destruct st; try contradiction; cbn [frag_run].
  - (* sleep *)
    cbn [dl_of]. destruct (now <? now + d) eqn:E.
    + apply (Hblock (now + d)); [reflexivity|lia|reflexivity].
    + pose proof (Hpass (nid + 1) (prep_drv now nid (SSleep d) dr) ltac:(lia) Hpa Hm1 Hpe) as H.
      cbn [prep_drv] in *. destruct (frag_run now (nid + 1) r dr) as [[[o b] n] d'].
      apply H. cbn [exp_run]. replace (now + d) with now by lia. reflexivity.
  - (* sleep_until *)
    cbn [dl_of]. destruct (now <? t) eqn:E.
    + apply (Hblock t); [reflexivity|lia|]. cbn [exp_run]. replace (N.max now t) with t by lia. reflexivity.
    + pose proof (Hpass (nid + 1) (prep_drv now nid (SSleepUntil t) dr) ltac:(lia) Hpa Hm1 Hpe) as H.
      cbn [prep_drv] in *. destruct (frag_run now (nid + 1) r dr) as [[[o b] n] d'].
      apply H. cbn [exp_run]. replace (N.max now t) with now by lia. reflexivity.
  - (* reset *)
    destruct Hst as [Hd1 Hd2]. cbn [dl_of]. rewrite (dl_fin now d2 Hd2) in *. destruct (now <? now + d2) eqn:E.
    + apply (Hblock (now + d2)); [cbn [dl_of]; apply dl_fin; exact Hd2|lia|reflexivity].
    + pose proof (Hpass (nid + 1) (prep_drv now nid (SReset polled d1 d2) dr) ltac:(lia) Hpa Hm1 Hpe) as H.
      destruct (frag_run now (nid + 1) r (prep_drv now nid (SReset polled d1 d2) dr)) as [[[o b] n] d'].
      apply H. cbn [exp_run]. replace (now + d2) with now by lia. reflexivity.
  - (* drop *)
    pose proof (Hpass (nid + 1) (prep_drv now nid (SDropSleep d) dr) ltac:(lia) Hpa Hm1 Hpe) as H.
    destruct (frag_run now (nid + 1) r (prep_drv now nid (SDropSleep d) dr)) as [[[o b] n] d'].
    apply H. reflexivity.
  - (* log *)
    pose proof (Hpass nid dr ltac:(lia) (acts_refl now dr) Hm (fun x => eq_refl)) as H.
    destruct (frag_run now nid r dr) as [[[o b] n] d']. apply H. reflexivity.
Qed.
