(* The premise every removal-by-id argument rests on: the timer entries of one slot carry
   pairwise distinct ids.  TimerSlot::remove(id) removes the FIRST entry with that id; with
   distinct ids that is exactly the entry of the Sleep that asks for it.  Ids come from the
   global counter SLEEP_ID: every Sleep a task step creates gets a fresh one. *)
From Coq Require Import List NArith Bool Lia ZifyBool.
From DesVerif Require Import CQueue.Spec Timer.Driver Timer.QueueLemmas Timer.Futures Timer.FutureLaws Timer.Model.
Import ListNotations.
Open Scope N_scope.

(* with distinct ids, remove(id) takes out exactly the entry with that id *)
Lemma ents_remove_exact id es es' : NoDup es -> ents_remove id es = Some es' ->
  ~ In id es' /\ NoDup es' /\ forall x, x <> id -> (In x es <-> In x es').
Proof.
  revert es'; induction es as [|a r IH]; intros es' Hnd H; cbn [ents_remove] in H; [discriminate|].
  inversion Hnd as [|? ? Ha Hr]; subst. destruct (a =? id) eqn:E.
  - injection H as <-. assert (a = id) by lia. subst a. split; [exact Ha|]. split; [exact Hr|].
    intros x Hx. split; [intros [E'|Hin]; [contradiction Hx; symmetry; exact E'|exact Hin]|intros Hin; right; exact Hin].
  - destruct (ents_remove id r) as [r'|] eqn:Er; [|discriminate]. injection H as <-.
    destruct (IH r' Hr eq_refl) as (H1 & H2 & H3). split; [intros [E'|Hin]; [lia|exact (H1 Hin)]|]. split.
    + constructor; [|exact H2]. intros Hin. apply Ha. destruct (N.eq_dec a id) as [->|Hne]; [lia|]. apply (H3 a Hne). exact Hin.
    + intros x Hx. split; intros [E'|Hin]; try (left; exact E'); right; apply (H3 x Hx); exact Hin.
Qed.

(* ... and dropping / re-arming a timer leaves every other timer of the slot registered *)
Lemma remove_keeps_others d id p x a : In a (ents_at x p) -> a <> id -> In a (ents_at x (q_remove_at d id p)).
Proof.
  intros Ha Hne. rewrite ents_at_remove. destruct (x =? d) eqn:E; [|exact Ha].
  replace d with x by lia. apply rm_keeps; assumption.
Qed.

(* ---- ids are preserved by the futures and fresh at creation ---- *)
Lemma sleep_reset_sid s d' dr : sid (fst (sleep_reset s d' dr)) = sid s.
Proof. reflexivity. Qed.

Definition v_sids (v : vstate) : list N := match v with VSleep s => [sid s] | VGot s => [sid s] | _ => [] end.

Definition aw_sids (a : aw) : list N :=
  match a with
  | AwSleep s => [sid s]
  | AwTimeout v dl => v_sids v ++ [sid dl]
  | AwSelect _ _ a b => [sid a; sid b]
  | AwSelRecv _ _ s => [sid s]
  | AwKeep _ _ s sx => [sid s; sid sx]
  | AwThen _ s => [sid s]
  | AwHeld _ s => [sid s]
  | AwTick | AwRecv _ | AwRelay _ _ _ => []
  end.

(* every Sleep that a step creates and goes on to await has an id drawn in this step: at least
   the counter's value before, below its value after, all different *)
Lemma start_step0_fresh now s iv dr nid lg :
  let r := start_step0 now s iv dr nid lg in
  nid <= snd (fst r) /\
  match fst (fst (fst (fst r))) with
  | Some a => NoDup (aw_sids a) /\ forall i, In i (aw_sids a) -> nid <= i /\ i < snd (fst r)
  | None => True
  end.
Proof.
  cbn zeta. destruct s as [d|t|d v|biased a b|p b| | |polled d1 d2|d| |ch d|ch|d ch|rf ch d|rearm d0 d2 x d3|wf d|wr chi cho]; cbn [start_step0 fst snd].
  - split; [lia|]. cbn [aw_sids sleep_new sid]. split; [repeat constructor; intros []|intros i [<-|[]]; lia].
  - split; [lia|]. cbn [aw_sids sleep_new sid]. split; [repeat constructor; intros []|intros i [<-|[]]; lia].
  - destruct v; cbn [fst snd aw_sids v_sids sleep_new sid app].
    + split; [lia|]. split; [repeat constructor; [intros [E|[]]; lia|intros []]|intros i [<-|[<-|[]]]; lia].
    + split; [lia|]. split; [repeat constructor; intros []|intros i [<-|[]]; lia].
  - split; [lia|]. cbn [aw_sids sleep_new sid]. split; [repeat constructor; [intros [E|[]]; lia|intros []]|intros i [<-|[<-|[]]]; lia].
  - split; [lia|exact I].
  - split; [lia|]. cbn [aw_sids]. split; [constructor|intros i []].
  - split; [lia|exact I].
  - assert (Hs : forall s1 dr1, (if polled then let '(_, s1, dr1) := sleep_poll now (sleep_new (dl now d1) nid) dr in (s1, dr1)
                                 else (sleep_new (dl now d1) nid, dr)) = (s1, dr1) -> sid s1 = nid).
    { intros s1 dr1. destruct polled.
      - pose proof (sleep_poll_sid now (sleep_new (dl now d1) nid) dr) as Hsid.
        destruct (sleep_poll now (sleep_new (dl now d1) nid) dr) as [[r s1'] dr1']. cbn [fst snd] in Hsid. intros H; injection H as <- _. exact Hsid.
      - intros H; injection H as <- _. reflexivity. }
    destruct (if polled then let '(_, s1, dr1) := sleep_poll now (sleep_new (dl now d1) nid) dr in (s1, dr1)
              else (sleep_new (dl now d1) nid, dr)) as [s1 dr1]. specialize (Hs s1 dr1 eq_refl).
    cbn [sleep_reset fst snd aw_sids sid]. split; [lia|]. rewrite Hs. split; [repeat constructor; intros []|intros i [<-|[]]; lia].
  - destruct (sleep_poll now (sleep_new (dl now d) nid) dr) as [[r s1] dr1]. cbn [fst snd]. split; [lia|exact I].
  - split; [lia|exact I].
  - split; [lia|exact I].
  - split; [lia|]. cbn [aw_sids]. split; [constructor|intros i []].
  - split; [lia|]. cbn [aw_sids v_sids sleep_new sid app]. split; [repeat constructor; intros []|intros i [<-|[]]; lia].
  - split; [lia|]. cbn [aw_sids sleep_new sid]. split; [repeat constructor; intros []|intros i [<-|[]]; lia].
  - pose proof (sleep_poll_sid now (sleep_new (dl now d0) nid) dr) as Hsid.
    destruct (sleep_poll now (sleep_new (dl now d0) nid) dr) as [[r s1] dr1]. cbn [fst snd sleep_new sid] in Hsid.
    cbn [sleep_reset fst snd aw_sids sleep_new sid]. rewrite Hsid. split; [lia|].
    split; [repeat constructor; [intros [E|[]]; lia|intros []]|intros i [<-|[<-|[]]]; lia].
  - pose proof (sleep_poll_sid now (sleep_new (dl now d) nid) dr) as Hsid.
    destruct (sleep_poll now (sleep_new (dl now d) nid) dr) as [[r s1] dr1]. cbn [fst snd sleep_new sid] in Hsid.
    cbn [fst snd aw_sids]. rewrite Hsid. split; [lia|]. split; [repeat constructor; intros []|intros i [<-|[]]; lia].  - split; [lia|exact I].
Qed.
