(* Link between the composite model (coq/Timer/Model.v) and the driver theorems: whatever the
   scripted tasks of a module do during one event, the module's driver goes through exactly an
   [event_body] of coq/Timer/Driver.v with a contract-respecting operation list, and the
   other module's driver is not touched.  (What is NOT proved about the composite: that the
   event set serves events in time order for it -- C01's subject -- and that the task logs are
   what the property demands; the correspondence check validates those.) *)
From Coq Require Import List NArith Bool Lia ZifyBool.
From DesVerif Require Import CQueue.Model CQueue.Spec Timer.Driver Timer.QueueLemmas Timer.Inv Timer.Futures
  Timer.FutureLaws Timer.Model.
Import ListNotations.
Open Scope N_scope.

Lemma vpoll_acts now v dr : acts now dr (snd (vpoll now v dr)).
Proof.
  destruct v as [s|p|ch|s]; cbn [vpoll]; try apply acts_refl.
  pose proof (sleep_poll_acts now s dr) as H. destruct (sleep_poll now s dr) as [[r s'] dr']. exact H.
Qed.

Lemma vpoll_m_acts m now vm dr : acts now dr (snd (vpoll_m m now vm dr)).
Proof.
  unfold vpoll_m. destruct (fst vm) as [s|p|ch|s] eqn:E.
  - pose proof (vpoll_acts now (VSleep s) dr) as H. destruct (vpoll now (VSleep s) dr) as [[r v'] dr']. exact H.
  - pose proof (vpoll_acts now (VFlip p) dr) as H. destruct (vpoll now (VFlip p) dr) as [[r v'] dr']. exact H.
  - destruct (mail_take m ch (snd vm)) as [[s mail']|]; apply acts_refl.
  - pose proof (vpoll_acts now (VGot s) dr) as H. destruct (vpoll now (VGot s) dr) as [[r v'] dr']. exact H.
Qed.

Lemma vdrop_acts now v dr : acts now dr (vdrop v dr).
Proof. destruct v as [s|p|ch|s]; cbn [vdrop]; try apply sleep_drop_acts; apply acts_refl. Qed.

Lemma iv_drop_acts now iv dr : acts now dr (iv_drop iv dr).
Proof. destruct iv as [i|]; cbn [iv_drop]; [apply sleep_drop_acts|apply acts_refl]. Qed.

Lemma drops_acts now a b dr : acts now dr (sleep_drop b (sleep_drop a dr)).
Proof. eapply acts_trans; [apply sleep_drop_acts|apply sleep_drop_acts]. Qed.

Lemma poll_aw0_acts now a iv dr : acts now dr (snd (fst (poll_aw0 now a iv dr))).
Proof.
  destruct a as [s|v dl|biased tie a b| |ch|tr s|rf ch s|rearm d3 s sx|pre s|kr chi cho]; cbn [poll_aw0].
  - pose proof (sleep_poll_acts now s dr) as H. destruct (sleep_poll now s dr) as [[r s'] dr']. exact H.
  - pose proof (timeout_poll_acts _ vpoll now v dl dr (fun v0 dr0 => vpoll_acts now v0 dr0)) as H.
    destruct (timeout_poll vpoll now v dl dr) as [[[res v'] dl'] dr']. cbn [snd] in H.
    destruct res; cbn [fst snd]; [exact H| |];
      (eapply acts_trans; [exact H|]; eapply acts_trans; [apply vdrop_acts|apply sleep_drop_acts]).
  - pose proof (sleep_poll_acts now a dr) as H1. destruct (sleep_poll now a dr) as [[ra a'] dr1]. cbn [snd] in H1.
    destruct ra; cbn [fst snd].
    + eapply acts_trans; [exact H1|apply drops_acts].
    + pose proof (sleep_poll_acts now b dr1) as H2. destruct (sleep_poll now b dr1) as [[rb b'] dr2]. cbn [snd] in H2.
      destruct rb; cbn [fst snd].
      * eapply acts_trans; [exact H1|]. eapply acts_trans; [exact H2|apply drops_acts].
      * eapply acts_trans; [exact H1|exact H2].
  - destruct iv as [i|]; [|apply acts_refl].
    pose proof (poll_tick_acts now i dr) as H. destruct (poll_tick now i dr) as [[res i'] dr']. exact H.
  - apply acts_refl.
  - pose proof (sleep_poll_acts now s dr) as H. destruct (sleep_poll now s dr) as [[r s'] dr']. exact H.
  - apply acts_refl.
  - pose proof (sleep_poll_acts now s dr) as H1. destruct (sleep_poll now s dr) as [[r s'] dr1]. cbn [snd] in H1.
    destruct r; cbn [fst snd].
    + eapply acts_trans; [exact H1|apply drops_acts].
    + pose proof (sleep_poll_acts now sx dr1) as H2. destruct (sleep_poll now sx dr1) as [[rx sx'] dr2]. cbn [snd] in H2.
      destruct rx; cbn [fst snd]; [|exact (acts_trans _ _ _ _ H1 H2)].
      destruct rearm; cbn [fst snd].
      * pose proof (sleep_drop_acts now sx' dr2) as H3.
        pose proof (sleep_reset_acts now s' (dl now d3) (sleep_drop sx' dr2)) as H4.
        destruct (sleep_reset s' (dl now d3) (sleep_drop sx' dr2)) as [s3 dr3]. cbn [snd] in H4.
        pose proof (sleep_poll_acts now s3 dr3) as H5. destruct (sleep_poll now s3 dr3) as [[r4 s4] dr4]. cbn [snd] in H5.
        assert (H : acts now dr dr4).
        { eapply acts_trans; [exact H1|]. eapply acts_trans; [exact H2|]. eapply acts_trans; [exact H3|]. eapply acts_trans; [exact H4|exact H5]. }
        destruct r4; cbn [fst snd]; exact H.
      * eapply acts_trans; [exact H1|]. eapply acts_trans; [exact H2|apply drops_acts].
  - pose proof (sleep_poll_acts now s dr) as H. destruct (sleep_poll now s dr) as [[r s'] dr']. exact H.
  - apply acts_refl.
Qed.

Lemma poll_aw_acts now m a iv dr mail : acts now dr (snd (fst (fst (poll_aw now m a iv dr mail)))).
Proof.
  destruct a as [s|v dl|biased tie a b| |ch|tr s|rf ch s|rearm d3 s sx|pre s|kr chi cho]; cbn [poll_aw fst]; try apply poll_aw0_acts.
  - pose proof (timeout_poll_acts _ (vpoll_m m) now (v, mail) dl dr (fun v0 dr0 => vpoll_m_acts m now v0 dr0)) as H.
    destruct (timeout_poll (vpoll_m m) now (v, mail) dl dr) as [[[res vm'] dl'] dr']. cbn [snd] in H.
    destruct res; cbn [fst snd]; [exact H| |];
      (eapply acts_trans; [exact H|]; eapply acts_trans; [apply vdrop_acts|apply sleep_drop_acts]).
  - destruct (mail_take m ch mail) as [[s mail']|]; cbn [fst snd]; [apply poll_aw0_acts|apply acts_refl].
  - destruct rf.
    + destruct (mail_take m ch mail) as [[x mail']|]; cbn [fst snd]; [apply drops_acts|].
      pose proof (sleep_poll_acts now s dr) as H. destruct (sleep_poll now s dr) as [[r s'] dr']. cbn [snd] in H.
      destruct r; cbn [fst snd]; [|exact H]. eapply acts_trans; [exact H|apply sleep_drop_acts].
    + pose proof (sleep_poll_acts now s dr) as H. destruct (sleep_poll now s dr) as [[r s'] dr']. cbn [snd] in H.
      destruct r; cbn [fst snd]; [eapply acts_trans; [exact H|apply sleep_drop_acts]|].
      destruct (mail_take m ch mail) as [[x mail']|]; cbn [fst snd]; [|exact H].
      eapply acts_trans; [exact H|apply drops_acts].
  - destruct (mail_take m chi mail) as [[s mail']|]; cbn [fst snd]; [|apply acts_refl].
    pose proof (sleep_poll_acts now s dr) as H. destruct (sleep_poll now s dr) as [[r s'] dr']. exact H.
Qed.

Lemma start_step0_acts now s iv dr nid lg : acts now dr (snd (fst (fst (start_step0 now s iv dr nid lg)))).
Proof.
  destruct s as [d|t|d v|biased a b|p b| | |polled d1 d2|d| |ch d|ch|d ch|rf ch d|rearm d0 d2 x d3|wf d|wr chi cho]; cbn [start_step0]; try apply acts_refl.
  - destruct v; apply acts_refl.
  - apply iv_drop_acts.
  - apply iv_drop_acts.
  - set (s0 := sleep_new (dl now d1) nid).
    assert (H1 : acts now dr (snd (if polled then let '(_, s1, dr1) := sleep_poll now s0 dr in (s1, dr1) else (s0, dr)))).
    { destruct polled; [|apply acts_refl].
      pose proof (sleep_poll_acts now s0 dr) as H. destruct (sleep_poll now s0 dr) as [[r s1] dr1]. exact H. }
    destruct (if polled then let '(_, s1, dr1) := sleep_poll now s0 dr in (s1, dr1) else (s0, dr)) as [s1 dr1].
    cbn [snd] in H1.
    pose proof (sleep_reset_acts now s1 (dl now d2) dr1) as H2.
    destruct (sleep_reset s1 (dl now d2) dr1) as [s2 dr2]. cbn [fst snd] in *.
    exact (acts_trans _ _ _ _ H1 H2).
  - pose proof (sleep_poll_acts now (sleep_new (dl now d) nid) dr) as H.
    destruct (sleep_poll now (sleep_new (dl now d) nid) dr) as [[r s1] dr1]. cbn [fst snd] in *.
    eapply acts_trans; [exact H|apply sleep_drop_acts].
  - pose proof (sleep_poll_acts now (sleep_new (dl now d0) nid) dr) as H1.
    destruct (sleep_poll now (sleep_new (dl now d0) nid) dr) as [[r s1] dr1]. cbn [snd] in H1.
    pose proof (sleep_reset_acts now s1 (dl now d2) dr1) as H2.
    destruct (sleep_reset s1 (dl now d2) dr1) as [s2 dr2]. cbn [fst snd] in *.
    exact (acts_trans _ _ _ _ H1 H2).
  - pose proof (sleep_poll_acts now (sleep_new (dl now d) nid) dr) as H.
    destruct (sleep_poll now (sleep_new (dl now d) nid) dr) as [[r s1] dr1]. cbn [fst snd] in *. exact H.
Qed.

Lemma start_step_acts now m k s iv dr nid lg mail :
  acts now dr (snd (fst (fst (fst (start_step now m k s iv dr nid lg mail))))).
Proof.
  destruct s as [d|t|d v|biased a b|p b| | |polled d1 d2|d| |ch d|ch|d ch|rf ch d|rearm d0 d2 x d3|wf d0|wr chi cho]; cbn [start_step fst]; try apply start_step0_acts; try apply acts_refl.
  pose proof (sleep_poll_acts now (sleep_new (now + d) nid) dr) as H.
  destruct (sleep_poll now (sleep_new (now + d) nid) dr) as [[r s1] dr1]. cbn [fst snd] in *. exact H.
Qed.

Definition rs_drv {A B C D E F G} (x : A * B * C * driver * D * E * F * G) : driver := snd (fst (fst (fst (fst x)))).

Lemma run_steps_acts now m k steps : forall cur iv dr nid lg mail,
  acts now dr (rs_drv (run_steps now m k steps cur iv dr nid lg mail)).
Proof.
  induction steps as [|s rest IH]; intros cur iv dr nid lg mail; cbn [run_steps].
  - unfold rs_drv. cbn [fst snd]. apply iv_drop_acts.
  - assert (H0 : acts now dr (snd (fst (fst (fst
        match cur with
        | Some a => (Some a, iv, dr, nid, lg, mail)
        | None => start_step now m k s iv dr nid lg mail
        end))))).
    { destruct cur; [apply acts_refl|apply start_step_acts]. }
    destruct (match cur with
              | Some a => (Some a, iv, dr, nid, lg, mail)
              | None => start_step now m k s iv dr nid lg mail
              end) as [[[[[a iv1] dr1] nid1] lg1] mail1]. cbn [fst snd] in H0.
    destruct a as [a|].
    + pose proof (poll_aw_acts now m a iv1 dr1 mail1) as H1.
      destruct (poll_aw now m a iv1 dr1 mail1) as [[[[[res a'] iv2] dr2] sw] mail2]. cbn [fst snd] in H1.
      destruct res as [r|].
      * eapply acts_trans; [exact H0|]. eapply acts_trans; [exact H1|apply IH].
      * unfold rs_drv. cbn [fst snd]. exact (acts_trans _ _ _ _ H0 H1).
    + eapply acts_trans; [exact H0|apply IH].
Qed.

(* ---- plumbing of the world record ---- *)
Lemma drv_of_set_same w m dr : drv_of (set_drv w m dr) m = dr.
Proof. unfold drv_of, set_drv. destruct (m =? 0); reflexivity. Qed.

Lemma drv_of_set_other w m m' dr : (m' =? 0) <> (m =? 0) -> drv_of (set_drv w m dr) m' = drv_of w m'.
Proof. unfold drv_of, set_drv. destruct (m =? 0), (m' =? 0); intros H; try reflexivity; contradiction H; reflexivity. Qed.

Lemma poll_task_drv wfix now m k w :
  acts now (drv_of w m) (drv_of (fst (poll_task wfix now m k w)) m) /\
  forall m', (m' =? 0) <> (m =? 0) -> drv_of (fst (poll_task wfix now m k w)) m' = drv_of w m'.
Proof.
  unfold poll_task. destruct (nth_error (w_tasks w) k) as [tk|]; [|split; [apply acts_refl|reflexivity]].
  destruct (t_fin tk); [split; [apply acts_refl|reflexivity]|].
  pose proof (run_steps_acts now m k (t_steps tk) (t_cur tk) (t_iv tk) (drv_of w m) (w_nid w) (t_log tk) (w_mail w)) as H.
  destruct (run_steps now m k (t_steps tk) (t_cur tk) (t_iv tk) (drv_of w m) (w_nid w) (t_log tk) (w_mail w))
    as [[[[[[[steps cur] iv] dr] nid] lg] sw] mail]. unfold rs_drv in H. cbn [fst snd] in *.
  split.
  - lazymatch goal with |- acts _ _ (drv_of ?W _) => change (drv_of W m) with (drv_of (set_drv w m dr) m) end.
    rewrite drv_of_set_same. exact H.
  - intros m' Hne.
    lazymatch goal with |- drv_of ?W _ = _ => change (drv_of W m') with (drv_of (set_drv w m dr) m') end.
    exact (drv_of_set_other w m m' dr Hne).
Qed.

Lemma run_queue_drv wfix fuel now m : forall q w,
  acts now (drv_of w m) (drv_of (run_queue wfix fuel now m q w) m) /\
  forall m', (m' =? 0) <> (m =? 0) -> drv_of (run_queue wfix fuel now m q w) m' = drv_of w m'.
Proof.
  induction fuel as [|f IH]; intros q w; cbn [run_queue]; [split; [apply acts_refl|reflexivity]|].
  destruct q as [|k r]; [split; [apply acts_refl|reflexivity]|].
  destruct (poll_task_drv wfix now m k w) as [H1 H2].
  destruct (poll_task wfix now m k w) as [w' sw]. cbn [fst] in *.
  set (r1 := enqueue r (ready_receivers m (w_mail w') 0 (w_tasks w'))).
  destruct (IH (if sw then enqueue r1 [k] else r1) w') as [H3 H4]. split.
  - exact (acts_trans _ _ _ _ H1 H3).
  - intros m' Hne. rewrite (H4 m' Hne). exact (H2 m' Hne).
Qed.

(* ---- one event of the composite = one event of the driver theory ---- *)
Theorem module_event_is_driver_event wfix t m spawn fire w :
  (exists ops, ops_wf t ops /\
     drv_of (module_event wfix t m spawn fire w) m =
     snd (event_body true t ops (if fire then sched_fire t (drv_of w m) else drv_of w m))) /\
  forall m', (m' =? 0) <> (m =? 0) -> drv_of (module_event wfix t m spawn fire w) m' = drv_of w m'.
Proof.
  unfold module_event, event_body.
  set (dr0 := if fire then sched_fire t (drv_of w m) else drv_of w m).
  destruct (activate t dr0) as [woken dr1].
  set (q := dedup (flat_map (owner_of (w_owner w)) (flat_map snd woken) ++ spawn)).
  set (w1 := set_drv w m dr1).
  destruct (run_queue_drv wfix (queue_fuel w1 q) t m q w1) as [H1 H2].
  set (w2 := run_queue wfix (queue_fuel w1 q) t m q w1) in *.
  destruct H1 as (ops & Hwf & Heq). unfold w1 in Heq at 1. rewrite drv_of_set_same in Heq.
  split.
  - exists ops. split; [exact Hwf|]. rewrite <- Heq.
    destruct (deactivate true (drv_of w2 m)) as [dr3 wk]. cbn [snd fst].
    lazymatch goal with |- drv_of ?W _ = _ => change (drv_of W m) with (drv_of (set_drv w2 m dr3) m) end.
    apply drv_of_set_same.
  - intros m' Hne. destruct (deactivate true (drv_of w2 m)) as [dr3 wk].
    lazymatch goal with |- drv_of ?W _ = _ => change (drv_of W m') with (drv_of (set_drv w2 m dr3) m') end.
    rewrite (drv_of_set_other _ _ _ _ Hne). rewrite (H2 m' Hne). unfold w1. exact (drv_of_set_other _ _ _ _ Hne).
Qed.

(* hence every event of the composite re-establishes the wake-up invariant of its module *)
Corollary module_event_inv wfix t m spawn (fire : bool) w :
  Pre t (if fire then sched_fire t (drv_of w m) else drv_of w m) ->
  Inv t (drv_of (module_event wfix t m spawn fire w) m).
Proof.
  intros Hpre. destruct (module_event_is_driver_event wfix t m spawn fire w) as [(ops & Hwf & ->) _].
  apply event_body_inv; assumption.
Qed.
