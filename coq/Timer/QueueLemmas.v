(* Facts about the slot queue of coq/Timer/Driver.v: order of slot times, the entries
   found under a deadline, what add / remove / reset / bump / next do to them. *)
From Coq Require Import List NArith Bool Lia Sorting.Sorted ZifyBool.
From DesVerif Require Import Timer.Driver.
Import ListNotations.
Open Scope N_scope.

(* slot times strictly increasing *)
Definition sorted (p : list slot) : Prop := StronglySorted N.lt (map fst p).

(* the entries registered under deadline x *)
Fixpoint ents_at (x : N) (p : list slot) : list N :=
  match p with
  | [] => []
  | (t, es) :: r => if t =? x then es else ents_at x r
  end.

Definition rm (id : N) (es : list N) : list N :=
  match ents_remove id es with Some e => e | None => es end.

(* ---- entry lists ---- *)
Lemma ents_remove_in id es es' a : ents_remove id es = Some es' -> In a es' -> In a es.
Proof.
  revert es'; induction es as [|x r IH]; intros es' H Ha; cbn [ents_remove] in H; [discriminate|].
  destruct (x =? id) eqn:E.
  - injection H as <-. right; exact Ha.
  - destruct (ents_remove id r) as [r'|] eqn:Er; [|discriminate]. injection H as <-.
    destruct Ha as [->|Ha]; [left; reflexivity|right; eapply IH; [reflexivity|exact Ha]].
Qed.

Lemma ents_remove_keeps id es es' a : ents_remove id es = Some es' -> In a es -> a <> id -> In a es'.
Proof.
  revert es'; induction es as [|x r IH]; intros es' H Ha Hne; cbn [ents_remove] in H; [discriminate|].
  destruct (x =? id) eqn:E.
  - injection H as <-. destruct Ha as [->|Ha]; [|exact Ha]. apply N.eqb_eq in E. contradiction.
  - destruct (ents_remove id r) as [r'|] eqn:Er; [|discriminate]. injection H as <-.
    destruct Ha as [->|Ha]; [left; reflexivity|right; apply IH; [reflexivity|exact Ha|exact Hne]].
Qed.

Lemma rm_in id es a : In a (rm id es) -> In a es.
Proof.
  unfold rm. destruct (ents_remove id es) as [e|] eqn:E; [|exact (fun H => H)].
  apply ents_remove_in with (1 := E).
Qed.

Lemma rm_keeps id es a : In a es -> a <> id -> In a (rm id es).
Proof.
  unfold rm. intros Ha Hne. destruct (ents_remove id es) as [e|] eqn:E; [|exact Ha].
  eapply ents_remove_keeps; eassumption.
Qed.

Lemma rm_nil id : rm id [] = [].
Proof. reflexivity. Qed.

Lemma rm_single id : rm id [id] = [].
Proof. unfold rm. cbn [ents_remove]. rewrite N.eqb_refl. reflexivity. Qed.

Lemma rm_nonempty id es : rm id es <> [] -> es <> [].
Proof. intros H ->. apply H. reflexivity. Qed.

(* ---- slot times ---- *)
Fixpoint tins (d : N) (l : list N) : list N :=
  match l with
  | [] => [d]
  | t :: r => if d <? t then d :: t :: r else if d =? t then t :: r else t :: tins d r
  end.

Lemma tins_Forall (P : N -> Prop) d l : Forall P l -> P d -> Forall P (tins d l).
Proof.
  intros Hl Hd. induction Hl as [|t r Ht Hr IH]; cbn [tins].
  - constructor; [exact Hd|constructor].
  - destruct (d <? t); [constructor; [exact Hd|constructor; assumption]|].
    destruct (d =? t); constructor; assumption.
Qed.

Lemma tins_sorted d l : StronglySorted N.lt l -> StronglySorted N.lt (tins d l).
Proof.
  intros Hs. induction Hs as [|t r Hs IH Hall]; cbn [tins].
  - constructor; constructor.
  - destruct (d <? t) eqn:E1.
    + constructor; [constructor; assumption|].
      constructor; [lia|]. eapply Forall_impl; [|exact Hall]. cbn beta. intros a Ha. lia.
    + destruct (d =? t) eqn:E2; [constructor; assumption|].
      constructor; [exact IH|]. apply tins_Forall; [exact Hall|lia].
Qed.

Lemma q_add_fst id d p : map fst (q_add id d p) = tins d (map fst p).
Proof.
  induction p as [|[t es] r IH]; cbn [q_add map fst tins]; [reflexivity|].
  destruct (d <? t); [reflexivity|]. destruct (d =? t); [reflexivity|].
  cbn [map fst]. rewrite IH. reflexivity.
Qed.

Lemma q_take_at_fst d id p p' : q_take_at d id p = Some p' -> map fst p' = map fst p.
Proof.
  revert p'; induction p as [|[t es] r IH]; intros p' H; cbn [q_take_at] in H; [discriminate|].
  destruct (t =? d).
  - destruct (ents_remove id es); [|discriminate]. injection H as <-. reflexivity.
  - destruct (q_take_at d id r) as [r'|]; [|discriminate]. injection H as <-.
    cbn [map fst]. rewrite (IH r' eq_refl). reflexivity.
Qed.

Lemma q_remove_at_fst d id p : map fst (q_remove_at d id p) = map fst p.
Proof.
  unfold q_remove_at. destruct (q_take_at d id p) as [p'|] eqn:E; [|reflexivity].
  exact (q_take_at_fst _ _ _ _ E).
Qed.

Lemma q_add_sorted id d p : sorted p -> sorted (q_add id d p).
Proof. unfold sorted. rewrite q_add_fst. apply tins_sorted. Qed.

Lemma q_remove_at_sorted d id p : sorted p -> sorted (q_remove_at d id p).
Proof. unfold sorted. rewrite q_remove_at_fst. exact (fun H => H). Qed.

Lemma q_take_at_sorted d id p p' : q_take_at d id p = Some p' -> sorted p -> sorted p'.
Proof. unfold sorted. intros H. rewrite (q_take_at_fst _ _ _ _ H). exact (fun H => H). Qed.

Lemma sorted_tail s p : sorted (s :: p) -> sorted p.
Proof. unfold sorted. cbn [map]. intros H. inversion H; assumption. Qed.

Lemma sorted_head_lt s p q : sorted (s :: p) -> In q p -> fst s < fst q.
Proof.
  unfold sorted. cbn [map]. intros H Hq. inversion H as [|? ? _ Hall]; subst.
  rewrite Forall_forall in Hall. apply Hall. apply in_map. exact Hq.
Qed.

Lemma sorted_app_r w rest : sorted (w ++ rest) -> sorted rest.
Proof.
  induction w as [|s w IH]; cbn [app]; [exact (fun H => H)|].
  intros H. apply IH. exact (sorted_tail _ _ H).
Qed.

(* ---- entries under a deadline ---- *)
Lemma ents_at_none x p : (forall s, In s p -> fst s <> x) -> ents_at x p = [].
Proof.
  induction p as [|[t es] r IH]; intros H; cbn [ents_at]; [reflexivity|].
  destruct (t =? x) eqn:E.
  - exfalso. apply (H (t, es)); [left; reflexivity|]. cbn [fst]. lia.
  - apply IH. intros s Hs. apply H. right; exact Hs.
Qed.

Lemma ents_at_in x p : ents_at x p <> [] -> In (x, ents_at x p) p.
Proof.
  induction p as [|[t es] r IH]; cbn [ents_at]; [intros H; contradiction|].
  destruct (t =? x) eqn:E; intros H.
  - left. f_equal. lia.
  - right. apply IH. exact H.
Qed.

Lemma in_ents_at d es p : sorted p -> In (d, es) p -> ents_at d p = es.
Proof.
  induction p as [|[t es0] r IH]; intros Hs Hin; [contradiction|]. cbn [ents_at].
  destruct Hin as [Heq|Hin].
  - injection Heq as -> ->. rewrite N.eqb_refl. reflexivity.
  - pose proof (sorted_head_lt _ _ _ Hs Hin) as Hlt. cbn [fst] in Hlt.
    destruct (t =? d) eqn:E; [lia|]. apply IH; [exact (sorted_tail _ _ Hs)|exact Hin].
Qed.

Lemma ents_at_app_r x w rest : (forall s, In s w -> fst s <> x) -> ents_at x (w ++ rest) = ents_at x rest.
Proof.
  induction w as [|[t es] w IH]; intros H; cbn [app ents_at]; [reflexivity|].
  destruct (t =? x) eqn:E.
  - exfalso. apply (H (t, es)); [left; reflexivity|]. cbn [fst]. lia.
  - apply IH. intros s Hs. apply H. right; exact Hs.
Qed.

Lemma ents_at_take d id p p' x : q_take_at d id p = Some p' ->
  ents_at x p' = if x =? d then rm id (ents_at d p) else ents_at x p.
Proof.
  revert p'; induction p as [|[t es] r IH]; intros p' H; cbn [q_take_at] in H; [discriminate|].
  destruct (t =? d) eqn:Etd.
  - destruct (ents_remove id es) as [es'|] eqn:Er; [|discriminate]. injection H as <-.
    cbn [ents_at]. rewrite Etd. unfold rm. rewrite Er.
    destruct (x =? d) eqn:Exd.
    + replace (t =? x) with true by lia. reflexivity.
    + replace (t =? x) with false by lia. reflexivity.
  - destruct (q_take_at d id r) as [r'|] eqn:Er; [|discriminate]. injection H as <-.
    cbn [ents_at]. rewrite Etd. rewrite (IH r' eq_refl).
    destruct (t =? x) eqn:Etx; [|reflexivity].
    replace (x =? d) with false by lia. reflexivity.
Qed.

Lemma q_take_at_none d id p : q_take_at d id p = None -> ents_remove id (ents_at d p) = None.
Proof.
  induction p as [|[t es] r IH]; intros H; cbn [q_take_at] in H; cbn [ents_at]; [reflexivity|].
  destruct (t =? d).
  - destruct (ents_remove id es); [discriminate|reflexivity].
  - destruct (q_take_at d id r); [discriminate|]. apply IH. reflexivity.
Qed.

Lemma ents_at_remove d id p x :
  ents_at x (q_remove_at d id p) = if x =? d then rm id (ents_at d p) else ents_at x p.
Proof.
  unfold q_remove_at. destruct (q_take_at d id p) as [p'|] eqn:E.
  - exact (ents_at_take _ _ _ _ _ E).
  - destruct (x =? d) eqn:Exd; [|reflexivity].
    unfold rm. rewrite (q_take_at_none _ _ _ E). f_equal. lia.
Qed.

Lemma ents_remove_some id es es' : ents_remove id es = Some es' -> In id es.
Proof.
  revert es'; induction es as [|a es IH]; intros es' H; cbn [ents_remove] in H; [discriminate|].
  destruct (a =? id) eqn:Ea; [left; lia|].
  destruct (ents_remove id es) as [e|]; [|discriminate]. right. eapply IH. reflexivity.
Qed.

Lemma q_take_at_some d id p p' : q_take_at d id p = Some p' -> In id (ents_at d p).
Proof.
  revert p'; induction p as [|[t es] r IH]; intros p' H; cbn [q_take_at] in H; cbn [ents_at]; [discriminate|].
  destruct (t =? d).
  - destruct (ents_remove id es) as [es'|] eqn:Er; [|discriminate]. exact (ents_remove_some _ _ _ Er).
  - destruct (q_take_at d id r) as [r'|]; [|discriminate]. eapply IH. reflexivity.
Qed.

Lemma ents_at_add id d p x : sorted p ->
  ents_at x (q_add id d p) = if x =? d then ents_at d p ++ [id] else ents_at x p.
Proof.
  induction p as [|[t es] r IH]; intros Hs; cbn [q_add].
  - cbn [ents_at]. destruct (x =? d) eqn:E.
    + replace (d =? x) with true by lia. reflexivity.
    + replace (d =? x) with false by lia. reflexivity.
  - destruct (d <? t) eqn:E1.
    + cbn [ents_at]. destruct (x =? d) eqn:E.
      * replace (d =? x) with true by lia. replace (t =? d) with false by lia.
        rewrite ents_at_none; [reflexivity|]. intros s Hin.
        pose proof (sorted_head_lt _ _ _ Hs Hin) as Hlt. cbn [fst] in Hlt. lia.
      * replace (d =? x) with false by lia. reflexivity.
    + destruct (d =? t) eqn:E2.
      * cbn [ents_at]. destruct (x =? d) eqn:E.
        -- replace (t =? x) with true by lia. replace (t =? d) with true by lia. reflexivity.
        -- replace (t =? x) with false by lia. reflexivity.
      * cbn [ents_at]. rewrite (IH (sorted_tail _ _ Hs)).
        destruct (t =? x) eqn:Etx.
        -- replace (x =? d) with false by lia. reflexivity.
        -- destruct (x =? d) eqn:E; [|reflexivity]. replace (t =? d) with false by lia. reflexivity.
Qed.

(* ---- bump ---- *)
Lemma q_bump_spec now p w rest : q_bump now p = (w, rest) ->
  p = w ++ rest /\ Forall (fun s => fst s <= now) w /\ match rest with [] => True | s :: _ => now < fst s end.
Proof.
  revert w rest; induction p as [|[t es] r IH]; intros w rest H; cbn [q_bump] in H.
  - injection H as <- <-. repeat split. constructor.
  - destruct (t <=? now) eqn:E.
    + destruct (q_bump now r) as [w' rest'] eqn:Eb. injection H as <- <-.
      destruct (IH w' rest' eq_refl) as (H1 & H2 & H3).
      split; [cbn [app]; f_equal; exact H1|]. split; [|exact H3].
      constructor; [cbn [fst]; lia|exact H2].
    + injection H as <- <-. split; [reflexivity|]. split; [constructor|]. cbn [fst]. lia.
Qed.

Lemma q_bump_rest_future now p w rest : sorted p -> q_bump now p = (w, rest) ->
  forall s, In s rest -> now < fst s.
Proof.
  intros Hs H s Hin. destruct (q_bump_spec _ _ _ _ H) as (Hp & _ & Hh). subst p.
  pose proof (sorted_app_r _ _ Hs) as Hr.
  destruct rest as [|s0 rest]; [contradiction|].
  destruct Hin as [<-|Hin]; [exact Hh|].
  pose proof (sorted_head_lt _ _ _ Hr Hin). lia.
Qed.

(* ---- next ---- *)
Lemma prune_spec p : exists pre, p = pre ++ prune p /\ Forall (fun s => snd s = []) pre.
Proof.
  induction p as [|[t es] r IH]; [exists []; split; [reflexivity|constructor]|].
  destruct es as [|e es].
  - destruct IH as (pre & H1 & H2). exists ((t, []) :: pre). cbn [prune app].
    split; [f_equal; exact H1|]. constructor; [reflexivity|exact H2].
  - exists []. split; [reflexivity|constructor].
Qed.

Lemma prune_head_live p t es r : prune p = (t, es) :: r -> es <> [].
Proof.
  induction p as [|[t0 es0] r0 IH]; cbn [prune]; [discriminate|].
  destruct es0 as [|e es0]; [exact IH|]. intros H. injection H as <- <- <-. discriminate.
Qed.

Lemma prune_sorted p : sorted p -> sorted (prune p).
Proof.
  intros Hs. destruct (prune_spec p) as (pre & H & _). rewrite H in Hs. exact (sorted_app_r _ _ Hs).
Qed.

Lemma prune_keeps_live p d es : In (d, es) p -> es <> [] -> In (d, es) (prune p).
Proof.
  intros Hin Hne. destruct (prune_spec p) as (pre & H & Hall). rewrite H in Hin.
  apply in_app_or in Hin. destruct Hin as [Hin|Hin]; [|exact Hin].
  rewrite Forall_forall in Hall. specialize (Hall _ Hin). cbn [snd] in Hall. contradiction.
Qed.

Lemma prune_in p s : In s (prune p) -> In s p.
Proof.
  intros Hin. destruct (prune_spec p) as (pre & H & _). rewrite H. apply in_or_app. right; exact Hin.
Qed.

(* ---- scheduled wake-ups ---- *)
Lemma lmin_spec l m : lmin l = Some m -> In m l /\ forall x, In x l -> m <= x.
Proof.
  revert m; induction l as [|a r IH]; intros m H; cbn [lmin] in H; [discriminate|].
  destruct (lmin r) as [m'|] eqn:E.
  - injection H as <-. destruct (IH m' eq_refl) as [Hin Hle]. split.
    + destruct (N.min_spec a m') as [[_ ->]|[_ ->]]; [left; reflexivity|right; exact Hin].
    + intros x [<-|Hx]; [lia|]. specialize (Hle x Hx). lia.
  - injection H as <-. destruct r as [|b r]; [|cbn [lmin] in E; destruct (lmin r); discriminate].
    split; [left; reflexivity|]. intros x [<-|[]]. lia.
Qed.

Lemma lmin_none l : lmin l = None -> l = [].
Proof. destruct l as [|a r]; [reflexivity|]. cbn [lmin]. destruct (lmin r); discriminate. Qed.

Lemma remove1_in w l x : In x (remove1 w l) -> In x l.
Proof.
  induction l as [|a r IH]; cbn [remove1]; [exact (fun H => H)|].
  destruct (a =? w); [intros H; right; exact H|].
  intros [<-|H]; [left; reflexivity|right; exact (IH H)].
Qed.

Lemma remove1_keeps w l x : In x l -> x <> w -> In x (remove1 w l).
Proof.
  induction l as [|a r IH]; cbn [remove1]; [exact (fun H _ => H)|].
  intros [<-|H] Hne.
  - destruct (a =? w) eqn:E; [lia|left; reflexivity].
  - destruct (a =? w); [exact H|right; exact (IH H Hne)].
Qed.
