(* The timer futures of des as pure functions of [now] and the module's driver:
     des/src/time/sleep.rs      Sleep::{new, poll, reset_inner}, Drop of the entry handle
     des/src/time/timeout.rs    Timeout::poll (value before delay)
     des/src/time/interval.rs   Interval::poll_tick, MissedTickBehavior::next_timeout
   No proofs in this file. *)
From Coq Require Import List NArith Bool.
From DesVerif Require Import Timer.Driver.
Import ListNotations.
Open Scope N_scope.

(* ---- Sleep ---- *)
(* [handle = Some d]: an entry handle for the slot with deadline d is held *)
Record sleep := { deadline : N; sid : N; handle : option N }.

Definition sleep_new (d id : N) : sleep := {| deadline := d; sid := id; handle := None |}.

(* Sleep::poll: if deadline > now { register unless already scheduled; Pending }
   else { handle.take().resolve(); Ready }.  The stored waker is never refreshed. *)
Definition sleep_poll (now : N) (s : sleep) (dr : driver) : bool * sleep * driver :=
  if now <? deadline s then
    match handle s with
    | None => (false, {| deadline := deadline s; sid := sid s; handle := Some (deadline s) |},
               register (sid s) (deadline s) dr)
    | Some _ => (false, s, dr)
    end
  else (true, {| deadline := deadline s; sid := sid s; handle := None |}, dr).

(* Sleep::reset_inner: if let Some(h) = handle.take() { h.reset(deadline); }  deadline = new *)
Definition sleep_reset (s : sleep) (d' : N) (dr : driver) : sleep * driver :=
  ({| deadline := d'; sid := sid s; handle := None |},
   match handle s with
   | Some d => reset_entry (sid s) d d' dr
   | None => dr
   end).

(* dropping a Sleep drops its handle *)
Definition sleep_drop (s : sleep) (dr : driver) : driver :=
  match handle s with
  | Some d => drop_entry (sid s) d dr
  | None => dr
  end.

(* ---- Timeout ---- *)
Inductive tresult := TPending | TOk | TElapsed.

Section Timeout.
  (* the value future: any state type with any poll function over the same driver *)
  Variable V : Type.
  Variable vpoll : N -> V -> driver -> bool * V * driver.

  (* Timeout::poll: first the value; only if it is pending, the delay *)
  Definition timeout_poll (now : N) (v : V) (dl : sleep) (dr : driver) : tresult * V * sleep * driver :=
    let '(vr, v', dr1) := vpoll now v dr in
    if vr then (TOk, v', dl, dr1)
    else
      let '(r, dl', dr2) := sleep_poll now dl dr1 in
      if r then (TElapsed, v', dl', dr2) else (TPending, v', dl', dr2).

  (* the future is polled at the instants [ts], in order, until it completes:
     (instant of completion, result) *)
  Fixpoint timeout_run (ts : list N) (v : V) (dl : sleep) (dr : driver) : option (N * tresult) :=
    match ts with
    | [] => None
    | t :: r =>
      let '(res, v', dl', dr') := timeout_poll t v dl dr in
      match res with
      | TPending => timeout_run r v' dl' dr'
      | _ => Some (t, res)
      end
    end.
End Timeout.

Arguments timeout_poll {V}.
Arguments timeout_run {V}.

(* ---- Interval ---- *)
Inductive behaviour := Burst | Delay | Skip.

Record interval := { iv_delay : sleep; iv_period : N; iv_beh : behaviour }.

(* a tick counts as missed when it is taken more than 5 ms after it was due *)
Definition GRACE : N := 5000000.

(* MissedTickBehavior::next_timeout(timeout, now, period) *)
Definition next_timeout (b : behaviour) (timeout now period : N) : N :=
  match b with
  | Burst => timeout + period
  | Delay => now + period
  | Skip => now + period - ((now - timeout) mod period)
  end.

Definition tick_next (b : behaviour) (timeout now period : N) : N :=
  if timeout + GRACE <? now then next_timeout b timeout now period else timeout + period.

(* Interval::poll_tick: ready!(delay.poll); timeout = delay.deadline();
   delay.reset(next); Ready(timeout) *)
Definition poll_tick (now : N) (iv : interval) (dr : driver) : option N * interval * driver :=
  let '(r, s1, dr1) := sleep_poll now (iv_delay iv) dr in
  if r then
    let timeout := deadline s1 in
    let '(s2, dr2) := sleep_reset s1 (tick_next (iv_beh iv) timeout now (iv_period iv)) dr1 in
    (Some timeout, {| iv_delay := s2; iv_period := iv_period iv; iv_beh := iv_beh iv |}, dr2)
  else (None, {| iv_delay := s1; iv_period := iv_period iv; iv_beh := iv_beh iv |}, dr1).

(* interval_at(start, period) with the chosen behaviour; [id] is the id of its Sleep *)
Definition interval_new (start period : N) (b : behaviour) (id : N) : interval :=
  {| iv_delay := sleep_new start id; iv_period := period; iv_beh := b |}.

(* tick() is awaited at the instants [ts] (one poll each); the instants returned by the
   polls that were Ready *)
Fixpoint tick_seq (ts : list N) (iv : interval) (dr : driver) : list N :=
  match ts with
  | [] => []
  | t :: r =>
    let '(res, iv', dr') := poll_tick t iv dr in
    match res with
    | Some x => x :: tick_seq r iv' dr'
    | None => tick_seq r iv' dr'
    end
  end.

(* ---- the waker stored with a timer entry ---- *)
(* TimerSlotEntry.waker, kept as a table  entry id -> task  (newest binding first).
   Sleep::poll (after fix: commit 5af9a5f): the first poll with deadline > now registers the
   entry with the waker of the polling task; a later poll of the registered Sleep replaces
   the stored waker when it would wake another task (update_waker).  [fixed = false] is the
   code before that commit: the stored waker is never looked at again. *)
Definition wakers := list (N * nat).

Fixpoint waker_of (tab : wakers) (id : N) : option nat :=
  match tab with
  | [] => None
  | (i, k) :: r => if i =? id then Some k else waker_of r id
  end.

Definition sleep_poll_waker (fixed : bool) (now : N) (k : nat) (s : sleep) (tab : wakers) : wakers :=
  if now <? deadline s then
    match handle s with
    | None => (sid s, k) :: tab
    | Some _ => if fixed then (sid s, k) :: tab else tab
    end
  else tab.

(* the same, told from the Sleep as it is after the poll and whether it was registered before *)
Definition note_poll (fixed : bool) (k : nat) (was_registered : bool) (s_after : sleep) (tab : wakers) : wakers :=
  match handle s_after with
  | None => tab
  | Some _ => if was_registered && negb fixed then tab else (sid s_after, k) :: tab
  end.

(* the Sleep is polled by task k at instant t, for each (t, k) of the list in turn *)
Fixpoint poll_seq (fixed : bool) (polls : list (N * nat)) (s : sleep) (dr : driver) (tab : wakers)
  : sleep * driver * wakers :=
  match polls with
  | [] => (s, dr, tab)
  | (t, k) :: r =>
    let tab' := sleep_poll_waker fixed t k s tab in
    let '(_, s', dr') := sleep_poll t s dr in
    poll_seq fixed r s' dr' tab'
  end.
